import FatVerif.Proofs.FileSimFatFree
/-!
# FileSim, part 15: `File::truncate` simulates the cursor machine's `truncate`
-/
namespace FatVerif.FileSim
open FatVerif FatVerif.Fat

/-- a suffix of a chain is the chain of its first cluster -/
theorem chain_drop {g : Nat → FatValue} {c0 : Nat} {cs : List Nat} (h : Chain g c0 cs) :
    ∀ i x, cs[i]? = some x → Chain g x (cs.drop i) := by
  induction h with
  | last m hl =>
    intro i x hi
    cases i with
    | zero => simp at hi; subst hi; exact Chain.last m hl
    | succ i => simp at hi
  | cons m k ms hd hch ih =>
    intro i x hi
    cases i with
    | zero => simp at hi; subst hi; exact Chain.cons m k ms hd hch
    | succ i => exact ih i x (by simpa using hi)

/-- cutting a chain after its `i`-th cluster: in a view where that cluster no longer links and the clusters before it
    are unchanged, the prefix is the chain -/
theorem chain_take {g g' : Nat → FatValue} {c0 : Nat} {cs : List Nat} (h : Chain g c0 cs) :
    ∀ i x, cs[i]? = some x → (∀ n, g' x ≠ .data n) → (∀ j y, j < i → cs[j]? = some y → g' y = g y) →
      Chain g' c0 (cs.take (i + 1)) := by
  induction h with
  | last m hl =>
    intro i x hi hx _
    cases i with
    | zero => simp at hi; subst hi; exact Chain.last m hx
    | succ i => simp at hi
  | cons m k ms hd hch ih =>
    intro i x hi hx hsame
    cases i with
    | zero => simp at hi; subst hi; exact Chain.last m hx
    | succ i =>
      have hm : g' m = g m := hsame 0 m (by omega) (by simp)
      refine Chain.cons m k (ms.take (i + 1)) (by rw [hm]; exact hd) ?_
      exact ih i x (by simpa using hi) hx (fun j y hj hy => hsame (j + 1) y (by omega) (by simpa using hy))

theorem mem_take_of_getElem? {l : List Nat} {n : Nat} {y : Nat} (h : y ∈ l.take n) :
    ∃ j, j < n ∧ l[j]? = some y := by
  obtain ⟨j, hj, he⟩ := List.getElem_of_mem h
  rw [List.length_take] at hj
  refine ⟨j, by omega, ?_⟩
  rw [List.getElem_take] at he
  rw [List.getElem?_eq_getElem (by omega), he]

/-- `File::truncate` after the editor has been updated -/
def truncBody (f1 : FileH) : Prog FileH :=
  match f1.currentCluster with
  | some cur => do
    if f1.offset = 0 then .fail .panic
    else do
      truncateClusterChain cur
      pure f1
  | none =>
    if f1.offset ≠ 0 then .fail .panic
    else match f1.firstCluster with
      | some n => do
        freeClusterChain n
        pure { f1 with firstCluster := none }
      | none => pure f1

/-- the editor update of `File::truncate` -/
def truncEditor (f : FileH) (e : DirEntryEditor) (ft : FatType) : DirEntryEditor :=
  if f.offset = 0 then (e.setSize f.offset).setFirstCluster none ft else e.setSize f.offset

theorem truncate_eq (f : FileH) (e : DirEntryEditor) (he : f.entry = some e) :
    f.truncate = (setDirtyFlag true >>= fun _ => Prog.getFs >>= fun fs =>
      truncBody { f with entry := some (truncEditor f e fs.fatType) }) := by
  unfold FileH.truncate truncBody truncEditor
  simp only [he]
  rfl

theorem size?_truncEditor (f : FileH) (e : DirEntryEditor) (ft : FatType) (sz : Nat)
    (h : e.data.size? = some sz) : (truncEditor f e ft).data.size? = some f.offset := by
  unfold truncEditor
  split
  · rw [size?_setFirstCluster]; exact size?_setSize e sz _ h
  · exact size?_setSize e sz _ h

/-- **`truncate_sim`.**  `File::truncate` on a fault-free device: succeeds; the recorded size becomes the cursor
    position; the FAT chain is cut after the current cluster (its tail freed, the current cluster marked end-of-chain) or
    — at position 0 — freed entirely and the first cluster cleared; the new handle on the new image is core-equal to the
    machine's state after `truncate` and represented again; the FS-info bookkeeping stays consistent. -/
theorem truncate_sim (f : FileH) (d : Dev)
    (hfa : d.failAt = none) (hg : Geo d.fs d.img.size) (hrep : FileRep d.fs d.img f) (hwf : d.img.WF)
    (hinfo : InfoOk d.fs d.img) :
    ∃ f' d', run f.truncate d = (.ok f', d') ∧ DevStep d d' ∧
      ((absFile d.fs d.img f).truncate (fatAllocator d.fs.totalClusters d.fs.fsInfo.next)
        (tabView d.fs d.img)).1 = .ok () ∧
      CoreEq (absFile d'.fs d'.img f') ((absFile d.fs d.img f).truncate
        (fatAllocator d.fs.totalClusters d.fs.fsInfo.next) (tabView d.fs d.img)).2.1 ∧
      FileRep d'.fs d'.img f' ∧ InfoOk d'.fs d'.img ∧
      (∀ q, d'.img.getByte q ≠ d.img.getByte q → q = statusOff d.fs ∨
        ∃ x ∈ fileChain d.fs d.img f, FatEntryPos d.fs x q) ∧
      (∀ x, x ∉ fileChain d.fs d.img f → tabView d'.fs d'.img x = tabView d.fs d.img x) ∧
      (∀ x ∈ fileChain d'.fs d'.img f', x ∈ fileChain d.fs d.img f) ∧
      (∀ E D : Nat → Prop, (∀ x ∈ fileChain d.fs d.img f, E x) → Trace d.fs E D d d') := by
  obtain ⟨sz, hsz⟩ := hrep.file
  have hinv := hrep.inv
  have hcsp := hg.cs_pos
  have hasz : (absFile d.fs d.img f).size = sz := by simp [absFile, hsz]
  have hoff : f.offset ≤ sz := by have := hinv.off_le; rw [hasz] at this; exact this
  have hszle : sz ≤ 4294967295 := by have := hinv.size_le; rw [hasz] at this; exact this
  obtain ⟨e, he, hesz⟩ : ∃ e, f.entry = some e ∧ e.data.size? = some sz := by
    unfold FileH.size? at hsz
    cases hfe : f.entry with
    | none => rw [hfe] at hsz; cases hsz
    | some e => rw [hfe] at hsz; exact ⟨e, rfl, hsz⟩
  -- set_dirty_flag
  obtain ⟨d1, hr1, hs1, hcd1, hinfo1, hb1⟩ := run_setDirtyFlag_true d hfa (by
    have := hg.status_lt; have := hg.fat_dev; omega)
  have hfat1 : FatAgree d.fs d.img d1.img := fun q h1 _ => hb1 hwf q (by have := hg.status_lt; omega)
  have hfatdata : (fatSliceOf d.fs).beginOff ≤ d.fs.firstDataSector * d.fs.bps := by
    have := hg.fat_data; omega
  have hdat1 : DataAgree d.fs d.img d1.img := fun q h1 => hb1 hwf q (by have := hg.status_lt; omega)
  obtain ⟨hab1, hrep1, hinfoOk1, htv1⟩ := frame_all hg hrep hinfo hs1.geom hinfo1 hfat1 hdat1
  have hg1 : Geo d1.fs d1.img.size := by rw [hs1.size]; exact hg.frame hs1.geom
  have hd1 : FatDev d1.fs d1 := ⟨by rw [hs1.failAt]; exact hfa, hcd1, hs1.wf hwf, hg1⟩
  have htot1 : d1.fs.totalClusters = d.fs.totalClusters := hs1.geom.totalClusters
  have hstatus := setDirtyFlag_only_status d d1 hr1 hfa (by
    have := hg.status_lt; have := hg.fat_dev; omega) hwf
  have htr1 : ∀ E D : Nat → Prop, Trace d.fs E D d d1 := setDirtyFlag_trace d d1 hr1 hfa (by
    have := hg.status_lt; have := hg.fat_dev; omega)
  have hfe : ∀ x q, FatEntryPos d1.fs x q ↔ FatEntryPos d.fs x q := by
    intro x q; unfold FatEntryPos
    rw [hs1.geom.fatSlice, hs1.geom.fatType]
  -- differences of a step that only rewrites FAT entries of clusters of the chain
  have hdiff : ∀ (d' : Dev) (cs : List Nat), (∀ x ∈ cs, x ∈ fileChain d.fs d.img f) →
      (∀ q, (∀ x ∈ cs, ¬ FatEntryPos d1.fs x q) → d'.img.getByte q = d1.img.getByte q) →
      ∀ q, d'.img.getByte q ≠ d.img.getByte q → q = statusOff d.fs ∨
        ∃ x ∈ fileChain d.fs d.img f, FatEntryPos d.fs x q := by
    intro d' cs hsub hfi q hne
    by_cases hsq : q = statusOff d.fs
    · exact Or.inl hsq
    · by_cases hex : ∃ x ∈ cs, FatEntryPos d1.fs x q
      · obtain ⟨x, hx, hxq⟩ := hex
        exact Or.inr ⟨x, hsub x hx, (hfe x q).mp hxq⟩
      · exfalso; apply hne
        rw [hfi q (fun x hx h => hex ⟨x, hx, h⟩)]
        exact hstatus q hsq
  rw [truncate_eq f e he, run_bind_ok hr1, run_bind_ok (run_getFs d1)]
  -- the handle with the updated editor
  generalize hf1 : ({ f with entry := some (truncEditor f e d1.fs.fatType) } : FileH) = f1
  have hf1sz : f1.size? = some f.offset := by
    rw [← hf1]; unfold FileH.size?; exact size?_truncEditor f e _ sz hesz
  have hf1first : f1.firstCluster = f.firstCluster := by rw [← hf1]
  have hf1cur : f1.currentCluster = f.currentCluster := by rw [← hf1]
  have hf1off : f1.offset = f.offset := by rw [← hf1]
  have hlive : ∀ x ∈ fileChain d.fs d.img f,
      2 ≤ x ∧ x < d1.fs.totalClusters + 2 ∧ tabView d1.fs d1.img x ≠ .free := by
    intro x hx
    rw [htot1, htv1]
    exact ⟨(hrep.inTab x hx).1, (hrep.inTab x hx).2, hinv.live x hx⟩
  obtain ⟨hres, hiA, _, _⟩ := hinv.truncate_refines (fatAllocator_laws d.fs.totalClusters d.fs.fsInfo.next)
  generalize hA : fatAllocator d.fs.totalClusters d.fs.fsInfo.next = A at hres hiA ⊢
  -- data region and FAT frame for a step that only touches the FAT copies
  have hframe : ∀ d' : Dev, FsGeomEq d1.fs d'.fs →
      (∀ q, OutsideFat d1.fs q → d'.img.getByte q = d1.img.getByte q) → DataAgree d.fs d.img d'.img := by
    intro d' _ hfr q hq
    have hfd := hg.fat_data
    rw [hfr q (Or.inr (by rw [hs1.geom.fatSlice]; omega))]
    exact hdat1 q hq
  have hcore_of : ∀ (d' : Dev) (f' : FileH) (b : Cursor.AFile), FsGeomEq d1.fs d'.fs → DataAgree d.fs d.img d'.img →
      fileChain d'.fs d'.img f' = b.chain → b.cs = d.fs.clusterSize → b.data = (absFile d.fs d.img f).data →
      f'.size?.getD 0 = b.size → f'.firstCluster = b.firstCluster → f'.offset = b.offset →
      f'.currentCluster = b.current → CoreEq (absFile d'.fs d'.img f') b := by
    intro d' f' b hgeo hda hch hcs hdata hsz' hfirst hoff' hcur
    refine ⟨?_, hch, ?_, hsz', hfirst, hoff', hcur⟩
    · show d'.fs.clusterSize = b.cs
      rw [hcs, hgeo.clusterSize, hs1.geom.clusterSize]
    · intro c _ j _
      show d'.img.getByte (clusterOff d'.fs c + j) = b.data c j
      rw [hdata, hgeo.clusterOff, hs1.geom.clusterOff]
      apply hda
      have : d.fs.firstDataSector * d.fs.bps ≤ clusterOff d.fs c := by
        unfold clusterOff; exact Nat.mul_le_mul_right _ (Nat.le_add_right _ _)
      omega
  have hcur := hinv.cur
  have hcur' : f.currentCluster = if f.offset = 0 then none
      else (fileChain d.fs d.img f)[(f.offset - 1) / d.fs.clusterSize]? := hcur
  cases hcc : f.currentCluster with
  | some cur =>
    rw [hcc] at hcur'
    have ho : f.offset ≠ 0 := by intro e0; rw [if_pos e0] at hcur'; cases hcur'
    rw [if_neg ho] at hcur'
    have hci : (fileChain d.fs d.img f)[(f.offset - 1) / d.fs.clusterSize]? = some cur := hcur'.symm
    generalize hidx : (f.offset - 1) / d.fs.clusterSize = i at hci
    have hilt : i < (fileChain d.fs d.img f).length := by
      rcases Nat.lt_or_ge i (fileChain d.fs d.img f).length with h | h
      · exact h
      · rw [List.getElem?_eq_none h] at hci; cases hci
    obtain ⟨c0, hc0⟩ := hrep.first_of_mem (List.mem_of_getElem? hci)
    have hch := hrep.chain c0 hc0
    -- the tail that is freed
    have hdrop : (fileChain d.fs d.img f).drop i = cur :: (fileChain d.fs d.img f).drop (i + 1) := by
      rw [List.drop_eq_getElem_cons hilt]
      congr 1
      have := List.getElem?_eq_getElem hilt
      rw [this] at hci; exact Option.some.inj hci
    have hchd : Chain (tabView d1.fs d1.img) cur (cur :: (fileChain d.fs d.img f).drop (i + 1)) := by
      rw [htv1, ← hdrop]; exact chain_drop hch i cur hci
    have hnd : (fileChain d.fs d.img f).Nodup := hinv.nodup
    have hndd : (cur :: (fileChain d.fs d.img f).drop (i + 1)).Nodup := by
      rw [← hdrop]; exact (hnd.sublist (List.drop_sublist _ _))
    have hind : ∀ x ∈ cur :: (fileChain d.fs d.img f).drop (i + 1),
        2 ≤ x ∧ x < d1.fs.totalClusters + 2 ∧ tabView d1.fs d1.img x ≠ .free := by
      intro x hx; rw [← hdrop] at hx; exact hlive x (List.mem_of_mem_drop hx)
    obtain ⟨d2, hr2, hst2, htv2, hinfo2, hfr2, hfi2, htr2⟩ := run_truncateClusterChain_fine cur _ d1 hd1 hinfoOk1 hchd hndd hind
    rw [htv1] at htv2
    have hrun : run (truncBody f1) d1 = (.ok f1, d2) := by
      unfold truncBody
      rw [hf1cur, hcc]
      simp only
      rw [hf1off, if_neg ho, run_bind_ok hr2]
      rfl
    -- the machine
    have hacur : (absFile d.fs d.img f).current = some cur := hcc
    have hatr := Cursor.truncate_some (A := A) (s := tabView d.fs d.img) hacur
      (show (absFile d.fs d.img f).offset ≠ 0 from ho)
    obtain ⟨hcut, _⟩ := Cursor.cutAfter_of_getElem? (fileChain d.fs d.img f) i cur hnd hci
    have hcut' : Cursor.cutAfter cur (absFile d.fs d.img f).chain = (fileChain d.fs d.img f).take (i + 1) := hcut
    rw [hatr, hcut'] at hiA ⊢
    -- the chain in the new FAT
    have hnotin : ∀ j y, j < i + 1 → (fileChain d.fs d.img f)[j]? = some y →
        y ∉ (fileChain d.fs d.img f).drop (i + 1) := by
      intro j y hj hy hmem
      obtain ⟨k, hk, hke⟩ := List.getElem_of_mem hmem
      rw [List.getElem_drop] at hke
      rw [List.length_drop] at hk
      have h2 : (fileChain d.fs d.img f)[i + 1 + k]? = some y := by
        rw [List.getElem?_eq_getElem (by omega), hke]
      have := Cursor.nodup_getElem?_inj hnd hy h2
      omega
    have hg2view : ∀ j y, j < i + 1 → (fileChain d.fs d.img f)[j]? = some y →
        tabView d2.fs d2.img y = if y = cur then .eoc else tabView d.fs d.img y := by
      intro j y hj hy
      rw [htv2]
      unfold freedView
      rw [if_neg (hnotin j y hj hy)]
      unfold updV
      rfl
    have hch2 : Chain (tabView d2.fs d2.img) c0 ((fileChain d.fs d.img f).take (i + 1)) := by
      refine chain_take hch i cur hci ?_ ?_
      · intro n hn
        rw [hg2view i cur (by omega) hci, if_pos rfl] at hn; cases hn
      · intro j y hj hy
        rw [hg2view j y (by omega) hy, if_neg]
        intro e; subst e
        have := Cursor.nodup_getElem?_inj hnd hy hci
        omega
    have hfc2 : fileChain d2.fs d2.img f1 = (fileChain d.fs d.img f).take (i + 1) := by
      have e1 : fileChain d2.fs d2.img f1 = chainFrom (tabView d2.fs d2.img) (d2.fs.totalClusters + 2) c0 := by
        unfold fileChain; rw [hf1first, hc0]
      rw [e1]
      refine chainFrom_of_chain hch2 _ ?_
      have hndt : ((fileChain d.fs d.img f).take (i + 1)).Nodup := hnd.sublist (List.take_sublist _ _)
      have := nodup_length_le hndt (fun x hx => (hrep.inTab x (List.mem_of_mem_take hx)).2)
      rw [hst2.geom.totalClusters, htot1]
      omega
    have hgeo2 : FsGeomEq d1.fs d2.fs := hst2.geom
    have hda2 := hframe d2 hgeo2 hfr2
    have hcore : CoreEq (absFile d2.fs d2.img f1)
        { (absFile d.fs d.img f).truncEntry with chain := (fileChain d.fs d.img f).take (i + 1) } :=
      hcore_of d2 f1 _ hgeo2 hda2 hfc2 rfl rfl (by rw [hf1sz]; rfl) hf1first hf1off hf1cur
    refine ⟨f1, d2, hrun, hs1.trans hst2, rfl, hcore, ?_, hinfo2,
      hdiff d2 _ (fun x hx => by rw [← hdrop] at hx; exact List.mem_of_mem_drop hx) hfi2, ?_, ?_,
      fun E D hE => (htr1 E D).trans ((htr2 E D (fun x hx => hE x (by
        rw [← hdrop] at hx; exact List.mem_of_mem_drop hx))).frame hs1.geom.symm)⟩
    rotate_left 1
    · intro x hx
      rw [htv2]
      unfold freedView
      rw [if_neg (fun h => hx (List.mem_of_mem_drop h)),
        updV_ne _ _ _ _ (fun e => hx (by rw [e]; exact List.mem_of_getElem? hci))]
    · intro x hx
      rw [hfc2] at hx; exact List.mem_of_mem_take hx
    have hbase := AFileInv.of_coreEq hcore hiA
    refine ⟨⟨_, hf1sz⟩, ⟨hbase.cs_pos, hbase.nodup, hbase.first, hbase.cover, hbase.off_le, hbase.size_le,
      hbase.cur, ?_⟩, ?_, ?_, ?_⟩
    · intro x hx
      have hx' : x ∈ fileChain d2.fs d2.img f1 := hx
      rw [hfc2] at hx'
      obtain ⟨j, hj, hjy⟩ := mem_take_of_getElem? hx'
      show tabView d2.fs d2.img x ≠ .free
      rw [hg2view j x hj hjy]
      split
      · intro h; cases h
      · exact hinv.live x (List.mem_of_mem_take hx')
    · intro x hx
      rw [hf1first, hc0] at hx; cases hx
      rw [hfc2]; exact hch2
    · intro x hx
      rw [hfc2] at hx
      rw [hst2.geom.totalClusters, htot1]
      exact hrep.inTab x (List.mem_of_mem_take hx)
    · intro x hx
      rw [hfc2] at hx
      have hlast : ((fileChain d.fs d.img f).take (i + 1)).getLast? = some cur := by
        rw [List.getLast?_eq_getElem?, List.length_take, Nat.min_eq_left (by omega)]
        simp only [Nat.add_sub_cancel]
        rw [List.getElem?_take, if_pos (by omega)]; exact hci
      rw [hlast] at hx
      cases hx
      rw [hg2view i cur (by omega) hci, if_pos rfl]
  | none =>
    rw [hcc] at hcur'
    have ho : f.offset = 0 := by
      by_cases e0 : f.offset = 0
      · exact e0
      · rw [if_neg e0] at hcur'
        have hidx : (f.offset - 1) / d.fs.clusterSize < (fileChain d.fs d.img f).length :=
          hinv.index_lt (by rw [hasz]; show f.offset - 1 < sz; omega)
        rw [List.getElem?_eq_getElem hidx] at hcur'; cases hcur'
    have hacur : (absFile d.fs d.img f).current = none := hcc
    cases hfirst : f.firstCluster with
    | some n =>
      have hch := hrep.chain n hfirst
      have hch1 : Chain (tabView d1.fs d1.img) n (fileChain d.fs d.img f) := by rw [htv1]; exact hch
      obtain ⟨d2, hr2, hst2, htv2, hinfo2, hfr2, hfi2, htr2⟩ := run_freeClusterChain_fine n _ d1 hd1 hinfoOk1 hch1 hinv.nodup hlive
      have hrun : run (truncBody f1) d1 = (.ok { f1 with firstCluster := none }, d2) := by
        unfold truncBody
        rw [hf1cur, hcc]
        simp only
        rw [hf1off, if_neg (fun h => h ho), hf1first, hfirst]
        simp only
        rw [run_bind_ok hr2]
        rfl
      have hatr := Cursor.truncate_none_some (A := A) (s := tabView d.fs d.img) hacur
        (show (absFile d.fs d.img f).offset = 0 from ho) (show (absFile d.fs d.img f).firstCluster = some n from hfirst)
      rw [hatr] at hiA ⊢
      have hgeo2 : FsGeomEq d1.fs d2.fs := hst2.geom
      have hda2 := hframe d2 hgeo2 hfr2
      have hfc2 : fileChain d2.fs d2.img { f1 with firstCluster := none } = [] := rfl
      have hcore : CoreEq (absFile d2.fs d2.img { f1 with firstCluster := none })
          { (absFile d.fs d.img f).truncEntry with chain := [], firstCluster := none } :=
        hcore_of d2 _ _ hgeo2 hda2 hfc2 rfl rfl (by
          show ({ f1 with firstCluster := none } : FileH).size?.getD 0 = _
          have : ({ f1 with firstCluster := none } : FileH).size? = f1.size? := rfl
          rw [this, hf1sz]; rfl) rfl hf1off hf1cur
      refine ⟨_, d2, hrun, hs1.trans hst2, rfl, hcore, ?_, hinfo2, hdiff d2 _ (fun x hx => hx) hfi2, ?_, ?_,
        fun E D hE => (htr1 E D).trans ((htr2 E D hE).frame hs1.geom.symm)⟩
      rotate_left 1
      · intro x hx
        rw [htv2, htv1]
        unfold freedView
        rw [if_neg hx]
      · intro x hx; rw [hfc2] at hx; cases hx
      have hbase := AFileInv.of_coreEq hcore hiA
      refine ⟨⟨_, hf1sz⟩, ⟨hbase.cs_pos, hbase.nodup, hbase.first, hbase.cover, hbase.off_le, hbase.size_le,
        hbase.cur, ?_⟩, ?_, ?_, ?_⟩
      · intro x hx; cases hx
      · intro x hx; cases hx
      · intro x hx; cases hx
      · intro x hx; cases hx
    | none =>
      have hrun : run (truncBody f1) d1 = (.ok f1, d1) := by
        unfold truncBody
        rw [hf1cur, hcc]
        simp only
        rw [hf1off, if_neg (fun h => h ho), hf1first, hfirst]
        rfl
      have hatr := Cursor.truncate_none_none (A := A) (s := tabView d.fs d.img) hacur
        (show (absFile d.fs d.img f).offset = 0 from ho) (show (absFile d.fs d.img f).firstCluster = none from hfirst)
      rw [hatr] at hiA ⊢
      have hnil : fileChain d.fs d.img f = [] := by unfold fileChain; rw [hfirst]
      have hfc1 : fileChain d1.fs d1.img f1 = (absFile d.fs d.img f).truncEntry.chain := by
        unfold fileChain; rw [hf1first, hfirst]; exact hnil.symm
      have hcore : CoreEq (absFile d1.fs d1.img f1) (absFile d.fs d.img f).truncEntry :=
        hcore_of d1 f1 _ (FsGeomEq.refl _) hdat1 hfc1 rfl rfl (by rw [hf1sz]; rfl) hf1first hf1off
          hf1cur
      refine ⟨f1, d1, hrun, hs1, rfl, hcore, ?_, hinfoOk1, hdiff d1 [] (fun x hx => by cases hx) (fun q _ => rfl),
        fun x _ => by rw [htv1], ?_, fun E D _ => htr1 E D⟩
      rotate_left 1
      · intro x hx
        have hx' : x ∈ fileChain d1.fs d1.img f1 := hx
        rw [hfc1] at hx'
        exact hx'
      have hbase := AFileInv.of_coreEq hcore hiA
      have hfc1' : fileChain d1.fs d1.img f1 = [] := by rw [hfc1]; exact hnil
      refine ⟨⟨_, hf1sz⟩, ⟨hbase.cs_pos, hbase.nodup, hbase.first, hbase.cover, hbase.off_le, hbase.size_le,
        hbase.cur, ?_⟩, ?_, ?_, ?_⟩
      · intro x hx
        have hx' : x ∈ fileChain d1.fs d1.img f1 := hx
        rw [hfc1'] at hx'; cases hx'
      · intro x hx; rw [hf1first, hfirst] at hx; cases hx
      · intro x hx; rw [hfc1'] at hx; cases hx
      · intro x hx; rw [hfc1'] at hx; cases hx

end FatVerif.FileSim
