import FatVerif.Proofs.FsCountCycle
/-! What reaches the FS-info sector at unmount: the hint across a session. -/
namespace FatVerif.FsCount
open FatVerif.Fat

/-- operations between mount and unmount -/
def isSessionOp : Op → Bool
  | .stats | .alloc _ | .free _ | .truncate _ => true
  | _ => false

/-- session operations that never allocate -/
def isNonAllocOp : Op → Bool
  | .stats | .free _ | .truncate _ => true
  | _ => false

theorem freeOp_info {s s' : FsCountState} {c : Nat} (h : freeOp s c = .ok s') :
    ∃ n, s'.info = s.info.mapFree (· + n) ∧ s'.total = s.total ∧ s'.fat32 = s.fat32 := by
  unfold freeOp at h
  cases hf : freeChainV s.fat (some c) (chainFuel s) 0 with
  | none => rw [hf] at h; cases h
  | some r => obtain ⟨n, g'⟩ := r; rw [hf] at h; cases h; exact ⟨n, rfl, rfl, rfl⟩

theorem truncateOp_info {s s' : FsCountState} {c : Nat} (h : truncateOp s c = .ok s') :
    ∃ n, s'.info = s.info.mapFree (· + n) ∧ s'.total = s.total ∧ s'.fat32 = s.fat32 := by
  unfold truncateOp at h
  cases hf : truncateChainV s.fat c (chainFuel s) with
  | none => rw [hf] at h; cases h
  | some r => obtain ⟨n, g'⟩ := r; rw [hf] at h; cases h; exact ⟨n, rfl, rfl, rfl⟩

theorem mapFree_dirty (i : Info) (f : Nat → Nat) (h : i.dirty = true) : (i.mapFree f).dirty = true := by
  unfold Info.mapFree; cases i.free <;> simp [h]

/-- the hint names a valid cluster, is present, and the sector is marked for writing -/
def AfterAlloc (s : FsCountState) : Prop := HintStrict s ∧ s.info.next.isSome = true ∧ s.info.dirty = true

theorem afterAlloc_of_alloc {s s' : FsCountState} {prev : Option Nat} {c : Nat}
    (hh : ∀ n, s.info.next = some n → 2 ≤ n) (h : allocOp s prev = .ok (s', c)) : AfterAlloc s' := by
  obtain ⟨_, _, _, _, hnext, _, _, hd⟩ := allocOp_ok h
  exact ⟨(allocOp_hintStrict hh h).1, by rw [hnext]; rfl, hd⟩

theorem afterAlloc_step {s s' : FsCountState} {op : Op} {out : Out} (hp : AfterAlloc s) (hop : isSessionOp op = true)
    (h : step s op = .ok (s', out)) : AfterAlloc s' ∧ s'.total = s.total ∧ s'.fat32 = s.fat32 := by
  obtain ⟨hs, hn, hd⟩ := hp
  cases op with
  | mount d rf rn => cases hop
  | unmount => cases hop
  | stats =>
    simp only [step] at h; cases h
    obtain ⟨_, e2, e3, e4⟩ := statsOp_fat s
    refine ⟨⟨?_, by rw [e4]; exact hn, ?_⟩, e2, e3⟩
    · intro x hx; rw [e4] at hx; rw [e2]; exact hs x hx
    · unfold statsOp; cases s.info.free <;> simp [hd]
  | alloc prev =>
    simp only [step] at h
    cases ha : allocOp s prev with
    | error e => rw [ha] at h; cases h
    | ok r =>
      obtain ⟨s1, c⟩ := r
      rw [ha] at h; cases h
      obtain ⟨_, _, htot, h32, _⟩ := allocOp_ok ha
      exact ⟨afterAlloc_of_alloc (fun n hx => (hs n hx).1) ha, htot, h32⟩
  | free c =>
    simp only [step] at h
    cases ha : freeOp s c with
    | error e => rw [ha] at h; cases h
    | ok s1 =>
      rw [ha] at h; cases h
      obtain ⟨n, e1, e2, e3⟩ := freeOp_info ha
      refine ⟨⟨?_, by rw [e1, mapFree_next]; exact hn, by rw [e1]; exact mapFree_dirty _ _ hd⟩, e2, e3⟩
      intro x hx; rw [e1, mapFree_next] at hx; rw [e2]; exact hs x hx
  | truncate c =>
    simp only [step] at h
    cases ha : truncateOp s c with
    | error e => rw [ha] at h; cases h
    | ok s1 =>
      rw [ha] at h; cases h
      obtain ⟨n, e1, e2, e3⟩ := truncateOp_info ha
      refine ⟨⟨?_, by rw [e1, mapFree_next]; exact hn, by rw [e1]; exact mapFree_dirty _ _ hd⟩, e2, e3⟩
      intro x hx; rw [e1, mapFree_next] at hx; rw [e2]; exact hs x hx

theorem afterAlloc_runOps : ∀ (ops : List Op) (s s' : FsCountState), AfterAlloc s →
    (∀ op, op ∈ ops → isSessionOp op = true) → runOps s ops = .ok s' →
    AfterAlloc s' ∧ s'.total = s.total ∧ s'.fat32 = s.fat32 := by
  intro ops
  induction ops with
  | nil => intro s s' hp _ h; simp only [runOps] at h; cases h; exact ⟨hp, rfl, rfl⟩
  | cons op ops ih =>
    intro s s' hp hall h
    simp only [runOps] at h
    cases hs : step s op with
    | error e => rw [hs] at h; cases h
    | ok r =>
      obtain ⟨s1, out⟩ := r
      rw [hs] at h; simp only at h
      obtain ⟨p1, t1, f1⟩ := afterAlloc_step hp (hall op (by simp)) hs
      obtain ⟨p2, t2, f2⟩ := ih s1 s' p1 (fun o ho => hall o (List.mem_cons_of_mem _ ho)) h
      exact ⟨p2, by rw [t2, t1], by rw [f2, f1]⟩

/-- without an allocation the hint keeps its mount-time value -/
theorem next_unchanged_step {s s' : FsCountState} {op : Op} {out : Out} (hop : isNonAllocOp op = true)
    (h : step s op = .ok (s', out)) : s'.info.next = s.info.next := by
  cases op with
  | mount d rf rn => cases hop
  | unmount => cases hop
  | alloc p => cases hop
  | stats => simp only [step] at h; cases h; exact (statsOp_fat s).2.2.2
  | free c =>
    simp only [step] at h
    cases ha : freeOp s c with
    | error e => rw [ha] at h; cases h
    | ok s1 => rw [ha] at h; cases h; obtain ⟨n, e1, _⟩ := freeOp_info ha; rw [e1, mapFree_next]
  | truncate c =>
    simp only [step] at h
    cases ha : truncateOp s c with
    | error e => rw [ha] at h; cases h
    | ok s1 => rw [ha] at h; cases h; obtain ⟨n, e1, _⟩ := truncateOp_info ha; rw [e1, mapFree_next]

theorem next_unchanged_runOps : ∀ (ops : List Op) (s s' : FsCountState),
    (∀ op, op ∈ ops → isNonAllocOp op = true) → runOps s ops = .ok s' → s'.info.next = s.info.next := by
  intro ops
  induction ops with
  | nil => intro s s' _ h; simp only [runOps] at h; cases h; rfl
  | cons op ops ih =>
    intro s s' hall h
    simp only [runOps] at h
    cases hs : step s op with
    | error e => rw [hs] at h; cases h
    | ok r =>
      obtain ⟨s1, out⟩ := r
      rw [hs] at h; simp only at h
      rw [ih s1 s' (fun o ho => hall o (List.mem_cons_of_mem _ ho)) h,
        next_unchanged_step (hall op (by simp)) hs]

end FatVerif.FsCount
