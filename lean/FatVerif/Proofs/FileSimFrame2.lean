import FatVerif.Proofs.FileSimFrame1
/-!
# FileSim / frame, part 2: operations on one file leave every other file alone

`execH_summary`: for each operation of a history on `f` — device step, which FAT entries keep their decoded value, where
the new chain comes from, where the image may differ.  `other_file_kept`: a represented file `g` whose chain is disjoint
from `f`'s keeps its representation and its abstraction (all three FAT types: stated on decoded entries, so the nibble
FAT12 neighbours share does not matter).
-/
namespace FatVerif.FileSim
open FatVerif FatVerif.Fat

/-- a handle is represented in another image as soon as the decoded FAT entries of its chain and the bytes of its
    clusters are the same -/
theorem FileRep.of_sem_agree {fs fs' : FsState} {img img' : Img} {g : FileH} (hrep : FileRep fs img g)
    (hgeo : FsGeomEq fs fs')
    (htv : ∀ c ∈ fileChain fs img g, tabView fs' img' c = tabView fs img c)
    (hdata : ∀ c ∈ fileChain fs img g, ∀ j, j < fs.clusterSize →
      img'.getByte (clusterOff fs c + j) = img.getByte (clusterOff fs c + j)) :
    FileRep fs' img' g ∧ CoreEq (absFile fs' img' g) (absFile fs img g) ∧
    fileChain fs' img' g = fileChain fs img g := by
  have hch : fileChain fs' img' g = fileChain fs img g := by
    unfold fileChain
    cases hf : g.firstCluster with
    | none => rfl
    | some c0 =>
      simp only
      rw [hgeo.totalClusters]
      apply chainFrom_congr
      intro c hc
      apply htv
      unfold fileChain; rw [hf]; exact hc
  have hcore : CoreEq (absFile fs' img' g) (absFile fs img g) := by
    refine ⟨hgeo.clusterSize, hch, ?_, rfl, rfl, rfl, rfl⟩
    intro c hc j hj
    show img'.getByte (clusterOff fs' c + j) = _
    rw [hgeo.clusterOff]
    exact hdata c hc j hj
  have hinv := hrep.inv
  refine ⟨⟨hrep.file, ?_, ?_, ?_, ?_⟩, hcore, hch⟩
  · have hbase := AFileInv.of_coreEq hcore hinv
    refine ⟨hbase.cs_pos, hbase.nodup, hbase.first, hbase.cover, hbase.off_le, hbase.size_le, hbase.cur, ?_⟩
    intro c hc
    have hc' : c ∈ fileChain fs' img' g := hc
    rw [hch] at hc'
    show tabView fs' img' c ≠ .free
    rw [htv c hc']; exact hinv.live c hc'
  · intro c hc
    rw [hch]
    exact chain_congr (hrep.chain c hc) htv
  · intro c hc; rw [hgeo.totalClusters]; exact hrep.inTab c (hch ▸ hc)
  · intro c hc
    rw [hch] at hc
    rw [htv c (List.mem_of_getLast? hc)]; exact hrep.last_eoc c hc

/-- what one operation of a history on `f` does, as far as other objects are concerned -/
structure OpSummary (f : FileH) (d : Dev) (f' : FileH) (d' : Dev) : Prop where
  step : DevStep d d'
  /-- decoded FAT entries of clusters that are neither `f`'s nor free are unchanged -/
  view : ∀ x, x ∉ fileChain d.fs d.img f → tabView d.fs d.img x ≠ .free →
    tabView d'.fs d'.img x = tabView d.fs d.img x
  /-- the new chain consists of old clusters of `f` and clusters that were free -/
  chain : ∀ x ∈ fileChain d'.fs d'.img f', x ∈ fileChain d.fs d.img f ∨ tabView d.fs d.img x = .free
  /-- the image differs only where `f` may write -/
  diff : ∀ q, d'.img.getByte q ≠ d.img.getByte q → MayTouchData d.fs d.img f q
  /-- the write records, classified: status byte, pieces of clusters of `f` / free clusters, read-modify-write entry
      windows of such clusters -/
  trace : Trace d.fs (OwnOrFree d.fs d.img f) (OwnOrFree d.fs d.img f) d d'

theorem OpSummary.of_sameStore {f f' : FileH} {d d' : Dev} (hs : SameStore d d')
    (hch : fileChain d.fs d.img f' = fileChain d.fs d.img f) : OpSummary f d f' d' :=
  ⟨DevStep.of_sameStore hs, fun x _ _ => by rw [hs.fs, hs.img],
   fun x hx => by rw [hs.fs, hs.img, hch] at hx; exact Or.inl hx,
   fun q hq => absurd (by rw [hs.img]) hq, Trace.of_sameStore hs⟩

theorem execH_summary_prim (op : HOp) (hp : op.isPrim) (f : FileH) (d : Dev) (h : SimInv f d)
    (hok : op.BytesOk) :
    OpSummary f d (execH op f d).2.1 (execH op f d).2.2 := by
  obtain ⟨hfa, hwf, hg, hrep, hinfo⟩ := h
  cases op with
  | read n =>
    obtain ⟨bs, f', d', hr, hs, _, hab, _⟩ := read_sim f n d hfa hg hrep
    simp only [execH, hr]
    exact OpSummary.of_sameStore hs (by
      show (absFile d.fs d.img f').chain = (absFile d.fs d.img f).chain
      rw [hab]
      exact (hrep.inv.read_post n).1.chain)
  | seek p =>
    rcases seek_sim f p d hfa hg hrep with ⟨pos, f', d', hr, hs, _, hab, _⟩ | ⟨hr, _⟩
    · simp only [execH, hr]
      refine OpSummary.of_sameStore hs ?_
      show (absFile d.fs d.img f').chain = (absFile d.fs d.img f).chain
      rw [hab]
      exact (Cursor.seek_chain_data _ _).1
    · simp only [execH, hr]
      exact OpSummary.of_sameStore (SameStore.refl d) rfl
  | readExact n => exact hp.elim
  | writeAll bs => exact hp.elim
  | write bs =>
    have hbytes := hok bs (Or.inl rfl)
    have hfp := write_footprint f bs d ⟨hfa, hwf, hg, hrep, hinfo⟩ hbytes
    have htrc := write_trace f bs d ⟨hfa, hwf, hg, hrep, hinfo⟩ hbytes
    by_cases hno : (absFile d.fs d.img f).writeLen bs.length = 0 ∨ (absFile d.fs d.img f).readCluster ≠ none
    · obtain ⟨k, f', d', hr, hs, _, _, hcore, _, htv', _, _⟩ :=
        write_sim_noalloc (fatAllocator d.fs.totalClusters d.fs.fsInfo.next) (tabView d.fs d.img) f bs d hfa hg hrep
          hwf hbytes hno
      rw [hr] at hfp htrc
      simp only [execH, hr]
      refine ⟨hs, fun x _ _ => by rw [htv'], ?_, hfp, htrc⟩
      intro x hx
      have hc' : fileChain d'.fs d'.img f' = _ := hcore.chain
      rw [hc'] at hx
      exact (hrep.inv.write_footprint (fatAllocator_laws _ _) bs).own x (Or.inl hx)
    · have hrcn : (absFile d.fs d.img f).readCluster = none := by
        cases hc : (absFile d.fs d.img f).readCluster with
        | none => rfl
        | some c => exact absurd (Or.inr (by rw [hc]; intro e; cases e)) hno
      have hw0 : (absFile d.fs d.img f).writeLen bs.length ≠ 0 := fun h0 => hno (Or.inl h0)
      rcases write_sim_alloc f bs d hfa hg hrep hwf hinfo hbytes hrcn hw0 with
        ⟨d', hr, _, hs, hab, _, _, hdiff, _⟩ | ⟨k, f', d', hr, _, hs, _, _, _, _, hvf, hch, _⟩
      · rw [hr] at hfp htrc
        simp only [execH, hr]
        have hfat : FatAgree d.fs d.img d'.img := by
          intro q h1 _
          by_cases hq : d'.img.getByte q = d.img.getByte q
          · exact hq
          · have := hdiff q hq
            have hs42 : statusOff d.fs < 0x42 := by unfold statusOff; split <;> decide
            have := hg.status_lt
            omega
        refine ⟨hs, fun x _ _ => by rw [hs.geom.tabView, tabView_congr hg hfat], ?_, hfp, htrc⟩
        intro x hx
        left
        have : fileChain d'.fs d'.img f = (absFile d'.fs d'.img f).chain := rfl
        rw [this, hab] at hx; exact hx
      · rw [hr] at hfp htrc
        simp only [execH, hr]
        exact ⟨hs, hvf, hch, hfp, htrc⟩
  | truncate =>
    have hfp := truncate_footprint f d ⟨hfa, hwf, hg, hrep, hinfo⟩
    have htrc := truncate_trace f d ⟨hfa, hwf, hg, hrep, hinfo⟩
    obtain ⟨f', d', hr, hs, _, _, _, _, _, hvf, hch, _⟩ := truncate_sim f d hfa hg hrep hwf hinfo
    rw [hr] at hfp htrc
    simp only [execH, hr]
    exact ⟨hs, fun x hx _ => hvf x hx, fun x hx => Or.inl (hch x hx), hfp, htrc⟩

theorem inCluster_disjoint (fs : FsState) {c c' q : Nat} (hc : 2 ≤ c) (hc' : 2 ≤ c') (hne : c ≠ c')
    (h1 : InCluster fs c q) (h2 : InCluster fs c' q) : False := by
  obtain ⟨a1, a2⟩ := h1
  obtain ⟨b1, b2⟩ := h2
  rcases Nat.lt_or_gt_of_ne hne with hlt | hgt
  · have := clusterOff_mono fs (show c + 1 ≤ c' by omega)
    rw [clusterOff_succ fs c hc] at this
    omega
  · have := clusterOff_mono fs (show c' + 1 ≤ c by omega)
    rw [clusterOff_succ fs c' hc'] at this
    omega

/-- a byte of a cluster that is neither `f`'s nor free is not a position `f` may write -/
theorem not_mayTouchData_of_cluster {fs : FsState} {img : Img} {f : FileH} (hg : Geo fs img.size)
    (hrepf : FileRep fs img f) {c q : Nat} (hc2 : 2 ≤ c) (hcf : c ∉ fileChain fs img f)
    (hnf : tabView fs img c ≠ .free) (hq : InCluster fs c q) : ¬ MayTouchData fs img f q := by
  have hfirst : fs.firstDataSector * fs.bps ≤ clusterOff fs c := by
    unfold clusterOff; exact Nat.mul_le_mul_right _ (Nat.le_add_right _ _)
  have hfd := hg.fat_data
  have hst := hg.status_lt
  rintro (hs | ⟨c', hc', h'⟩ | ⟨c', ⟨h2, _, hfr⟩, h'⟩ | ⟨c', hc', hp⟩)
  · have : statusOff fs < 0x42 := by unfold statusOff; split <;> decide
    have := hq.1
    omega
  · exact inCluster_disjoint fs hc2 (hrepf.inTab c' hc').1 (fun e => hcf (e ▸ hc')) hq h'
  · exact inCluster_disjoint fs hc2 h2 (fun e => hnf (e ▸ hfr)) hq h'
  · have hct : c' < fs.totalClusters + 2 := by
      rcases hc' with h | h
      · exact (hrepf.inTab c' h).2
      · exact h.2.1
    have := hg.fatEntry_in_fat hct hp
    have := hq.1
    omega

/-- **`other_file_kept`**: an operation on `f` (summarised by `OpSummary`) leaves a represented file `g` with a
    disjoint chain exactly as it was: same chain, same abstraction, still represented; and the chains stay disjoint -/
theorem other_file_kept {f f' g : FileH} {d d' : Dev} (hsum : OpSummary f d f' d') (hg : Geo d.fs d.img.size)
    (hrepf : FileRep d.fs d.img f) (hrepg : FileRep d.fs d.img g)
    (hap : ∀ c ∈ fileChain d.fs d.img f, c ∉ fileChain d.fs d.img g) :
    FileRep d'.fs d'.img g ∧ CoreEq (absFile d'.fs d'.img g) (absFile d.fs d.img g) ∧
    fileChain d'.fs d'.img g = fileChain d.fs d.img g ∧
    (∀ c ∈ fileChain d'.fs d'.img f', c ∉ fileChain d'.fs d'.img g) := by
  have hnotf : ∀ c ∈ fileChain d.fs d.img g, c ∉ fileChain d.fs d.img f := fun c hc hcf => hap c hcf hc
  have hlive : ∀ c ∈ fileChain d.fs d.img g, tabView d.fs d.img c ≠ .free := hrepg.inv.live
  obtain ⟨hrep', hcore, hch⟩ := hrepg.of_sem_agree hsum.step.geom
    (fun c hc => hsum.view c (hnotf c hc) (hlive c hc))
    (fun c hc j hj => by
      apply Classical.byContradiction
      intro hne
      exact not_mayTouchData_of_cluster hg hrepf (hrepg.inTab c hc).1 (hnotf c hc) (hlive c hc)
        ⟨Nat.le_add_right _ _, by omega⟩ (hsum.diff _ hne))
  refine ⟨hrep', hcore, hch, ?_⟩
  intro c hc hcg
  rw [hch] at hcg
  rcases hsum.chain c hc with h | h
  · exact hap c h hcg
  · exact hlive c hcg h

/-- … and the slot of `g` keeps its relation to `g`, provided it is not a position `f` may write -/
theorem other_entry_kept {f f' g : FileH} {d d' : Dev} {eg : DirEntryEditor} (hsum : OpSummary f d f' d')
    (heg : EntryRep d.fs d.img g eg) (hch : fileChain d'.fs d'.img g = fileChain d.fs d.img g)
    (hslot : ∀ q, eg.pos ≤ q → q < eg.pos + 32 → ¬ MayTouchData d.fs d.img f q) :
    EntryRep d'.fs d'.img g eg := by
  have hgeo := hsum.step.geom
  refine ⟨heg.entry, heg.wf, heg.notLfn, by rw [hsum.step.size]; exact heg.inDev, by rw [hgeo.fatSlice]; exact heg.offFat,
    ?_, by rw [hgeo.fatType]; exact heg.first, ?_⟩
  · intro c hc
    rw [hch] at hc
    rw [hgeo.clusterOff, hgeo.clusterSize]
    exact heg.offData c hc
  · intro hcl
    rw [← heg.sync hcl]
    unfold Img.read
    apply List.map_congr_left
    intro k hk
    have hk' := List.mem_range.mp hk
    apply Classical.byContradiction
    intro hne
    exact hslot _ (by omega) (by omega) (hsum.diff _ hne)

/-- the clusters `f` owns or may take only shrink along a history -/
theorem ownOrFree_mono {f f' : FileH} {d d' : Dev} (hsum : OpSummary f d f' d')
    (hrepf' : FileRep d'.fs d'.img f') {c : Nat} (hc : OwnOrFree d'.fs d'.img f' c) : OwnOrFree d.fs d.img f c := by
  have hgeo := hsum.step.geom
  rcases hc with hc | ⟨h2, ht, hfr⟩
  · rcases hsum.chain c hc with h | h
    · exact Or.inl h
    · obtain ⟨a, b⟩ := hrepf'.inTab c hc
      rw [hgeo.totalClusters] at b
      exact Or.inr ⟨a, b, h⟩
  · by_cases hcf : c ∈ fileChain d.fs d.img f
    · exact Or.inl hcf
    · by_cases hfree : tabView d.fs d.img c = .free
      · rw [hgeo.totalClusters] at ht
        exact Or.inr ⟨h2, ht, hfree⟩
      · rw [hsum.view c hcf hfree] at hfr; exact absurd hfr hfree

/-- positions `f` may write only shrink along a history -/
theorem mayTouchData_mono {f f' : FileH} {d d' : Dev} (hsum : OpSummary f d f' d') (hrepf : FileRep d.fs d.img f)
    (hrepf' : FileRep d'.fs d'.img f') {q : Nat} (h : MayTouchData d'.fs d'.img f' q) :
    MayTouchData d.fs d.img f q := by
  have hgeo := hsum.step.geom
  have hown : ∀ c, (c ∈ fileChain d'.fs d'.img f' ∨ FreeCluster d'.fs d'.img c) →
      (c ∈ fileChain d.fs d.img f ∨ FreeCluster d.fs d.img c) := by
    intro c hc
    rcases hc with hc | ⟨h2, ht, hfr⟩
    · rcases hsum.chain c hc with h | h
      · exact Or.inl h
      · obtain ⟨a, b⟩ := hrepf'.inTab c hc
        rw [hgeo.totalClusters] at b
        exact Or.inr ⟨a, b, h⟩
    · by_cases hcf : c ∈ fileChain d.fs d.img f
      · exact Or.inl hcf
      · by_cases hfree : tabView d.fs d.img c = .free
        · rw [hgeo.totalClusters] at ht
          exact Or.inr ⟨h2, ht, hfree⟩
        · rw [hsum.view c hcf hfree] at hfr; exact absurd hfr hfree
  have hic : ∀ c, InCluster d'.fs c q ↔ InCluster d.fs c q := by
    intro c; unfold InCluster; rw [hgeo.clusterOff, hgeo.clusterSize]
  have hfe : ∀ c, FatEntryPos d'.fs c q ↔ FatEntryPos d.fs c q := by
    intro c; unfold FatEntryPos; rw [hgeo.fatSlice, hgeo.fatType]
  have hso : statusOff d'.fs = statusOff d.fs := by unfold statusOff; rw [hgeo.fatType]
  rcases h with hs | ⟨c, hc, h'⟩ | ⟨c, hc, h'⟩ | ⟨c, hc, hp⟩
  · exact Or.inl (hso ▸ hs)
  · rcases hown c (Or.inl hc) with h1 | h1
    · exact Or.inr (Or.inl ⟨c, h1, (hic c).mp h'⟩)
    · exact Or.inr (Or.inr (Or.inl ⟨c, h1, (hic c).mp h'⟩))
  · rcases hown c (Or.inr hc) with h1 | h1
    · exact Or.inr (Or.inl ⟨c, h1, (hic c).mp h'⟩)
    · exact Or.inr (Or.inr (Or.inl ⟨c, h1, (hic c).mp h'⟩))
  · exact Or.inr (Or.inr (Or.inr ⟨c, hown c hc, (hfe c).mp hp⟩))

end FatVerif.FileSim
