import FatVerif.Proofs.AFileInv
import FatVerif.Proofs.AFileByteFile
/-! ONE `File::read` call refines `ByteFile.read` with the documented short read. -/
namespace FatVerif.Cursor

section
variable {σ : Type} {isFree : σ → Nat → Prop} {f : AFile} {s : σ}

/-- bytes `[offset, offset + k)` of the content, when they lie in the cluster of the cursor -/
theorem AFileInv.clusterBytes_eq (h : AFileInv isFree f s) {c k : Nat}
    (hc : f.chain[f.offset / f.cs]? = some c) (hk : k ≤ f.cs - f.offset % f.cs) (hk2 : f.offset + k ≤ f.size) :
    f.clusterBytes c (f.offset % f.cs) k = (f.content.drop f.offset).take k := by
  have hcs := h.cs_pos
  have hdm := divmod_spec f.cs f.offset hcs
  unfold AFile.content
  rw [take_drop_map_range _ _ _ _ hk2]
  unfold AFile.clusterBytes
  apply List.map_congr_left
  intro j hj
  have hj' : j < k := List.mem_range.mp hj
  have hd : (f.offset + j) / f.cs = f.offset / f.cs :=
    div_eq_of_decomp hcs (j := f.offset % f.cs + j) (by omega) (by omega)
  have hm : (f.offset + j) % f.cs = f.offset % f.cs + j :=
    mod_eq_of_decomp hcs (i := f.offset / f.cs) (by omega) (by omega)
  unfold AFile.byteAt
  rw [hd, hm]
  have : f.chain.getD (f.offset / f.cs) 0 = c := by
    rw [List.getD_eq_getElem?_getD, hc]; rfl
  rw [this]

/-- the state after ONE read call -/
structure ReadPost (f : AFile) (n : Nat) (r : Except Err (List Nat) × AFile) : Prop where
  res : r.1 = .ok ((f.content.drop f.offset).take (f.readLen n))
  offset : r.2.offset = f.offset + f.readLen n
  cs : r.2.cs = f.cs
  chain : r.2.chain = f.chain
  data : r.2.data = f.data
  size : r.2.size = f.size
  first : r.2.firstCluster = f.firstCluster

theorem AFileInv.read_post (h : AFileInv isFree f s) (n : Nat) :
    ReadPost f n (f.read n) ∧ AFileInv isFree (f.read n).2 s := by
  have hcs := h.cs_pos
  have hdm := divmod_spec f.cs f.offset hcs
  have hoff := h.off_le
  unfold AFile.read
  cases hrc : f.readCluster with
  | none =>
    have := h.readCluster_none hrc
    have hk : f.readLen n = 0 := by unfold AFile.readLen; omega
    exact ⟨⟨by simp [hk], by simp [hk], rfl, rfl, rfl, rfl, rfl⟩, h⟩
  | some c =>
    have hnp : ¬ f.size < f.offset := by omega
    simp only [hnp, if_false]
    by_cases hk : f.readLen n = 0
    · simp only [hk, if_true]
      exact ⟨⟨by simp [hk], by simp [hk], rfl, rfl, rfl, rfl, rfl⟩, h⟩
    · simp only [hk, if_false]
      have hc : f.chain[f.offset / f.cs]? = some c := by rw [← h.readCluster_eq]; exact hrc
      have hkb : f.readLen n ≤ f.cs - f.offset % f.cs ∧ f.offset + f.readLen n ≤ f.size := by
        unfold AFile.readLen; omega
      refine ⟨⟨?_, rfl, rfl, rfl, rfl, rfl, rfl⟩, ?_⟩
      · simp only; rw [h.clusterBytes_eq hc hkb.1 hkb.2]
      · refine ⟨hcs, h.nodup, h.first, h.cover, ?_, h.size_le, ?_, h.live⟩
        · show f.offset + f.readLen n ≤ f.size
          exact hkb.2
        · show some c = _
          have hne : f.offset + f.readLen n ≠ 0 := by omega
          simp only [hne, if_false]
          have : (f.offset + f.readLen n - 1) / f.cs = f.offset / f.cs :=
            div_eq_of_decomp hcs (j := f.offset % f.cs + f.readLen n - 1) (by omega) (by omega)
          show some c = f.chain[(f.offset + f.readLen n - 1) / f.cs]?
          rw [this, hc]

/-- the content is a function of `chain`, `data`, `size`, `cs` only -/
theorem content_congr {f g : AFile} (hcs : g.cs = f.cs) (hch : g.chain = f.chain) (hd : g.data = f.data)
    (hs : g.size = f.size) : g.content = f.content := by
  unfold AFile.content AFile.byteAt
  rw [hcs, hch, hd, hs]

theorem ReadPost.content {f : AFile} {n : Nat} {r} (p : ReadPost f n r) : r.2.content = f.content :=
  content_congr p.cs p.chain p.data p.size

/-- `readLen` is the short-read length of the specification -/
theorem readLen_eq_shortRead (f : AFile) (n : Nat) : f.readLen n = f.abs.shortRead f.cs n := by
  simp [AFile.readLen, ByteFile.shortRead]

/-- refinement of ONE read call -/
theorem AFileInv.read_refines (h : AFileInv isFree f s) (n : Nat) :
    ∃ l, (f.read n).1 = .ok l ∧ ByteFile.check f.cs (.read n) (.bytes l) f.abs = .ok (f.read n).2.abs := by
  obtain ⟨p, _⟩ := h.read_post n
  refine ⟨_, p.res, ?_⟩
  have hoff := h.off_le
  have hk : f.readLen n ≤ f.size - f.offset := by unfold AFile.readLen; omega
  have e1 : (f.content.drop f.offset).take (f.readLen n) = (f.abs.read (f.abs.shortRead f.cs n)).1 := by
    rw [← readLen_eq_shortRead]; rfl
  have e2 : (f.read n).2.abs = (f.abs.read (f.abs.shortRead f.cs n)).2 := by
    rw [← readLen_eq_shortRead]
    simp only [ByteFile.read, AFile.abs, p.content, p.offset]
    congr 1
    simp [ByteFile.remaining]; omega
  show ByteFile.checkRead f.cs n _ f.abs = _
  rw [e1, e2]
  exact ByteFile.checkRead_ok f.cs n f.abs

end
end FatVerif.Cursor
