import FatVerif.Proofs.FormatImage8
/-! C06 image part, 9: exact mirrored writes of the FAT slice on the raw device, and their effect on the replay. -/
namespace FatVerif
open Format

/-- the records (newest first) of one mirrored write of `data` at relative offset `rel` of a raw-device slice -/
def mwItems (s0 : DiskSlice) (rel : Nat) (data : List Nat) : List LogItem :=
  mirrorLog (s0.beginOff + rel) s0.size data (s0.mirrors - 1) 1 ++ [.write (s0.beginOff + rel) data]

/-- a successful `write_all` on a raw-device slice at its current offset -/
theorem slice_writeAll_exact {s0 s : DiskSlice} (hs : SliceInv s0 s) (hv : s0.viaFs = false) (hmir : 0 < s0.mirrors)
    (bs : List Nat) (hne : bs ≠ []) (d : Dev) (hdev : s0.beginOff + s0.mirrors * s0.size ≤ d.img.size)
    {s' : DiskSlice} {d' : Dev} (hr : run (writeAll DiskSlice.strm s bs) d = (.ok s', d')) :
    s.offset + bs.length ≤ s0.size ∧ s' = { s with offset := s.offset + bs.length } ∧ SliceInv s0 s' ∧
    Seg d d' (mwItems s0 s.offset bs) := by
  have hw := slice_writeAll_ok s bs hne d hs.le (by rw [hs.mirrors]; exact hmir)
    (by rw [hs.beginOff, hs.mirrors, hs.size]; exact hdev) hr
  obtain ⟨hfit, hs', k, hk, _, hlog⟩ := hw
  rw [hs.beginOff, hs.size, hs.viaFs] at hlog
  have hst : statusExtra s0.viaFs d.fs = [] := by unfold statusExtra; rw [hv]; simp
  rw [hst, List.nil_append] at hlog
  refine ⟨by rw [← hs.size]; exact hfit, hs', ?_, ?_⟩
  · rw [hs']
    exact ⟨hs.beginOff, hs.size, hs.mirrors, hs.viaFs, by show s.offset + bs.length ≤ s.size; exact hfit⟩
  · unfold Seg Dev.writesOf mwItems
    have hk' : s0.mirrors - 1 = k := by rw [← hs.mirrors, hk]; rfl
    rw [hlog, hk', List.filter_append]
    have h1 : (mirrorLog (s0.beginOff + s.offset) s0.size bs k 1).filter LogItem.isWrite =
        mirrorLog (s0.beginOff + s.offset) s0.size bs k 1 := by
      apply List.filter_eq_self.mpr
      intro it hit
      obtain ⟨j, _, rfl⟩ := (mem_mirrorLog k 1 it).mp hit
      rfl
    rw [h1]
    simp [List.filter_cons, LogItem.isWrite]

/-- seek to `rel`, then `write_all` -/
theorem slice_seek_writeAll_exact {s0 s : DiskSlice} (hs : SliceInv s0 s) (hv : s0.viaFs = false) (hmir : 0 < s0.mirrors)
    (rel : Nat) (bs : List Nat) (hne : bs ≠ []) (d : Dev) (hdev : s0.beginOff + s0.mirrors * s0.size ≤ d.img.size)
    {s' : DiskSlice} {d' : Dev} (k : Nat × DiskSlice → Prog DiskSlice)
    (hk : ∀ t s1, k (t, s1) = writeAll DiskSlice.strm s1 bs)
    (hr : run (Prog.bind (DiskSlice.strm.seek s (.start rel)) k) d = (.ok s', d')) :
    rel + bs.length ≤ s0.size ∧ SliceInv s0 s' ∧ Seg d d' (mwItems s0 rel bs) := by
  rcases run_bind_cases hr with ⟨⟨t, s1⟩, d1, h1, h2⟩ | ⟨e, _, he⟩
  · rw [hk] at h2
    have h1' : run (s.seek (.start rel)) d = (.ok (t, s1), d1) := h1
    obtain ⟨hd1, hsk⟩ := run_slice_seek s _ d h1'
    rw [hd1] at h2 h1'
    obtain ⟨hs1, ht⟩ := hsk _ _ rfl
    have htrel : t = rel := by
      unfold DiskSlice.seek at h1'
      dsimp only at h1'
      split at h1'
      · simp only [run] at h1'; cases h1'
      · have h1'' : run (Prog.pure (rel, ({ s with offset := rel } : DiskSlice))) d = (.ok (t, s1), d) := h1'
        simp only [run] at h1''; cases h1''; rfl
    subst htrel
    have hinv1 : SliceInv s0 s1 := by
      rw [hs1]; exact ⟨hs.beginOff, hs.size, hs.mirrors, hs.viaFs, ht⟩
    have := slice_writeAll_exact hinv1 hv hmir bs hne d hdev h2
    have ho : s1.offset = t := by rw [hs1]
    rw [ho] at this
    exact ⟨this.1, this.2.2.1, this.2.2.2⟩
  · cases he

/-- effect of one mirrored write on the replay, seen relative to copy `i` -/
theorem replay_mwItems (s0 : DiskSlice) (hmir : 0 < s0.mirrors) (rel : Nat) (data : List Nat)
    (hfit : rel + data.length ≤ s0.size) (g : Nat → Nat) (rest : List LogItem) (i x : Nat) (hi : i < s0.mirrors)
    (hx : x < s0.size) :
    replay g (mwItems s0 rel data ++ rest) (s0.beginOff + i * s0.size + x) =
      if rel ≤ x ∧ x < rel + data.length then data.getD (x - rel) 0
      else replay g rest (s0.beginOff + i * s0.size + x) := by
  unfold mwItems
  rw [List.append_assoc, replay_append, replay_mirrorLog s0.beginOff s0.size rel data hfit _ 1 _ i x hx]
  simp only [List.singleton_append, replay, applyRec]
  have hc := cover_iff (B := s0.beginOff) (Z := s0.size) (rel := rel) (len := data.length) (j := 0) (i := i) hx hfit
  simp only [Nat.zero_mul, Nat.add_zero] at hc
  by_cases hin : rel ≤ x ∧ x < rel + data.length
  · rw [if_pos hin]
    by_cases h1 : 1 ≤ i ∧ i < 1 + (s0.mirrors - 1)
    · rw [if_pos ⟨h1, hin⟩]
    · rw [if_neg (fun h => h1 h.1)]
      have hi0 : i = 0 := by omega
      rw [if_pos (hc.mpr ⟨hi0, hin⟩)]
      congr 1; subst hi0; omega
  · rw [if_neg hin, if_neg (fun h => hin h.2), if_neg (fun h => hin (hc.mp h).2)]

end FatVerif
