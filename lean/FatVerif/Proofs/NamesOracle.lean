import FatVerif.Proofs.NamesLegal
/-! The executable legality check used by the driver's C16 oracle decides the specification predicate. -/
namespace FatVerif.Names

theorem space_not_legal : (legalSfnBytes.contains 32) = false := by
  rw [legalSfnBytes_eq]; decide

theorem all32_eq_replicate : ∀ (l : List Nat), l.all (· == 32) = true → l = List.replicate l.length 32
  | [], _ => rfl
  | x :: xs, h => by
    simp only [List.all_cons, Bool.and_eq_true, beq_iff_eq] at h
    rw [h.1, List.length_cons, List.replicate_succ, ← all32_eq_replicate xs h.2]

theorem take_len_takeWhile (p : Nat → Bool) (l : List Nat) : l.take (l.takeWhile p).length = l.takeWhile p := by
  conv => lhs; arg 2; rw [← List.takeWhile_append_dropWhile (p := p) (l := l)]
  exact List.take_left' rfl

theorem drop_len_takeWhile (p : Nat → Bool) (l : List Nat) : l.drop (l.takeWhile p).length = l.dropWhile p := by
  conv => lhs; arg 2; rw [← List.takeWhile_append_dropWhile (p := p) (l := l)]
  exact List.drop_left' rfl

theorem mem_takeWhile_true (p : Nat → Bool) : ∀ (l : List Nat) (b : Nat), b ∈ l.takeWhile p → p b = true
  | [], _, h => by simp at h
  | x :: xs, b, h => by
    by_cases hx : p x = true
    · rw [List.takeWhile_cons_of_pos hx] at h
      rcases List.mem_cons.1 h with rfl | h'
      · exact hx
      · exact mem_takeWhile_true p xs b h'
    · rw [List.takeWhile_cons_of_neg hx] at h; simp at h

theorem legalFieldB_iff (f : List Nat) : legalFieldB f = true ↔ LegalField f := by
  unfold legalFieldB LegalField
  constructor
  · intro h
    refine ⟨(f.takeWhile (legalSfnBytes.contains ·)).length, ?_, ?_, ?_⟩
    · exact (List.takeWhile_sublist _).length_le
    · intro b hb
      rw [take_len_takeWhile] at hb
      simpa using mem_takeWhile_true _ _ _ hb
    · have e := all32_eq_replicate _ h
      have hl : (f.dropWhile (legalSfnBytes.contains ·)).length =
          f.length - (f.takeWhile (legalSfnBytes.contains ·)).length := by
        have := congrArg List.length (List.takeWhile_append_dropWhile (p := (legalSfnBytes.contains ·)) (l := f))
        simp only [List.length_append] at this; omega
      rw [drop_len_takeWhile, ← hl]; exact e
  · rintro ⟨k, hk, h1, h2⟩
    have hf : f = f.take k ++ List.replicate (f.length - k) 32 := by
      conv => lhs; rw [← List.take_append_drop k f, h2]
    rw [hf, List.dropWhile_append_of_pos (fun a ha => by simpa using h1 a ha)]
    cases hm : f.length - k with
    | zero => simp
    | succ m =>
      rw [List.replicate_succ, List.dropWhile_cons_of_neg (by simpa using space_not_legal)]
      simp

theorem legalAliasB_iff (a : List Nat) : legalAliasB a = true ↔ LegalAlias a := by
  unfold legalAliasB LegalAlias
  simp only [Bool.and_eq_true, beq_iff_eq, legalFieldB_iff, Bool.not_eq_true']
  constructor
  · rintro ⟨⟨⟨h1, h2⟩, h3⟩, h4⟩
    refine ⟨h1, h2, h3, ?_⟩
    cases a with
    | nil => simp at h1
    | cons x xs =>
      simp only [List.headD_cons, List.contains_eq_mem, List.mem_cons, List.not_mem_nil, or_false,
        decide_eq_false_iff_not, not_or] at h4
      simp only [List.head?_cons, ne_eq, Option.some.injEq]
      exact h4
  · rintro ⟨h1, h2, h3, h4⟩
    refine ⟨⟨⟨h1, h2⟩, h3⟩, ?_⟩
    cases a with
    | nil => simp at h1
    | cons x xs =>
      simp only [List.head?_cons, ne_eq, Option.some.injEq] at h4
      simp only [List.headD_cons, List.contains_eq_mem, List.mem_cons, List.not_mem_nil, or_false,
        decide_eq_false_iff_not, not_or]
      exact h4

end FatVerif.Names
