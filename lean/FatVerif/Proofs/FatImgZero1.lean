import FatVerif.Proofs.FileSimFatFree
import FatVerif.Props.C12
/-! FAT updates on a volume that is NOT yet marked dirty: `FsIoAdapter` writes the status byte before the first
    modifying write (`markDirtyBeforeWrite`), everything after that is the dirty case of Proofs/FileSimFat*.lean.
    Forward evaluation on a fault-free device; statements cover both cases (`curDirty` either way). -/
namespace FatVerif.FileSim
open FatVerif FatVerif.Fat

/-- the mounted state once the volume is marked dirty -/
def markedFs (fs : FsState) : FsState :=
  if fs.curDirty then fs else { fs with curDirty := fs.bpbDirty || true, curIoErr := fs.bpbIoErr }

theorem markedFs_geom (fs : FsState) : FsGeomEq fs (markedFs fs) := by
  unfold markedFs; split <;> rfl

theorem markedFs_curDirty (fs : FsState) : (markedFs fs).curDirty = true := by
  unfold markedFs
  cases h : fs.curDirty <;> simp [h]

theorem markedFs_fsInfo (fs : FsState) : (markedFs fs).fsInfo = fs.fsInfo := by
  unfold markedFs; split <;> rfl

theorem markedFs_of_dirty {fs : FsState} (h : fs.curDirty = true) : markedFs fs = fs := by
  unfold markedFs; rw [if_pos h]

theorem markedFs_idem (fs : FsState) : markedFs (markedFs fs) = markedFs fs :=
  markedFs_of_dirty (markedFs_curDirty fs)

/-- **`markDirtyBeforeWrite`, forward**: it succeeds; afterwards the volume is marked dirty, the position is the one
    before, only the status byte (below `0x42`) may have changed; if the volume was marked already nothing happens,
    otherwise exactly the status record is appended to the log -/
theorem run_markDirty (d : Dev) (hfa : d.failAt = none) (hsz : 0x42 ≤ d.img.size) :
    ∃ dm, run markDirtyBeforeWrite d = (.ok (), dm) ∧ DevStep d dm ∧ dm.fs = markedFs d.fs ∧ dm.pos = d.pos ∧
      (d.img.WF → ∀ q, 0x42 ≤ q → dm.img.getByte q = d.img.getByte q) ∧
      (d.fs.curDirty = true → dm = d) ∧
      (d.fs.curDirty = false → dm.log = statusWrite d.fs true :: d.log) := by
  by_cases hcd : d.fs.curDirty = true
  · refine ⟨d, run_markDirty_noop d hcd, DevStep.refl d, (markedFs_of_dirty hcd).symm, rfl, fun _ _ _ => rfl,
      fun _ => rfl, fun h => by rw [hcd] at h; cases h⟩
  · have hcl : d.fs.curDirty = false := by cases h : d.fs.curDirty <;> simp_all
    have hrun : ∃ dm, run markDirtyBeforeWrite d = (.ok (), dm) ∧ DevStep d dm ∧
        (d.img.WF → ∀ q, 0x42 ≤ q → dm.img.getByte q = d.img.getByte q) := by
      unfold markDirtyBeforeWrite
      rw [run_bind_ok (run_getFs d)]
      simp only [hcl, Bool.false_eq_true, if_false]
      rw [run_bind_ok (run_seekCur0 d hfa)]
      obtain ⟨d1, h1, hs1, _, _, hb1⟩ := run_setDirtyFlag_true (d.didSeek d.pos) hfa hsz
      rw [run_bind_ok h1]
      have hfa1 : d1.failAt = none := by rw [hs1.failAt]; exact hfa
      rw [run_bind_ok (run_seekStart d.pos d1 hfa1)]
      refine ⟨d1.didSeek d.pos, rfl, ?_, ?_⟩
      · exact ((DevStep.of_sameStore (sameStore_didSeek d d.pos)).trans hs1).trans
          (DevStep.of_sameStore (sameStore_didSeek d1 d.pos))
      · intro hw q hq; exact hb1 hw q hq
    obtain ⟨dm, hr, hst, hb⟩ := hrun
    obtain ⟨_, hspec⟩ := markDirtyBeforeWrite_spec d hr
    obtain ⟨_, hok⟩ := hspec hcl
    obtain ⟨hfs, hlog, hpos⟩ := hok () rfl
    refine ⟨dm, hr, hst, ?_, hpos, hb, fun h => absurd h hcd, fun _ => hlog⟩
    rw [hfs]; unfold markedFs; rw [if_neg hcd]

/-- one write through the inner stream of a FAT slice, volume marked dirty or not: the mark (if due), then the write -/
theorem run_inner_write_any (s : DiskSlice) (hv : s.viaFs = true) (bs : List Nat) (hne : 0 < bs.length) (d : Dev)
    (hfa : d.failAt = none) (hsz : 0x42 ≤ d.img.size) :
    ∃ dm, run markDirtyBeforeWrite d = (.ok (), dm) ∧
      run (s.inner.write () bs) d = (.ok (min bs.length (dm.img.size - dm.pos), ()), didWrite dm bs) ∧
      run (s.inner.write () bs) d = run (s.inner.write () bs) dm := by
  obtain ⟨dm, hr, hst, hfs, _⟩ := run_markDirty d hfa hsz
  have hfam : dm.failAt = none := by rw [hst.failAt]; exact hfa
  have hcdm : dm.fs.curDirty = true := by rw [hfs]; exact markedFs_curDirty _
  have h1 : run (s.inner.write () bs) d = (.ok (min bs.length (dm.img.size - dm.pos), ()), didWrite dm bs) := by
    unfold DiskSlice.inner
    rw [if_pos hv]
    unfold adapterStrm
    dsimp only
    rw [if_pos hne, run_bind_ok hr, run_bind_ok (run_write bs dm hfam)]
    rfl
  exact ⟨dm, hr, h1, by rw [h1, run_inner_write s bs dm hfam hcdm]⟩

theorem run_bind_congr {α β} {p : Prog β} {k : β → Prog α} {d e : Dev} (h : run p d = run p e) :
    run (Prog.bind p k) d = run (Prog.bind p k) e := by
  simp only [run, h]

/-- `write_all` on the inner stream: same run as on the device after the mark -/
theorem run_writeAll_inner_any (s : DiskSlice) (hv : s.viaFs = true) (bs : List Nat) (hne : 0 < bs.length) (d : Dev)
    (hfa : d.failAt = none) (hsz : 0x42 ≤ d.img.size) :
    ∃ dm, run markDirtyBeforeWrite d = (.ok (), dm) ∧
      ∀ {α} (k : Unit → Prog α), run (Prog.bind (writeAll s.inner () bs) k) d =
        run (Prog.bind (writeAll s.inner () bs) k) dm := by
  obtain ⟨dm, hr, _, heq⟩ := run_inner_write_any s hv bs hne d hfa hsz
  refine ⟨dm, hr, fun k => ?_⟩
  apply run_bind_congr
  obtain ⟨n, hn⟩ : ∃ n, bs.length = n + 1 := ⟨bs.length - 1, by omega⟩
  have hemp : bs.isEmpty = false := by
    cases bs with
    | nil => simp at hne
    | cons _ _ => rfl
  unfold writeAll
  rw [hn]
  unfold writeAllLoop
  simp only [hemp, Bool.false_eq_true, if_false]
  exact run_bind_congr heq


/-- `writeMirrors` of at least one copy on a fault-free device, marked dirty or not -/
theorem run_writeMirrors_any (s : DiskSlice) (hv : s.viaFs = true) (off : Nat) (bs : List Nat) (hne : 0 < bs.length)
    (hle : bs.length ≤ s.size) (hoff : 0x42 ≤ off) (k i : Nat) (d : Dev) (hfa : d.failAt = none) (hwf : d.img.WF)
    (hroom : ∀ i', i ≤ i' → i' < i + (k + 1) → off + i' * s.size + bs.length ≤ d.img.size) :
    ∃ d', run (s.writeMirrors off bs (k + 1) i) d = (.ok (), d') ∧ DevStep d d' ∧ d'.fs = markedFs d.fs ∧
      (d.fs.curDirty = true → d'.fs = d.fs) ∧
      (∀ q, 0x42 ≤ q → (∀ i', i ≤ i' → i' < i + (k + 1) → ¬ (off + i' * s.size ≤ q ∧ q < off + i' * s.size + bs.length)) →
        d'.img.getByte q = d.img.getByte q) ∧
      (∀ q, off + i * s.size ≤ q → q < off + i * s.size + bs.length →
        d'.img.getByte q = bs.getD (q - (off + i * s.size)) 0 % 256) := by
  have hsz42 : 0x42 ≤ d.img.size := by have := hroom i (Nat.le_refl _) (by omega); omega
  unfold DiskSlice.writeMirrors
  rw [run_bind_ok (run_inner_seek s _ d hfa)]
  generalize hds : d.didSeek (off + i * s.size) = ds
  have hdsfa : ds.failAt = none := by rw [← hds]; exact hfa
  have hdsimg : ds.img = d.img := by rw [← hds]; rfl
  have hdsfs : ds.fs = d.fs := by rw [← hds]; rfl
  have hdspos : ds.pos = off + i * s.size := by rw [← hds]; rfl
  obtain ⟨dm, hmark, hcongr⟩ := run_writeAll_inner_any s hv bs hne ds hdsfa (by rw [hdsimg]; exact hsz42)
  have hc := hcongr (fun _ => s.writeMirrors off bs k (i + 1))
  erw [hc]
  obtain ⟨dm', hmark', hstm, hfsm, hposm, hbm, hsame, _⟩ := run_markDirty ds hdsfa (by rw [hdsimg]; exact hsz42)
  rw [hmark] at hmark'
  cases hmark'
  have hfam : dm.failAt = none := by rw [hstm.failAt]; exact hdsfa
  have hcdm : dm.fs.curDirty = true := by rw [hfsm]; exact markedFs_curDirty _
  have hwfm : dm.img.WF := hstm.wf (by rw [hdsimg]; exact hwf)
  have hfit : dm.pos + bs.length ≤ dm.img.size := by
    rw [hposm, hdspos, hstm.size, hdsimg]; exact hroom i (Nat.le_refl _) (by omega)
  erw [run_bind_ok (run_writeAll_inner s bs dm hfam hcdm hne hfit)]
  generalize hd1 : didWrite dm bs = d1
  have himg1 : d1.img = dm.img.write (off + i * s.size) bs := by
    rw [← hd1, didWrite_img _ _ hfit, hposm, hdspos]
  have hstep1 : DevStep dm d1 := by
    refine ⟨by rw [← hd1]; rfl, by rw [himg1, Img.write_size], fun _ => by rw [himg1]; exact Img.wf_write _ hwfm _ _,
      by rw [← hd1]; exact FsGeomEq.refl _, by rw [← hd1]; rfl⟩
  have hfs1 : d1.fs = dm.fs := by rw [← hd1]; rfl
  have hstepd : DevStep d dm := by
    have : DevStep d ds := by rw [← hds]; exact DevStep.of_sameStore (sameStore_didSeek d _)
    exact this.trans hstm
  obtain ⟨d2, h2, hs2, hfs2, hfr2, _⟩ := run_writeMirrors s off bs hne hle k (i + 1) d1
    (by rw [hstep1.failAt]; exact hfam) (by rw [hfs1]; exact hcdm) (hstep1.wf hwfm) (by
      intro i' h1 h2
      rw [hstep1.size, hstm.size, hdsimg]; exact hroom i' (by omega) (by omega))
  refine ⟨d2, h2, (hstepd.trans hstep1).trans hs2, ?_, ?_, ?_, ?_⟩
  · rw [hfs2, hfs1, hfsm, hdsfs]
  · intro hcd
    rw [hfs2, hfs1, hfsm, hdsfs, markedFs_of_dirty hcd]
  · intro q hq42 hq
    rw [hfr2 q (fun i' h1 h2 => hq i' (by omega) (by omega)), himg1,
      Img.getByte_write_of_not_mem _ hwfm _ _ _ (hq i (Nat.le_refl _) (by omega)),
      hbm (by rw [hdsimg]; exact hwf) q hq42, hdsimg]
  · intro q h1 h2
    have hnot : ∀ i', i + 1 ≤ i' → i' < i + 1 + k → ¬ (off + i' * s.size ≤ q ∧ q < off + i' * s.size + bs.length) := by
      intro i' hi _ ⟨h3, _⟩
      have : (i + 1) * s.size ≤ i' * s.size := Nat.mul_le_mul_right _ hi
      rw [Nat.succ_mul] at this
      omega
    rw [hfr2 q hnot, himg1, Img.getByte_write _ hwfm, if_pos ⟨h1, h2⟩]

/-- the effect of a write into the FAT slice, volume marked dirty or not: like `FatWrote`, but the mounted state becomes
    the marked one and the frame excludes the status byte (bytes below `0x42`) -/
structure FatWroteM (fs : FsState) (d d' : Dev) (o : Nat) (bs : List Nat) : Prop where
  step : DevStep d d'
  fs_eq : d'.fs = markedFs d.fs
  first : ∀ i, i < (fatSliceOf fs).size → d'.img.getByte ((fatSliceOf fs).beginOff + i) =
    if o ≤ i ∧ i < o + bs.length then bs.getD (i - o) 0 % 256 else d.img.getByte ((fatSliceOf fs).beginOff + i)
  frame : ∀ q, 0x42 ≤ q → (q < (fatSliceOf fs).beginOff ∨
      (fatSliceOf fs).beginOff + (fatSliceOf fs).mirrors * (fatSliceOf fs).size ≤ q) →
    d'.img.getByte q = d.img.getByte q

/-- `write_all` on the FAT slice of a non-empty buffer that fits the slice, volume marked dirty or not -/
theorem run_fat_writeAll_any (fs : FsState) (s : DiskSlice) (hs : IsFatSlice fs s) (bs : List Nat) (hne : 0 < bs.length)
    (hfit : s.offset + bs.length ≤ s.size) (d : Dev) (hfa : d.failAt = none)
    (hwf : d.img.WF) (hg : Geo fs d.img.size) :
    ∃ d', run (writeAll DiskSlice.strm s bs) d = (.ok { s with offset := s.offset + bs.length }, d') ∧
      FatWroteM fs d d' s.offset bs := by
  obtain ⟨hb, hsz, hm, hvf⟩ := hs
  have hdev : (fatSliceOf fs).beginOff + (fatSliceOf fs).mirrors * (fatSliceOf fs).size ≤ d.img.size := by
    have h1 := hg.fat_data; have h2 := hg.data_dev
    have h3 : fs.firstDataSector * fs.bps ≤ clusterOff fs (fs.totalClusters + 2) := by
      unfold clusterOff; exact Nat.mul_le_mul_right _ (Nat.le_add_right _ _)
    omega
  have hmpos := hg.mirrors_pos
  obtain ⟨km, hkm⟩ : ∃ km, s.mirrors = km + 1 := ⟨s.mirrors - 1, by rw [hm]; omega⟩
  have hroom : ∀ i', 0 ≤ i' → i' < 0 + (km + 1) →
      s.beginOff + s.offset + i' * s.size + bs.length ≤ d.img.size := by
    intro i' _ h2
    rw [← hkm, hm] at h2
    have : (i' + 1) * s.size ≤ (fatSliceOf fs).mirrors * s.size := Nat.mul_le_mul_right _ (by omega)
    rw [Nat.succ_mul] at this
    rw [hb]; rw [hsz] at this ⊢ hfit
    omega
  have hst := hg.status_lt
  obtain ⟨d1, h1, hs1, hfs1, _, hfr1, hv1⟩ := run_writeMirrors_any s hvf (s.beginOff + s.offset) bs hne (by omega)
    (by rw [hb]; omega) km 0 d hfa hwf hroom
  have hmin : min bs.length (s.size - s.offset) = bs.length := by omega
  obtain ⟨k, hk⟩ : ∃ k, bs.length = k + 1 := ⟨bs.length - 1, by omega⟩
  have hemp : bs.isEmpty = false := by
    cases bs with
    | nil => simp at hne
    | cons _ _ => rfl
  have hwrite : run (DiskSlice.strm.write s bs) d = (.ok (bs.length, { s with offset := s.offset + bs.length }), d1) := by
    show run (s.write bs) d = _
    unfold DiskSlice.write
    simp only [hmin]
    rw [if_neg (by omega), List.take_length, hkm, run_bind_ok h1]
    rfl
  refine ⟨d1, ?_, hs1, hfs1, ?_, ?_⟩
  · unfold writeAll
    rw [hk]
    unfold writeAllLoop
    simp only [hemp, Bool.false_eq_true, if_false]
    rw [run_bind_ok hwrite]
    simp only
    rw [if_neg (by omega), List.drop_length]
    unfold writeAllLoop
    simp
    exact hk
  · intro i hi
    by_cases hin : s.offset ≤ i ∧ i < s.offset + bs.length
    · rw [if_pos hin]
      have := hv1 ((fatSliceOf fs).beginOff + i) (by rw [hb]; omega) (by rw [hb]; omega)
      rw [this]
      congr 2
      rw [hb]; omega
    · rw [if_neg hin]
      apply hfr1 _ (by omega)
      intro i' _ _ ⟨h3, h4⟩
      rcases Nat.eq_zero_or_pos i' with h0 | h0
      · subst h0; rw [hb] at h3 h4; omega
      · have : 1 * s.size ≤ i' * s.size := Nat.mul_le_mul_right _ h0
        rw [hb] at h3
        omega
  · intro q hq42 hq
    apply hfr1 _ hq42
    intro i' _ h2 ⟨h3, h4⟩
    rw [← hkm, hm] at h2
    have : (i' + 1) * s.size ≤ (fatSliceOf fs).mirrors * s.size := Nat.mul_le_mul_right _ (by omega)
    rw [Nat.succ_mul] at this
    rw [hb] at h3 h4
    rw [hsz] at this h3 h4 hfit
    omega

end FatVerif.FileSim
