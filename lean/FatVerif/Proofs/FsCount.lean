import FatVerif.Model.FsCount
import FatVerif.Proofs.FatChains
/-! Lemmas for the free-space accounting machine `FsCount`. -/
namespace FatVerif.FsCount
open FatVerif.Fat

/-- the cached count, when present, is the number of free entries of `[2,total+2)` -/
def CountOk (s : FsCountState) : Prop := ∀ n, s.info.free = some n → n = countFreeV s.fat s.total

/-- the hint, when present, is `≥ 2` and at most one past the last cluster (what mount guarantees) -/
def HintOk (s : FsCountState) : Prop := ∀ h, s.info.next = some h → 2 ≤ h ∧ h ≤ s.total + 2

/-- the hint, when present, names a valid cluster (what every alloc guarantees) -/
def HintStrict (s : FsCountState) : Prop := ∀ h, s.info.next = some h → 2 ≤ h ∧ h ≤ s.total + 1

theorem HintStrict.hintOk {s : FsCountState} (h : HintStrict s) : HintOk s :=
  fun x hx => ⟨(h x hx).1, by have := (h x hx).2; omega⟩

/-! ### mapFree -/

theorem mapFree_next (i : Info) (f : Nat → Nat) : (i.mapFree f).next = i.next := by
  unfold Info.mapFree; cases i.free <;> rfl

theorem mapFree_free (i : Info) (f : Nat → Nat) : (i.mapFree f).free = i.free.map f := by
  unfold Info.mapFree; cases h : i.free <;> simp [h]

/-! ### counting -/

theorem countFreeV_pos (g : Nat → FatValue) (total c : Nat) (h1 : 2 ≤ c) (h2 : c < total + 2) (hf : g c = .free) :
    1 ≤ countFreeV g total := by
  have := countFreeV_updV g c .eoc total h1 h2
  rw [if_pos hf, if_neg (by intro e; cases e)] at this
  omega

/-- allocating the free cluster `c` and linking it from an allocated `prev` lowers the free count by exactly one -/
theorem countFreeV_allocLink (g : Nat → FatValue) (total c : Nat) (prev : Option Nat) (h1 : 2 ≤ c)
    (h2 : c < total + 2) (hf : g c = .free) (hp : ∀ p, prev = some p → g p ≠ .free) :
    countFreeV (allocLinkV g prev c) total + 1 = countFreeV g total := by
  have hc := countFreeV_updV g c .eoc total h1 h2
  rw [if_pos hf, if_neg (by intro e; cases e)] at hc
  cases prev with
  | none => simp only [allocLinkV]; omega
  | some p =>
    have hpf := hp p rfl
    have hpc : p ≠ c := by intro e; subst e; exact hpf hf
    simp only [allocLinkV]
    by_cases hin : 2 ≤ p ∧ p < total + 2
    · have := countFreeV_updV (updV g c .eoc) p (.data c) total hin.1 hin.2
      rw [updV_ne _ _ _ _ hpc, if_neg hpf, if_neg (by intro e; cases e)] at this
      omega
    · rw [countFreeV_updV_out _ p _ total (by omega)]; omega

/-! ### segments: what repeated allocation builds -/

/-- consecutive links ending in EOC -/
def Seg (g : Nat → FatValue) : List Nat → Prop
  | [] => False
  | [c] => g c = .eoc
  | c :: d :: r => g c = .data d ∧ Seg g (d :: r)

theorem seg_chain (g : Nat → FatValue) : ∀ (cs : List Nat) (c : Nat), Seg g (c :: cs) → Chain g c (c :: cs) := by
  intro cs
  induction cs with
  | nil =>
    intro c h
    simp only [Seg] at h
    exact Chain.last c (by intro n e; rw [h] at e; cases e)
  | cons d r ih =>
    intro c h
    simp only [Seg] at h
    exact Chain.cons c d (d :: r) h.1 (ih d h.2)

theorem seg_congr (g g' : Nat → FatValue) : ∀ cs, (∀ i, i ∈ cs → g' i = g i) → Seg g cs → Seg g' cs := by
  intro cs
  induction cs with
  | nil => intro _ h; exact h
  | cons c r ih =>
    intro hs h
    cases r with
    | nil => simp only [Seg] at *; rw [hs c (by simp)]; exact h
    | cons d r' =>
      simp only [Seg] at *
      exact ⟨by rw [hs c (by simp)]; exact h.1, ih (fun i hi => hs i (List.mem_cons_of_mem _ hi)) h.2⟩

theorem seg_not_free (g : Nat → FatValue) : ∀ cs, Seg g cs → ∀ i, i ∈ cs → g i ≠ .free := by
  intro cs
  induction cs with
  | nil => intro h; exact absurd h (by simp [Seg])
  | cons c r ih =>
    intro h i hi
    cases r with
    | nil => simp only [Seg] at h; simp at hi; subst hi; rw [h]; intro e; cases e
    | cons d r' =>
      simp only [Seg] at h
      rcases List.mem_cons.mp hi with rfl | hi
      · rw [h.1]; intro e; cases e
      · exact ih h.2 i hi

end FatVerif.FsCount
