import FatVerif.Proofs.DirAliasDisplay
import FatVerif.Proofs.NamesEq
/-!
Termination of the directory-level alias loop after the repair of F23.

Within one checksum "epoch" every `continue` marks a previously unmarked candidate (≤ 14 per epoch); an epoch fails
only if all nine hash candidates of ITS checksum are marked, each either by a listed raw short name that parses to that
checksum, or by a candidate whose display form a listed entry answers to.  Under a case folding that fixes the
characters of short names, a listed entry answers to at most two candidate display forms (one by its long name, one by
its alias) and carries one raw name: three tokens per entry, nine distinct tokens per failed epoch.
-/
namespace FatVerif
namespace DirAlias
open Lfn DirSlots

/-! ## which bit a name sets in `prefix_chksum_bitmap` -/

/-- `x` sets bit `i` of `prefix_chksum_bitmap` when the generator's checksum is `c` (static in `g`) -/
def HK (g : Names.Gen) (x : List Nat) (c i : Nat) : Prop :=
  Names.hashKey g x = some c ∧ Names.digit10 (Names.byteAt x (Names.shortPrefixLen g + 4 + 1)) = some i

theorem HK_static {g g' : Names.Gen} (h : Names.SameStatic g g') (x : List Nat) (c i : Nat) :
    HK g' x c i ↔ HK g x c i := by
  unfold HK
  rw [Names.hashKey_static h]
  simp [Names.shortPrefixLen, h.2.1]

theorem HK_fun {g : Names.Gen} {x : List Nat} {c i c' i' : Nat} (h : HK g x c i) (h' : HK g x c' i') :
    c = c' ∧ i = i' := by
  obtain ⟨h1, h2⟩ := h
  obtain ⟨h1', h2'⟩ := h'
  rw [h1] at h1'; rw [h2] at h2'
  exact ⟨by simpa using h1', by simpa using h2'⟩

theorem checkShort_testBit (g : Names.Gen) (x : List Nat) (i : Nat) :
    (Names.checkShort g x).prefixChksumBitmap.testBit i = true ↔
      g.prefixChksumBitmap.testBit i = true ∨ HK g x g.chksum i := by
  unfold Names.checkShort HK Names.hashKey
  by_cases h1 : Names.byteAt x (Names.shortPrefixLen g + 4) = 126
  · simp only [h1, ne_eq, not_true_eq_false, if_false, true_and]
    cases h2 : Names.digit10 (Names.byteAt x (Names.shortPrefixLen g + 4 + 1)) with
    | none => simp
    | some d =>
      simp only [Option.isSome_some, true_and, Option.some.injEq]
      by_cases h3 : Names.prefixExtMatch g x (Names.shortPrefixLen g) = true
      · simp only [h3, if_true]
        by_cases h4 : Names.fromStrRadix16 ((x.drop (Names.shortPrefixLen g)).take 4) = some g.chksum
        · simp only [h4, if_true, Names.testBit_setBit, Bool.or_eq_true, decide_eq_true_eq, true_and]
        · simp [h4]
      · simp [h3]
  · simp [h1]

theorem addExisting_pcb (g : Names.Gen) (x : List Nat) :
    (Names.addExisting g x).prefixChksumBitmap = (Names.checkShort g x).prefixChksumBitmap := by
  have a : (Names.markExact g x).prefixChksumBitmap = g.prefixChksumBitmap := by unfold Names.markExact; split <;> rfl
  have b : (Names.checkLong (Names.markExact g x) x).prefixChksumBitmap = (Names.markExact g x).prefixChksumBitmap := by
    unfold Names.checkLong; repeat' split
    all_goals rfl
  have s1 := Names.markExact_static g x
  have s2 := Names.checkLong_static (Names.markExact g x) x
  have s : Names.Same g (Names.checkLong (Names.markExact g x) x) := Names.Same.trans s1 s2
  unfold Names.addExisting
  -- both sides are determined by the static fields, the checksum and the old bitmap
  apply Nat.eq_of_testBit_eq
  intro i
  have l := checkShort_testBit (Names.checkLong (Names.markExact g x) x) x i
  have r := checkShort_testBit g x i
  rw [b, a, s.2, HK_static s.1] at l
  cases h1 : (Names.checkShort (Names.checkLong (Names.markExact g x) x) x).prefixChksumBitmap.testBit i <;>
    cases h2 : (Names.checkShort g x).prefixChksumBitmap.testBit i <;> simp_all

theorem addExisting_testBit (g : Names.Gen) (x : List Nat) (i : Nat) :
    (Names.addExisting g x).prefixChksumBitmap.testBit i = true ↔
      g.prefixChksumBitmap.testBit i = true ∨ HK g x g.chksum i := by
  rw [addExisting_pcb]; exact checkShort_testBit g x i

theorem addAll_testBit (g : Names.Gen) (xs : List (List Nat)) (i : Nat) :
    (Names.addAll g xs).prefixChksumBitmap.testBit i = true ↔
      g.prefixChksumBitmap.testBit i = true ∨ ∃ x ∈ xs, HK g x g.chksum i := by
  induction xs generalizing g with
  | nil => simp [Names.addAll]
  | cons y ys ih =>
    have hs := Names.addExisting_same g y
    simp only [Names.addAll, List.foldl_cons] at ih ⊢
    rw [ih (Names.addExisting g y), addExisting_testBit, hs.2]
    constructor
    · rintro ((h | h) | ⟨x, hx, h⟩)
      · exact Or.inl h
      · exact Or.inr ⟨y, by simp, h⟩
      · exact Or.inr ⟨x, by simp [hx], (HK_static hs.1 x _ i).1 h⟩
    · rintro (h | ⟨x, hx, h⟩)
      · exact Or.inl (Or.inl h)
      · rcases List.mem_cons.1 hx with rfl | hx
        · exact Or.inl (Or.inr h)
        · exact Or.inr ⟨x, hx, (HK_static hs.1 x _ i).2 h⟩

/-! ## the number of unmarked candidates of an epoch -/

def c2n (b : Bool) : Nat := if b then 0 else 1

def free (g : Names.Gen) : Nat :=
  c2n g.exactMatch +
  (c2n (g.longPrefixBitmap.testBit 1) + c2n (g.longPrefixBitmap.testBit 2) + c2n (g.longPrefixBitmap.testBit 3) +
    c2n (g.longPrefixBitmap.testBit 4)) +
  (c2n (g.prefixChksumBitmap.testBit 1) + c2n (g.prefixChksumBitmap.testBit 2) +
    c2n (g.prefixChksumBitmap.testBit 3) + c2n (g.prefixChksumBitmap.testBit 4) +
    c2n (g.prefixChksumBitmap.testBit 5) + c2n (g.prefixChksumBitmap.testBit 6) +
    c2n (g.prefixChksumBitmap.testBit 7) + c2n (g.prefixChksumBitmap.testBit 8) +
    c2n (g.prefixChksumBitmap.testBit 9))

theorem c2n_le_one (b : Bool) : c2n b ≤ 1 := by cases b <;> simp [c2n]

theorem free_le (g : Names.Gen) : free g ≤ 14 := by
  unfold free
  have := c2n_le_one g.exactMatch
  have := c2n_le_one (g.longPrefixBitmap.testBit 1)
  have := c2n_le_one (g.longPrefixBitmap.testBit 2)
  have := c2n_le_one (g.longPrefixBitmap.testBit 3)
  have := c2n_le_one (g.longPrefixBitmap.testBit 4)
  have := c2n_le_one (g.prefixChksumBitmap.testBit 1)
  have := c2n_le_one (g.prefixChksumBitmap.testBit 2)
  have := c2n_le_one (g.prefixChksumBitmap.testBit 3)
  have := c2n_le_one (g.prefixChksumBitmap.testBit 4)
  have := c2n_le_one (g.prefixChksumBitmap.testBit 5)
  have := c2n_le_one (g.prefixChksumBitmap.testBit 6)
  have := c2n_le_one (g.prefixChksumBitmap.testBit 7)
  have := c2n_le_one (g.prefixChksumBitmap.testBit 8)
  have := c2n_le_one (g.prefixChksumBitmap.testBit 9)
  omega

theorem c2n_mono {a b : Bool} (h : a = true → b = true) : c2n b ≤ c2n a := by
  cases a <;> cases b <;> simp_all [c2n]

theorem c2n_drop {a b : Bool} (ha : a = false) (hb : b = true) : c2n b + 1 ≤ c2n a := by
  subst ha hb; simp [c2n]

theorem free_mono {g g' : Names.Gen} (m : Names.Mono g g') : free g' ≤ free g := by
  unfold free
  have := c2n_mono m.2.2
  have := c2n_mono (m.1 1); have := c2n_mono (m.1 2); have := c2n_mono (m.1 3); have := c2n_mono (m.1 4)
  have := c2n_mono (m.2.1 1); have := c2n_mono (m.2.1 2); have := c2n_mono (m.2.1 3)
  have := c2n_mono (m.2.1 4); have := c2n_mono (m.2.1 5); have := c2n_mono (m.2.1 6)
  have := c2n_mono (m.2.1 7); have := c2n_mono (m.2.1 8); have := c2n_mono (m.2.1 9)
  omega

theorem free_drop_exact {g g' : Names.Gen} (m : Names.Mono g g') (h : g.exactMatch = false)
    (h' : g'.exactMatch = true) : free g' + 1 ≤ free g := by
  unfold free
  have := c2n_drop h h'
  have := c2n_mono (m.1 1); have := c2n_mono (m.1 2); have := c2n_mono (m.1 3); have := c2n_mono (m.1 4)
  have := c2n_mono (m.2.1 1); have := c2n_mono (m.2.1 2); have := c2n_mono (m.2.1 3)
  have := c2n_mono (m.2.1 4); have := c2n_mono (m.2.1 5); have := c2n_mono (m.2.1 6)
  have := c2n_mono (m.2.1 7); have := c2n_mono (m.2.1 8); have := c2n_mono (m.2.1 9)
  omega

theorem free_drop_long {g g' : Names.Gen} (m : Names.Mono g g') (i : Nat) (h1 : 1 ≤ i) (h4 : i ≤ 4)
    (h : g.longPrefixBitmap.testBit i = false) (h' : g'.longPrefixBitmap.testBit i = true) :
    free g' + 1 ≤ free g := by
  unfold free
  have := c2n_mono m.2.2
  have := c2n_mono (m.1 1); have := c2n_mono (m.1 2); have := c2n_mono (m.1 3); have := c2n_mono (m.1 4)
  have := c2n_mono (m.2.1 1); have := c2n_mono (m.2.1 2); have := c2n_mono (m.2.1 3)
  have := c2n_mono (m.2.1 4); have := c2n_mono (m.2.1 5); have := c2n_mono (m.2.1 6)
  have := c2n_mono (m.2.1 7); have := c2n_mono (m.2.1 8); have := c2n_mono (m.2.1 9)
  have hi : i = 1 ∨ i = 2 ∨ i = 3 ∨ i = 4 := by omega
  rcases hi with rfl | rfl | rfl | rfl <;> (have := c2n_drop h h'; omega)

theorem free_drop_hash {g g' : Names.Gen} (m : Names.Mono g g') (i : Nat) (h1 : 1 ≤ i) (h9 : i ≤ 9)
    (h : g.prefixChksumBitmap.testBit i = false) (h' : g'.prefixChksumBitmap.testBit i = true) :
    free g' + 1 ≤ free g := by
  unfold free
  have := c2n_mono m.2.2
  have := c2n_mono (m.1 1); have := c2n_mono (m.1 2); have := c2n_mono (m.1 3); have := c2n_mono (m.1 4)
  have := c2n_mono (m.2.1 1); have := c2n_mono (m.2.1 2); have := c2n_mono (m.2.1 3)
  have := c2n_mono (m.2.1 4); have := c2n_mono (m.2.1 5); have := c2n_mono (m.2.1 6)
  have := c2n_mono (m.2.1 7); have := c2n_mono (m.2.1 8); have := c2n_mono (m.2.1 9)
  have hi : i = 1 ∨ i = 2 ∨ i = 3 ∨ i = 4 ∨ i = 5 ∨ i = 6 ∨ i = 7 ∨ i = 8 ∨ i = 9 := by omega
  rcases hi with rfl | rfl | rfl | rfl | rfl | rfl | rfl | rfl | rfl <;> (have := c2n_drop h h'; omega)

/-- feeding a candidate back strictly reduces the number of unmarked candidates -/
theorem free_continue {g : Names.Gen} (hw : Names.GenWF g) {a : List Nat} (hg : Names.generate g = .ok a) :
    free (Names.addExisting g a) + 1 ≤ free g := by
  have m := Names.addExisting_mono g a
  rcases Names.generate_cases hg with ⟨_, _, hx, rfl⟩ | ⟨i, h1, h4, hb, rfl⟩ | ⟨i, h1, h9, hb, rfl⟩
  · exact free_drop_exact m hx (Names.addExisting_exact_hit g)
  · rw [Names.bitClear_eq] at hb
    exact free_drop_long m i h1 h4 (by simpa using hb) (Names.addExisting_long_hit hw (by omega))
  · rw [Names.bitClear_eq] at hb
    exact free_drop_hash m i h1 h9 (by simpa using hb) (Names.addExisting_short_hit hw (by omega))

/-! ## the epoch invariant and the analysis of a run that exhausts its fuel -/

/-- a listed entry answers to the display form of `x` -/
def Blocked (upper : Char → List Char) (L : List LfnEntry) (x : List Nat) : Prop :=
  ∃ e ∈ L, matchesName upper e (Names.aliasDisplay x) = true

/-- why bit `i` of the epoch with checksum `c` can be marked: a listed raw short name, or a blocked candidate -/
def Charged (upper : Char → List Char) (L : List LfnEntry) (g0 : Names.Gen) (c i : Nat) : Prop :=
  ∃ x, ((x ∈ L.map fun e => sfnName e.sfn) ∨ (Canon x ∧ Blocked upper L x)) ∧ HK g0 x c i

def EpochInv (upper : Char → List Char) (L : List LfnEntry) (g0 g : Names.Gen) : Prop :=
  ∀ i, g.prefixChksumBitmap.testBit i = true → Charged upper L g0 g.chksum i

theorem mem_chkSeq_of (c : Nat) : ∀ (m j : Nat), j < m → (c + j) % 65536 ∈ Names.chkSeq (c % 65536) m := by
  intro m
  induction m generalizing c with
  | zero => intro j h; omega
  | succ m ih =>
    intro j hj
    simp only [Names.chkSeq, List.mem_cons]
    cases j with
    | zero => left; simp
    | succ j =>
      right
      have := ih (c % 65536 + 1) j (by omega)
      have e1 : (c % 65536 + 1 + j) % 65536 = (c + (j + 1)) % 65536 := by omega
      rw [e1] at this
      exact this

theorem chkSeq_prefix {c m0 m x : Nat} (hc : c < 65536) (hm : m0 ≤ m) (h : x ∈ Names.chkSeq c m0) :
    x ∈ Names.chkSeq c m := by
  obtain ⟨j, hj, rfl⟩ := Names.mem_chkSeq hc h
  have := mem_chkSeq_of c m j (by omega)
  rwa [Nat.mod_eq_of_lt hc] at this

theorem generate_error_bits {g : Names.Gen} {e : Err} (h : Names.generate g = .error e) :
    ∀ i, 1 ≤ i → i ≤ 9 → g.prefixChksumBitmap.testBit i = true := by
  intro i h1 h9
  unfold Names.generate at h
  split at h
  · cases h
  · split at h
    · cases h
    · split at h
      · cases h
      · rename_i hn
        have := List.find?_eq_none.1 hn i (by simp; omega)
        rw [Names.bitClear_eq] at this
        simpa using this

/-- a run that ends in `hang`: `m` whole epochs failed, all nine hash candidates of each were charged, and the fuel was
    at most the unmarked candidates of the current epoch plus 15 rounds per failed epoch -/
theorem loop_hang (upper : Char → List Char) (L : List LfnEntry) (name : List Char) (isDir : Option Bool)
    (hnone : (L.find? fun e => matchesName upper e name) = none) (g0 : Names.Gen) (hw0 : Names.GenWF g0) :
    ∀ (fuel : Nat) (g : Names.Gen), Names.Reach g0 g → EpochInv upper L g0 g →
      loop upper L name isDir fuel g = .error .hang →
      ∃ m, fuel ≤ free g + 15 * m ∧
        ∀ c ∈ Names.chkSeq g.chksum m, ∀ i, 1 ≤ i → i ≤ 9 → Charged upper L g0 c i := by
  intro fuel
  induction fuel with
  | zero => intro g _ _ _; exact ⟨0, by omega, by simp [Names.chkSeq]⟩
  | succ fuel ih =>
    intro g r inv hl
    rw [loop_succ_notfound upper L name isDir hnone] at hl
    have rh : Names.Reach g0 (Names.addAll g (L.map fun e => sfnName e.sfn)) := r.addAll _
    have sh := Names.addAll_same g (L.map fun e => sfnName e.sfn)
    have hwh : Names.GenWF (Names.addAll g (L.map fun e => sfnName e.sfn)) := rh.wf hw0
    have hfree := free_mono (Names.addAll_mono g (L.map fun e => sfnName e.sfn))
    -- the invariant after the scan
    have invh : EpochInv upper L g0 (Names.addAll g (L.map fun e => sfnName e.sfn)) := by
      intro i hi
      rw [sh.2]
      rcases (addAll_testBit g _ i).1 hi with h | ⟨x, hx, hk⟩
      · exact inv i h
      · exact ⟨x, Or.inl hx, (HK_static r.static x _ i).1 hk⟩
    cases hg : Names.generate (Names.addAll g (L.map fun e => sfnName e.sfn)) with
    | ok a =>
      rw [hg] at hl
      simp only at hl
      by_cases hd : displayAscii a = true
      · rw [if_pos hd] at hl
        cases hk : lookupNoGen upper L (Names.aliasDisplay a) with
        | none => rw [hk] at hl; cases hl
        | some e =>
          rw [hk] at hl
          have hmem : e ∈ L := List.mem_of_find?_eq_some hk
          have hmatch : matchesName upper e (Names.aliasDisplay a) = true :=
            List.find?_some (p := fun e => matchesName upper e (Names.aliasDisplay a)) hk
          have hblocked : Blocked upper L a := ⟨e, hmem, hmatch⟩
          have hcanon : Canon a := generate_canon hwh hg
          have s1 := Names.addExisting_same (Names.addAll g (L.map fun e => sfnName e.sfn)) a
          have inv1 : EpochInv upper L g0 (Names.addExisting (Names.addAll g (L.map fun e => sfnName e.sfn)) a) := by
            intro i hi
            rw [s1.2]
            rcases (addExisting_testBit _ a i).1 hi with h | hk'
            · exact invh i h
            · exact ⟨a, Or.inr ⟨hcanon, hblocked⟩, (HK_static rh.static a _ i).1 hk'⟩
          obtain ⟨m, hm1, hm2⟩ := ih _ (Names.Reach.add a rh) inv1 hl
          have hdrop := free_continue hwh hg
          refine ⟨m, by omega, ?_⟩
          rw [s1.2, sh.2] at hm2
          exact hm2
      · rw [if_neg hd] at hl; cases hl
    | error x =>
      rw [hg] at hl
      simp only at hl
      have hbits := generate_error_bits hg
      have inv2 : EpochInv upper L g0 (Names.nextIteration (Names.addAll g (L.map fun e => sfnName e.sfn))) := by
        intro i hi
        simp [Names.nextIteration] at hi
      obtain ⟨m, hm1, hm2⟩ := ih _ (Names.Reach.next rh) inv2 hl
      have hf2 := free_le (Names.nextIteration (Names.addAll g (L.map fun e => sfnName e.sfn)))
      refine ⟨m + 1, by omega, ?_⟩
      intro c hc i h1 h9
      simp only [Names.chkSeq, List.mem_cons] at hc
      rcases hc with rfl | hc
      · have := invh i (hbits i h1 h9)
        rwa [sh.2] at this
      · have hck : (Names.nextIteration (Names.addAll g (L.map fun e => sfnName e.sfn))).chksum =
            (g.chksum + 1) % 65536 := by simp only [Names.nextIteration, sh.2]
        rw [hck] at hm2
        exact hm2 c hc i h1 h9

end DirAlias
end FatVerif
