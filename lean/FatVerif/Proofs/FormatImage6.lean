import FatVerif.Proofs.FormatImage5
/-! C06 image part, 6: the geometry facts of a formatted boot sector, as the image theorems need them. -/
namespace FatVerif
open Format

/-- everything the image theorems need to know about the BPB `format_boot_sector` produced -/
structure FmtGeom (o : FormatOpts) (t : Nat) (boot : FBoot) (ft : FatType) : Prop where
  bps_mem : boot.bpb.bps ∈ [512, 1024, 2048, 4096]
  spc_mem : boot.bpb.spc ∈ [1, 2, 4, 8, 16, 32, 64, 128]
  isFat32 : boot.bpb.isFat32 = decide (ft = .fat32)
  reserved : boot.bpb.reserved = reservedFor ft
  fats : boot.bpb.fats = 1 ∨ boot.bpb.fats = 2
  spf1 : 1 ≤ boot.bpb.sectorsPerFat
  spf32 : boot.bpb.sectorsPerFat < 4294967296
  spf16 : ft ≠ .fat32 → boot.bpb.sectorsPerFat ≤ 65535
  fit : boot.bpb.reserved + boot.bpb.fats * boot.bpb.sectorsPerFat + boot.bpb.rootDirSectors < t
  rds32 : ft = .fat32 → boot.bpb.rootDirSectors = 0
  rds1 : ft ≠ .fat32 → 1 ≤ boot.bpb.rootDirSectors
  f32 : ft = .fat32 → boot.bpb.backupBoot = 6 ∧ boot.bpb.fsInfoSector = 1 ∧ boot.bpb.rootCluster = 2
  tc : boot.bpb.totalClusters = .ok ((t - (boot.bpb.reserved + boot.bpb.fats * boot.bpb.sectorsPerFat +
      boot.bpb.rootDirSectors)) / boot.bpb.spc)
  ftc : ft = FatType.fromClusters ((t - (boot.bpb.reserved + boot.bpb.fats * boot.bpb.sectorsPerFat +
      boot.bpb.rootDirSectors)) / boot.bpb.spc)
  tcmax : (t - (boot.bpb.reserved + boot.bpb.fats * boot.bpb.sectorsPerFat + boot.bpb.rootDirSectors)) / boot.bpb.spc
      ≤ maxClusters ft
  cap : (t - (boot.bpb.reserved + boot.bpb.fats * boot.bpb.sectorsPerFat + boot.bpb.rootDirSectors)) / boot.bpb.spc + 2
      ≤ boot.bpb.sectorsPerFat * boot.bpb.bps * 8 / ft.bits
  extFlags : boot.bpb.extFlags = 0
  media : boot.bpb.media = o.media

theorem fmtGeom_of_ok {o : FormatOpts} {t : Nat} {boot : FBoot} {ft : FatType} (hacc : Accepted o)
    (ht : t < 4294967296) (h : formatChecked o t = .ok (boot, ft)) : FmtGeom o t boot ft := by
  obtain ⟨c, _, hspc, hbps, _, hrootne, _, hfacts, hboot, h16, hfrom, hmax⟩ := formatChecked_ok_layout hacc ht h
  obtain ⟨hspf1, hcap, hfit, hf32, hcleq⟩ := hfacts
  rw [hcleq] at hfrom hmax hcap
  have hb0 : 0 < o.bps := by simp only [List.mem_cons, List.mem_nil_iff, or_false] at hbps; omega
  have hs0 : c / o.bps ≠ 0 := by simp only [List.mem_cons, List.mem_nil_iff, or_false] at hspc; omega
  generalize hSe : spfOf t o.bps (c / o.bps) ft.bits (reservedFor ft)
    (determineRootDirSectors o.rootEntries o.bps ft) o.fats = S at *
  have hbpb := bootOf_bpb o t ft S (c / o.bps)
  rw [← hboot] at hbpb
  have e1 : boot.bpb.bps = o.bps := by rw [hbpb]; rfl
  have e2 : boot.bpb.spc = c / o.bps := by rw [hbpb]; rfl
  have e3 : boot.bpb.reserved = reservedFor ft := by rw [hbpb]; rfl
  have e4 : boot.bpb.fats = o.fats := by rw [hbpb]; rfl
  have e5 : boot.bpb.sectorsPerFat = S := by rw [hbpb]; exact bpbOf_sectorsPerFat _ _ _ _ _
  have e6 : boot.bpb.rootDirSectors = determineRootDirSectors o.rootEntries o.bps ft := by
    rw [hbpb]; exact bpbOf_rootDirSectors _ _ _ _ _ hb0
  have e7 : boot.bpb.extFlags = 0 := by rw [hbpb]; rfl
  have e8 : boot.bpb.media = o.media := by rw [hbpb]; rfl
  have hS32 : S < 4294967296 := by rw [← hSe]; unfold spfOf; omega
  refine ⟨by rw [e1]; exact hbps, by rw [e2]; exact hspc, ?_, e3, by rw [e4]; exact hacc.fats, by rw [e5]; exact hspf1,
    by rw [e5]; exact hS32, by rw [e5]; exact h16, by rw [e3, e4, e5, e6]; exact hfit, ?_, ?_, ?_, ?_,
    by rw [e3, e4, e5, e6, e2]; exact hfrom, by rw [e3, e4, e5, e6, e2]; exact hmax,
    by rw [e3, e4, e5, e6, e2, e1]; exact hcap, e7, e8⟩
  · rw [hbpb]; exact bpbOf_isFat32 _ _ _ _ _ hspf1
  · intro h32; subst h32; rw [e6]; rfl
  · intro h32
    rw [e6]
    unfold determineRootDirSectors
    rw [if_neg h32]
    have := hrootne h32
    simp only [List.mem_cons, List.mem_nil_iff, or_false] at hbps
    rcases hbps with hb | hb | hb | hb <;> rw [hb] <;> omega
  · intro h32; subst h32; rw [hbpb]; exact ⟨rfl, rfl, rfl⟩
  · rw [e3, e4, e5, e6, e2, hbpb]; exact bpbOf_totalClusters o t ft _ _ hb0 hf32 hfit ht hs0

end FatVerif
