import FatVerif.Model.Lfn
/-! `from_utf16_lossy ∘ encode_utf16 = id` on scalar values. -/
namespace FatVerif
namespace Lfn

theorem utf16Go_none_high (u : Nat) (rest : List Nat) (h : isHighSur u = true) :
    utf16Go none (u :: rest) = utf16Go (some u) rest := by
  rw [utf16Go, if_pos h]

theorem utf16Go_some_low (hh u : Nat) (rest : List Nat) (h : isLowSur u = true) :
    utf16Go (some hh) (u :: rest) = (0x10000 + (hh - 0xD800) * 1024 + (u - 0xDC00)) :: utf16Go none rest := by
  rw [utf16Go, if_pos h]

theorem utf16Go_none_plain (u : Nat) (rest : List Nat) (h1 : isHighSur u = false) (h2 : isLowSur u = false) :
    utf16Go none (u :: rest) = u :: utf16Go none rest := by
  rw [utf16Go, if_neg (by simp [h1]), if_neg (by simp [h2])]

theorem utf16Go_encode : ∀ s : List Nat, (∀ c ∈ s, IsScalar c) → utf16Go none (encodeUtf16 s) = s := by
  intro s
  induction s with
  | nil => intro _; rfl
  | cons c rest ih =>
    intro h
    have hc : IsScalar c := h c (by simp)
    have ihr := ih (fun x hx => h x (by simp [hx]))
    obtain ⟨h1, h2⟩ := hc
    unfold encodeUtf16
    by_cases hb : c < 0x10000
    · simp only [hb, if_true]
      have a1 : isHighSur c = false := by simp [isHighSur]; omega
      have a2 : isLowSur c = false := by simp [isLowSur]; omega
      rw [utf16Go_none_plain _ _ a1 a2, ihr]
    · simp only [hb, if_false]
      have a1 : isHighSur (0xD800 + (c - 0x10000) / 1024) = true := by simp [isHighSur]; omega
      have a2 : isLowSur (0xDC00 + (c - 0x10000) % 1024) = true := by simp [isLowSur]; omega
      have e : 0x10000 + (0xD800 + (c - 0x10000) / 1024 - 0xD800) * 1024 + (0xDC00 + (c - 0x10000) % 1024 - 0xDC00)
          = c := by omega
      rw [utf16Go_none_high _ _ a1, utf16Go_some_low _ _ _ a2, ihr, e]

end Lfn
end FatVerif
