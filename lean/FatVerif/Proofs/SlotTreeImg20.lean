import FatVerif.Proofs.SlotTreeImg10
import FatVerif.Proofs.SlotTreeImg14
import FatVerif.Proofs.SlotTreeImg19
/-!
# Slot trees on a device image, part 20: one call through the root handle

`Call` — `open_dir`, `open_file`, listing, `create_file`, `create_dir`, `remove` of a file, issued through the root
directory handle with paths of any depth (for the mutating calls: the directory components lead back to the root),
and `rename` of a file inside the root (both paths single names).
`byte_step`: on a device whose image holds the slot tree, the byte-level program of a call ends with the outcome of
`stepSlot` and leaves a device whose image holds the slot tree after the call (`ImgTreeW` re-established, under a
cluster map that agrees with the old one on the old tree's directories — `create_dir` extends it by the new
cluster; for the read-only calls the volume is untouched).
-/
namespace FatVerif
namespace SlotTreeImg
open Lfn DirSlots DirAlias SlotTree DirSim FatVerif.FileSim FatVerif.Fat

/-- calls through the root directory handle -/
inductive Call where
  | openDir (path : String)
  | openFile (path : String)
  | list
  | createFile (path : String)
  | createDir (path : String)
  /-- `remove` of a file -/
  | removeFile (path : String)
  /-- `rename` of a file inside the root, both paths single names -/
  | renameFile (src dst : String)

def Call.op : Call → Spec.Op
  | .openDir p => .openDir [] p
  | .openFile p => .openFile [] p
  | .list => .list []
  | .createFile p => .createFile [] p
  | .createDir p => .createDir [] p
  | .removeFile p => .remove [] p
  | .renameFile s t => .rename [] s [] t

def errOf {α} : Except Err α → Option Err
  | .ok _ => none
  | .error e => some e

/-- the byte-level program of a call, run on `d`, ends with outcome `o` (`none` = success) on the device `d'` -/
def ByteOut (env : Env) (fuel : Nat) (d : Dev) : Call → Option Err → Dev → Prop
  | .openDir p, o, d' => ∃ r, run (openDir env fuel (rootDirStream d.fs) p) d = (r, d') ∧ errOf r = o
  | .openFile p, o, d' => ∃ r, run (openFile env fuel (rootDirStream d.fs) p) d = (r, d') ∧ errOf r = o
  | .list, o, d' => ∃ r, run (listDir (rootDirStream d.fs)) d = (r, d') ∧ errOf r = o
  | .createFile p, o, d' => ∃ r, run (createFile env fuel (rootDirStream d.fs) p) d = (r, d') ∧ errOf r = o
  | .createDir p, o, d' => ∃ r, run (createDir env fuel (rootDirStream d.fs) p) d = (r, d') ∧ errOf r = o
  | .removeFile p, o, d' => ∃ r, run (FatVerif.remove env fuel (rootDirStream d.fs) p) d = (r, d') ∧ errOf r = o
  | .renameFile s t, o, d' =>
      ∃ r, run (FatVerif.rename env fuel (rootDirStream d.fs) s (rootDirStream d.fs) t) d = (r, d') ∧ errOf r = o

/-- the tail of the short record a call issued on `d` would write: time stamps from the clock; for `create_dir` the
    first cluster is the one the allocator finds in the FAT of the image -/
def stampOf (d : Dev) : Call → List Nat
  | .createDir _ => sfnStamp d.fs d.clock (allocFindV (tabView d.fs d.img) d.fs.fsInfo.next d.fs.totalClusters)
  | _ => sfnStamp d.fs d.clock none

/-- the slot tree's result for a call issued on the device `d` -/
def modelStep (up : Char → List Char) (d : Dev) (t : Node) (c : Call) : Res :=
  stepSlot up 70000 t c.op (stampOf d c)

/-- the resource / scope hypotheses of one call (besides those of the specification side) -/
def CallOk (up : Char → List Char) (cl : List String → Option Nat) (d : Dev) (t : Node) (fuel : Nat) : Call → Prop
  | .openDir p => p.toList.length < fuel
  | .openFile p => p.toList.length < fuel
  | .list => True
  | .createFile p => p.toList.length < fuel ∧
      (∀ q, walkDirsS up t [] (pathParts p).1 = .ok q → q = []) ∧
      (∀ slots ch, t = .dir slots ch → HasRoomRoot d slots (pathParts p).2) ∧
      (modelStep up d t (.createFile p)).out ≠ .error .hang
  | .createDir p => p.toList.length < fuel ∧
      (∀ q, walkDirsS up t [] (pathParts p).1 = .ok q → q = []) ∧
      (∃ c, ∀ slots ch, t = .dir slots ch → DirRes d up t cl slots (pathParts p).2 c) ∧
      (modelStep up d t (.createDir p)).out ≠ .error .hang
  | .removeFile p => p.toList.length < fuel ∧
      (∀ q, walkDirsS up t [] (pathParts p).1 = .ok q → q = []) ∧
      (∀ slots ch, t = .dir slots ch → RemoveRes d up t cl slots ch (pathParts p).2)
  | .renameFile s t' => 0 < fuel ∧
      (∃ sa da, Names.splitPathL s.toList = (sa, none) ∧ Names.splitPathL t'.toList = (da, none) ∧
        ∀ slots ch, t = .dir slots ch → RenameRes d up slots ch (String.ofList sa) (String.ofList da)) ∧
      (modelStep up d t (.renameFile s t')).out ≠ .error .hang

section step
variable {d : Dev} {up : Char → List Char} {t : Node} {cl : List String → Option Nat}

theorem outErr_of_ok {r : Res} {rows} (h : r.out = .ok rows) : outErr r = none := by unfold outErr; rw [h]
theorem outErr_of_err {r : Res} {e} (h : r.out = .error e) : outErr r = some e := by unfold outErr; rw [h]

/-- **one call at byte level**: outcome of `stepSlot`, and the image afterwards holds the tree afterwards -/
theorem byte_step (W : ImgTreeW d up t cl) (hwf : TreeWf up t) (hup : DotSafe up) (env : Env) (henv : env.upper = up)
    (fuel : Nat) (c : Call) (hc : CallOk up cl d t fuel c) (hroot : ∃ s ch, t = .dir s ch) :
    ∃ d' cl', ByteOut env fuel d c (outErr (modelStep up d t c)) d' ∧ VolStep d d' ∧
      ImgTreeW d' up (modelStep up d t c).tree cl' ∧ ClAgree up t cl cl' ∧ d'.clock = d.clock := by
  obtain ⟨s0, c0, ht⟩ := hroot
  have I := W.toImgTree
  have hden : Den d up t cl [] (rootDirStream d.fs) := den_root I s0 c0 ht
  cases c with
  | openDir p =>
    obtain ⟨o1, o2⟩ := open_dir_out I hwf hup env henv hden p fuel hc
    unfold modelStep Call.op
    simp only [stepSlot]
    cases hout : (openS up t [] p true).out with
    | ok rows =>
      obtain ⟨de, hr⟩ := o1 rows hout
      obtain ⟨d', hrun, hs⟩ := hr d (SameVol.refl d)
      have htree : (openS up t [] p true).tree = t := openS_tree _ _ _ _ _
      exact ⟨d', cl, ⟨_, hrun, by rw [outErr_of_ok hout]; rfl⟩, VolStep.of_sameVol hs,
        by rw [htree]; exact W.of_sameVol hs, ClAgree.refl _ _ _, run_clock _ _ _ _ hrun⟩
    | error e =>
      obtain ⟨d', hrun, hs⟩ := o2 e hout d (SameVol.refl d)
      have htree : (openS up t [] p true).tree = t := openS_tree _ _ _ _ _
      exact ⟨d', cl, ⟨_, hrun, by rw [outErr_of_err hout]; rfl⟩, VolStep.of_sameVol hs,
        by rw [htree]; exact W.of_sameVol hs, ClAgree.refl _ _ _, run_clock _ _ _ _ hrun⟩
  | openFile p =>
    obtain ⟨o1, o2⟩ := open_file_out I hwf hup env henv hden p fuel hc
    unfold modelStep Call.op
    simp only [stepSlot]
    cases hout : (openS up t [] p false).out with
    | ok rows =>
      obtain ⟨de, hr⟩ := o1 rows hout
      obtain ⟨d', hrun, hs⟩ := hr d (SameVol.refl d)
      have htree : (openS up t [] p false).tree = t := openS_tree _ _ _ _ _
      exact ⟨d', cl, ⟨_, hrun, by rw [outErr_of_ok hout]; rfl⟩, VolStep.of_sameVol hs,
        by rw [htree]; exact W.of_sameVol hs, ClAgree.refl _ _ _, run_clock _ _ _ _ hrun⟩
    | error e =>
      obtain ⟨d', hrun, hs⟩ := o2 e hout d (SameVol.refl d)
      have htree : (openS up t [] p false).tree = t := openS_tree _ _ _ _ _
      exact ⟨d', cl, ⟨_, hrun, by rw [outErr_of_err hout]; rfl⟩, VolStep.of_sameVol hs,
        by rw [htree]; exact W.of_sameVol hs, ClAgree.refl _ _ _, run_clock _ _ _ _ hrun⟩
  | list =>
    obtain ⟨⟨slots, ch, hg⟩, hs⟩ := hden
    obtain ⟨V, dots, k, hI, hr⟩ := listDir_den I [] _ slots ch hg hs
    obtain ⟨d', hrun, hsv⟩ := hr d (SameVol.refl d)
    unfold modelStep Call.op
    simp only [stepSlot]
    have hl : listS up t [] = ⟨t, .ok ((listing slots).map fun e => (entryName e, Lfn.isDir e.sfn))⟩ := by
      unfold listS; rw [hg]
    rw [hl]
    exact ⟨d', cl, ⟨_, hrun, rfl⟩, VolStep.of_sameVol hsv, W.of_sameVol hsv, ClAgree.refl _ _ _,
      run_clock _ _ _ _ hrun⟩
  | createFile p =>
    obtain ⟨hf, hlast, hroom, hnh⟩ := hc
    unfold modelStep Call.op at hnh ⊢
    simp only [stepSlot, stampOf] at hnh ⊢
    obtain ⟨o1, o2⟩ := create_file_root_img W hwf hup env henv [] _ hden p fuel hf hlast hroom hnh
    cases hout : (createS up 70000 t [] p false (sfnStamp d.fs d.clock none)).out with
    | ok rows =>
      obtain ⟨h, d', hrun, hs, hW⟩ := o2 rows hout
      exact ⟨d', cl, ⟨_, hrun, by rw [outErr_of_ok hout]; rfl⟩, hs, hW, ClAgree.refl _ _ _, run_clock _ _ _ _ hrun⟩
    | error e =>
      obtain ⟨d', hrun, hs⟩ := o1 e hout
      have htree : (createS up 70000 t [] p false (sfnStamp d.fs d.clock none)).tree = t :=
        createS_err_tree _ _ _ _ _ _ _ e hout
      exact ⟨d', cl, ⟨_, hrun, by rw [outErr_of_err hout]; rfl⟩, VolStep.of_sameVol hs,
        by rw [htree]; exact W.of_sameVol hs, ClAgree.refl _ _ _, run_clock _ _ _ _ hrun⟩
  | createDir p =>
    obtain ⟨hf, hlast, ⟨c, hres⟩, hnh⟩ := hc
    have hfind := (hres s0 c0 ht).find
    unfold modelStep Call.op at hnh ⊢
    simp only [stepSlot, stampOf] at hnh ⊢
    rw [hfind] at hnh ⊢
    obtain ⟨o1, o2⟩ := create_dir_root_img W hwf hup env henv [] _ hden p fuel hf hlast c hres hnh
    cases hout : (createS up 70000 t [] p true (sfnStamp d.fs d.clock (some c))).out with
    | ok rows =>
      obtain ⟨s, d', hrun, hs, cl', hW, hA⟩ := o2 rows hout
      exact ⟨d', cl', ⟨_, hrun, by rw [outErr_of_ok hout]; rfl⟩, hs, hW, hA, run_clock _ _ _ _ hrun⟩
    | error e =>
      obtain ⟨d', hrun, hs⟩ := o1 e hout
      have htree : (createS up 70000 t [] p true (sfnStamp d.fs d.clock (some c))).tree = t :=
        createS_err_tree _ _ _ _ _ _ _ e hout
      exact ⟨d', cl, ⟨_, hrun, by rw [outErr_of_err hout]; rfl⟩, VolStep.of_sameVol hs,
        by rw [htree]; exact W.of_sameVol hs, ClAgree.refl _ _ _, run_clock _ _ _ _ hrun⟩
  | removeFile p =>
    obtain ⟨hf, hlast, hres⟩ := hc
    obtain ⟨o1, o2⟩ := remove_file_root_img W hwf hup env henv [] _ hden p fuel hf hlast hres
    unfold modelStep Call.op
    simp only [stepSlot]
    cases hout : (removeS up t [] p).out with
    | ok rows =>
      obtain ⟨d', hrun, hs, hW⟩ := o2 rows hout
      exact ⟨d', cl, ⟨_, hrun, by rw [outErr_of_ok hout]; rfl⟩, hs, hW, ClAgree.refl _ _ _, run_clock _ _ _ _ hrun⟩
    | error e =>
      obtain ⟨d', hrun, hs⟩ := o1 e hout
      have htree : (removeS up t [] p).tree = t := removeS_err_tree _ _ _ _ e hout
      exact ⟨d', cl, ⟨_, hrun, by rw [outErr_of_err hout]; rfl⟩, VolStep.of_sameVol hs,
        by rw [htree]; exact W.of_sameVol hs, ClAgree.refl _ _ _, run_clock _ _ _ _ hrun⟩
  | renameFile s t' =>
    obtain ⟨hf, ⟨sa, da, h1, h2, hres⟩, hnh⟩ := hc
    obtain ⟨f, rfl⟩ : ∃ f, fuel = f + 1 := ⟨fuel - 1, by omega⟩
    unfold modelStep Call.op at hnh ⊢
    simp only [stepSlot] at hnh ⊢
    obtain ⟨o1, o2⟩ := rename_file_root_img W hwf env henv f s t' sa da h1 h2 ⟨s0, c0, ht⟩ hres hnh
    cases hout : (renameS up 70000 t [] s [] t').out with
    | ok rows =>
      obtain ⟨d', hrun, hs, hW⟩ := o2 rows hout
      exact ⟨d', cl, ⟨_, hrun, by rw [outErr_of_ok hout]; rfl⟩, hs, hW, ClAgree.refl _ _ _, run_clock _ _ _ _ hrun⟩
    | error e =>
      obtain ⟨d', hrun, hs⟩ := o1 e hout
      have htree : (renameS up 70000 t [] s [] t').tree = t := by
        rw [renameS_single up t s t' sa da h1 h2 ⟨s0, c0, ht⟩] at hout ⊢
        exact renameInternalS_err_tree _ _ _ _ _ _ _ e hout
      exact ⟨d', cl, ⟨_, hrun, by rw [outErr_of_err hout]; rfl⟩, VolStep.of_sameVol hs,
        by rw [htree]; exact W.of_sameVol hs, ClAgree.refl _ _ _, run_clock _ _ _ _ hrun⟩

end step

/-! ## the tree after a call still has a directory as its root; no call of this kind ends in `hang` unnoticed -/

theorem modelStep_isDir (up : Char → List Char) (d : Dev) (t : Node) (c : Call) :
    (modelStep up d t c).tree.isDir = t.isDir := by
  cases c with
  | openDir p => exact congrArg Node.isDir (openS_tree _ _ _ _ _)
  | openFile p => exact congrArg Node.isDir (openS_tree _ _ _ _ _)
  | list => unfold modelStep Call.op; simp only [stepSlot, listS]; repeat' split <;> rfl
  | createFile p => exact createS_isDir _ _ _ _ _ _ _
  | createDir p => exact createS_isDir _ _ _ _ _ _ _
  | removeFile p => exact removeS_isDir _ _ _ _
  | renameFile s t' => exact renameS_isDir _ _ _ _ _ _ _

theorem modelStep_no_hang (up : Char → List Char) (cl : List String → Option Nat) (d : Dev) (t : Node) (fuel : Nat)
    (c : Call) (hc : CallOk up cl d t fuel c) : (modelStep up d t c).out ≠ .error .hang := by
  cases c with
  | openDir p => exact openS_no_hang _ _ _ _ _
  | openFile p => exact openS_no_hang _ _ _ _ _
  | list => unfold modelStep Call.op; simp only [stepSlot, listS]; repeat' split <;> simp [fail]
  | createFile p => exact hc.2.2.2
  | createDir p => exact hc.2.2.2
  | removeFile p => exact removeS_no_hang _ _ _ _
  | renameFile s t' => exact hc.2.2

end SlotTreeImg
end FatVerif
