import FatVerif.Proofs.FileSimFrame3
/-!
# FileSim / cut: every PREFIX of the write records of operations on `f` leaves another file `g` readable

`Keeps fs pos L img img'`: `img'` shows a file with slot `pos` and chain `L` exactly as `img` does — same slot bytes, same
bytes in the clusters of `L`, same DECODED FAT entries of `L` (so the byte a FAT12 neighbour shares does not matter).
`classified_keeps`: a classified record list (`Trace`) whose clusters `E` / `D` avoid `L` and whose positions avoid the slot
keeps all of that after every prefix.  `runH_summary`: the summary (and the classified records) of a whole history.
-/
namespace FatVerif.FileSim
open FatVerif FatVerif.Fat

/-- `img'` shows the file with slot `pos` and chain `L` as `img` does -/
structure Keeps (fs : FsState) (pos : Nat) (L : List Nat) (img img' : Img) : Prop where
  size : img'.size = img.size
  wf : img'.WF
  slot : ∀ q, pos ≤ q → q < pos + 32 → img'.getByte q = img.getByte q
  data : ∀ c ∈ L, ∀ j, j < fs.clusterSize → img'.getByte (clusterOff fs c + j) = img.getByte (clusterOff fs c + j)
  fat : ∀ c ∈ L, tabView fs img' c = tabView fs img c

theorem Keeps.refl (fs : FsState) (pos : Nat) (L : List Nat) (img : Img) (hwf : img.WF) : Keeps fs pos L img img :=
  ⟨rfl, hwf, fun _ _ _ => rfl, fun _ _ _ _ => rfl, fun _ _ => rfl⟩

theorem Keeps.trans {fs : FsState} {pos : Nat} {L : List Nat} {a b c : Img} (h1 : Keeps fs pos L a b)
    (h2 : Keeps fs pos L b c) : Keeps fs pos L a c :=
  ⟨h2.size.trans h1.size, h2.wf, fun q x y => (h2.slot q x y).trans (h1.slot q x y),
   fun x hx j hj => (h2.data x hx j hj).trans (h1.data x hx j hj), fun x hx => (h2.fat x hx).trans (h1.fat x hx)⟩

/-- ONE classified record keeps a file whose clusters it is not about and whose slot it does not hit -/
theorem recOk_keeps {fs : FsState} {E D : Nat → Prop} {img : Img} {r : Rec} {pos : Nat} {L : List Nat}
    (hg : Geo fs img.size) (hwf : img.WF) (hr : RecOk fs E D img r)
    (hL : ∀ c ∈ L, 2 ≤ c ∧ c < fs.totalClusters + 2 ∧ ¬ E c ∧ ¬ D c)
    (hslot : ∀ q, pos ≤ q → q < pos + 32 → q ≠ statusOff fs ∧
      (∀ c, D c → 2 ≤ c → c < fs.totalClusters + 2 → ¬ InCluster fs c q) ∧ (∀ c, E c → ¬ FatEntryPos fs c q)) :
    Keeps fs pos L img (img.write r.1 r.2) := by
  have hst : statusOff fs < 0x42 := by unfold statusOff; split <;> decide
  have hsl := hg.status_lt
  have hfd := hg.fat_data
  have hm1 : (fatSliceOf fs).size ≤ (fatSliceOf fs).mirrors * (fatSliceOf fs).size :=
    Nat.le_mul_of_pos_left _ hg.mirrors_pos
  have hco : ∀ c, fs.firstDataSector * fs.bps ≤ clusterOff fs c := fun c => by
    unfold clusterOff; exact Nat.mul_le_mul_right _ (Nat.le_add_right _ _)
  have hfatOut : (∀ q, r.1 ≤ q → q < r.1 + r.2.length →
      q < (fatSliceOf fs).beginOff ∨ (fatSliceOf fs).beginOff + (fatSliceOf fs).size ≤ q) →
      tabView fs (img.write r.1 r.2) = tabView fs img := by
    intro hout
    apply tabView_congr hg
    intro q h1 h2
    apply Img.getByte_write_of_not_mem _ hwf
    intro hin
    rcases hout q hin.1 hin.2 with h | h <;> omega
  refine ⟨Img.write_size _ _ _, Img.wf_write _ hwf _ _, ?_, ?_, ?_⟩
  · intro q h1 h2
    apply Img.getByte_write_of_not_mem _ hwf
    intro hin
    obtain ⟨s1, s2, s3⟩ := hslot q h1 h2
    rcases hr with ⟨e1, e2⟩ | ⟨c, hc, c2, ct, a1, a2⟩ | ⟨c, i, hc, ct, hi, e1, e2, _⟩
    · apply s1; omega
    · exact s2 c hc c2 ct ⟨by omega, by omega⟩
    · exact s3 c hc ⟨i, hi, by omega, by omega⟩
  · intro x hx j hj
    obtain ⟨x2, xt, xE, xD⟩ := hL x hx
    apply Img.getByte_write_of_not_mem _ hwf
    intro hin
    have := hco x
    rcases hr with ⟨e1, e2⟩ | ⟨c, hc, c2, ct, a1, a2⟩ | ⟨c, i, hc, ct, hi, e1, e2, _⟩
    · omega
    · have hne : x ≠ c := fun e => xD (e ▸ hc)
      obtain ⟨i1, i2⟩ := hin
      have q1 : InCluster fs x (clusterOff fs x + j) := ⟨Nat.le_add_right _ _, Nat.add_lt_add_left hj _⟩
      have q2 : InCluster fs c (clusterOff fs x + j) := ⟨Nat.le_trans a1 i1, Nat.lt_of_lt_of_le i2 a2⟩
      exact inCluster_disjoint fs x2 c2 hne q1 q2
    · have := hg.fatEntry_in_fat ct (q := clusterOff fs x + j) ⟨i, hi, by omega, by omega⟩
      omega
  · intro x hx
    obtain ⟨x2, xt, xE, xD⟩ := hL x hx
    rcases hr with ⟨e1, e2⟩ | ⟨c, hc, c2, ct, a1, a2⟩ | ⟨c, i, hc, ct, hi, e1, e2, hkeep⟩
    · rw [hfatOut (fun q h1 h2 => Or.inl (by omega))]
    · rw [hfatOut (fun q h1 h2 => Or.inr (by have := hco c; omega))]
    · exact hkeep x (fun e => xE (e ▸ hc))

/-- every prefix of a classified record list keeps the file -/
theorem classified_keeps {fs : FsState} {E D : Nat → Prop} {pos : Nat} {L : List Nat}
    (hL : ∀ c ∈ L, 2 ≤ c ∧ c < fs.totalClusters + 2 ∧ ¬ E c ∧ ¬ D c)
    (hslot : ∀ q, pos ≤ q → q < pos + 32 → q ≠ statusOff fs ∧
      (∀ c, D c → 2 ≤ c → c < fs.totalClusters + 2 → ¬ InCluster fs c q) ∧ (∀ c, E c → ¬ FatEntryPos fs c q)) :
    ∀ (recs : List Rec) (img : Img), Geo fs img.size → img.WF → Classified fs E D img recs →
      ∀ k, Keeps fs pos L img (applyRecs img (recs.take k))
  | [], img, _, hwf, _, k => by simp only [List.take_nil]; exact Keeps.refl _ _ _ _ hwf
  | r :: rs, img, hg, hwf, hc, k => by
    cases k with
    | zero => exact Keeps.refl _ _ _ _ hwf
    | succ k =>
      have h1 := recOk_keeps hg hwf hc.1 hL hslot
      have h2 := classified_keeps hL hslot rs (img.write r.1 r.2) (by rw [Img.write_size]; exact hg)
        (Img.wf_write _ hwf _ _) hc.2 k
      exact h1.trans h2

/-- the summary of a whole history on one handle -/
theorem runH_summary : ∀ (ops : List HOp) (f : FileH) (d : Dev), SimInv f d → BytesOk ops →
    OpSummary f d (runH ops f d).2.1 (runH ops f d).2.2
  | [], f, d, _, _ => OpSummary.refl f d
  | op :: ops, f, d, h, hok => by
    have hop := hok.cons
    have hsim' := (execH_refines op f d h hop.1).1
    exact (execH_summary op f d h hop.1).trans (runH_summary ops _ _ hsim' hop.2) h.rep hsim'.rep

/-- a represented file with a clean record is what a semantically equal image shows: re-open from the slot and read
    to the end -/
theorem reopen_reads_keeps {fs : FsState} {img : Img} {g : FileH} {eg : DirEntryEditor} (hg : Geo fs img.size)
    (hrep : FileRep fs img g) (he : EntryRep fs img g eg) (hcl : eg.dirty = false) (dk : Dev)
    (hk : Keeps fs eg.pos (fileChain fs img g) img dk.img) (hfs : dk.fs = fs) (hfa : dk.failAt = none) :
    ∃ g' d', run (readExact FileH.strm (reopen dk.fs dk.img eg.pos) (absFile fs img g).size) dk =
      (.ok ((absFile fs img g).content, g'), d') := by
  obtain ⟨hrepk, hcore, hch⟩ := hrep.of_sem_agree (fs' := fs) (img' := dk.img) (FsGeomEq.refl _) hk.fat hk.data
  have hek : EntryRep fs dk.img g eg := by
    refine ⟨he.entry, he.wf, he.notLfn, by rw [hk.size]; exact he.inDev, he.offFat, ?_, he.first, ?_⟩
    · intro c hc; rw [hch] at hc; exact he.offData c hc
    · intro hcl'
      rw [← he.sync hcl']
      unfold Img.read
      apply List.map_congr_left
      intro k hkk
      have := List.mem_range.mp hkk
      exact hk.slot _ (by omega) (by omega)
  have hgk : Geo fs dk.img.size := by rw [hk.size]; exact hg
  obtain ⟨_, hrepr, hcont, hsize⟩ := read_footprint (img' := dk.img) hgk hrepk hek hcl (fun _ _ => rfl)
  have habs := hcore.abs_eq hrep.inv.cs_pos hrep.inv.cover
  have hcont' : (absFile fs dk.img g).content = (absFile fs img g).content := congrArg Cursor.ByteFile.content habs
  have hsize' : (absFile fs dk.img g).size = (absFile fs img g).size := hcore.size
  rw [hfs]
  have hoff0 : (reopen fs dk.img eg.pos).offset = 0 := rfl
  obtain ⟨g', d', hrd, _⟩ := readExact_sim (reopen fs dk.img eg.pos) (absFile fs img g).size dk hfa
    (by rw [hfs]; exact hgk) (by rw [hfs]; exact hrepr) (by rw [hfs, hoff0, hsize, hsize']; omega)
  refine ⟨g', d', ?_⟩
  rw [hfs] at hrd
  rw [hrd, hoff0, List.drop_zero, hcont, hcont',
    List.take_of_length_le (by rw [Cursor.AFile.content_length]; exact Nat.le_refl _)]

end FatVerif.FileSim
