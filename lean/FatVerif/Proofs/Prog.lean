import FatVerif.Model.Prog
/-! Structural theorems about programs (by induction on `Prog` syntax):

* `IoSafe p → Propagates p` — a program that never inspects an error except to re-raise I/O errors unchanged returns
  `Err.io k` carrying the index of the failed device call whenever a device call issued OUTSIDE a destructor fails
  (property C09);
* `NoWriteOps p → run p` leaves the image and the write log unchanged (property C13). -/
namespace FatVerif

/-! ### primitive steps never touch the fault schedule except by firing it -/

/-- what every primitive action (the `act` passed to `devCall`, and the non-device ops) guarantees -/
def ActFrame {α} (act : Dev → Except Err α × Dev) : Prop :=
  ∀ d0 r d1, act d0 = (r, d1) →
    d1.failAt = d0.failAt ∧ d1.fault = d0.fault ∧ d1.dropDepth = d0.dropDepth

theorem count_frame (d : Dev) (k : CallKind) :
    (d.count k).failAt = d.failAt ∧ (d.count k).fault = d.fault ∧ (d.count k).dropDepth = d.dropDepth := by
  unfold Dev.count; cases k <;> simp

/-- summary of one primitive step started with no fault fired -/
structure StepFacts (d d' : Dev) : Prop where
  depth : d'.dropDepth = d.dropDepth
  spent : d.failAt = none → d'.failAt = none ∧ d'.fault = d.fault

theorem devCall_facts {α} (k : CallKind) (d : Dev) (act : Dev → Except Err α × Dev) (hact : ActFrame act)
    {r d'} (hr : devCall k d act = (r, d')) : StepFacts d d' := by
  unfold devCall devCallCore at hr
  have hc := count_frame d k
  split at hr
  · cases hr
    exact ⟨hc.2.2, fun h => by rename_i hf; rw [hc.1, h] at hf; cases hf⟩
  · have := hact _ _ _ hr
    exact ⟨by rw [this.2.2, hc.2.2], fun h => ⟨by rw [this.1, hc.1, h], by rw [this.2.1, hc.2.1]⟩⟩

/-- the outcome of a primitive device call started with no fault fired yet -/
theorem devCall_outcome {α} (k : CallKind) (d : Dev) (act : Dev → Except Err α × Dev) (hact : ActFrame act)
    (h : d.fault = none) {r d'} (hr : devCall k d act = (r, d')) :
    d'.fault = none ∨
    (d'.failAt = none ∧ ∃ f, d'.fault = some f ∧ r = .error (.io f.k) ∧ (0 < d.dropDepth → f.inDrop = true)) := by
  unfold devCall devCallCore at hr
  have hc := count_frame d k
  split at hr
  · cases hr
    right
    refine ⟨rfl, _, rfl, rfl, ?_⟩
    intro hd; simp [hc.2.2, hd]
  · have := hact _ _ _ hr
    left; rw [this.2.1, hc.2.1, h]

theorem act_read (n : Nat) : ActFrame (fun d : Dev =>
    let m := min n (d.img.size - d.pos)
    ((.ok (d.img.read d.pos m) : Except Err (List Nat)), { d with pos := d.pos + m })) := by
  intro d0 r d1 h; cases h; simp

theorem act_write (bs : List Nat) : ActFrame (fun d : Dev =>
    let m := min bs.length (d.img.size - d.pos)
    let bs' := bs.take m
    ((.ok m : Except Err Nat),
      { d with img := d.img.write d.pos bs', pos := d.pos + m, log := .write d.pos bs' :: d.log })) := by
  intro d0 r d1 h; cases h; simp

theorem act_seek (p : SeekFrom) : ActFrame (fun d : Dev =>
    match p with
    | .start n => ((.ok n : Except Err Nat), { d with pos := n })
    | .cur x =>
      let t : Int := (d.pos : Int) + x
      if t < 0 then (.error (.io negSeekErr), d) else (.ok t.toNat, { d with pos := t.toNat })
    | .fromEnd x =>
      let t : Int := (d.img.size : Int) + x
      if t < 0 then (.error (.io negSeekErr), d) else (.ok t.toNat, { d with pos := t.toNat })) := by
  intro d0 r d1 h
  cases p with
  | start n => cases h; simp
  | cur x => simp only at h; split at h <;> cases h <;> simp
  | fromEnd x => simp only at h; split at h <;> cases h <;> simp

theorem act_flush : ActFrame (fun d : Dev =>
    ((.ok () : Except Err Unit), { d with log := .flush :: d.log })) := by
  intro d0 r d1 h; cases h; simp

theorem stepOp_facts (o : Op) (d : Dev) {r d'} (hr : stepOp o d = (r, d')) : StepFacts d d' := by
  cases o with
  | read n => simp only [stepOp] at hr; exact devCall_facts _ _ _ (act_read n) hr
  | write bs => simp only [stepOp] at hr; exact devCall_facts _ _ _ (act_write bs) hr
  | seek p => simp only [stepOp] at hr; exact devCall_facts _ _ _ (act_seek p) hr
  | flush => simp only [stepOp] at hr; exact devCall_facts _ _ _ act_flush hr
  | now => simp only [stepOp] at hr; cases hr; constructor <;> simp
  | today => simp only [stepOp] at hr; cases hr; constructor <;> simp
  | getFs => simp only [stepOp] at hr; cases hr; constructor <;> simp
  | setFs fs => simp only [stepOp] at hr; cases hr; constructor <;> simp

theorem stepOp_outcome (o : Op) (d : Dev) (h : d.fault = none) {r d'} (hr : stepOp o d = (r, d')) :
    d'.fault = none ∨
    (d'.failAt = none ∧ ∃ f, d'.fault = some f ∧ r = .error (.io f.k) ∧ (0 < d.dropDepth → f.inDrop = true)) := by
  cases o with
  | read n => simp only [stepOp] at hr; exact devCall_outcome _ _ _ (act_read n) h hr
  | write bs => simp only [stepOp] at hr; exact devCall_outcome _ _ _ (act_write bs) h hr
  | seek p => simp only [stepOp] at hr; exact devCall_outcome _ _ _ (act_seek p) h hr
  | flush => simp only [stepOp] at hr; exact devCall_outcome _ _ _ act_flush h hr
  | now => simp only [stepOp] at hr; cases hr; left; simp [h]
  | today => simp only [stepOp] at hr; cases hr; left; simp [h]
  | getFs => simp only [stepOp] at hr; cases hr; left; simp [h]
  | setFs fs => simp only [stepOp] at hr; cases hr; left; simp [h]

/-! ### facts true of EVERY program -/

/-- the destructor depth is restored, and once the one-shot fault is spent (or none was scheduled) no program can
    make a fault fire or forget one -/
theorem run_facts {α} (p : Prog α) : ∀ (d : Dev) {r d'}, run p d = (r, d') → StepFacts d d' := by
  induction p with
  | pure a => intro d r d' hr; simp only [run] at hr; cases hr; exact ⟨rfl, fun h => ⟨h, rfl⟩⟩
  | fail e => intro d r d' hr; simp only [run] at hr; cases hr; exact ⟨rfl, fun h => ⟨h, rfl⟩⟩
  | op o => intro d r d' hr; simp only [run] at hr; exact stepOp_facts o d hr
  | bind p k ihp ihk =>
    intro d r d' hr
    simp only [run] at hr
    rcases hp : run p d with ⟨rp, d1⟩
    rw [hp] at hr
    have h1 := ihp d hp
    cases rp with
    | ok b =>
      simp only at hr
      have h2 := ihk b d1 hr
      exact ⟨h2.depth.trans h1.depth, fun h =>
        ⟨(h2.spent (h1.spent h).1).1, ((h2.spent (h1.spent h).1).2).trans (h1.spent h).2⟩⟩
    | error e => simp only at hr; cases hr; exact h1
  | tryCatch p hdl ihp ihh =>
    intro d r d' hr
    simp only [run] at hr
    rcases hp : run p d with ⟨rp, d1⟩
    rw [hp] at hr
    have h1 := ihp d hp
    cases rp with
    | ok a => simp only at hr; cases hr; exact h1
    | error e =>
      simp only at hr
      split at hr
      · cases hr; exact h1
      · have h2 := ihh e d1 hr
        exact ⟨h2.depth.trans h1.depth, fun h =>
          ⟨(h2.spent (h1.spent h).1).1, ((h2.spent (h1.spent h).1).2).trans (h1.spent h).2⟩⟩
  | finallyDrop p c ihp ihc =>
    intro d r d' hr
    simp only [run] at hr
    rcases hp : run p d with ⟨rp, d1⟩
    rw [hp] at hr
    have h1 := ihp d hp
    have key : ∀ {o rc d2}, run (c o) { d1 with dropDepth := d1.dropDepth + 1 } = (rc, d2) →
        StepFacts d { d2 with dropDepth := d2.dropDepth - 1 } := by
      intro o rc d2 hc
      have h2 := ihc o { d1 with dropDepth := d1.dropDepth + 1 } hc
      refine ⟨?_, fun h => ?_⟩
      · have := h2.depth; simp at this; simp [this, h1.depth]
      · have := h2.spent (by simpa using (h1.spent h).1)
        exact ⟨by simpa using this.1, by simpa using this.2.trans (h1.spent h).2⟩
    cases rp with
    | ok a =>
      simp only at hr
      rcases hc : run (c (some a)) { d1 with dropDepth := d1.dropDepth + 1 } with ⟨rc, d2⟩
      rw [hc] at hr
      have h2 := key hc
      cases rc with
      | ok u => simp only at hr; cases hr; exact h2
      | error e' => simp only at hr; split at hr <;> cases hr <;> exact h2
    | error e =>
      simp only at hr
      split at hr
      · cases hr; exact h1
      · rcases hc : run (c none) { d1 with dropDepth := d1.dropDepth + 1 } with ⟨rc, d2⟩
        rw [hc] at hr
        have h2 := key hc
        cases rc with
        | ok u => simp only at hr; cases hr; exact h2
        | error e' => simp only at hr; split at hr <;> cases hr <;> exact h2

/-- started with no fault fired: afterwards either none fired, or exactly one did, the schedule is spent, and — if the
    program ran inside a destructor — the fault is recorded as in-drop -/
def AnyOutcome (d d' : Dev) : Prop :=
  d'.fault = none ∨ (d'.failAt = none ∧ ∃ f, d'.fault = some f ∧ (0 < d.dropDepth → f.inDrop = true))

theorem run_any {α} (p : Prog α) : ∀ (d : Dev), d.fault = none → ∀ {r d'}, run p d = (r, d') → AnyOutcome d d' := by
  induction p with
  | pure a => intro d h r d' hr; simp only [run] at hr; cases hr; left; exact h
  | fail e => intro d h r d' hr; simp only [run] at hr; cases hr; left; exact h
  | op o =>
    intro d h r d' hr; simp only [run] at hr
    rcases stepOp_outcome o d h hr with h1 | ⟨h1, f, h2, _, h4⟩
    · left; exact h1
    · right; exact ⟨h1, f, h2, h4⟩
  | bind p k ihp ihk =>
    intro d h r d' hr
    simp only [run] at hr
    rcases hp : run p d with ⟨rp, d1⟩
    rw [hp] at hr
    have hd1 := (run_facts p d hp).depth
    cases rp with
    | error e => simp only at hr; cases hr; exact ihp d h hp
    | ok b =>
      simp only at hr
      rcases ihp d h hp with h1 | ⟨h1, f, h2, h3⟩
      · rcases ihk b d1 h1 hr with h4 | ⟨h4, f', h5, h6⟩
        · left; exact h4
        · right; exact ⟨h4, f', h5, fun hd => h6 (by rw [hd1]; exact hd)⟩
      · have := (run_facts (k b) d1 hr).spent h1
        right; exact ⟨this.1, f, by rw [this.2, h2], h3⟩
  | tryCatch p hdl ihp ihh =>
    intro d h r d' hr
    simp only [run] at hr
    rcases hp : run p d with ⟨rp, d1⟩
    rw [hp] at hr
    have hd1 := (run_facts p d hp).depth
    cases rp with
    | ok a => simp only at hr; cases hr; exact ihp d h hp
    | error e =>
      simp only at hr
      split at hr
      · cases hr; exact ihp d h hp
      · rcases ihp d h hp with h1 | ⟨h1, f, h2, h3⟩
        · rcases ihh e d1 h1 hr with h4 | ⟨h4, f', h5, h6⟩
          · left; exact h4
          · right; exact ⟨h4, f', h5, fun hd => h6 (by rw [hd1]; exact hd)⟩
        · have := (run_facts (hdl e) d1 hr).spent h1
          right; exact ⟨this.1, f, by rw [this.2, h2], h3⟩
  | finallyDrop p c ihp ihc =>
    intro d h r d' hr
    simp only [run] at hr
    rcases hp : run p d with ⟨rp, d1⟩
    rw [hp] at hr
    have key : ∀ {o rc d2}, run (c o) { d1 with dropDepth := d1.dropDepth + 1 } = (rc, d2) →
        AnyOutcome d { d2 with dropDepth := d2.dropDepth - 1 } := by
      intro o rc d2 hc
      rcases ihp d h hp with h1 | ⟨h1, f, h2, h3⟩
      · rcases ihc o { d1 with dropDepth := d1.dropDepth + 1 } (by simpa using h1) hc with h4 | ⟨h4, f', h5, h6⟩
        · left; simpa using h4
        · right; exact ⟨by simpa using h4, f', by simpa using h5, fun _ => h6 (by simp)⟩
      · have := (run_facts (c o) _ hc).spent (by simpa using h1)
        right; exact ⟨by simpa using this.1, f, by simpa [h2] using this.2, h3⟩
    cases rp with
    | ok a =>
      simp only at hr
      rcases hc : run (c (some a)) { d1 with dropDepth := d1.dropDepth + 1 } with ⟨rc, d2⟩
      rw [hc] at hr
      cases rc with
      | ok u => simp only at hr; cases hr; exact key hc
      | error e' => simp only at hr; split at hr <;> cases hr <;> exact key hc
    | error e =>
      simp only at hr
      split at hr
      · cases hr; exact ihp d h hp
      · rcases hc : run (c none) { d1 with dropDepth := d1.dropDepth + 1 } with ⟨rc, d2⟩
        rw [hc] at hr
        cases rc with
        | ok u => simp only at hr; cases hr; exact key hc
        | error e' => simp only at hr; split at hr <;> cases hr <;> exact key hc

/-! ### programs that cannot panic or hang on their own -/

/-- no `fail .panic` / `fail .hang` node anywhere (device errors are never fatal) -/
inductive NoFatalFail : {α : Type} → Prog α → Prop where
  | pure {α} (a : α) : NoFatalFail (Prog.pure a)
  | fail {α} (e : Err) : e.isFatal = false → NoFatalFail (Prog.fail (α := α) e)
  | op (o : Op) : NoFatalFail (Prog.op o)
  | bind {α β} (p : Prog β) (k : β → Prog α) : NoFatalFail p → (∀ b, NoFatalFail (k b)) → NoFatalFail (Prog.bind p k)
  | tryCatch {α} (p : Prog α) (h : Err → Prog α) : NoFatalFail p → (∀ e, NoFatalFail (h e)) →
      NoFatalFail (Prog.tryCatch p h)
  | finallyDrop {α} (p : Prog α) (c : Option α → Prog Unit) : NoFatalFail p → (∀ o, NoFatalFail (c o)) → NoFatalFail (Prog.finallyDrop p c)

theorem stepOp_nonfatal (o : Op) (d : Dev) {e d'} (hr : stepOp o d = (.error e, d')) : e.isFatal = false := by
  have dc : ∀ {β} (k : CallKind) (act : Dev → Except Err β × Dev),
      (∀ d0 e d1, act d0 = (.error e, d1) → e.isFatal = false) →
      devCall k d act = (.error e, d') → e.isFatal = false := by
    intro β k act hact h
    unfold devCall devCallCore at h
    split at h
    · cases h; rfl
    · exact hact _ _ _ h
  cases o with
  | read n => simp only [stepOp] at hr; exact dc _ _ (by intro d0 e d1 h; cases h) hr
  | write bs => simp only [stepOp] at hr; exact dc _ _ (by intro d0 e d1 h; cases h) hr
  | seek p =>
    simp only [stepOp] at hr
    refine dc _ _ ?_ hr
    intro d0 e d1 h
    cases p with
    | start n => cases h
    | cur x => simp only at h; split at h <;> cases h; rfl
    | fromEnd x => simp only at h; split at h <;> cases h; rfl
  | flush => simp only [stepOp] at hr; exact dc _ _ (by intro d0 e d1 h; cases h) hr
  | now => simp only [stepOp] at hr; cases hr
  | today => simp only [stepOp] at hr; cases hr
  | getFs => simp only [stepOp] at hr; cases hr
  | setFs fs => simp only [stepOp] at hr; cases hr

theorem noFatalFail_sound {α} {p : Prog α} (hp : NoFatalFail p) :
    ∀ (d : Dev) {e d'}, run p d = (.error e, d') → e.isFatal = false := by
  induction hp with
  | pure a => intro d e d' hr; simp only [run] at hr; cases hr
  | fail e he => intro d e' d' hr; simp only [run] at hr; cases hr; exact he
  | op o => intro d e d' hr; simp only [run] at hr; exact stepOp_nonfatal o d hr
  | bind p k _ _ ihp ihk =>
    intro d e d' hr
    simp only [run] at hr
    rcases hp : run p d with ⟨rp, d1⟩
    rw [hp] at hr
    cases rp with
    | ok b => exact ihk b d1 hr
    | error e1 => simp only at hr; cases hr; exact ihp d hp
  | tryCatch p h _ _ ihp ihh =>
    intro d e d' hr
    simp only [run] at hr
    rcases hp : run p d with ⟨rp, d1⟩
    rw [hp] at hr
    cases rp with
    | ok a => simp only at hr; cases hr
    | error e1 =>
      simp only at hr
      split at hr
      · cases hr; exact ihp d hp
      · exact ihh e1 d1 hr
  | finallyDrop p c _ _ ihp ihc =>
    intro d e d' hr
    simp only [run] at hr
    rcases hp : run p d with ⟨rp, d1⟩
    rw [hp] at hr
    cases rp with
    | ok a =>
      simp only at hr
      rcases hc : run (c (some a)) { d1 with dropDepth := d1.dropDepth + 1 } with ⟨rc, d2⟩
      rw [hc] at hr
      cases rc with
      | ok u => simp only at hr; cases hr
      | error e' =>
        simp only at hr
        split at hr
        · cases hr; exact ihc _ _ hc
        · cases hr
    | error e1 =>
      simp only at hr
      split at hr
      · cases hr; exact ihp d hp
      · rcases hc : run (c none) { d1 with dropDepth := d1.dropDepth + 1 } with ⟨rc, d2⟩
        rw [hc] at hr
        cases rc with
        | ok u => simp only at hr; cases hr; exact ihp d hp
        | error e' =>
          simp only at hr
          split at hr
          · cases hr; exact ihc _ _ hc
          · cases hr; exact ihp d hp

/-! ### C09: error propagation -/

/-- SEMANTIC version of `NoFatalFail`: no run of the program ends in a panic or a hang (what a destructor body must
    satisfy; e.g. the fuel-exhaustion `.fail .hang` of `writeAllLoop` is syntactically present but unreachable) -/
structure NonFatal {α} (p : Prog α) : Prop where
  out : ∀ (d : Dev) (e : Err) (d' : Dev), run p d = (.error e, d') → e.isFatal = false

theorem NoFatalFail.nonFatal {α} {p : Prog α} (hp : NoFatalFail p) : NonFatal p :=
  ⟨fun d _ _ hr => noFatalFail_sound hp d hr⟩

theorem NonFatal.pure {α} (a : α) : NonFatal (Prog.pure a) := (NoFatalFail.pure a).nonFatal
theorem NonFatal.fail {α} (e : Err) (he : e.isFatal = false) : NonFatal (Prog.fail (α := α) e) :=
  (NoFatalFail.fail e he).nonFatal
theorem NonFatal.op (o : Op) : NonFatal (Prog.op o) := (NoFatalFail.op o).nonFatal

theorem NonFatal.bind {α β} {p : Prog β} {k : β → Prog α} (hp : NonFatal p) (hk : ∀ b, NonFatal (k b)) :
    NonFatal (Prog.bind p k) := by
  refine ⟨fun d e d' hr => ?_⟩
  simp only [run] at hr
  rcases hq : run p d with ⟨rp, d1⟩
  rw [hq] at hr
  cases rp with
  | ok b => exact (hk b).out d1 e d' hr
  | error e1 => simp only at hr; cases hr; exact hp.out d _ _ hq

theorem NonFatal.tryCatch {α} {p : Prog α} {h : Err → Prog α} (hp : NonFatal p) (hh : ∀ e, NonFatal (h e)) :
    NonFatal (Prog.tryCatch p h) := by
  refine ⟨fun d e d' hr => ?_⟩
  simp only [run] at hr
  rcases hq : run p d with ⟨rp, d1⟩
  rw [hq] at hr
  cases rp with
  | ok a => simp only at hr; cases hr
  | error e1 =>
    simp only at hr
    split at hr
    · cases hr; exact hp.out d _ _ hq
    · exact (hh e1).out d1 _ _ hr

theorem NonFatal.finallyDrop {α} {p : Prog α} {c : Option α → Prog Unit} (hp : NonFatal p)
    (hc : ∀ o, NonFatal (c o)) : NonFatal (Prog.finallyDrop p c) := by
  refine ⟨fun d e d' hr => ?_⟩
  simp only [run] at hr
  rcases hq : run p d with ⟨rp, d1⟩
  rw [hq] at hr
  cases rp with
  | ok a =>
    simp only at hr
    rcases hcr : run (c (some a)) { d1 with dropDepth := d1.dropDepth + 1 } with ⟨rc, d2⟩
    rw [hcr] at hr
    cases rc with
    | ok u => simp only at hr; cases hr
    | error e' =>
      simp only at hr
      split at hr
      · cases hr; exact (hc _).out _ _ _ hcr
      · cases hr
  | error e1 =>
    simp only at hr
    split at hr
    · cases hr; exact hp.out d _ _ hq
    · rcases hcr : run (c none) { d1 with dropDepth := d1.dropDepth + 1 } with ⟨rc, d2⟩
      rw [hcr] at hr
      cases rc with
      | ok u => simp only at hr; cases hr; exact hp.out d _ _ hq
      | error e' =>
        simp only at hr
        split at hr
        · cases hr; exact (hc _).out _ _ _ hcr
        · cases hr; exact hp.out d _ _ hq

/-- started with no fault fired: either none fired; or exactly one did, the schedule is spent, and if it fired
    OUTSIDE a destructor the result is the I/O error carrying the index of the failed call -/
def FaultOutcome (e? : Option Err) (d' : Dev) : Prop :=
  d'.fault = none ∨
  (d'.failAt = none ∧ ∃ f, d'.fault = some f ∧ (f.inDrop = false → e? = some (.io f.k)))

def Propagates {α} (p : Prog α) : Prop :=
  ∀ d : Dev, d.fault = none → ∀ r d', run p d = (r, d') → FaultOutcome (resErr r) d'

/-- the error "carried" by a result when successful values may themselves carry a caught error (`f`) -/
def errVia {α} (f : α → Option Err) : Except Err α → Option Err
  | .ok a => f a
  | .error e => some e

/-- `Propagates` for programs that may return a caught error as (part of) their VALUE — `Prog.attempt p`,
    `writeSlotsKeep`: a fault fired outside a destructor shows up either as the raised error or as the carried one -/
def PropagatesVia {α} (f : α → Option Err) (p : Prog α) : Prop :=
  ∀ d : Dev, d.fault = none → ∀ r d', run p d = (r, d') → FaultOutcome (errVia f r) d'

/-- run after the one-shot fault has fired (so no device call can fail any more), the program ends in the I/O
    error `io j` (raised, or carried by its value as seen through `f`) -/
def ReraisesVia {α} (f : α → Option Err) (j : Nat) (q : Prog α) : Prop :=
  ∀ d : Dev, d.failAt = none → ∀ r d', run q d = (r, d') → errVia f r = some (.io j)

def Reraises {α} (j : Nat) (q : Prog α) : Prop :=
  ∀ d : Dev, d.failAt = none → ∀ r d', run q d = (r, d') → resErr r = some (.io j)

theorem resErr_eq_errVia {α} (r : Except Err α) : resErr r = errVia (fun _ => none) r := by
  cases r <;> rfl

theorem propagates_iff_via {α} (p : Prog α) : Propagates p ↔ PropagatesVia (fun _ => none) p := by
  unfold Propagates PropagatesVia
  simp only [resErr_eq_errVia]

theorem reraises_iff_via {α} (j : Nat) (q : Prog α) : Reraises j q ↔ ReraisesVia (fun _ => none) j q := by
  unfold Reraises ReraisesVia
  simp only [resErr_eq_errVia]

theorem PropagatesVia.pure {α} (f : α → Option Err) (a : α) : PropagatesVia f (Prog.pure a) := by
  intro d h r d' hr; simp only [run] at hr; cases hr; left; exact h

/-- the semantic sequencing rule: the continuation must re-raise an I/O error its argument carries -/
theorem PropagatesVia.bind {α β} {f : β → Option Err} {g : α → Option Err} {q : Prog β} {k : β → Prog α}
    (hq : PropagatesVia f q) (hk : ∀ b, PropagatesVia g (k b))
    (hre : ∀ b j, f b = some (.io j) → ReraisesVia g j (k b)) : PropagatesVia g (Prog.bind q k) := by
  intro d h r d' hr
  simp only [run] at hr
  rcases hp : run q d with ⟨rq, d1⟩
  rw [hp] at hr
  cases rq with
  | error e => simp only at hr; cases hr; exact hq d h _ _ hp
  | ok b =>
    simp only at hr
    rcases hq d h _ _ hp with h1 | ⟨h1, f0, h2, h3⟩
    · exact hk b d1 h1 _ _ hr
    · have hs := (run_facts (k b) d1 hr).spent h1
      right
      refine ⟨hs.1, f0, by rw [hs.2, h2], fun hf => ?_⟩
      exact hre b f0.k (h3 hf) d1 h1 _ _ hr

/-- value of `attempt` -/
theorem run_attempt {α} (p : Prog α) (d : Dev) :
    run (Prog.attempt p) d =
      match run p d with
      | (.ok a, d1) => (.ok (.ok a), d1)
      | (.error e, d1) => if e.isFatal then (.error e, d1) else (.ok (.error e), d1) := by
  simp only [Prog.attempt, run]
  rcases run p d with ⟨rp, d1⟩
  cases rp with
  | ok a => rfl
  | error e => simp only

/-- the error an `Except` value carries -/
def exceptErr {α} : Except Err α → Option Err
  | .ok _ => none
  | .error e => some e

theorem attempt_via {α} {p : Prog α} (hp : Propagates p) : PropagatesVia exceptErr (Prog.attempt p) := by
  intro d h r d' hr
  rw [run_attempt] at hr
  rcases hq : run p d with ⟨rp, d1⟩
  rw [hq] at hr
  have := hp d h _ _ hq
  cases rp with
  | ok a => simp only at hr; cases hr; exact this
  | error e =>
    simp only at hr
    split at hr <;> cases hr <;> exact this

/-- Programs that never swallow or transform an I/O error: no handler, or a handler that re-raises every `io`
    error unchanged (and is itself such a program on the other errors). Destructor bodies (`finallyDrop _ c`) cannot
    report errors — the property's exemption — so `c` is only required not to panic or hang (semantically:
    `NonFatal`). `bindVia` is the escape hatch for the places where the code catches an error INTO A VALUE and
    re-raises it after its own clean-up (`Prog.attempt`, `writeSlotsKeep`): the first program is characterised
    semantically and the continuation must re-raise a carried I/O error. -/
inductive IoSafe : {α : Type} → Prog α → Prop where
  | pure {α} (a : α) : IoSafe (Prog.pure a)
  | fail {α} (e : Err) : IoSafe (Prog.fail (α := α) e)
  | op (o : Op) : IoSafe (Prog.op o)
  | bind {α β} (p : Prog β) (k : β → Prog α) : IoSafe p → (∀ b, IoSafe (k b)) → IoSafe (Prog.bind p k)
  | tryCatch {α} (p : Prog α) (h : Err → Prog α) : IoSafe p → (∀ k, h (.io k) = Prog.fail (.io k)) →
      (∀ e, IoSafe (h e)) → IoSafe (Prog.tryCatch p h)
  | finallyDrop {α} (p : Prog α) (c : Option α → Prog Unit) : IoSafe p → (∀ o, NonFatal (c o)) →
      IoSafe (Prog.finallyDrop p c)
  | bindVia {α β} (f : β → Option Err) (q : Prog β) (k : β → Prog α) : PropagatesVia f q → (∀ b, IoSafe (k b)) →
      (∀ b j, f b = some (.io j) → Reraises j (k b)) → IoSafe (Prog.bind q k)

theorem ioSafe_propagates {α} {p : Prog α} (hp : IoSafe p) : Propagates p := by
  induction hp with
  | pure a => intro d h r d' hr; simp only [run] at hr; cases hr; left; exact h
  | fail e => intro d h r d' hr; simp only [run] at hr; cases hr; left; exact h
  | op o =>
    intro d h r d' hr; simp only [run] at hr
    rcases stepOp_outcome o d h hr with h1 | ⟨h1, f, h2, h3, _⟩
    · left; exact h1
    · right; exact ⟨h1, f, h2, fun _ => by rw [h3]; rfl⟩
  | bind p k _ _ ihp ihk =>
    intro d h r d' hr
    simp only [run] at hr
    rcases hp : run p d with ⟨rp, d1⟩
    rw [hp] at hr
    cases rp with
    | error e => simp only at hr; cases hr; exact ihp d h _ _ hp
    | ok b =>
      simp only at hr
      rcases ihp d h _ _ hp with h1 | ⟨h1, f, h2, h3⟩
      · exact ihk b d1 h1 _ _ hr
      · have := (run_facts (k b) d1 hr).spent h1
        right
        refine ⟨this.1, f, by rw [this.2, h2], fun hf => ?_⟩
        have := h3 hf; simp [resErr] at this
  | tryCatch p hdl _ hre _ ihp ihh =>
    intro d h r d' hr
    simp only [run] at hr
    rcases hp : run p d with ⟨rp, d1⟩
    rw [hp] at hr
    cases rp with
    | ok a => simp only at hr; cases hr; exact ihp d h _ _ hp
    | error e =>
      simp only at hr
      split at hr
      · cases hr; exact ihp d h _ _ hp
      · rcases ihp d h _ _ hp with h1 | ⟨h1, f, h2, h3⟩
        · exact ihh e d1 h1 _ _ hr
        · have hs := (run_facts (hdl e) d1 hr).spent h1
          right
          refine ⟨hs.1, f, by rw [hs.2, h2], fun hf => ?_⟩
          have he := h3 hf
          simp only [resErr, Option.some.injEq] at he
          subst he
          rw [hre f.k] at hr
          simp only [run] at hr
          cases hr; rfl
  | finallyDrop p c _ hc ihp =>
    intro d h r d' hr
    simp only [run] at hr
    rcases hp : run p d with ⟨rp, d1⟩
    rw [hp] at hr
    have hdepth := (run_facts p d hp).depth
    -- what the destructor phase does to the outcome of `p`
    have key : ∀ {o rc d2}, run (c o) { d1 with dropDepth := d1.dropDepth + 1 } = (rc, d2) →
        FaultOutcome (resErr rp) { d2 with dropDepth := d2.dropDepth - 1 } := by
      intro o rc d2 hcr
      rcases ihp d h _ _ hp with h1 | ⟨h1, f, h2, h3⟩
      · rcases run_any (c o) { d1 with dropDepth := d1.dropDepth + 1 } (by simpa using h1) hcr with h4 | ⟨h4, f', h5, h6⟩
        · left; simpa using h4
        · right
          refine ⟨by simpa using h4, f', by simpa using h5, fun hf => ?_⟩
          have := h6 (by simp); rw [this] at hf; cases hf
      · have := (run_facts (c o) _ hcr).spent (by simpa using h1)
        right; exact ⟨by simpa using this.1, f, by simpa [h2] using this.2, h3⟩
    cases rp with
    | ok a =>
      simp only at hr
      rcases hcr : run (c (some a)) { d1 with dropDepth := d1.dropDepth + 1 } with ⟨rc, d2⟩
      rw [hcr] at hr
      have hk := key hcr
      cases rc with
      | ok u => simp only at hr; cases hr; exact hk
      | error e' =>
        have hnf := (hc _).out _ _ _ hcr
        simp only [hnf] at hr
        cases hr; exact hk
    | error e =>
      simp only at hr
      split at hr
      · cases hr; exact ihp d h _ _ hp
      · rcases hcr : run (c none) { d1 with dropDepth := d1.dropDepth + 1 } with ⟨rc, d2⟩
        rw [hcr] at hr
        have hk := key hcr
        cases rc with
        | ok u => simp only at hr; cases hr; exact hk
        | error e' =>
          have hnf := (hc _).out _ _ _ hcr
          simp only [hnf] at hr
          cases hr; exact hk
  | bindVia f q k hq _ hre ihk =>
    have := PropagatesVia.bind (g := fun _ => none) hq (fun b => (propagates_iff_via _).1 (ihk b))
      (fun b j hb => (reraises_iff_via _ _).1 (hre b j hb))
    exact (propagates_iff_via _).2 this

/-- the old, purely syntactic rule for destructors -/
theorem IoSafe.finallyDrop_syntactic {α} (p : Prog α) (c : Option α → Prog Unit) (hp : IoSafe p)
    (hc : ∀ o, NoFatalFail (c o)) : IoSafe (Prog.finallyDrop p c) :=
  IoSafe.finallyDrop p c hp (fun o => (hc o).nonFatal)

/-- `attempt p` followed by a continuation that, handed an I/O error, ends by re-raising it -/
theorem IoSafe.attemptThen {α β} (p : Prog β) (k : Except Err β → Prog α) (hp : IoSafe p)
    (hk : ∀ r, IoSafe (k r)) (hre : ∀ j, Reraises j (k (.error (.io j)))) :
    IoSafe (Prog.bind (Prog.attempt p) k) := by
  refine IoSafe.bindVia exceptErr _ k (attempt_via (ioSafe_propagates hp)) hk ?_
  intro b j hb
  cases b with
  | ok b => cases hb
  | error e => simp only [exceptErr, Option.some.injEq] at hb; subst hb; exact hre j

/-- re-raising survives a continuation (which is not reached) -/
theorem Reraises.bind {α β} {j : Nat} {q : Prog β} (k : β → Prog α) (hq : Reraises j q) :
    Reraises j (Prog.bind q k) := by
  intro d h r d' hr
  simp only [run] at hr
  rcases hp : run q d with ⟨rq, d1⟩
  rw [hp] at hr
  have := hq d h _ _ hp
  cases rq with
  | ok b => simp [resErr] at this
  | error e => simp only at hr; cases hr; exact this

/-- a successful prefix followed by re-raising -/
theorem Reraises.seq {α β} {j : Nat} {q : Prog β} {k : β → Prog α}
    (hq : ∀ d : Dev, d.failAt = none → ∀ r d', run q d = (r, d') → ∃ b, r = .ok b)
    (hk : ∀ b, Reraises j (k b)) : Reraises j (Prog.bind q k) := by
  intro d h r d' hr
  simp only [run] at hr
  rcases hp : run q d with ⟨rq, d1⟩
  rw [hp] at hr
  obtain ⟨b, hb⟩ := hq d h _ _ hp
  subst hb
  simp only at hr
  exact hk b d1 ((run_facts q d hp).spent h).1 _ _ hr

theorem Reraises.fail {α} (j : Nat) : Reraises j (Prog.fail (α := α) (.io j)) := by
  intro d _ r d' hr; simp only [run] at hr; cases hr; rfl

/-- raising an I/O error in a scope whose destructors cannot panic -/
theorem Reraises.finallyDrop {α} {j : Nat} {q : Prog α} {c : Option α → Prog Unit} (hq : Reraises j q)
    (hc : ∀ o, NonFatal (c o)) : Reraises j (Prog.finallyDrop q c) := by
  intro d h r d' hr
  simp only [run] at hr
  rcases hp : run q d with ⟨rq, d1⟩
  rw [hp] at hr
  have h1 := hq d h _ _ hp
  cases rq with
  | ok b => simp [resErr] at h1
  | error e =>
    simp only [resErr, Option.some.injEq] at h1
    subst h1
    simp only at hr
    split at hr
    · rename_i hh; cases hh
    · rcases hcr : run (c none) { d1 with dropDepth := d1.dropDepth + 1 } with ⟨rc, d2⟩
      rw [hcr] at hr
      cases rc with
      | ok u => simp only at hr; cases hr; rfl
      | error e' =>
        have hnf := (hc _).out _ _ _ hcr
        simp only [hnf] at hr
        cases hr; rfl

/-! #### propagation up to tolerated substitute errors

`createDir` gives the freshly allocated cluster back when the entry cannot be written, and returns the error of that
roll-back if IT fails (`free_cluster_chain(cluster)?; return Err(err)`). `PropagatesX X` is `Propagates` where, after a
fault `f` outside a destructor, the result may instead be an error `e` with `X f e`. -/

def FaultOutcomeX (X : Fault → Err → Prop) (e? : Option Err) (d' : Dev) : Prop :=
  d'.fault = none ∨
  (d'.failAt = none ∧ ∃ f, d'.fault = some f ∧
    (f.inDrop = false → e? = some (.io f.k) ∨ ∃ e, e? = some e ∧ X f e))

def PropagatesX {α} (X : Fault → Err → Prop) (p : Prog α) : Prop :=
  ∀ d : Dev, d.fault = none → ∀ r d', run p d = (r, d') → FaultOutcomeX X (resErr r) d'

theorem FaultOutcome.toX {X : Fault → Err → Prop} {e? : Option Err} {d' : Dev} (h : FaultOutcome e? d') :
    FaultOutcomeX X e? d' := by
  rcases h with h | ⟨h1, f, h2, h3⟩
  · left; exact h
  · right; exact ⟨h1, f, h2, fun hf => Or.inl (h3 hf)⟩

theorem Propagates.toX {α} {X : Fault → Err → Prop} {p : Prog α} (hp : Propagates p) : PropagatesX X p :=
  fun d h r d' hr => (hp d h r d' hr).toX

theorem PropagatesX.toPropagates {α} {X : Fault → Err → Prop} {p : Prog α} (hp : PropagatesX X p)
    (hX : ∀ f e, ¬ X f e) : Propagates p := by
  intro d h r d' hr
  rcases hp d h r d' hr with h1 | ⟨h1, f, h2, h3⟩
  · left; exact h1
  · right
    refine ⟨h1, f, h2, fun hf => ?_⟩
    rcases h3 hf with h4 | ⟨e, _, h5⟩
    · exact h4
    · exact absurd h5 (hX f e)

theorem PropagatesX.bind {α β} {X : Fault → Err → Prop} {p : Prog β} {k : β → Prog α}
    (hp : PropagatesX X p) (hk : ∀ b, PropagatesX X (k b)) : PropagatesX X (Prog.bind p k) := by
  intro d h r d' hr
  simp only [run] at hr
  rcases hq : run p d with ⟨rp, d1⟩
  rw [hq] at hr
  cases rp with
  | error e => simp only at hr; cases hr; exact hp d h _ _ hq
  | ok b =>
    simp only at hr
    rcases hp d h _ _ hq with h1 | ⟨h1, f, h2, h3⟩
    · exact hk b d1 h1 _ _ hr
    · have hs := (run_facts (k b) d1 hr).spent h1
      right
      refine ⟨hs.1, f, by rw [hs.2, h2], fun hf => ?_⟩
      rcases h3 hf with h4 | ⟨e, h4, _⟩ <;> simp [resErr] at h4

theorem PropagatesX.finallyDrop {α} {X : Fault → Err → Prop} {p : Prog α} {c : Option α → Prog Unit}
    (ihp : PropagatesX X p) (hc : ∀ o, NonFatal (c o)) : PropagatesX X (Prog.finallyDrop p c) := by
  intro d h r d' hr
  simp only [run] at hr
  rcases hp : run p d with ⟨rp, d1⟩
  rw [hp] at hr
  have key : ∀ {o rc d2}, run (c o) { d1 with dropDepth := d1.dropDepth + 1 } = (rc, d2) →
      FaultOutcomeX X (resErr rp) { d2 with dropDepth := d2.dropDepth - 1 } := by
    intro o rc d2 hcr
    rcases ihp d h _ _ hp with h1 | ⟨h1, f, h2, h3⟩
    · rcases run_any (c o) { d1 with dropDepth := d1.dropDepth + 1 } (by simpa using h1) hcr with h4 | ⟨h4, f', h5, h6⟩
      · left; simpa using h4
      · right
        refine ⟨by simpa using h4, f', by simpa using h5, fun hf => ?_⟩
        have := h6 (by simp); rw [this] at hf; cases hf
    · have := (run_facts (c o) _ hcr).spent (by simpa using h1)
      right; exact ⟨by simpa using this.1, f, by simpa [h2] using this.2, h3⟩
  cases rp with
  | ok a =>
    simp only at hr
    rcases hcr : run (c (some a)) { d1 with dropDepth := d1.dropDepth + 1 } with ⟨rc, d2⟩
    rw [hcr] at hr
    have hk := key hcr
    cases rc with
    | ok u => simp only at hr; cases hr; exact hk
    | error e' =>
      have hnf := (hc _).out _ _ _ hcr
      simp only [hnf] at hr
      cases hr; exact hk
  | error e =>
    simp only at hr
    split at hr
    · cases hr; exact ihp d h _ _ hp
    · rcases hcr : run (c none) { d1 with dropDepth := d1.dropDepth + 1 } with ⟨rc, d2⟩
      rw [hcr] at hr
      have hk := key hcr
      cases rc with
      | ok u => simp only at hr; cases hr; exact hk
      | error e' =>
        have hnf := (hc _).out _ _ _ hcr
        simp only [hnf] at hr
        cases hr; exact hk

/-- `attempt p`, then a continuation which — handed the I/O error, run after the fault has fired — ends in that
    error or in a tolerated one -/
theorem PropagatesX.attemptThen {α β} {X : Fault → Err → Prop} {p : Prog β} {k : Except Err β → Prog α}
    (hp : Propagates p) (hk : ∀ r, PropagatesX X (k r))
    (hre : ∀ (j : Nat) (d : Dev) (f : Fault), d.failAt = none → d.fault = some f →
      ∀ r d', run (k (.error (.io j))) d = (r, d') → resErr r = some (.io j) ∨ ∃ e, resErr r = some e ∧ X f e) :
    PropagatesX X (Prog.bind (Prog.attempt p) k) := by
  intro d h r d' hr
  simp only [run] at hr
  rcases hq : run (Prog.attempt p) d with ⟨rq, d1⟩
  rw [hq] at hr
  have hv := attempt_via hp d h _ _ hq
  cases rq with
  | error e => simp only at hr; cases hr; exact FaultOutcome.toX hv
  | ok b =>
    simp only at hr
    rcases hv with h1 | ⟨h1, f, h2, h3⟩
    · exact hk b d1 h1 _ _ hr
    · have hs := (run_facts (k b) d1 hr).spent h1
      right
      refine ⟨hs.1, f, by rw [hs.2, h2], fun hf => ?_⟩
      have hb := h3 hf
      cases b with
      | ok b => cases hb
      | error e =>
        simp only [errVia, exceptErr, Option.some.injEq] at hb
        subst hb
        exact hre f.k d1 f h1 h2 _ _ hr

theorem run_bind_cases {α β} {p : Prog β} {k : β → Prog α} {d : Dev} {r d'} (h : run (Prog.bind p k) d = (r, d')) :
    (∃ b d1, run p d = (.ok b, d1) ∧ run (k b) d1 = (r, d')) ∨ (∃ e, run p d = (.error e, d') ∧ r = .error e) := by
  simp only [run] at h
  rcases hq : run p d with ⟨rp, d1⟩
  rw [hq] at h
  cases rp with
  | ok b => exact Or.inl ⟨b, d1, rfl, h⟩
  | error e => simp only at h; cases h; exact Or.inr ⟨e, rfl, rfl⟩

theorem PropagatesX.mono {α} {X Y : Fault → Err → Prop} {p : Prog α} (hp : PropagatesX X p)
    (hxy : ∀ f e, X f e → Y f e) : PropagatesX Y p := by
  intro d h r d' hr
  rcases hp d h r d' hr with h1 | ⟨h1, f, h2, h3⟩
  · left; exact h1
  · right
    refine ⟨h1, f, h2, fun hf => ?_⟩
    rcases h3 hf with h4 | ⟨e, h4, h5⟩
    · exact Or.inl h4
    · exact Or.inr ⟨e, h4, hxy f e h5⟩

/-- the error of a scope whose destructors cannot panic is the error of its body -/
theorem resErr_finallyDrop {α} {q : Prog α} {c : Option α → Prog Unit} (hc : ∀ o, NonFatal (c o)) {d : Dev} {r d'}
    (hr : run (Prog.finallyDrop q c) d = (r, d')) : ∃ rq d1, run q d = (rq, d1) ∧ resErr r = resErr rq := by
  simp only [run] at hr
  rcases hq : run q d with ⟨rq, d1⟩
  rw [hq] at hr
  refine ⟨rq, d1, rfl, ?_⟩
  cases rq with
  | ok a =>
    simp only at hr
    rcases hcr : run (c (some a)) { d1 with dropDepth := d1.dropDepth + 1 } with ⟨rc, d2⟩
    rw [hcr] at hr
    cases rc with
    | ok u => simp only at hr; cases hr; rfl
    | error e' =>
      have hnf := (hc _).out _ _ _ hcr
      simp only [hnf] at hr
      cases hr; rfl
  | error e =>
    simp only at hr
    split at hr
    · cases hr; rfl
    · rcases hcr : run (c none) { d1 with dropDepth := d1.dropDepth + 1 } with ⟨rc, d2⟩
      rw [hcr] at hr
      cases rc with
      | ok u => simp only at hr; cases hr; rfl
      | error e' =>
        have hnf := (hc _).out _ _ _ hcr
        simp only [hnf] at hr
        cases hr; rfl

/-- sequencing after a program that carries a caught error in its value, up to tolerated errors -/
theorem PropagatesX.bindVia {α β} {X : Fault → Err → Prop} {f : β → Option Err} {q : Prog β} {k : β → Prog α}
    (hq : PropagatesVia f q) (hk : ∀ b, PropagatesX X (k b))
    (hre : ∀ (b : β) (j : Nat), f b = some (.io j) → ∀ (d : Dev) (f0 : Fault), d.failAt = none → d.fault = some f0 →
      ∀ r d', run (k b) d = (r, d') → resErr r = some (.io j) ∨ ∃ e, resErr r = some e ∧ X f0 e) :
    PropagatesX X (Prog.bind q k) := by
  intro d h r d' hr
  simp only [run] at hr
  rcases hp : run q d with ⟨rq, d1⟩
  rw [hp] at hr
  cases rq with
  | error e => simp only at hr; cases hr; exact FaultOutcome.toX (hq d h _ _ hp)
  | ok b =>
    simp only at hr
    rcases hq d h _ _ hp with h1 | ⟨h1, f0, h2, h3⟩
    · exact hk b d1 h1 _ _ hr
    · have hs := (run_facts (k b) d1 hr).spent h1
      right
      refine ⟨hs.1, f0, by rw [hs.2, h2], fun hf => ?_⟩
      exact hre b f0.k (h3 hf) d1 f0 h1 h2 _ _ hr

/-- `attempt p` where `p` itself propagates only up to tolerated errors: the continuation must pass on (or replace by a
    tolerated error) both the I/O error and a tolerated error it is handed -/
theorem PropagatesX.attemptThenX {α β} {X : Fault → Err → Prop} {p : Prog β} {k : Except Err β → Prog α}
    (hp : PropagatesX X p) (hk : ∀ r, PropagatesX X (k r))
    (hre : ∀ (j : Nat) (d : Dev) (f : Fault), d.failAt = none → d.fault = some f →
      ∀ r d', run (k (.error (.io j))) d = (r, d') → resErr r = some (.io j) ∨ ∃ e, resErr r = some e ∧ X f e)
    (hreX : ∀ (e : Err) (d : Dev) (f : Fault), X f e → d.failAt = none → d.fault = some f →
      ∀ r d', run (k (.error e)) d = (r, d') → ∃ e', resErr r = some e' ∧ X f e') :
    PropagatesX X (Prog.bind (Prog.attempt p) k) := by
  intro d h r d' hr
  simp only [run] at hr
  rcases hq : run (Prog.attempt p) d with ⟨rq, d1⟩
  rw [hq] at hr
  rw [run_attempt] at hq
  rcases hpr : run p d with ⟨rp, d0⟩
  rw [hpr] at hq
  have hv := hp d h _ _ hpr
  cases rp with
  | ok a =>
    simp only at hq; cases hq
    simp only at hr
    rcases hv with h1 | ⟨h1, f, h2, h3⟩
    · exact hk _ _ h1 _ _ hr
    · have hs := (run_facts (k (.ok a)) _ hr).spent h1
      right
      refine ⟨hs.1, f, by rw [hs.2, h2], fun hf => ?_⟩
      rcases h3 hf with h4 | ⟨e, h4, _⟩ <;> simp [resErr] at h4
  | error e =>
    simp only at hq
    split at hq
    · cases hq; simp only at hr; cases hr; exact hv
    · cases hq
      simp only at hr
      rcases hv with h1 | ⟨h1, f, h2, h3⟩
      · exact hk _ _ h1 _ _ hr
      · have hs := (run_facts (k (.error e)) _ hr).spent h1
        right
        refine ⟨hs.1, f, by rw [hs.2, h2], fun hf => ?_⟩
        rcases h3 hf with h4 | ⟨e1, h4, h5⟩
        · simp only [resErr, Option.some.injEq] at h4
          subst h4
          exact hre f.k _ f h1 h2 _ _ hr
        · simp only [resErr, Option.some.injEq] at h4
          subst h4
          exact Or.inr (hreX _ _ f h5 h1 h2 _ _ hr)

/-- an `IoSafe` prefix -/
theorem PropagatesX.bind_ioSafe {α β} {X : Fault → Err → Prop} {p : Prog β} {k : β → Prog α} (hp : IoSafe p)
    (hk : ∀ b, PropagatesX X (k b)) : PropagatesX X (Prog.bind p k) :=
  PropagatesX.bind (ioSafe_propagates hp).toX hk

/-! ### C13: programs without write operations write nothing -/

def Op.isWrite : Op → Bool
  | .write _ => true
  | _ => false

inductive NoWriteOps : {α : Type} → Prog α → Prop where
  | pure {α} (a : α) : NoWriteOps (Prog.pure a)
  | fail {α} (e : Err) : NoWriteOps (Prog.fail (α := α) e)
  | op (o : Op) : o.isWrite = false → NoWriteOps (Prog.op o)
  | bind {α β} (p : Prog β) (k : β → Prog α) : NoWriteOps p → (∀ b, NoWriteOps (k b)) → NoWriteOps (Prog.bind p k)
  | tryCatch {α} (p : Prog α) (h : Err → Prog α) : NoWriteOps p → (∀ e, NoWriteOps (h e)) →
      NoWriteOps (Prog.tryCatch p h)
  | finallyDrop {α} (p : Prog α) (c : Option α → Prog Unit) : NoWriteOps p → (∀ o, NoWriteOps (c o)) → NoWriteOps (Prog.finallyDrop p c)

def LogItem.isWrite : LogItem → Bool
  | .write _ _ => true
  | .flush => false

/-- the observable write footprint of a device: its bytes and the write records of its log -/
def Dev.writesOf (d : Dev) : List LogItem := d.log.filter LogItem.isWrite

def SameWrites (d d' : Dev) : Prop := d'.img = d.img ∧ d'.writesOf = d.writesOf

theorem stepOp_noWrite (o : Op) (ho : o.isWrite = false) (d : Dev) {r d'} (hr : stepOp o d = (r, d')) :
    SameWrites d d' := by
  have hcnt : ∀ k, (d.count k).img = d.img ∧ (d.count k).log = d.log := by
    intro k; unfold Dev.count; cases k <;> simp
  have dc : ∀ {β} (k : CallKind) (act : Dev → Except Err β × Dev),
      (∀ d0 r d1, act d0 = (r, d1) → SameWrites d0 d1) →
      ∀ {r d'}, devCall k d act = (r, d') → SameWrites d d' := by
    intro β k act hact r d' h
    unfold devCall devCallCore at h
    split at h
    · cases h; exact ⟨(hcnt k).1, by simp [Dev.writesOf, (hcnt k).2]⟩
    · have := hact _ _ _ h
      exact ⟨this.1.trans (hcnt k).1, by rw [this.2]; simp [Dev.writesOf, (hcnt k).2]⟩
  cases o with
  | write bs => cases ho
  | read n => simp only [stepOp] at hr; exact dc _ _ (by intro d0 r d1 h; cases h; exact ⟨rfl, rfl⟩) hr
  | seek p =>
    simp only [stepOp] at hr
    refine dc _ _ ?_ hr
    intro d0 r d1 h
    cases p with
    | start n => cases h; exact ⟨rfl, rfl⟩
    | cur x => simp only at h; split at h <;> cases h <;> exact ⟨rfl, rfl⟩
    | fromEnd x => simp only at h; split at h <;> cases h <;> exact ⟨rfl, rfl⟩
  | flush =>
    simp only [stepOp] at hr
    refine dc _ _ ?_ hr
    intro d0 r d1 h; cases h
    exact ⟨rfl, by simp [Dev.writesOf, LogItem.isWrite]⟩
  | now => simp only [stepOp] at hr; cases hr; exact ⟨rfl, rfl⟩
  | today => simp only [stepOp] at hr; cases hr; exact ⟨rfl, rfl⟩
  | getFs => simp only [stepOp] at hr; cases hr; exact ⟨rfl, rfl⟩
  | setFs fs => simp only [stepOp] at hr; cases hr; exact ⟨rfl, rfl⟩

theorem SameWrites.trans {a b c : Dev} (h1 : SameWrites a b) (h2 : SameWrites b c) : SameWrites a c :=
  ⟨h2.1.trans h1.1, h2.2.trans h1.2⟩

theorem sameWrites_depth (d : Dev) (n : Nat) : SameWrites d { d with dropDepth := n } := ⟨rfl, rfl⟩

theorem noWriteOps_sound {α} {p : Prog α} (hp : NoWriteOps p) :
    ∀ (d : Dev) {r d'}, run p d = (r, d') → SameWrites d d' := by
  induction hp with
  | pure a => intro d r d' hr; simp only [run] at hr; cases hr; exact ⟨rfl, rfl⟩
  | fail e => intro d r d' hr; simp only [run] at hr; cases hr; exact ⟨rfl, rfl⟩
  | op o ho => intro d r d' hr; simp only [run] at hr; exact stepOp_noWrite o ho d hr
  | bind p k _ _ ihp ihk =>
    intro d r d' hr
    simp only [run] at hr
    rcases hp : run p d with ⟨rp, d1⟩
    rw [hp] at hr
    cases rp with
    | ok b => exact (ihp d hp).trans (ihk b d1 hr)
    | error e => simp only at hr; cases hr; exact ihp d hp
  | tryCatch p h _ _ ihp ihh =>
    intro d r d' hr
    simp only [run] at hr
    rcases hp : run p d with ⟨rp, d1⟩
    rw [hp] at hr
    cases rp with
    | ok a => simp only at hr; cases hr; exact ihp d hp
    | error e =>
      simp only at hr
      split at hr
      · cases hr; exact ihp d hp
      · exact (ihp d hp).trans (ihh e d1 hr)
  | finallyDrop p c _ _ ihp ihc =>
    intro d r d' hr
    simp only [run] at hr
    rcases hp : run p d with ⟨rp, d1⟩
    rw [hp] at hr
    have key : ∀ {o rc d2}, run (c o) { d1 with dropDepth := d1.dropDepth + 1 } = (rc, d2) →
        SameWrites d { d2 with dropDepth := d2.dropDepth - 1 } := by
      intro o rc d2 hc
      exact ((ihp d hp).trans ((sameWrites_depth d1 _).trans (ihc o _ hc))).trans (sameWrites_depth d2 _)
    cases rp with
    | ok a =>
      simp only at hr
      rcases hc : run (c (some a)) { d1 with dropDepth := d1.dropDepth + 1 } with ⟨rc, d2⟩
      rw [hc] at hr
      cases rc with
      | ok u => simp only at hr; cases hr; exact key hc
      | error e' => simp only at hr; split at hr <;> cases hr <;> exact key hc
    | error e =>
      simp only at hr
      split at hr
      · cases hr; exact ihp d hp
      · rcases hc : run (c none) { d1 with dropDepth := d1.dropDepth + 1 } with ⟨rc, d2⟩
        rw [hc] at hr
        cases rc with
        | ok u => simp only at hr; cases hr; exact key hc
        | error e' => simp only at hr; split at hr <;> cases hr <;> exact key hc

/-! ### C13: read-only reasoning — programs that neither write nor update the file-system state

`QuietOps p`: no `write` and no `setFs` node. `RO fs0 p Post`: a Hoare-style judgement — run on a device whose
mounted state is `fs0`, `p` leaves image, write log and mounted state unchanged and a successful result satisfies
`Post`. `QuietOps` is the syntactic leaf rule; `RO.bind`/`RO.tryCatch`/`RO.finallyDrop` compose. -/

def Op.isQuiet : Op → Bool
  | .write _ => false
  | .setFs _ => false
  | _ => true

inductive QuietOps : {α : Type} → Prog α → Prop where
  | pure {α} (a : α) : QuietOps (Prog.pure a)
  | fail {α} (e : Err) : QuietOps (Prog.fail (α := α) e)
  | op (o : Op) : o.isQuiet = true → QuietOps (Prog.op o)
  | bind {α β} (p : Prog β) (k : β → Prog α) : QuietOps p → (∀ b, QuietOps (k b)) → QuietOps (Prog.bind p k)
  | tryCatch {α} (p : Prog α) (h : Err → Prog α) : QuietOps p → (∀ e, QuietOps (h e)) →
      QuietOps (Prog.tryCatch p h)
  | finallyDrop {α} (p : Prog α) (c : Option α → Prog Unit) : QuietOps p → (∀ o, QuietOps (c o)) →
      QuietOps (Prog.finallyDrop p c)

theorem QuietOps.noWriteOps {α} {p : Prog α} (hp : QuietOps p) : NoWriteOps p := by
  induction hp with
  | pure a => exact .pure a
  | fail e => exact .fail e
  | op o ho => exact .op o (by cases o <;> simp_all [Op.isQuiet, Op.isWrite])
  | bind p k _ _ ihp ihk => exact .bind p k ihp ihk
  | tryCatch p h _ _ ihp ihh => exact .tryCatch p h ihp ihh
  | finallyDrop p c _ _ ihp ihc => exact .finallyDrop p c ihp ihc

theorem stepOp_quiet_fs (o : Op) (ho : o.isQuiet = true) (d : Dev) {r d'} (hr : stepOp o d = (r, d')) :
    d'.fs = d.fs := by
  have hcnt : ∀ k, (d.count k).fs = d.fs := by
    intro k; unfold Dev.count; cases k <;> simp
  have dc : ∀ {β} (k : CallKind) (act : Dev → Except Err β × Dev),
      (∀ d0 r d1, act d0 = (r, d1) → d1.fs = d0.fs) →
      ∀ {r d'}, devCall k d act = (r, d') → d'.fs = d.fs := by
    intro β k act hact r d' h
    unfold devCall devCallCore at h
    split at h
    · cases h; exact hcnt k
    · exact (hact _ _ _ h).trans (hcnt k)
  cases o with
  | write bs => cases ho
  | setFs fs => cases ho
  | read n => simp only [stepOp] at hr; exact dc _ _ (by intro d0 r d1 h; cases h; rfl) hr
  | seek p =>
    simp only [stepOp] at hr
    refine dc _ _ ?_ hr
    intro d0 r d1 h
    cases p with
    | start n => cases h; rfl
    | cur x => simp only at h; split at h <;> cases h <;> rfl
    | fromEnd x => simp only at h; split at h <;> cases h <;> rfl
  | flush => simp only [stepOp] at hr; exact dc _ _ (by intro d0 r d1 h; cases h; rfl) hr
  | now => simp only [stepOp] at hr; cases hr; rfl
  | today => simp only [stepOp] at hr; cases hr; rfl
  | getFs => simp only [stepOp] at hr; cases hr; rfl

theorem quietOps_fs {α} {p : Prog α} (hp : QuietOps p) :
    ∀ (d : Dev) {r d'}, run p d = (r, d') → d'.fs = d.fs := by
  induction hp with
  | pure a => intro d r d' hr; simp only [run] at hr; cases hr; rfl
  | fail e => intro d r d' hr; simp only [run] at hr; cases hr; rfl
  | op o ho => intro d r d' hr; simp only [run] at hr; exact stepOp_quiet_fs o ho d hr
  | bind p k _ _ ihp ihk =>
    intro d r d' hr
    simp only [run] at hr
    rcases hp : run p d with ⟨rp, d1⟩
    rw [hp] at hr
    cases rp with
    | ok b => exact (ihk b d1 hr).trans (ihp d hp)
    | error e => simp only at hr; cases hr; exact ihp d hp
  | tryCatch p h _ _ ihp ihh =>
    intro d r d' hr
    simp only [run] at hr
    rcases hp : run p d with ⟨rp, d1⟩
    rw [hp] at hr
    cases rp with
    | ok a => simp only at hr; cases hr; exact ihp d hp
    | error e =>
      simp only at hr
      split at hr
      · cases hr; exact ihp d hp
      · exact (ihh e d1 hr).trans (ihp d hp)
  | finallyDrop p c _ _ ihp ihc =>
    intro d r d' hr
    simp only [run] at hr
    rcases hp : run p d with ⟨rp, d1⟩
    rw [hp] at hr
    have key : ∀ {o rc d2}, run (c o) { d1 with dropDepth := d1.dropDepth + 1 } = (rc, d2) →
        ({ d2 with dropDepth := d2.dropDepth - 1 } : Dev).fs = d.fs := by
      intro o rc d2 hc
      have := ihc o _ hc
      simp only at this ⊢
      exact this.trans (ihp d hp)
    cases rp with
    | ok a =>
      simp only at hr
      rcases hc : run (c (some a)) { d1 with dropDepth := d1.dropDepth + 1 } with ⟨rc, d2⟩
      rw [hc] at hr
      cases rc with
      | ok u => simp only at hr; cases hr; exact key hc
      | error e' => simp only at hr; split at hr <;> cases hr <;> exact key hc
    | error e =>
      simp only at hr
      split at hr
      · cases hr; exact ihp d hp
      · rcases hc : run (c none) { d1 with dropDepth := d1.dropDepth + 1 } with ⟨rc, d2⟩
        rw [hc] at hr
        cases rc with
        | ok u => simp only at hr; cases hr; exact key hc
        | error e' => simp only at hr; split at hr <;> cases hr <;> exact key hc

theorem SameWrites.refl (d : Dev) : SameWrites d d := ⟨rfl, rfl⟩

/-- read-only judgement relative to the mounted state `fs0` -/
structure RO {α} (fs0 : FsState) (p : Prog α) (Post : α → Prop) : Prop where
  out : ∀ (d : Dev) (r : Except Err α) (d' : Dev), d.fs = fs0 → run p d = (r, d') →
    SameWrites d d' ∧ d'.fs = fs0 ∧ ∀ v, r = .ok v → Post v

theorem RO.of_quiet {α} {fs0 : FsState} {p : Prog α} (hp : QuietOps p) : RO fs0 p (fun _ => True) :=
  ⟨fun d _ _ hfs hr => ⟨noWriteOps_sound hp.noWriteOps d hr, (quietOps_fs hp d hr).trans hfs, fun _ _ => trivial⟩⟩

theorem RO.weaken {α} {fs0 : FsState} {p : Prog α} {Q Post : α → Prop} (h : RO fs0 p Q) (hq : ∀ v, Q v → Post v) :
    RO fs0 p Post :=
  ⟨fun d r d' hfs hr => ⟨(h.out d r d' hfs hr).1, (h.out d r d' hfs hr).2.1, fun v hv => hq v ((h.out d r d' hfs hr).2.2 v hv)⟩⟩

theorem RO.pure {α} {fs0 : FsState} {Post : α → Prop} {a : α} (h : Post a) : RO fs0 (Prog.pure a) Post := by
  refine ⟨fun d r d' hfs hr => ?_⟩; simp only [run] at hr; cases hr
  exact ⟨SameWrites.refl _, hfs, fun v hv => by cases hv; exact h⟩

theorem RO.fail {α} {fs0 : FsState} {Post : α → Prop} (e : Err) : RO fs0 (Prog.fail (α := α) e) Post := by
  refine ⟨fun d r d' hfs hr => ?_⟩; simp only [run] at hr; cases hr
  exact ⟨SameWrites.refl _, hfs, fun v hv => by cases hv⟩

/-- reading the mounted state returns `fs0` -/
theorem RO.getFs {fs0 : FsState} : RO fs0 Prog.getFs (fun v => v = fs0) := by
  refine ⟨fun d r d' hfs hr => ?_⟩; simp only [Prog.getFs, run, stepOp] at hr; cases hr
  exact ⟨SameWrites.refl _, hfs, fun v hv => by cases hv; exact hfs⟩

theorem RO.bind {α β} {fs0 : FsState} {p : Prog β} {k : β → Prog α} {Q : β → Prop} {Post : α → Prop}
    (hp : RO fs0 p Q) (hk : ∀ b, Q b → RO fs0 (k b) Post) : RO fs0 (Prog.bind p k) Post := by
  refine ⟨fun d r d' hfs hr => ?_⟩
  simp only [run] at hr
  rcases hq : run p d with ⟨rp, d1⟩
  rw [hq] at hr
  have h1 := hp.out d _ _ hfs hq
  cases rp with
  | ok b =>
    have h2 := (hk b (h1.2.2 b rfl)).out d1 _ _ h1.2.1 hr
    exact ⟨h1.1.trans h2.1, h2.2.1, h2.2.2⟩
  | error e => simp only at hr; cases hr; exact ⟨h1.1, h1.2.1, fun v hv => by cases hv⟩

theorem RO.tryCatch {α} {fs0 : FsState} {p : Prog α} {h : Err → Prog α} {Post : α → Prop}
    (hp : RO fs0 p Post) (hh : ∀ e, RO fs0 (h e) Post) : RO fs0 (Prog.tryCatch p h) Post := by
  refine ⟨fun d r d' hfs hr => ?_⟩
  simp only [run] at hr
  rcases hq : run p d with ⟨rp, d1⟩
  rw [hq] at hr
  have h1 := hp.out d _ _ hfs hq
  cases rp with
  | ok a => simp only at hr; cases hr; exact h1
  | error e =>
    simp only at hr
    split at hr
    · cases hr; exact h1
    · have h2 := (hh e).out d1 _ _ h1.2.1 hr
      exact ⟨h1.1.trans h2.1, h2.2.1, h2.2.2⟩

/-- scope exit: the destructor bodies must be read-only on the values that actually go out of scope -/
theorem RO.finallyDrop {α} {fs0 : FsState} {p : Prog α} {c : Option α → Prog Unit} {Post : α → Prop}
    (hp : RO fs0 p Post) (hsome : ∀ a, Post a → RO fs0 (c (some a)) (fun _ => True))
    (hnone : RO fs0 (c none) (fun _ => True)) : RO fs0 (Prog.finallyDrop p c) Post := by
  refine ⟨fun d r d' hfs hr => ?_⟩
  simp only [run] at hr
  rcases hq : run p d with ⟨rp, d1⟩
  rw [hq] at hr
  have h1 := hp.out d _ _ hfs hq
  have key : ∀ {o rc d2}, RO fs0 (c o) (fun _ => True) →
      run (c o) { d1 with dropDepth := d1.dropDepth + 1 } = (rc, d2) →
      SameWrites d { d2 with dropDepth := d2.dropDepth - 1 } ∧
        ({ d2 with dropDepth := d2.dropDepth - 1 } : Dev).fs = fs0 := by
    intro o rc d2 hro hc
    have h2 := hro.out { d1 with dropDepth := d1.dropDepth + 1 } _ _ h1.2.1 hc
    exact ⟨(h1.1.trans ((sameWrites_depth d1 _).trans h2.1)).trans (sameWrites_depth d2 _), h2.2.1⟩
  cases rp with
  | ok a =>
    have hro := hsome a (h1.2.2 a rfl)
    simp only at hr
    rcases hc : run (c (some a)) { d1 with dropDepth := d1.dropDepth + 1 } with ⟨rc, d2⟩
    rw [hc] at hr
    have hk := key hro hc
    cases rc with
    | ok u => simp only at hr; cases hr; exact ⟨hk.1, hk.2, fun v hv => by cases hv; exact h1.2.2 a rfl⟩
    | error e' =>
      simp only at hr
      split at hr <;> cases hr
      · exact ⟨hk.1, hk.2, fun v hv => by cases hv⟩
      · exact ⟨hk.1, hk.2, fun v hv => by cases hv; exact h1.2.2 a rfl⟩
  | error e =>
    simp only at hr
    split at hr
    · cases hr; exact ⟨h1.1, h1.2.1, fun v hv => by cases hv⟩
    · rcases hc : run (c none) { d1 with dropDepth := d1.dropDepth + 1 } with ⟨rc, d2⟩
      rw [hc] at hr
      have hk := key hnone hc
      cases rc with
      | ok u => simp only at hr; cases hr; exact ⟨hk.1, hk.2, fun v hv => by cases hv⟩
      | error e' => simp only at hr; split at hr <;> cases hr <;> exact ⟨hk.1, hk.2, fun v hv => by cases hv⟩

/-- "writes nothing" with tracking of the mounted state: started in state `fs0`, `p` leaves image and write log
    unchanged, and a successful result `v` together with the final mounted state satisfies `Post`. (`RO` is the special
    case in which the mounted state stays `fs0`.) -/
structure NW {α} (fs0 : FsState) (p : Prog α) (Post : α → FsState → Prop) : Prop where
  out : ∀ (d : Dev) (r : Except Err α) (d' : Dev), d.fs = fs0 → run p d = (r, d') →
    SameWrites d d' ∧ ∀ v, r = .ok v → Post v d'.fs

theorem NW.of_ro {α} {fs0 : FsState} {p : Prog α} {Q : α → Prop} (h : RO fs0 p Q) :
    NW fs0 p (fun v fs1 => Q v ∧ fs1 = fs0) :=
  ⟨fun d r d' hfs hr => ⟨(h.out d r d' hfs hr).1, fun v hv => ⟨(h.out d r d' hfs hr).2.2 v hv, (h.out d r d' hfs hr).2.1⟩⟩⟩

theorem NW.weaken {α} {fs0 : FsState} {p : Prog α} {Q Post : α → FsState → Prop} (h : NW fs0 p Q)
    (hq : ∀ v fs1, Q v fs1 → Post v fs1) : NW fs0 p Post :=
  ⟨fun d r d' hfs hr => ⟨(h.out d r d' hfs hr).1, fun v hv => hq v _ ((h.out d r d' hfs hr).2 v hv)⟩⟩

theorem NW.pure {α} {fs0 : FsState} {Post : α → FsState → Prop} {a : α} (h : Post a fs0) :
    NW fs0 (Prog.pure a) Post := by
  refine ⟨fun d r d' hfs hr => ?_⟩; simp only [run] at hr; cases hr
  exact ⟨SameWrites.refl _, fun v hv => by cases hv; rw [hfs]; exact h⟩

theorem NW.fail {α} {fs0 : FsState} {Post : α → FsState → Prop} (e : Err) : NW fs0 (Prog.fail (α := α) e) Post := by
  refine ⟨fun d r d' hfs hr => ?_⟩; simp only [run] at hr; cases hr
  exact ⟨SameWrites.refl _, fun v hv => by cases hv⟩

theorem NW.setFs {fs0 : FsState} (fs : FsState) : NW fs0 (Prog.setFs fs) (fun _ fs1 => fs1 = fs) := by
  refine ⟨fun d r d' hfs hr => ?_⟩; simp only [Prog.setFs, run, stepOp] at hr; cases hr
  exact ⟨⟨rfl, rfl⟩, fun v _ => rfl⟩

theorem NW.bind {α β} {fs0 : FsState} {p : Prog β} {k : β → Prog α} {Q : β → FsState → Prop}
    {Post : α → FsState → Prop} (hp : NW fs0 p Q) (hk : ∀ b fs1, Q b fs1 → NW fs1 (k b) Post) :
    NW fs0 (Prog.bind p k) Post := by
  refine ⟨fun d r d' hfs hr => ?_⟩
  simp only [run] at hr
  rcases hq : run p d with ⟨rp, d1⟩
  rw [hq] at hr
  have h1 := hp.out d _ _ hfs hq
  cases rp with
  | ok b =>
    have h2 := (hk b d1.fs (h1.2 b rfl)).out d1 _ _ rfl hr
    exact ⟨h1.1.trans h2.1, h2.2⟩
  | error e => simp only at hr; cases hr; exact ⟨h1.1, fun v hv => by cases hv⟩

/-- a read-only prefix -/
theorem NW.bind_ro {α β} {fs0 : FsState} {p : Prog β} {k : β → Prog α} {Q : β → Prop}
    {Post : α → FsState → Prop} (hp : RO fs0 p Q) (hk : ∀ b, Q b → NW fs0 (k b) Post) :
    NW fs0 (Prog.bind p k) Post :=
  NW.bind (NW.of_ro hp) (fun b fs1 h => by rw [h.2]; exact hk b h.1)

theorem NW.modifyFs {fs0 : FsState} (f : FsState → FsState) :
    NW fs0 (Prog.modifyFs f) (fun _ fs1 => fs1 = f fs0) := by
  unfold Prog.modifyFs
  refine NW.bind_ro RO.getFs (fun fs h => ?_)
  subst h
  exact NW.setFs _

/-- bind-composition for `SameWrites` alone (no assumption on the mounted state) -/
theorem sameWrites_bind {α β} {p : Prog β} {k : β → Prog α}
    (hp : ∀ d r d', run p d = (r, d') → SameWrites d d')
    (hk : ∀ b d r d', run (k b) d = (r, d') → SameWrites d d') :
    ∀ d r d', run (Prog.bind p k) d = (r, d') → SameWrites d d' := by
  intro d r d' hr
  simp only [run] at hr
  rcases hq : run p d with ⟨rp, d1⟩
  rw [hq] at hr
  cases rp with
  | ok b => exact (hp _ _ _ hq).trans (hk b _ _ _ hr)
  | error e => simp only at hr; cases hr; exact hp _ _ _ hq

/-! ### generic composition of a device relation along a run -/

/-- a relation between the device before and after that is reflexive, transitive and blind to the destructor depth -/
structure RelOK (R : Dev → Dev → Prop) : Prop where
  refl : ∀ d, R d d
  trans : ∀ a b c, R a b → R b c → R a c
  depth : ∀ (d : Dev) (n : Nat), R d { d with dropDepth := n }

/-- every run of `p` relates the device before and after -/
structure Steps (R : Dev → Dev → Prop) {α} (p : Prog α) : Prop where
  out : ∀ (d : Dev) (r : Except Err α) (d' : Dev), run p d = (r, d') → R d d'

theorem Steps.pure {R} (hR : RelOK R) {α} (a : α) : Steps R (Prog.pure a) :=
  ⟨fun d r d' hr => by simp only [run] at hr; cases hr; exact hR.refl _⟩

theorem Steps.fail {R} (hR : RelOK R) {α} (e : Err) : Steps R (Prog.fail (α := α) e) :=
  ⟨fun d r d' hr => by simp only [run] at hr; cases hr; exact hR.refl _⟩

theorem Steps.bind {R} (hR : RelOK R) {α β} {p : Prog β} {k : β → Prog α} (hp : Steps R p)
    (hk : ∀ b, Steps R (k b)) : Steps R (Prog.bind p k) := by
  refine ⟨fun d r d' hr => ?_⟩
  simp only [run] at hr
  rcases hq : run p d with ⟨rp, d1⟩
  rw [hq] at hr
  cases rp with
  | ok b => exact hR.trans _ _ _ (hp.out _ _ _ hq) ((hk b).out _ _ _ hr)
  | error e => simp only at hr; cases hr; exact hp.out _ _ _ hq

theorem Steps.tryCatch {R} (hR : RelOK R) {α} {p : Prog α} {h : Err → Prog α} (hp : Steps R p)
    (hh : ∀ e, Steps R (h e)) : Steps R (Prog.tryCatch p h) := by
  refine ⟨fun d r d' hr => ?_⟩
  simp only [run] at hr
  rcases hq : run p d with ⟨rp, d1⟩
  rw [hq] at hr
  cases rp with
  | ok a => simp only at hr; cases hr; exact hp.out _ _ _ hq
  | error e =>
    simp only at hr
    split at hr
    · cases hr; exact hp.out _ _ _ hq
    · exact hR.trans _ _ _ (hp.out _ _ _ hq) ((hh e).out _ _ _ hr)

theorem Steps.finallyDrop {R} (hR : RelOK R) {α} {p : Prog α} {c : Option α → Prog Unit} (hp : Steps R p)
    (hc : ∀ o, Steps R (c o)) : Steps R (Prog.finallyDrop p c) := by
  refine ⟨fun d r d' hr => ?_⟩
  simp only [run] at hr
  rcases hq : run p d with ⟨rp, d1⟩
  rw [hq] at hr
  have key : ∀ {o rc d2}, run (c o) { d1 with dropDepth := d1.dropDepth + 1 } = (rc, d2) →
      R d { d2 with dropDepth := d2.dropDepth - 1 } := by
    intro o rc d2 hcr
    exact hR.trans _ _ _ (hR.trans _ _ _ (hp.out _ _ _ hq) (hR.trans _ _ _ (hR.depth d1 _) ((hc o).out _ _ _ hcr)))
      (hR.depth d2 _)
  cases rp with
  | ok a =>
    simp only at hr
    rcases hcr : run (c (some a)) { d1 with dropDepth := d1.dropDepth + 1 } with ⟨rc, d2⟩
    rw [hcr] at hr
    cases rc with
    | ok u => simp only at hr; cases hr; exact key hcr
    | error e' => simp only at hr; split at hr <;> cases hr <;> exact key hcr
  | error e =>
    simp only at hr
    split at hr
    · cases hr; exact hp.out _ _ _ hq
    · rcases hcr : run (c none) { d1 with dropDepth := d1.dropDepth + 1 } with ⟨rc, d2⟩
      rw [hcr] at hr
      cases rc with
      | ok u => simp only at hr; cases hr; exact key hcr
      | error e' => simp only at hr; split at hr <;> cases hr <;> exact key hcr

/-- a relation every primitive step satisfies holds along every run -/
theorem steps_of_ops {R} (hR : RelOK R) (hop : ∀ (o : Op) (d : Dev) r d', stepOp o d = (r, d') → R d d')
    {α} (p : Prog α) : Steps R p := by
  induction p with
  | pure a => exact Steps.pure hR a
  | fail e => exact Steps.fail hR e
  | op o => exact ⟨fun d r d' hr => by simp only [run] at hr; exact hop o d r d' hr⟩
  | bind p k ihp ihk => exact Steps.bind hR ihp ihk
  | tryCatch p h ihp ihh => exact Steps.tryCatch hR ihp ihh
  | finallyDrop p c ihp ihc => exact Steps.finallyDrop hR ihp ihc

/-- the log only grows (newest first) -/
def LogExtends (d d' : Dev) : Prop := ∃ items, d'.log = items ++ d.log

theorem logExtends_ok : RelOK LogExtends where
  refl := fun d => ⟨[], rfl⟩
  trans := by
    rintro a b c ⟨i1, h1⟩ ⟨i2, h2⟩
    exact ⟨i2 ++ i1, by rw [h2, h1, List.append_assoc]⟩
  depth := fun d n => ⟨[], rfl⟩

theorem stepOp_logExtends (o : Op) (d : Dev) (r : Except Err (Resp o)) (d' : Dev) (hr : stepOp o d = (r, d')) :
    LogExtends d d' := by
  have hcnt : ∀ k, (d.count k).log = d.log := by
    intro k; unfold Dev.count; cases k <;> simp
  have dc : ∀ {β} (k : CallKind) (act : Dev → Except Err β × Dev),
      (∀ d0 r d1, act d0 = (r, d1) → LogExtends d0 d1) →
      ∀ {r d'}, devCall k d act = (r, d') → LogExtends d d' := by
    intro β k act hact r d' h
    unfold devCall devCallCore at h
    split at h
    · cases h; exact ⟨[], by simp [hcnt k]⟩
    · obtain ⟨items, hi⟩ := hact _ _ _ h
      exact ⟨items, by rw [hi, hcnt k]⟩
  cases o with
  | write bs => simp only [stepOp] at hr; exact dc _ _ (by intro d0 r d1 h; cases h; exact ⟨[_], rfl⟩) hr
  | read n => simp only [stepOp] at hr; exact dc _ _ (by intro d0 r d1 h; cases h; exact ⟨[], rfl⟩) hr
  | seek p =>
    simp only [stepOp] at hr
    refine dc _ _ ?_ hr
    intro d0 r d1 h
    cases p with
    | start n => cases h; exact ⟨[], rfl⟩
    | cur x => simp only at h; split at h <;> cases h <;> exact ⟨[], rfl⟩
    | fromEnd x => simp only at h; split at h <;> cases h <;> exact ⟨[], rfl⟩
  | flush => simp only [stepOp] at hr; exact dc _ _ (by intro d0 r d1 h; cases h; exact ⟨[_], rfl⟩) hr
  | now => simp only [stepOp] at hr; cases hr; exact ⟨[], rfl⟩
  | today => simp only [stepOp] at hr; cases hr; exact ⟨[], rfl⟩
  | getFs => simp only [stepOp] at hr; cases hr; exact ⟨[], rfl⟩
  | setFs fs => simp only [stepOp] at hr; cases hr; exact ⟨[], rfl⟩

theorem run_logExtends {α} (p : Prog α) (d : Dev) (r : Except Err α) (d' : Dev) (hr : run p d = (r, d')) :
    LogExtends d d' :=
  (steps_of_ops logExtends_ok stepOp_logExtends p).out d r d' hr

end FatVerif
