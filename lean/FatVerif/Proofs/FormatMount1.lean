import FatVerif.Proofs.BpbValidConv
import FatVerif.Spec.ValidBpb
/-! Bridge between the two boot-sector readers: `Bpb.deserialize` (the mount model) and `FormatSpec.decodeBoot`
    (the C06 specification), and from `ValidBpb` to `Bpb.Valid`. -/
namespace FatVerif
open FormatSpec

theorem u16At_eq_rd16 (b : List Nat) (i : Nat) : u16At b i = rd16 b i := rfl
theorem u32At_eq_rd32 (b : List Nat) (i : Nat) : u32At b i = rd32 b i := by
  unfold u32At rd32 le32 rd8; rfl
theorem u8At_eq_rd8 (b : List Nat) (i : Nat) : u8At b i = rd8 b i := rfl

/-- the numeric fields of `Bpb.deserialize` are those of `decodeBoot` -/
structure SameFields (p : Bpb) (v : BpbView) : Prop where
  bps : p.bytesPerSector = v.bps
  spc : p.sectorsPerCluster = v.spc
  rsvd : p.reservedSectors = v.reserved
  fats : p.fats = v.fats
  root : p.rootEntries = v.rootEntries
  ts16 : p.totalSectors16 = v.ts16
  media : p.media = v.media
  spf16 : p.sectorsPerFat16 = v.spf16
  ts32 : p.totalSectors32 = v.ts32
  spf32 : p.sectorsPerFat32 = v.spf32
  extFlags : p.extendedFlags = v.extFlags
  fsVersion : p.fsVersion = v.fsVersion
  rootCluster : p.rootDirFirstCluster = v.rootCluster
  fsInfo : p.fsInfoSector = v.fsInfo
  backup : p.backupBootSector = v.backup
  reserved1 : p.reserved1 = v.reserved1

theorem sameFields_deserialize (b : List Nat) : SameFields (Bpb.deserialize b) (decodeBoot b) := by
  unfold Bpb.deserialize decodeBoot
  simp only
  by_cases h : rd16 b 22 = 0
  · have hf : (Bpb.readCommon b).isFat32 = true := by
      simp [Bpb.isFat32, Bpb.readCommon, u16At_eq_rd16, h]
    rw [if_pos hf]
    simp only [h, if_true]
    constructor <;>
      simp only [Bpb.cleanTail, Bpb.withTail, Bpb.readExt32, Bpb.readCommon, u16At_eq_rd16, u32At_eq_rd32, u8At_eq_rd8] <;>
      first | done | exact h
  · have hf : ¬ (Bpb.readCommon b).isFat32 = true := by
      simp [Bpb.isFat32, Bpb.readCommon, u16At_eq_rd16, h]
    rw [if_neg hf]
    simp only [h, if_false]
    constructor <;>
      simp only [Bpb.cleanTail, Bpb.withTail, Bpb.readCommon, u16At_eq_rd16, u32At_eq_rd32, u8At_eq_rd8]

section derived
variable {p : Bpb} {v : BpbView} (hs : SameFields p v)
include hs

theorem SameFields.isFat32 : p.isFat32 = decide (v.spf16 = 0) := by
  unfold Bpb.isFat32; rw [hs.spf16]; rfl

theorem SameFields.spf : p.sectorsPerFat = v.spf := by
  unfold Bpb.sectorsPerFat BpbView.spf
  rw [hs.isFat32, hs.spf16, hs.spf32]
  by_cases h : v.spf16 = 0 <;> simp [h]

theorem SameFields.total : p.totalSectors = v.total := by
  unfold Bpb.totalSectors BpbView.total
  rw [hs.ts16, hs.ts32]
  by_cases h : v.ts16 = 0 <;> simp [h]

theorem SameFields.rds : p.rdsNat = v.rootSecs := by
  unfold Bpb.rdsNat BpbView.rootSecs; rw [hs.root, hs.bps]

theorem SameFields.fds : p.fdsNat = v.firstData := by
  unfold Bpb.fdsNat BpbView.firstData; rw [hs.rsvd, hs.fats, hs.spf, hs.rds]

theorem SameFields.tc : p.tcNat = v.clusters := by
  unfold Bpb.tcNat BpbView.clusters; rw [hs.total, hs.fds, hs.spc]

end derived

theorem widthOf_32_iff (n : Nat) : widthOf n = 32 ↔ FatType.fromClusters n = .fat32 := by
  unfold widthOf FatType.fromClusters
  split
  · simp
  · split <;> simp

theorem decodeBoot_fsVersion (b : List Nat) (h : (decodeBoot b).spf16 ≠ 0) : (decodeBoot b).fsVersion = 0 := by
  unfold decodeBoot at h ⊢
  simp only at h ⊢
  rw [if_neg h]

/-- a boot sector the C06 specification accepts is one `Bpb.validate` accepts -/
theorem valid_of_validBpb {p : Bpb} {v : BpbView} (hs : SameFields p v) {r : Request} {n : Nat}
    (hv : ValidBpb v r n) (hfv : v.spf16 ≠ 0 → v.fsVersion = 0) : p.Valid := by
  obtain ⟨cBps, cSpc, _, cRes, cFats, cTot, cFits, cWidth, _, cMax, c32, c1x, cSig, _⟩ := hv
  have hisf := hs.isFat32
  have hw32 : p.isFat32 = true ↔ v.width = 32 := by
    rw [hisf, decide_eq_true_eq]; exact cWidth.1
  have hw32f : p.isFat32 = false ↔ ¬ v.width = 32 := by
    rw [← hw32]; cases p.isFat32 <;> simp
  have htc := hs.tc
  have hwf : v.width = 32 ↔ FatType.fromClusters p.tcNat = .fat32 := by
    rw [htc]; exact widthOf_32_iff _
  obtain ⟨hb1, _⟩ := cBps
  simp only [List.mem_cons, List.mem_nil_iff, or_false] at hb1
  unfold CSpc at cSpc
  simp only [List.mem_cons, List.mem_nil_iff, or_false] at cSpc
  obtain ⟨htot, hts, hts16, hts32⟩ := cTot
  obtain ⟨hfit, _⟩ := cFits
  have htotlt : v.total < 4294967296 := by unfold BpbView.total; split <;> omega
  refine ⟨?_, ?_, ?_, ?_, ?_, ?_, ?_, ?_, ?_, ?_, ?_, ?_, ?_, ?_, ?_, ?_⟩
  · rw [hs.fsVersion]
    by_cases h : v.width = 32
    · exact (c32 h).2.2.2.2.2.2.2.2.2.1
    · exact hfv (c1x h).2.2
  · rw [hs.bps]; exact hb1
  · rw [hs.spc]; exact cSpc
  · rw [hs.rsvd]; exact cRes
  · intro hf; rw [hs.backup, hs.rsvd]; exact (c32 (hw32.1 hf)).2.2.2.2.1
  · intro hf; rw [hs.fsInfo, hs.rsvd]; exact (c32 (hw32.1 hf)).2.2.2.1
  · rw [hs.fats]; have := cFats.1; omega
  · intro hf; rw [hs.root]; exact (c32 (hw32.1 hf)).2.2.2.2.2.1
  · intro hf; rw [hs.root]; exact (c1x (hw32f.1 hf)).2.1
  · -- totalSectorsFieldsBad = false
    unfold Bpb.totalSectorsFieldsBad
    rw [hs.ts16, hs.ts32]
    have hne : ¬ (v.ts16 = 0 ∧ v.ts32 = 0) := by
      rintro ⟨a, b⟩
      unfold BpbView.total at hfit
      rw [if_neg (by simpa using a), b] at hfit
      omega
    cases hf : p.isFat32
    · by_cases a : v.ts16 = 0
      · have : v.ts32 ≠ 0 := fun b => hne ⟨a, b⟩
        simp [a, this]
      · simp [a, hts a]
    · have a : v.ts16 = 0 := (c32 (hw32.1 hf)).2.2.2.2.2.2.2.2.1
      have : v.ts32 ≠ 0 := fun b => hne ⟨a, b⟩
      simp [a, this]
  · have := hs.fds; unfold Bpb.fdsNat at this
    rw [← this] at hfit; omega
  · rw [hs.fds, hs.total]; exact hfit
  · rw [hs.spf]
    unfold BpbView.spf
    by_cases h : v.width = 32
    · have := (c32 h).2.2.2.2.2.2.1
      rw [if_neg (by simpa using this)]
      have := (c32 h).2.2.2.2.2.2.2.1
      omega
    · have := (c1x h).2.2
      rw [if_pos this]; omega
  · exact ⟨fun hf => hwf.1 (hw32.1 hf), fun h => hw32.2 (hwf.2 h)⟩
  · rw [htc]
    by_cases h : v.width = 32
    · exact cMax h
    · have : ¬ FatType.fromClusters v.clusters = .fat32 := fun hh => h ((widthOf_32_iff _).2 hh)
      rw [Bpb.fromClusters_fat32] at this; omega
  · intro hf
    have h := hw32.1 hf
    rw [hs.rootCluster, (c32 h).1, htc]
    have : FatType.fromClusters v.clusters = .fat32 := (widthOf_32_iff _).1 h
    rw [Bpb.fromClusters_fat32] at this
    omega

theorem sliceD_eq_rdN (b : List Nat) (i n : Nat) (h : i + n ≤ b.length) : sliceD b i n = rdN b i n := by
  unfold sliceD rdN
  have hl : ((b.drop i).take n).length = n := by simp only [List.length_take, List.length_drop]; omega
  rw [hl, Nat.sub_self]
  simp only [List.replicate_zero, List.append_nil]
  apply List.ext_getElem
  · rw [hl]; simp
  · intro k h1 h2
    simp only [List.getElem_take, List.getElem_drop, List.getElem_map, List.getElem_range, rd8]
    rw [List.getD_eq_getElem?_getD, List.getElem?_eq_getElem (by rw [hl] at h1; omega)]
    rfl

/-- the boot signature the mount model reads is the one the C06 decoder reads -/
theorem bootSig_eq (b : List Nat) (h : b.length = 512) : (BootSector.deserialize b).bootSig = (decodeBoot b).sig := by
  show sliceD b 510 2 = rdN b 510 2
  exact sliceD_eq_rdN b 510 2 (by omega)

/-- **from the C06 specification to the mount model**: a 512-byte sector whose decoding is `ValidBpb` is accepted by
    `probe` (both strictness settings), with the geometry computed from the decoded fields -/
theorem probe_of_validBpb (b : List Nat) (strict : Bool) (hb : IsSector b) {r : Request} {n : Nat}
    (hv : ValidBpb (decodeBoot b) r n) :
    probe b strict = .ok (Bpb.deserialize b).geoOf ∧ (Bpb.deserialize b).Valid := by
  have hs := sameFields_deserialize b
  have hvalid := valid_of_validBpb hs hv (decodeBoot_fsVersion b)
  refine ⟨probe_of_valid strict hb hvalid ?_, hvalid⟩
  rw [bootSig_eq b hb.1]
  exact hv.2.2.2.2.2.2.2.2.2.2.2.2.1.1

end FatVerif
