import FatVerif.Proofs.Prog
import FatVerif.Model.Fs
/-! C13, part 1: the read paths of the model contain no `write` and no `setFs` operation (`QuietOps`, by structural
    descent, one lemma per model function). -/
namespace FatVerif

/-- a stream whose `read` and `seek` are quiet -/
structure StrmQuiet {σ} (S : Strm σ) : Prop where
  read : ∀ s n, QuietOps (S.read s n)
  seek : ∀ s p, QuietOps (S.seek s p)

theorem QuietOps.progRead (n : Nat) : QuietOps (Prog.read n) := QuietOps.op _ rfl
theorem QuietOps.progSeek (p : SeekFrom) : QuietOps (Prog.seek p) := QuietOps.op _ rfl
theorem QuietOps.progSeekStart (n : Nat) : QuietOps (Prog.seekStart n) := QuietOps.op _ rfl
theorem QuietOps.progFlush : QuietOps Prog.flush := QuietOps.op _ rfl
theorem QuietOps.progNow : QuietOps Prog.now := QuietOps.op _ rfl
theorem QuietOps.progToday : QuietOps Prog.today := QuietOps.op _ rfl
theorem QuietOps.progGetFs : QuietOps Prog.getFs := QuietOps.op _ rfl

syntax "quiet_step" ("[" Lean.Parser.Tactic.SolveByElim.arg,* "]")? : tactic
macro_rules
  | `(tactic| quiet_step) => `(tactic| quiet_step [])
  | `(tactic| quiet_step [$ts,*]) => `(tactic| first
    | with_reducible_and_instances exact QuietOps.pure _
    | with_reducible_and_instances exact QuietOps.fail _
    | with_reducible exact QuietOps.progRead _
    | with_reducible exact QuietOps.progSeek _
    | with_reducible exact QuietOps.progSeekStart _
    | with_reducible exact QuietOps.progFlush
    | with_reducible exact QuietOps.progNow
    | with_reducible exact QuietOps.progToday
    | with_reducible exact QuietOps.progGetFs
    | intro _
    | with_reducible exact (‹StrmQuiet _›).read _ _
    | with_reducible exact (‹StrmQuiet _›).seek _ _
    | apply_assumption (transparency := .reducible) (exfalso := false) (symm := false) only [*, $ts,*]
    | with_reducible_and_instances apply QuietOps.bind
    | with_reducible_and_instances apply QuietOps.tryCatch
    | with_reducible_and_instances apply QuietOps.finallyDrop
    | dsimp only
    | split)

syntax "quiet" ("[" Lean.Parser.Tactic.SolveByElim.arg,* "]")? : tactic
macro_rules
  | `(tactic| quiet) => `(tactic| repeat quiet_step [])
  | `(tactic| quiet [$ts,*]) => `(tactic| repeat quiet_step [$ts,*])

/-! ### `Io.lean`, `Slice.lean` -/

theorem devStrm_quiet : StrmQuiet devStrm := by
  refine ⟨?_, ?_⟩ <;> intros <;> simp only [devStrm] <;> quiet

theorem adapterStrm_quiet : StrmQuiet adapterStrm := by
  refine ⟨?_, ?_⟩ <;> intros <;> simp only [adapterStrm] <;> quiet

section generic
variable {σ : Type} (S : Strm σ) (hS : StrmQuiet S)
include hS

theorem readExactLoop_quiet : ∀ fuel s n acc, QuietOps (readExactLoop S fuel s n acc) := by
  intro fuel
  induction fuel with
  | zero => intros; unfold readExactLoop; quiet
  | succ k ih => intros; unfold readExactLoop; quiet

theorem readExact_quiet (s n) : QuietOps (readExact S s n) := readExactLoop_quiet S hS _ _ _ _
theorem readU8_quiet (s) : QuietOps (readU8 S s) := by unfold readU8; quiet [readExact_quiet]
theorem readU16_quiet (s) : QuietOps (readU16 S s) := by unfold readU16; quiet [readExact_quiet]
theorem readU32_quiet (s) : QuietOps (readU32 S s) := by unfold readU32; quiet [readExact_quiet]

theorem readChunks_quiet : ∀ ns s acc, QuietOps (readChunks S s ns acc) := by
  intro ns
  induction ns with
  | nil => intros; unfold readChunks; quiet
  | cons n rest ih => intros; unfold readChunks; quiet [readExact_quiet]

end generic

theorem DiskSlice.inner_quiet (s : DiskSlice) : StrmQuiet s.inner := by
  unfold DiskSlice.inner; split
  · exact adapterStrm_quiet
  · exact devStrm_quiet

theorem DiskSlice.read_quiet (s : DiskSlice) (n : Nat) : QuietOps (s.read n) := by
  have := s.inner_quiet
  unfold DiskSlice.read; quiet

theorem DiskSlice.seek_quiet (s : DiskSlice) (p : SeekFrom) : QuietOps (s.seek p) := by
  unfold DiskSlice.seek; quiet

theorem DiskSlice.strm_quiet : StrmQuiet DiskSlice.strm := ⟨DiskSlice.read_quiet, DiskSlice.seek_quiet⟩

/-! ### `Table.lean` (read side) -/

namespace Table
section generic
variable {σ : Type} (S : Strm σ) (hS : StrmQuiet S)
include hS

theorem getRaw_quiet (ft s c) : QuietOps (getRaw S ft s c) := by
  unfold getRaw; quiet [readU16_quiet, readU32_quiet]

theorem get_quiet (ft s c) : QuietOps (get S ft s c) := by
  unfold get; quiet [getRaw_quiet]

theorem countFree12Loop_quiet : ∀ fuel s c endC prev count, QuietOps (countFree12Loop S fuel s c endC prev count) := by
  intro fuel
  induction fuel with
  | zero => intros; unfold countFree12Loop; quiet
  | succ k ih => intros; unfold countFree12Loop; quiet [readU16_quiet, readU8_quiet]

theorem countFreeLoop_quiet (ft) : ∀ fuel s c endC count, QuietOps (countFreeLoop S ft fuel s c endC count) := by
  intro fuel
  induction fuel with
  | zero => intros; unfold countFreeLoop; quiet
  | succ k ih => intros; unfold countFreeLoop; quiet [readU16_quiet, readU32_quiet]

theorem countFree_quiet (ft s total) : QuietOps (countFree S ft s total) := by
  unfold countFree; quiet [countFree12Loop_quiet, countFreeLoop_quiet]

theorem CIter.next_quiet (ft) (it : CIter σ) : QuietOps (CIter.next S ft it) := by
  unfold CIter.next; quiet [get_quiet]

theorem readFatFlags_quiet (ft s) : QuietOps (readFatFlags S ft s) := by
  unfold readFatFlags; quiet [getRaw_quiet]

end generic
end Table

/-! ### `File.lean` (read side) -/

theorem offsetFromClusterP_quiet (fs c) : QuietOps (offsetFromClusterP fs c) := by
  unfold offsetFromClusterP; quiet

theorem nextCluster_quiet (c) : QuietOps (nextCluster c) := by
  unfold nextCluster; quiet [Table.CIter.next_quiet, DiskSlice.strm_quiet]

namespace FileH

theorem absPos_quiet (fs) (f : FileH) : QuietOps (f.absPos fs) := by
  unfold absPos; quiet [offsetFromClusterP_quiet]

theorem boundaryCluster_quiet (f : FileH) : QuietOps f.boundaryCluster := by
  unfold boundaryCluster; quiet [nextCluster_quiet]

/-- `Read::read` for `File` contains no write operation at all (whatever `update_accessed_date` is) -/
theorem read_quiet (f : FileH) (n : Nat) : QuietOps (f.read n) := by
  unfold read; quiet [boundaryCluster_quiet, offsetFromClusterP_quiet]

theorem seekWalk_quiet (fs) : ∀ k it cluster i toSkip newOff, QuietOps (seekWalk fs k it cluster i toSkip newOff) := by
  intro k
  induction k with
  | zero => intros; unfold seekWalk; quiet
  | succ k ih => intros; unfold seekWalk; quiet [Table.CIter.next_quiet, DiskSlice.strm_quiet]

theorem seek_quiet (f : FileH) (p : SeekFrom) : QuietOps (f.seek p) := by
  unfold seek; quiet [seekWalk_quiet]

theorem extentsLoop_quiet (fs) : ∀ k it left acc, QuietOps (extentsLoop fs k it left acc) := by
  intro k
  induction k with
  | zero => intros; unfold extentsLoop; quiet
  | succ k ih =>
    intros; unfold extentsLoop
    quiet [Table.CIter.next_quiet, DiskSlice.strm_quiet, offsetFromClusterP_quiet]

theorem extents_quiet (f : FileH) : QuietOps f.extents := by
  unfold extents; quiet [extentsLoop_quiet, offsetFromClusterP_quiet]

end FileH

/-! ### `DirOps.lean`, `Fs.lean` (parts without handles) -/

theorem liftE_quiet {α} (r : Except Err α) : QuietOps (liftE r) := by
  unfold liftE; quiet

theorem DirEntry.toFile_quiet (fs) (e : DirEntry) : QuietOps (e.toFile fs) := by
  unfold DirEntry.toFile; quiet

theorem DirEntry.toDir_quiet (fs) (e : DirEntry) : QuietOps (e.toDir fs) := by
  unfold DirEntry.toDir; quiet

theorem readBootSector_quiet : QuietOps readBootSector := by
  unfold readBootSector; quiet [readChunks_quiet, devStrm_quiet]

theorem readFsInfoSector_quiet : QuietOps readFsInfoSector := by
  unfold readFsInfoSector; quiet [readU32_quiet, readExact_quiet, devStrm_quiet]

theorem readStatusFlags_quiet : QuietOps readStatusFlags := by
  unfold readStatusFlags; quiet [Table.readFatFlags_quiet, DiskSlice.strm_quiet]

end FatVerif
