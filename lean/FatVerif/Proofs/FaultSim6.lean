import FatVerif.Proofs.FaultSim5
/-! Faults and forward evaluation, part 6: `create_dir(name)` through a writable directory propagates a storage error up
    to ONE tolerated outcome: the error of the roll-back `free_cluster_chain(cluster)` run after the fault
    (`RollbackErr`). The roll-back of `write_entry` (`EntryRollbackX`) never fails. -/
namespace FatVerif.DirSim
open FatVerif.FileSim FatVerif.Fat DirEntryData DirAlias

namespace WView
variable {d : Dev} {st : DirStream}

theorem createDir_foX (X : Fault → Err → Prop) (V : WView d.disarm st) (hd : d.fault = none) (hOK : FaultOK V) (env : Env) (path name : String)
    (hsp : Names.splitPath path = (name, none)) (hdot : (name = "." || name = "..") = false)
    (hval : Names.validateLongName name = .ok ()) (hla : d.fs.lfnAlloc = true)
    (hgeo : FileSim.Geo d.fs d.img.size) (hinfo : InfoOk d.fs d.img) (hacc : d.fs.accDate = false)
    (hcs32 : d.fs.clusterSize % 32 = 0) (hcs64 : 64 ≤ d.fs.clusterSize) (hu32 : d.fs.clusterSize < 4294967296)
    (hfuelN : d.fs.clusterSize / 32 < dirFuel d.fs) (a : List Nat)
    (hchk : DirAlias.checkForExistenceL env.upper (V.slots d.img) name (some true) 70000 = .ok (.alias a))
    (c : Nat) (hfind : allocFindV (tabView d.fs d.img) d.fs.fsInfo.next d.fs.totalClusters = some c)
    (hfit : DirSlots.findFree (V.slots d.img) (Lfn.numParts (Names.encodeUtf16 name.toList).length + 1) +
      (Lfn.numParts (Names.encodeUtf16 name.toList).length + 1) ≤ V.N)
    (hkeepA : ∀ d1 d2, SameVol d.disarm d1 → d1.clock = d.clock → AllocStep d1 d2 c → V.Inv d2)
    (hslots : ∀ i, i < V.N →
      (fatSliceOf d.fs).beginOff + (fatSliceOf d.fs).mirrors * (fatSliceOf d.fs).size ≤ V.src (32 * i) ∧
      V.src (32 * i) + 32 ≤ d.img.size ∧
      (V.src (32 * i) + 32 ≤ clusterOff d.fs c ∨ clusterOff d.fs c + d.fs.clusterSize ≤ V.src (32 * i)))
    (hextra : ∀ q, V.Extra q →
      (fatSliceOf d.fs).beginOff + (fatSliceOf d.fs).mirrors * (fatSliceOf d.fs).size ≤ q ∧
      ¬ (clusterOff d.fs c ≤ q ∧ q < clusterOff d.fs c + d.fs.clusterSize))
    (hX : ∀ (d2 d3 d4 : Dev) (raw : DirFileEntryData) (rw : Except Err DirEntry) (f : Fault) (e : Err),
      d2.fault = none → FsGeomEq d.fs d2.fs → d2.img.size = d.img.size → d2.img.WF →
      tabView d2.fs d2.img = updV (tabView d.fs d.img) c .eoc →
      run (FatVerif.writeEntry st name raw) d2 = (rw, d3) → d3.failAt = none → d3.fault = some f →
      run (freeClusterChain c) d3 = (.error e, d4) →
      V.Inv d2.disarm → raw.WF → V.slots d2.img = V.slots d.img → f.inDrop = false → X f e)
    (fuel : Nat) {r d'} (hr : run (FatVerif.createDir env (fuel + 1) st path) d = (r, d')) :
    FaultOutcomeX X (resErr r) d' := by
  have hn1 : 1 ≤ Lfn.numParts (Names.encodeUtf16 name.toList).length + 1 := by omega
  have hwf : d.img.WF := V.io.wf d.disarm V.here
  have hms : (fatSliceOf d.fs).size ≤ (fatSliceOf d.fs).mirrors * (fatSliceOf d.fs).size :=
    Nat.le_mul_of_pos_left _ hgeo.mirrors_pos
  have hst42 := hgeo.status_lt
  obtain ⟨hcan, hl11, _⟩ := C16dir.dir_alias_canon env.upper (V.slots d.img) name (some true) 70000 a hchk
  unfold FatVerif.createDir at hr
  refine faultOutcomeX_bind_at (fun r1 d1 h => FaultOutcome.toX (ioSafe_propagates IoSafe.progGetFs d hd _ _ h)) hr
    (fun fs d0 h0 _ r1 d1' hr1 => ?_)
  have hd0 : d0 = d ∧ fs = d.fs := by
    have := run_getFs d
    rw [this] at h0
    exact ⟨(congrArg Prod.snd h0).symm, by injection (congrArg Prod.fst h0) with h; exact h.symm⟩
  rw [hd0.1, hd0.2, hsp] at hr1
  clear hr
  simp only at hr1
  -- 1. check_for_existence
  refine faultOutcomeX_bind_at (fun r1 d1 h => FaultOutcome.toX
    (ioSafe_propagates (checkForExistence_ioSafe _ _ _ _) d hd _ _ h)) hr1 (fun rr d1 h1 hf1 r2 d2' hr2 => ?_)
  have hdis1 := run_disarm _ d h1 hd hf1
  rw [congrArg (fun s => run (checkForExistence env s name (some true)) d.disarm) V.start] at hdis1
  have hce := (V.ops.dsrc d.disarm V.here).checkForExistence_sim (V.ops.fuel d.disarm V.here) hla env name (some true)
    d.disarm (SameVol.refl _)
  have hsl0 : srcSlots d.disarm.img V.src V.N = V.slots d.img := rfl
  rw [hsl0, hchk] at hce
  obtain ⟨d1g, h1g, hs1⟩ := hce
  rw [hdis1] at h1g
  have hrr : rr = liftEOA V.src (.alias a) := by injection (congrArg Prod.fst h1g) with h
  have hd1g : d1.disarm = d1g := congrArg Prod.snd h1g
  subst hd1g
  subst hrr
  have hc1 : d1.clock = d.clock := run_clock _ _ _ _ h1
  simp only [liftEOA, hdot, Bool.false_eq_true, if_false, liftE, hval] at hr2
  rw [run_bind_ok (rfl : run (pure () : Prog Unit) d1 = (.ok (), d1))] at hr2
  -- 2. alloc_cluster(None, true)
  refine faultOutcomeX_bind_at (fun r1 d2 h => FaultOutcome.toX
    (ioSafe_propagates (allocClusterFs_ioSafe none true) d1 hf1 _ _ h)) hr2 (fun c' d2 h2 hf2 r3 d3' hr3 => ?_)
  have himg1 : d1.img = d.img := by have := hs1.img; simpa using this
  have hfs1 : d1.fs = d.fs := by have := hs1.fs; simpa using this
  obtain ⟨d2g, h2g, hal⟩ := run_alloc_step c d1.disarm rfl (by show d1.img.WF; rw [himg1]; exact hwf)
    (by show FileSim.Geo d1.fs d1.img.size; rw [hfs1, himg1]; exact hgeo)
    (by show InfoOk d1.fs d1.img; rw [hfs1, himg1]; exact hinfo)
    (by show allocFindV (tabView d1.fs d1.img) d1.fs.fsInfo.next d1.fs.totalClusters = some c
        rw [hfs1, himg1]; exact hfind)
  rw [run_disarm _ d1 h2 hf1 hf2] at h2g
  have hc' : c' = c := by injection (congrArg Prod.fst h2g) with h
  have hd2g : d2.disarm = d2g := congrArg Prod.snd h2g
  subst hd2g
  subst hc'
  have hinv2 : V.Inv d2.disarm := hkeepA d1.disarm d2.disarm hs1 hc1 hal
  have hg2 : FsGeomEq d.fs d2.fs := by
    have := hal.step.geom
    simp only [Dev.disarm_fs] at this
    rwa [hfs1] at this
  have hc2 : d2.clock = d.clock := by
    have := hal.step.clock
    simp only [Dev.disarm_clock] at this
    exact this.trans hc1
  have hsz2 : d2.img.size = d.img.size := by
    have := hal.step.size
    simp only [Dev.disarm_img] at this
    rw [this, himg1]
  have hwf2 : d2.img.WF := hal.step.wf (by show d1.img.WF; rw [himg1]; exact hwf)
  have hrange : 2 ≤ c' ∧ c' < d.fs.totalClusters + 2 := by
    have := hal.range
    simp only [Dev.disarm_fs] at this
    rwa [hfs1] at this
  obtain ⟨hco1, hco2⟩ := clusterOff_end hgeo hrange.1 hrange.2
  have hfatdata := hgeo.fat_data
  have hframe2 : ∀ q, 0x42 ≤ q → OutsideFat d.fs q →
      ¬ (clusterOff d.fs c' ≤ q ∧ q < clusterOff d.fs c' + d.fs.clusterSize) → d2.img.getByte q = d.img.getByte q := by
    intro q hq ho hn
    have := hal.frame q hq (by show OutsideFat d1.fs q; rw [hfs1]; exact ho)
      (by show ¬ (clusterOff d1.fs c' ≤ q ∧ q < clusterOff d1.fs c' + d1.fs.clusterSize); rw [hfs1]; exact hn)
    simp only [Dev.disarm_img] at this
    rw [this, himg1]
  have hslots2 : V.slots d2.img = V.slots d.img := by
    unfold WView.slots
    refine srcSlots_congr (fun i hi x hx => ?_)
    obtain ⟨hb, _, hcl⟩ := hslots i hi
    exact hframe2 _ (by omega) (Or.inr (by omega)) (by omega)
  have htv2 : tabView d2.fs d2.img = updV (tabView d.fs d.img) c' .eoc := by
    have := hal.tv
    simp only [Dev.disarm_fs, Dev.disarm_img] at this
    rw [this, hfs1, himg1]
  -- 3. create_sfn_entry, write_entry in the parent
  rw [run_bind_ok (run_createSfnEntry a ATTR_DIRECTORY (some c') d2), sfnAt_geom hg2, hc2] at hr3
  have hrawwf := sfnAt_wf d.fs d.clock a 16 (some c') hl11 (canon_lt hcan) (by omega)
  have hrawlfn : attrsIsLfn (sfnAt d.fs d.clock a 16 (some c')).attrs = false := by rw [sfnAt_attrs]; decide
  have hfit2 : DirSlots.findFree ((V.step hinv2).slots d2.img) (Lfn.numParts (Names.encodeUtf16 name.toList).length + 1) +
      (Lfn.numParts (Names.encodeUtf16 name.toList).length + 1) ≤ (V.step hinv2).N := by
    show DirSlots.findFree (V.slots d2.img) _ + _ ≤ V.N
    rw [hslots2]; exact hfit
  rcases hw : run (FatVerif.writeEntry st name (sfnAt d.fs d.clock a 16 (some c'))) d2 with ⟨rw, d3⟩
  have hFO : FaultOutcome (resErr rw) d3 := (V.step hinv2).writeEntry_fo hf2 (hOK.step hinv2) name _ hdot hrawwf hfit2 hw
  have hatt : run (Prog.attempt (FatVerif.writeEntry st name (sfnAt d.fs d.clock a ATTR_DIRECTORY (some c')))) d2 =
      (match rw with
        | .ok e => (.ok (.ok e), d3)
        | .error e => if e.isFatal then (.error e, d3) else (.ok (.error e), d3)) := by
    rw [run_attempt]
    have hw' : run (FatVerif.writeEntry st name (sfnAt d.fs d.clock a ATTR_DIRECTORY (some c'))) d2 = (rw, d3) := hw
    rw [hw']
    cases rw <;> rfl
  -- the fault-free run of `write_entry` (on the disarmed device)
  obtain ⟨d3g, h3g, hs3, _, hinv3, hsl3, hfr3, _⟩ := (V.step hinv2).writeEntry_sim name (sfnAt d.fs d.clock a 16 (some c'))
    hval hdot hrawwf hrawlfn hfit2
  cases rw with
  | error err =>
    simp only at hatt
    have hf3 : d3.fault ≠ none := by
      intro h0
      rw [run_disarm _ d2 hw hf2 h0] at h3g
      cases (congrArg Prod.fst h3g)
    obtain ⟨f, hff⟩ := Option.ne_none_iff_exists'.mp hf3
    rcases hFO with h0 | ⟨hfa3, f', hf', him⟩
    · exact absurd h0 hf3
    rw [hff] at hf'
    cases hf'
    by_cases hfat : err.isFatal = true
    · rw [if_pos hfat] at hatt
      rw [run_bind_error hatt] at hr3
      cases hr3
      exact Or.inr ⟨hfa3, f, hff, fun hdrop => Or.inl (him hdrop)⟩
    · rw [if_neg hfat] at hatt
      rw [run_bind_ok hatt] at hr3
      simp only at hr3
      have hk : ∀ {r d'}, run (do freeClusterChain c'; (Prog.fail err : Prog DirEntry)) d3 = (r, d') →
          FaultOutcomeX X (resErr r) d' := by
        intro r d' h
        have hkept := fault_kept _ d3 h hfa3
        right
        refine ⟨hkept.2, f, by rw [hkept.1, hff], fun hdrop => ?_⟩
        have herr := him hdrop
        simp only [resErr, Option.some.injEq] at herr
        subst herr
        rcases run_bind_cases h with ⟨u, d5, h5, h6⟩ | ⟨e5, h5, he⟩
        · have h6' : run (Prog.fail (.io f.k) : Prog DirEntry) d5 = (r, d') := h6
          simp only [run] at h6'
          cases h6'
          exact Or.inl rfl
        · subst he
          exact Or.inr ⟨e5, rfl, hX d2 d3 d' _ _ f e5 hf2 hg2 hsz2 hwf2 htv2 hw hfa3 hff h5 hinv2 hrawwf hslots2 hdrop⟩
      rcases run_bind_cases hr3 with ⟨b, d4, h4, _⟩ | ⟨e4, h4, hre⟩
      · exfalso
        rcases run_bind_cases h4 with ⟨u, d5, _, h6⟩ | ⟨e5, _, he⟩
        · have h6' : run (Prog.fail err : Prog DirEntry) d5 = (.ok b, d4) := h6
          simp only [run] at h6'
          cases h6'
        · cases he
      · subst hre
        exact hk h4
  | ok entry =>
    simp only at hatt
    rw [run_bind_ok hatt] at hr3
    simp only at hr3
    rw [run_bind_ok (rfl : run (pure entry : Prog DirEntry) d3 = (.ok entry, d3))] at hr3
    by_cases hf3 : d3.fault = none
    · -- no fault so far: `d3` is the device of the simulation
      rw [run_disarm _ d2 hw hf2 hf3] at h3g
      have hent := (congrArg Prod.fst h3g)
      have hd3g : d3.disarm = d3g := congrArg Prod.snd h3g
      subst hd3g
      generalize hn : Lfn.numParts (Names.encodeUtf16 name.toList).length + 1 = n at hfit hn1 hent hsl3
      have e2 : (V.step hinv2).slots d2.disarm.img = V.slots d.img := hslots2
      rw [e2] at hent hsl3
      generalize hp : DirSlots.findFree (V.slots d.img) n = p at hfit hent
      have hentry : entry = toDirEntryS V.src
          ⟨(sfnAt d.fs d.clock a 16 (some c')).serialize, Names.encodeUtf16 name.toList, p, p + n⟩ := by
        injection hent with h
      have hfr3' : FrameOutE V.N V.src V.Extra d2.disarm d3.disarm := hfr3
      have hc3 : d3.clock = d.clock := (run_clock _ _ _ _ hw).trans hc2
      have hg3 : FsGeomEq d.fs d3.fs := by
        have := hs3.geom
        simp only [Dev.disarm_fs] at this
        exact hg2.trans this
      have hsz3 : d3.img.size = d.img.size := by
        have := hs3.size
        simp only [Dev.disarm_img] at this
        rw [this, hsz2]
      have hedata : entry.data = sfnAt d.fs d3.clock a 16 (some c') := by
        rw [hentry, hc3, sfnAt_serialize]
        exact toDirEntryS_sfnAt_data _ d.fs d.clock a 16 (some c') _ _ _ hl11 (canon_lt hcan) (by omega) (by decide)
      have hepos : entry.entryPos = V.src (32 * (p + n - 1)) := by
        rw [hentry]
        show V.src (32 * (p + n) - 32) = _
        congr 1; omega
      have hpn : p + n - 1 < V.N := by omega
      obtain ⟨hsb, hsi, hsc⟩ := hslots (p + n - 1) hpn
      have hFS2 : fatSliceOf d2.fs = fatSliceOf d.fs := hg2.fatSlice
      have hagree3 : FatAgree d2.fs d2.img d3.img :=
        fatAgree_of_frameE hfr3' d2.fs (by rw [hFS2]; exact hst42)
          (fun j hj => by rw [hFS2]; have := (hslots j hj).1; omega)
          (fun q hq => by rw [hFS2]; have := (hextra q hq).1; omega)
      have htv3 : tabView d3.fs d3.img = updV (tabView d.fs d.img) c' .eoc := by
        have hg23 : FsGeomEq d2.fs d3.fs := by have := hs3.geom; simpa using this
        rw [hg23.tabView, tabView_congr (sz := d2.img.size) (by rw [hsz2]; exact hgeo.frame hg2) hagree3, htv2]
      refine FaultOutcome.toX (createDirTail_fo d.fs st entry a c' d3 hl11 (canon_lt hcan) hedata hg3 hf3
        (by have := hs3.wf hwf2; simpa using this) (by rw [hsz3]; exact hgeo) hacc hcs32 hcs64 hu32 hfuelN hrange
        (fun m => by rw [htv3]; simp [updV]) ?_ (by rw [hepos]; exact hsb) (by rw [hepos, hsz3]; exact hsi)
        (by rw [hepos]; exact hsc) hr3)
      intro q h1 h2
      have := hfr3' q (by omega) (fun i hi hc => by have := (hslots i hi).2.2; omega) (fun hq => (hextra q hq).2 ⟨h1, h2⟩)
      simp only [Dev.disarm_img] at this
      rw [this]
      have hz := hal.zero q (by show clusterOff d1.fs c' ≤ q; rw [hfs1]; exact h1)
        (by show q < clusterOff d1.fs c' + d1.fs.clusterSize; rw [hfs1]; exact h2)
      simpa using hz
    · -- the fault fired inside a destructor of `write_entry`
      obtain ⟨f, hff⟩ := Option.ne_none_iff_exists'.mp hf3
      rcases hFO with h0 | ⟨hfa3, f', hf', him⟩
      · exact absurd h0 hf3
      rw [hff] at hf'
      cases hf'
      have hdrop : f.inDrop = true := by
        by_cases h : f.inDrop = true
        · exact h
        · have := him (by simpa using h)
          simp [resErr] at this
      exact FaultOutcome.toX (faultOutcome_spent _ hfa3 hff hdrop hr3)

/-- with the error of the `free_cluster_chain` roll-back tolerated -/
theorem createDir_fo (V : WView d.disarm st) (hd : d.fault = none) (hOK : FaultOK V) (env : Env) (path name : String)
    (hsp : Names.splitPath path = (name, none)) (hdot : (name = "." || name = "..") = false)
    (hval : Names.validateLongName name = .ok ()) (hla : d.fs.lfnAlloc = true)
    (hgeo : FileSim.Geo d.fs d.img.size) (hinfo : InfoOk d.fs d.img) (hacc : d.fs.accDate = false)
    (hcs32 : d.fs.clusterSize % 32 = 0) (hcs64 : 64 ≤ d.fs.clusterSize) (hu32 : d.fs.clusterSize < 4294967296)
    (hfuelN : d.fs.clusterSize / 32 < dirFuel d.fs) (a : List Nat)
    (hchk : DirAlias.checkForExistenceL env.upper (V.slots d.img) name (some true) 70000 = .ok (.alias a))
    (c : Nat) (hfind : allocFindV (tabView d.fs d.img) d.fs.fsInfo.next d.fs.totalClusters = some c)
    (hfit : DirSlots.findFree (V.slots d.img) (Lfn.numParts (Names.encodeUtf16 name.toList).length + 1) +
      (Lfn.numParts (Names.encodeUtf16 name.toList).length + 1) ≤ V.N)
    (hkeepA : ∀ d1 d2, SameVol d.disarm d1 → d1.clock = d.clock → AllocStep d1 d2 c → V.Inv d2)
    (hslots : ∀ i, i < V.N →
      (fatSliceOf d.fs).beginOff + (fatSliceOf d.fs).mirrors * (fatSliceOf d.fs).size ≤ V.src (32 * i) ∧
      V.src (32 * i) + 32 ≤ d.img.size ∧
      (V.src (32 * i) + 32 ≤ clusterOff d.fs c ∨ clusterOff d.fs c + d.fs.clusterSize ≤ V.src (32 * i)))
    (hextra : ∀ q, V.Extra q →
      (fatSliceOf d.fs).beginOff + (fatSliceOf d.fs).mirrors * (fatSliceOf d.fs).size ≤ q ∧
      ¬ (clusterOff d.fs c ≤ q ∧ q < clusterOff d.fs c + d.fs.clusterSize))
    (fuel : Nat) {r d'} (hr : run (FatVerif.createDir env (fuel + 1) st path) d = (r, d')) :
    FaultOutcomeX RollbackErr (resErr r) d' :=
  V.createDir_foX RollbackErr hd hOK env path name hsp hdot hval hla hgeo hinfo hacc hcs32 hcs64 hu32 hfuelN a hchk c hfind
    hfit hkeepA hslots hextra
    (fun _ d3 d4 _ _ f e _ _ _ _ _ _ hfa hff hfree _ _ _ _ => ⟨c, d3, d4, hfa, hff, hfree⟩) fuel hr

end WView

end FatVerif.DirSim
