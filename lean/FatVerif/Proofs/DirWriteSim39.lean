import FatVerif.Proofs.DirWriteSim38
/-! Directory WRITES, part 39: `create_dir(name)` on a full volume: `alloc_cluster` finds no free cluster,
    `NotEnoughSpace`, nothing changes. -/
namespace FatVerif.DirSim
open FatVerif.FileSim FatVerif.Fat DirEntryData DirAlias

namespace DirView
variable {d : Dev} {st : DirStream}

/-- **`create_dir(name)` without a free cluster**: the name is free, the allocator finds nothing: `NotEnoughSpace`;
    the volume is kept -/
theorem createDir_noSpace_sim (V : DirView d st) (ha : d.fs.lfnAlloc = true) (env : Env) (path name : String)
    (hsp : Names.splitPath path = (name, none)) (hdot : (name = "." || name = "..") = false)
    (hval : Names.validateLongName name = .ok ()) (a : List Nat) (h : V.check env name (some true) = .ok (.alias a))
    (hfa : d.failAt = none) (hwf : d.img.WF) (hgeo : Geo d.fs d.img.size) (hinfo : InfoOk d.fs d.img)
    (hfull : allocFindV (tabView d.fs d.img) d.fs.fsInfo.next d.fs.totalClusters = none) (fuel : Nat) :
    FailsV (createDir env (fuel + 1) st path) d .noSpace := by
  have hce := V.checkForExistence_sim ha env name (some true) d (SameVol.refl d)
  rw [h] at hce
  obtain ⟨d1, h1, hs1⟩ := hce
  rcases run_allocClusterFs_any none true d1 (by rw [hs1.failAt]; exact hfa) (by rw [hs1.img]; exact hwf)
      (by rw [hs1.fs, hs1.img]; exact hgeo) (by rw [hs1.fs, hs1.img]; exact hinfo) (fun p hp => by cases hp) with
    ⟨_, d2, h2, hs2⟩ | ⟨c, _, hsome, _⟩
  · refine ⟨d2, ?_, hs1.trans hs2.toVol⟩
    unfold FatVerif.createDir
    rw [run_bind_ok (run_getFs d), hsp]
    simp only
    rw [run_bind_ok h1]
    simp only [liftEOA, hdot, Bool.false_eq_true, if_false, liftE, hval]
    rw [run_bind_ok (rfl : run (pure () : Prog Unit) d1 = (.ok (), d1)), run_bind_error h2]
  · rw [hs1.fs, hs1.img, hfull] at hsome
    cases hsome

end DirView

end FatVerif.DirSim
