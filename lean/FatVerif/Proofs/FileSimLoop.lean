import FatVerif.Proofs.AFileLoops
/-!
# FileSim / loops: what the oracle's acceptance of ONE call says, in the form the loops `read_exact` / `write_all` need

Pure facts about the specification `ByteFile`; the loops themselves are composed in `Props/C02sim.lean`.
-/
namespace FatVerif.Cursor
namespace ByteFile

/-- an accepted single `read`: the bytes at the cursor, as many as the short-read rule says; the cursor moves past them -/
theorem of_checkRead {cs n : Nat} {l : List Nat} {b b' : ByteFile} (h : checkRead cs n l b = .ok b') :
    l.length = b.shortRead cs n ∧ l = (b.content.drop b.pos).take l.length ∧
    b' = { b with pos := b.pos + l.length } := by
  unfold checkRead at h
  split at h
  · cases h
  · rename_i h1
    split at h
    · cases h
    · rename_i h2
      split at h
      · cases h
      · rename_i h3
        have e1 : l.length = b.shortRead cs n := Decidable.not_not.mp h3
        have e2 : l = (b.read l.length).1 := Decidable.not_not.mp h2
        refine ⟨e1, e2, ?_⟩
        have := (Except.ok.inj h).symm
        rw [this]
        simp only [read]
        congr 1
        have : l.length ≤ b.remaining := by omega
        omega

/-- one iteration of `read_exact` in terms of the specification -/
theorem read_split (b : ByteFile) (need k : Nat) (hk : k ≤ need) (hk' : k ≤ b.remaining) :
    (b.content.drop b.pos).take k ++ (({ b with pos := b.pos + k } : ByteFile).read (need - k)).1 = (b.read need).1 ∧
    (need ≤ b.remaining → (({ b with pos := b.pos + k } : ByteFile).read (need - k)).2 = (b.read need).2) := by
  refine ⟨?_, fun hle => ?_⟩
  · simp only [read]
    exact take_drop_split _ _ _ _ hk
  · simp only [read, remaining] at *
    congr 1
    omega

/-- an accepted single `write` that returned a count -/
theorem of_checkWrite {cs k : Nat} {bs : List Nat} {b b' : ByteFile}
    (h : check cs (.write bs) (.count k) b = .ok b') :
    k = b.shortWrite cs bs.length ∧ b' = (b.write (bs.take k)).2 := by
  simp only [check] at h
  split at h
  · rename_i hk
    exact ⟨hk, (Except.ok.inj h).symm⟩
  · cases h

/-- an accepted single `write` that failed -/
theorem of_checkWriteErr {cs : Nat} {e : Err} {bs : List Nat} {b b' : ByteFile}
    (h : check cs (.write bs) (.err e) b = .ok b') :
    e = .noSpace ∧ b.pos % cs = 0 ∧ b.pos = b.content.length ∧ 0 < b.shortWrite cs bs.length ∧ b' = b := by
  cases e <;> simp only [check] at h <;> try (cases h)
  split at h
  · rename_i hc
    exact ⟨rfl, hc.1, hc.2.1, hc.2.2, (Except.ok.inj h).symm⟩
  · cases h

/-- a single `read` never reports an error -/
theorem of_checkReadErr {cs n : Nat} {e : Err} {b b' : ByteFile} (h : check cs (.read n) (.err e) b = .ok b') : False := by
  simp only [check] at h
  cases h

end ByteFile
end FatVerif.Cursor
