import FatVerif.Proofs.DirWriteSim30
/-! Directory WRITES, part 31: `rename` of a FILE from one writable directory into ANOTHER (`rename_internal(src, dst_dir,
    dst)` with a free destination name): `find_entry` in the source → `check_for_existence` in the destination →
    `write_entry(dst, renamed record)` in the destination → `deleteEntry(old entry)` in the source. -/
namespace FatVerif.DirSim
open FatVerif.FileSim FatVerif.Fat DirEntryData DirAlias

namespace WView
variable {d : Dev} {st1 st2 : DirStream}

/-- **`rename_internal` of a file between two directories** (`V1` source, `V2` destination, both writable on `d`).
    The new entry is written in the destination first (device `dm`), then the slots of the old entry are marked deleted
    in the source. Each step is described relative to the device before it — the two directories may be parent and
    child, in which case the destructor of one touches a slot of the other (its own entry: `Extra`, `MidImg`).
    `hkeep1`: the invariant of the source survives a write that keeps the FAT (`*.of_volStep`). -/
theorem rename_file_across_sim (V1 : WView d st1) (V2 : WView d st2) (env : Env) (srcName dstName : String)
    (hdots : (srcName = "." || srcName = ".." || dstName = "." || dstName = "..") = false)
    (hval : Names.validateLongName dstName = .ok ()) (ha : d.fs.lfnAlloc = true) (hgeo : Geo d.fs d.img.size)
    (le : LfnEntry)
    (hl : lookupL env.upper srcName.toList none (readDirEntries d.fs.lfnAlloc true (V1.slots d.img)) = .ok le)
    (hfile : Lfn.isDir le.sfn = false) (a : List Nat)
    (hchk : DirAlias.checkForExistenceL env.upper (V2.slots d.img) dstName none 70000 = .ok (.alias a))
    (hfit : DirSlots.findFree (V2.slots d.img) (Lfn.numParts (Names.encodeUtf16 dstName.toList).length + 1) +
      (Lfn.numParts (Names.encodeUtf16 dstName.toList).length + 1) ≤ V2.N)
    (hkeep1 : ∀ d2 d3, V1.Inv d2 → VolStep d2 d3 → d3.clock = d2.clock →
      tabView d3.fs d3.img = tabView d2.fs d2.img → V1.Inv d3)
    (hbehind2 : ∀ j, j < V2.N → (fatSliceOf d.fs).beginOff + (fatSliceOf d.fs).size ≤ V2.src (32 * j))
    (hextra2 : ∀ q, V2.Extra q → (fatSliceOf d.fs).beginOff + (fatSliceOf d.fs).size ≤ q) :
    ∃ dm d', run (renameInternal env st1 srcName st2 dstName) d = (.ok (), d') ∧
      VolStep d dm ∧ VolStep dm d' ∧ dm.clock = d.clock ∧ d'.clock = d.clock ∧ d'.fs.curDirty = true ∧
      V2.Inv dm ∧ V1.Inv d' ∧
      V2.slots dm.img = DirSlots.writeEntry (V2.slots d.img) (Names.encodeUtf16 dstName.toList)
        ((toDirEntryS V1.src le).data.renamed a).serialize ∧
      FrameOutE V2.N V2.src V2.Extra d dm ∧ MidImg V2.N V2.src V2.DropPost d dm ∧
      tabView dm.fs dm.img = tabView d.fs d.img ∧
      V1.slots d'.img = DirSlots.deleteRange (V1.slots dm.img) le.beginIdx le.endIdx ∧
      FrameOutE V1.N V1.src V1.Extra dm d' ∧ MidImg V1.N V1.src V1.DropPost dm d' := by
  obtain ⟨hmem, _, _⟩ := lookupL_ok _ _ _ _ _ hl
  have hslotok := srcEntries_slotOK _ _ _ _ _ le hmem
  have hbnd := readLoop_bounds d.fs.lfnAlloc true (V1.slots d.img) 0 0 _ (Nat.le_refl _) le hmem
  unfold WView.slots at hbnd
  rw [srcSlots_length, Nat.zero_add] at hbnd
  obtain ⟨k, hk⟩ : ∃ k, le.endIdx = le.beginIdx + k := ⟨le.endIdx - le.beginIdx, by omega⟩
  have hsfn : le.sfn.length = 32 ∧ ∀ b ∈ le.sfn, b < 256 := by
    have hm := readLoop_sfn_mem d.fs.lfnAlloc true _ _ _ _ le hmem
    simp only [WView.slots, srcSlots, List.mem_map] at hm
    obtain ⟨j, _, hj⟩ := hm
    rw [← hj]
    exact ⟨Img.read_length _ _ _, Img.read_lt _ _ _⟩
  -- 1. find_entry in the source
  have hfe := V1.toDirView.findEntry_sim env srcName none d (SameVol.refl d)
  have hlook : V1.toDirView.lookup env srcName none = .ok (toDirEntryS V1.src le) := by
    unfold DirView.lookup DirView.lfnEntries
    show (lookupL env.upper srcName.toList none (readDirEntries d.fs.lfnAlloc true (srcSlots d.img V1.src V1.N))).map _ = _
    have : srcSlots d.img V1.src V1.N = V1.slots d.img := rfl
    rw [this, hl]; rfl
  rw [hlook] at hfe
  obtain ⟨d1, h1, hs1⟩ := hfe
  have hc1 : d1.clock = d.clock := run_clock _ _ _ _ h1
  have hisdir : (toDirEntryS V1.src le).isDir = false := by
    rw [toDirEntryS_isDir V1.src le hslotok]; exact hfile
  -- 2. check_for_existence in the destination
  have hce := (V2.ops.dsrc d V2.here).checkForExistence_sim (V2.ops.fuel d V2.here) ha env dstName none d1 hs1
  have hsl0 : srcSlots d.img V2.src V2.N = V2.slots d.img := rfl
  rw [hsl0, hchk] at hce
  obtain ⟨d2, h2, hs2⟩ := hce
  have hc2 : d2.clock = d1.clock := run_clock _ _ _ _ h2
  have hv02 := hs1.trans hs2
  have hinv2 : V2.Inv d2 := V2.io.vol d d2 V2.here hv02 (hc2.trans hc1)
  have hinv1 : V1.Inv d2 := V1.io.vol d d2 V1.here hv02 (hc2.trans hc1)
  -- 3. write_entry of the renamed record in the destination
  obtain ⟨hcan, hl11, _⟩ := C16dir.dir_alias_canon env.upper (V2.slots d.img) dstName none 70000 a hchk
  have hdwf : (toDirEntryS V1.src le).data.WF := deserializeFile_wf le.sfn hsfn.1 hsfn.2
  have hrawwf : ((toDirEntryS V1.src le).data.renamed a).WF := hdwf.renamed a hl11 (canon_lt hcan)
  have hattr : ((toDirEntryS V1.src le).data.renamed a).attrs = attrsTruncate (DirEntryData.u8At le.sfn 11) := rfl
  have hlfn : attrsIsLfn ((toDirEntryS V1.src le).data.renamed a).attrs = false := by
    rw [hattr, deser_lfn le.sfn hslotok.2]
    exact readLoop_sfn_notLfn d.fs.lfnAlloc true _ _ _ _ le hmem
  have hdotd : (dstName = "." || dstName = "..") = false := by
    simp only [Bool.or_eq_false_iff] at hdots ⊢
    exact ⟨hdots.1.2, hdots.2⟩
  have hsl2 : V2.slots d2.img = V2.slots d.img := by unfold WView.slots; rw [hv02.img]
  obtain ⟨d3, h3, hs3, hd3, hinv3, hsl3, hfr3, hmid3⟩ := (V2.step hinv2).writeEntry_sim dstName _ hval hdotd hrawwf hlfn
    (by show DirSlots.findFree (V2.slots d2.img) _ + _ ≤ V2.N
        rw [hsl2]; exact hfit)
  have hc3 : d3.clock = d2.clock := run_clock _ _ _ _ h3
  have hfr3' : FrameOutE V2.N V2.src V2.Extra d2 d3 := hfr3
  have hmid3' : MidImg V2.N V2.src V2.DropPost d2 d3 := hmid3
  have hsl3' : V2.slots d3.img = DirSlots.writeEntry (V2.slots d.img) (Names.encodeUtf16 dstName.toList)
      ((toDirEntryS V1.src le).data.renamed a).serialize := by
    have e1 : (V2.step hinv2).slots d3.img = V2.slots d3.img := rfl
    have e2 : (V2.step hinv2).slots d2.img = V2.slots d.img := hsl2
    rw [← e1, hsl3, e2]
  have hagree : FatAgree d2.fs d2.img d3.img :=
    fatAgree_of_frameE hfr3' d2.fs (by rw [hv02.fs]; exact hgeo.status_lt)
      (fun j hj => by rw [hv02.fs]; exact hbehind2 j hj) (fun q hq => by rw [hv02.fs]; exact hextra2 q hq)
  have htv3 : tabView d3.fs d3.img = tabView d2.fs d2.img := by
    rw [hs3.geom.tabView, tabView_congr (sz := d2.img.size) (by rw [hv02.fs, hv02.img]; exact hgeo) hagree]
  have hinv1_3 : V1.Inv d3 := hkeep1 d2 d3 hinv1 hs3 hc3 htv3
  -- 4. deleteEntry of the old entry in the source
  obtain ⟨d4, h4, hs4, hd4, hinv4, hsl4, hfr4, hmid4⟩ := (V1.step hinv1_3).deleteEntry_range (toDirEntryS V1.src le)
    le.beginIdx k (by have := hbnd.2.1; omega) rfl (by simp only [toDirEntryS]; rw [hk])
    (by show le.beginIdx + k ≤ V1.N; have := hbnd.2.2; omega)
  refine ⟨d3, d4, ?_, (VolStep.of_sameVol hv02).trans hs3, hs4, hc3.trans (hc2.trans hc1),
    (run_clock _ _ _ _ h4).trans (hc3.trans (hc2.trans hc1)), hd4, hinv3, hinv4, hsl3',
    fun q hq hn he => by rw [hfr3' q hq hn he, hv02.img], ?_, by rw [htv3, hv02.fs, hv02.img], ?_, hfr4, hmid4⟩
  · unfold renameInternal
    rw [if_neg (by rw [hdots]; decide)]
    rw [run_bind_ok (run_getFs d), run_bind_ok h1]
    simp only [id, liftE, hval, hisdir, Bool.false_eq_true, if_false]
    rw [run_bind_ok (rfl : run (pure () : Prog Unit) d1 = (.ok (), d1))]
    have h2' : run (checkForExistence env st2 dstName none) d1 = (.ok (liftEOA V2.src (.alias a)), d2) :=
      (congrArg (fun s => run (checkForExistence env s dstName none) d1) V2.start).trans h2
    rw [run_bind_ok h2']
    simp only [liftEOA]
    rw [run_bind_ok h3, run_bind_ok h4]
    have hnew : (toDirEntryS (V2.step hinv2).src
        ⟨((toDirEntryS V1.src le).data.renamed a).serialize, Names.encodeUtf16 dstName.toList,
          DirSlots.findFree ((V2.step hinv2).slots d2.img) (Lfn.numParts (Names.encodeUtf16 dstName.toList).length + 1),
          DirSlots.findFree ((V2.step hinv2).slots d2.img) (Lfn.numParts (Names.encodeUtf16 dstName.toList).length + 1) +
            (Lfn.numParts (Names.encodeUtf16 dstName.toList).length + 1)⟩).isDir = false := by
      have hd' := writeEntry_result (V2.step hinv2).src _ hrawwf hlfn (Names.encodeUtf16 dstName.toList)
        (DirSlots.findFree ((V2.step hinv2).slots d2.img) (Lfn.numParts (Names.encodeUtf16 dstName.toList).length + 1))
        (Lfn.numParts (Names.encodeUtf16 dstName.toList).length + 1) (by omega)
      rw [← hd']
      exact hisdir
    rw [hnew]
    rfl
  · obtain ⟨im, him1, him2⟩ := hmid3'
    exact ⟨im, fun q hq hn => by rw [him1 q hq hn, hv02.img], him2⟩
  · have e1 : (V1.step hinv1_3).slots d4.img = V1.slots d4.img := rfl
    have e2 : (V1.step hinv1_3).slots d3.img = V1.slots d3.img := rfl
    rw [← e1, hsl4, e2, hk]

/-- **`rename_internal` of a file between two directories that lie apart** (neither is the parent of the other: the
    slots of each are disjoint from the slots and the own entry of the other): afterwards the source has the old entry
    deleted, the destination has the new entry, the FAT is unchanged -/
theorem rename_file_apart_sim (V1 : WView d st1) (V2 : WView d st2) (env : Env) (srcName dstName : String)
    (hdots : (srcName = "." || srcName = ".." || dstName = "." || dstName = "..") = false)
    (hval : Names.validateLongName dstName = .ok ()) (ha : d.fs.lfnAlloc = true) (hgeo : Geo d.fs d.img.size)
    (le : LfnEntry)
    (hl : lookupL env.upper srcName.toList none (readDirEntries d.fs.lfnAlloc true (V1.slots d.img)) = .ok le)
    (hfile : Lfn.isDir le.sfn = false) (a : List Nat)
    (hchk : DirAlias.checkForExistenceL env.upper (V2.slots d.img) dstName none 70000 = .ok (.alias a))
    (hfit : DirSlots.findFree (V2.slots d.img) (Lfn.numParts (Names.encodeUtf16 dstName.toList).length + 1) +
      (Lfn.numParts (Names.encodeUtf16 dstName.toList).length + 1) ≤ V2.N)
    (hkeep1 : ∀ d2 d3, V1.Inv d2 → VolStep d2 d3 → d3.clock = d2.clock →
      tabView d3.fs d3.img = tabView d2.fs d2.img → V1.Inv d3)
    (hkeep2 : ∀ d2 d3, V2.Inv d2 → VolStep d2 d3 → d3.clock = d2.clock →
      tabView d3.fs d3.img = tabView d2.fs d2.img → V2.Inv d3)
    (hbehind1 : ∀ j, j < V1.N → (fatSliceOf d.fs).beginOff + (fatSliceOf d.fs).size ≤ V1.src (32 * j))
    (hextra1 : ∀ q, V1.Extra q → (fatSliceOf d.fs).beginOff + (fatSliceOf d.fs).size ≤ q)
    (hbehind2 : ∀ j, j < V2.N → (fatSliceOf d.fs).beginOff + (fatSliceOf d.fs).size ≤ V2.src (32 * j))
    (hextra2 : ∀ q, V2.Extra q → (fatSliceOf d.fs).beginOff + (fatSliceOf d.fs).size ≤ q)
    (h12 : ∀ i, i < V1.N → ∀ x, x < 32 → ¬ V2.Extra (V1.src (32 * i) + x) ∧
      ∀ j, j < V2.N → ¬ (V2.src (32 * j) ≤ V1.src (32 * i) + x ∧ V1.src (32 * i) + x < V2.src (32 * j) + 32))
    (h21 : ∀ i, i < V2.N → ∀ x, x < 32 → ¬ V1.Extra (V2.src (32 * i) + x) ∧
      ∀ j, j < V1.N → ¬ (V1.src (32 * j) ≤ V2.src (32 * i) + x ∧ V2.src (32 * i) + x < V1.src (32 * j) + 32)) :
    ∃ d', run (renameInternal env st1 srcName st2 dstName) d = (.ok (), d') ∧
      VolStep d d' ∧ d'.fs.curDirty = true ∧ V1.Inv d' ∧ V2.Inv d' ∧
      V1.slots d'.img = DirSlots.deleteRange (V1.slots d.img) le.beginIdx le.endIdx ∧
      V2.slots d'.img = DirSlots.writeEntry (V2.slots d.img) (Names.encodeUtf16 dstName.toList)
        ((toDirEntryS V1.src le).data.renamed a).serialize ∧
      tabView d'.fs d'.img = tabView d.fs d.img := by
  obtain ⟨dm, d', hr, hs1, hs2, hcm, hc', hd, hinv2, hinv1, hsl2, hfr2, _, htv, hsl1, hfr1, _⟩ :=
    V1.rename_file_across_sim V2 env srcName dstName hdots hval ha hgeo le hl hfile a hchk hfit hkeep1 hbehind2 hextra2
  have hgm : Geo dm.fs dm.img.size := by rw [hs1.size]; exact hgeo.frame hs1.geom
  have hagree : FatAgree dm.fs dm.img d'.img :=
    fatAgree_of_frameE hfr1 dm.fs (by rw [hs1.geom.fatSlice]; exact hgeo.status_lt)
      (fun j hj => by rw [hs1.geom.fatSlice]; exact hbehind1 j hj) (fun q hq => by rw [hs1.geom.fatSlice]; exact hextra1 q hq)
  have htv' : tabView d'.fs d'.img = tabView dm.fs dm.img := by rw [hs2.geom.tabView, tabView_congr hgm hagree]
  have e1 : V1.slots dm.img = V1.slots d.img :=
    srcSlots_frameE hfr2 V1.src V1.N (fun i hi x hx => by
      have := V1.geo.behind i hi
      exact ⟨by omega, (h12 i hi x hx).1, (h12 i hi x hx).2⟩)
  have e2 : V2.slots d'.img = V2.slots dm.img :=
    srcSlots_frameE hfr1 V2.src V2.N (fun i hi x hx => by
      have := V2.geo.behind i hi
      exact ⟨by omega, (h21 i hi x hx).1, (h21 i hi x hx).2⟩)
  exact ⟨d', hr, hs1.trans hs2, hd, hinv1, hkeep2 dm d' hinv2 hs2 (hc'.trans hcm.symm) htv', by rw [hsl1, e1],
    by rw [e2, hsl2], by rw [htv', htv]⟩

end WView

end FatVerif.DirSim
