import FatVerif.Proofs.SlotTreeRename2
/-!
# Slot trees: the hypothesis `QAll` from an invariant

`QAll t q` (every entry answering to `q` answers by its name, and `q` is then an ordinary valid name) bundles two
things.  This file separates them:

* `NoAliasHit up t q` — the inherent part: `q` answers to no 8.3 alias anywhere in `t`;
* "then valid, not `.`/`..`" — follows from an INVARIANT of the tree (`TNamesOk (abs t)`: every stored name passes
  `validate_long_name` and is not a dot name; true of the empty volume and preserved by every call, `tnames_evalOp`)
  and a hypothesis on the build's case folding (`UpperSafe`: names with equal folding are equally valid, and only
  `.`/`..` fold like `.`/`..`).
-/
namespace FatVerif
namespace SlotTree
open Lfn DirSlots DirAlias

/-- hypothesis on the build's case folding -/
structure UpperSafe (up : Char → List Char) : Prop where
  valid : ∀ a b : List Char, Names.fold up a = Names.fold up b → Names.validateLongNameL a = .ok () →
    Names.validateLongNameL b = .ok ()
  dot : ∀ a : List Char, Names.fold up a = Names.fold up ['.'] → a = ['.']
  dotdot : ∀ a : List Char, Names.fold up a = Names.fold up ['.', '.'] → a = ['.', '.']

/-- an ordinary stored name -/
def GoodName (nm : String) : Prop := Names.validateLongName nm = .ok () ∧ isDotName nm = false

/-! ## the invariant on specification trees -/

mutual
def TNamesOk : Spec.TNode → Prop
  | .file _ => True
  | .dir ch => tChOk ch
def tChOk : List (String × Spec.TNode) → Prop
  | [] => True
  | (nm, c) :: r => GoodName nm ∧ TNamesOk c ∧ tChOk r
end

theorem tChOk_iff (ch : List (String × Spec.TNode)) : tChOk ch ↔ ∀ x ∈ ch, GoodName x.1 ∧ TNamesOk x.2 := by
  induction ch with
  | nil => simp [tChOk]
  | cons x r ih =>
    obtain ⟨nm, c⟩ := x
    simp only [tChOk, ih, List.mem_cons, forall_eq_or_imp, and_assoc]

theorem tnames_dir (ch : List (String × Spec.TNode)) :
    TNamesOk (.dir ch) ↔ ∀ x ∈ ch, GoodName x.1 ∧ TNamesOk x.2 := by
  rw [TNamesOk, tChOk_iff]

theorem tnames_file (b : ByteArray) : TNamesOk (.file b) := by simp [TNamesOk]

theorem tnames_find (cfg : Spec.TreeCfg) (n : Spec.TNode) (h : TNamesOk n) (q nm : String) (c : Spec.TNode)
    (hf : Spec.findEntry cfg n q = some (nm, c)) : GoodName nm ∧ TNamesOk c := by
  unfold Spec.findEntry at hf
  cases n with
  | file b => simp [Spec.TNode.children] at hf
  | dir ch => exact (tnames_dir ch).1 h _ (List.mem_of_find?_eq_some hf)

theorem tnames_getAt (cfg : Spec.TreeCfg) : ∀ (p : List String) (s n : Spec.TNode), TNamesOk s →
    Spec.getAt cfg s p = some n → TNamesOk n
  | [], s, n, h, hg => by simp [Spec.getAt] at hg; rw [← hg]; exact h
  | q :: r, s, n, h, hg => by
    simp only [Spec.getAt] at hg
    split at hg
    · rename_i nm c hf
      exact tnames_getAt cfg r c n (tnames_find cfg s h q nm c hf).2 hg
    · cases hg

theorem tnames_updateAt (cfg : Spec.TreeCfg) (F : Spec.TNode → Spec.TNode)
    (hF : ∀ n, TNamesOk n → TNamesOk (F n)) : ∀ (p : List String) (s : Spec.TNode), TNamesOk s →
    TNamesOk (Spec.updateAt cfg F p s)
  | [], s, h => hF s h
  | q :: r, .file b, _ => tnames_file b
  | q :: r, .dir ch, h => by
    simp only [Spec.updateAt]
    rw [tnames_dir] at h ⊢
    intro y hy
    obtain ⟨x, hx, rfl⟩ := List.mem_map.1 hy
    obtain ⟨nm, c⟩ := x
    simp only
    split
    · exact ⟨(h _ hx).1, tnames_updateAt cfg F hF r c (h _ hx).2⟩
    · exact h _ hx

theorem tnames_insert (given : String) (c s : Spec.TNode) (hg : GoodName given) (hc : TNamesOk c)
    (hs : TNamesOk s) : TNamesOk (Spec.insertChild given c s) := by
  cases s with
  | file b => exact tnames_file b
  | dir ch =>
    simp only [Spec.insertChild]
    rw [tnames_dir] at hs ⊢
    intro x hx
    rcases List.mem_append.1 hx with hx | hx
    · exact hs x hx
    · simp only [List.mem_singleton] at hx
      rw [hx]; exact ⟨hg, hc⟩

theorem tnames_erase (cfg : Spec.TreeCfg) (nm : String) (s : Spec.TNode) (hs : TNamesOk s) :
    TNamesOk (Spec.eraseChild cfg nm s) := by
  cases s with
  | file b => exact tnames_file b
  | dir ch =>
    simp only [Spec.eraseChild]
    rw [tnames_dir] at hs ⊢
    intro x hx
    exact hs x (List.mem_filter.1 hx).1

variable (u : Char → List Char)

/-- what `resolveParent` hands out for an ordinary final component -/
theorem resolveParent_entry (s : Spec.TNode) (hs : TNamesOk s) (cwd : List String) (path : String)
    (parent : List String) (given : String) (ex : Option (String × Spec.TNode))
    (h : Spec.resolveParent (cfgOf u) s cwd path = .ok (.entry parent given ex)) :
    (given = "" ∨ isDotName given = false) ∧ ∀ nm c, ex = some (nm, c) → TNamesOk c := by
  unfold Spec.resolveParent at h
  simp only at h
  split at h
  · simp only [Except.ok.injEq, Spec.Final.entry.injEq] at h
    obtain ⟨_, h2, h3⟩ := h
    exact ⟨Or.inl h2.symm, fun nm c hc => by rw [← h3] at hc; cases hc⟩
  · rename_i last _
    split at h
    · cases h
    · rename_i p _
      split at h
      · split at h <;> cases h
      · rename_i hdot
        split at h
        · rename_i d hd
          simp only [Except.ok.injEq, Spec.Final.entry.injEq] at h
          obtain ⟨_, h2, h3⟩ := h
          refine ⟨Or.inr ?_, ?_⟩
          · rw [← h2, ← spec_isDot_eq]; simpa using hdot
          · intro nm c hc
            rw [← h3] at hc
            exact (tnames_find _ d (tnames_getAt _ p s d hs hd) last nm c hc).2
        · cases h

theorem goodName_of_valid (given : String) (h1 : given = "" ∨ isDotName given = false)
    (hv : (cfgOf u).validName given = none) : GoodName given := by
  have hval : Names.validateLongName given = .ok () := by
    rw [validName_eq] at hv
    cases hx : Names.validateLongName given with
    | ok x => rfl
    | error e => rw [hx] at hv; cases hv
  refine ⟨hval, ?_⟩
  rcases h1 with h | h
  · rw [h, validate_empty] at hval; cases hval
  · exact h

/-- **the invariant is preserved**: whatever the specification's verdict, its tree has only ordinary valid names -/
theorem tnames_evalOp (s : Spec.TNode) (hs : TNamesOk s) (op : Spec.Op) :
    TNamesOk (Spec.evalOp (cfgOf u) s op).tree := by
  cases op with
  | openFile cwd p =>
    simp only [Spec.evalOp, Spec.evalOpen]
    repeat' split
    all_goals exact hs
  | openDir cwd p =>
    simp only [Spec.evalOp, Spec.evalOpen]
    repeat' split
    all_goals exact hs
  | list cwd =>
    simp only [Spec.evalOp, Spec.evalList]
    repeat' split
    all_goals exact hs
  | remove cwd p =>
    simp only [Spec.evalOp, Spec.evalRemove]
    repeat' split
    all_goals first
      | exact hs
      | exact tnames_updateAt _ _ (fun n hn => tnames_erase _ _ n hn) _ s hs
  | createFile cwd p =>
    simp only [Spec.evalOp, Spec.evalCreate]
    split
    · exact hs
    · exact hs
    · split <;> exact hs
    · split <;> exact hs
    · rename_i parent given hrp
      split
      · exact hs
      · rename_i hne
        split
        · exact hs
        · rename_i hv
          have h1 := (resolveParent_entry u s hs cwd p parent given none hrp).1
          refine tnames_updateAt _ _ (fun n hn => tnames_insert given _ n (goodName_of_valid u given h1 hv) ?_ hn) _ s hs
          simp [TNamesOk]
  | createDir cwd p =>
    simp only [Spec.evalOp, Spec.evalCreate]
    split
    · exact hs
    · exact hs
    · split <;> exact hs
    · split <;> exact hs
    · rename_i parent given hrp
      split
      · exact hs
      · rename_i hne
        split
        · exact hs
        · rename_i hv
          have h1 := (resolveParent_entry u s hs cwd p parent given none hrp).1
          refine tnames_updateAt _ _ (fun n hn => tnames_insert given _ n (goodName_of_valid u given h1 hv) ?_ hn) _ s hs
          simp [TNamesOk, Spec.TNode.emptyDir, tChOk]
  | rename cwd src dcwd dst =>
    simp only [Spec.evalOp]
    rw [evalRename_eq]
    cases hsr : srcROf (Spec.resolveParent (cfgOf u) s cwd src) with
    | error a =>
      cases hdr : dstROf (cfgOf u) (Spec.resolveParent (cfgOf u) s dcwd dst) with
      | error b => exact hs
      | ok r => exact hs
    | ok r =>
      obtain ⟨sp, snm, node⟩ := r
      cases hdr : dstROf (cfgOf u) (Spec.resolveParent (cfgOf u) s dcwd dst) with
      | error b => exact hs
      | ok r2 =>
        obtain ⟨dp, given, ex⟩ := r2
        have hnode : TNamesOk node := by
          unfold srcROf at hsr
          split at hsr
          · cases hsr
          · cases hsr
          · cases hsr
          · cases hsr
          · rename_i parent g nm c hrp
            simp only [Except.ok.injEq, Prod.mk.injEq] at hsr
            rw [← hsr.2.2]
            exact (resolveParent_entry u s hs cwd src parent g _ hrp).2 nm c rfl
        cases ex with
        | some dnm =>
          simp only [renameDecide]
          repeat' split
          all_goals exact hs
        | none =>
          have hgood : GoodName given := by
            unfold dstROf at hdr
            split at hdr
            · cases hdr
            · cases hdr
            · cases hdr
            · rename_i parent g hrp
              split at hdr
              · cases hdr
              · split at hdr
                · cases hdr
                · rename_i hv
                  simp only [Except.ok.injEq, Prod.mk.injEq] at hdr
                  rw [← hdr.2.1]
                  exact goodName_of_valid u g (resolveParent_entry u s hs dcwd dst parent g none hrp).1 hv
            · simp only [Except.ok.injEq, Prod.mk.injEq] at hdr
              cases hdr.2.2
          simp only [renameDecide]
          split
          · exact hs
          · exact tnames_updateAt _ _ (fun n hn => tnames_insert given node n hgood hnode hn) _ _
              (tnames_updateAt _ _ (fun n hn => tnames_erase _ _ n hn) _ s hs)

/-! ## from the specification tree back to the slot tree -/

/-- every listed entry of every directory has an ordinary valid name -/
def NamesOk (slots : List (List Nat)) (_ : List (LfnEntry × Node)) : Prop :=
  ∀ e ∈ listing slots, GoodName (entryName e)

mutual
theorem namesOk_of_abs (up : Char → List Char) : ∀ t : Node, TreeWf up t → TNamesOk (abs t) → t.All NamesOk
  | .file _, _, _ => by simp [Node.All]
  | .dir s ch, hwf, hn => by
    have hd : DirOk up s ch := by
      unfold TreeWf Node.All at hwf; exact hwf.1
    have hwc : allCh (DirOk up) ch := by
      unfold TreeWf Node.All at hwf; exact hwf.2
    have hnc : tChOk (absCh ch) := by
      unfold abs TNamesOk at hn; exact hn
    unfold Node.All
    refine ⟨?_, namesOkCh_of_abs up ch hwc hnc⟩
    intro e he
    obtain ⟨c, hc⟩ := hd.child_exists he
    have := (tChOk_iff _).1 hnc (entryName e, abs c) (by
      rw [absCh_eq_map]; exact List.mem_map.2 ⟨(e, c), hc, rfl⟩)
    exact this.1
theorem namesOkCh_of_abs (up : Char → List Char) : ∀ ch : List (LfnEntry × Node), allCh (DirOk up) ch →
    tChOk (absCh ch) → allCh NamesOk ch
  | [], _, _ => by simp [allCh]
  | (e, c) :: r, hwf, hn => by
    unfold allCh at hwf ⊢
    unfold absCh tChOk at hn
    exact ⟨namesOk_of_abs up c hwf.1 hn.2.1, namesOkCh_of_abs up r hwf.2 hn.2.2⟩
end

mutual
theorem all_mp2 {P Q R : List (List Nat) → List (LfnEntry × Node) → Prop}
    (h : ∀ s ch, P s ch → Q s ch → R s ch) : ∀ t : Node, t.All P → t.All Q → t.All R
  | .file _, _, _ => by simp [Node.All]
  | .dir s ch, hp, hq => by
    unfold Node.All at hp hq ⊢
    exact ⟨h s ch hp.1 hq.1, allCh_mp2 h ch hp.2 hq.2⟩
theorem allCh_mp2 {P Q R : List (List Nat) → List (LfnEntry × Node) → Prop}
    (h : ∀ s ch, P s ch → Q s ch → R s ch) : ∀ ch : List (LfnEntry × Node), allCh P ch → allCh Q ch → allCh R ch
  | [], _, _ => by simp [allCh]
  | (e, c) :: r, hp, hq => by
    unfold allCh at hp hq ⊢
    exact ⟨all_mp2 h c hp.1 hq.1, allCh_mp2 h r hp.2 hq.2⟩
end

/-- `q` answers to no alias anywhere in the tree -/
def NoAliasHit (up : Char → List Char) (t : Node) (q : String) : Prop := t.All fun s _ => NameHitOnly up s q

theorem isDotName_toList (q : String) (h : isDotName q = true) : q.toList = ['.'] ∨ q.toList = ['.', '.'] := by
  rcases (isDotName_iff q).1 h with h | h <;> rw [h]
  · left; rfl
  · right; rfl

/-- **`QAll` from the invariant**: alias-freeness is the only hypothesis on the query itself -/
theorem qall_of (up : Char → List Char) (hup : UpperSafe up) (t : Node) (hwf : TreeWf up t)
    (hn : TNamesOk (abs t)) (q : String) (hq : NoAliasHit up t q) : QAll up t q := by
  refine all_mp2 ?_ t (namesOk_of_abs up t hwf hn) hq
  intro s ch hnames hhit e he hm
  have hf := hhit e he hm
  obtain ⟨g1, g2⟩ := hnames e he
  refine ⟨hf, ?_, ?_⟩
  · have := hup.valid (entryNameL e) q.toList hf (by rw [← entryName_toList]; exact g1)
    exact this
  · cases hd : isDotName q with
    | false => rfl
    | true =>
      exfalso
      have hne : isDotName (entryName e) = true := by
        rcases isDotName_toList q hd with h | h
        · rw [h] at hf
          have := hup.dot _ hf
          unfold entryName; rw [this]; rfl
        · rw [h] at hf
          have := hup.dotdot _ hf
          unfold entryName; rw [this]; rfl
      rw [g2] at hne; cases hne

/-! ## the ASCII build's case folding is `UpperSafe` -/

def gA (c : Char) : Char := if 97 ≤ c.toNat ∧ c.toNat ≤ 122 then Char.ofNat (c.toNat - 32) else c

theorem toUpper_of_not_lower (c : Char) (h : ¬ (97 ≤ c.toNat ∧ c.toNat ≤ 122)) : c.toUpper = c := by
  unfold Char.toUpper
  split
  · rename_i h'
    exfalso
    apply h
    have h1 := UInt32.le_iff_toNat_le.1 h'.1
    have h2 := UInt32.le_iff_toNat_le.1 h'.2
    exact ⟨h1, h2⟩
  · rfl

theorem up0_lower : ∀ n, n < 123 → 97 ≤ n →
    upOf Names.upperAscii (Char.ofNat n) = [gA (Char.ofNat n)] := by decide +kernel

theorem up0_eq (c : Char) : upOf Names.upperAscii c = [gA c] := by
  by_cases h : 97 ≤ c.toNat ∧ c.toNat ≤ 122
  · have := up0_lower c.toNat (by omega) h.1
    rwa [Char.ofNat_toNat] at this
  · unfold upOf Names.upperAscii Names.asciiUpper gA
    simp only [h, if_false, Char.ofNat_toNat, List.map_cons, List.map_nil]
    rw [toUpper_of_not_lower c h]

def Letter (n : Nat) : Prop := (65 ≤ n ∧ n ≤ 90) ∨ (97 ≤ n ∧ n ≤ 122)

theorem gA_lower_fin : ∀ n, n < 123 → 97 ≤ n → (gA (Char.ofNat n)).toNat = n - 32 := by decide +kernel

theorem gA_toNat (c : Char) :
    (gA c).toNat = if 97 ≤ c.toNat ∧ c.toNat ≤ 122 then c.toNat - 32 else c.toNat := by
  by_cases h : 97 ≤ c.toNat ∧ c.toNat ≤ 122
  · have := gA_lower_fin c.toNat (by omega) h.1
    rw [Char.ofNat_toNat] at this
    rw [this, if_pos h]
  · unfold gA; rw [if_neg h, if_neg h]

theorem char_eq_of_toNat {c d : Char} (h : c.toNat = d.toNat) : c = d := by
  rw [← Char.ofNat_toNat c, ← Char.ofNat_toNat d, h]

theorem gA_eq_imp (c d : Char) (h : gA c = gA d) : c = d ∨ (Letter c.toNat ∧ Letter d.toNat) := by
  have := congrArg Char.toNat h
  rw [gA_toNat, gA_toNat] at this
  unfold Letter
  by_cases hc : 97 ≤ c.toNat ∧ c.toNat ≤ 122 <;> by_cases hd : 97 ≤ d.toNat ∧ d.toNat ≤ 122
  · rw [if_pos hc, if_pos hd] at this
    exact Or.inl (char_eq_of_toNat (by omega))
  · rw [if_pos hc, if_neg hd] at this
    exact Or.inr ⟨Or.inr hc, Or.inl (by omega)⟩
  · rw [if_neg hc, if_pos hd] at this
    exact Or.inr ⟨Or.inl (by omega), Or.inr hd⟩
  · rw [if_neg hc, if_neg hd] at this
    exact Or.inl (char_eq_of_toNat this)

theorem ascii_size : ∀ n, n < 128 → (Char.ofNat n).utf8Size = 1 := by decide +kernel

theorem letter_facts (c : Char) (h : Letter c.toNat) : c.utf8Size = 1 ∧ Names.InCharset c := by
  constructor
  · have := ascii_size c.toNat (by unfold Letter at h; omega)
    rwa [Char.ofNat_toNat] at this
  · unfold Names.InCharset Names.forbiddenLong
    unfold Letter at h
    refine ⟨by omega, by omega, by omega, ?_⟩
    simp only [List.mem_cons, List.not_mem_nil, or_false, not_or]
    omega

theorem fold_up0 (a : List Char) : Names.fold (upOf Names.upperAscii) a = a.map gA := by
  unfold Names.fold
  induction a with
  | nil => rfl
  | cons c cs ih => simp only [List.flatMap_cons, up0_eq, ih, List.map_cons, List.singleton_append]

theorem map_gA_eq : ∀ a b : List Char, a.map gA = b.map gA →
    Names.utf8Len a = Names.utf8Len b ∧ ((∀ c ∈ a, Names.InCharset c) → ∀ d ∈ b, Names.InCharset d)
  | [], [], _ => ⟨rfl, fun _ _ hd => by simp at hd⟩
  | [], _ :: _, h => by simp at h
  | _ :: _, [], h => by simp at h
  | c :: cs, d :: ds, h => by
    simp only [List.map_cons, List.cons.injEq] at h
    obtain ⟨i1, i2⟩ := map_gA_eq cs ds h.2
    have hcd : c.utf8Size = d.utf8Size ∧ (Names.InCharset c → Names.InCharset d) := by
      rcases gA_eq_imp c d h.1 with rfl | ⟨l1, l2⟩
      · exact ⟨rfl, id⟩
      · exact ⟨by rw [(letter_facts c l1).1, (letter_facts d l2).1], fun _ => (letter_facts d l2).2⟩
    refine ⟨by simp only [Names.utf8Len, hcd.1, i1], ?_⟩
    intro ha x hx
    rcases List.mem_cons.1 hx with rfl | hx
    · exact hcd.2 (ha c (by simp))
    · exact i2 (fun y hy => ha y (by simp [hy])) x hx

/-- the ASCII build's case folding satisfies `UpperSafe` -/
theorem upperSafe_ascii : UpperSafe (upOf Names.upperAscii) := by
  refine ⟨?_, ?_, ?_⟩
  · intro a b h hv
    rw [fold_up0, fold_up0] at h
    obtain ⟨i1, i2⟩ := map_gA_eq a b h
    rw [Names.validateL_ok_iff] at hv ⊢
    exact ⟨by omega, by omega, i2 hv.2.2⟩
  · intro a h
    rw [fold_up0, fold_up0] at h
    cases a with
    | nil => simp at h
    | cons c cs =>
      cases cs with
      | cons _ _ => simp at h
      | nil =>
        simp only [List.map_cons, List.map_nil, List.cons.injEq, and_true] at h
        rcases gA_eq_imp c '.' h with rfl | ⟨_, l2⟩
        · rfl
        · exact absurd l2 (by unfold Letter; decide)
  · intro a h
    rw [fold_up0, fold_up0] at h
    cases a with
    | nil => simp at h
    | cons c cs =>
      cases cs with
      | nil => simp at h
      | cons d ds =>
        cases ds with
        | cons _ _ => simp at h
        | nil =>
          simp only [List.map_cons, List.map_nil, List.cons.injEq, and_true] at h
          have e1 : c = '.' := by
            rcases gA_eq_imp c '.' h.1 with r | ⟨_, l2⟩
            · exact r
            · exact absurd l2 (by unfold Letter; decide)
          have e2 : d = '.' := by
            rcases gA_eq_imp d '.' h.2 with r | ⟨_, l2⟩
            · exact r
            · exact absurd l2 (by unfold Letter; decide)
          rw [e1, e2]

end SlotTree
end FatVerif
