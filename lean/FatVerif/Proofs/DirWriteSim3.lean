import FatVerif.Proofs.DirWriteSim2
/-! Directory WRITES, part 3: `find_free_entries` on a directory stream = `DirSlots.findFree` on the slots of the image
    (generic over `DirSrc`, given that the stream answers `seek(Start(_))`; instance: the fixed root). -/
namespace FatVerif.DirSim
open DirEntryData

theorem findFreeLoop_le (num : Nat) : ∀ (L : List (List Nat)) (ff nf i : Nat), ff ≤ i →
    DirSlots.findFreeLoop num L ff nf i ≤ i + L.length := by
  intro L
  induction L with
  | nil => intro ff nf i h; simp only [DirSlots.findFreeLoop, List.length_nil]; split <;> omega
  | cons s rest ih =>
    intro ff nf i h
    simp only [DirSlots.findFreeLoop, List.length_cons]
    split
    · split <;> omega
    · split
      · split
        · split <;> omega
        · have := ih (if nf = 0 then i else ff) (nf + 1) (i + 1) (by split <;> omega)
          omega
      · have := ih ff 0 (i + 1) (by omega)
        omega

section generic
variable {d : Dev} {S : Nat → DirStream} {N : Nat} {src room : Nat → Nat}

/-- **the loop of `find_free_entries`, generic** -/
theorem DirSrc.findFreeLoop_sim (D : DirSrc d S N src room)
    (hseek : ∀ d1, SameVol d d1 → ∀ o t, o ≤ 32 * N → t ≤ 32 * N → Reads ((S o).seek (.start t)) d1 (t, S t))
    (num : Nat) :
    ∀ (L : List (List Nat)) (fuel i ff nf : Nat) (d1 : Dev), SameVol d d1 → i + L.length = N →
      (∀ j, j < L.length → L.getD j [] = d.img.read (src (32 * (i + j))) 32) → L.length < fuel → ff ≤ i →
      Reads (findFreeLoop num fuel (S (32 * i)) ff nf i) d1 (S (32 * DirSlots.findFreeLoop num L ff nf i)) := by
  intro L
  induction L with
  | nil =>
    intro fuel i ff nf d1 hv hi _ hf hff
    obtain ⟨k, rfl⟩ : ∃ k, fuel = k + 1 := ⟨fuel - 1, by simp at hf; omega⟩
    have hend : i = N := by simpa using hi
    subst hend
    unfold findFreeLoop
    refine Reads.bind (D.toByteSrc.readSlot_end d1 hv) (fun d2 hs2 => ?_)
    dsimp only
    rw [deser_isEnd, zero_isEnd, if_pos rfl]
    simp only [DirSlots.findFreeLoop]
    have hle : (if nf = 0 then i else ff) ≤ i := by split <;> omega
    refine Reads.bind (hseek d2 (hv.trans hs2) _ _ (Nat.le_refl _) (by rw [Nat.mul_comm]; omega)) (fun d3 _ => ?_)
    rw [Nat.mul_comm]
    exact Reads.pure _ d3
  | cons sl rest ih =>
    intro fuel i ff nf d1 hv hi hL hf hff
    obtain ⟨k, rfl⟩ : ∃ k, fuel = k + 1 := ⟨fuel - 1, by simp at hf; omega⟩
    have hsl : sl = d.img.read (src (32 * i)) 32 := by
      have := hL 0 (by simp)
      simpa using this
    have hroom : 32 * i + 32 ≤ 32 * N := by simp at hi; omega
    have hoff : 32 * i + 32 = 32 * (i + 1) := by omega
    unfold findFreeLoop
    refine Reads.bind (D.toByteSrc.readSlot d1 hv (32 * i) (by omega) hroom) (fun d2 hs2 => ?_)
    rw [← hsl, hoff]
    dsimp only
    have hv2 := hv.trans hs2
    have hrec := fun ff' nf' (hff' : ff' ≤ i + 1) => ih k (i + 1) ff' nf' d2 hv2 (by simp at hi ⊢; omega)
      (fun j hj => by
        have := hL (j + 1) (by simp; omega)
        simpa [Nat.add_assoc, Nat.add_comm 1 j] using this)
      (by simp at hf; omega) hff'
    have hseekTo : ∀ t, t ≤ i → Reads (Prog.bind ((S (32 * (i + 1))).seek (.start (t * 32)))
        (fun x => Prog.pure x.2)) d2 (S (32 * t)) := by
      intro t ht
      refine Reads.bind (hseek d2 hv2 _ _ (by omega) (by omega)) (fun d3 _ => ?_)
      rw [Nat.mul_comm]
      exact Reads.pure _ d3
    rw [deser_isEnd, deser_isDeleted]
    simp only [DirSlots.findFreeLoop]
    by_cases hE : Lfn.isEnd sl = true
    · simp only [hE, if_true]
      exact hseekTo _ (by split <;> omega)
    · simp only [hE, Bool.false_eq_true, if_false]
      by_cases hD : Lfn.isDeleted sl = true
      · simp only [hD, if_true]
        by_cases hn : nf + 1 = num
        · simp only [hn, if_true]
          exact hseekTo _ (by split <;> omega)
        · simp only [hn, if_false]
          exact hrec _ _ (by split <;> omega)
      · simp only [hD, Bool.false_eq_true, if_false]
        exact hrec ff 0 (by omega)

/-- **`find_free_entries(num)`, generic**: the clone comes back positioned at slot `DirSlots.findFree slots num` -/
theorem DirSrc.findFreeEntries_sim (D : DirSrc d S N src room)
    (hseek : ∀ d1, SameVol d d1 → ∀ o t, o ≤ 32 * N → t ≤ 32 * N → Reads ((S o).seek (.start t)) d1 (t, S t))
    (hfuel : N < dirFuel d.fs) (num : Nat) (d1 : Dev) (hv : SameVol d d1) :
    Reads (findFreeEntries (S 0) num) d1 (S (32 * DirSlots.findFree (srcSlots d.img src N) num)) := by
  unfold findFreeEntries DirSlots.findFree
  refine Reads.bind (Reads.getFs d1) (fun d2 hs2 => ?_)
  rw [hv.fs]
  have := D.findFreeLoop_sim hseek num (srcSlots d.img src N) (dirFuel d.fs) 0 0 0 d2 (hv.trans hs2)
    (by rw [srcSlots_length]; omega)
    (fun j hj => by
      have := srcSlots_drop_getD d.img src N 0 j (by simpa using hj)
      simpa using this)
    (by rw [srcSlots_length]; exact hfuel) (Nat.le_refl _)
  exact Reads.finallyDrop this (fun d3 _ => Reads.pure _ d3)

end generic

end FatVerif.DirSim
