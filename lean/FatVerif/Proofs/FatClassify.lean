import FatVerif.Model.FatCodec
import FatVerif.Spec.FatTable
/-! Classification of EVERY raw FAT12 (2^12) and FAT16 (2^16) value: model = specification, by kernel evaluation
    over the complete domain. (Kept in its own file: the FAT16 sweep takes ≈ 35 s.) -/
namespace FatVerif.Fat
open FatVerif.FatSpec

/-- `p` holds for all `v < n` (front-to-back conjunction, evaluated by the kernel) -/
def allBelow (p : Nat → Bool) : Nat → Bool
  | 0 => true
  | n + 1 => p n && allBelow p n

theorem allBelow_spec (p : Nat → Bool) : ∀ n, allBelow p n = true → ∀ v, v < n → p v = true := by
  intro n
  induction n with
  | zero => intro _ v hv; omega
  | succ n ih =>
    intro h v hv
    simp only [allBelow, Bool.and_eq_true] at h
    by_cases e : v = n
    · subst e; exact h.1
    · exact ih h.2 v (by omega)

theorem classify12_all : allBelow (fun v => decide (classify12 v = specClassify 12 v)) 4096 = true := by
  decide +kernel

theorem classify16_all : allBelow (fun v => decide (classify16 v = specClassify 16 v)) 65536 = true := by
  decide +kernel

theorem classify12_spec : ∀ v, v < 4096 → classify12 v = specClassify 12 v := by
  intro v hv
  have := allBelow_spec _ _ classify12_all v hv
  simpa using this

theorem classify16_spec : ∀ v, v < 65536 → classify16 v = specClassify 16 v := by
  intro v hv
  have := allBelow_spec _ _ classify16_all v hv
  simpa using this

end FatVerif.Fat
