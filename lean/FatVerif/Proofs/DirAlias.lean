import FatVerif.Model.DirAlias
import FatVerif.Proofs.NamesTerm
import FatVerif.Proofs.NamesValidate
/-! The directory-level alias loop reduces to `DirSlots.findEntryKind` and `Names.generateLoop` over the listing. -/
namespace FatVerif
namespace DirAlias
open Lfn DirSlots

/-- the kind check of `find_entry` on the first hit -/
def kindResult (isDir : Option Bool) : Option LfnEntry → Except Err LfnEntry
  | none => .error .notFound
  | some e =>
    match isDir with
    | some d => if Lfn.isDir e.sfn == d then .ok e else .error .invalidInput
    | none => .ok e

theorem findEntryKind_eq (upper : Char → List Char) (slots : List (List Nat)) (name : List Char)
    (isDir : Option Bool) : findEntryKind upper slots name isDir = kindResult isDir (findEntry upper slots name) := by
  unfold findEntryKind kindResult
  cases findEntry upper slots name <;> rfl

theorem kind_cond (b : Bool) (isDir : Option Bool) :
    (isDir.isSome && some b != isDir) = match isDir with | some d => !(b == d) | none => false := by
  cases isDir with
  | none => rfl
  | some d => cases b <;> cases d <;> rfl

/-- the lookup outcome of a scan is `find_entry`'s: first hit + kind check -/
theorem scan_fst (upper : Char → List Char) (name : List Char) (isDir : Option Bool) (L : List LfnEntry)
    (g : Names.Gen) :
    (scan upper name isDir L g).1 = kindResult isDir (L.find? fun e => matchesName upper e name) := by
  induction L generalizing g with
  | nil => rfl
  | cons e es ih =>
    unfold scan
    by_cases hm : matchesName upper e name = true
    · simp only [hm, if_true, List.find?_cons_of_pos]
      rw [kind_cond]
      unfold kindResult
      cases isDir with
      | none => simp
      | some d => by_cases hd : Lfn.isDir e.sfn = d <;> simp [hd]
    · simp only [hm, Bool.false_eq_true, if_false]
      rw [List.find?_cons_of_neg (by simpa using hm)]
      exact ih _

/-- when nothing matches, the scan fed every listed raw short name, in order -/
theorem scan_snd (upper : Char → List Char) (name : List Char) (isDir : Option Bool) (L : List LfnEntry)
    (g : Names.Gen) (h : (L.find? fun e => matchesName upper e name) = none) :
    (scan upper name isDir L g).2 = Names.addAll g (L.map fun e => sfnName e.sfn) := by
  induction L generalizing g with
  | nil => rfl
  | cons e es ih =>
    have hm : matchesName upper e name = false := by
      have := List.find?_eq_none.1 h e (by simp)
      simpa using this
    have hes : (es.find? fun e => matchesName upper e name) = none := by
      rw [List.find?_cons_of_neg (by simp [hm])] at h; exact h
    unfold scan
    simp only [hm, Bool.false_eq_true, if_false, List.map_cons, Names.addAll, List.foldl_cons]
    exact ih _ hes

/-- an entry matches: the first round returns it (or the kind error); no alias is generated -/
theorem loop_found (upper : Char → List Char) (L : List LfnEntry) (name : List Char) (isDir : Option Bool)
    (fuel : Nat) (g : Names.Gen) (e : LfnEntry) (h : (L.find? fun e => matchesName upper e name) = some e) :
    loop upper L name isDir (fuel + 1) g =
      match kindResult isDir (some e) with
      | .ok e => .ok (.entry e)
      | .error x => .error x := by
  have h1 := scan_fst upper name isDir L g
  rw [h] at h1
  unfold loop
  generalize scan upper name isDir L g = r at h1
  obtain ⟨r1, r2⟩ := r
  simp only at h1
  subst h1
  unfold kindResult
  cases isDir with
  | none => rfl
  | some d => by_cases hd : Lfn.isDir e.sfn = d <;> simp [hd]

/-- one round when nothing matches the name: the scan feeds the whole population, then the three outcomes -/
theorem loop_succ_notfound (upper : Char → List Char) (L : List LfnEntry) (name : List Char) (isDir : Option Bool)
    (h : (L.find? fun e => matchesName upper e name) = none) (fuel : Nat) (g : Names.Gen) :
    loop upper L name isDir (fuel + 1) g =
      match Names.generate (Names.addAll g (L.map fun e => sfnName e.sfn)) with
      | .ok a =>
        if displayAscii a then
          match lookupNoGen upper L (Names.aliasDisplay a) with
          | none => .ok (.alias a)
          | some _ => loop upper L name isDir fuel
              (Names.addExisting (Names.addAll g (L.map fun e => sfnName e.sfn)) a)
        else .ok (.alias a)
      | .error _ => loop upper L name isDir fuel
          (Names.nextIteration (Names.addAll g (L.map fun e => sfnName e.sfn))) := by
  have h1 := scan_fst upper name isDir L g
  have h2 := scan_snd upper name isDir L g h
  rw [h] at h1
  conv => lhs; unfold loop
  generalize scan upper name isDir L g = r at h1 h2
  obtain ⟨r1, r2⟩ := r
  simp only [kindResult] at h1 h2
  subst h1 h2
  rfl

/-- nothing matches the name: whatever alias the loop returns was produced by `generate` in a reachable state that
    had just been fed the whole population, and its display form (when it is ASCII, i.e. always) is answered by no
    listed entry -/
theorem loop_alias_inv (upper : Char → List Char) (L : List LfnEntry) (name : List Char) (isDir : Option Bool)
    (h : (L.find? fun e => matchesName upper e name) = none) (g0 : Names.Gen) (a : List Nat) :
    ∀ (fuel : Nat) (g : Names.Gen), Names.Reach g0 g → loop upper L name isDir fuel g = .ok (.alias a) →
      ∃ g', Names.Reach g0 g' ∧ Names.generate (Names.addAll g' (L.map fun e => sfnName e.sfn)) = .ok a ∧
        (displayAscii a = true → lookupNoGen upper L (Names.aliasDisplay a) = none) := by
  intro fuel
  induction fuel with
  | zero => intro g _ hl; simp [loop] at hl
  | succ fuel ih =>
    intro g r hl
    rw [loop_succ_notfound upper L name isDir h] at hl
    cases hg : Names.generate (Names.addAll g (L.map fun e => sfnName e.sfn)) with
    | ok a' =>
      rw [hg] at hl
      simp only at hl
      by_cases hd : displayAscii a' = true
      · rw [if_pos hd] at hl
        cases hk : lookupNoGen upper L (Names.aliasDisplay a') with
        | none =>
          rw [hk] at hl
          simp only [Except.ok.injEq, EntryOrAlias.alias.injEq] at hl
          subst hl
          exact ⟨g, r, hg, fun _ => hk⟩
        | some e =>
          rw [hk] at hl
          exact ih _ (Names.Reach.add a' (r.addAll _)) hl
      · rw [if_neg hd] at hl
        simp only [Except.ok.injEq, EntryOrAlias.alias.injEq] at hl
        subst hl
        exact ⟨g, r, hg, fun h' => absurd h' hd⟩
    | error x =>
      rw [hg] at hl
      exact ih _ (Names.Reach.next (r.addAll _)) hl

/-- nothing matches the name: the loop ends with an alias or runs out of fuel, nothing else -/
theorem loop_none_cases (upper : Char → List Char) (L : List LfnEntry) (name : List Char) (isDir : Option Bool)
    (h : (L.find? fun e => matchesName upper e name) = none) :
    ∀ (fuel : Nat) (g : Names.Gen),
      (∃ a, loop upper L name isDir fuel g = .ok (.alias a)) ∨ loop upper L name isDir fuel g = .error .hang := by
  intro fuel
  induction fuel with
  | zero => intro g; right; rfl
  | succ fuel ih =>
    intro g
    rw [loop_succ_notfound upper L name isDir h]
    cases hg : Names.generate (Names.addAll g (L.map fun e => sfnName e.sfn)) with
    | ok a' =>
      simp only
      by_cases hd : displayAscii a' = true
      · rw [if_pos hd]
        cases hk : lookupNoGen upper L (Names.aliasDisplay a') with
        | none => exact Or.inl ⟨a', rfl⟩
        | some e => exact ih _
      · rw [if_neg hd]; exact Or.inl ⟨a', rfl⟩
    | error x => exact ih _

end DirAlias
end FatVerif

namespace FatVerif
namespace DirAlias
open Lfn DirSlots

/-! ## facts about valid names, generated aliases and the short slot built from an alias -/

theorem length_le_utf8Len : ∀ cs : List Char, cs.length ≤ Names.utf8Len cs
  | [] => by simp [Names.utf8Len]
  | c :: cs => by
    have := c.utf8Size_pos
    have := length_le_utf8Len cs
    simp only [List.length_cons, Names.utf8Len]; omega

theorem encode_bmp : ∀ cs : List Char, (∀ c ∈ cs, c.toNat < 0x10000) → Names.encodeUtf16 cs = cs.map Char.toNat
  | [], _ => rfl
  | c :: cs, h => by
    have hc : c.toNat < 0x10000 := h c (by simp)
    unfold Names.encodeUtf16
    simp only [hc, if_true, List.map_cons]
    rw [encode_bmp cs (fun x hx => h x (by simp [hx]))]

/-- the UTF-16 units of a name `validate_long_name` accepts: one unit per character, 1 … 255 of them, none zero -/
theorem valid_units {cs : List Char} (hv : Names.validateLongNameL cs = .ok ()) :
    cs ≠ [] ∧ Names.encodeUtf16 cs = cs.map Char.toNat ∧
    1 ≤ (Names.encodeUtf16 cs).length ∧ (Names.encodeUtf16 cs).length ≤ 255 ∧
    (∀ x ∈ Names.encodeUtf16 cs, x < 65536) ∧ (∀ x ∈ Names.encodeUtf16 cs, x ≠ 0) := by
  obtain ⟨h1, h255, hc⟩ := (Names.validateL_ok_iff cs).1 hv
  have hne : cs ≠ [] := by
    intro h0; rw [h0] at h1; simp [Names.utf8Len] at h1
  have hb : ∀ c ∈ cs, c.toNat < 0x10000 := fun c hcm => by have := (hc c hcm).2.1; omega
  have he := encode_bmp cs hb
  have hl := length_le_utf8Len cs
  have hpos : 1 ≤ cs.length := by
    cases cs with
    | nil => exact absurd rfl hne
    | cons _ _ => simp
  refine ⟨hne, he, by rw [he]; simpa using hpos, by rw [he]; simp; omega, ?_, ?_⟩
  · intro x hx
    rw [he] at hx
    obtain ⟨c, hcm, rfl⟩ := List.mem_map.1 hx
    exact hb c hcm
  · intro x hx
    rw [he] at hx
    obtain ⟨c, hcm, rfl⟩ := List.mem_map.1 hx
    have := (hc c hcm).1; omega

/-- every name `generate` returns has 11 bytes (any name, the empty one included) -/
theorem generate_length {g : Names.Gen} (h : Names.GenWF g) {a : List Nat} (hg : Names.generate g = .ok a) :
    a.length = 11 := by
  by_cases hx : a = g.shortName
  · rw [hx]; exact Names.shortName_length h
  · exact (Names.generate_legal_prefixed h hg hx).1

theorem sfnName_sfnWith (a body : List Nat) (ha : a.length = 11) : sfnName (sfnWith a body) = a := by
  unfold sfnName sfnWith Lfn.byte
  apply List.ext_getElem
  · simp [ha]
  · intro i h1 h2
    simp only [List.getElem_map, List.getElem_range, List.getD_eq_getElem?_getD]
    rw [List.getElem?_append_left h2]
    simp [h2]

/-- a short slot whose name is a legal alias and whose attribute byte has no VOLUME_ID bit is a file-class slot -/
theorem slotClass_sfnWith (a : List Nat) (attr : Nat) (rest : List Nat) (ha : Names.LegalAlias a)
    (hattr : attr % 64 / 8 % 2 = 0) : slotClass (sfnWith a (attr :: rest)) = .file := by
  obtain ⟨hl, _, _, h0, _, hE5, _⟩ := ha
  cases a with
  | nil => simp at hl
  | cons x xs =>
    have hx0 : x ≠ 0 := by simpa using h0
    have hxE : x ≠ 0xE5 := by simpa using hE5
    have hb0 : Lfn.byte (sfnWith (x :: xs) (attr :: rest)) 0 = x := by simp [sfnWith, Lfn.byte]
    have hb11 : Lfn.byte (sfnWith (x :: xs) (attr :: rest)) 11 = attr := by
      unfold sfnWith Lfn.byte
      rw [List.getD_eq_getElem?_getD, List.getElem?_append_right (by omega), hl]
      simp
    have h3 : ¬ attr % 64 % 16 = 15 := by omega
    have h4 : ¬ attr % 64 / 8 % 2 = 1 := by omega
    unfold slotClass Lfn.isEnd Lfn.isDeleted Lfn.isLfn Lfn.isVolume Lfn.attrs
    rw [hb0, hb11]
    rw [if_neg (by simpa using hx0), if_neg (by simpa using hxE), if_neg (by simpa using h3),
      if_neg (by simpa using h4)]

end DirAlias
end FatVerif

namespace FatVerif
namespace DirAlias
open Lfn DirSlots

theorem check_found (upper : Char → List Char) (slots : List (List Nat)) (name : String) (isDir : Option Bool)
    (fuel : Nat) (e : LfnEntry) (h : findEntry upper slots name.toList = some e) :
    checkForExistenceL upper slots name isDir (fuel + 1) =
      match kindResult isDir (some e) with
      | .ok e => .ok (.entry e)
      | .error x => .error x := by
  obtain ⟨g, hg⟩ := Names.newL_total name.toList
  unfold checkForExistenceL Names.new
  rw [hg]
  exact loop_found upper _ _ isDir fuel g e h

theorem check_notfound (upper : Char → List Char) (slots : List (List Nat)) (name : String) (isDir : Option Bool)
    (fuel : Nat) :
    ∃ g, Names.new name = .ok g ∧
      checkForExistenceL upper slots name isDir fuel = loop upper (listing slots) name.toList isDir fuel g := by
  obtain ⟨g, hg⟩ := Names.newL_total name.toList
  refine ⟨g, hg, ?_⟩
  unfold checkForExistenceL Names.new
  rw [hg]

/-- if the result is an alias: nothing matched the name; the alias is what `generate` returns in a reachable state
    fed with ALL listed raw short names; and no listed entry answers to its display form -/
theorem check_alias (upper : Char → List Char) (slots : List (List Nat)) (name : String) (isDir : Option Bool)
    (fuel : Nat) (a : List Nat) (h : checkForExistenceL upper slots name isDir fuel = .ok (.alias a)) :
    findEntry upper slots name.toList = none ∧
    ∃ g g', Names.new name = .ok g ∧ Names.Reach g g' ∧
      Names.generate (Names.addAll g' (population slots)) = .ok a ∧
      (displayAscii a = true → findEntry upper slots (Names.aliasDisplay a) = none) := by
  cases hf : findEntry upper slots name.toList with
  | some e =>
    exfalso
    cases fuel with
    | zero =>
      obtain ⟨g, hg⟩ := Names.newL_total name.toList
      unfold checkForExistenceL Names.new at h
      rw [hg] at h
      simp [loop] at h
    | succ fuel =>
      rw [check_found upper slots name isDir fuel e hf] at h
      cases hk : kindResult isDir (some e) <;> rw [hk] at h <;> simp at h
  | none =>
    obtain ⟨g, hg, hc⟩ := check_notfound upper slots name isDir fuel
    rw [hc] at h
    obtain ⟨g', r, h1, h2⟩ := loop_alias_inv upper _ _ isDir hf g a fuel g Names.Reach.refl h
    exact ⟨rfl, g, g', hg, r, h1, h2⟩

end DirAlias
end FatVerif
