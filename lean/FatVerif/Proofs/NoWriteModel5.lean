import FatVerif.Proofs.NoWriteModel4
import FatVerif.Model.Api
/-! C13, part 5: a whole read-only session (induction over `Session.step`). -/
namespace FatVerif

/-- `stats`, every outcome: the mounted state is unchanged or took the documented step -/
theorem stats_fs (d : Dev) {r d'} (hr : run stats d = (r, d')) : StatsStep d.fs d'.fs := by
  unfold stats at hr
  have hr1 : run (Prog.bind Prog.getFs (fun fs => Prog.bind
      (match fs.fsInfo.free with
        | some n => Prog.pure n
        | none => Prog.bind (Table.countFree DiskSlice.strm fs.fatType (fatSliceOf fs) fs.totalClusters) (fun x =>
            match x with
            | (n, _) => Prog.bind (Prog.modifyFs fun fs => { fs with fsInfo := { fs.fsInfo with free := some n, dirty := true } })
                (fun _ => Prog.pure n)))
      (fun free => Prog.pure (fs.clusterSize, fs.totalClusters, free)))) d = (r, d') := hr
  rw [run_getFs_bind] at hr1
  have key : ∀ rq d1, run (match d.fs.fsInfo.free with
        | some n => Prog.pure n
        | none => Prog.bind (Table.countFree DiskSlice.strm d.fs.fatType (fatSliceOf d.fs) d.fs.totalClusters) (fun x =>
            match x with
            | (n, _) => Prog.bind (Prog.modifyFs fun fs => { fs with fsInfo := { fs.fsInfo with free := some n, dirty := true } })
                (fun _ => Prog.pure n))) d = (rq, d1) → StatsStep d.fs d1.fs := by
    intro rq d1 h1
    split at h1
    · simp only [run] at h1; cases h1; exact Or.inl rfl
    · rename_i hfree
      rcases run_bind_cases h1 with ⟨⟨n, sl⟩, d2, h2, h3⟩ | ⟨e, h2, _⟩
      · have hfs := quietOps_fs (Table.countFree_quiet _ DiskSlice.strm_quiet _ _ _) d h2
        simp only [run, run_modifyFs] at h3
        cases h3
        exact Or.inr ⟨hfree, n, by simp only [hfs]⟩
      · exact Or.inl (quietOps_fs (Table.countFree_quiet _ DiskSlice.strm_quiet _ _ _) d h2)
  rcases run_bind_cases hr1 with ⟨free, d1, h1, h2⟩ | ⟨e, h1, _⟩
  · simp only [run] at h2; cases h2
    exact key _ _ h1
  · exact key _ _ h1

theorem StatsStep.refl (fs : FsState) : StatsStep fs fs := Or.inl rfl

theorem StatsStep.trans {a b c : FsState} (h1 : StatsStep a b) (h2 : StatsStep b c) : StatsStep a c := by
  rcases h1 with h1 | ⟨h1, n, hn⟩
  · rw [← h1]; exact h2
  · rcases h2 with h2 | ⟨h2, _⟩
    · rw [h2]; exact Or.inr ⟨h1, n, hn⟩
    · rw [hn] at h2; simp at h2

theorem StatsStep.accDate {a b : FsState} (h : StatsStep a b) : b.accDate = a.accDate := by
  rcases h with h | ⟨_, n, hn⟩ <;> simp [*]

theorem StatsStep.flags {a b : FsState} (h : StatsStep a b) (ha : FlagsClean a) : FlagsClean b := by
  rcases h with h | ⟨_, n, hn⟩
  · rw [h]; exact ha
  · rw [hn]; exact ha

/-! ### read-only operations of the API -/

inductive ROOp where
  | list (d : Nat)
  | openDir (d : Nat) (path : String) (dnew : Nat)
  | openFile (d : Nat) (path : String) (fnew : Nat)
  | seek (f : Nat) (k : SeekKind) (n : Int)
  | read (f : Nat) (n : Nat)
  | readx (f : Nat) (n : Nat)
  | readall (f : Nat)
  | extents (f : Nat)
  | label
  | labelRoot
  | status
  | stats
  | volid
  | fattype
  | dropf (f : Nat)
  | dropd (d : Nat)

def ROOp.toApi : ROOp → ApiOp
  | .list d => .list d
  | .openDir d p n => .openDir d p n
  | .openFile d p n => .openFile d p n
  | .seek f k n => .seek f k n
  | .read f n => .read f n
  | .readx f n => .readx f n
  | .readall f => .readall f
  | .extents f => .extents f
  | .label => .label
  | .labelRoot => .labelRoot
  | .status => .status
  | .stats => .stats
  | .volid => .volid
  | .fattype => .fattype
  | .dropf f => .dropf f
  | .dropd d => .dropd d

/-- the invariant of a read-only session: `update_accessed_date` is off, the status flags are as at mount, and every
    open handle is clean -/
structure ROInv (s : Session) : Prop where
  acc : s.dev.fs.accDate = false
  flags : FlagsClean s.dev.fs
  files : ∀ (f : Nat) (h : FileH), s.files[f]? = some h → CleanFile h
  dirs : ∀ (d : Nat) (h : DirStream), s.dirs[d]? = some h → CleanStream h

/-- one step's effect on the device: nothing written, mounted state unchanged or the `stats` step -/
def ROStep (d d' : Dev) : Prop := SameWrites d d' ∧ StatsStep d.fs d'.fs

theorem ROStep.refl (d : Dev) : ROStep d d := ⟨SameWrites.refl d, StatsStep.refl _⟩

theorem ROStep.trans {a b c : Dev} (h1 : ROStep a b) (h2 : ROStep b c) : ROStep a c :=
  ⟨h1.1.trans h2.1, h1.2.trans h2.2⟩

theorem ROStep.of_ro {d d' : Dev} (h : SameWrites d d') (hfs : d'.fs = d.fs) : ROStep d d' :=
  ⟨h, Or.inl hfs⟩

theorem ROInv.setDev {s : Session} (h : ROInv s) {d : Dev} (hd : ROStep s.dev d) : ROInv { s with dev := d } :=
  ⟨by rw [show ({ s with dev := d } : Session).dev = d from rfl, hd.2.accDate]; exact h.acc,
   hd.2.flags h.flags, h.files, h.dirs⟩

theorem ROInv.setDead {s : Session} (h : ROInv s) (b : Bool) : ROInv { s with dead := b } :=
  ⟨h.acc, h.flags, h.files, h.dirs⟩

theorem ROInv.insertFile {s : Session} (h : ROInv s) (f : Nat) {fh : FileH} (hf : CleanFile fh) :
    ROInv { s with files := s.files.insert f fh } := by
  refine ⟨h.acc, h.flags, ?_, h.dirs⟩
  intro f' h' hget
  simp only [Std.HashMap.getElem?_insert] at hget
  split at hget
  · cases hget; exact hf
  · exact h.files f' h' hget

theorem ROInv.insertDir {s : Session} (h : ROInv s) (d : Nat) {st : DirStream} (hst : CleanStream st) :
    ROInv { s with dirs := s.dirs.insert d st } := by
  refine ⟨h.acc, h.flags, h.files, ?_⟩
  intro d' h' hget
  simp only [Std.HashMap.getElem?_insert] at hget
  split at hget
  · cases hget; exact hst
  · exact h.dirs d' h' hget

theorem ROInv.eraseFile {s : Session} (h : ROInv s) (f : Nat) : ROInv { s with files := s.files.erase f } := by
  refine ⟨h.acc, h.flags, ?_, h.dirs⟩
  intro f' h' hget
  simp only [Std.HashMap.getElem?_erase] at hget
  split at hget
  · cases hget
  · exact h.files f' h' hget

theorem ROInv.eraseDir {s : Session} (h : ROInv s) (d : Nat) : ROInv { s with dirs := s.dirs.erase d } := by
  refine ⟨h.acc, h.flags, h.files, ?_⟩
  intro d' h' hget
  simp only [Std.HashMap.getElem?_erase] at hget
  split at hget
  · cases hget
  · exact h.dirs d' h' hget

theorem ROInv.getDir {s : Session} (h : ROInv s) {d : Nat} {st : DirStream} (hg : s.getDir d = some st) :
    CleanStream st := by
  unfold Session.getDir at hg
  split at hg
  · split at hg
    · cases hg; exact cleanStream_root _
    · cases hg
  · exact h.dirs d st hg

/-- outcome of `fatal`: the handles are kept -/
theorem ROInv.fatal {s : Session} (h : ROInv s) {d : Dev} (hd : ROStep s.dev d) (e : Err) :
    ROInv (Session.fatal s d e).1 ∧ ROStep s.dev (Session.fatal s d e).1.dev := by
  unfold Session.fatal
  split
  · exact ⟨(h.setDev hd).setDead true, hd⟩
  · exact ⟨h.setDev hd, hd⟩

/-- the generic shape `runOp s p k` for a read-only program -/
theorem runOp_ro {α} {s : Session} (h : ROInv s) {p : Prog α} {Post : α → Prop} (hp : RO s.dev.fs p Post)
    {k : Session → α → Session × ApiRes}
    (hk : ∀ (d : Dev) (a : α), ROStep s.dev d → Post a → ROInv { s with dev := d } →
      ROInv (k { s with dev := d } a).1 ∧ (k { s with dev := d } a).1.dev = d) :
    ROInv (s.runOp p k).1 ∧ ROStep s.dev (s.runOp p k).1.dev := by
  unfold Session.runOp Session.exec
  rcases hr : run p s.dev with ⟨r, d⟩
  have h1 := hp.out s.dev r d rfl hr
  have hstep : ROStep s.dev d := ROStep.of_ro h1.1 h1.2.1
  cases r with
  | ok a =>
    simp only
    have := hk d a hstep (h1.2.2 a rfl) (h.setDev hstep)
    exact ⟨this.1, by rw [this.2]; exact hstep⟩
  | error e => simp only; exact h.fatal hstep e


/-- a step result that keeps the invariant and is a read-only step of the device -/
def Good (s : Session) (x : Session × ApiRes) : Prop := ROInv x.1 ∧ ROStep s.dev x.1.dev

theorem Good.same {s : Session} (h : ROInv s) (r : ApiRes) : Good s (s, r) := ⟨h, ROStep.refl _⟩

theorem Good.trans {s s1 : Session} {x : Session × ApiRes} (h1 : ROStep s.dev s1.dev) (h2 : Good s1 x) : Good s x :=
  ⟨h2.1, h1.trans h2.2⟩

theorem withFile_good {s : Session} (h : ROInv s) (f : Nat) {k : FileH → Session × ApiRes}
    (hk : ∀ fh, s.files[f]? = some fh → Good s (k fh)) : Good s (s.withFile f k) := by
  unfold Session.withFile
  split
  · rename_i fh hf; exact hk fh hf
  · exact Good.same h _

theorem withDir_good {s : Session} (h : ROInv s) (d : Nat) {k : DirStream → Session × ApiRes}
    (hk : ∀ st, s.getDir d = some st → Good s (k st)) : Good s (s.withDir d k) := by
  unfold Session.withDir
  split
  · rename_i st hd; exact hk st hd
  · exact Good.same h _

theorem runOp_good {α} {s : Session} (h : ROInv s) {p : Prog α} {Post : α → Prop} (hp : RO s.dev.fs p Post)
    {k : Session → α → Session × ApiRes}
    (hk : ∀ (d : Dev) (a : α), Post a → ROInv { s with dev := d } →
      ROInv (k { s with dev := d } a).1 ∧ (k { s with dev := d } a).1.dev = d) :
    Good s (s.runOp p k) :=
  runOp_ro h hp (fun d a _ hpost hinv => hk d a hpost hinv)

theorem readxLoop_good (f : Nat) : ∀ (fuel : Nat) (s : Session) (fh : FileH) (n : Nat) (acc : List Nat),
    ROInv s → CleanFile fh → Good s (Session.readxLoop s f fuel fh n acc) := by
  intro fuel
  induction fuel with
  | zero =>
    intro s fh n acc h hf
    unfold Session.readxLoop
    exact ⟨(h.insertFile f hf).setDead true, ROStep.refl _⟩
  | succ k ih =>
    intro s fh n acc h hf
    unfold Session.readxLoop
    split
    · exact ⟨h.insertFile f hf, ROStep.refl _⟩
    · unfold Session.exec
      rcases hr : run (fh.read n) s.dev with ⟨r, d⟩
      have h1 := (FileH.read_ro h.acc fh n).out s.dev r d rfl hr
      have hstep : ROStep s.dev d := ROStep.of_ro h1.1 h1.2.1
      cases r with
      | ok v =>
        obtain ⟨bs, fh'⟩ := v
        have hf' : CleanFile fh' := cleanFile_of_entry_eq (h1.2.2 _ rfl) hf
        simp only
        split
        · exact ⟨(h.setDev hstep).insertFile f hf', hstep⟩
        · exact Good.trans (s1 := { s with dev := d }) hstep (ih _ _ _ _ (h.setDev hstep) hf')
      | error e =>
        simp only
        have := (h.insertFile f hf).fatal (d := d) hstep e
        exact this

theorem readAllLoopS_good (f : Nat) : ∀ (fuel : Nat) (s : Session) (fh : FileH) (acc : List Nat),
    ROInv s → CleanFile fh → Good s (Session.readAllLoopS s f fuel fh acc) := by
  intro fuel
  induction fuel with
  | zero =>
    intro s fh acc h hf
    unfold Session.readAllLoopS
    exact ⟨(h.insertFile f hf).setDead true, ROStep.refl _⟩
  | succ k ih =>
    intro s fh acc h hf
    unfold Session.readAllLoopS Session.exec
    rcases hr : run (fh.read 4096) s.dev with ⟨r, d⟩
    have h1 := (FileH.read_ro h.acc fh 4096).out s.dev r d rfl hr
    have hstep : ROStep s.dev d := ROStep.of_ro h1.1 h1.2.1
    cases r with
    | ok v =>
      obtain ⟨bs, fh'⟩ := v
      have hf' : CleanFile fh' := cleanFile_of_entry_eq (h1.2.2 _ rfl) hf
      simp only
      split
      · exact ⟨(h.setDev hstep).insertFile f hf', hstep⟩
      · exact Good.trans (s1 := { s with dev := d }) hstep (ih _ _ _ (h.setDev hstep) hf')
    | error e =>
      simp only
      exact (h.insertFile f hf).fatal (d := d) hstep e

/-- one read-only API operation keeps the invariant and writes nothing -/
theorem step_good (s : Session) (h : ROInv s) (op : ROOp) : Good s (s.step op.toApi) := by
  cases op with
  | list d =>
    simp only [ROOp.toApi, Session.step]
    split
    · exact Good.same h _
    · refine withDir_good h d (fun st hst => ?_)
      exact runOp_good h (listDir_ro h.acc (h.getDir hst)) (fun d a _ hinv => ⟨hinv, rfl⟩)
  | openDir d path dnew =>
    simp only [ROOp.toApi, Session.step]
    split
    · exact Good.same h _
    · refine withDir_good h d (fun st hst => ?_)
      split
      · exact Good.same h _
      · exact runOp_good h (openDir_ro h.acc s.env _ st path (h.getDir hst))
          (fun d a ha hinv => ⟨hinv.insertDir dnew ha, rfl⟩)
  | openFile d path fnew =>
    simp only [ROOp.toApi, Session.step]
    split
    · exact Good.same h _
    · refine withDir_good h d (fun st hst => ?_)
      split
      · exact Good.same h _
      · exact runOp_good h (openFile_ro h.acc s.env _ st path (h.getDir hst))
          (fun d a ha hinv => ⟨hinv.insertFile fnew ha, rfl⟩)
  | seek f k n =>
    simp only [ROOp.toApi, Session.step]
    split
    · exact Good.same h _
    · refine withFile_good h f (fun fh hf => ?_)
      exact runOp_good h (FileH.seek_ro fh _)
        (fun d a ha hinv => ⟨hinv.insertFile f (cleanFile_of_entry_eq ha (h.files f fh hf)), rfl⟩)
  | read f n =>
    simp only [ROOp.toApi, Session.step]
    split
    · exact Good.same h _
    · refine withFile_good h f (fun fh hf => ?_)
      exact runOp_good h (FileH.read_ro h.acc fh n)
        (fun d a ha hinv => ⟨hinv.insertFile f (cleanFile_of_entry_eq ha (h.files f fh hf)), rfl⟩)
  | readx f n =>
    simp only [ROOp.toApi, Session.step]
    split
    · exact Good.same h _
    · exact withFile_good h f (fun fh hf => readxLoop_good f _ s fh n [] h (h.files f fh hf))
  | readall f =>
    simp only [ROOp.toApi, Session.step]
    split
    · exact Good.same h _
    · exact withFile_good h f (fun fh hf => readAllLoopS_good f _ s fh [] h (h.files f fh hf))
  | extents f =>
    simp only [ROOp.toApi, Session.step]
    split
    · exact Good.same h _
    · refine withFile_good h f (fun fh hf => ?_)
      exact runOp_good h (RO.of_quiet fh.extents_quiet) (fun d a _ hinv => ⟨hinv, rfl⟩)
  | label =>
    simp only [ROOp.toApi, Session.step]
    split
    · exact Good.same h _
    · split <;> exact Good.same h _
  | labelRoot =>
    simp only [ROOp.toApi, Session.step]
    split
    · exact Good.same h _
    · split
      · exact Good.same h _
      · exact runOp_good h (readVolumeLabelFromRootDir_ro h.acc) (fun d a _ hinv => ⟨hinv, rfl⟩)
  | status =>
    simp only [ROOp.toApi, Session.step]
    split
    · exact Good.same h _
    · split
      · exact Good.same h _
      · exact runOp_good h (RO.of_quiet readStatusFlags_quiet) (fun d a _ hinv => ⟨hinv, rfl⟩)
  | stats =>
    simp only [ROOp.toApi, Session.step]
    split
    · exact Good.same h _
    · split
      · exact Good.same h _
      · unfold Session.runOp Session.exec
        rcases hr : run FatVerif.stats s.dev with ⟨r, d⟩
        have hstep : ROStep s.dev d := ⟨(stats_nw.out s.dev r d rfl hr).1, stats_fs s.dev hr⟩
        cases r with
        | ok a => obtain ⟨cs, total, free⟩ := a; exact ⟨h.setDev hstep, hstep⟩
        | error e => exact h.fatal hstep e
  | volid =>
    simp only [ROOp.toApi, Session.step]
    split
    · exact Good.same h _
    · split <;> exact Good.same h _
  | fattype =>
    simp only [ROOp.toApi, Session.step]
    split
    · exact Good.same h _
    · split <;> exact Good.same h _
  | dropf f =>
    simp only [ROOp.toApi, Session.step]
    split
    · exact Good.same h _
    · refine withFile_good h f (fun fh hf => ?_)
      exact runOp_good h (FileH.drop_clean_ro (h.files f fh hf)) (fun d a _ hinv => ⟨hinv.eraseFile f, rfl⟩)
  | dropd d =>
    simp only [ROOp.toApi, Session.step]
    split
    · exact Good.same h _
    · split
      · exact Good.same h _
      · refine withDir_good h d (fun st hst => ?_)
        exact runOp_good h (DirStream.drop_clean_ro (h.getDir hst)) (fun d' a _ hinv => ⟨hinv.eraseDir d, rfl⟩)

/-- run a list of operations -/
def Session.steps (s : Session) : List ApiOp → Session
  | [] => s
  | op :: rest => Session.steps (s.step op).1 rest

theorem steps_good : ∀ (ops : List ROOp) (s : Session), ROInv s →
    ROInv (s.steps (ops.map ROOp.toApi)) ∧ ROStep s.dev (s.steps (ops.map ROOp.toApi)).dev := by
  intro ops
  induction ops with
  | nil => intro s h; exact ⟨h, ROStep.refl _⟩
  | cons op rest ih =>
    intro s h
    have h1 := step_good s h op
    have h2 := ih _ h1.1
    exact ⟨h2.1, h1.2.trans h2.2⟩

end FatVerif
