import FatVerif.Model.Image
/-! Get/set and frame lemmas for the sparse page image `Img` (Model/Image.lean): `Img.write` changes exactly the bytes
    it is given (stored modulo 256), on images whose pages all have `pageSize` bytes (`Img.WF`; true of `Img.empty` and
    preserved by `Img.write`). -/
namespace FatVerif.Img

/-- byte `j` of a page -/
def pageByte (p : ByteArray) (j : Nat) : Nat := (p.get! j).toNat

theorem size_set! (p : ByteArray) (i : Nat) (v : UInt8) : (p.set! i v).size = p.size := by
  cases p with
  | mk data => simp [ByteArray.set!, ByteArray.size, Array.set!_eq_setIfInBounds]

theorem pageByte_set! (p : ByteArray) (i j : Nat) (v : UInt8) (hi : i < p.size) :
    pageByte (p.set! i v) j = if i = j then v.toNat else pageByte p j := by
  cases p with
  | mk data =>
    have hi' : i < data.size := hi
    simp only [pageByte, ByteArray.get!, ByteArray.set!, Array.set!_eq_setIfInBounds, Array.getElem!_eq_getD,
      Array.getD_eq_getD_getElem?, Array.getElem?_setIfInBounds]
    split
    · simp
    · rfl

theorem zeroPage_size : zeroPage.size = pageSize := by
  simp [zeroPage, ByteArray.size]

theorem pageByte_zeroPage (j : Nat) : pageByte zeroPage j = 0 := by
  simp only [pageByte, zeroPage, ByteArray.get!, Array.getElem!_eq_getD, Array.getD_eq_getD_getElem?]
  by_cases h : j < pageSize
  · simp [h]
  · simp [h]; rfl

theorem getByte_eq (i : Img) (q : Nat) :
    i.getByte q = match i.pages[q / pageSize]? with
      | some p => pageByte p (q % pageSize)
      | none => 0 := rfl

/-- every stored page has `pageSize` bytes -/
def WF (i : Img) : Prop := ∀ (k : Nat) (p : ByteArray), i.pages[k]? = some p → p.size = pageSize

theorem wf_empty (n : Nat) : (Img.empty n).WF := by
  intro k p h
  simp [Img.empty] at h

/-! ### the loop of `Img.write` -/

abbrev WState := Std.HashMap Nat ByteArray × Nat × Nat × ByteArray

/-- one iteration of the loop: (pages without the page in hand, cursor, index of the page in hand, page in hand) -/
def wstep (b : Nat) (s : WState) : WState :=
  if s.2.1 / pageSize = s.2.2.1 then
    (s.1, s.2.1 + 1, s.2.2.1, s.2.2.2.set! (s.2.1 % pageSize) (UInt8.ofNat b))
  else
    ((s.1.insert s.2.2.1 s.2.2.2).erase (s.2.1 / pageSize), s.2.1 + 1, s.2.1 / pageSize,
      (((s.1.insert s.2.2.1 s.2.2.2)[s.2.1 / pageSize]?).getD zeroPage).set! (s.2.1 % pageSize) (UInt8.ofNat b))

theorem forIn_wstep (bs : List Nat) : ∀ (s : WState),
    (forIn (m := Id) bs s fun b __s =>
      if __s.snd.fst / pageSize = __s.snd.snd.fst then
        pure (ForInStep.yield (__s.fst, __s.snd.fst + 1, __s.snd.snd.fst,
          __s.snd.snd.snd.set! (__s.snd.fst % pageSize) (UInt8.ofNat b)))
      else
        pure (ForInStep.yield ((__s.fst.insert __s.snd.snd.fst __s.snd.snd.snd).erase (__s.snd.fst / pageSize),
          __s.snd.fst + 1, __s.snd.fst / pageSize,
          ((__s.fst.insert __s.snd.snd.fst __s.snd.snd.snd)[__s.snd.fst / pageSize]?.getD zeroPage).set!
            (__s.snd.fst % pageSize) (UInt8.ofNat b)))) = bs.foldl (fun s b => wstep b s) s := by
  induction bs with
  | nil => intro s; rfl
  | cons b bs ih =>
    intro s
    rw [List.forIn_cons, List.foldl_cons]
    by_cases h : s.2.1 / pageSize = s.2.2.1
    · simp only [h, if_true, wstep]
      exact ih _
    · simp only [h, if_false, wstep]
      exact ih _

/-- the final state of the loop of `write i off bs` -/
def writeLoop (i : Img) (off : Nat) (bs : List Nat) : WState :=
  bs.foldl (fun s b => wstep b s)
    (i.pages.erase (off / pageSize), off, off / pageSize, (i.pages[off / pageSize]?).getD zeroPage)

theorem write_eq (i : Img) (off : Nat) (bs : List Nat) :
    i.write off bs =
      { i with pages := (writeLoop i off bs).fst.insert (writeLoop i off bs).snd.snd.fst (writeLoop i off bs).snd.snd.snd } := by
  unfold Img.write writeLoop
  simp only [Id.run]
  have := forIn_wstep bs (i.pages.erase (off / pageSize), off, off / pageSize, (i.pages[off / pageSize]?).getD zeroPage)
  simp only [ne_eq, ite_not] at this ⊢
  rw [← this]
  rfl

/-- the byte function a loop state stands for (the page in hand put back) -/
def view (s : WState) (q : Nat) : Nat :=
  match (s.1.insert s.2.2.1 s.2.2.2)[q / pageSize]? with
  | some p => pageByte p (q % pageSize)
  | none => 0

/-- all pages of a loop state have `pageSize` bytes -/
def StateWF (s : WState) : Prop :=
  (∀ (k : Nat) (p : ByteArray), s.1[k]? = some p → p.size = pageSize) ∧ s.2.2.2.size = pageSize

theorem pageSize_pos : 0 < pageSize := by decide

theorem divmod_eq {q c : Nat} : (q / pageSize = c / pageSize ∧ q % pageSize = c % pageSize) ↔ q = c := by
  constructor
  · rintro ⟨h1, h2⟩
    rw [← Nat.div_add_mod q pageSize, ← Nat.div_add_mod c pageSize, h1, h2]
  · rintro rfl; exact ⟨rfl, rfl⟩

/-- re-focusing on another page does not change the bytes -/
theorem view_refocus (pages : Std.HashMap Nat ByteArray) (c pg n : Nat) (p : ByteArray) (q : Nat) :
    view ((pages.insert pg p).erase n, c, n, ((pages.insert pg p)[n]?).getD zeroPage) q = view (pages, c, pg, p) q := by
  simp only [view, Std.HashMap.getElem?_insert, Std.HashMap.getElem?_erase, beq_iff_eq]
  by_cases h1 : n = q / pageSize
  · subst h1
    simp only [if_true]
    by_cases h2 : pg = q / pageSize
    · simp [h2]
    · simp only [h2, if_false]
      cases pages[q / pageSize]? with
      | none => simp [pageByte_zeroPage]
      | some p' => simp
  · simp only [h1, if_false]

theorem stateWF_refocus (pages : Std.HashMap Nat ByteArray) (c pg n : Nat) (p : ByteArray)
    (h : StateWF (pages, c, pg, p)) :
    StateWF ((pages.insert pg p).erase n, c, n, ((pages.insert pg p)[n]?).getD zeroPage) := by
  have hall : ∀ (k : Nat) (p' : ByteArray), (pages.insert pg p)[k]? = some p' → p'.size = pageSize := by
    intro k p' hk
    simp only [Std.HashMap.getElem?_insert, beq_iff_eq] at hk
    split at hk
    · cases hk; exact h.2
    · exact h.1 k p' hk
  refine ⟨?_, ?_⟩
  · intro k p' hk
    simp only [Std.HashMap.getElem?_erase, beq_iff_eq] at hk
    split at hk
    · cases hk
    · exact hall k p' hk
  · show (((pages.insert pg p)[n]?).getD zeroPage).size = pageSize
    cases hx : (pages.insert pg p)[n]? with
    | none => simp [zeroPage_size]
    | some p' => simp; exact hall n p' hx

/-- writing into the page in hand -/
theorem view_setHand (pages : Std.HashMap Nat ByteArray) (c pg : Nat) (p : ByteArray) (b : Nat) (q : Nat)
    (hpg : c / pageSize = pg) (hp : p.size = pageSize) :
    view (pages, c + 1, pg, p.set! (c % pageSize) (UInt8.ofNat b)) q =
      if q = c then b % 256 else view (pages, c, pg, p) q := by
  simp only [view, Std.HashMap.getElem?_insert, beq_iff_eq]
  by_cases h1 : pg = q / pageSize
  · simp only [h1, if_true]
    rw [pageByte_set! _ _ _ _ (by rw [hp]; exact Nat.mod_lt _ pageSize_pos)]
    by_cases h2 : c % pageSize = q % pageSize
    · have : q = c := divmod_eq.mp ⟨by rw [hpg, h1], h2.symm⟩
      simp [h2, this]
    · have : ¬ q = c := fun hq => h2 (by rw [hq])
      simp [h2, this]
  · have : ¬ q = c := fun hq => h1 (by rw [hq, hpg])
    simp only [h1, if_false, this]

theorem wstep_spec (b : Nat) (s : WState) (h : StateWF s) :
    StateWF (wstep b s) ∧ (wstep b s).2.1 = s.2.1 + 1 ∧
    ∀ q, view (wstep b s) q = if q = s.2.1 then b % 256 else view s q := by
  obtain ⟨pages, c, pg, p⟩ := s
  unfold wstep
  dsimp only
  split
  · rename_i hpg
    refine ⟨⟨h.1, by show (p.set! _ _).size = _; rw [size_set!]; exact h.2⟩, rfl, fun q => ?_⟩
    exact view_setHand pages c pg p b q hpg h.2
  · have hw := stateWF_refocus pages c pg (c / pageSize) p h
    refine ⟨⟨hw.1, by show (ByteArray.set! _ _ _).size = _; rw [size_set!]; exact hw.2⟩, rfl, fun q => ?_⟩
    rw [view_setHand _ c (c / pageSize) _ b q rfl hw.2, view_refocus]

theorem foldl_wstep_spec : ∀ (bs : List Nat) (s : WState), StateWF s →
    StateWF (bs.foldl (fun s b => wstep b s) s) ∧
    ∀ q, view (bs.foldl (fun s b => wstep b s) s) q =
      if s.2.1 ≤ q ∧ q < s.2.1 + bs.length then bs.getD (q - s.2.1) 0 % 256 else view s q := by
  intro bs
  induction bs with
  | nil =>
    intro s h
    refine ⟨h, fun q => ?_⟩
    rw [if_neg (by simp only [List.length_nil]; omega)]
    rfl
  | cons b bs ih =>
    intro s h
    obtain ⟨h1, h2, h3⟩ := wstep_spec b s h
    obtain ⟨i1, i2⟩ := ih (wstep b s) h1
    refine ⟨i1, fun q => ?_⟩
    rw [List.foldl_cons, i2 q, h2, h3 q]
    simp only [List.length_cons]
    by_cases hq : q = s.2.1
    · subst hq
      rw [if_neg (by omega), if_pos rfl, if_pos (by omega), Nat.sub_self]
      rfl
    · by_cases hr : s.2.1 + 1 ≤ q ∧ q < s.2.1 + 1 + bs.length
      · have hr' : s.2.1 ≤ q ∧ q < s.2.1 + (bs.length + 1) := by omega
        rw [if_pos hr, if_pos hr']
        have : q - s.2.1 = (q - (s.2.1 + 1)) + 1 := by omega
        rw [this, List.getD_cons_succ]
      · have hr' : ¬ (s.2.1 ≤ q ∧ q < s.2.1 + (bs.length + 1)) := by omega
        rw [if_neg hr, if_neg hr', if_neg hq]

/-- **get-after-write**: `Img.write` stores the given bytes modulo 256 at `[off, off + len)` and leaves every other
    byte alone -/
theorem getByte_write (i : Img) (h : i.WF) (off : Nat) (bs : List Nat) (q : Nat) :
    (i.write off bs).getByte q =
      if off ≤ q ∧ q < off + bs.length then bs.getD (q - off) 0 % 256 else i.getByte q := by
  have h0 : StateWF (i.pages.erase (off / pageSize), off, off / pageSize, (i.pages[off / pageSize]?).getD zeroPage) := by
    refine ⟨?_, ?_⟩
    · intro k p hk
      simp only [Std.HashMap.getElem?_erase, beq_iff_eq] at hk
      split at hk
      · cases hk
      · exact h k p hk
    · show ((i.pages[off / pageSize]?).getD zeroPage).size = pageSize
      cases hx : i.pages[off / pageSize]? with
      | none => simp [zeroPage_size]
      | some p => simp; exact h _ p hx
  have hsp := (foldl_wstep_spec bs _ h0).2 q
  have hv0 : view (i.pages.erase (off / pageSize), off, off / pageSize, (i.pages[off / pageSize]?).getD zeroPage) q =
      i.getByte q := by
    rw [getByte_eq]
    simp only [view, Std.HashMap.getElem?_insert, Std.HashMap.getElem?_erase, beq_iff_eq]
    by_cases h1 : off / pageSize = q / pageSize
    · simp only [h1, if_true]
      cases i.pages[q / pageSize]? with
      | none => simp [pageByte_zeroPage]
      | some p => simp
    · simp only [h1, if_false]
  rw [write_eq, getByte_eq]
  change view (writeLoop i off bs) q = _
  unfold writeLoop
  rw [hsp, hv0]

theorem wf_write (i : Img) (h : i.WF) (off : Nat) (bs : List Nat) : (i.write off bs).WF := by
  have h0 : StateWF (i.pages.erase (off / pageSize), off, off / pageSize, (i.pages[off / pageSize]?).getD zeroPage) := by
    refine ⟨?_, ?_⟩
    · intro k p hk
      simp only [Std.HashMap.getElem?_erase, beq_iff_eq] at hk
      split at hk
      · cases hk
      · exact h k p hk
    · show ((i.pages[off / pageSize]?).getD zeroPage).size = pageSize
      cases hx : i.pages[off / pageSize]? with
      | none => simp [zeroPage_size]
      | some p => simp; exact h _ p hx
  have hsp := (foldl_wstep_spec bs _ h0).1
  rw [write_eq]
  intro k p hk
  change ((writeLoop i off bs).fst.insert (writeLoop i off bs).snd.snd.fst (writeLoop i off bs).snd.snd.snd)[k]? = some p at hk
  simp only [Std.HashMap.getElem?_insert, beq_iff_eq] at hk
  split at hk
  · cases hk; exact hsp.2
  · exact hsp.1 k p hk

/-- frame: bytes outside the written range are untouched -/
theorem getByte_write_of_not_mem (i : Img) (h : i.WF) (off : Nat) (bs : List Nat) (q : Nat)
    (hq : ¬ (off ≤ q ∧ q < off + bs.length)) : (i.write off bs).getByte q = i.getByte q := by
  rw [getByte_write i h, if_neg hq]

end FatVerif.Img
