import FatVerif.Proofs.FileSimRun
import FatVerif.Proofs.FatChains
import FatVerif.Proofs.FatSim
/-!
# FileSim, part 2: the cluster iterator on the image

`Geo fs sz`: the layout facts the simulation needs.  `tabView fs img`: the decoded FAT of the image restricted to the
table (`[0, total + 2)`; entries outside show as `bad`, as in `Fat.view`).  Forward evaluation of
`ClusterIterator::next`, `nextCluster` and the chain walk of `File::seek` in terms of `Fat.nextV (tabView fs img)`.
-/
namespace FatVerif.FileSim
open FatVerif FatVerif.Fat

/-- layout of a mounted volume on a device of `sz` bytes -/
structure Geo (fs : FsState) (sz : Nat) : Prop where
  bps_pos : 0 < fs.bps
  spc_pos : 0 < fs.spc
  /-- the status byte (0x25 / 0x41) lies before the FAT -/
  status_lt : 0x42 ≤ (fatSliceOf fs).beginOff
  /-- every entry of the table lies inside one FAT copy -/
  ents : ∀ c, c < fs.totalClusters + 2 → entOff fs.fatType c + entWidth fs.fatType ≤ (fatSliceOf fs).size
  mirrors_pos : 1 ≤ (fatSliceOf fs).mirrors
  /-- the FAT copies end before the data region -/
  fat_data : (fatSliceOf fs).beginOff + (fatSliceOf fs).mirrors * (fatSliceOf fs).size ≤ fs.firstDataSector * fs.bps
  /-- all clusters lie inside the device -/
  data_dev : clusterOff fs (fs.totalClusters + 2) ≤ sz
  /-- the u32 computations of `offset_from_cluster` do not overflow -/
  u32a : fs.totalClusters * fs.spc < 4294967296
  u32b : fs.firstDataSector + fs.totalClusters * fs.spc < 4294967296
  /-- one FAT copy is smaller than 4 GiB (entry offsets are `u32`) -/
  fat_u32 : (fatSliceOf fs).size ≤ 4294967296
  /-- cluster numbers stay below the BAD mark `0x?FF7` (FAT12/16: by `FatType::from_clusters`) -/
  small : fs.totalClusters + 2 ≤ badMark fs.fatType

/-- the decoded FAT restricted to the table -/
def tabView (fs : FsState) (img : Img) : Nat → FatValue :=
  fun c => if c < fs.totalClusters + 2 then imgFatView fs img c else .bad

theorem Geo.fat_dev {fs : FsState} {sz : Nat} (g : Geo fs sz) :
    (fatSliceOf fs).beginOff + (fatSliceOf fs).size ≤ sz := by
  have h1 := g.fat_data
  have h2 := g.data_dev
  have h3 : fs.firstDataSector * fs.bps ≤ clusterOff fs (fs.totalClusters + 2) := by
    unfold clusterOff
    exact Nat.mul_le_mul_right _ (Nat.le_add_right _ _)
  have h4 : (fatSliceOf fs).size ≤ (fatSliceOf fs).mirrors * (fatSliceOf fs).size :=
    Nat.le_mul_of_pos_left _ g.mirrors_pos
  omega

/-- a slice that differs from the FAT slice of `fs` only in its position -/
def IsFatSlice (fs : FsState) (s : DiskSlice) : Prop :=
  s.beginOff = (fatSliceOf fs).beginOff ∧ s.size = (fatSliceOf fs).size ∧
  s.mirrors = (fatSliceOf fs).mirrors ∧ s.viaFs = true

theorem fatSliceOf_viaFs (fs : FsState) : (fatSliceOf fs).viaFs = true := by
  unfold fatSliceOf; split <;> rfl

theorem isFatSlice_self (fs : FsState) : IsFatSlice fs (fatSliceOf fs) := ⟨rfl, rfl, rfl, fatSliceOf_viaFs fs⟩

theorem run_get (ft : FatType) (s : DiskSlice) (c : Nat) (d : Dev) (h : d.failAt = none)
    (hfit : entOff ft c + entWidth ft ≤ s.size) (hdev : s.beginOff + s.size ≤ d.img.size) :
    ∃ d', run (Table.get DiskSlice.strm ft s c) d =
      (.ok (Table.classify ft c (imgFatRaw ft s.beginOff d.img c),
            { s with offset := entOff ft c + entWidth ft }), d') ∧ SameStore d d' := by
  obtain ⟨d1, h1, hs1⟩ := run_getRaw ft s c d h hfit hdev
  refine ⟨d1, ?_, hs1⟩
  unfold Table.get
  rw [run_bind_ok h1]
  rfl

/-- `ClusterIterator::next` at a cluster of the table -/
theorem run_citer_next (fs : FsState) (it : Table.CIter DiskSlice) (c : Nat) (d : Dev) (h : d.failAt = none)
    (hg : Geo fs d.img.size) (hs : IsFatSlice fs it.fat) (herr : it.err = false) (hc : it.cluster = some c)
    (hin : c < fs.totalClusters + 2) :
    ∃ d' s', run (Table.CIter.next DiskSlice.strm fs.fatType it) d =
      (.ok ((nextV (tabView fs d.img) c).map Except.ok,
            { it with fat := s', cluster := nextV (tabView fs d.img) c }), d') ∧
      SameStore d d' ∧ IsFatSlice fs s' := by
  obtain ⟨d1, h1, hs1⟩ := run_get fs.fatType it.fat c d h (by rw [hs.2.1]; exact hg.ents c hin)
    (by rw [hs.1, hs.2.1]; exact hg.fat_dev)
  refine ⟨d1, { it.fat with offset := entOff fs.fatType c + entWidth fs.fatType }, ?_, hs1, ⟨hs.1, hs.2.1, hs.2.2.1, hs.2.2.2⟩⟩
  unfold Table.CIter.next
  rw [herr, hc]
  simp only [Bool.false_eq_true, if_false]
  rw [run_bind_ok h1]
  simp only [run_pure, nextV, tabView, hin, if_true, imgFatView, ← hs.1]
  rfl

end FatVerif.FileSim
