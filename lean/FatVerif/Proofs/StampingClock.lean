import FatVerif.Proofs.Prog
import FatVerif.Model.Table
import FatVerif.Model.Slice
import FatVerif.Model.File
/-! C18.4 (stamping rules), part 1: which programs read the configured clock.

`NoClock p`: no run of `p` reads the clock (`Op.now` / `Op.today`): the clock counter and its mode are the same
before and after.  It is the instance `Steps SameClock` of the generic relation framework of `Proofs/Prog.lean`, so it
composes along `bind`, `tryCatch` and `finallyDrop`; the structural descent below covers everything `File::read` and
`File::write` call before they reach their one clock read (`Io.lean`, `Slice.lean`, `Table.lean`, the cluster helpers
of `File.lean`). -/
namespace FatVerif

/-- the clock was not read: same counter, same mode -/
def SameClock (d d' : Dev) : Prop := d'.clock = d.clock ∧ d'.tick = d.tick

theorem sameClock_ok : RelOK SameClock :=
  ⟨fun _ => ⟨rfl, rfl⟩, fun _ _ _ h1 h2 => ⟨h2.1.trans h1.1, h2.2.trans h1.2⟩, fun _ _ => ⟨rfl, rfl⟩⟩

/-- the device after exactly one clock read -/
def tickOnce (d : Dev) : Dev := if d.tick then { d with clock := d.clock + clockStep } else d

theorem tickOnce_clock (d : Dev) : (tickOnce d).clock = if d.tick then d.clock + clockStep else d.clock := by
  unfold tickOnce; split <;> rfl

theorem tickOnce_frame (d : Dev) :
    (tickOnce d).tick = d.tick ∧ (tickOnce d).fs = d.fs ∧ (tickOnce d).log = d.log ∧ (tickOnce d).img = d.img ∧
    (tickOnce d).pos = d.pos := by
  unfold tickOnce; split <;> simp

theorem run_now (d : Dev) : run Prog.now d = (.ok d.clock, tickOnce d) := by
  simp only [Prog.now, run, stepOp, tickOnce]

theorem run_today (d : Dev) : run Prog.today d = (.ok d.clock, tickOnce d) := by
  simp only [Prog.today, run, stepOp, tickOnce]

def Op.isClock : Op → Bool
  | .now => true
  | .today => true
  | _ => false

theorem count_clock (d : Dev) (k : CallKind) : (d.count k).clock = d.clock ∧ (d.count k).tick = d.tick := by
  unfold Dev.count; cases k <;> simp

theorem devCall_sameClock {α} (k : CallKind) (d : Dev) (act : Dev → Except Err α × Dev)
    (hact : ∀ d0 r d1, act d0 = (r, d1) → SameClock d0 d1) {r d'} (hr : devCall k d act = (r, d')) :
    SameClock d d' := by
  unfold devCall devCallCore at hr
  have hc := count_clock d k
  split at hr
  · cases hr; exact ⟨hc.1, hc.2⟩
  · have := hact _ _ _ hr
    exact ⟨this.1.trans hc.1, this.2.trans hc.2⟩

theorem stepOp_sameClock (o : Op) (ho : o.isClock = false) (d : Dev) {r d'} (hr : stepOp o d = (r, d')) :
    SameClock d d' := by
  cases o with
  | read n =>
    simp only [stepOp] at hr
    exact devCall_sameClock _ _ _ (fun d0 r d1 h => by cases h; exact ⟨rfl, rfl⟩) hr
  | write bs =>
    simp only [stepOp] at hr
    exact devCall_sameClock _ _ _ (fun d0 r d1 h => by cases h; exact ⟨rfl, rfl⟩) hr
  | seek p =>
    simp only [stepOp] at hr
    refine devCall_sameClock _ _ _ (fun d0 r d1 h => ?_) hr
    cases p with
    | start n => cases h; exact ⟨rfl, rfl⟩
    | cur x => simp only at h; split at h <;> cases h <;> exact ⟨rfl, rfl⟩
    | fromEnd x => simp only at h; split at h <;> cases h <;> exact ⟨rfl, rfl⟩
  | flush =>
    simp only [stepOp] at hr
    exact devCall_sameClock _ _ _ (fun d0 r d1 h => by cases h; exact ⟨rfl, rfl⟩) hr
  | now => cases ho
  | today => cases ho
  | getFs => simp only [stepOp] at hr; cases hr; exact ⟨rfl, rfl⟩
  | setFs fs => simp only [stepOp] at hr; cases hr; exact ⟨rfl, rfl⟩

/-- no run of `p` reads the clock -/
def NoClock {α} (p : Prog α) : Prop := Steps SameClock p

theorem NoClock.out {α} {p : Prog α} (h : NoClock p) {d : Dev} {r d'} (hr : run p d = (r, d')) : SameClock d d' :=
  Steps.out h d r d' hr

theorem NoClock.pure {α} (a : α) : NoClock (Prog.pure a) := Steps.pure sameClock_ok a
theorem NoClock.fail {α} (e : Err) : NoClock (Prog.fail (α := α) e) := Steps.fail sameClock_ok e
theorem NoClock.op (o : Op) (ho : o.isClock = false) : NoClock (Prog.op o) :=
  ⟨fun d _ _ hr => by simp only [run] at hr; exact stepOp_sameClock o ho d hr⟩
theorem NoClock.bind {α β} {p : Prog β} {k : β → Prog α} (hp : NoClock p) (hk : ∀ b, NoClock (k b)) :
    NoClock (Prog.bind p k) := Steps.bind sameClock_ok hp hk
theorem NoClock.tryCatch {α} {p : Prog α} {h : Err → Prog α} (hp : NoClock p) (hh : ∀ e, NoClock (h e)) :
    NoClock (Prog.tryCatch p h) := Steps.tryCatch sameClock_ok hp hh
theorem NoClock.finallyDrop {α} {p : Prog α} {c : Option α → Prog Unit} (hp : NoClock p)
    (hc : ∀ o, NoClock (c o)) : NoClock (Prog.finallyDrop p c) := Steps.finallyDrop sameClock_ok hp hc

theorem NoClock.opRead (n : Nat) : NoClock (Prog.op (.read n)) := NoClock.op _ rfl
theorem NoClock.opWrite (bs : List Nat) : NoClock (Prog.op (.write bs)) := NoClock.op _ rfl
theorem NoClock.opSeek (p : SeekFrom) : NoClock (Prog.op (.seek p)) := NoClock.op _ rfl
theorem NoClock.opFlush : NoClock (Prog.op .flush) := NoClock.op _ rfl
theorem NoClock.opGetFs : NoClock (Prog.op .getFs) := NoClock.op _ rfl
theorem NoClock.opSetFs (fs : FsState) : NoClock (Prog.op (.setFs fs)) := NoClock.op _ rfl
theorem NoClock.progRead (n : Nat) : NoClock (Prog.read n) := NoClock.op _ rfl
theorem NoClock.progWrite (bs : List Nat) : NoClock (Prog.write bs) := NoClock.op _ rfl
theorem NoClock.progSeek (p : SeekFrom) : NoClock (Prog.seek p) := NoClock.op _ rfl
theorem NoClock.progSeekStart (n : Nat) : NoClock (Prog.seekStart n) := NoClock.op _ rfl
theorem NoClock.progFlush : NoClock Prog.flush := NoClock.op _ rfl
theorem NoClock.progGetFs : NoClock Prog.getFs := NoClock.op _ rfl
theorem NoClock.progSetFs (fs : FsState) : NoClock (Prog.setFs fs) := NoClock.op _ rfl
theorem NoClock.progModifyFs (f : FsState → FsState) : NoClock (Prog.modifyFs f) :=
  NoClock.bind (NoClock.op _ rfl) (fun _ => NoClock.op _ rfl)

/-- a stream none of whose methods reads the clock -/
structure StrmNoClock {σ} (S : Strm σ) : Prop where
  read : ∀ s n, NoClock (S.read s n)
  write : ∀ s bs, NoClock (S.write s bs)
  seek : ∀ s p, NoClock (S.seek s p)

/-- one step of structural descent (same shape as `iosafe_step`) -/
syntax "noclock_step" ("[" Lean.Parser.Tactic.SolveByElim.arg,* "]")? : tactic
macro_rules
  | `(tactic| noclock_step) => `(tactic| noclock_step [])
  | `(tactic| noclock_step [$ts,*]) => `(tactic| first
    | with_reducible_and_instances exact NoClock.pure _
    | with_reducible_and_instances exact NoClock.fail _
    | with_reducible_and_instances exact NoClock.opRead _
    | with_reducible_and_instances exact NoClock.opWrite _
    | with_reducible_and_instances exact NoClock.opSeek _
    | with_reducible_and_instances exact NoClock.opFlush
    | with_reducible_and_instances exact NoClock.opGetFs
    | with_reducible_and_instances exact NoClock.opSetFs _
    | with_reducible exact NoClock.progRead _
    | with_reducible exact NoClock.progWrite _
    | with_reducible exact NoClock.progSeek _
    | with_reducible exact NoClock.progSeekStart _
    | with_reducible exact NoClock.progFlush
    | with_reducible exact NoClock.progGetFs
    | with_reducible exact NoClock.progSetFs _
    | with_reducible exact NoClock.progModifyFs _
    | intro _
    | with_reducible exact (‹StrmNoClock _›).read _ _
    | with_reducible exact (‹StrmNoClock _›).write _ _
    | with_reducible exact (‹StrmNoClock _›).seek _ _
    | apply_assumption (transparency := .reducible) (exfalso := false) (symm := false) only [*, $ts,*]
    | with_reducible_and_instances apply NoClock.bind
    | with_reducible_and_instances apply NoClock.tryCatch
    | with_reducible_and_instances apply NoClock.finallyDrop
    | dsimp only
    | split
    | rfl)

syntax "noclock" ("[" Lean.Parser.Tactic.SolveByElim.arg,* "]")? : tactic
macro_rules
  | `(tactic| noclock) => `(tactic| repeat noclock_step [])
  | `(tactic| noclock [$ts,*]) => `(tactic| repeat noclock_step [$ts,*])

/-! ### `Io.lean` -/

theorem devStrm_noClock : StrmNoClock devStrm := by
  refine ⟨?_, ?_, ?_⟩ <;> intros <;> simp only [devStrm] <;> noclock

section generic
variable {σ : Type} (S : Strm σ) (hS : StrmNoClock S)
include hS

theorem readExactLoop_noClock : ∀ fuel s n acc, NoClock (readExactLoop S fuel s n acc) := by
  intro fuel
  induction fuel with
  | zero => intros; unfold readExactLoop; noclock
  | succ k ih => intros; unfold readExactLoop; noclock

theorem readExact_noClock (s n) : NoClock (readExact S s n) := readExactLoop_noClock S hS _ _ _ _

theorem writeAllLoop_noClock : ∀ fuel s bs, NoClock (writeAllLoop S fuel s bs) := by
  intro fuel
  induction fuel with
  | zero => intros; unfold writeAllLoop; noclock
  | succ k ih => intros; unfold writeAllLoop; noclock

theorem writeAll_noClock (s bs) : NoClock (writeAll S s bs) := writeAllLoop_noClock S hS _ _ _

theorem readU8_noClock (s) : NoClock (readU8 S s) := by unfold readU8; noclock [readExact_noClock]
theorem readU16_noClock (s) : NoClock (readU16 S s) := by unfold readU16; noclock [readExact_noClock]
theorem readU32_noClock (s) : NoClock (readU32 S s) := by unfold readU32; noclock [readExact_noClock]
theorem writeU8_noClock (s v) : NoClock (writeU8 S s v) := writeAll_noClock S hS _ _
theorem writeU16_noClock (s v) : NoClock (writeU16 S s v) := writeAll_noClock S hS _ _
theorem writeU32_noClock (s v) : NoClock (writeU32 S s v) := writeAll_noClock S hS _ _

theorem writeChunks_noClock : ∀ cs s, NoClock (writeChunks S s cs) := by
  intro cs
  induction cs with
  | nil => intros; unfold writeChunks; noclock
  | cons c rest ih => intros; unfold writeChunks; noclock [writeAll_noClock]

theorem writeZerosLoop_noClock : ∀ fuel s len, NoClock (writeZerosLoop S fuel s len) := by
  intro fuel
  induction fuel with
  | zero => intros; unfold writeZerosLoop; noclock
  | succ k ih => intros; unfold writeZerosLoop; noclock [writeAll_noClock]

theorem writeZeros_noClock (s len) : NoClock (writeZeros S s len) := writeZerosLoop_noClock S hS _ _ _

end generic

/-! ### `Slice.lean` -/

theorem setDirtyFlag_noClock (b : Bool) : NoClock (setDirtyFlag b) := by
  unfold setDirtyFlag; noclock [writeU8_noClock, devStrm_noClock]

theorem adapterStrm_noClock : StrmNoClock adapterStrm := by
  refine ⟨?_, ?_, ?_⟩ <;> intros <;> simp only [adapterStrm] <;> noclock [setDirtyFlag_noClock]

theorem DiskSlice.inner_noClock (s : DiskSlice) : StrmNoClock s.inner := by
  unfold DiskSlice.inner; split
  · exact adapterStrm_noClock
  · exact devStrm_noClock

theorem DiskSlice.read_noClock (s : DiskSlice) (n : Nat) : NoClock (s.read n) := by
  have := s.inner_noClock
  unfold DiskSlice.read; noclock

theorem DiskSlice.writeMirrors_noClock (s : DiskSlice) (off : Nat) (bs : List Nat) :
    ∀ k i, NoClock (s.writeMirrors off bs k i) := by
  have := s.inner_noClock
  intro k
  induction k with
  | zero => intros; unfold DiskSlice.writeMirrors; noclock
  | succ k ih => intros; unfold DiskSlice.writeMirrors; noclock [writeAll_noClock]

theorem DiskSlice.write_noClock (s : DiskSlice) (bs : List Nat) : NoClock (s.write bs) := by
  unfold DiskSlice.write; noclock [DiskSlice.writeMirrors_noClock]

theorem DiskSlice.seek_noClock (s : DiskSlice) (p : SeekFrom) : NoClock (s.seek p) := by
  unfold DiskSlice.seek; noclock

theorem DiskSlice.strm_noClock : StrmNoClock DiskSlice.strm :=
  ⟨DiskSlice.read_noClock, DiskSlice.write_noClock, DiskSlice.seek_noClock⟩

/-! ### `Table.lean` -/

namespace Table
section generic
variable {σ : Type} (S : Strm σ) (hS : StrmNoClock S)
include hS

theorem getRaw_noClock (ft s c) : NoClock (getRaw S ft s c) := by
  unfold getRaw; noclock [readU16_noClock, readU32_noClock]

theorem get_noClock (ft s c) : NoClock (get S ft s c) := by
  unfold get; noclock [getRaw_noClock]

theorem set_noClock (ft s c v) : NoClock (set S ft s c v) := by
  unfold set; noclock [getRaw_noClock, readU16_noClock, writeU16_noClock, writeU32_noClock]

theorem findFree12Loop_noClock : ∀ fuel s c endC packed, NoClock (findFree12Loop S fuel s c endC packed) := by
  intro fuel
  induction fuel with
  | zero => intros; unfold findFree12Loop; noclock
  | succ k ih => intros; unfold findFree12Loop; noclock [readU16_noClock, readU8_noClock]

theorem findFreeLoop_noClock (ft) : ∀ fuel s c endC, NoClock (findFreeLoop S ft fuel s c endC) := by
  intro fuel
  induction fuel with
  | zero => intros; unfold findFreeLoop; noclock
  | succ k ih => intros; unfold findFreeLoop; noclock [readU16_noClock, readU32_noClock]

theorem findFree_noClock (ft s start endC) : NoClock (findFree S ft s start endC) := by
  unfold findFree; noclock [readU16_noClock, findFree12Loop_noClock, findFreeLoop_noClock]

theorem allocCluster_noClock (ft s prev hint total) : NoClock (allocCluster S ft s prev hint total) := by
  unfold allocCluster; noclock [findFree_noClock, set_noClock]

theorem CIter.next_noClock (ft) (it : CIter σ) : NoClock (CIter.next S ft it) := by
  unfold CIter.next; noclock [get_noClock]

end generic
end Table

/-! ### cluster helpers of `File.lean` -/

theorem offsetFromClusterP_noClock (fs c) : NoClock (offsetFromClusterP fs c) := by
  unfold offsetFromClusterP; noclock

theorem nextCluster_noClock (c) : NoClock (nextCluster c) := by
  unfold nextCluster; noclock [Table.CIter.next_noClock, DiskSlice.strm_noClock]

theorem allocClusterFs_noClock (prev zero) : NoClock (allocClusterFs prev zero) := by
  unfold allocClusterFs
  noclock [Table.allocCluster_noClock, DiskSlice.strm_noClock, offsetFromClusterP_noClock, writeZeros_noClock,
    devStrm_noClock]

theorem FileH.boundaryCluster_noClock (f : FileH) : NoClock f.boundaryCluster := by
  unfold FileH.boundaryCluster; noclock [nextCluster_noClock]

/-- `DirEntryEditor::flush` / `File::flush` write and flush, they never read the clock -/
theorem FileH.flushDirEntry_noClock (f : FileH) : NoClock f.flushDirEntry := by
  unfold FileH.flushDirEntry; noclock [writeChunks_noClock, devStrm_noClock]

theorem FileH.flush_noClock (f : FileH) : NoClock f.flush := by
  unfold FileH.flush; noclock [FileH.flushDirEntry_noClock]

end FatVerif
