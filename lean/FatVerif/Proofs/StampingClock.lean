import FatVerif.Proofs.Prog
import FatVerif.Model.File
/-! C18.4 (stamping rules), part 1: the clock of an API operation.

The history clock advances once per API operation — in `Dev.resetOp`, at the start of the operation — and never
inside one: `Op.now` / `Op.today` return `d.clock` and change nothing, and no other primitive step touches the clock.
So every program sees ONE clock value for its whole run (`run_sameClock`), however many `TimeProvider` calls it makes;
the number of clock reads is not observable, which is what makes the correspondence robust against refactorings that
read the clock more or less often. -/
namespace FatVerif

/-- same clock counter, same clock mode -/
def SameClock (d d' : Dev) : Prop := d'.clock = d.clock ∧ d'.tick = d.tick

theorem sameClock_ok : RelOK SameClock :=
  ⟨fun _ => ⟨rfl, rfl⟩, fun _ _ _ h1 h2 => ⟨h2.1.trans h1.1, h2.2.trans h1.2⟩, fun _ _ => ⟨rfl, rfl⟩⟩

/-- a clock read returns the operation's clock value and changes nothing -/
theorem run_now (d : Dev) : run Prog.now d = (.ok d.clock, d) := by
  simp only [Prog.now, run, stepOp]

theorem run_today (d : Dev) : run Prog.today d = (.ok d.clock, d) := by
  simp only [Prog.today, run, stepOp]

theorem count_clock (d : Dev) (k : CallKind) : (d.count k).clock = d.clock ∧ (d.count k).tick = d.tick := by
  unfold Dev.count; cases k <;> simp

theorem devCall_sameClock {α} (k : CallKind) (d : Dev) (act : Dev → Except Err α × Dev)
    (hact : ∀ d0 r d1, act d0 = (r, d1) → SameClock d0 d1) {r d'} (hr : devCall k d act = (r, d')) :
    SameClock d d' := by
  unfold devCall devCallCore at hr
  have hc := count_clock d k
  split at hr
  · cases hr; exact ⟨hc.1, hc.2⟩
  · have := hact _ _ _ hr
    exact ⟨this.1.trans hc.1, this.2.trans hc.2⟩

/-- no primitive step changes the clock -/
theorem stepOp_sameClock (o : Op) (d : Dev) {r d'} (hr : stepOp o d = (r, d')) : SameClock d d' := by
  cases o with
  | read n =>
    simp only [stepOp] at hr
    exact devCall_sameClock _ _ _ (fun d0 r d1 h => by cases h; exact ⟨rfl, rfl⟩) hr
  | write bs =>
    simp only [stepOp] at hr
    exact devCall_sameClock _ _ _ (fun d0 r d1 h => by cases h; exact ⟨rfl, rfl⟩) hr
  | seek p =>
    simp only [stepOp] at hr
    refine devCall_sameClock _ _ _ (fun d0 r d1 h => ?_) hr
    cases p with
    | start n => cases h; exact ⟨rfl, rfl⟩
    | cur x => simp only at h; split at h <;> cases h <;> exact ⟨rfl, rfl⟩
    | fromEnd x => simp only at h; split at h <;> cases h <;> exact ⟨rfl, rfl⟩
  | flush =>
    simp only [stepOp] at hr
    exact devCall_sameClock _ _ _ (fun d0 r d1 h => by cases h; exact ⟨rfl, rfl⟩) hr
  | now => simp only [stepOp] at hr; cases hr; exact ⟨rfl, rfl⟩
  | today => simp only [stepOp] at hr; cases hr; exact ⟨rfl, rfl⟩
  | getFs => simp only [stepOp] at hr; cases hr; exact ⟨rfl, rfl⟩
  | setFs fs => simp only [stepOp] at hr; cases hr; exact ⟨rfl, rfl⟩

/-- **no program changes the clock**: whatever `p` does — device calls, clock reads, error handling, destructors —
    the device afterwards has the clock value and mode it started with (instance of the `Steps` framework) -/
theorem run_sameClock {α} {p : Prog α} {d : Dev} {r : Except Err α} {d' : Dev} (hr : run p d = (r, d')) :
    SameClock d d' :=
  (steps_of_ops sameClock_ok (fun o d _ _ h => stepOp_sameClock o d h) p).out d r d' hr

/-- the clock advances exactly at the start of an API operation, by one step in tick mode, not at all otherwise -/
theorem resetOp_clock (d : Dev) (failAt : Option Nat) :
    (d.resetOp failAt).clock = (if d.tick then d.clock + Dev.clockStep else d.clock) ∧ (d.resetOp failAt).tick = d.tick := by
  unfold Dev.resetOp; exact ⟨rfl, rfl⟩

end FatVerif
