import FatVerif.Proofs.DirReadSim11
/-! Directory reads, part 12: the FAILING path walks — `open_dir` / `open_file` fail with the error of the pure
    resolution (a component missing or of the wrong kind, or the fuel exhausted). -/
namespace FatVerif.DirSim

theorem FailsV.finallyDrop {α} {p : Prog α} {c : Option α → Prog Unit} {d : Dev} {e : Err} (h : FailsV p d e)
    (hc : ∀ d1, SameVol d d1 → Reads (c none) d1 ()) : FailsV (Prog.finallyDrop p c) d e := by
  obtain ⟨d1, hr, hs⟩ := h
  by_cases hh : e = .hang
  · exact ⟨d1, by simp only [run, hr, hh, if_true], hs⟩
  · have hs1 : SameVol d { d1 with dropDepth := d1.dropDepth + 1 } := ⟨hs.img, hs.fs, hs.failAt, hs.writesOf⟩
    obtain ⟨d2, hr2, hs2⟩ := hc _ hs1
    refine ⟨{ d2 with dropDepth := d2.dropDepth - 1 }, ?_, ?_⟩
    · simp only [run, hr, hh, if_false, hr2]
    · have := hs1.trans hs2
      exact ⟨this.img, this.fs, this.failAt, this.writesOf⟩

/-- **failing pure path resolution**: where and with which error the walk stops -/
inductive ResolveFails (d : Dev) (env : Env) (kind : Option Bool) : Nat → DirStream → String → Err → Prop
  | hang {st : DirStream} {path : String} : ResolveFails d env kind 0 st path .hang
  | last {fuel : Nat} {st : DirStream} {path name : String} {err : Err} (hsp : Names.splitPath path = (name, none))
      (V : DirView d st) (hl : V.lookup env name kind = .error err) : ResolveFails d env kind (fuel + 1) st path err
  | mid {fuel : Nat} {st : DirStream} {path name rest : String} {err : Err}
      (hsp : Names.splitPath path = (name, some rest)) (V : DirView d st)
      (hl : V.lookup env name (some true) = .error err) : ResolveFails d env kind (fuel + 1) st path err
  | step {fuel : Nat} {st : DirStream} {path name rest : String} {e : DirEntry} {err : Err}
      (hsp : Names.splitPath path = (name, some rest)) (V : DirView d st)
      (hl : V.lookup env name (some true) = .ok e) (V' : DirView d (DirEntry.dirStream d.fs e))
      (hr : ResolveFails d env kind fuel (DirEntry.dirStream d.fs e) rest err) :
      ResolveFails d env kind (fuel + 1) st path err

/-- **`open_dir`, failing**: the error of the pure resolution, the volume kept -/
theorem openDir_fails {d : Dev} {env : Env} : ∀ {fuel : Nat} {st : DirStream} {path : String} {err : Err},
    ResolveFails d env (some true) fuel st path err → ∀ d1, SameVol d d1 → FailsV (openDir env fuel st path) d1 err := by
  intro fuel st path err h
  induction h with
  | hang => intro d1 _; exact ⟨d1, rfl, SameVol.refl d1⟩
  | @last fuel st path name err hsp V hl =>
    intro d1 hv
    unfold openDir
    refine FailsV.bind_right (Reads.getFs d1) (fun d2 hs2 => ?_)
    rw [hv.fs, hsp]
    simp only
    have hf := V.findEntry_sim env name (some true) d2 (hv.trans hs2)
    rw [hl] at hf
    exact FailsV.bind_left hf
  | @mid fuel st path name rest err hsp V hl =>
    intro d1 hv
    unfold openDir
    refine FailsV.bind_right (Reads.getFs d1) (fun d2 hs2 => ?_)
    rw [hv.fs, hsp]
    simp only
    have hf := V.findEntry_sim env name (some true) d2 (hv.trans hs2)
    rw [hl] at hf
    exact FailsV.bind_left hf
  | @step fuel st path name rest e err hsp V hl V' hr ih =>
    intro d1 hv
    unfold openDir
    refine FailsV.bind_right (Reads.getFs d1) (fun d2 hs2 => ?_)
    rw [hv.fs, hsp]
    simp only
    have hf := V.findEntry_sim env name (some true) d2 (hv.trans hs2)
    rw [hl] at hf
    refine FailsV.bind_right hf (fun d3 hs3 => ?_)
    obtain ⟨_, _, _, _, hk⟩ := V.lookup_ok env _ _ hl
    refine FailsV.bind_right (toDir_sim d.fs _ (hk true rfl) d3) (fun d4 hs4 => ?_)
    have hv4 := ((hv.trans hs2).trans hs3).trans hs4
    exact FailsV.finallyDrop (ih d4 hv4) (fun d5 hs5 => V'.drop_sim d5 (hv4.trans hs5))

/-- **`open_file`, failing** -/
theorem openFile_fails {d : Dev} {env : Env} : ∀ {fuel : Nat} {st : DirStream} {path : String} {err : Err},
    ResolveFails d env (some false) fuel st path err → ∀ d1, SameVol d d1 →
    FailsV (openFile env fuel st path) d1 err := by
  intro fuel st path err h
  induction h with
  | hang => intro d1 _; exact ⟨d1, rfl, SameVol.refl d1⟩
  | @last fuel st path name err hsp V hl =>
    intro d1 hv
    unfold openFile
    refine FailsV.bind_right (Reads.getFs d1) (fun d2 hs2 => ?_)
    rw [hv.fs, hsp]
    simp only
    have hf := V.findEntry_sim env name (some false) d2 (hv.trans hs2)
    rw [hl] at hf
    exact FailsV.bind_left hf
  | @mid fuel st path name rest err hsp V hl =>
    intro d1 hv
    unfold openFile
    refine FailsV.bind_right (Reads.getFs d1) (fun d2 hs2 => ?_)
    rw [hv.fs, hsp]
    simp only
    have hf := V.findEntry_sim env name (some true) d2 (hv.trans hs2)
    rw [hl] at hf
    exact FailsV.bind_left hf
  | @step fuel st path name rest e err hsp V hl V' hr ih =>
    intro d1 hv
    unfold openFile
    refine FailsV.bind_right (Reads.getFs d1) (fun d2 hs2 => ?_)
    rw [hv.fs, hsp]
    simp only
    have hf := V.findEntry_sim env name (some true) d2 (hv.trans hs2)
    rw [hl] at hf
    refine FailsV.bind_right hf (fun d3 hs3 => ?_)
    obtain ⟨_, _, _, _, hk⟩ := V.lookup_ok env _ _ hl
    refine FailsV.bind_right (toDir_sim d.fs _ (hk true rfl) d3) (fun d4 hs4 => ?_)
    have hv4 := ((hv.trans hs2).trans hs3).trans hs4
    exact FailsV.finallyDrop (ih d4 hv4) (fun d5 hs5 => V'.drop_sim d5 (hv4.trans hs5))

end FatVerif.DirSim
