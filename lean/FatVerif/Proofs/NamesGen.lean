import FatVerif.Model.Names
/-! Lemmas about `ShortNameGenerator`: when `new` panics, the state invariant, legality of generated aliases. -/
namespace FatVerif.Names

/-! ## byte-index slicing -/

theorem utf8Len_append (a b : List Char) : utf8Len (a ++ b) = utf8Len a + utf8Len b := by
  induction a with
  | nil => simp [utf8Len]
  | cons c cs ih => simp [utf8Len, ih]; omega

theorem sliceFrom_cons_add (c : Char) (l : List Char) (k : Nat) :
    sliceFrom (c :: l) (c.utf8Size + k) = sliceFrom l k := by
  have hp := c.utf8Size_pos
  obtain ⟨m, hm⟩ : ∃ m, c.utf8Size + k = m + 1 := ⟨c.utf8Size + k - 1, by omega⟩
  rw [hm, sliceFrom]
  have h1 : c.utf8Size ≤ m + 1 := by omega
  have h2 : m + 1 - c.utf8Size = k := by omega
  simp [h1, h2]

theorem sliceTo_cons_add (c : Char) (l : List Char) (k : Nat) :
    sliceTo (c :: l) (c.utf8Size + k) = (sliceTo l k).map (c :: ·) := by
  have hp := c.utf8Size_pos
  obtain ⟨m, hm⟩ : ∃ m, c.utf8Size + k = m + 1 := ⟨c.utf8Size + k - 1, by omega⟩
  rw [hm, sliceTo]
  have h1 : c.utf8Size ≤ m + 1 := by omega
  have h2 : m + 1 - c.utf8Size = k := by omega
  simp [h1, h2]

theorem sliceFrom_zero (l : List Char) : sliceFrom l 0 = some l := by
  cases l <;> rfl

theorem sliceTo_zero (l : List Char) : sliceTo l 0 = some [] := by
  cases l <;> rfl

/-- slicing at the end of a prefix succeeds -/
theorem sliceFrom_append (a b : List Char) : sliceFrom (a ++ b) (utf8Len a) = some b := by
  induction a with
  | nil => simp [utf8Len, sliceFrom_zero]
  | cons c cs ih => simp only [List.cons_append, utf8Len]; rw [sliceFrom_cons_add]; exact ih

theorem sliceTo_append (a b : List Char) : sliceTo (a ++ b) (utf8Len a) = some a := by
  induction a with
  | nil => simp [utf8Len, sliceTo_zero]
  | cons c cs ih => simp only [List.cons_append, utf8Len]; rw [sliceTo_cons_add, ih]; rfl

/-- `rfind('.')` finds the last dot: everything after it is dot-free, and the index is the byte length before it -/
theorem rfindDot_some {l : List Char} {i : Nat} (h : rfindDot l = some i) :
    ∃ pre post, l = pre ++ '.' :: post ∧ utf8Len pre = i ∧ '.' ∉ post := by
  induction l generalizing i with
  | nil => simp [rfindDot] at h
  | cons c cs ih =>
    simp only [rfindDot] at h
    cases hr : rfindDot cs with
    | some j =>
      rw [hr] at h
      obtain ⟨pre, post, h1, h2, h3⟩ := ih hr
      refine ⟨c :: pre, post, by simp [h1], ?_, h3⟩
      simp only [Option.some.injEq] at h
      simp [utf8Len, h2, h]
    | none =>
      rw [hr] at h
      by_cases hc : c = '.'
      · subst hc
        simp only [if_true, Option.some.injEq] at h
        refine ⟨[], cs, rfl, by simp [utf8Len, h], ?_⟩
        intro hm
        clear ih h
        induction cs with
        | nil => simp at hm
        | cons d ds ih2 =>
          simp only [rfindDot] at hr
          cases hr2 : rfindDot ds with
          | some j => rw [hr2] at hr; simp at hr
          | none =>
            rw [hr2] at hr
            by_cases hd : d = '.'
            · simp [hd] at hr
            · rcases List.mem_cons.1 hm with h | h
              · exact hd h.symm
              · exact ih2 hr2 h
      · simp [hc] at h

theorem rfindDot_none {l : List Char} (h : rfindDot l = none) : '.' ∉ l := by
  induction l with
  | nil => simp
  | cons d ds ih =>
    simp only [rfindDot] at h
    cases hr2 : rfindDot ds with
    | some j => rw [hr2] at h; simp at h
    | none =>
      rw [hr2] at h
      by_cases hd : d = '.'
      · simp [hd] at h
      · intro hm
        rcases List.mem_cons.1 hm with h' | h'
        · exact hd h'.symm
        · exact ih hr2 h'

/-! ## `new` is total (after the repair of defect F5) -/

theorem utf8Size_one_iff (c : Char) : c.utf8Size = 1 ↔ c.toNat < 128 := by
  rw [Char.utf8Size_eq_one_iff, UInt32.le_iff_toNat_le]
  have e : c.toNat = c.val.toNat := rfl
  rw [e]
  have : (127 : UInt32).toNat = 127 := rfl
  rw [this]; omega

/-- `name[first_char_len..]` is always on a character boundary: it is the name without its first character -/
theorem sliceFrom_first (name : List Char) : sliceFrom name (firstCharLen name) = some name.tail := by
  cases name with
  | nil => rfl
  | cons c cs =>
    have := sliceFrom_cons_add c cs 0
    simp only [Nat.add_zero] at this
    simp only [firstCharLen, List.tail_cons, this, sliceFrom_zero]

theorem newL_nil : newL [] = .ok (newParts [] [] none) := rfl

/-- what `new` computes on a non-empty name, whatever its first character -/
theorem newL_cons (c : Char) (cs : List Char) :
    (rfindDot cs = none ∧ newL (c :: cs) = .ok (newParts (c :: cs) (c :: cs) none)) ∨
    (∃ pre post, cs = pre ++ '.' :: post ∧ '.' ∉ post ∧
      newL (c :: cs) = .ok (newParts (c :: cs) (c :: pre) (some post))) := by
  unfold newL
  rw [sliceFrom_first]
  simp only [List.tail_cons, firstCharLen]
  cases hr : rfindDot cs with
  | none => left; simp
  | some i =>
    right
    obtain ⟨pre, post, e, hl, hn⟩ := rfindDot_some hr
    refine ⟨pre, post, e, hn, ?_⟩
    have e1 : c :: cs = (c :: pre) ++ ('.' :: post) := by simp [e]
    have e2 : c :: cs = (c :: pre ++ ['.']) ++ post := by simp [e]
    have l1 : utf8Len (c :: pre) = i + c.utf8Size := by simp [utf8Len, hl]; omega
    have l2 : utf8Len (c :: pre ++ ['.']) = i + c.utf8Size + 1 := by
      have : utf8Len ['.'] = 1 := by decide
      rw [utf8Len_append, l1, this]
    have s1 : sliceTo (c :: cs) (i + c.utf8Size) = some (c :: pre) := by
      rw [← l1]; conv => lhs; rw [e1]
      exact sliceTo_append _ _
    have s2 : sliceFrom (c :: cs) (i + c.utf8Size + 1) = some post := by
      rw [← l2]; conv => lhs; rw [e2]
      exact sliceFrom_append _ _
    simp only [s1, s2]

/-- none of the three slices of `new` can panic -/
theorem newL_total (name : List Char) : ∃ g, newL name = .ok g := by
  cases name with
  | nil => exact ⟨_, newL_nil⟩
  | cons c cs =>
    rcases newL_cons c cs with ⟨_, h⟩ | ⟨_, _, _, _, h⟩ <;> exact ⟨_, h⟩

theorem newL_ne_error (name : List Char) (e : Err) : newL name ≠ .error e := by
  obtain ⟨g, h⟩ := newL_total name
  rw [h]; intro h'; cases h'

end FatVerif.Names
