import FatVerif.Proofs.SlotTreeImg17
/-!
# Slot trees on a device image, part 18: `rename` of a file inside the fixed root (both paths single names)

`renameFile_root_final`: `rename_internal(src, root, dst)` on a device whose image holds the slot tree ends as
`renameInternalS` says — `InvalidInput` for a dot name, `NotFound`, the error of `validate_long_name`,
`AlreadyExists`, nothing at all when the new name answers to the entry itself, or the move — and after the move the
image holds the new slot tree (one root step: the renamed record is written, then the old slots are marked deleted).
-/
namespace FatVerif
namespace SlotTreeImg
open Lfn DirSlots DirAlias SlotTree DirSim FatVerif.FileSim FatVerif.Fat

/-- scope / resources of a rename inside the root: the source, if found, is a file whose attribute byte has no
    undefined bits (the reader masks them, the model copies the byte); the new entry fits into the root region -/
def RenameRes (d : Dev) (up : Char → List Char) (slots : List (List Nat)) (ch : List (LfnEntry × Node))
    (sname dname : String) : Prop :=
  (∀ x, lookupS up slots ch sname = some x → x.2.isDir = false ∧ Lfn.byte x.1.sfn 11 < 64) ∧
  HasRoomRoot d slots dname

section final
variable {d : Dev} {up : Char → List Char} {cl : List String → Option Nat} {slots : List (List Nat)}
  {ch : List (LfnEntry × Node)}

theorem renameFile_root_final (W : ImgTreeW d up (.dir slots ch) cl) (hwf : TreeWf up (.dir slots ch)) (env : Env)
    (henv : env.upper = up) (sname dname : String) (hres : RenameRes d up slots ch sname dname)
    (hnh : (renameInternalS up 70000 (.dir slots ch) [] sname [] dname).out ≠ .error .hang) (d4 : Dev)
    (hv : SameVol d d4) :
    MOut (fun (_ : Unit) d' => VolStep d d' ∧
        ImgTreeW d' up (renameInternalS up 70000 (.dir slots ch) [] sname [] dname).tree cl)
      (renameInternal env (rootAt d.fs 0) sname (rootAt d.fs 0) dname) d4
      (outErr (renameInternalS up 70000 (.dir slots ch) [] sname [] dname)) := by
  obtain ⟨hsrc, hroom⟩ := hres
  have W4 := W.of_sameVol hv
  obtain ⟨N, tail, hR, hsl, htl, _⟩ := W4.rootImg slots ch rfl
  have hd : DirOk up slots ch := ((all_dir _ slots ch).1 hwf).1
  have hst : rootAt d.fs 0 = rootAt d4.fs 0 := by rw [hv.fs]
  rw [hst]
  have halloc := W4.lay.alloc
  have hlk : lookupL up sname.toList none
      (readDirEntries d4.fs.lfnAlloc true (srcSlots d4.img (fun o => (rootSliceOf d4.fs).beginOff + o) N)) =
      match DirSlots.findEntry up slots sname.toList with
      | none => .error .notFound
      | some e => .ok e := by
    rw [halloc, srcSlots_root hR, hsl]
    show lookupL up _ none (listing (slots ++ tail)) = _
    rw [listing_append_ends slots tail htl, lookupL_none_find]
    rfl
  have hchk : ∀ k, (DirView.ofRoot hR).check env dname k = checkForExistenceL up slots dname k 70000 := by
    intro k
    unfold DirView.check
    show checkForExistenceL env.upper (srcSlots d4.img (fun o => (rootSliceOf d4.fs).beginOff + o) N) _ _ _ = _
    rw [henv, srcSlots_root hR, hsl, check_append_ends up slots tail htl]
  unfold renameInternalS at hnh ⊢
  cases hdn : (isDotName sname || isDotName dname) with
  | true =>
    simp only [if_true]
    exact rename_dot_fails env _ _ sname dname hdn d4
  | false =>
    have hdots : (sname = "." || sname = ".." || dname = "." || dname = "..") = false := by
      rw [← isDotName_eq sname, ← isDotName_eq dname] at hdn
      simpa [Bool.or_assoc] using hdn
    simp only [hdn, Bool.false_eq_true, if_false, getAtS] at hnh ⊢
    cases hx : lookupS up slots ch sname with
    | none =>
      simp only
      have hf := lookupS_none hd hx
      rw [hf] at hlk
      refine (DirView.ofRoot hR).rename_src_fails_sim env sname dname _ hdots .notFound ?_ d4 (SameVol.refl d4)
      unfold DirView.lookup DirView.lfnEntries
      show (lookupL env.upper _ none (readDirEntries d4.fs.lfnAlloc true
        (srcSlots d4.img (fun o => (rootSliceOf d4.fs).beginOff + o) N))).map _ = _
      rw [henv, hlk]; rfl
    | some x =>
      simp only [hx] at hnh ⊢
      obtain ⟨hfx, hxm, hxl, _⟩ := lookupS_some hd hx
      rw [hfx] at hlk
      obtain ⟨hfile, h64⟩ := hsrc x hx
      have hsfn : Lfn.isDir x.1.sfn = false := by rw [hd.kind x hxm]; exact hfile
      have hlook : (DirView.ofRoot hR).lookup env sname none =
          .ok (toDirEntryS (fun o => (rootSliceOf d4.fs).beginOff + o) x.1) := by
        unfold DirView.lookup DirView.lfnEntries
        show (lookupL env.upper _ none (readDirEntries d4.fs.lfnAlloc true
          (srcSlots d4.img (fun o => (rootSliceOf d4.fs).beginOff + o) N))).map _ = _
        rw [henv, hlk]; rfl
      cases hval : Names.validateLongName dname with
      | error err =>
        simp only
        exact rename_invalid_fails (DirView.ofRoot hR) env sname dname _ hdots _ hlook err hval d4 (SameVol.refl d4)
      | ok u =>
        cases u
        simp only [hval] at hnh
        simp only
        unfold renameFinal at hnh ⊢
        simp only [hsfn, Bool.false_and, Bool.false_eq_true, if_false] at hnh ⊢
        -- the slot of the source entry was read from the image
        have hmem : x.1 ∈ readDirEntries d4.fs.lfnAlloc true
            (srcSlots d4.img (fun o => (rootSliceOf d4.fs).beginOff + o) N) := (lookupL_ok _ _ _ _ _ hlk).1
        have hsfn32 : x.1.sfn.length = 32 ∧ ∀ b ∈ x.1.sfn, b < 256 := by
          have hm := readLoop_sfn_mem d4.fs.lfnAlloc true _ _ _ _ x.1 hmem
          simp only [srcSlots, List.mem_map] at hm
          obtain ⟨j, _, hj⟩ := hm
          rw [← hj]
          exact ⟨Img.read_length _ _ _, Img.read_lt _ _ _⟩
        have hslotok := srcEntries_slotOK _ _ _ _ _ x.1 hmem
        have hfileE : (toDirEntryS (fun o => (rootSliceOf d4.fs).beginOff + o) x.1).isDir = false := by
          rw [toDirEntryS_isDir _ x.1 hslotok]; exact hsfn
        have hbx := readLoop_bounds true true slots 0 0 _ (Nat.le_refl _) x.1 hxl
        rcases check_cases up slots dname none 70000 with
          h | ⟨e, he, hk, hce⟩ | ⟨e, he, hk, hce⟩ | ⟨hf, al, hal⟩
        · rw [h] at hnh
          exact absurd rfl hnh
        · rw [hce]
          simp only
          obtain ⟨L1, L2, hl1, _, _⟩ := (findEntry_some_iff up slots _ e).1 he
          have hel : e ∈ listing slots := by rw [hl1]; simp
          have hbe := readLoop_bounds true true slots 0 0 _ (Nat.le_refl _) e hel
          obtain ⟨o1, o2⟩ := (DirView.ofRoot hR).rename_file_dst_exists_sim (DirView.ofRoot hR) halloc env sname dname
            hdots hval _ hlook hfileE e (by rw [hchk, hce]) d4 (SameVol.refl d4)
          cases heq : (e == x.1) with
          | true =>
            have hex : e = x.1 := by simpa using heq
            simp only [samePathS, prefixS, List.length_nil, BEq.rfl, Bool.and_self, if_true, outErr, done]
            obtain ⟨d', hr, hs⟩ := o1 (by rw [hex]; rfl)
            exact ⟨(), d', hr, VolStep.of_sameVol (hv.trans hs), W.of_sameVol (hv.trans hs)⟩
          | false =>
            have hne : e ≠ x.1 := by simpa using heq
            simp only [samePathS, prefixS, List.length_nil, BEq.rfl, Bool.and_self, Bool.true_and, Bool.false_eq_true,
              if_false, outErr, fail]
            refine o2 (fun hpos => hne ?_)
            refine (listing_endIdx_inj slots hd.wf.shape hxl hel ?_).symm
            have hpos' : (rootSliceOf d4.fs).beginOff + (32 * x.1.endIdx - 32) =
                (rootSliceOf d4.fs).beginOff + (32 * e.endIdx - 32) := hpos
            omega
        · simp only [kindResult] at hk
          cases hk
        · rw [hal] at hnh ⊢
          simp only [outErr, done]
          let units := Names.encodeUtf16 dname.toList
          let sfn' := renamedSfn x.1.sfn al
          obtain ⟨_, _, u1, u255, uu, unz⟩ := valid_units (cs := dname.toList) hval
          obtain ⟨hwf', hcls⟩ := rename_write_wf slots hd.wf dname 70000 al x.1.sfn (listed_class hd.wf.shape hxl) hval hal
          have hlen := C16dir.dir_alias_length _ _ _ _ _ _ hal
          have hkind : Lfn.isDir sfn' = x.2.isDir := by
            show Lfn.isDir (renamedSfn x.1.sfn al) = _
            rw [isDir_renamed _ _ hlen, hsfn, hfile]
          obtain ⟨hd1, hsub, _, _⟩ := addEntry_dirOk hd units sfn' x.2 hwf' u1 u255 uu unz hcls hkind
          have hx1 : x.1 ∈ listing (DirSlots.writeEntry slots units sfn') := hsub x.1 hxl
          have hd2 := delEntry_dirOk hd1 x.1 hx1
          let V : WView d4 (.root (sliceAt (rootSliceOf d4.fs) 0)) :=
            WView.ofRoot (rootSliceOf d4.fs) N hR.slots rfl rfl W4.lay.hB d4 hR.noFault hR.inside W4.lay.wf hR.fuel
          have hVs : V.slots d4.img = slots ++ tail := by
            show srcSlots d4.img (fun o => (rootSliceOf d4.fs).beginOff + o) N = _
            rw [srcSlots_root hR, hsl]
          have hfit := hroom N (hR.of_volStep (VolStep.of_sameVol ⟨hv.img.symm, hv.fs.symm, hv.failAt.symm, hv.writesOf.symm⟩))
          obtain ⟨d', hrun, hs, _, _, hslots', hfr⟩ := rename_file_strong V env sname dname hdots hval halloc x.1
            (by rw [henv]; exact hlk) hsfn al
            (by rw [hVs, henv, check_append_ends up slots tail htl]; exact hal)
            (by rw [hVs, findFree_append_ends slots tail htl]; exact hfit)
          refine ⟨(), d', hrun, (VolStep.of_sameVol hv).trans hs, ?_⟩
          have hser : ((toDirEntryS V.src x.1).data.renamed al).serialize = sfn' :=
            renamed_serialize x.1.sfn al hsfn32.1 hsfn32.2 hlen h64
          have hfl := DirSlots.findFree_le slots (numParts units.length + 1) (by omega)
          obtain ⟨tail', htw, htl'⟩ := writeEntry_append_ends slots tail htl units sfn' hfl
          have hb1 := readLoop_bounds true true (DirSlots.writeEntry slots units sfn') 0 0 _ (Nat.le_refl _) x.1 hx1
          have hroot' : rootDirSlots d'.fs d'.img =
              DirSlots.deleteRange (DirSlots.writeEntry slots units sfn') x.1.beginIdx x.1.endIdx ++ tail' := by
            rw [← deleteRange_append _ tail' _ _ (by omega), ← htw, ← hVs, ← hser, ← hslots']
            show _ = srcSlots d'.img (fun o => (rootSliceOf d4.fs).beginOff + o) N
            rw [← rootSliceOf_geomEq hs.geom]
            exact (srcSlots_root (hR.of_volStep hs)).symm
          have htree : updS up (delEntry x.1) [] (updS up (addEntry units sfn' x.2) [] (.dir slots ch)) =
              .dir (DirSlots.deleteRange (DirSlots.writeEntry slots units sfn') x.1.beginIdx x.1.endIdx)
                ((ch ++ [(newEntry slots units sfn', x.2)]).filter fun y => !(y.1 == x.1)) := by
            show delEntry x.1 (addEntry units sfn' x.2 (.dir slots ch)) = _
            rw [addEntry_dir hd.wf.shape _ _ _ ch u1 u255 uu unz hcls]
            rfl
          show ImgTreeW d' up (updS up (delEntry x.1) [] (updS up (addEntry units sfn' x.2) [] (.dir slots ch))) cl
          rw [htree]
          have hold : ∀ y ∈ (ch ++ [(newEntry slots units sfn', x.2)]).filter (fun y => !(y.1 == x.1)),
              y.2.isDir = true → y ∈ ch := by
            intro y hy hdy
            rcases List.mem_append.1 (List.mem_filter.1 hy).1 with h | h
            · exact h
            · simp only [List.mem_singleton] at h
              rw [h] at hdy
              simp only at hdy
              rw [hfile] at hdy; cases hdy
          refine imgTreeW_root_step W4 hR hs hfr.toG tail' hroot' htl' hold ?_
          intro q y hy hdy
          obtain ⟨_, hym, _, hyq⟩ := lookupS_some hd2 hy
          have hmem : y ∈ ch := hold y hym hdy
          unfold lookupS
          rw [DirSlots.findEntry_unique up _ hd.wf _ _ (hd.mem_listing hmem) hyq]
          exact hd.find_key hmem

end final

end SlotTreeImg
end FatVerif
