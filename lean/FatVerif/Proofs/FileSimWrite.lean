import FatVerif.Proofs.FileSimDirty
/-!
# FileSim, part 7: `File::write` without allocation simulates the cursor machine's `write`

`write_sim_noalloc`: when the cursor has a cluster (`readCluster ≠ none`: inside a cluster, or on a boundary with a next
cluster in the chain) ONE `File::write` call overwrites / extends in place.  The image changes by the status byte
(first write after mount only) and by the data bytes; the FAT is untouched.
-/
namespace FatVerif.FileSim
open FatVerif FatVerif.Fat

/-- the invariant of the machine only depends on the core fields -/
theorem AFileInv.of_coreEq {σ : Type} {isFree : σ → Nat → Prop} {a b : Cursor.AFile} {s : σ} (h : CoreEq b a)
    (hi : Cursor.AFileInv isFree a s) : Cursor.AFileInv isFree b s :=
  ⟨by rw [h.cs]; exact hi.cs_pos, by rw [h.chain]; exact hi.nodup, by rw [h.first, h.chain]; exact hi.first,
   by rw [h.size, h.chain, h.cs]; exact hi.cover, by rw [h.offset, h.size]; exact hi.off_le,
   by rw [h.size]; exact hi.size_le, by rw [h.current, h.offset, h.chain, h.cs]; exact hi.cur,
   by rw [h.chain]; exact hi.live⟩

/-- distinct clusters do not overlap: the byte `j < cs` of cluster `c` lies in `[clusterOff cur + o, … + w)` exactly
    when `c = cur` and `j ∈ [o, o + w)` -/
theorem cluster_range_iff (fs : FsState) {c cur j o w : Nat} (hc : 2 ≤ c) (hcur : 2 ≤ cur)
    (hj : j < fs.clusterSize) (how : o + w ≤ fs.clusterSize) :
    (clusterOff fs cur + o ≤ clusterOff fs c + j ∧ clusterOff fs c + j < clusterOff fs cur + o + w) ↔
    (c = cur ∧ o ≤ j ∧ j < o + w) := by
  constructor
  · rintro ⟨h1, h2⟩
    rcases Nat.lt_trichotomy c cur with hlt | heq | hgt
    · exfalso
      have := clusterOff_mono fs (show c + 1 ≤ cur by omega)
      rw [clusterOff_succ fs c hc] at this
      omega
    · subst heq; exact ⟨rfl, by omega, by omega⟩
    · exfalso
      have := clusterOff_mono fs (show cur + 1 ≤ c by omega)
      rw [clusterOff_succ fs cur hcur] at this
      omega
  · rintro ⟨rfl, h1, h2⟩
    exact ⟨by omega, by omega⟩

theorem size?_setModified (e : DirEntryEditor) (x : DateTime) : (e.setModified x).data.size? = e.data.size? := by
  unfold DirEntryEditor.setModified
  split <;> rfl

theorem size?_setSize (e : DirEntryEditor) (sz n : Nat) (h : e.data.size? = some sz) :
    (e.setSize n).data.size? = some n := by
  unfold DirEntryEditor.setSize
  rw [h]
  simp only
  split
  · unfold DirFileEntryData.size? DirFileEntryData.setSize at *
    split at h
    · rename_i hf
      have : ({ e.data with size := n } : DirFileEntryData).isFile = e.data.isFile := rfl
      simp only [this, hf, if_true]
    · cases h
  · rename_i hne
    have : n = sz := Decidable.of_not_not hne
    rw [h, this]

/-- `update_dir_entry_after_write` for a regular file: the recorded size grows to the cursor if it is beyond -/
theorem run_updateAfterWrite (f : FileH) (d : Dev) (sz : Nat) (hsz : f.size? = some sz) :
    ∃ f', run f.updateAfterWrite d = (.ok f', d) ∧ f'.firstCluster = f.firstCluster ∧
      f'.currentCluster = f.currentCluster ∧ f'.offset = f.offset ∧
      f'.size? = some (if f.offset > sz then f.offset else sz) := by
  unfold FileH.size? at hsz
  unfold FileH.updateAfterWrite
  cases he : f.entry with
  | none => rw [he] at hsz; cases hsz
  | some e =>
    rw [he] at hsz
    simp only
    have hn : run Prog.now d = (.ok d.clock, d) := rfl
    rw [run_bind_ok hn]
    have h1 : (e.setModified (clockDateTime d.clock)).data.size? = some sz := by
      rw [size?_setModified]; exact hsz
    simp only [h1]
    refine ⟨_, rfl, rfl, rfl, rfl, ?_⟩
    unfold FileH.size?
    simp only
    split
    · exact size?_setSize _ sz _ h1
    · exact h1

/-- "Get cluster for write possibly allocating new one" -/
def selCluster (f : FileH) (fs : FsState) : Prog (Nat × FileH) :=
  if f.offset % fs.clusterSize = 0 then do
    let nxt ← f.boundaryCluster
    match nxt with
    | some n => pure (n, f)
    | none => do
      let c ← allocClusterFs f.currentCluster f.isDir
      let f := if f.firstCluster.isNone then FileH.setFirstCluster fs f c else f
      pure (c, f)
  else
    match f.currentCluster with
    | some n => pure (n, f)
    | none => .fail .panic

/-- the rest of `File::write` once the cluster is known -/
def writeTail (f0 : FileH) (fs : FsState) (buf : List Nat) (w : Nat) (x : Nat × FileH) : Prog (Nat × FileH) := do
  let off ← offsetFromClusterP fs x.1
  let _ ← Prog.seekStart (off + f0.offset % fs.clusterSize)
  let n ← Prog.write (buf.take w)
  if n = 0 then pure (0, x.2)
  else do
    let f ← ({ x.2 with offset := x.2.offset + n, currentCluster := some x.1 } : FileH).updateAfterWrite
    pure (n, f)

/-- `write_size` -/
def writeLenH (f : FileH) (fs : FsState) (n : Nat) : Nat :=
  min (min n (fs.clusterSize - f.offset % fs.clusterSize)) (4294967295 - f.offset)

/-- `FileH.write` restated with `selCluster` / `writeTail` -/
theorem write_eq (f : FileH) (buf : List Nat) :
    f.write buf = (Prog.getFs >>= fun fs =>
      if writeLenH f fs buf.length = 0 then pure (0, f)
      else (setDirtyFlag true >>= fun _ => selCluster f fs >>= fun x =>
        writeTail f fs buf (writeLenH f fs buf.length) x)) := by
  unfold FileH.write selCluster writeTail writeLenH
  rfl

/-- **`write_sim_noalloc`.**  ONE `File::write` call of bytes (`< 256`) when no allocation is needed (nothing to
    write, or the cursor has a cluster).  The call succeeds with the machine's count (clipped at the cluster boundary
    and at `u32::MAX`); the allocator state of the machine is not consulted; the new handle on the new image is
    core-equal to the machine's new state `put` and represented again; the FAT copy and every byte from `0x42` on
    other than the `k` data bytes at the cursor's device position are unchanged. -/
theorem write_sim_noalloc {σ : Type} (A : Cursor.Allocator σ) (s : σ) (f : FileH) (buf : List Nat) (d : Dev)
    (hfa : d.failAt = none) (hg : Geo d.fs d.img.size) (hrep : FileRep d.fs d.img f) (hwf : d.img.WF)
    (hbytes : ∀ b ∈ buf, b < 256)
    (hno : (absFile d.fs d.img f).writeLen buf.length = 0 ∨ (absFile d.fs d.img f).readCluster ≠ none) :
    ∃ k f' d', run (f.write buf) d = (.ok (k, f'), d') ∧ DevStep d d' ∧
      ((absFile d.fs d.img f).write A s buf).1 = .ok k ∧ ((absFile d.fs d.img f).write A s buf).2.2 = s ∧
      CoreEq (absFile d'.fs d'.img f') ((absFile d.fs d.img f).write A s buf).2.1 ∧
      FileRep d'.fs d'.img f' ∧ tabView d'.fs d'.img = tabView d.fs d.img ∧ d'.fs.fsInfo = d.fs.fsInfo ∧
      (∀ q, d'.img.getByte q ≠ d.img.getByte q → q = statusOff d.fs ∨
        ∃ cur, (absFile d.fs d.img f).readCluster = some cur ∧
          clusterOff d.fs cur + f.offset % d.fs.clusterSize ≤ q ∧
          q < clusterOff d.fs cur + f.offset % d.fs.clusterSize + k) ∧
      (∀ E D : Nat → Prop, (∀ x ∈ fileChain d.fs d.img f, D x) → Trace d.fs E D d d') := by
  obtain ⟨sz, hsz⟩ := hrep.file
  have hinv := hrep.inv
  have hasz : (absFile d.fs d.img f).size = sz := by simp [absFile, hsz]
  have hcsp := hg.cs_pos
  have hmod : f.offset % d.fs.clusterSize < d.fs.clusterSize := Nat.mod_lt _ hcsp
  have hoff : f.offset ≤ sz := by have := hinv.off_le; rw [hasz] at this; exact this
  have hszle : sz ≤ 4294967295 := by have := hinv.size_le; rw [hasz] at this; exact this
  have hwl : (absFile d.fs d.img f).writeLen buf.length =
      min (min buf.length (d.fs.clusterSize - f.offset % d.fs.clusterSize)) (4294967295 - f.offset) := rfl
  rw [write_eq, run_bind_ok (run_getFs d)]
  unfold Cursor.AFile.write
  rw [hwl]
  show ∃ k f' d', run (if min (min buf.length (d.fs.clusterSize - f.offset % d.fs.clusterSize))
      (4294967295 - f.offset) = 0 then _ else _) d = _ ∧ _
  by_cases hw0 : min (min buf.length (d.fs.clusterSize - f.offset % d.fs.clusterSize)) (4294967295 - f.offset) = 0
  · rw [if_pos hw0, if_pos hw0]
    exact ⟨0, f, d, rfl, DevStep.refl d, rfl, rfl, CoreEq.refl _, hrep, rfl, rfl, fun q h => absurd rfl h,
      fun E D _ => Trace.refl _ E D d⟩
  · rw [if_neg hw0, if_neg hw0]
    generalize hww : min (min buf.length (d.fs.clusterSize - f.offset % d.fs.clusterSize)) (4294967295 - f.offset) = w
      at hw0
    have hwb : w ≤ buf.length ∧ w ≤ d.fs.clusterSize - f.offset % d.fs.clusterSize ∧ w ≤ 4294967295 - f.offset := by
      omega
    -- the cluster of the cursor
    have hrcn : (absFile d.fs d.img f).readCluster ≠ none := by
      rcases hno with h0 | h
      · rw [hwl, hww] at h0; exact absurd h0 hw0
      · exact h
    obtain ⟨cur, hrc⟩ : ∃ cur, (absFile d.fs d.img f).readCluster = some cur := by
      cases h : (absFile d.fs d.img f).readCluster with
      | none => exact absurd h hrcn
      | some c => exact ⟨c, rfl⟩
    have hci : (fileChain d.fs d.img f)[f.offset / d.fs.clusterSize]? = some cur := by
      have := hinv.readCluster_eq; rw [hrc] at this; exact this.symm
    have hmem : cur ∈ fileChain d.fs d.img f := List.mem_of_getElem? hci
    obtain ⟨hc2, hct⟩ := hrep.inTab cur hmem
    -- the machine's step
    have hawc : (absFile d.fs d.img f).writeCluster A s = (.ok cur, absFile d.fs d.img f, s) := by
      have hrc' := hrc
      unfold Cursor.AFile.readCluster at hrc'
      unfold Cursor.AFile.writeCluster
      by_cases hm : (absFile d.fs d.img f).offset % (absFile d.fs d.img f).cs = 0
      · rw [if_pos hm] at hrc' ⊢; rw [hrc']
      · rw [if_neg hm] at hrc' ⊢; rw [hrc']
    rw [hawc]
    simp only
    -- set_dirty_flag
    obtain ⟨d1, hr1, hs1, _, hinfo1, hb1⟩ := run_setDirtyFlag_true d hfa (by
      have := hg.status_lt; have := hg.fat_dev; omega)
    rw [run_bind_ok hr1]
    have hfa1 : d1.failAt = none := by rw [hs1.failAt]; exact hfa
    have hfat1 : FatAgree d.fs d.img d1.img := fun q h1 _ => hb1 hwf q (by have := hg.status_lt; omega)
    have hdat1 : DataAgree d.fs d.img d1.img := fun q h1 => hb1 hwf q (by
      have := hg.status_lt; have := hg.fat_data
      have : (fatSliceOf d.fs).beginOff ≤ d.fs.firstDataSector * d.fs.bps := by omega
      omega)
    have hab1 : absFile d1.fs d1.img f = absFile d.fs d.img f := absFile_frame hg f hs1.geom hfat1 hdat1
    have hrep1 : FileRep d1.fs d1.img f := hrep.frame hg hs1.geom hfat1 hdat1
    have hg1 : Geo d1.fs d1.img.size := by rw [hs1.size]; exact hg.frame hs1.geom
    -- the cluster selection of `File::write`
    have hsel : ∃ d2, run (selCluster f d.fs) d1 = (.ok (cur, f), d2) ∧ SameStore d1 d2 := by
      obtain ⟨d2, h2, hs2⟩ := run_curOpt f d1 hfa1 hg1 hrep1
      rw [hab1, hrc, hs1.geom.clusterSize] at h2
      unfold selCluster
      by_cases hm : f.offset % d.fs.clusterSize = 0
      · rw [if_pos hm] at h2 ⊢
        refine ⟨d2, ?_, hs2⟩
        rw [run_bind_ok h2]
        rfl
      · rw [if_neg hm] at h2 ⊢
        have hcc : f.currentCluster = some cur := by
          have : run (pure f.currentCluster : Prog (Option Nat)) d1 = (.ok f.currentCluster, d1) := rfl
          rw [this] at h2
          exact congrArg (fun r : Except Err (Option Nat) × Dev => match r.1 with | .ok v => v | .error _ => none) h2
        rw [hcc]
        exact ⟨d1, rfl, SameStore.refl d1⟩
    obtain ⟨d2, h2, hs2⟩ := hsel
    rw [run_bind_ok h2]
    have hwH : writeLenH f d.fs buf.length = w := hww
    unfold writeTail
    rw [hwH]
    dsimp only
    rw [run_bind_ok (run_offsetFromClusterP hg cur hc2 hct d2)]
    have hfa2 : d2.failAt = none := by rw [hs2.failAt]; exact hfa1
    rw [run_bind_ok (run_seekStart _ d2 hfa2)]
    have hdev := hg.cluster_dev hc2 hct
    have hsz2 : d2.img.size = d.img.size := by rw [hs2.img, hs1.size]
    have hlen : (buf.take w).length = w := by rw [List.length_take]; omega
    have hfit : (d2.didSeek (clusterOff d.fs cur + f.offset % d.fs.clusterSize)).pos + (buf.take w).length ≤
        (d2.didSeek (clusterOff d.fs cur + f.offset % d.fs.clusterSize)).img.size := by
      simp only [didSeek_pos, didSeek_img, hlen, hsz2]; omega
    have hmin : min (buf.take w).length ((d2.didSeek (clusterOff d.fs cur + f.offset % d.fs.clusterSize)).img.size -
        (d2.didSeek (clusterOff d.fs cur + f.offset % d.fs.clusterSize)).pos) = w := by
      rw [hlen]; simp only [didSeek_pos, didSeek_img, hsz2]; omega
    rw [run_bind_ok (run_write (buf.take w) _ (by simpa using hfa2)), hmin]
    rw [if_neg hw0]
    -- the editor
    have hsz2' : ({ f with offset := f.offset + w, currentCluster := some cur } : FileH).size? = some sz := hsz
    obtain ⟨f', hu, hf1, hf2, hf3, hf4⟩ := run_updateAfterWrite
      { f with offset := f.offset + w, currentCluster := some cur }
      (didWrite (d2.didSeek (clusterOff d.fs cur + f.offset % d.fs.clusterSize)) (buf.take w)) sz hsz2'
    rw [run_bind_ok hu]
    -- the device after the call
    generalize hd' : didWrite (d2.didSeek (clusterOff d.fs cur + f.offset % d.fs.clusterSize)) (buf.take w) = d'
    have himg' : d'.img = d1.img.write (clusterOff d.fs cur + f.offset % d.fs.clusterSize) (buf.take w) := by
      rw [← hd', didWrite_img _ _ hfit]
      show d2.img.write _ _ = _
      rw [hs2.img]
      rfl
    have hfs' : d'.fs = d1.fs := by rw [← hd']; show d2.fs = _; exact hs2.fs
    have hwf1 : d1.img.WF := hs1.wf hwf
    have hstep : DevStep d d' := by
      refine hs1.trans ⟨?_, ?_, ?_, ?_, ?_⟩
      · rw [← hd']; show d2.failAt = _; exact hs2.failAt
      · rw [himg', Img.write_size]
      · intro _; rw [himg']; exact Img.wf_write _ hwf1 _ _
      · rw [hfs']; exact FsGeomEq.refl _
      · rw [← hd']; show d2.clock = _; exact hs2.clock
    have hbyte : ∀ q, d'.img.getByte q =
        if clusterOff d.fs cur + f.offset % d.fs.clusterSize ≤ q ∧
            q < clusterOff d.fs cur + f.offset % d.fs.clusterSize + w then
          (buf.take w).getD (q - (clusterOff d.fs cur + f.offset % d.fs.clusterSize)) 0 % 256
        else d1.img.getByte q := by
      intro q; rw [himg', Img.getByte_write _ hwf1, hlen]
    have hcur_data : d.fs.firstDataSector * d.fs.bps ≤ clusterOff d.fs cur := by
      unfold clusterOff; exact Nat.mul_le_mul_right _ (Nat.le_add_right _ _)
    have hfat' : FatAgree d.fs d.img d'.img := by
      intro q h1 h2
      have := hg.fat_data
      have hm1 : (fatSliceOf d.fs).size ≤ (fatSliceOf d.fs).mirrors * (fatSliceOf d.fs).size :=
        Nat.le_mul_of_pos_left _ hg.mirrors_pos
      rw [hbyte q, if_neg (by omega)]
      exact hfat1 q h1 h2
    have htv' : tabView d'.fs d'.img = tabView d.fs d.img := by
      rw [hfs', hs1.geom.tabView, tabView_congr hg hfat']
    have hch' : fileChain d'.fs d'.img f' = fileChain d.fs d.img f := by
      unfold fileChain; rw [hf1, htv', hfs', hs1.geom.totalClusters]
    -- the machine's new state
    obtain ⟨hpi, _, _⟩ := hinv.put_refines (buf.take w) hci (by rw [hlen]; omega) (by rw [hlen]; exact hwb.2.1)
      (by rw [hlen]; show f.offset + w ≤ Cursor.u32Max; unfold Cursor.u32Max; omega)
    have hcore : CoreEq (absFile d'.fs d'.img f') ((absFile d.fs d.img f).put cur (buf.take w)) := by
      refine ⟨?_, hch', ?_, ?_, hf1, ?_, hf2⟩
      · show d'.fs.clusterSize = d.fs.clusterSize
        rw [hfs', hs1.geom.clusterSize]
      · intro c hc j hj
        have hc' : c ∈ fileChain d.fs d.img f := hc
        obtain ⟨hcc2, _⟩ := hrep.inTab c hc'
        have hj' : j < d.fs.clusterSize := hj
        show d'.img.getByte (clusterOff d'.fs c + j) =
          Cursor.AFile.putBytes (absFile d.fs d.img f).data cur (f.offset % d.fs.clusterSize) (buf.take w).toArray c j
        rw [hfs', hs1.geom.clusterOff, hbyte]
        unfold Cursor.AFile.putBytes
        simp only [List.size_toArray, hlen]
        have hiff := cluster_range_iff d.fs (c := c) (cur := cur) (j := j) (o := f.offset % d.fs.clusterSize)
          (w := w) hcc2 hc2 hj' (by omega)
        by_cases hin : c = cur ∧ f.offset % d.fs.clusterSize ≤ j ∧ j < f.offset % d.fs.clusterSize + w
        · rw [if_pos (hiff.mpr hin), if_pos hin]
          obtain ⟨rfl, h1, h2⟩ := hin
          have hidx : clusterOff d.fs c + j - (clusterOff d.fs c + f.offset % d.fs.clusterSize) =
              j - f.offset % d.fs.clusterSize := by omega
          rw [hidx]
          have hlt : j - f.offset % d.fs.clusterSize < (buf.take w).length := by rw [hlen]; omega
          have hb : (buf.take w).getD (j - f.offset % d.fs.clusterSize) 0 < 256 := by
            rw [List.getD_eq_getElem?_getD, List.getElem?_eq_getElem hlt]
            exact hbytes _ (List.mem_of_mem_take (List.getElem_mem hlt))
          rw [Nat.mod_eq_of_lt hb]
          simp
        · rw [if_neg (fun h => hin (hiff.mp h)), if_neg hin]
          show d1.img.getByte _ = d.img.getByte _
          exact hdat1 _ (by
            have : d.fs.firstDataSector * d.fs.bps ≤ clusterOff d.fs c := by
              unfold clusterOff; exact Nat.mul_le_mul_right _ (Nat.le_add_right _ _)
            omega)
      · show f'.size?.getD 0 = if (absFile d.fs d.img f).size < f.offset + (buf.take w).length then
          f.offset + (buf.take w).length else (absFile d.fs d.img f).size
        rw [hf4, hlen, hasz]
        show (if f.offset + w > sz then f.offset + w else sz) = _
        rfl
      · show f'.offset = f.offset + (buf.take w).length
        rw [hf3, hlen]
    have hrep' : FileRep d'.fs d'.img f' := by
      refine ⟨⟨_, hf4⟩, ?_, ?_, ?_, ?_⟩
      · rw [htv']; exact AFileInv.of_coreEq hcore hpi
      · intro c hc; rw [hch', htv']; exact hrep.chain c (hf1 ▸ hc)
      · intro c hc; rw [hfs', hs1.geom.totalClusters]; exact hrep.inTab c (hch' ▸ hc)
      · intro c hc; rw [htv']; exact hrep.last_eoc c (hch' ▸ hc)
    have htrace : ∀ E D : Nat → Prop, (∀ x ∈ fileChain d.fs d.img f, D x) → Trace d.fs E D d d' := by
      intro E D hD
      have ht1 : Trace d.fs E D d d1 := setDirtyFlag_trace d d1 hr1 hfa (by
        have := hg.status_lt; have := hg.fat_dev; omega) E D
      have hlog' : d'.log = .write (clusterOff d.fs cur + f.offset % d.fs.clusterSize) (buf.take w) :: d2.log := by
        rw [← hd', didWrite_log _ _ hfit]
        rfl
      have himg2 : d'.img = d2.img.write (clusterOff d.fs cur + f.offset % d.fs.clusterSize) (buf.take w) := by
        rw [himg', hs2.img]
      refine ht1.trans ((Trace.of_sameStore hs2).trans (Trace.single hlog' himg2
        (Or.inr (Or.inl ⟨cur, hD cur hmem, hc2, hct, Nat.le_add_right _ _, ?_⟩))))
      show clusterOff d.fs cur + f.offset % d.fs.clusterSize + (buf.take w).length ≤ _
      rw [hlen]; omega
    refine ⟨w, f', d', rfl, hstep, rfl, trivial, hcore, hrep', htv', by rw [hfs', hinfo1], ?_, htrace⟩
    intro q hne
    by_cases hsq : q = statusOff d.fs
    · exact Or.inl hsq
    · refine Or.inr ⟨cur, hrc, ?_⟩
      by_cases hin : clusterOff d.fs cur + f.offset % d.fs.clusterSize ≤ q ∧
          q < clusterOff d.fs cur + f.offset % d.fs.clusterSize + w
      · exact hin
      · exfalso
        apply hne
        rw [hbyte q, if_neg hin]
        exact setDirtyFlag_only_status d d1 hr1 hfa (by
          have := hg.status_lt; have := hg.fat_dev; omega) hwf q hsq

end FatVerif.FileSim
