import FatVerif.Proofs.Prog
import FatVerif.Model.Table
import FatVerif.Model.Slice
/-! C09, structural descent, part 1: `Io.lean`, `Slice.lean`, `Table.lean`. -/
namespace FatVerif

/-- a stream all of whose methods are `IoSafe` -/
structure StrmSafe {σ} (S : Strm σ) : Prop where
  read : ∀ s n, IoSafe (S.read s n)
  write : ∀ s bs, IoSafe (S.write s bs)
  seek : ∀ s p, IoSafe (S.seek s p)

theorem IoSafe.progRead (n : Nat) : IoSafe (Prog.read n) := IoSafe.op _
theorem IoSafe.progWrite (bs : List Nat) : IoSafe (Prog.write bs) := IoSafe.op _
theorem IoSafe.progSeek (p : SeekFrom) : IoSafe (Prog.seek p) := IoSafe.op _
theorem IoSafe.progSeekStart (n : Nat) : IoSafe (Prog.seekStart n) := IoSafe.op _
theorem IoSafe.progFlush : IoSafe Prog.flush := IoSafe.op _
theorem IoSafe.progNow : IoSafe Prog.now := IoSafe.op _
theorem IoSafe.progToday : IoSafe Prog.today := IoSafe.op _
theorem IoSafe.progGetFs : IoSafe Prog.getFs := IoSafe.op _
theorem IoSafe.progSetFs (fs : FsState) : IoSafe (Prog.setFs fs) := IoSafe.op _
theorem IoSafe.progModifyFs (f : FsState → FsState) : IoSafe (Prog.modifyFs f) :=
  IoSafe.bind _ _ (IoSafe.op _) (fun _ => IoSafe.op _)

/-- one step of structural descent; the listed lemmas (and the local hypotheses) close calls of model functions -/
syntax "iosafe_step" ("[" Lean.Parser.Tactic.SolveByElim.arg,* "]")? : tactic
macro_rules
  | `(tactic| iosafe_step) => `(tactic| iosafe_step [])
  | `(tactic| iosafe_step [$ts,*]) => `(tactic| first
    | with_reducible_and_instances exact IoSafe.pure _
    | with_reducible_and_instances exact IoSafe.fail _
    | with_reducible_and_instances exact IoSafe.op _
    | with_reducible exact IoSafe.progRead _
    | with_reducible exact IoSafe.progWrite _
    | with_reducible exact IoSafe.progSeek _
    | with_reducible exact IoSafe.progSeekStart _
    | with_reducible exact IoSafe.progFlush
    | with_reducible exact IoSafe.progNow
    | with_reducible exact IoSafe.progToday
    | with_reducible exact IoSafe.progGetFs
    | with_reducible exact IoSafe.progSetFs _
    | with_reducible exact IoSafe.progModifyFs _
    | with_reducible_and_instances exact NonFatal.pure _
    | intro _
    | with_reducible exact (‹StrmSafe _›).read _ _
    | with_reducible exact (‹StrmSafe _›).write _ _
    | with_reducible exact (‹StrmSafe _›).seek _ _
    | apply_assumption (transparency := .reducible) (exfalso := false) (symm := false) only [*, $ts,*]
    | with_reducible_and_instances apply IoSafe.bind
    | with_reducible_and_instances apply IoSafe.tryCatch
    | with_reducible_and_instances apply IoSafe.finallyDrop
    | dsimp only
    | split
    | rfl)

syntax "iosafe" ("[" Lean.Parser.Tactic.SolveByElim.arg,* "]")? : tactic
macro_rules
  | `(tactic| iosafe) => `(tactic| repeat iosafe_step [])
  | `(tactic| iosafe [$ts,*]) => `(tactic| repeat iosafe_step [$ts,*])

/-! ### `Io.lean` -/

theorem devStrm_safe : StrmSafe devStrm := by
  refine ⟨?_, ?_, ?_⟩ <;> intros <;> simp only [devStrm] <;> iosafe

section generic
variable {σ : Type} (S : Strm σ) (hS : StrmSafe S)
include hS

theorem readExactLoop_ioSafe : ∀ fuel s n acc, IoSafe (readExactLoop S fuel s n acc) := by
  intro fuel
  induction fuel with
  | zero => intros; unfold readExactLoop; iosafe
  | succ k ih => intros; unfold readExactLoop; iosafe

theorem readExact_ioSafe (s n) : IoSafe (readExact S s n) := readExactLoop_ioSafe S hS _ _ _ _

theorem writeAllLoop_ioSafe : ∀ fuel s bs, IoSafe (writeAllLoop S fuel s bs) := by
  intro fuel
  induction fuel with
  | zero => intros; unfold writeAllLoop; iosafe
  | succ k ih => intros; unfold writeAllLoop; iosafe

theorem writeAll_ioSafe (s bs) : IoSafe (writeAll S s bs) := writeAllLoop_ioSafe S hS _ _ _

theorem readU8_ioSafe (s) : IoSafe (readU8 S s) := by unfold readU8; iosafe [readExact_ioSafe]
theorem readU16_ioSafe (s) : IoSafe (readU16 S s) := by unfold readU16; iosafe [readExact_ioSafe]
theorem readU32_ioSafe (s) : IoSafe (readU32 S s) := by unfold readU32; iosafe [readExact_ioSafe]
theorem writeU8_ioSafe (s v) : IoSafe (writeU8 S s v) := writeAll_ioSafe S hS _ _
theorem writeU16_ioSafe (s v) : IoSafe (writeU16 S s v) := writeAll_ioSafe S hS _ _
theorem writeU32_ioSafe (s v) : IoSafe (writeU32 S s v) := writeAll_ioSafe S hS _ _

theorem readChunks_ioSafe : ∀ ns s acc, IoSafe (readChunks S s ns acc) := by
  intro ns
  induction ns with
  | nil => intros; unfold readChunks; iosafe
  | cons n rest ih => intros; unfold readChunks; iosafe [readExact_ioSafe]

theorem writeChunks_ioSafe : ∀ cs s, IoSafe (writeChunks S s cs) := by
  intro cs
  induction cs with
  | nil => intros; unfold writeChunks; iosafe
  | cons c rest ih => intros; unfold writeChunks; iosafe [writeAll_ioSafe]

theorem writeZerosLoop_ioSafe : ∀ fuel s len, IoSafe (writeZerosLoop S fuel s len) := by
  intro fuel
  induction fuel with
  | zero => intros; unfold writeZerosLoop; iosafe
  | succ k ih => intros; unfold writeZerosLoop; iosafe [writeAll_ioSafe]

theorem writeZeros_ioSafe (s len) : IoSafe (writeZeros S s len) := writeZerosLoop_ioSafe S hS _ _ _

end generic

/-! ### `Slice.lean` -/

theorem setDirtyFlag_ioSafe (b : Bool) : IoSafe (setDirtyFlag b) := by
  unfold setDirtyFlag; iosafe [writeU8_ioSafe, devStrm_safe]

theorem markDirtyBeforeWrite_ioSafe : IoSafe markDirtyBeforeWrite := by
  unfold markDirtyBeforeWrite; iosafe [setDirtyFlag_ioSafe]

theorem adapterStrm_safe : StrmSafe adapterStrm := by
  refine ⟨?_, ?_, ?_⟩ <;> intros <;> simp only [adapterStrm] <;> iosafe [setDirtyFlag_ioSafe, markDirtyBeforeWrite_ioSafe]

theorem DiskSlice.inner_safe (s : DiskSlice) : StrmSafe s.inner := by
  unfold DiskSlice.inner; split
  · exact adapterStrm_safe
  · exact devStrm_safe

theorem DiskSlice.read_ioSafe (s : DiskSlice) (n : Nat) : IoSafe (s.read n) := by
  have := s.inner_safe
  unfold DiskSlice.read; iosafe

theorem DiskSlice.writeMirrors_ioSafe (s : DiskSlice) (off : Nat) (bs : List Nat) :
    ∀ k i, IoSafe (s.writeMirrors off bs k i) := by
  have := s.inner_safe
  intro k
  induction k with
  | zero => intros; unfold DiskSlice.writeMirrors; iosafe
  | succ k ih => intros; unfold DiskSlice.writeMirrors; iosafe [writeAll_ioSafe]

theorem DiskSlice.write_ioSafe (s : DiskSlice) (bs : List Nat) : IoSafe (s.write bs) := by
  unfold DiskSlice.write; iosafe [DiskSlice.writeMirrors_ioSafe]

theorem DiskSlice.seek_ioSafe (s : DiskSlice) (p : SeekFrom) : IoSafe (s.seek p) := by
  unfold DiskSlice.seek; iosafe

theorem DiskSlice.flush_ioSafe (s : DiskSlice) : IoSafe s.flush := IoSafe.op _

theorem DiskSlice.strm_safe : StrmSafe DiskSlice.strm :=
  ⟨DiskSlice.read_ioSafe, DiskSlice.write_ioSafe, DiskSlice.seek_ioSafe⟩

/-! ### `Table.lean` -/

namespace Table
section generic
variable {σ : Type} (S : Strm σ) (hS : StrmSafe S)
include hS

theorem getRaw_ioSafe (ft s c) : IoSafe (getRaw S ft s c) := by
  unfold getRaw; iosafe [readU16_ioSafe, readU32_ioSafe]

theorem get_ioSafe (ft s c) : IoSafe (get S ft s c) := by
  unfold get; iosafe [getRaw_ioSafe]

theorem set_ioSafe (ft s c v) : IoSafe (set S ft s c v) := by
  unfold set; iosafe [getRaw_ioSafe, readU16_ioSafe, writeU16_ioSafe, writeU32_ioSafe]

theorem findFree12Loop_ioSafe : ∀ fuel s c endC packed, IoSafe (findFree12Loop S fuel s c endC packed) := by
  intro fuel
  induction fuel with
  | zero => intros; unfold findFree12Loop; iosafe
  | succ k ih => intros; unfold findFree12Loop; iosafe [readU16_ioSafe, readU8_ioSafe]

theorem findFreeLoop_ioSafe (ft) : ∀ fuel s c endC, IoSafe (findFreeLoop S ft fuel s c endC) := by
  intro fuel
  induction fuel with
  | zero => intros; unfold findFreeLoop; iosafe
  | succ k ih => intros; unfold findFreeLoop; iosafe [readU16_ioSafe, readU32_ioSafe]

theorem findFree_ioSafe (ft s start endC) : IoSafe (findFree S ft s start endC) := by
  unfold findFree; iosafe [readU16_ioSafe, findFree12Loop_ioSafe, findFreeLoop_ioSafe]

theorem countFree12Loop_ioSafe : ∀ fuel s c endC prev count, IoSafe (countFree12Loop S fuel s c endC prev count) := by
  intro fuel
  induction fuel with
  | zero => intros; unfold countFree12Loop; iosafe
  | succ k ih => intros; unfold countFree12Loop; iosafe [readU16_ioSafe, readU8_ioSafe]

theorem countFreeLoop_ioSafe (ft) : ∀ fuel s c endC count, IoSafe (countFreeLoop S ft fuel s c endC count) := by
  intro fuel
  induction fuel with
  | zero => intros; unfold countFreeLoop; iosafe
  | succ k ih => intros; unfold countFreeLoop; iosafe [readU16_ioSafe, readU32_ioSafe]

theorem countFree_ioSafe (ft s total) : IoSafe (countFree S ft s total) := by
  unfold countFree; iosafe [countFree12Loop_ioSafe, countFreeLoop_ioSafe]

/-- the one handler of `table.rs`: retry on `NotEnoughSpace` only, every other error is re-raised unchanged -/
theorem allocCluster_ioSafe (ft s prev hint total) : IoSafe (allocCluster S ft s prev hint total) := by
  unfold allocCluster
  with_reducible_and_instances apply IoSafe.bind
  · apply IoSafe.tryCatch
    · exact findFree_ioSafe S hS _ _ _ _
    · intro k; rfl
    · intro e; iosafe [findFree_ioSafe]
  · iosafe [set_ioSafe]

theorem CIter.next_ioSafe (ft) (it : CIter σ) : IoSafe (CIter.next S ft it) := by
  unfold CIter.next; iosafe [get_ioSafe]

theorem CIter.freeLoop_ioSafe (ft) : ∀ fuel (it : CIter σ) num, IoSafe (CIter.freeLoop S ft fuel it num) := by
  intro fuel
  induction fuel with
  | zero => intros; unfold CIter.freeLoop; iosafe
  | succ k ih => intros; unfold CIter.freeLoop; iosafe [CIter.next_ioSafe, set_ioSafe]

theorem CIter.free_ioSafe (ft fuel) (it : CIter σ) : IoSafe (CIter.free S ft fuel it) :=
  CIter.freeLoop_ioSafe S hS _ _ _ _

theorem CIter.truncate_ioSafe (ft fuel) (it : CIter σ) : IoSafe (CIter.truncate S ft fuel it) := by
  unfold CIter.truncate; iosafe [CIter.next_ioSafe, set_ioSafe, CIter.free_ioSafe]

theorem readFatFlags_ioSafe (ft s) : IoSafe (readFatFlags S ft s) := by
  unfold readFatFlags; iosafe [getRaw_ioSafe]

theorem setRange_ioSafe (ft v) : ∀ k s c, IoSafe (setRange S ft v k s c) := by
  intro k
  induction k with
  | zero => intros; unfold setRange; iosafe
  | succ k ih => intros; unfold setRange; iosafe [set_ioSafe]

theorem formatFat_ioSafe (ft s media bytesPerFat total) : IoSafe (formatFat S ft s media bytesPerFat total) := by
  unfold formatFat; iosafe [writeU8_ioSafe, writeU16_ioSafe, writeU32_ioSafe, setRange_ioSafe]

end generic
end Table

end FatVerif
