import FatVerif.Proofs.FaultSim6
import FatVerif.Proofs.SliceModel5
/-! Faults and forward evaluation, part 7: EVERY run of `write_entry` on the fixed root — successful, failed or hit by
    the fault — appends only records inside the root region or on the status byte; hence the FAT is untouched and the
    roll-back `free_cluster_chain(cluster)` of `create_dir` succeeds after a faulted `write_entry` in the root. -/
namespace FatVerif

/-! ### `write_entry` over a stream class: the records it appends (the descent of SliceModel5, for any record class) -/

section generic
variable {fs0 : FsState} {sz : Nat} {C : Nat → List Nat → Prop} {OK : DirStream → Prop}
  (hS : StrmGS fs0 sz C DirStream.strm OK) (hdrop : ∀ st, OK st → GS fs0 sz C st.dropBody (fun _ => True))
include hS

theorem readSlot_gsC {st : DirStream} (hst : OK st) : GS fs0 sz C (readSlot st) (fun r => OK r.2) := by
  unfold readSlot
  refine GS.bind (Q := fun r => ∀ p, r = some p → OK p.2) ?_ ?_
  · refine GS.tryCatch ?_ ?_
    · refine GS.bind (readExact_gs hS st 11 hst) ?_
      rintro ⟨bs, st'⟩ hst'
      refine GS.pure ?_
      intro p hp; cases hp; exact hst'
    · intro e
      split
      · refine GS.pure ?_
        intro p hp; cases hp
      · exact GS.fail _
  · intro r hr
    split
    · exact GS.pure hst
    · rename_i name st'
      have hst' : OK st' := hr _ rfl
      refine GS.bind (readU8_gs hS st' hst') ?_
      rintro ⟨attrs, st2⟩ hst2
      refine GS.bind (readChunks_gs hS _ st2 [] hst2) ?_
      rintro ⟨tail, st3⟩ hst3
      exact GS.pure hst3

theorem writeSlot_gsC {st : DirStream} (hst : OK st) (e : DirEntryData) : GS fs0 sz C (writeSlot st e) OK := by
  unfold writeSlot
  split
  · exact writeChunks_gs hS _ _ hst
  · exact writeChunks_gs hS _ _ hst

theorem findFreeLoop_gsC (num) : ∀ fuel st firstFree numFree i, OK st →
    GS fs0 sz C (findFreeLoop num fuel st firstFree numFree i) OK := by
  intro fuel
  induction fuel with
  | zero => intros; unfold findFreeLoop; exact GS.fail _
  | succ k ih =>
    intro st firstFree numFree i hst
    unfold findFreeLoop
    refine GS.bind (readSlot_gsC hS hst) ?_
    rintro ⟨raw, st'⟩ hst'
    dsimp only
    split
    · refine GS.bind (hS.seek _ _ hst') ?_
      rintro ⟨_, st2⟩ hst2; exact GS.pure hst2
    · split
      · try dsimp only
        split
        · refine GS.bind (hS.seek _ _ hst') ?_
          rintro ⟨_, st2⟩ hst2; exact GS.pure hst2
        · exact ih _ _ _ _ hst'
      · exact ih _ _ _ _ hst'

theorem writeSlotsKeep_gsC : ∀ slots st, OK st → GS fs0 sz C (writeSlotsKeep slots st) (fun r => OK r.2) := by
  intro slots
  induction slots with
  | nil => intro st hst; unfold writeSlotsKeep; exact GS.pure hst
  | cons e rest ih =>
    intro st hst
    unfold writeSlotsKeep
    refine GS.bind (Q := fun r => ∀ st', r = .ok st' → OK st') ?_ ?_
    · unfold Prog.attempt
      refine GS.tryCatch (GS.bind (writeSlot_gsC hS hst e) (fun st' hst' => GS.pure ?_)) (fun err => GS.pure ?_)
      · intro st2 h; cases h; exact hst'
      · intro st2 h; cases h
    · intro r hr
      split
      · exact ih _ (hr _ rfl)
      · exact GS.pure hst

theorem freeWrittenLoop_gsC : ∀ k st pos endPos, OK st → GS fs0 sz C (freeWrittenLoop k st pos endPos) OK := by
  intro k
  induction k with
  | zero => intro st pos endPos hst; unfold freeWrittenLoop; exact GS.pure hst
  | succ k ih =>
    intro st pos endPos hst
    unfold freeWrittenLoop
    split
    · refine GS.bind (hS.seek _ _ hst) ?_
      rintro ⟨_, st1⟩ hst1
      dsimp only
      exact GS.bind (writeAll_gs hS _ _ hst1) (fun st2 hst2 => ih _ _ _ hst2)
    · exact GS.pure hst

theorem freeWrittenEntries_gsC {st : DirStream} (hst : OK st) (startPos : Nat) :
    GS fs0 sz C (freeWrittenEntries st startPos) (fun _ => True) := by
  unfold freeWrittenEntries
  refine GS.bind (hS.seek _ _ hst) ?_
  rintro ⟨endPos, st1⟩ hst1
  dsimp only
  exact GS.bind (freeWrittenLoop_gsC hS _ _ _ _ hst1) (fun _ _ => GS.pure trivial)

include hdrop

theorem findFreeEntries_gsC {d : DirStream} (hd : OK d) (num : Nat) : GS fs0 sz C (findFreeEntries d num) OK := by
  unfold findFreeEntries
  refine GS.bind GS.getFs (fun fs _ => ?_)
  exact GS.finallyDrop (findFreeLoop_gsC hS _ _ _ _ _ _ hd) (fun _ _ => GS.pure trivial) (hdrop _ hd)

theorem writeEntry_gsC {d : DirStream} (hd : OK d) (name : String) (raw : DirFileEntryData) :
    GS fs0 sz C (writeEntry d name raw) (fun _ => True) := by
  unfold writeEntry
  split
  · exact GS.fail _
  · refine GS.bind GS.getFs (fun fs _ => ?_)
    dsimp only
    refine GS.bind (findFreeEntries_gsC hS hdrop hd _) (fun st0 hst0 => ?_)
    refine GS.bind (Q := fun r => OK r.2) ?_ ?_
    · exact GS.finallyDrop (hS.seek _ _ hst0) (fun _ _ => GS.pure trivial) (hdrop _ hst0)
    · rintro ⟨startPos, st⟩ hst
      dsimp only
      refine GS.bind (writeSlotsKeep_gsC hS _ _ hst) ?_
      rintro ⟨err, st'⟩ hst'
      dsimp only
      split
      · unfold thenDrop
        exact GS.finallyDrop (GS.bind (freeWrittenEntries_gsC hS hst' _) (fun _ _ => GS.fail _))
          (fun _ _ => hdrop _ hst') (hdrop _ hst')
      · unfold thenDrop
        refine GS.finallyDrop ?_ (fun _ _ => hdrop _ hst') (hdrop _ hst')
        refine GS.bind (hS.seek _ _ hst') ?_
        rintro ⟨endPos, st2⟩ _
        refine GS.bind (GS.of_quiet (DirStream.absPos_quiet _ _)) (fun endAbs _ => ?_)
        split
        · exact GS.fail _
        · exact GS.pure trivial

end generic

/-! ### the fixed root -/

/-- records on the status byte or inside the fixed root region -/
def RootC (fs0 : FsState) (off : Nat) (bs : List Nat) : Prop := StatusRec fs0 off bs ∨ SliceRec (rootSliceOf fs0) off bs

/-- streams of the fixed root region -/
def RootOKs (fs0 : FsState) : DirStream → Prop
  | .root s => SliceInv (rootSliceOf fs0) s
  | .file _ => False

theorem rootDir_strm_gs {fs0 : FsState} {sz : Nat}
    (hroot : (rootSliceOf fs0).beginOff + (rootSliceOf fs0).mirrors * (rootSliceOf fs0).size ≤ sz) :
    StrmGS fs0 sz (RootC fs0) DirStream.strm (RootOKs fs0) := by
  have hR : StrmGS fs0 sz (RootC fs0) DiskSlice.strm (SliceInv (rootSliceOf fs0)) :=
    DiskSlice.strm_gs _ hroot (fun _ _ h => Or.inr h) (fun _ _ h => Or.inl h)
  refine ⟨fun st n hst => ?_, fun st bs hst => ?_, fun st p hst => ?_⟩
  · cases st with
    | file f => exact hst.elim
    | root s =>
      show GS fs0 sz (RootC fs0) ((DirStream.root s).read n) _
      simp only [DirStream.read]
      exact GS.bind (hR.read s n hst) (fun b hb => GS.pure hb)
  · cases st with
    | file f => exact hst.elim
    | root s =>
      show GS fs0 sz (RootC fs0) ((DirStream.root s).write bs) _
      simp only [DirStream.write]
      exact GS.bind (hR.write s bs hst) (fun b hb => GS.pure hb)
  · cases st with
    | file f => exact hst.elim
    | root s =>
      show GS fs0 sz (RootC fs0) ((DirStream.root s).seek p) _
      simp only [DirStream.seek]
      exact GS.bind (hR.seek s p hst) (fun b hb => GS.pure hb)

theorem rootDir_dropBody_gs {fs0 : FsState} {sz : Nat} (st : DirStream) (hst : RootOKs fs0 st) :
    GS fs0 sz (RootC fs0) st.dropBody (fun _ => True) := by
  cases st with
  | file f => exact hst.elim
  | root s => exact GS.pure trivial

/-- **every run of `write_entry` on the fixed root appends only root-region and status-byte records** -/
theorem writeEntry_root_gs {fs0 : FsState} {sz : Nat}
    (hroot : (rootSliceOf fs0).beginOff + (rootSliceOf fs0).mirrors * (rootSliceOf fs0).size ≤ sz)
    {st : DirStream} (hst : RootOKs fs0 st) (name : String) (raw : DirFileEntryData) :
    GS fs0 sz (RootC fs0) (writeEntry st name raw) (fun _ => True) :=
  writeEntry_gsC (rootDir_strm_gs hroot) rootDir_dropBody_gs hst name raw

/-! ### from the records to the bytes -/

theorem replay_frame (g : Nat → Nat) (q : Nat) : ∀ (items : List LogItem),
    (∀ off bs, LogItem.write off bs ∈ items → ¬ (off ≤ q ∧ q < off + bs.length)) → replay g items q = g q := by
  intro items
  induction items with
  | nil => intro _; rfl
  | cons it rest ih =>
    intro h
    have hrest := ih (fun off bs hm => h off bs (List.mem_cons_of_mem _ hm))
    cases it with
    | flush => simp only [replay, applyRec]; exact hrest
    | write off bs =>
      simp only [replay, applyRec]
      rw [if_neg (h off bs (List.mem_cons_self ..))]
      exact hrest

/-- a byte outside every record class of the run keeps its value -/
theorem logAll_frame {C : Nat → List Nat → Prop} {α} {p : Prog α} {d d' : Dev} {r : Except Err α}
    (hr : run p d = (r, d')) (hw : d.img.WF) (hl : LogAll C d d') (q : Nat)
    (hq : ∀ off bs, C off bs → ¬ (off ≤ q ∧ q < off + bs.length)) : d'.img.getByte q = d.img.getByte q := by
  obtain ⟨_, items, hlog, hb⟩ := run_img_eq_replay p d r d' hr hw
  obtain ⟨items', hlog', hc⟩ := hl
  have : items = items' := List.append_cancel_right (hlog.symm.trans hlog')
  subst this
  rw [hb q]
  refine replay_frame _ q _ (fun off bs hm => ?_)
  obtain ⟨it, hit, hn⟩ := List.mem_map.mp hm
  cases it with
  | flush => cases hn
  | write off0 bs0 =>
    simp only [LogItem.norm, LogItem.write.injEq] at hn
    obtain ⟨h1, h2⟩ := hn
    subst h1
    have := hq off0 bs0 (hc off0 bs0 hit)
    rw [← h2, List.length_map]
    exact this

/-! ### the roll-back of `create_dir` on the fixed root -/

open FileSim Fat in
/-- `free_cluster_chain(n)` SUCCEEDS on a fault-free device whose FAT holds the chain of `n` (no hypothesis on the FS-info
    cache) -/
theorem run_freeClusterChain_ok (n : Nat) (cs : List Nat) (d : Dev) (hfa : d.failAt = none) (hwf : d.img.WF)
    (hg : FileSim.Geo d.fs d.img.size) (hch : Chain (tabView d.fs d.img) n cs) (hnd : cs.Nodup)
    (hin : ∀ x ∈ cs, x < d.fs.totalClusters + 2) : ∃ d', run (freeClusterChain n) d = (.ok (), d') := by
  obtain ⟨d1, it1, h1, _⟩ := run_citer_free_any d.fs cs n (chainFuel d.fs) (fatSliceOf d.fs) d hfa hwf hg hch hnd hin
    (chain_fuel_ok hnd hin) (isFatSlice_self _)
  unfold freeClusterChain
  rw [run_bind_ok (run_getFs d)]
  simp only
  rw [run_bind_ok h1, run_modifyFs]
  exact ⟨_, rfl⟩

theorem sameGeom_of_fsGeomEq {a b : FsState} (h : FileSim.FsGeomEq a b) : SameGeom a b := by
  unfold FileSim.FsGeomEq at h
  unfold SameGeom FsState.geom
  rw [h]

open FileSim Fat DirSim in
/-- **after a `write_entry` on the fixed root — whatever happened in it — `free_cluster_chain(c)` of a cluster that ended
    a chain before cannot fail** (once no device call can fail any more) -/
theorem root_free_after_writeEntry (d : Dev) (N : Nat) (hslotsN : (rootSliceOf d.fs).size = 32 * N)
    (hin : (rootSliceOf d.fs).beginOff + (rootSliceOf d.fs).size ≤ d.img.size)
    (hgeo : FileSim.Geo d.fs d.img.size)
    (hout : (fatSliceOf d.fs).beginOff + (fatSliceOf d.fs).mirrors * (fatSliceOf d.fs).size ≤ (rootSliceOf d.fs).beginOff)
    (c : Nat) (hrange : 2 ≤ c ∧ c < d.fs.totalClusters + 2)
    (d2 d3 d4 : Dev) (name : String) (raw : DirFileEntryData) (rw : Except Err DirEntry) (e : Err)
    (hg2 : FsGeomEq d.fs d2.fs) (hsz2 : d2.img.size = d.img.size) (hwf2 : d2.img.WF)
    (htv2 : tabView d2.fs d2.img = updV (tabView d.fs d.img) c .eoc)
    (hw : run (FatVerif.writeEntry (DirStream.root (sliceAt (rootSliceOf d.fs) 0)) name raw) d2 = (rw, d3)) (hfa3 : d3.failAt = none)
    (hfree : run (freeClusterChain c) d3 = (.error e, d4)) : False := by
  have hroot : (rootSliceOf d.fs).beginOff + (rootSliceOf d.fs).mirrors * (rootSliceOf d.fs).size ≤ d.img.size := by
    have : (rootSliceOf d.fs).mirrors = 1 := rfl
    rw [this, Nat.one_mul]; exact hin
  have hst : RootOKs d.fs (DirStream.root (sliceAt (rootSliceOf d.fs) 0)) := ⟨rfl, rfl, rfl, rfl, Nat.zero_le _⟩
  obtain ⟨hg3, hlog, _⟩ := (writeEntry_root_gs (fs0 := d.fs) (sz := d.img.size) hroot hst name raw).out d2 rw d3
    (sameGeom_of_fsGeomEq hg2) hsz2 hw
  have hg3' : FsGeomEq d.fs d3.fs := fsGeomEq_of_sameGeom hg3
  have hst42 := hgeo.status_lt
  have hms : (fatSliceOf d.fs).size ≤ (fatSliceOf d.fs).mirrors * (fatSliceOf d.fs).size :=
    Nat.le_mul_of_pos_left _ hgeo.mirrors_pos
  have hagree : FatAgree d2.fs d2.img d3.img := by
    intro q h1 h2
    rw [hg2.fatSlice] at h1 h2
    refine logAll_frame hw hwf2 hlog q (fun off bs hc => ?_)
    rcases hc with hs | hr
    · unfold StatusRec statusOff at hs
      split at hs <;> omega
    · unfold SliceRec at hr
      omega
  have hsz3 : d3.img.size = d.img.size := (run_img_size _ _ _ _ hw).trans hsz2
  have hg23 : FsGeomEq d2.fs d3.fs := by
    unfold FsGeomEq at *
    rw [hg3', hg2]
  have htv3 : tabView d3.fs d3.img = updV (tabView d.fs d.img) c .eoc := by
    rw [hg23.tabView, tabView_congr (sz := d2.img.size) (by rw [hsz2]; exact hgeo.frame hg2) hagree, htv2]
  obtain ⟨d4', h4⟩ := run_freeClusterChain_ok c [c] d3 hfa3 (run_wf _ _ _ _ hw hwf2)
    (by rw [hsz3]; exact hgeo.frame hg3')
    (Chain.last c (fun m => by rw [htv3]; simp [updV])) (by simp)
    (fun x hx => by
      simp only [List.mem_singleton] at hx
      subst hx
      rw [hg3'.totalClusters]; exact hrange.2)
  rw [h4] at hfree
  cases (congrArg Prod.fst hfree)

end FatVerif
