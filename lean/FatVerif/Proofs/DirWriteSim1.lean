import FatVerif.Proofs.DirReadSim11
import FatVerif.Proofs.FileSimDirty
/-! Directory WRITES, forward evaluation, part 1: one write through `FsIoAdapter`, `DiskSlice::write` / `write_all` /
    `writeChunks` / `writeSlot` on a slice with one copy (the fixed root region). The effect on the image is stated on
    the bytes from `0x42` on (everything behind the status byte). Uses the device-write lemmas of
    Proofs/FileSimDirty.lean (`run_write`, `didWrite`, `DevStep`, `run_setDirtyFlag_true`). -/
namespace FatVerif.DirSim
open FatVerif.FileSim

/-- the bytes of an image after `bs` was stored at `p` -/
def putBytes (g : Nat → Nat) (p : Nat) (bs : List Nat) : Nat → Nat :=
  fun q => if p ≤ q ∧ q < p + bs.length then bs.getD (q - p) 0 % 256 else g q

theorem putBytes_nil (g : Nat → Nat) (p : Nat) : putBytes g p [] = g := by
  funext q; simp [putBytes]; omega

theorem putBytes_append (g : Nat → Nat) (p : Nat) (a b : List Nat) :
    putBytes (putBytes g p a) (p + a.length) b = putBytes g p (a ++ b) := by
  funext q
  simp only [putBytes, List.length_append]
  by_cases h1 : p + a.length ≤ q ∧ q < p + a.length + b.length
  · rw [if_pos h1, if_pos (by omega)]
    rw [List.getD_eq_getElem?_getD, List.getD_eq_getElem?_getD, List.getElem?_append_right (by omega)]
    congr 3; omega
  · rw [if_neg h1]
    by_cases h2 : p ≤ q ∧ q < p + a.length
    · rw [if_pos h2, if_pos (by omega)]
      rw [List.getD_eq_getElem?_getD, List.getD_eq_getElem?_getD, List.getElem?_append_left (by omega)]
    · rw [if_neg h2, if_neg (by omega)]

/-- `d'` is `d` after `bs` was written at device offset `p` (through the adapter): fault schedule, size, geometry kept;
    the bytes behind the status byte are those of `d` with `bs` put at `p` -/
structure WritesTo (d d' : Dev) (p : Nat) (bs : List Nat) : Prop where
  step : DevStep d d'
  dirty : bs ≠ [] → d'.fs.curDirty = true
  keep : d.fs.curDirty = true → d'.fs.curDirty = true
  bytes : d.img.WF → ∀ q, 0x42 ≤ q → d'.img.getByte q = putBytes d.img.getByte p bs q
  /-- the FS-info cache of the mounted state is not touched -/
  info : d'.fs.fsInfo = d.fs.fsInfo

theorem WritesTo.refl (d : Dev) (p : Nat) : WritesTo d d p [] :=
  ⟨DevStep.refl d, fun h => absurd rfl h, id, fun _ q _ => by rw [putBytes_nil], rfl⟩

theorem WritesTo.of_sameStore {d d1 d2 : Dev} {p : Nat} {bs : List Nat} (h : WritesTo d d1 p bs) (hs : SameStore d1 d2) :
    WritesTo d d2 p bs :=
  ⟨h.step.trans (DevStep.of_sameStore hs), fun hn => by rw [hs.fs]; exact h.dirty hn,
   fun hk => by rw [hs.fs]; exact h.keep hk, fun hw q hq => by rw [hs.img]; exact h.bytes hw q hq,
   by rw [hs.fs]; exact h.info⟩

theorem WritesTo.of_sameStore_left {d d1 d2 : Dev} {p : Nat} {bs : List Nat} (hs : SameStore d d1)
    (h : WritesTo d1 d2 p bs) : WritesTo d d2 p bs :=
  ⟨(DevStep.of_sameStore hs).trans h.step, h.dirty, fun hk => h.keep (by rw [hs.fs]; exact hk),
   fun hw q hq => by rw [h.bytes (by rw [hs.img]; exact hw) q hq, hs.img], by rw [h.info, hs.fs]⟩

theorem WritesTo.append {d d1 d2 : Dev} {p : Nat} {a b : List Nat} (h1 : WritesTo d d1 p a)
    (h2 : WritesTo d1 d2 (p + a.length) b) : WritesTo d d2 p (a ++ b) := by
  have hkeep := h2.keep
  refine ⟨h1.step.trans h2.step, fun hn => ?_, fun hk => h2.keep (h1.keep hk), fun hw q hq => ?_, h2.info.trans h1.info⟩
  · by_cases hb : b = []
    · subst hb
      simp only [List.append_nil] at hn
      exact hkeep (h1.dirty hn)
    · exact h2.dirty hb
  · rw [h2.bytes (h1.step.wf hw) q hq, ← putBytes_append]
    unfold putBytes
    split
    · rfl
    · rw [h1.bytes hw q hq]; rfl


/-! ### one write through the adapter -/

theorem run_markDirty (d : Dev) (hfa : d.failAt = none) (hsz : 0x42 ≤ d.img.size) :
    ∃ d', run markDirtyBeforeWrite d = (.ok (), d') ∧ DevStep d d' ∧ d'.fs.curDirty = true ∧ d'.pos = d.pos ∧
      (d.img.WF → ∀ q, 0x42 ≤ q → d'.img.getByte q = d.img.getByte q) ∧ d'.fs.fsInfo = d.fs.fsInfo := by
  unfold markDirtyBeforeWrite
  rw [run_bind_ok (run_getFs d)]
  by_cases hc : d.fs.curDirty = true
  · simp only [hc, if_true]
    exact ⟨d, rfl, DevStep.refl d, hc, rfl, fun _ _ _ => rfl, rfl⟩
  · simp only [hc, Bool.false_eq_true, if_false]
    rw [run_bind_ok (run_seekCur0 d hfa)]
    obtain ⟨d2, h2, hs2, hd2, hi2, hb2⟩ := run_setDirtyFlag_true (d.didSeek d.pos) hfa (by simpa using hsz)
    rw [run_bind_ok h2]
    have hfa2 : d2.failAt = none := by rw [hs2.failAt]; exact hfa
    rw [run_bind_ok (run_seekStart d.pos d2 hfa2)]
    refine ⟨d2.didSeek d.pos, rfl, ?_, hd2, rfl, fun hw q hq => ?_, hi2⟩
    · exact ((DevStep.of_sameStore (sameStore_didSeek d d.pos)).trans hs2).trans
        (DevStep.of_sameStore (sameStore_didSeek d2 d.pos))
    · show d2.img.getByte q = _
      rw [hb2 (by simpa using hw) q hq]; rfl

/-- **one `FsIoAdapter::write` inside the device**, forward: all bytes are taken -/
theorem run_adapter_write (bs : List Nat) (hne : bs ≠ []) (d : Dev) (hfa : d.failAt = none)
    (hsz : 0x42 ≤ d.img.size) (hfit : d.pos + bs.length ≤ d.img.size) :
    ∃ d', run (adapterStrm.write () bs) d = (.ok (bs.length, ()), d') ∧ WritesTo d d' d.pos bs := by
  have hlen : bs.length > 0 := by
    cases bs with
    | nil => exact absurd rfl hne
    | cons _ _ => simp
  obtain ⟨d1, h1, hs1, hd1, hp1, hb1, hi1⟩ := run_markDirty d hfa hsz
  have hfa1 : d1.failAt = none := by rw [hs1.failAt]; exact hfa
  have hmin : min bs.length (d1.img.size - d1.pos) = bs.length := by rw [hs1.size, hp1]; omega
  refine ⟨didWrite d1 bs, ?_, ?_⟩
  · rw [adapterStrm_write_unfold, if_pos hlen]
    simp only [run, h1]
    rw [run_write bs d1 hfa1, hmin]
  · have hstep : DevStep d1 (didWrite d1 bs) :=
      ⟨rfl, didWrite_img_size _ _, fun hw => by
        rw [didWrite_img _ _ (by rw [hs1.size, hp1]; exact hfit)]; exact Img.wf_write _ hw _ _,
       FsGeomEq.refl _, rfl⟩
    refine ⟨hs1.trans hstep, fun _ => hd1, fun _ => hd1, fun hw q hq => ?_, hi1⟩
    rw [didWrite_img _ _ (by rw [hs1.size, hp1]; exact hfit), Img.getByte_write _ (hs1.wf hw), hp1]
    unfold putBytes
    split
    · rfl
    · exact hb1 hw q hq


/-! ### `DiskSlice::write` and `write_all` on a slice with one copy behind the adapter (the fixed root region) -/

theorem run_bind_ok' {α β} {p : Prog β} {k : β → Prog α} {d d1 : Dev} {b : β} (h : run p d = (.ok b, d1)) :
    run (Prog.bind p k) d = run (k b) d1 := by
  simp only [run, h]

theorem run_inner_writeAll (s : DiskSlice) (hv : s.viaFs = true) (bs : List Nat) (hne : bs ≠ []) (d : Dev)
    (hfa : d.failAt = none) (hsz : 0x42 ≤ d.img.size) (hfit : d.pos + bs.length ≤ d.img.size) :
    ∃ d', run (writeAll s.inner () bs) d = (.ok (), d') ∧ WritesTo d d' d.pos bs := by
  obtain ⟨d1, h1, hw1⟩ := run_adapter_write bs hne d hfa hsz hfit
  have hinner : s.inner = adapterStrm := by unfold DiskSlice.inner; rw [hv]; rfl
  have hlen : bs.length ≠ 0 := by
    cases bs with
    | nil => exact absurd rfl hne
    | cons _ _ => simp
  have hemp : bs.isEmpty = false := by cases bs <;> simp_all
  refine ⟨d1, ?_, hw1⟩
  unfold writeAll
  obtain ⟨k, hk⟩ : ∃ k, bs.length = k + 1 := ⟨bs.length - 1, by omega⟩
  rw [hk]
  unfold writeAllLoop
  simp only [hemp, Bool.false_eq_true, if_false, hinner]
  rw [run_bind_ok h1]
  simp only [hlen, if_false, List.drop_length]
  unfold writeAllLoop
  cases k <;> rfl

/-- **`DiskSlice::write`, forward** (one copy, through the adapter, the bytes fit in the slice) -/
theorem run_slice_write (s : DiskSlice) (hv : s.viaFs = true) (hm : s.mirrors = 1) (bs : List Nat) (hne : bs ≠ [])
    (d : Dev) (hfa : d.failAt = none) (hsz : 0x42 ≤ d.img.size) (hroom : s.offset + bs.length ≤ s.size)
    (hdev : s.beginOff + s.size ≤ d.img.size) :
    ∃ d', run (s.write bs) d = (.ok (bs.length, { s with offset := s.offset + bs.length }), d') ∧
      WritesTo d d' (s.beginOff + s.offset) bs := by
  have hlen : bs.length ≠ 0 := by
    cases bs with
    | nil => exact absurd rfl hne
    | cons _ _ => simp
  have hmin : min bs.length (s.size - s.offset) = bs.length := by omega
  obtain ⟨d1, h1, hs1, hp1⟩ := inner_seek_evals s (s.beginOff + s.offset + 0 * s.size) d hfa
  have hfa1 : d1.failAt = none := by rw [hs1.failAt]; exact hfa
  obtain ⟨d2, h2, hw2⟩ := run_inner_writeAll s hv bs hne d1 hfa1 (by rw [hs1.img]; exact hsz)
    (by rw [hp1, hs1.img]; omega)
  refine ⟨d2, ?_, ?_⟩
  · unfold DiskSlice.write
    simp only [hmin, hlen, if_false, List.take_length, hm]
    have hwm : run (s.writeMirrors (s.beginOff + s.offset) bs 1 0) d = (.ok (), d2) := by
      unfold DiskSlice.writeMirrors
      rw [run_bind_ok h1, run_bind_ok h2]
      unfold DiskSlice.writeMirrors
      rfl
    rw [run_bind_ok hwm]
    rfl
  · rw [hp1] at hw2
    simp only [Nat.zero_mul, Nat.add_zero] at hw2
    exact WritesTo.of_sameStore_left hs1 hw2


/-! ### the root stream: `write_all`, `writeChunks`, `writeSlot` -/

section root
variable (s : DiskSlice) (hv : s.viaFs = true) (hm : s.mirrors = 1)

include hv hm in
theorem root_writeAll (o : Nat) (bs : List Nat) (hne : bs ≠ []) (d : Dev) (hfa : d.failAt = none)
    (hsz : 0x42 ≤ d.img.size) (hroom : o + bs.length ≤ s.size) (hdev : s.beginOff + s.size ≤ d.img.size) :
    ∃ d', run (writeAll DirStream.strm (.root (sliceAt s o)) bs) d = (.ok (.root (sliceAt s (o + bs.length))), d') ∧
      WritesTo d d' (s.beginOff + o) bs := by
  obtain ⟨d1, h1, hw1⟩ := run_slice_write (sliceAt s o) hv hm bs hne d hfa hsz hroom hdev
  have hlen : bs.length ≠ 0 := by
    cases bs with
    | nil => exact absurd rfl hne
    | cons _ _ => simp
  have hemp : bs.isEmpty = false := by cases bs <;> simp_all
  have hw : run (DirStream.strm.write (.root (sliceAt s o)) bs) d =
      (.ok (bs.length, .root (sliceAt s (o + bs.length))), d1) := by
    show run (DirStream.write (.root (sliceAt s o)) bs) d = _
    simp only [DirStream.write]
    rw [run_bind_ok h1]
    rfl
  refine ⟨d1, ?_, hw1⟩
  unfold writeAll
  obtain ⟨k, hk⟩ : ∃ k, bs.length = k + 1 := ⟨bs.length - 1, by omega⟩
  rw [hk]
  unfold writeAllLoop
  simp only [hemp, Bool.false_eq_true, if_false]
  rw [run_bind_ok hw]
  simp only [hlen, if_false, List.drop_length]
  unfold writeAllLoop
  rw [← hk]
  cases k <;> rfl

include hv hm in
theorem root_writeChunks : ∀ (cs : List (List Nat)) (o : Nat) (d : Dev), (∀ c ∈ cs, c ≠ []) → d.failAt = none →
    0x42 ≤ d.img.size → o + cs.flatten.length ≤ s.size → s.beginOff + s.size ≤ d.img.size →
    ∃ d', run (writeChunks DirStream.strm (.root (sliceAt s o)) cs) d =
        (.ok (.root (sliceAt s (o + cs.flatten.length))), d') ∧
      WritesTo d d' (s.beginOff + o) cs.flatten := by
  intro cs
  induction cs with
  | nil =>
    intro o d _ _ _ _ _
    exact ⟨d, rfl, WritesTo.refl d _⟩
  | cons c rest ih =>
    intro o d hne hfa hsz hroom hdev
    simp only [List.flatten_cons, List.length_append] at hroom ⊢
    obtain ⟨d1, h1, hw1⟩ := root_writeAll s hv hm o c (hne c (List.mem_cons_self ..)) d hfa hsz (by omega) hdev
    obtain ⟨d2, h2, hw2⟩ := ih (o + c.length) d1 (fun c' hc' => hne c' (List.mem_cons_of_mem _ hc'))
      (by rw [hw1.step.failAt]; exact hfa) (by rw [hw1.step.size]; exact hsz) (by omega)
      (by rw [hw1.step.size]; exact hdev)
    refine ⟨d2, ?_, ?_⟩
    · unfold writeChunks
      rw [run_bind_ok h1, h2, Nat.add_assoc]
    · rw [← Nat.add_assoc] at hw2
      exact hw1.append hw2

theorem chunksOf_flatten : ∀ (ns : List Nat) (bs : List Nat), ns.sum = bs.length → (chunksOf bs ns).flatten = bs := by
  intro ns
  induction ns with
  | nil => intro bs h; simp at h; simp [chunksOf, List.eq_nil_of_length_eq_zero h.symm]
  | cons n rest ih =>
    intro bs h
    simp only [List.sum_cons] at h
    simp only [chunksOf, List.flatten_cons]
    rw [ih (bs.drop n) (by rw [List.length_drop]; omega), List.take_append_drop]

theorem chunksOf_ne_nil : ∀ (ns : List Nat) (bs : List Nat), (∀ n ∈ ns, 0 < n) → ns.sum ≤ bs.length →
    ∀ c ∈ chunksOf bs ns, c ≠ [] := by
  intro ns
  induction ns with
  | nil => intro bs _ _ c hc; simp [chunksOf] at hc
  | cons n rest ih =>
    intro bs hpos hsum c hc
    simp only [List.sum_cons] at hsum
    simp only [chunksOf, List.mem_cons] at hc
    rcases hc with rfl | hc
    · intro h0
      have := congrArg List.length h0
      have hn := hpos n (List.mem_cons_self ..)
      simp only [List.length_take, List.length_nil] at this
      omega
    · exact ih (bs.drop n) (fun m hm' => hpos m (List.mem_cons_of_mem _ hm')) (by rw [List.length_drop]; omega) c hc

theorem entryChunks_sum : FileH.entryChunkSizes.sum = 32 := by decide
theorem lfnChunks_sum : lfnChunkSizes.sum = 32 := by decide

include hv hm in
/-- **`DirEntryData::serialize` onto a root slot**, forward: the 32 bytes of the record (12 resp. 18 `write_all`
    calls) are put at the slot, the stream advances by 32 -/
theorem root_writeSlot (o : Nat) (e : DirEntryData) (hlen : e.serialize.length = 32) (d : Dev) (hfa : d.failAt = none)
    (hsz : 0x42 ≤ d.img.size) (hroom : o + 32 ≤ s.size) (hdev : s.beginOff + s.size ≤ d.img.size) :
    ∃ d', run (writeSlot (.root (sliceAt s o)) e) d = (.ok (.root (sliceAt s (o + 32))), d') ∧
      WritesTo d d' (s.beginOff + o) e.serialize := by
  have key : ∀ (bs : List Nat) (ns : List Nat), bs.length = 32 → ns.sum = 32 → (∀ n ∈ ns, 0 < n) →
      ∃ d', run (writeChunks DirStream.strm (.root (sliceAt s o)) (chunksOf bs ns)) d =
          (.ok (.root (sliceAt s (o + 32))), d') ∧ WritesTo d d' (s.beginOff + o) bs := by
    intro bs ns hb hn hpos
    have hfl := chunksOf_flatten ns bs (by rw [hn, hb])
    have := root_writeChunks s hv hm (chunksOf bs ns) o d (chunksOf_ne_nil ns bs hpos (by rw [hn, hb]; exact Nat.le_refl _)) hfa hsz
      (by rw [hfl, hb]; exact hroom) hdev
    rw [hfl, hb] at this
    exact this
  cases e with
  | file f =>
    exact key f.serialize _ hlen entryChunks_sum (by decide)
  | lfn l =>
    exact key l.serialize _ hlen lfnChunks_sum (by decide)

end root

end FatVerif.DirSim
