import FatVerif.Proofs.DecodeAgree1
import FatVerif.Proofs.DecodeAgree4
/-! C08, part 3: specification-valid volumes; every directory of the tree lists faithfully, every listed file reads
    faithfully. -/
namespace FatVerif.DecodeAgree
open FatVerif FatVerif.Fat FatVerif.FileSim FatVerif.DirSim

/-- where the slots of a directory are -/
inductive Loc where
  | fixedRoot
  | chain (c0 : Nat)
  deriving DecidableEq, Repr

/-- the slots of a directory of the image, as the specification reads them: the root region, or the clusters of the
    specification's chain -/
def locSlots (fs : FsState) (img : Img) : Loc → Option (List (List Nat))
  | .fixedRoot => some (rootDirSlots fs img)
  | .chain c0 => (specChainOf fs img c0).map (chainSlots fs img)

def rootLoc (fs : FsState) : Loc := if fs.fatType = .fat32 then .chain fs.rootCluster else .fixedRoot

/-- the directories of the volume: the root, and every directory named by a row of a directory of the volume -/
inductive SpecDir (fs : FsState) (img : Img) : Loc → Prop
  | root : SpecDir fs img (rootLoc fs)
  | sub (loc : Loc) (slots : List (List Nat)) (r : DirSpec.Row) (c : Nat) : SpecDir fs img loc →
      locSlots fs img loc = some slots → r ∈ DirSpec.specRows (fs.fatType == .fat32) slots → r.isDir = true →
      r.firstCluster = some c → SpecDir fs img (.chain c)

/-- **the data of a specification-valid volume** (FAT and directory part), for the geometry `fs`:
    * every cluster-chain directory of the tree has a chain the specification's FAT decoder walks to an end-of-chain mark,
      and is smaller than 4 GiB (the specification allows 65 536 entries = 2 MiB);
    * every listed file without cluster has size 0; every other listed file has such a chain, long enough for its size. -/
structure SpecValidTree (fs : FsState) (img : Img) : Prop where
  dirs : ∀ c0, SpecDir fs img (.chain c0) →
    ∃ chain, SpecChainOk fs img c0 chain ∧ chain.length * fs.clusterSize < 4294967296
  files : ∀ loc slots r, SpecDir fs img loc → locSlots fs img loc = some slots →
    r ∈ DirSpec.specRows (fs.fatType == .fat32) slots → r.isDir = false →
    (r.firstCluster = none → r.size = 0) ∧
    (∀ c0, r.firstCluster = some c0 → ∃ chain, SpecChainOk fs img c0 chain ∧ r.size ≤ chain.length * fs.clusterSize)

/-- what holds of the device after a successful mount of a specification-valid volume (and keeps holding while image,
    mounted state and fault schedule stay) -/
structure VolInv (d : Dev) : Prop where
  noFault : d.failAt = none
  geo : Geo d.fs d.img.size
  alloc : d.fs.lfnAlloc = true
  noAcc : d.fs.accDate = false
  cs32 : d.fs.clusterSize % 32 = 0
  root : d.fs.fatType ≠ .fat32 → ∃ N, RootReadable d N
  tree : SpecValidTree d.fs d.img

theorem VolInv.of_same {d d1 : Dev} (h : VolInv d) (hfs : d1.fs = d.fs) (himg : d1.img = d.img)
    (hfa : d1.failAt = d.failAt) : VolInv d1 := by
  refine ⟨by rw [hfa]; exact h.noFault, by rw [hfs, himg]; exact h.geo, by rw [hfs]; exact h.alloc,
    by rw [hfs]; exact h.noAcc, by rw [hfs]; exact h.cs32, ?_, by rw [hfs, himg]; exact h.tree⟩
  intro h32
  obtain ⟨N, hr⟩ := h.root (by rw [← hfs]; exact h32)
  exact ⟨N, ⟨by rw [hfa]; exact hr.noFault, by rw [hfs, himg]; exact hr.inside, by rw [hfs]; exact hr.slots,
    by rw [hfs]; exact hr.fuel⟩⟩

/-- the handle through which the library reads directory `loc`: the root stream, or a cluster-chain handle whose entry
    (if any) is a directory's and has nothing to write back — what `root_dir()` / `to_dir()` build -/
def HandleFor (fs : FsState) : Loc → DirStream → Prop
  | .fixedRoot, st => st = rootAt fs 0
  | .chain c0, st => ∃ ent, st = .file (FileH.new (some c0) ent) ∧
      (∀ e, ent = some e → e.data.isDir = true ∧ e.dirty = false)

theorem handleFor_root (fs : FsState) : HandleFor fs (rootLoc fs) (rootDirStream fs) := by
  unfold rootLoc
  by_cases h : fs.fatType = .fat32
  · rw [if_pos h, rootDirStream_fat32 fs h]
    exact ⟨none, rfl, fun e he => by cases he⟩
  · rw [if_neg h]
    show rootDirStream fs = rootAt fs 0
    unfold rootDirStream rootAt
    cases hft : fs.fatType with
    | fat32 => exact absurd hft h
    | fat12 => rfl
    | fat16 => rfl

/-- **every directory of the tree lists faithfully**: through its handle, `Dir::iter()` returns entries whose rows are
    exactly the specification's rows of the directory's slots in the image -/
theorem dir_faithful {d : Dev} (hv : VolInv d) (loc : Loc) (hloc : SpecDir d.fs d.img loc) (st : DirStream)
    (hst : HandleFor d.fs loc st) :
    ∃ slots L d', locSlots d.fs d.img loc = some slots ∧ run (listDir st) d = (.ok L, d') ∧
      L.map (libRow d.fs.fatType) = DirSpec.specRows (d.fs.fatType == .fat32) slots ∧
      (∃ src, L = (DirSlots.listing slots).map (toDirEntryS src)) ∧
      d'.img = d.img ∧ d'.fs = d.fs ∧ d'.failAt = d.failAt ∧ d'.writesOf = d.writesOf := by
  cases loc with
  | fixedRoot =>
    have h32 : d.fs.fatType ≠ .fat32 := by
      intro h32
      -- the fixed root is a directory of the tree only on FAT12/16: on FAT32 every location is a chain
      have : ∀ l, SpecDir d.fs d.img l → l ≠ .fixedRoot := by
        intro l hl
        cases hl with
        | root => unfold rootLoc; rw [if_pos h32]; intro h; cases h
        | sub _ _ _ _ _ _ _ _ _ => intro h; cases h
      exact this _ hloc rfl
    obtain ⟨N, hr⟩ := hv.root h32
    obtain ⟨d', hrun, h1, h2, h3, h4⟩ := listDir_root_listing hr hv.alloc
    have hst' : st = rootAt d.fs 0 := hst
    refine ⟨rootDirSlots d.fs d.img, _, d', rfl, by rw [hst']; exact hrun, ?_, ?_, h1, h3,
      by rw [h4, hv.noFault], ?_⟩
    · exact rows_agree_root _ _ _ (fun s hs => by rw [rootDirSlots_len32 _ _ s hs]; omega)
    · refine ⟨fun o => (rootSliceOf d.fs).beginOff + o, ?_⟩
      apply List.map_congr_left
      intro e he
      have hpos : 0 < e.endIdx := by
        have hb := Lfn.readLoop_units_le true true (rootDirSlots d.fs d.img) 0 0 _ (Lfn.WF_new true)
        -- endIdx = index of the short slot + 1
        have : ∀ (slots : List (List Nat)) (i bg : Nat) (b : LongNameBuilder),
            ∀ x ∈ Lfn.readLoop true true slots i bg b, i < x.endIdx := by
          intro slots
          induction slots with
          | nil => intro i bg b x hx; simp [Lfn.readLoop] at hx
          | cons s rest ih =>
            intro i bg b x hx
            unfold Lfn.readLoop at hx
            cases hcl : slotClass s with
            | endMark => simp [hcl] at hx
            | deleted => simp only [hcl] at hx; have := ih _ _ _ x hx; omega
            | lfn => simp only [hcl] at hx; have := ih _ _ _ x hx; omega
            | volume => simp only [hcl, if_true] at hx; have := ih _ _ _ x hx; omega
            | file =>
              simp only [hcl] at hx
              rcases List.mem_cons.1 hx with rfl | hx
              · simp
              · have := ih _ _ _ x hx; omega
        exact Nat.lt_of_le_of_lt (Nat.zero_le _) (this _ 0 0 _ e he)
      exact (toDirEntryS_root _ e hpos).symm
    · unfold Dev.writesOf; rw [h2]
  | chain c0 =>
    obtain ⟨ent, hst', hent⟩ := hst
    obtain ⟨chain, hc, hsmall⟩ := hv.tree.dirs c0 hloc
    have hacc : d.fs.accDate = false ∨ ent = none := Or.inl hv.noAcc
    have hread : ChainReadable d c0 ent chain :=
      chainReadable_of_spec hv.noFault hv.geo hc (fun e he => (hent e he).1) (fun e he => (hent e he).2) hacc
        hv.cs32 hsmall
    obtain ⟨d', hrun, h1, h2, h3, h4⟩ := listDir_chain_listing hread hv.alloc
    refine ⟨chainSlots d.fs d.img chain, _, d', ?_, by rw [hst']; exact hrun, ?_, ⟨_, rfl⟩, h1, h3,
      by rw [h4, hv.noFault], h2⟩
    · show (specChainOf d.fs d.img c0).map (chainSlots d.fs d.img) = _
      rw [hc.walk]; rfl
    · exact rows_agree _ _ _ (fun s hs => by rw [chainSlots_len32 _ _ _ s hs]; omega)

end FatVerif.DecodeAgree
