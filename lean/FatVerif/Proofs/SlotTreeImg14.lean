import FatVerif.Proofs.SlotTreeImg13
/-!
# Slot trees on a device image, part 14: `create_dir` with last directory = the fixed root, on a path of any depth
-/
namespace FatVerif
namespace SlotTreeImg
open Lfn DirSlots DirAlias SlotTree DirSim FatVerif.FileSim FatVerif.Fat

/-- the tree `createS … true` leaves at the root is the old one or the old one with one directory entry added -/
theorem cdFinal_tree_cases {up : Char → List Char} {slots : List (List Nat)} {ch : List (LfnEntry × Node)}
    (name : String) (stamp : List Nat) :
    (cdFinal up (.dir slots ch) [] name stamp).tree = .dir slots ch ∨
    ∃ al, checkForExistenceL up slots name (some true) 70000 = .ok (.alias al) ∧
      Names.validateLongName name = .ok () ∧
      (cdFinal up (.dir slots ch) [] name stamp).tree =
        addEntry (Names.encodeUtf16 name.toList) (sfnWith al (newBody true stamp)) (freshNode true) (.dir slots ch) := by
  unfold cdFinal
  simp only [getAtS, List.isEmpty_nil, Bool.not_true, Bool.and_false, Bool.false_eq_true, if_false]
  unfold createFinal
  cases hc : checkForExistenceL up slots name (some true) 70000 with
  | error e => left; rfl
  | ok r =>
    cases r with
    | entry e => left; rfl
    | alias al =>
      simp only
      split
      · left; rfl
      · cases hv : Names.validateLongName name with
        | error e => left; rfl
        | ok u => cases u; right; exact ⟨al, rfl, rfl, rfl⟩

/-- the directories of the old tree are directories of the new one -/
theorem cdFinal_keeps_dirs {up : Char → List Char} {slots : List (List Nat)} {ch : List (LfnEntry × Node)}
    (hwf : TreeWf up (.dir slots ch)) (name : String) (stamp : List Nat) (p : List String)
    (h : ∃ s c, getAtS up (.dir slots ch) p = some (.dir s c)) :
    ∃ s c, getAtS up (cdFinal up (.dir slots ch) [] name stamp).tree p = some (.dir s c) := by
  rcases cdFinal_tree_cases (up := up) (slots := slots) (ch := ch) name stamp with h0 | ⟨al, hal, hval, h1⟩
  · rw [h0]; exact h
  · rw [h1]
    have hnb : newBody true stamp = 16 :: stamp := rfl
    rw [hnb]
    have hd : DirOk up slots ch := ((all_dir _ slots ch).1 hwf).1
    have hlen := C16dir.dir_alias_length _ _ _ _ _ _ hal
    obtain ⟨_, c1, c2, c3, c4, c5, _, _, _⟩ :=
      C16dir.dir_create_hyps up slots name (some true) 70000 al 16 stamp hval (by decide) hal
    have hwf' := C16dir.dir_create_wf up slots name (some true) 70000 al 16 stamp hd.wf hval (by decide) hal
    have hkindF : Lfn.isDir (sfnWith al (16 :: stamp)) = (freshNode true).isDir := by
      rw [← hnb, isDir_newBody al true _ hlen, fresh_isDir]
    obtain ⟨hd', hsub, _, _⟩ := addEntry_dirOk hd (Names.encodeUtf16 name.toList) (sfnWith al (16 :: stamp))
      (freshNode true) hwf' c1 c2 c3 c4 c5 hkindF
    rw [addEntry_dir hd.wf.shape _ _ _ ch c1 c2 c3 c4 c5]
    refine dirs_kept_of_lookup ?_ p h
    intro q y hy _
    exact lookupS_addEntry hd _ _ _ hd' hsub q y hy

section top
variable {d : Dev} {up : Char → List Char} {t : Node} {cl : List String → Option Nat}

/-- **`create_dir` at byte level, last directory = the fixed root** (any path whose directory components lead back to
    the root).  `hres` (`DirRes`): volume facts of the allocation, the allocator finds the cluster `c`, the entry fits
    into the root region, `c` is on no directory chain.  On success the new image holds the new slot tree under a
    cluster map that agrees with the old one on every directory of the old tree. -/
theorem create_dir_root_img (W : ImgTreeW d up t cl) (hwf : TreeWf up t) (hup : DotSafe up) (env : Env)
    (henv : env.upper = up) (cwd : List String) (st : DirStream) (hden : Den d up t cl cwd st) (path : String)
    (fuel : Nat) (hfuel : path.toList.length < fuel)
    (hlast : ∀ p, walkDirsS up t cwd (pathParts path).1 = .ok p → p = []) (c : Nat)
    (hres : ∀ slots ch, t = .dir slots ch → DirRes d up t cl slots (pathParts path).2 c)
    (hnh : (createS up 70000 t cwd path true (sfnStamp d.fs d.clock (some c))).out ≠ .error .hang) :
    (∀ e, (createS up 70000 t cwd path true (sfnStamp d.fs d.clock (some c))).out = .error e →
      FailsV (createDir env fuel st path) d e) ∧
    (∀ rows, (createS up 70000 t cwd path true (sfnStamp d.fs d.clock (some c))).out = .ok rows →
      ∃ (s : DirStream) (d' : Dev), run (createDir env fuel st path) d = (.ok s, d') ∧ VolStep d d' ∧
        ∃ cl', ImgTreeW d' up (createS up 70000 t cwd path true (sfnStamp d.fs d.clock (some c))).tree cl' ∧
          ClAgree up t cl cl') := by
  obtain ⟨slots, ch, rfl⟩ := root_of_den hden
  have I := W.toImgTree
  let stamp := sfnStamp d.fs d.clock (some c)
  let L := (pathParts path).2
  let T' := (cdFinal up (.dir slots ch) [] L stamp).tree
  have hpp : pathParts path = splitAll path.toList.length path.toList := rfl
  have M := mut_walk I hwf hup env henv (createDir env) (createDir_unfold_step env)
    (fun (_ : DirStream) d' => VolStep d d' ∧ ∃ cl', ImgTreeW d' up T' cl' ∧ ClAgree up (.dir slots ch) cl cl')
    (fun _ d1 d2 hp hs => ⟨hp.1.trans (VolStep.of_sameVol hs), by
      obtain ⟨cl', hW, hA⟩ := hp.2
      exact ⟨cl', hW.of_sameVol hs, hA⟩⟩)
    (fun _ d' p sub hp hdn => by
      obtain ⟨cl', hW, hA⟩ := hp.2
      have hden' : Den d' up T' cl' p sub :=
        ⟨cdFinal_keeps_dirs hwf L stamp p hdn.1, by rw [hA p hdn.1]; exact streamFor_geom hp.1.geom hdn.2⟩
      obtain ⟨V'⟩ := den_view hW.toImgTree hden'
      exact V'.drop_sim d' (SameVol.refl d'))
    (fun p => p = []) (fun p l => outErr (cdFinal up (.dir slots ch) p l stamp)) L
    (fun cur st' hgood hden' f chars a hsp hL d4 hv4 hc4 => by
      subst hgood
      have hst := den_root_stream W hden'
      subst hst
      have h0 := createDir_root_final W hwf env henv f chars a hsp c (by rw [hL]; exact hres slots ch rfl) d4 hv4 hc4
      rw [hL] at h0
      show MOut _ _ d4 (outErr (cdFinal up (.dir slots ch) [] (String.ofList a) stamp))
      rw [hL]
      exact h0)
    path.toList.length path.toList (Nat.le_refl _) fuel hfuel cwd st hden (by rw [← hpp]; exact hlast)
  rw [String.ofList_toList, ← hpp] at M
  have hS := createS_dir_eq up (.dir slots ch) cwd path stamp
  have hverd : mverdict up (.dir slots ch) (fun p l => outErr (cdFinal up (.dir slots ch) p l stamp)) cwd (pathParts path) =
      outErr (createS up 70000 (.dir slots ch) cwd path true stamp) := by
    rw [hS]
    unfold mverdict
    cases walkDirsS up (.dir slots ch) cwd (pathParts path).1 <;> rfl
  have M' := M (by
      intro e he
      rw [hverd] at he
      intro hh
      apply hnh
      unfold outErr at he
      cases ho : (createS up 70000 (.dir slots ch) cwd path true stamp).out with
      | ok r => rw [ho] at he; cases he
      | error e' =>
        rw [ho] at he
        simp only [Option.some.injEq] at he
        rw [he, hh]) rfl d (SameVol.refl d) rfl
  rw [hverd] at M'
  constructor
  · intro e he
    unfold outErr at M'
    rw [he] at M'
    exact M'
  · intro rows hr
    unfold outErr at M'
    rw [hr] at M'
    obtain ⟨s, d', hrun, hvs, cl', hW, hA⟩ := M'
    refine ⟨s, d', hrun, hvs, cl', ?_, hA⟩
    have htree : (createS up 70000 (.dir slots ch) cwd path true stamp).tree = T' := by
      rw [hS]
      cases hw : walkDirsS up (.dir slots ch) cwd (pathParts path).1 with
      | error e =>
        rw [hS, hw] at hr
        cases hr
      | ok p =>
        have := hlast p hw
        subst this
        rfl
    rw [htree]
    exact hW

end top

end SlotTreeImg
end FatVerif
