import FatVerif.Props.C02sim
import FatVerif.Model.Api
/-!
# FileSim: the loops of the history driver are the loops of `execH`

`Session.readxLoop` / `Session.writeAllLoopS` (Model/Api.lean: `readx`, `writeall` of the history driver) thread a whole
session; the device part of what they do is `readxH` / `writeallH` of `Props/C02sim.lean`, the rest is bookkeeping
(`readxOut`, `writeallOut`: store the handle, map the result).
-/
namespace FatVerif.FileSim
open FatVerif FatVerif.Fat

/-- the session after `readx` / `writeall`, from the outcome of the loop on the device -/
def loopOut (okv : List Nat → List String) (s : Session) (f : Nat) :
    Cursor.FileRes × FileH × Dev → Session × ApiRes
  | (.bytes l, h, d) => ({ s with dev := d, files := s.files.insert f h }, .ok (okv l))
  | (.unit, h, d) => ({ s with dev := d, files := s.files.insert f h }, .ok [])
  | (.errAt e _, h, d) =>
    if e = .eof ∨ e = .writeZero then ({ s with dev := d, files := s.files.insert f h }, .err e)
    else Session.fatal { s with files := s.files.insert f h } d e
  | (.err e, h, d) => Session.fatal { s with files := s.files.insert f h } d e
  | (_, h, d) => ({ s with dev := d, files := s.files.insert f h }, .badScript)

theorem loopOut_dev (okv : List Nat → List String) (s : Session) (f : Nat) (d0 : Dev)
    (r : Cursor.FileRes × FileH × Dev) : loopOut okv { s with dev := d0 } f r = loopOut okv s f r := by
  obtain ⟨r, h, d⟩ := r
  cases r <;> simp only [loopOut, Session.fatal] <;> rfl

theorem readxLoop_eq : ∀ (fuel : Nat) (s : Session) (f : Nat) (h : FileH) (n : Nat) (acc : List Nat),
    Session.readxLoop s f fuel h n acc = loopOut (fun l => [Util.hexOfBytes l]) s f (readxH fuel h s.dev n acc)
  | 0, s, f, h, n, acc => rfl
  | fuel + 1, s, f, h, n, acc => by
    rw [Session.readxLoop, readxH]
    by_cases hn : n = 0
    · simp only [hn, if_true]; rfl
    · simp only [hn, if_false, Session.exec]
      generalize run (h.read n) s.dev = r
      obtain ⟨(e | ⟨bs, h'⟩), d'⟩ := r
      · rfl
      · simp only
        by_cases hl : bs.length = 0
        · have : bs = [] := List.eq_nil_of_length_eq_zero hl
          subst this
          simp only [List.isEmpty_nil, if_true, List.length_nil]
          simp [loopOut]
        · have : bs.isEmpty = false := by cases bs with
            | nil => exact absurd rfl hl
            | cons a t => rfl
          simp only [this, hl, if_false, Bool.false_eq_true]
          rw [readxLoop_eq fuel _ f h' (n - bs.length) (acc ++ bs)]
          exact loopOut_dev _ s f d' _

theorem writeAllLoopS_eq : ∀ (fuel : Nat) (s : Session) (f : Nat) (h : FileH) (bs : List Nat),
    Session.writeAllLoopS s f fuel h bs = loopOut (fun _ => []) s f (writeallH fuel h s.dev bs)
  | 0, s, f, h, bs => rfl
  | fuel + 1, s, f, h, bs => by
    rw [Session.writeAllLoopS, writeallH]
    by_cases hn : bs.length = 0
    · have : bs = [] := List.eq_nil_of_length_eq_zero hn
      subst this
      simp only [List.isEmpty_nil, if_true, List.length_nil]
      rfl
    · have : bs.isEmpty = false := by cases bs with
        | nil => exact absurd rfl hn
        | cons a t => rfl
      simp only [this, hn, if_false, Bool.false_eq_true, Session.exec]
      generalize run (h.write bs) s.dev = r
      obtain ⟨(e | ⟨k, h'⟩), d'⟩ := r
      · simp only [loopOut]
        by_cases he : e = .eof ∨ e = .writeZero
        · rcases he with he | he <;> subst he <;> rfl
        · simp only [he, if_false]
      · simp only
        by_cases hk : k = 0
        · simp only [hk, if_true]
          simp [loopOut]
        · simp only [hk, if_false]
          rw [writeAllLoopS_eq fuel _ f h' (bs.drop k)]
          exact loopOut_dev _ s f d' _

end FatVerif.FileSim
