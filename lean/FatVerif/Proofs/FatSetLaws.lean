import FatVerif.Proofs.FatCodecLaws
import FatVerif.Model.FatView
/-! `set`-level laws for all three widths and the key law `view (set f c v) = updV (view f) c v`. -/
namespace FatVerif.Fat

theorem representable_fits {ft : FatType} {v : FatValue} (h : Representable ft v) : FitsWidth ft v := by
  cases ft <;> cases v <;> simp [Representable, FitsWidth, rawOfValue, valLimit] at * <;> omega

theorem getRaw32_lt {f : Array Nat} {c old : Nat} (hf : WfBytes f) (h : getRaw32 f c = .ok old) :
    old < 4294967296 := by
  unfold getRaw32 at h
  split at h; · cases h
  split at h; · cases h
  cases h; exact rd32_lt f hf _

theorem getRaw_inRange {ft : FatType} {f : Array Nat} {c r : Nat} (h : getRaw ft f c = .ok r) : InRange ft f c := by
  cases ft <;> simp only [getRaw, getRaw12, getRaw16, getRaw32] at h <;>
    (split at h; · cases h) <;> (split at h; · cases h) <;>
    simp only [InRange, off, width, u32Lim] at * <;> omega

theorem getRaw_ok_of_inRange {ft : FatType} {f : Array Nat} {c : Nat} (h : InRange ft f c) :
    ∃ r, getRaw ft f c = .ok r := by
  cases ft <;> simp only [InRange, off, width] at h <;> simp only [getRaw, getRaw12, getRaw16, getRaw32]
  · rw [if_neg (by omega), if_neg (by omega)]; exact ⟨_, rfl⟩
  · rw [if_neg (by omega), if_neg (by omega)]; exact ⟨_, rfl⟩
  · rw [if_neg (by omega), if_neg (by omega)]; exact ⟨_, rfl⟩

theorem get_ok_of_inRange {ft : FatType} {f : Array Nat} {c : Nat} (h : InRange ft f c) :
    ∃ v, get ft f c = .ok v := by
  obtain ⟨r, hr⟩ := getRaw_ok_of_inRange h
  exact ⟨classify ft c r, by simp [get, hr]⟩

theorem get_inRange {ft : FatType} {f : Array Nat} {c : Nat} {v : FatValue} (h : get ft f c = .ok v) :
    InRange ft f c := by
  unfold get at h
  split at h
  · rename_i r hr; exact getRaw_inRange hr
  · cases h

theorem set32_unfold {f f' : Array Nat} {c : Nat} {v : FatValue} (h : set32 f c v = .ok f') :
    ∃ old, getRaw32 f c = .ok old ∧
      setRaw32 f c (rawOfValue .fat32 v ||| (old / 268435456 * 268435456)) = .ok f' := by
  unfold set32 at h
  cases hg : getRaw32 f c with
  | error e => rw [hg] at h; cases h
  | ok old =>
    rw [hg] at h
    simp only at h
    split at h
    · cases h
    · exact ⟨old, rfl, h⟩

theorem set_size {ft : FatType} {f f' : Array Nat} {c : Nat} {v : FatValue} (h : set ft f c v = .ok f') :
    f'.size = f.size := by
  cases ft
  · exact setRaw12_size h
  · exact setRaw16_size h
  · obtain ⟨old, _, h2⟩ := set32_unfold h; exact setRaw32_size h2

theorem set_inRange {ft : FatType} {f f' : Array Nat} {c : Nat} {v : FatValue} (h : set ft f c v = .ok f') :
    InRange ft f c := by
  cases ft
  · simp only [set, setRaw12] at h
    split at h; · cases h
    split at h; · cases h
    simp only [InRange, off, width]; omega
  · simp only [set, setRaw16] at h
    split at h; · cases h
    split at h; · cases h
    simp only [InRange, off, width]; omega
  · obtain ⟨old, h1, _⟩ := set32_unfold h
    exact getRaw_inRange (ft := .fat32) h1

theorem set_ok_of_inRange {ft : FatType} {f : Array Nat} {c : Nat} {v : FatValue} (h : InRange ft f c)
    (hs : ft = .fat32 → v = .free → ¬ special32 c) : ∃ f', set ft f c v = .ok f' := by
  cases ft <;> simp only [InRange, off, width] at h
  · simp only [set, setRaw12]; rw [if_neg (by omega), if_neg (by omega)]; exact ⟨_, rfl⟩
  · simp only [set, setRaw16]; rw [if_neg (by omega), if_neg (by omega)]; exact ⟨_, rfl⟩
  · simp only [set, set32, getRaw32]
    rw [if_neg (by omega), if_neg (by omega)]
    simp only
    rw [if_neg (by intro ⟨a, b⟩; exact hs rfl a b)]
    simp only [setRaw32]
    rw [if_neg (by omega), if_neg (by omega)]; exact ⟨_, rfl⟩

theorem set_wf {ft : FatType} {f f' : Array Nat} {c : Nat} {v : FatValue} (hf : WfBytes f)
    (h : set ft f c v = .ok f') : WfBytes f' := by
  cases ft
  · simp only [set, setRaw12] at h
    split at h; · cases h
    split at h; · cases h
    cases h; exact wfBytes_wr16 _ _ _ hf
  · simp only [set, setRaw16] at h
    split at h; · cases h
    split at h; · cases h
    cases h; exact wfBytes_wr16 _ _ _ hf
  · obtain ⟨old, _, h2⟩ := set32_unfold h
    simp only [setRaw32] at h2
    split at h2; · cases h2
    split at h2; · cases h2
    cases h2; exact wfBytes_wr32 _ _ _ hf

/-- the raw entry after `set`: the value written plus (FAT32) the old reserved bits -/
theorem getRaw_set_same {ft : FatType} {f f' : Array Nat} {c : Nat} {v : FatValue} (hf : WfBytes f)
    (hv : FitsWidth ft v) (h : set ft f c v = .ok f') :
    ∃ old, getRaw ft f c = .ok old ∧ getRaw ft f' c = .ok (topBits ft old + rawOfValue ft v) := by
  obtain ⟨old, hold⟩ := getRaw_ok_of_inRange (set_inRange h)
  refine ⟨old, hold, ?_⟩
  cases ft
  · simp only [FitsWidth, valLimit] at hv
    simp only [getRaw, topBits, Nat.zero_add]
    exact getRaw12_set_same hf hv h
  · simp only [FitsWidth, valLimit] at hv
    simp only [getRaw, topBits, Nat.zero_add]
    have := getRaw16_set_same h
    rwa [Nat.mod_eq_of_lt hv] at this
  · simp only [FitsWidth, valLimit] at hv
    obtain ⟨old', h1, h2⟩ := set32_unfold h
    simp only [getRaw] at hold ⊢
    rw [h1] at hold; cases hold
    have hlt := getRaw32_lt hf h1
    rw [or_top28 _ _ hv] at h2
    have := getRaw32_set_same h2
    rw [Nat.mod_eq_of_lt (by omega)] at this
    simpa [topBits] using this

theorem getRaw_set_other {ft : FatType} {f f' : Array Nat} {c c' : Nat} {v : FatValue} (hf : WfBytes f)
    (hv : FitsWidth ft v) (h : set ft f c v = .ok f') (hne : c' ≠ c) : getRaw ft f' c' = getRaw ft f c' := by
  cases ft
  · simp only [FitsWidth, valLimit] at hv
    exact getRaw12_set_other hf hv h hne
  · exact getRaw16_set_other h hne
  · obtain ⟨old', _, h2⟩ := set32_unfold h
    exact getRaw32_set_other h2 hne

theorem get_set_other {ft : FatType} {f f' : Array Nat} {c c' : Nat} {v : FatValue} (hf : WfBytes f)
    (hv : FitsWidth ft v) (h : set ft f c v = .ok f') (hne : c' ≠ c) : get ft f' c' = get ft f c' := by
  unfold get; rw [getRaw_set_other hf hv h hne]

theorem classify_roundtrip {ft : FatType} {c : Nat} {v : FatValue} (top : Nat) (hv : Representable ft v)
    (hs : ft = .fat32 → ¬ special32 c) :
    classify ft c (topBits ft top + rawOfValue ft v) = v := by
  cases ft <;> cases v <;>
    simp [classify, classify12, classify16, classify32, topBits, rawOfValue, Representable] at *
  all_goals (repeat' split)
  all_goals first | rfl | exact hs | (exfalso; omega) | (congr 1; omega) | (exfalso; exact hs ‹_›)

theorem get_set_same {ft : FatType} {f f' : Array Nat} {c : Nat} {v : FatValue} (hf : WfBytes f)
    (hv : Representable ft v) (hs : ft = .fat32 → ¬ special32 c) (h : set ft f c v = .ok f') :
    get ft f' c = .ok v := by
  obtain ⟨old, _, h2⟩ := getRaw_set_same hf (representable_fits hv) h
  unfold get; rw [h2]; simp only
  rw [classify_roundtrip old hv hs]

/-- **the key law**: on the decoded view, `set` is a point update -/
theorem view_set {ft : FatType} {f f' : Array Nat} {c : Nat} {v : FatValue} (hf : WfBytes f)
    (hv : Representable ft v) (hs : ft = .fat32 → ¬ special32 c) (h : set ft f c v = .ok f') :
    view ft f' = updV (view ft f) c v := by
  funext i
  unfold view updV
  by_cases hi : i = c
  · subst hi; rw [get_set_same hf hv hs h]; simp
  · rw [get_set_other hf (representable_fits hv) h hi]; simp [hi]

end FatVerif.Fat
