import FatVerif.Proofs.LfnSpec
/-! Where the name of an entry comes from: positional reading of the specification loop. -/
namespace FatVerif
namespace Lfn

theorem slotClass_lfn_of_spec (s : List Nat) (c1 : ¬ DirSpec.isEndMark s = true) (c2 : ¬ DirSpec.isFree s = true)
    (c3 : DirSpec.isLong s = true) : slotClass s = .lfn := by
  rw [slotClass_spec]; simp [c1, c2, c3]

/-- every run the specification loop reports is a complete run of long-name slots sitting directly before the
    entry's short slot -/
theorem specLoop_run_sound (sv : Bool) : ∀ (rest : List (List Nat)) (idx : Nat) (pend consumed : List (List Nat)),
    consumed.length = idx → (∃ pre0, consumed = pre0 ++ pend.reverse) → (∀ s ∈ pend, slotClass s = .lfn) →
    ∀ e ∈ DirSpec.specLoop sv rest idx pend, ∀ r, e.run = some r →
      ∃ pre R post, consumed ++ rest = pre ++ R ++ e.sfn :: post ∧ e.endIdx = pre.length + R.length + 1 ∧
        CompleteRun (lfnChecksum (sfnName e.sfn)) R ∧ (∀ s ∈ R, slotClass s = .lfn) ∧ r = runUnits R := by
  intro rest
  induction rest with
  | nil => intro _ _ _ _ _ _ e he; simp [DirSpec.specLoop] at he
  | cons s rest ih =>
    intro idx pend consumed hlen hpre hlfn e he r hr
    have hcons : consumed ++ s :: rest = (consumed ++ [s]) ++ rest := by simp
    have hlen' : (consumed ++ [s]).length = idx + 1 := by simp [hlen]
    have reset : ∀ e ∈ DirSpec.specLoop sv rest (idx + 1) [], e.run = some r →
        ∃ pre R post, consumed ++ s :: rest = pre ++ R ++ e.sfn :: post ∧ e.endIdx = pre.length + R.length + 1 ∧
          CompleteRun (lfnChecksum (sfnName e.sfn)) R ∧ (∀ s ∈ R, slotClass s = .lfn) ∧ r = runUnits R := by
      intro e he hr
      rw [hcons]
      exact ih (idx + 1) [] (consumed ++ [s]) hlen' ⟨consumed ++ [s], by simp⟩ (by simp) e he r hr
    unfold DirSpec.specLoop at he
    by_cases c1 : DirSpec.isEndMark s = true
    · simp [c1] at he
    · by_cases c2 : DirSpec.isFree s = true
      · simp only [c1, c2, if_true, Bool.false_eq_true, if_false] at he
        exact reset e he hr
      · by_cases c3 : DirSpec.isLong s = true
        · simp only [c1, c2, c3, if_true, Bool.false_eq_true, if_false] at he
          rw [hcons]
          obtain ⟨pre0, hp0⟩ := hpre
          refine ih (idx + 1) (s :: pend) (consumed ++ [s]) hlen' ⟨pre0, by simp [hp0]⟩ ?_ e he r hr
          intro x hx
          rcases List.mem_cons.1 hx with rfl | hx
          · exact slotClass_lfn_of_spec _ c1 c2 c3
          · exact hlfn x hx
        · have entry : e ∈ (⟨s, DirSpec.specRun (lfnChecksum (DirSpec.shortName s)) pend 1 [], idx - pend.length,
              idx + 1⟩ : DirSpec.SpecEntry) :: DirSpec.specLoop sv rest (idx + 1) [] →
              ∃ pre R post, consumed ++ s :: rest = pre ++ R ++ e.sfn :: post ∧
                e.endIdx = pre.length + R.length + 1 ∧
                CompleteRun (lfnChecksum (sfnName e.sfn)) R ∧ (∀ s ∈ R, slotClass s = .lfn) ∧ r = runUnits R := by
            intro hm
            rcases List.mem_cons.1 hm with rfl | hm
            · simp only at hr ⊢
              obtain ⟨R, Q0, e1, e2, e3⟩ := specRun_sound _ pend 1 [] r (by simp [TailOk]) (Nat.le_refl 1)
                (by simpa [tailUnits] using hr)
              simp only [List.append_nil] at e2 e3
              obtain ⟨pre0, hp0⟩ := hpre
              refine ⟨pre0 ++ Q0.reverse, R, rest, ?_, ?_, ?_, ?_, e3⟩
              · rw [hp0, e1]; simp
              · rw [← hlen, hp0, e1]; simp; omega
              · rw [← spec_shortName]; exact e2
              · intro x hx
                exact hlfn x (by rw [e1]; simp [hx])
            · exact reset e hm hr
          by_cases c4 : DirSpec.isLabel s = true
          · cases sv
            · simp only [c1, c2, c3, Bool.false_and, Bool.false_eq_true, if_false] at he
              exact entry he
            · simp only [c1, c2, c3, c4, Bool.true_and, if_true, Bool.false_eq_true, if_false] at he
              exact reset e he hr
          · simp only [c1, c2, c3, c4, Bool.false_eq_true, if_false, Bool.and_false] at he
            exact entry he

end Lfn
end FatVerif
