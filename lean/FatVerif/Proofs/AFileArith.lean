import FatVerif.Model.AFile
/-! Arithmetic helpers for the file cursor machine: `omega` treats `i * cs` as an atom, these lemmas carry the
    div/mod facts. -/
namespace FatVerif.Cursor

theorem divmod_unique (cs p i j : Nat) (hcs : 0 < cs) :
    (p / cs = i ∧ p % cs = j) ↔ (p = i * cs + j ∧ j < cs) := by
  constructor
  · rintro ⟨rfl, rfl⟩
    exact ⟨by rw [Nat.mul_comm]; exact (Nat.div_add_mod p cs).symm, Nat.mod_lt _ hcs⟩
  · rintro ⟨rfl, hj⟩
    constructor
    · rw [Nat.mul_comm, Nat.mul_add_div hcs, Nat.div_eq_of_lt hj, Nat.add_zero]
    · rw [Nat.mul_comm, Nat.mul_add_mod, Nat.mod_eq_of_lt hj]

/-- the canonical decomposition, in the form `omega` can use -/
theorem divmod_spec (cs p : Nat) (hcs : 0 < cs) : p = p / cs * cs + p % cs ∧ p % cs < cs :=
  (divmod_unique cs p (p / cs) (p % cs) hcs).mp ⟨rfl, rfl⟩

theorem div_eq_of_decomp {cs p i j : Nat} (hcs : 0 < cs) (h : p = i * cs + j) (hj : j < cs) : p / cs = i :=
  ((divmod_unique cs p i j hcs).mpr ⟨h, hj⟩).1

theorem mod_eq_of_decomp {cs p i j : Nat} (hcs : 0 < cs) (h : p = i * cs + j) (hj : j < cs) : p % cs = j :=
  ((divmod_unique cs p i j hcs).mpr ⟨h, hj⟩).2

/-- `p < n * cs → p / cs < n` -/
theorem div_lt_of_lt_mul' {cs p n : Nat} (h : p < n * cs) : p / cs < n := by
  apply Nat.div_lt_of_lt_mul; rw [Nat.mul_comm]; exact h

/-- `n * cs ≤ p → n ≤ p / cs` -/
theorem le_div_of_mul_le' {cs p n : Nat} (hcs : 0 < cs) (h : n * cs ≤ p) : n ≤ p / cs :=
  (Nat.le_div_iff_mul_le hcs).mpr h

/-- two products compared through their bounds -/
theorem mul_lt_cancel {cs a b : Nat} (h : a * cs < b * cs) : a < b :=
  Nat.lt_of_mul_lt_mul_right h

theorem mul_le_of_le {cs a b : Nat} (h : a ≤ b) : a * cs ≤ b * cs :=
  Nat.mul_le_mul_right cs h

/-- round-up cluster count of a positive byte count -/
theorem clustersFromBytes_pos {cs n : Nat} (hcs : 0 < cs) (hn : 0 < n) :
    clustersFromBytes cs n = (n - 1) / cs + 1 := by
  unfold clustersFromBytes
  have : n + cs - 1 = (n - 1) + cs := by omega
  rw [this, Nat.add_div_right _ hcs]

theorem clustersFromBytes_zero {cs : Nat} (hcs : 0 < cs) : clustersFromBytes cs 0 = 0 := by
  unfold clustersFromBytes
  apply Nat.div_eq_of_lt; omega

/-- on a boundary `q * cs` (q > 0) the previous cluster index is `q - 1` -/
theorem pred_div_of_boundary {cs p : Nat} (hcs : 0 < cs) (hp : 0 < p) (hm : p % cs = 0) :
    (p - 1) / cs + 1 = p / cs := by
  have h := divmod_spec cs p hcs
  rw [hm] at h
  have hq : 0 < p / cs := by
    rcases Nat.eq_zero_or_pos (p / cs) with h0 | h0
    · rw [h0] at h; omega
    · exact h0
  have : (p - 1) / cs = p / cs - 1 := by
    apply div_eq_of_decomp hcs (j := cs - 1)
    · have : (p / cs - 1) * cs = p / cs * cs - cs := by rw [Nat.sub_mul, Nat.one_mul]
      have h2 : cs ≤ p / cs * cs := Nat.le_mul_of_pos_left cs hq
      omega
    · omega
  omega

/-- inside a cluster the previous byte lies in the same cluster -/
theorem pred_div_of_inside {cs p : Nat} (hcs : 0 < cs) (hm : p % cs ≠ 0) : (p - 1) / cs = p / cs := by
  have h := divmod_spec cs p hcs
  apply div_eq_of_decomp hcs (j := p % cs - 1) <;> omega

end FatVerif.Cursor
