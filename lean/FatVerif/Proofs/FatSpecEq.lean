import FatVerif.Proofs.FatSim
import FatVerif.Spec.FatTable
import FatVerif.Proofs.FatClassify
/-! The model codec agrees with the independent specification decoder `FatSpec` (bitwise, `3k/2` addressing). -/
namespace FatVerif.Fat
open FatVerif.FatSpec

theorem byteAt_eq_rd (f : Array Nat) (i : Nat) : byteAt f i = rd f i := rfl

theorem word16_eq_rd16 (f : Array Nat) (hf : WfBytes f) (o : Nat) : word16 f o = rd16 f o := by
  unfold word16 rd16
  rw [byteAt_eq_rd, byteAt_eq_rd]
  have h0 := hf o
  have := Nat.shiftLeft_add_eq_or_of_lt (i := 8) (b := rd f o) (by simpa using h0) (rd f (o + 1))
  rw [Nat.or_comm, ← this, Nat.shiftLeft_eq]; omega

theorem word32_eq_rd32 (f : Array Nat) (hf : WfBytes f) (o : Nat) : word32 f o = rd32 f o := by
  unfold word32 rd32
  simp only [byteAt_eq_rd]
  have h0 := hf o; have h1 := hf (o + 1); have h2 := hf (o + 2); have h3 := hf (o + 3)
  have e1 := Nat.shiftLeft_add_eq_or_of_lt (i := 8) (b := rd f o) (by simpa using h0) (rd f (o + 1))
  have e2 := Nat.shiftLeft_add_eq_or_of_lt (i := 16) (b := rd f (o + 1) <<< 8 + rd f o)
    (by rw [Nat.shiftLeft_eq]; simp; omega) (rd f (o + 2))
  have e3 := Nat.shiftLeft_add_eq_or_of_lt (i := 24) (b := rd f (o + 2) <<< 16 + (rd f (o + 1) <<< 8 + rd f o))
    (by rw [Nat.shiftLeft_eq, Nat.shiftLeft_eq]; simp; omega) (rd f (o + 3))
  rw [Nat.or_comm (rd f o), ← e1, Nat.or_comm _ (rd f (o + 2) <<< 16), ← e2,
    Nat.or_comm _ (rd f (o + 3) <<< 24), ← e3]
  simp only [Nat.shiftLeft_eq]; omega

/-- byte-level `get_raw` reads exactly the 12/16/28 bits the specification names (FAT32: plus the reserved nibble) -/
theorem getRaw_spec12 (f : Array Nat) (hf : WfBytes f) (c : Nat) (h : InRange .fat12 f c) :
    getRaw .fat12 f c = .ok (specEntry 12 f c) := by
  simp only [InRange, off, width] at h
  simp only [getRaw, getRaw12]
  rw [if_neg (by omega), if_neg (by omega)]
  congr 1
  unfold specEntry val12
  simp only [if_true]
  have e : 3 * c / 2 = c + c / 2 := by omega
  rw [e, word16_eq_rd16 f hf, Nat.and_one_is_mod]
  by_cases hp : c % 2 = 0
  · rw [if_pos hp, if_neg (by omega)]
    exact (Nat.and_two_pow_sub_one_eq_mod _ 12).symm
  · rw [if_neg hp, if_pos (by omega), Nat.shiftRight_eq_div_pow]

theorem getRaw_spec16 (f : Array Nat) (hf : WfBytes f) (c : Nat) (h : InRange .fat16 f c) :
    getRaw .fat16 f c = .ok (specEntry 16 f c) := by
  simp only [InRange, off, width] at h
  simp only [getRaw, getRaw16]
  rw [if_neg (by omega), if_neg (by omega)]
  congr 1
  unfold specEntry
  rw [if_neg (by decide), if_pos rfl, word16_eq_rd16 f hf, Nat.mul_comm]

theorem getRaw_spec32 (f : Array Nat) (hf : WfBytes f) (c : Nat) (h : InRange .fat32 f c) :
    ∃ raw, getRaw .fat32 f c = .ok raw ∧ raw % 268435456 = specEntry 32 f c ∧ raw / 268435456 = specTop f c := by
  simp only [InRange, off, width] at h
  simp only [getRaw, getRaw32]
  rw [if_neg (by omega), if_neg (by omega)]
  refine ⟨_, rfl, ?_, ?_⟩
  · unfold specEntry
    rw [if_neg (by decide), if_neg (by decide), word32_eq_rd32 f hf, Nat.mul_comm]
    exact (Nat.and_two_pow_sub_one_eq_mod _ 28).symm
  · unfold specTop
    rw [word32_eq_rd32 f hf, Nat.mul_comm, Nat.shiftRight_eq_div_pow]

/-! ### classification: every raw value -/

theorem classify32_spec (c v : Nat) (hc : ¬ special32 c) (hv : v < 268435456) :
    classify32 c v = specClassify 32 v := by
  unfold classify32 specClassify FatSpec.badMark
  simp only [if_neg hc, if_neg (show ¬ (32 = 12) by decide), if_neg (show ¬ (32 = 16) by decide)]
  repeat' split
  all_goals first | rfl | (exfalso; omega)

theorem specEntry12_lt (f : Array Nat) (hf : WfBytes f) (c : Nat) : specEntry 12 f c < 4096 := by
  unfold specEntry
  simp only [if_true]
  rw [word16_eq_rd16 f hf]
  have := rd16_lt f hf (3 * c / 2)
  split
  · rw [Nat.shiftRight_eq_div_pow]; omega
  · rw [show 4095 = 2 ^ 12 - 1 from rfl, Nat.and_two_pow_sub_one_eq_mod]; omega

theorem specEntry16_lt (f : Array Nat) (hf : WfBytes f) (c : Nat) : specEntry 16 f c < 65536 := by
  unfold specEntry
  rw [if_neg (by decide), if_pos rfl, word16_eq_rd16 f hf]
  exact rd16_lt f hf _

/-- **C08.1** `get` classifies exactly as the specification decoder does, on every in-range entry of every width -/
theorem get_spec (ft : FatType) (f : Array Nat) (hf : WfBytes f) (c : Nat) (h : Plain ft f c) :
    get ft f c = .ok (specValue ft.bits f c) := by
  cases ft
  · unfold get specValue
    rw [getRaw_spec12 f hf c h.1]
    simp only [classify, FatType.bits]
    rw [classify12_spec _ (specEntry12_lt f hf c)]
  · unfold get specValue
    rw [getRaw_spec16 f hf c h.1]
    simp only [classify, FatType.bits]
    rw [classify16_spec _ (specEntry16_lt f hf c)]
  · unfold get specValue
    obtain ⟨raw, h1, h2, _⟩ := getRaw_spec32 f hf c h.1
    rw [h1]
    simp only [classify, FatType.bits]
    rw [classify32_spec c _ (h.2 rfl) (Nat.mod_lt _ (by decide)), h2]

end FatVerif.Fat
