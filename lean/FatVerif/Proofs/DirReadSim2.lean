import FatVerif.Proofs.DirReadSim1
/-! Directory reads, part 2: `DirIter::read_dir_entry` on the fixed root = one step of the pure reader `Lfn.readLoop`
    on the slots of the root region. -/
namespace FatVerif.DirSim
open DirEntryData

/-! ### `DirEntryData::deserialize` classifies a slot as `slotClass` does -/

theorem take11_getD0 (raw : List Nat) : (raw.take 11).getD 0 0 = raw.getD 0 0 := by
  cases raw <;> simp [List.getD]

theorem deser_isEnd (raw : List Nat) : (deserialize raw).isEnd = Lfn.isEnd raw := by
  unfold deserialize
  split <;> simp [DirEntryData.isEnd, DirFileEntryData.isEnd, DirLfnEntryData.isEnd, deserializeFile, deserializeLfn,
    Lfn.isEnd, Lfn.byte, u8At]

theorem deser_isDeleted (raw : List Nat) : (deserialize raw).isDeleted = Lfn.isDeleted raw := by
  unfold deserialize
  split <;> simp [DirEntryData.isDeleted, DirFileEntryData.isDeleted, DirLfnEntryData.isDeleted, deserializeFile,
    deserializeLfn, Lfn.isDeleted, Lfn.byte, u8At]

theorem attrs_lfn_table : ∀ b, b < 256 → attrsIsLfn (attrsTruncate b) = (b % 64 % 16 == 15) := by decide +kernel

theorem attrs_vol_table : ∀ b, b < 256 → attrContains (attrsTruncate b) ATTR_VOLUME_ID = (b % 64 / 8 % 2 == 1) := by
  decide +kernel

theorem deser_lfn (raw : List Nat) (h11 : raw.getD 11 0 < 256) :
    attrsIsLfn (attrsTruncate (u8At raw 11)) = Lfn.isLfn raw := by
  simp only [u8At, attrs_lfn_table _ h11, Lfn.isLfn, Lfn.attrs, Lfn.byte]

theorem deser_volume (raw : List Nat) (h11 : raw.getD 11 0 < 256) :
    (deserializeFile raw (attrsTruncate (u8At raw 11))).isVolume = Lfn.isVolume raw := by
  simp only [DirFileEntryData.isVolume, deserializeFile, u8At, attrs_vol_table _ h11, Lfn.isVolume, Lfn.attrs, Lfn.byte]

theorem take11_sfnName (raw : List Nat) (hl : 11 ≤ raw.length) : raw.take 11 = Lfn.sfnName raw := by
  apply List.ext_getElem
  · simp [Lfn.sfnName]; omega
  · intro i h1 h2
    simp only [List.length_take] at h1
    simp [Lfn.sfnName, Lfn.byte, List.getD_eq_getElem?_getD, List.getElem?_eq_getElem (show i < raw.length by omega)]

/-! ### one `DirIter::next` on a list of slots -/

/-- one call of `read_dir_entry` on the slots `L` (head at index `i`): the entry found, if any, and the index the
    stream stands at afterwards (`[]`: the read at the end of the region does not advance the stream) -/
def nextEntry (alloc skipVolume : Bool) : List (List Nat) → Nat → Nat → LongNameBuilder → Option LfnEntry × Nat
  | [], i, _, _ => (none, i)
  | s :: rest, i, bi, b =>
    match slotClass s with
    | .endMark => (none, i + 1)
    | .deleted => nextEntry alloc skipVolume rest (i + 1) (i + 1) (b.clear alloc)
    | .lfn => nextEntry alloc skipVolume rest (i + 1) bi (b.process alloc s)
    | .volume =>
      if skipVolume then nextEntry alloc skipVolume rest (i + 1) (i + 1) (b.clear alloc)
      else (some ⟨s, b.finish alloc (Lfn.sfnName s), bi, i + 1⟩, i + 1)
    | .file => (some ⟨s, b.finish alloc (Lfn.sfnName s), bi, i + 1⟩, i + 1)

/-- the index after `nextEntry` lies in `(i, i + |L|]` when an entry was found -/
theorem nextEntry_idx (alloc sv : Bool) : ∀ (L : List (List Nat)) (i bi : Nat) (b : LongNameBuilder),
    i ≤ (nextEntry alloc sv L i bi b).2 ∧ (nextEntry alloc sv L i bi b).2 ≤ i + L.length ∧
    (∀ e, (nextEntry alloc sv L i bi b).1 = some e → e.endIdx = (nextEntry alloc sv L i bi b).2 ∧ i < e.endIdx) := by
  intro L
  induction L with
  | nil => intro i bi b; simp [nextEntry]
  | cons s rest ih =>
    intro i bi b
    unfold nextEntry
    cases slotClass s with
    | endMark => simp
    | deleted =>
      have := ih (i + 1) (i + 1) (b.clear alloc)
      simp only [List.length_cons]
      exact ⟨by omega, by omega, fun e he => ⟨(this.2.2 e he).1, by have := (this.2.2 e he).2; omega⟩⟩
    | lfn =>
      have := ih (i + 1) bi (b.process alloc s)
      simp only [List.length_cons]
      exact ⟨by omega, by omega, fun e he => ⟨(this.2.2 e he).1, by have := (this.2.2 e he).2; omega⟩⟩
    | volume =>
      dsimp only
      split
      · have := ih (i + 1) (i + 1) (b.clear alloc)
        simp only [List.length_cons]
        exact ⟨by omega, by omega, fun e he => ⟨(this.2.2 e he).1, by have := (this.2.2 e he).2; omega⟩⟩
      · simp only [List.length_cons]
        exact ⟨by omega, by omega, fun e he => by cases he; exact ⟨rfl, Nat.lt_succ_self i⟩⟩
    | file =>
      simp only [List.length_cons]
      exact ⟨by omega, by omega, fun e he => by cases he; exact ⟨rfl, Nat.lt_succ_self i⟩⟩

/-- the pure reader is the iteration of `nextEntry`, each call starting with a fresh builder at the index where the
    previous one stopped -/
theorem readLoop_eq_next (alloc sv : Bool) : ∀ (L : List (List Nat)) (i bi : Nat) (b : LongNameBuilder),
    Lfn.readLoop alloc sv L i bi b =
      match (nextEntry alloc sv L i bi b).1 with
      | none => []
      | some e => e :: Lfn.readLoop alloc sv (L.drop (e.endIdx - i)) e.endIdx e.endIdx (LongNameBuilder.new alloc) := by
  intro L
  induction L with
  | nil => intro i bi b; simp [nextEntry, Lfn.readLoop]
  | cons s rest ih =>
    intro i bi b
    conv => lhs; unfold Lfn.readLoop
    unfold nextEntry
    cases hc : slotClass s with
    | endMark => simp
    | deleted =>
      simp only
      rw [ih]
      cases hn : (nextEntry alloc sv rest (i + 1) (i + 1) (b.clear alloc)).1 with
      | none => rfl
      | some e =>
        have := ((nextEntry_idx alloc sv rest (i + 1) (i + 1) (b.clear alloc)).2.2 e hn).2
        simp only
        rw [show e.endIdx - i = (e.endIdx - (i + 1)) + 1 by omega, List.drop_succ_cons]
    | lfn =>
      simp only
      rw [ih]
      cases hn : (nextEntry alloc sv rest (i + 1) bi (b.process alloc s)).1 with
      | none => rfl
      | some e =>
        have := ((nextEntry_idx alloc sv rest (i + 1) bi (b.process alloc s)).2.2 e hn).2
        simp only
        rw [show e.endIdx - i = (e.endIdx - (i + 1)) + 1 by omega, List.drop_succ_cons]
    | volume =>
      simp only
      split
      · rw [ih]
        cases hn : (nextEntry alloc sv rest (i + 1) (i + 1) (b.clear alloc)).1 with
        | none => rfl
        | some e =>
          have := ((nextEntry_idx alloc sv rest (i + 1) (i + 1) (b.clear alloc)).2.2 e hn).2
          simp only
          rw [show e.endIdx - i = (e.endIdx - (i + 1)) + 1 by omega, List.drop_succ_cons]
      · simp only
        rw [show i + 1 - i = 1 by omega]
        rfl
    | file =>
      simp only
      rw [show i + 1 - i = 1 by omega]
      rfl

/-! ### the fixed root: `read_dir_entry` = `nextEntry` on the slots of the image -/

/-- the 32-byte records of the root region of the image -/
def rootSlots (img : Img) (s : DiskSlice) : List (List Nat) :=
  (List.range (s.size / 32)).map fun j => img.read (s.beginOff + 32 * j) 32

/-- the `DirEntry` the library builds from a short slot and the long name collected before it, for a directory whose
    slot `j` lies at byte `B + 32 * j` of the device -/
def toDirEntry (B : Nat) (e : LfnEntry) : DirEntry :=
  { data := deserializeFile e.sfn (attrsTruncate (u8At e.sfn 11)), lfn := e.units,
    entryPos := B + 32 * e.endIdx - 32, rangeBegin := 32 * e.beginIdx, rangeEnd := 32 * e.endIdx }

theorem Evals.getFs (d : Dev) : Evals Prog.getFs d d.fs := ⟨d, rfl, SameStore.refl d⟩

theorem zero_isEnd : Lfn.isEnd (List.replicate 32 0) = true := by decide

theorem root_loop_sim (alloc sv : Bool) (s : DiskSlice) (N : Nat) (hN : s.size = 32 * N) :
    ∀ (L : List (List Nat)) (fuel i bi : Nat) (b : LongNameBuilder) (d : Dev),
      d.failAt = none → s.beginOff + s.size ≤ d.img.size → i + L.length = N →
      (∀ j, j < L.length → L.getD j [] = d.img.read (s.beginOff + 32 * (i + j)) 32) → L.length < fuel →
      Evals (readDirEntryLoop alloc sv fuel (.root (sliceAt s (32 * i))) (32 * i) (32 * bi) b) d
        (((nextEntry alloc sv L i bi b).1).map (toDirEntry s.beginOff),
         .root (sliceAt s (32 * (nextEntry alloc sv L i bi b).2))) := by
  intro L
  induction L with
  | nil =>
    intro fuel i bi b d h hdev hi _ hf
    obtain ⟨k, rfl⟩ : ∃ k, fuel = k + 1 := ⟨fuel - 1, by simp at hf; omega⟩
    have hend : 32 * i = s.size := by simp at hi; rw [hN, hi]
    unfold readDirEntryLoop
    rw [hend]
    refine Evals.bind (root_readSlot_end s d h hdev) (fun d1 _ => ?_)
    dsimp only
    rw [deser_isEnd, zero_isEnd, if_pos rfl]
    simp only [nextEntry, Option.map, hend]
    exact Evals.pure _ d1
  | cons sl rest ih =>
    intro fuel i bi b d h hdev hi hL hf
    obtain ⟨k, rfl⟩ : ∃ k, fuel = k + 1 := ⟨fuel - 1, by simp at hf; omega⟩
    have hsl : sl = d.img.read (s.beginOff + 32 * i) 32 := by
      have := hL 0 (by simp)
      simpa using this
    have hroom : 32 * i + 32 ≤ s.size := by simp at hi; rw [hN]; omega
    have hlt : sl.getD 11 0 < 256 := by
      rw [hsl, Img.read_getD _ _ _ _ (by omega)]; exact Img.getByte_lt _ _
    have hlen : 11 ≤ sl.length := by rw [hsl, Img.read_length]; omega
    have hoff : 32 * i + 32 = 32 * (i + 1) := by omega
    unfold readDirEntryLoop
    refine Evals.bind (root_readSlot_evals s (32 * i) d h hroom hdev) (fun d1 hs1 => ?_)
    rw [← hsl, hoff]
    dsimp only
    have h1 : d1.failAt = none := by rw [hs1.failAt]; exact h
    have hdev1 : s.beginOff + s.size ≤ d1.img.size := by rw [hs1.img]; exact hdev
    have hrec := fun bi' b' => ih k (i + 1) bi' b' d1 h1 hdev1 (by simp at hi ⊢; omega)
      (fun j hj => by
        have := hL (j + 1) (by simp; omega)
        rw [hs1.img]
        simpa [Nat.add_assoc, Nat.add_comm 1 j] using this)
      (by simp at hf; omega)
    rw [deser_isEnd, deser_isDeleted]
    unfold nextEntry slotClass
    by_cases hE : Lfn.isEnd sl = true
    · simp only [hE, if_true, Option.map]
      exact Evals.pure _ d1
    · simp only [hE, Bool.false_eq_true, if_false]
      by_cases hD : Lfn.isDeleted sl = true
      · simp only [hD, Bool.true_or, if_true]
        exact hrec (i + 1) (b.clear alloc)
      · simp only [hD, Bool.false_or, Bool.false_eq_true, if_false]
        unfold deserialize
        rw [deser_lfn sl hlt]
        by_cases hLf : Lfn.isLfn sl = true
        · simp only [hLf, if_true, Bool.false_eq_true, if_false]
          exact hrec bi (b.process alloc sl)
        · simp only [hLf, Bool.false_eq_true, if_false]
          rw [deser_volume sl hlt]
          by_cases hV : Lfn.isVolume sl = true
          · simp only [hV, Bool.and_true, if_true]
            cases sv with
            | true => simp only [if_true]; exact hrec (i + 1) (b.clear alloc)
            | false =>
              simp only [Bool.false_eq_true, if_false]
              refine Evals.bind (Evals.getFs d1) (fun d2 _ => ?_)
              simp only [DirStream.absPos]
              refine Evals.bind (Evals.pure _ d2) (fun d3 _ => ?_)
              dsimp only
              rw [if_neg (by simp [DiskSlice.absPos]; omega)]
              simp only [Option.map, toDirEntry, DiskSlice.absPos, sliceAt_beginOff, sliceAt_offset, deserializeFile,
                take11_sfnName sl hlen]
              exact Evals.pure _ d3
          · simp only [hV, Bool.and_false, Bool.false_eq_true, if_false]
            refine Evals.bind (Evals.getFs d1) (fun d2 _ => ?_)
            simp only [DirStream.absPos]
            refine Evals.bind (Evals.pure _ d2) (fun d3 _ => ?_)
            dsimp only
            rw [if_neg (by simp [DiskSlice.absPos]; omega)]
            simp only [Option.map, toDirEntry, DiskSlice.absPos, sliceAt_beginOff, sliceAt_offset, deserializeFile,
              take11_sfnName sl hlen]
            exact Evals.pure _ d3

end FatVerif.DirSim
