import FatVerif.Proofs.DirReadSim7
/-! Directory reads, part 8: the `DirSrc` instances — cluster-chain directories (from DirReadSim7) and, for
    uniformity, the fixed root region. -/
namespace FatVerif.DirSim
open FatVerif.FileSim FatVerif.Fat

/-- the stream of a cluster-chain directory positioned at byte `o` -/
def chainS (f0 : FileH) (chain : List Nat) (cs : Nat) (o : Nat) : DirStream := .file (dirFile f0 chain cs o)

theorem run_flush_ok (d : Dev) (h : d.failAt = none) :
    ∃ d', run Prog.flush d = (.ok (), d') ∧ SameVol d d' := by
  refine ⟨{ d.count .f with log := .flush :: (d.count .f).log }, ?_, ?_⟩
  · show stepOp .flush d = _
    simp only [stepOp]
    rw [devCall_nofault _ _ _ h]
  · have hc : (d.count .f).img = d.img ∧ (d.count .f).fs = d.fs ∧ (d.count .f).log = d.log := by
      unfold Dev.count; simp
    exact ⟨hc.1, hc.2.1, (count_frame d .f).1, by
      show List.filter _ (_ :: (d.count .f).log) = List.filter _ d.log
      rw [hc.2.2]; rfl⟩

section chain
variable {d : Dev} {f0 : FileH} {c0 : Nat} {chain : List Nat}

theorem ChainCore.byteSrc (C : ChainCore d f0 c0 chain) {T : Nat} (hT : T = chain.length * d.fs.clusterSize) :
    ByteSrc d (chainS f0 chain d.fs.clusterSize) T (chainSrc d.fs chain) (chainRoom d.fs chain) := by
  have hcs := C.geo.cs_pos
  subst hT
  refine ⟨?_, ?_, ?_, ?_, ?_, ?_⟩
  · intro d1 hv o n ho
    have C1 := C.of_sameVol hv
    have := (C1.file_read o n (by rw [hv.fs]; exact ho)).reads
    rw [hv.fs, hv.img] at this
    simp only [chainS, DirStream.read]
    exact Reads.bind this (fun d2 _ => Reads.pure _ d2)
  · simp [chainRoom]
  · intro o j hj
    unfold chainRoom at hj
    split at hj
    · have := div_mod_add (o := o) (j := j) hcs (by omega)
      simp only [chainSrc, this.1, this.2]; omega
    · omega
  · intro o j hj
    unfold chainRoom at hj ⊢
    split at hj
    · rename_i hlt
      have := div_mod_add (o := o) (j := j) hcs (by omega)
      have hlt' : o + j < chain.length * d.fs.clusterSize := by
        apply lt_mul_of_div_lt hcs
        rw [this.1]; exact div_lt_of_lt_mul hcs hlt
      rw [if_pos hlt', if_pos hlt, this.2]; omega
    · omega
  · intro o ho
    unfold chainRoom
    split
    · rename_i hlt
      obtain ⟨h1, h2⟩ := decomp o d.fs.clusterSize hcs
      have hq := div_lt_of_lt_mul hcs hlt
      have : (o / d.fs.clusterSize + 1) * d.fs.clusterSize ≤ chain.length * d.fs.clusterSize :=
        Nat.mul_le_mul_right _ hq
      rw [Nat.add_mul, Nat.one_mul] at this
      omega
    · omega
  · intro o ho32 hroom
    unfold chainRoom
    rw [if_pos (by omega)]
    have hr32 : o % d.fs.clusterSize % 32 = 0 := by
      rw [Nat.mod_mod_of_dvd o (Nat.dvd_of_mod_eq_zero C.cs32)]; exact ho32
    have := Nat.mod_lt o hcs
    have := C.cs32
    omega

theorem ChainDir.byteSrc (C : ChainDir d f0 c0 chain) {T : Nat} (hT : T = chain.length * d.fs.clusterSize) :
    ByteSrc d (chainS f0 chain d.fs.clusterSize) T (chainSrc d.fs chain) (chainRoom d.fs chain) := C.core.byteSrc hT

theorem dirFile_seekCur0 (C : ChainCore d f0 c0 chain) (o : Nat) (ho : o ≤ chain.length * d.fs.clusterSize) (d1 : Dev) :
    Reads ((dirFile f0 chain d.fs.clusterSize o).seek (.cur 0)) d1 (o, dirFile f0 chain d.fs.clusterSize o) := by
  have hu := C.u32
  have hoff : (dirFile f0 chain d.fs.clusterSize o).offset = o := rfl
  have hsz : (dirFile f0 chain d.fs.clusterSize o).size? = none := C.nosize
  unfold FileH.seek
  refine Reads.bind (Reads.getFs d1) (fun d2 _ => ?_)
  have h1 : (-9223372036854775808 : Int) ≤ (o : Int) ∧ (o : Int) ≤ 9223372036854775807 := by omega
  have h2 : (0 : Int) ≤ (o : Int) ∧ (o : Int) < 4294967296 := by omega
  simp only [hoff, hsz, Int.add_zero, Option.bind, h1, h2, and_self, if_true, Int.toNat_natCast]
  exact Reads.pure _ d2

theorem ChainDir.dirSrc (C : ChainDir d f0 c0 chain) :
    DirSrc d (chainS f0 chain d.fs.clusterSize) (chain.length * (d.fs.clusterSize / 32)) (chainSrc d.fs chain)
      (chainRoom d.fs chain) := by
  have hcs := C.geo.cs_pos
  have hT : 32 * (chain.length * (d.fs.clusterSize / 32)) = chain.length * d.fs.clusterSize := by
    have := Nat.div_add_mod d.fs.clusterSize 32
    rw [C.cs32, Nat.add_zero] at this
    rw [Nat.mul_left_comm, this]
  refine { toByteSrc := C.core.byteSrc hT, seekCur := ?_, absPos := ?_, drop := ?_ }
  · intro d1 hv o ho
    rw [hT] at ho
    simp only [chainS, DirStream.seek]
    exact Reads.bind (dirFile_seekCur0 C.core o ho d1) (fun d2 _ => Reads.pure _ d2)
  · intro d1 hv o ho32 hpos ho
    rw [hT] at ho
    have hle : o / d.fs.clusterSize ≤ chain.length := Nat.div_le_of_le_mul (by rw [Nat.mul_comm]; exact ho)
    obtain ⟨hs1, hs2⟩ := slot_pred hcs C.cs32 ho32 hpos
    have hlt : (o - 1) / d.fs.clusterSize < chain.length := by
      rw [pred_div hcs hpos]
      split
      · rename_i h0; have := pred_div_pos hcs hpos h0; omega
      · rename_i h0
        apply div_lt_of_lt_mul hcs
        rcases Nat.lt_or_ge o (chain.length * d.fs.clusterSize) with h | h
        · exact h
        · have : o = chain.length * d.fs.clusterSize := by omega
          rw [this, Nat.mul_mod_left] at h0; exact absurd rfl h0
    have hget : chain[(o - 1) / d.fs.clusterSize]? = some chain[(o - 1) / d.fs.clusterSize] :=
      List.getElem?_eq_getElem hlt
    obtain ⟨hc2, hct⟩ := C.inTab _ (List.getElem_mem hlt)
    have hne : o ≠ 0 := by omega
    simp only [chainS, DirStream.absPos, FileH.absPos, dirFile, if_neg hne, hget]
    have hrun : ∀ dd : Dev, run (offsetFromClusterP d.fs chain[(o - 1) / d.fs.clusterSize]) dd =
        (.ok (clusterOff d.fs chain[(o - 1) / d.fs.clusterSize]), dd) :=
      fun dd => run_offsetFromClusterP C.geo _ hc2 hct dd
    refine Reads.bind ⟨d1, hrun d1, SameVol.refl d1⟩ (fun d2 _ => ?_)
    have hval : chainSrc d.fs chain (o - 32) + 32 =
        clusterOff d.fs chain[(o - 1) / d.fs.clusterSize] +
          (if o % d.fs.clusterSize = 0 then d.fs.clusterSize else o % d.fs.clusterSize) := by
      unfold chainSrc
      rw [hs1, ← hs2, List.getD_eq_getElem?_getD, hget]
      simp only [Option.getD]; omega
    rw [hval]
    exact Reads.pure _ d2
  · intro d1 hv o ho
    simp only [chainS, DirStream.dropBody, FileH.flush]
    have hfd : FileH.flushDirEntry (dirFile f0 chain d.fs.clusterSize o) =
        Prog.pure (dirFile f0 chain d.fs.clusterSize o) := by
      unfold FileH.flushDirEntry
      have hent : (dirFile f0 chain d.fs.clusterSize o).entry = f0.entry := rfl
      rw [hent]
      cases he : f0.entry with
      | none => rfl
      | some e => simp only [C.clean e he, Bool.false_eq_true, if_false]; rfl
    rw [hfd]
    refine Reads.bind (b := dirFile f0 chain d.fs.clusterSize o) (Reads.bind (Reads.pure _ d1) (fun d2 hs2 => ?_))
      (fun d3 _ => Reads.pure _ d3)
    obtain ⟨d3, hr3, hs3⟩ := run_flush_ok d2 (by rw [hs2.failAt, hv.failAt]; exact C.failAt)
    exact Reads.bind ⟨d3, hr3, hs3⟩ (fun d4 _ => Reads.pure _ d4)

end chain


/-! ### the fixed root region as a `DirSrc` -/

theorem root_dirSrc (s : DiskSlice) (N : Nat) (hN : s.size = 32 * N) (d : Dev) (h : d.failAt = none)
    (hdev : s.beginOff + s.size ≤ d.img.size) :
    DirSrc d (fun o => .root (sliceAt s o)) N (fun o => s.beginOff + o) (fun o => s.size - o) := by
  refine { read := ?_, room_end := ?_, src_step := ?_, room_step := ?_, room_le := ?_, room_slot := ?_,
           seekCur := ?_, absPos := ?_, drop := ?_ }
  · intro d1 hv o n ho
    have := (root_read_evals s o n d1 (by rw [hv.failAt]; exact h) (by omega) (by rw [hv.img]; exact hdev)).reads
    rw [hv.img] at this
    exact this
  · omega
  · intro o j _; omega
  · intro o j _; omega
  · intro o ho; omega
  · intro o _ hr; omega
  · intro d1 _ o ho
    exact (root_seekCur0_evals s o (by omega) d1).reads
  · intro d1 _ o _ hpos _
    simp only [DirStream.absPos, DiskSlice.absPos, sliceAt_beginOff, sliceAt_offset]
    have : s.beginOff + (o - 32) + 32 = s.beginOff + o := by omega
    rw [this]
    exact Reads.pure _ d1
  · intro d1 _ o _
    exact Reads.pure _ d1

end FatVerif.DirSim
