import FatVerif.Proofs.FileSimFatArr
/-!
# FileSim, part 9: writes through the mirrored FAT slice of a volume that is already marked dirty

Forward evaluation of `FsIoAdapter::write` (the dirty flag is set: nothing to do before the write), `write_all`,
`DiskSlice::write` with its mirrors, `write_u16/u32_le` on the FAT slice: the bytes land in every FAT copy; the first copy
gets exactly the bytes written; nothing outside the FAT copies changes.
-/
namespace FatVerif.FileSim
open FatVerif FatVerif.Fat

theorem run_markDirty_noop (d : Dev) (hcd : d.fs.curDirty = true) : run markDirtyBeforeWrite d = (.ok (), d) := by
  unfold markDirtyBeforeWrite
  rw [run_bind_ok (run_getFs d)]
  simp only [hcd, if_true]
  rfl

theorem run_inner_write (s : DiskSlice) (bs : List Nat) (d : Dev) (hfa : d.failAt = none)
    (hcd : d.fs.curDirty = true) :
    run (s.inner.write () bs) d = (.ok (min bs.length (d.img.size - d.pos), ()), didWrite d bs) := by
  unfold DiskSlice.inner
  split
  · unfold adapterStrm
    dsimp only
    split
    · rw [run_bind_ok (run_markDirty_noop d hcd), run_bind_ok (run_write bs d hfa)]
      rfl
    · rw [run_bind_ok (run_write bs d hfa)]
      rfl
  · show run (Prog.write bs >>= fun n => (pure (n, ()) : Prog (Nat × Unit))) d = _
    rw [run_bind_ok (run_write bs d hfa)]
    rfl

/-- `write_all` of a non-empty buffer that fits: ONE write -/
theorem run_writeAll_inner (s : DiskSlice) (bs : List Nat) (d : Dev) (hfa : d.failAt = none)
    (hcd : d.fs.curDirty = true) (hne : 0 < bs.length) (hfit : d.pos + bs.length ≤ d.img.size) :
    run (writeAll s.inner () bs) d = (.ok (), didWrite d bs) := by
  have hmin : min bs.length (d.img.size - d.pos) = bs.length := by omega
  obtain ⟨k, hk⟩ : ∃ k, bs.length = k + 1 := ⟨bs.length - 1, by omega⟩
  unfold writeAll
  rw [hk]
  unfold writeAllLoop
  have hemp : bs.isEmpty = false := by
    cases bs with
    | nil => simp at hne
    | cons _ _ => rfl
  simp only [hemp, Bool.false_eq_true, if_false]
  rw [run_bind_ok (run_inner_write s bs d hfa hcd), hmin]
  simp only
  rw [if_neg (by omega)]
  have hdrop : bs.drop bs.length = [] := List.drop_length
  rw [hdrop]
  unfold writeAllLoop
  simp

/-- the records of the mirror loop: the same bytes at `off + i * size` for `k` copies from copy `i` on -/
def mirrorRecs (off size : Nat) (bs : List Nat) : Nat → Nat → List Rec
  | 0, _ => []
  | k + 1, i => (off + i * size, bs) :: mirrorRecs off size bs k (i + 1)

theorem recItems_cons (r : Rec) (rs : List Rec) : recItems (r :: rs) = recItems rs ++ [LogItem.write r.1 r.2] := by
  simp [recItems]

/-- the mirror loop of `DiskSlice::write` -/
theorem run_writeMirrors (s : DiskSlice) (off : Nat) (bs : List Nat) (hne : 0 < bs.length)
    (hle : bs.length ≤ s.size) :
    ∀ (k i : Nat) (d : Dev), d.failAt = none → d.fs.curDirty = true → d.img.WF →
      (∀ i', i ≤ i' → i' < i + k → off + i' * s.size + bs.length ≤ d.img.size) →
      ∃ d', run (s.writeMirrors off bs k i) d = (.ok (), d') ∧ DevStep d d' ∧ d'.fs = d.fs ∧
        (∀ q, (∀ i', i ≤ i' → i' < i + k → ¬ (off + i' * s.size ≤ q ∧ q < off + i' * s.size + bs.length)) →
          d'.img.getByte q = d.img.getByte q) ∧
        (0 < k → ∀ q, off + i * s.size ≤ q → q < off + i * s.size + bs.length →
          d'.img.getByte q = bs.getD (q - (off + i * s.size)) 0 % 256) ∧
        d'.log = recItems (mirrorRecs off s.size bs k i) ++ d.log ∧
        d'.img = applyRecs d.img (mirrorRecs off s.size bs k i) := by
  intro k
  induction k with
  | zero =>
    intro i d _ _ _ _
    exact ⟨d, rfl, DevStep.refl d, rfl, fun _ _ => rfl, fun h => absurd h (by omega), rfl, rfl⟩
  | succ k ih =>
    intro i d hfa hcd hwf hroom
    unfold DiskSlice.writeMirrors
    rw [run_bind_ok (run_inner_seek s _ d hfa)]
    have hfit : (d.didSeek (off + i * s.size)).pos + bs.length ≤ (d.didSeek (off + i * s.size)).img.size := by
      simp only [didSeek_pos, didSeek_img]; exact hroom i (Nat.le_refl _) (by omega)
    rw [run_bind_ok (run_writeAll_inner s bs (d.didSeek (off + i * s.size)) (by simpa using hfa) hcd hne hfit)]
    generalize hd1 : didWrite (d.didSeek (off + i * s.size)) bs = d1
    have himg1 : d1.img = d.img.write (off + i * s.size) bs := by
      rw [← hd1, didWrite_img _ _ hfit]; rfl
    have hstep1 : DevStep d d1 := by
      refine ⟨by rw [← hd1]; rfl, by rw [himg1, Img.write_size], fun _ => by rw [himg1]; exact Img.wf_write _ hwf _ _,
        by rw [← hd1]; exact FsGeomEq.refl _, by rw [← hd1]; rfl⟩
    have hfs1 : d1.fs = d.fs := by rw [← hd1]; rfl
    obtain ⟨d2, h2, hs2, hfs2, hfr2, _, hlog2, himg2⟩ := ih (i + 1) d1 (by rw [hstep1.failAt]; exact hfa)
      (by rw [hfs1]; exact hcd)
      (hstep1.wf hwf) (by
        intro i' h1 h2
        rw [hstep1.size]; exact hroom i' (by omega) (by omega))
    have hlog1 : d1.log = .write (off + i * s.size) bs :: d.log := by
      rw [← hd1, didWrite_log _ _ hfit]; rfl
    refine ⟨d2, h2, hstep1.trans hs2, hfs2.trans hfs1, ?_, ?_, ?_, ?_⟩
    rotate_left 2
    · rw [hlog2, hlog1]
      show _ = recItems ((off + i * s.size, bs) :: mirrorRecs off s.size bs k (i + 1)) ++ d.log
      rw [recItems_cons]
      simp
    · rw [himg2, himg1]
      rfl
    · intro q hq
      rw [hfr2 q (fun i' h1 h2 => hq i' (by omega) (by omega)), himg1,
        Img.getByte_write_of_not_mem _ hwf _ _ _ (hq i (Nat.le_refl _) (by omega))]
    · intro _ q h1 h2
      have hnot : ∀ i', i + 1 ≤ i' → i' < i + 1 + k → ¬ (off + i' * s.size ≤ q ∧ q < off + i' * s.size + bs.length) := by
        intro i' hi _ ⟨h3, _⟩
        have : (i + 1) * s.size ≤ i' * s.size := Nat.mul_le_mul_right _ hi
        rw [Nat.succ_mul] at this
        omega
      rw [hfr2 q hnot, himg1, Img.getByte_write _ hwf, if_pos ⟨h1, h2⟩]

/-- the effect of a write into the FAT slice on the image: the first FAT copy gets the bytes at slice offset `o`,
    bytes outside the FAT copies are untouched -/
structure FatWrote (fs : FsState) (d d' : Dev) (o : Nat) (bs : List Nat) : Prop where
  step : DevStep d d'
  fs_eq : d'.fs = d.fs
  first : ∀ i, i < (fatSliceOf fs).size → d'.img.getByte ((fatSliceOf fs).beginOff + i) =
    if o ≤ i ∧ i < o + bs.length then bs.getD (i - o) 0 % 256 else d.img.getByte ((fatSliceOf fs).beginOff + i)
  frame : ∀ q, (q < (fatSliceOf fs).beginOff ∨
      (fatSliceOf fs).beginOff + (fatSliceOf fs).mirrors * (fatSliceOf fs).size ≤ q) →
    d'.img.getByte q = d.img.getByte q
  /-- … and inside the FAT copies only the windows `[o, o + |bs|)` of the copies change -/
  fine : ∀ q, (∀ i, i < (fatSliceOf fs).mirrors →
      ¬ ((fatSliceOf fs).beginOff + o + i * (fatSliceOf fs).size ≤ q ∧
         q < (fatSliceOf fs).beginOff + o + i * (fatSliceOf fs).size + bs.length)) →
    d'.img.getByte q = d.img.getByte q
  /-- the device write records: the bytes, once per FAT copy, first copy first -/
  log : d'.log = recItems (mirrorRecs ((fatSliceOf fs).beginOff + o) (fatSliceOf fs).size bs (fatSliceOf fs).mirrors 0) ++
    d.log
  img : d'.img = applyRecs d.img
    (mirrorRecs ((fatSliceOf fs).beginOff + o) (fatSliceOf fs).size bs (fatSliceOf fs).mirrors 0)

/-- `q` lies in the byte window of the FAT entry of cluster `c` in one of the FAT copies -/
def FatEntryPos (fs : FsState) (c q : Nat) : Prop :=
  ∃ i, i < (fatSliceOf fs).mirrors ∧
    (fatSliceOf fs).beginOff + entOff fs.fatType c + i * (fatSliceOf fs).size ≤ q ∧
    q < (fatSliceOf fs).beginOff + entOff fs.fatType c + i * (fatSliceOf fs).size + entWidth fs.fatType

/-- `write_all` on the FAT slice of a non-empty buffer that fits the slice -/
theorem run_fat_writeAll (fs : FsState) (s : DiskSlice) (hs : IsFatSlice fs s) (bs : List Nat) (hne : 0 < bs.length)
    (hfit : s.offset + bs.length ≤ s.size) (d : Dev) (hfa : d.failAt = none) (hcd : d.fs.curDirty = true)
    (hwf : d.img.WF) (hg : Geo fs d.img.size) :
    ∃ d', run (writeAll DiskSlice.strm s bs) d = (.ok { s with offset := s.offset + bs.length }, d') ∧
      FatWrote fs d d' s.offset bs := by
  obtain ⟨hb, hsz, hm, _⟩ := hs
  have hdev : (fatSliceOf fs).beginOff + (fatSliceOf fs).mirrors * (fatSliceOf fs).size ≤ d.img.size := by
    have h1 := hg.fat_data; have h2 := hg.data_dev
    have h3 : fs.firstDataSector * fs.bps ≤ clusterOff fs (fs.totalClusters + 2) := by
      unfold clusterOff; exact Nat.mul_le_mul_right _ (Nat.le_add_right _ _)
    omega
  have hroom : ∀ i', 0 ≤ i' → i' < 0 + s.mirrors →
      s.beginOff + s.offset + i' * s.size + bs.length ≤ d.img.size := by
    intro i' _ h2
    rw [hm] at h2
    have : (i' + 1) * s.size ≤ (fatSliceOf fs).mirrors * s.size := Nat.mul_le_mul_right _ (by omega)
    rw [Nat.succ_mul] at this
    rw [hb]; rw [hsz] at this ⊢ hfit
    omega
  obtain ⟨d1, h1, hs1, hfs1, hfr1, hv1, hlog1, himg1⟩ := run_writeMirrors s (s.beginOff + s.offset) bs hne (by omega)
    s.mirrors 0 d hfa hcd hwf hroom
  have hmin : min bs.length (s.size - s.offset) = bs.length := by omega
  obtain ⟨k, hk⟩ : ∃ k, bs.length = k + 1 := ⟨bs.length - 1, by omega⟩
  have hemp : bs.isEmpty = false := by
    cases bs with
    | nil => simp at hne
    | cons _ _ => rfl
  have hwrite : run (DiskSlice.strm.write s bs) d = (.ok (bs.length, { s with offset := s.offset + bs.length }), d1) := by
    show run (s.write bs) d = _
    unfold DiskSlice.write
    simp only [hmin]
    rw [if_neg (by omega), List.take_length, run_bind_ok h1]
    rfl
  refine ⟨d1, ?_, hs1, hfs1, ?_, ?_, ?_, by rw [hlog1, hb, hsz, hm], by rw [himg1, hb, hsz, hm]⟩
  · unfold writeAll
    rw [hk]
    unfold writeAllLoop
    simp only [hemp, Bool.false_eq_true, if_false]
    rw [run_bind_ok hwrite]
    simp only
    rw [if_neg (by omega), List.drop_length]
    unfold writeAllLoop
    simp
    exact hk
  · intro i hi
    have hmpos := hg.mirrors_pos
    by_cases hin : s.offset ≤ i ∧ i < s.offset + bs.length
    · rw [if_pos hin]
      have := hv1 (by rw [hm]; omega) ((fatSliceOf fs).beginOff + i) (by rw [hb]; omega) (by rw [hb]; omega)
      rw [this]
      congr 2
      rw [hb]; omega
    · rw [if_neg hin]
      apply hfr1
      intro i' _ _ ⟨h3, h4⟩
      rcases Nat.eq_zero_or_pos i' with h0 | h0
      · subst h0; rw [hb] at h3 h4; omega
      · have : 1 * s.size ≤ i' * s.size := Nat.mul_le_mul_right _ h0
        rw [hb] at h3
        omega
  · intro q hq
    apply hfr1
    intro i' _ h2 ⟨h3, h4⟩
    rw [hm] at h2
    have : (i' + 1) * s.size ≤ (fatSliceOf fs).mirrors * s.size := Nat.mul_le_mul_right _ (by omega)
    rw [Nat.succ_mul] at this
    rw [hb] at h3 h4
    rw [hsz] at this h3 h4 hfit
    omega

  · intro q hq
    apply hfr1
    intro i' _ h2 h34
    rw [hm] at h2
    rw [hb, hsz] at h34
    exact hq i' (by omega) h34

/-- the records of one FAT update are entry-window records of `c`: the first-copy record changes the decoded value of
    `c` only (hypothesis `hkeep`, the read-modify-write), the others do not touch the first copy -/
theorem classified_mirrors (fs : FsState) (sz : Nat) (hg : Geo fs sz) (c : Nat) (hc : c < fs.totalClusters + 2)
    (bs : List Nat) (hlen : bs.length = entWidth fs.fatType) (E D : Nat → Prop) (hE : E c) :
    ∀ (k i : Nat) (img : Img), img.WF → img.size = sz → i + k ≤ (fatSliceOf fs).mirrors →
      (i = 0 → ∀ x, x ≠ c →
        tabView fs (img.write ((fatSliceOf fs).beginOff + entOff fs.fatType c) bs) x = tabView fs img x) →
      Classified fs E D img
        (mirrorRecs ((fatSliceOf fs).beginOff + entOff fs.fatType c) (fatSliceOf fs).size bs k i) := by
  intro k
  induction k with
  | zero => intro i img _ _ _ _; exact trivial
  | succ k ih =>
    intro i img hwf hsz hik hkeep
    refine ⟨Or.inr (Or.inr ⟨c, i, hE, hc, by omega, by simp only [Nat.add_assoc], hlen, ?_⟩), ?_⟩
    · intro x hx
      by_cases hi : i = 0
      · subst hi
        simp only [Nat.zero_mul, Nat.add_zero]
        exact hkeep rfl x hx
      · have hfat : FatAgree fs img (img.write ((fatSliceOf fs).beginOff + entOff fs.fatType c + i * (fatSliceOf fs).size) bs) := by
          intro q h1 h2
          apply Img.getByte_write_of_not_mem _ hwf
          rintro ⟨h3, _⟩
          have : 1 * (fatSliceOf fs).size ≤ i * (fatSliceOf fs).size := Nat.mul_le_mul_right _ (by omega)
          omega
        have hg' : Geo fs img.size := by rw [hsz]; exact hg
        rw [tabView_congr hg' hfat]
    · exact ih (i + 1) _ (Img.wf_write _ hwf _ _) (by rw [Img.write_size]; exact hsz) (by omega)
        (fun h => absurd h (by omega))

end FatVerif.FileSim
