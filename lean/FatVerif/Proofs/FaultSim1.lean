import FatVerif.Proofs.DirWriteSim45
import FatVerif.Proofs.GeoModel
import FatVerif.Proofs.IoSafeModel5
/-! Faults and forward evaluation, part 1: a run during which the scheduled fault does NOT fire is the run on the
    disarmed device; every run keeps the well-formedness of the image; the device-indexed sequencing rule for
    `FaultOutcome`. -/
namespace FatVerif

/-- the device without its fault schedule -/
def Dev.disarm (d : Dev) : Dev := { d with failAt := none }

theorem Dev.disarm_count (d : Dev) (k : CallKind) : (d.count k).disarm = d.disarm.count k := by
  unfold Dev.count Dev.disarm; cases k <;> rfl

theorem Dev.disarm_of_none {d : Dev} (h : d.failAt = none) : d.disarm = d := by
  unfold Dev.disarm; cases d; simp_all

theorem Dev.disarm_depth (d : Dev) (n : Nat) : ({ d with dropDepth := n } : Dev).disarm = { d.disarm with dropDepth := n } := rfl

@[simp] theorem Dev.disarm_img (d : Dev) : d.disarm.img = d.img := rfl
@[simp] theorem Dev.disarm_fs (d : Dev) : d.disarm.fs = d.fs := rfl
@[simp] theorem Dev.disarm_clock (d : Dev) : d.disarm.clock = d.clock := rfl
@[simp] theorem Dev.disarm_fault (d : Dev) : d.disarm.fault = d.fault := rfl
@[simp] theorem Dev.disarm_failAt (d : Dev) : d.disarm.failAt = none := rfl
@[simp] theorem Dev.disarm_dropDepth (d : Dev) : d.disarm.dropDepth = d.dropDepth := rfl

/-- a device call that does not fire the fault is the call on the disarmed device -/
theorem devCall_disarm {α} (k : CallKind) (d : Dev) (act : Dev → Except Err α × Dev)
    (hact : ∀ d0 r d1, act d0 = (r, d1) → act d0.disarm = (r, d1.disarm) ∧ d1.fault = d0.fault)
    {r d'} (h : devCall k d act = (r, d')) (hf : d.fault = none) (hf' : d'.fault = none) :
    devCall k d.disarm act = (r, d'.disarm) := by
  unfold devCall devCallCore at h ⊢
  rw [← Dev.disarm_count]
  split at h
  · cases h; cases hf'
  · rw [if_neg (by simp)]
    exact (hact _ _ _ h).1

theorem stepOp_disarm (o : Op) (d : Dev) {r d'} (h : stepOp o d = (r, d')) (hf : d.fault = none)
    (hf' : d'.fault = none) : stepOp o d.disarm = (r, d'.disarm) := by
  cases o with
  | read n =>
    simp only [stepOp] at h ⊢
    exact devCall_disarm _ _ _ (fun d0 r d1 h0 => by cases h0; exact ⟨rfl, rfl⟩) h hf hf'
  | write bs =>
    simp only [stepOp] at h ⊢
    exact devCall_disarm _ _ _ (fun d0 r d1 h0 => by cases h0; exact ⟨rfl, rfl⟩) h hf hf'
  | seek p =>
    simp only [stepOp] at h ⊢
    refine devCall_disarm _ _ _ (fun d0 r d1 h0 => ?_) h hf hf'
    cases p with
    | start n => cases h0; exact ⟨rfl, rfl⟩
    | cur x =>
      simp only at h0
      by_cases hc : (d0.pos : Int) + x < 0
      · rw [if_pos hc] at h0; cases h0
        exact ⟨by show (if (d0.disarm.pos : Int) + x < 0 then _ else _) = _; rw [if_pos (by exact hc)], rfl⟩
      · rw [if_neg hc] at h0; cases h0
        exact ⟨by show (if (d0.disarm.pos : Int) + x < 0 then _ else _) = _; rw [if_neg (by exact hc)]; rfl, rfl⟩
    | fromEnd x =>
      simp only at h0
      by_cases hc : (d0.img.size : Int) + x < 0
      · rw [if_pos hc] at h0; cases h0
        exact ⟨by show (if (d0.disarm.img.size : Int) + x < 0 then _ else _) = _; rw [if_pos (by exact hc)], rfl⟩
      · rw [if_neg hc] at h0; cases h0
        exact ⟨by show (if (d0.disarm.img.size : Int) + x < 0 then _ else _) = _; rw [if_neg (by exact hc)]; rfl, rfl⟩
  | flush =>
    simp only [stepOp] at h ⊢
    exact devCall_disarm _ _ _ (fun d0 r d1 h0 => by cases h0; exact ⟨rfl, rfl⟩) h hf hf'
  | now => simp only [stepOp] at h ⊢; cases h; rfl
  | today => simp only [stepOp] at h ⊢; cases h; rfl
  | getFs => simp only [stepOp] at h ⊢; cases h; rfl
  | setFs fs => simp only [stepOp] at h ⊢; cases h; rfl

/-- a fault recorded before a run (started with the schedule spent) is still recorded after it -/
theorem fault_kept {α} (p : Prog α) (d : Dev) {r d'} (h : run p d = (r, d')) (hfa : d.failAt = none) :
    d'.fault = d.fault ∧ d'.failAt = none :=
  let s := (run_facts p d h).spent hfa
  ⟨s.2, s.1⟩

/-- if no fault is recorded after two consecutive runs, none was after the first -/
theorem fault_none_mid {α β} (p : Prog α) (q : Prog β) (d d1 : Dev) {r1 r2 d2} (h1 : run p d = (r1, d1))
    (h2 : run q d1 = (r2, d2)) (hd : d.fault = none) (hf : d2.fault = none) : d1.fault = none := by
  rcases run_any p d hd h1 with h | ⟨hfa, f, hff, _⟩
  · exact h
  · have := (fault_kept q d1 h2 hfa).1
    rw [hff, hf] at this
    cases this

/-- **a run during which the fault does not fire is the run on the disarmed device** -/
theorem run_disarm {α} (p : Prog α) : ∀ (d : Dev) {r d'}, run p d = (r, d') → d.fault = none → d'.fault = none →
    run p d.disarm = (r, d'.disarm) := by
  induction p with
  | pure a => intro d r d' h _ _; simp only [run] at h ⊢; cases h; rfl
  | fail e => intro d r d' h _ _; simp only [run] at h ⊢; cases h; rfl
  | op o => intro d r d' h hf hf'; simp only [run] at h ⊢; exact stepOp_disarm o d h hf hf'
  | bind p k ihp ihk =>
    intro d r d' h hf hf'
    simp only [run] at h ⊢
    rcases hp : run p d with ⟨rp, d1⟩
    rw [hp] at h
    cases rp with
    | error e =>
      simp only at h; cases h
      rw [ihp d hp hf hf']
    | ok b =>
      simp only at h
      have h1 := fault_none_mid p (k b) d d1 hp h hf hf'
      rw [ihp d hp hf h1]
      exact ihk b d1 h h1 hf'
  | tryCatch p hnd ihp ihh =>
    intro d r d' h hf hf'
    simp only [run] at h ⊢
    rcases hp : run p d with ⟨rp, d1⟩
    rw [hp] at h
    cases rp with
    | ok a => simp only at h; cases h; rw [ihp d hp hf hf']
    | error e =>
      simp only at h
      by_cases hfat : e.isFatal = true
      · rw [if_pos hfat] at h; cases h
        rw [ihp d hp hf hf']; simp only [hfat, if_true]
      · rw [if_neg hfat] at h
        have h1 := fault_none_mid p (hnd e) d d1 hp h hf hf'
        rw [ihp d hp hf h1]
        simp only [hfat, if_false]
        exact ihh e d1 h h1 hf'
  | finallyDrop p c ihp ihc =>
    intro d r d' h hf hf'
    simp only [run] at h ⊢
    rcases hp : run p d with ⟨rp, d1⟩
    rw [hp] at h
    have key : ∀ {o rc d2}, run (c o) { d1 with dropDepth := d1.dropDepth + 1 } = (rc, d2) →
        ({ d2 with dropDepth := d2.dropDepth - 1 } : Dev).fault = none →
        d1.fault = none ∧ run (c o) { d1.disarm with dropDepth := d1.disarm.dropDepth + 1 } = (rc, d2.disarm) := by
      intro o rc d2 hc hf2
      have hf2' : d2.fault = none := hf2
      have hd1 : d1.fault = none := by
        rcases run_any p d hf hp with h0 | ⟨hfa, f, hff, _⟩
        · exact h0
        · have := (fault_kept (c o) _ hc (by exact hfa)).1
          rw [hf2'] at this
          rw [hff] at this
          cases this
      refine ⟨hd1, ?_⟩
      have := ihc o { d1 with dropDepth := d1.dropDepth + 1 } hc hd1 hf2'
      exact this
    cases rp with
    | ok a =>
      simp only at h
      rcases hc : run (c (some a)) { d1 with dropDepth := d1.dropDepth + 1 } with ⟨rc, d2⟩
      rw [hc] at h
      cases rc with
      | ok u =>
        simp only at h; cases h
        obtain ⟨hd1, hc'⟩ := key hc hf'
        rw [ihp d hp hf hd1]
        simp only [hc']
        rfl
      | error e' =>
        simp only at h
        split at h <;> cases h
        · obtain ⟨hd1, hc'⟩ := key hc hf'
          rw [ihp d hp hf hd1]
          simp only [hc']
          rename_i hfat
          simp only [hfat, if_true]
          rfl
        · obtain ⟨hd1, hc'⟩ := key hc hf'
          rw [ihp d hp hf hd1]
          simp only [hc']
          rename_i hfat
          simp only [hfat]
          rfl
    | error e =>
      simp only at h
      by_cases hh : e = .hang
      · rw [if_pos hh] at h; cases h
        rw [ihp d hp hf hf']; simp only [hh, if_true]
      · rw [if_neg hh] at h
        rcases hc : run (c none) { d1 with dropDepth := d1.dropDepth + 1 } with ⟨rc, d2⟩
        rw [hc] at h
        cases rc with
        | ok u =>
          simp only at h; cases h
          obtain ⟨hd1, hc'⟩ := key hc hf'
          rw [ihp d hp hf hd1]
          simp only [hh, if_false, hc']
          rfl
        | error e' =>
          simp only at h
          split at h <;> cases h
          · obtain ⟨hd1, hc'⟩ := key hc hf'
            rw [ihp d hp hf hd1]
            rename_i hfat
            simp only [hh, if_false, hc', hfat, if_true]
            rfl
          · obtain ⟨hd1, hc'⟩ := key hc hf'
            rw [ihp d hp hf hd1]
            rename_i hfat
            simp only [hh, if_false, hc', hfat]
            rfl

/-! ### every run keeps the image well formed -/

def WfRel (d d' : Dev) : Prop := d.img.WF → d'.img.WF

theorem wfRel_ok : RelOK WfRel where
  refl := fun _ h => h
  trans := fun _ _ _ h1 h2 h => h2 (h1 h)
  depth := fun _ _ h => h

theorem stepOp_wfRel (o : Op) (d : Dev) (r : Except Err (Resp o)) (d' : Dev) (hr : stepOp o d = (r, d')) : WfRel d d' := by
  have hcnt : ∀ k, (d.count k).img = d.img := by
    intro k; unfold Dev.count; cases k <;> rfl
  have dc : ∀ {β} (k : CallKind) (act : Dev → Except Err β × Dev),
      (∀ d0 r d1, act d0 = (r, d1) → d0.img.WF → d1.img.WF) →
      ∀ {r d'}, devCall k d act = (r, d') → WfRel d d' := by
    intro β k act hact r d' h
    unfold devCall devCallCore at h
    split at h
    · cases h; intro hw; show (d.count k).img.WF; rw [hcnt k]; exact hw
    · intro hw; exact hact _ _ _ h (by rw [hcnt k]; exact hw)
  cases o with
  | write bs =>
    simp only [stepOp] at hr
    exact dc _ _ (by intro d0 r d1 h hw; cases h; exact Img.wf_write _ hw _ _) hr
  | read n => simp only [stepOp] at hr; exact dc _ _ (by intro d0 r d1 h hw; cases h; exact hw) hr
  | seek p =>
    simp only [stepOp] at hr
    refine dc _ _ ?_ hr
    intro d0 r d1 h hw
    cases p with
    | start n => cases h; exact hw
    | cur x => simp only at h; split at h <;> cases h <;> exact hw
    | fromEnd x => simp only at h; split at h <;> cases h <;> exact hw
  | flush => simp only [stepOp] at hr; exact dc _ _ (by intro d0 r d1 h hw; cases h; exact hw) hr
  | now => simp only [stepOp] at hr; cases hr; exact fun h => h
  | today => simp only [stepOp] at hr; cases hr; exact fun h => h
  | getFs => simp only [stepOp] at hr; cases hr; exact fun h => h
  | setFs fs => simp only [stepOp] at hr; cases hr; exact fun h => h

theorem run_wf {α} (p : Prog α) (d : Dev) (r : Except Err α) (d' : Dev) (hr : run p d = (r, d')) (hw : d.img.WF) :
    d'.img.WF :=
  (steps_of_ops wfRel_ok stepOp_wfRel p).out d r d' hr hw

/-! ### geometry -/

theorem fsGeomEq_of_sameGeom {a b : FsState} (h : SameGeom a b) : FileSim.FsGeomEq a b := by
  unfold SameGeom FsState.geom at h
  unfold FileSim.FsGeomEq
  cases a; cases b
  simp only [FsState.mk.injEq] at h ⊢
  simp_all

/-- every run of a geometry-keeping program keeps the geometry in the sense of the simulation layer -/
theorem Geo.fsGeomEq {α} {p : Prog α} (hp : Geo p) {d : Dev} {r d'} (h : run p d = (r, d')) :
    FileSim.FsGeomEq d.fs d'.fs := fsGeomEq_of_sameGeom (hp.out d r d' h)

/-! ### sequencing `FaultOutcome` at a device -/

/-- after a propagating prefix: either it failed (its outcome is the outcome), or the fault fired inside one of its
    destructors (nothing is required any more), or no fault fired yet and the continuation decides -/
theorem faultOutcome_bind {α β} {p : Prog β} {k : β → Prog α} (hp : Propagates p) {d : Dev} (hd : d.fault = none)
    {r d'} (hr : run (Prog.bind p k) d = (r, d'))
    (hk : ∀ b d1, run p d = (.ok b, d1) → d1.fault = none → ∀ r d', run (k b) d1 = (r, d') → FaultOutcome (resErr r) d') :
    FaultOutcome (resErr r) d' := by
  simp only [run] at hr
  rcases hq : run p d with ⟨rp, d1⟩
  rw [hq] at hr
  cases rp with
  | error e => simp only at hr; cases hr; exact hp d hd _ _ hq
  | ok b =>
    simp only at hr
    rcases hp d hd _ _ hq with h1 | ⟨h1, f0, h2, h3⟩
    · exact hk b d1 hq h1 _ _ hr
    · have hs := (run_facts (k b) d1 hr).spent h1
      right
      refine ⟨hs.1, f0, by rw [hs.2, h2], fun hf => ?_⟩
      have := h3 hf
      simp [resErr] at this

/-- the same for the `>>=` spelling -/
theorem faultOutcome_bind' {α β} {p : Prog β} {k : β → Prog α} (hp : Propagates p) {d : Dev} (hd : d.fault = none)
    {r d'} (hr : run (p >>= k) d = (r, d'))
    (hk : ∀ b d1, run p d = (.ok b, d1) → d1.fault = none → ∀ r d', run (k b) d1 = (r, d') → FaultOutcome (resErr r) d') :
    FaultOutcome (resErr r) d' := faultOutcome_bind hp hd hr hk

/-- a fault that fired before the program started and was not in a destructor… cannot be: outcomes of a run started
    after the fault fired inside a destructor -/
theorem faultOutcome_spent {α} (p : Prog α) {d : Dev} (hfa : d.failAt = none) {f : Fault} (hf : d.fault = some f)
    (hdrop : f.inDrop = true) {r d'} (hr : run p d = (r, d')) : FaultOutcome (resErr r) d' := by
  have hs := (run_facts p d hr).spent hfa
  right
  exact ⟨hs.1, f, by rw [hs.2, hf], fun h => by rw [hdrop] at h; cases h⟩

end FatVerif
