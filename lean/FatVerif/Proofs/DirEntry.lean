import FatVerif.Model.DirEntry
import FatVerif.Proofs.Time
/-! Lemmas about the 32-byte directory-entry codec: the short-name decoder, codec round trips, the byte frame of the
    time-stamp setters, getters after setters, the editor's dirty latch. -/
namespace FatVerif

/-! ### bit masks as arithmetic -/

theorem land63 (x : Nat) : x &&& 63 = x % 64 := Nat.and_two_pow_sub_one_eq_mod x 6
theorem land15 (x : Nat) : x &&& 15 = x % 16 := Nat.and_two_pow_sub_one_eq_mod x 4

theorem land8 (x : Nat) : x &&& 8 = x / 8 % 2 * 8 := by
  have h1 : x &&& 8 = (x % 16) &&& 8 := by
    rw [← land15, Nat.and_assoc]; rfl
  have h2 : ∀ r, r < 16 → r &&& 8 = r / 8 % 2 * 8 := by decide
  rw [h1, h2 _ (Nat.mod_lt _ (by decide))]; omega

theorem land16 (x : Nat) : x &&& 16 = x / 16 % 2 * 16 := by
  have h1 : x &&& 16 = (x % 32) &&& 16 := by
    rw [← Nat.and_two_pow_sub_one_eq_mod x 5, Nat.and_assoc]; rfl
  have h2 : ∀ r, r < 32 → r &&& 16 = r / 16 % 2 * 16 := by decide
  rw [h1, h2 _ (Nat.mod_lt _ (by decide))]; omega

/-- the case flags, the directory and the volume bit as arithmetic -/
theorem DirFileEntryData.lowercaseBasename_eq (e : DirFileEntryData) :
    e.lowercaseBasename = decide (e.reserved0 / 8 % 2 = 1) := by
  unfold DirFileEntryData.lowercaseBasename
  rw [land8]
  rcases Nat.mod_two_eq_zero_or_one (e.reserved0 / 8) with h | h <;> simp [h]

theorem DirFileEntryData.lowercaseExt_eq (e : DirFileEntryData) :
    e.lowercaseExt = decide (e.reserved0 / 16 % 2 = 1) := by
  unfold DirFileEntryData.lowercaseExt
  rw [land16]
  rcases Nat.mod_two_eq_zero_or_one (e.reserved0 / 16) with h | h <;> simp [h]

theorem DirFileEntryData.isDir_eq (e : DirFileEntryData) : e.isDir = decide (e.attrs / 16 % 2 = 1) := by
  unfold DirFileEntryData.isDir attrContains ATTR_DIRECTORY
  rw [show (0x10 : Nat) = 16 from rfl, land16]
  rcases Nat.mod_two_eq_zero_or_one (e.attrs / 16) with h | h <;> simp [h]

theorem DirFileEntryData.isVolume_eq (e : DirFileEntryData) : e.isVolume = decide (e.attrs / 8 % 2 = 1) := by
  unfold DirFileEntryData.isVolume attrContains ATTR_VOLUME_ID
  rw [show (0x08 : Nat) = 8 from rfl, land8]
  rcases Nat.mod_two_eq_zero_or_one (e.attrs / 8) with h | h <;> simp [h]

theorem attrsTruncate_eq (b : Nat) : attrsTruncate b = b % 64 := land63 b

theorem attrsTruncate_lt (b : Nat) : attrsTruncate b < 64 := by
  rw [attrsTruncate_eq]; omega

theorem attrsTruncate_of_lt {b : Nat} (h : b < 64) : attrsTruncate b = b := by
  rw [attrsTruncate_eq]; omega

theorem attrsIsLfn_eq (a : Nat) : attrsIsLfn a = decide (a % 16 = 15) := by
  unfold attrsIsLfn
  rw [show (0x0F : Nat) = 15 from rfl, land15]
  by_cases h : a % 16 = 15 <;> simp [h]

/-! ### fixed-length lists as literals -/

theorem list_length_11 {l : List Nat} (h : l.length = 11) :
    ∃ a0 a1 a2 a3 a4 a5 a6 a7 a8 a9 a10, l = [a0, a1, a2, a3, a4, a5, a6, a7, a8, a9, a10] := by
  iterate 11 (rcases l with _ | ⟨_, l⟩; · simp at h)
  cases l with
  | nil => exact ⟨_, _, _, _, _, _, _, _, _, _, _, rfl⟩
  | cons _ _ => simp at h

theorem list_length_13 {l : List Nat} (h : l.length = 13) :
    ∃ a0 a1 a2 a3 a4 a5 a6 a7 a8 a9 a10 a11 a12, l = [a0, a1, a2, a3, a4, a5, a6, a7, a8, a9, a10, a11, a12] := by
  iterate 13 (rcases l with _ | ⟨_, l⟩; · simp at h)
  cases l with
  | nil => exact ⟨_, _, _, _, _, _, _, _, _, _, _, _, _, rfl⟩
  | cons _ _ => simp at h

theorem list_length_32 {l : List Nat} (h : l.length = 32) :
    ∃ a0 a1 a2 a3 a4 a5 a6 a7 a8 a9 a10 a11 a12 a13 a14 a15 a16 a17 a18 a19 a20 a21 a22 a23 a24 a25 a26 a27 a28 a29
      a30 a31, l = [a0, a1, a2, a3, a4, a5, a6, a7, a8, a9, a10, a11, a12, a13, a14, a15, a16, a17, a18, a19, a20, a21,
      a22, a23, a24, a25, a26, a27, a28, a29, a30, a31] := by
  iterate 32 (rcases l with _ | ⟨_, l⟩; · simp at h)
  cases l with
  | nil => exact ⟨_, _, _, _, _, _, _, _, _, _, _, _, _, _, _, _, _, _, _, _, _, _, _, _, _, _, _, _, _, _, _, _, rfl⟩
  | cons _ _ => simp at h

/-- replacing the segment `[a, b)` of a list leaves every index outside the segment alone -/
theorem splice_getD (A X : List Nat) (a b i : Nat) (hX : a + X.length = b) (hb : b ≤ A.length)
    (hi : i < a ∨ b ≤ i) : (A.take a ++ X ++ A.drop b).getD i 0 = A.getD i 0 := by
  simp only [List.getD_eq_getElem?_getD]
  congr 1
  rcases hi with hi | hi
  · rw [List.append_assoc, List.getElem?_append_left (by simp; omega)]
    simp [hi]
  · rw [List.getElem?_append_right (by simp; omega)]
    simp only [List.length_append, List.length_take, List.getElem?_drop]
    congr 1; omega

/-! ### `ShortName` -/

namespace ShortName

theorem trimLen_le (l : List Nat) (n : Nat) : trimLen l n ≤ n := by
  induction n with
  | zero => simp [trimLen]
  | succ n ih => unfold trimLen; split <;> omega

/-- everything at or after the cut (and before `n`) is padding -/
theorem trimLen_pad (l : List Nat) (n i : Nat) (h1 : trimLen l n ≤ i) (h2 : i < n) : l.getD i 32 = 32 := by
  induction n with
  | zero => omega
  | succ n ih =>
    unfold trimLen at h1
    split at h1
    · omega
    · rename_i hne
      by_cases hi : i = n
      · subst hi; simpa using hne
      · exact ih h1 (by omega)

/-- the byte just before the cut is not padding -/
theorem trimLen_last (l : List Nat) (n : Nat) (h : 0 < trimLen l n) : l.getD (trimLen l n - 1) 32 ≠ 32 := by
  induction n with
  | zero => simp [trimLen] at h
  | succ n ih =>
    unfold trimLen at h ⊢
    split
    · rename_i hne; simpa using hne
    · rename_i hne; rw [if_neg hne] at h; exact ih h

/-- `rposition`-based trimming is "drop the trailing spaces" -/
theorem take_trimLen (l : List Nat) (n : Nat) (hn : n ≤ l.length) :
    l.take (trimLen l n) = ((l.take n).reverse.dropWhile (· == 32)).reverse := by
  induction n with
  | zero => simp [trimLen]
  | succ n ih =>
    have hlt : n < l.length := by omega
    have hget : l.getD n 32 = l[n] := by simp [List.getD, hlt]
    rw [List.take_succ_eq_append_getElem hlt, List.reverse_append]
    unfold trimLen
    by_cases h : l[n] = 32
    · rw [hget, if_neg (by simp [h])]
      simp only [List.reverse_cons, List.reverse_nil, List.nil_append, List.singleton_append]
      rw [List.dropWhile_cons_of_pos (by simp [h])]
      exact ih (by omega)
    · rw [hget, if_pos h]
      simp only [List.reverse_cons, List.reverse_nil, List.nil_append, List.singleton_append]
      rw [List.dropWhile_cons_of_neg (by simp [h])]
      rw [List.take_succ_eq_append_getElem hlt]; simp

/-- the 0x05 rule applied to the assembled name directly -/
def fixHead : List Nat → List Nat
  | 5 :: t => 0xE5 :: t
  | l => l

theorem take_fixE5_pad12 (b : List Nat) : (fixE5 (pad12 b)).take b.length = fixHead b := by
  cases b with
  | nil => simp [fixHead]
  | cons x t =>
    unfold fixE5 pad12
    by_cases hx : x = 5
    · subst hx
      simp [fixHead]
    · have : fixHead (x :: t) = x :: t := by
        unfold fixHead
        split
        · rename_i heq; cases heq; exact absurd rfl hx
        · rfl
      simp [hx, this]

/-- the display bytes: assemble `base[.ext]`, then the 0x05 rule on the first assembled byte -/
theorem asBytes_new (raw : List Nat) :
    (ShortName.new raw).asBytes = fixHead (body raw (trimLen raw 8) (trimLen (raw.drop 8) 3)) := by
  simp only [ShortName.new, asBytes]
  exact take_fixE5_pad12 _

theorem body_length_le (raw : List Nat) (a b : Nat) (ha : a ≤ 8) (hb : b ≤ 3) : (body raw a b).length ≤ 12 := by
  unfold body
  split <;> simp <;> omega

end ShortName

/-! ### codec: lengths and round trips -/

namespace DirFileEntryData

theorem serializeTail_length (e : DirFileEntryData) : e.serializeTail.length = 21 := by
  simp [serializeTail, bytesLe16, bytesLe32]

theorem serialize_length (e : DirFileEntryData) (h : e.name.length = 11) : e.serialize.length = 32 := by
  simp [serialize, serializeTail_length, h]

theorem serialize_lt (e : DirFileEntryData) (h : e.WF) : ∀ b ∈ e.serialize, b < 256 := by
  intro b hb
  simp only [serialize, List.mem_append] at hb
  rcases hb with hb | hb
  · exact h.name_lt b hb
  · have := h.attrs_lt; have := h.reserved0_lt; have := h.createTime0_lt
    simp [serializeTail, bytesLe16, bytesLe32] at hb
    omega

theorem WF.default : ({} : DirFileEntryData).WF := by
  constructor <;> simp

theorem WF.setCreated {e : DirFileEntryData} (h : e.WF) (dt : DateTime) (hd : dt.date.day < 65536)
    (hs : dt.time.sec < 131072) : (e.setCreated dt).WF :=
  { h with
    createDate_lt := Date.encode_lt _ hd
    createTime1_lt := Time.encodeLo_lt _ hs
    createTime0_lt := Time.encodeHi_lt _ }

theorem WF.setAccessed {e : DirFileEntryData} (h : e.WF) (d : Date) (hd : d.day < 65536) : (e.setAccessed d).WF :=
  { h with accessDate_lt := Date.encode_lt _ hd }

theorem WF.setModified {e : DirFileEntryData} (h : e.WF) (dt : DateTime) (hd : dt.date.day < 65536)
    (hs : dt.time.sec < 131072) : (e.setModified dt).WF :=
  { h with
    modifyDate_lt := Date.encode_lt _ hd
    modifyTime_lt := Time.encodeLo_lt _ hs }

theorem WF.setSize {e : DirFileEntryData} (h : e.WF) (n : Nat) (hn : n < 4294967296) : (e.setSize n).WF :=
  { h with size_lt := hn }

theorem WF.setFirstCluster {e : DirFileEntryData} (h : e.WF) (c : Option Nat) (ft : FatType) :
    (e.setFirstCluster c ft).WF :=
  { h with
    firstClusterHi_lt := by
      simp only [DirFileEntryData.setFirstCluster]
      split
      · omega
      · exact h.firstClusterHi_lt
    firstClusterLo_lt := by simp only [DirFileEntryData.setFirstCluster]; omega }

theorem WF.renamed {e : DirFileEntryData} (h : e.WF) (n : List Nat) (hl : n.length = 11) (hb : ∀ b ∈ n, b < 256) :
    (e.renamed n).WF :=
  { h with name_len := hl, name_lt := hb }

theorem WF.setDeleted {e : DirFileEntryData} (h : e.WF) : e.setDeleted.WF :=
  { h with
    name_len := by simp [DirFileEntryData.setDeleted, h.name_len]
    name_lt := by
      intro b hb
      simp only [DirFileEntryData.setDeleted] at hb
      rcases List.mem_or_eq_of_mem_set hb with hb | hb
      · exact h.name_lt b hb
      · omega }

end DirFileEntryData

namespace DirLfnEntryData

theorem serialize_length (l : DirLfnEntryData) (h : l.units.length = 13) : l.serialize.length = 32 := by
  obtain ⟨a0, a1, a2, a3, a4, a5, a6, a7, a8, a9, a10, a11, a12, hu⟩ := list_length_13 h
  simp [serialize, name0, name1, name2, hu, bytesLe16]

end DirLfnEntryData

namespace DirEntryData

/-- reading back what `serialize` wrote gives the same short entry (attrs within the defined bits, not LFN-patterned) -/
theorem deserialize_serialize_file (e : DirFileEntryData) (h : e.WF) (hl : attrsIsLfn e.attrs = false) :
    deserialize e.serialize = .file e := by
  obtain ⟨a0, a1, a2, a3, a4, a5, a6, a7, a8, a9, a10, hn⟩ := list_length_11 h.name_len
  have h1 := h.attrs_lt; have h2 := h.reserved0_lt; have h3 := h.createTime0_lt; have h4 := h.createTime1_lt
  have h5 := h.createDate_lt; have h6 := h.accessDate_lt; have h7 := h.firstClusterHi_lt
  have h8 := h.modifyTime_lt; have h9 := h.modifyDate_lt; have h10 := h.firstClusterLo_lt; have h11 := h.size_lt
  cases e with
  | mk name attrs r0 ct0 ct1 cd ad fch mt md fcl sz =>
    simp only at hn h1 h2 h3 h4 h5 h6 h7 h8 h9 h10 h11 hl
    subst hn
    have hattr : attrsTruncate attrs = attrs := attrsTruncate_of_lt h1
    simp only [deserialize, DirFileEntryData.serialize, DirFileEntryData.serializeTail, u8At, bytesLe16, bytesLe32,
      List.cons_append, List.nil_append, List.getD_cons_succ, List.getD_cons_zero, hattr, hl, Bool.false_eq_true,
      if_false, deserializeFile, u16At, u32At, le16, le32, List.take_succ_cons, List.take_zero, file.injEq,
      DirFileEntryData.mk.injEq, true_and, Nat.reduceAdd]
    and_intros <;> omega

theorem deserialize_serialize_lfn (l : DirLfnEntryData) (h : l.WF) (hl : attrsIsLfn l.attrs = true) :
    deserialize l.serialize = .lfn l := by
  obtain ⟨a0, a1, a2, a3, a4, a5, a6, a7, a8, a9, a10, a11, a12, hu⟩ := list_length_13 h.units_len
  have h1 := h.attrs_lt; have h2 := h.order_lt; have h3 := h.entryType_lt; have h4 := h.checksum_lt
  have h5 := h.reserved0_lt
  have hu' := h.units_lt
  cases l with
  | mk order units attrs et ck r0 =>
    simp only at hu h1 h2 h3 h4 h5 hl hu'
    subst hu
    simp only [List.mem_cons, List.not_mem_nil, or_false, forall_eq_or_imp, forall_eq] at hu'
    have hattr : attrsTruncate attrs = attrs := attrsTruncate_of_lt h1
    simp only [deserialize, DirLfnEntryData.serialize, DirLfnEntryData.name0, DirLfnEntryData.name1,
      DirLfnEntryData.name2, u8At, bytesLe16, List.take_succ_cons, List.take_zero, List.drop_succ_cons, List.drop_zero,
      List.flatMap_cons, List.flatMap_nil, List.cons_append, List.nil_append, List.append_nil,
      List.getD_cons_succ, List.getD_cons_zero, hattr, hl, if_true, deserializeLfn, u16At, le16, lfn.injEq,
      DirLfnEntryData.mk.injEq, true_and, List.cons.injEq, and_true, Nat.reduceAdd]
    and_intros <;> omega

/-- writing back what `deserialize` read reproduces the slot except for the two undefined attribute bits -/
theorem serialize_deserialize (bs : List Nat) (hlen : bs.length = 32) (hb : ∀ b ∈ bs, b < 256) :
    (deserialize bs).serialize = bs.set 11 (bs.getD 11 0 % 64) := by
  obtain ⟨a0, a1, a2, a3, a4, a5, a6, a7, a8, a9, a10, a11, a12, a13, a14, a15, a16, a17, a18, a19, a20, a21, a22,
    a23, a24, a25, a26, a27, a28, a29, a30, a31, rfl⟩ := list_length_32 hlen
  simp only [List.mem_cons, List.not_mem_nil, or_false, forall_eq_or_imp, forall_eq] at hb
  unfold deserialize
  split
  · simp only [serialize, DirLfnEntryData.serialize, DirLfnEntryData.name0, DirLfnEntryData.name1,
      DirLfnEntryData.name2, deserializeLfn, u8At, u16At, le16, bytesLe16, attrsTruncate_eq,
      List.take_succ_cons, List.take_zero, List.drop_succ_cons, List.drop_zero,
      List.flatMap_cons, List.flatMap_nil, List.cons_append, List.nil_append, List.append_nil,
      List.getD_cons_succ, List.getD_cons_zero, List.set_cons_succ, List.set_cons_zero, List.cons.injEq, and_true,
      true_and, Nat.reduceAdd]
    and_intros <;> omega
  · simp only [serialize, DirFileEntryData.serialize, DirFileEntryData.serializeTail, deserializeFile, u8At, u16At,
      u32At, le16, le32, bytesLe16, bytesLe32, attrsTruncate_eq,
      List.take_succ_cons, List.take_zero, List.cons_append, List.nil_append,
      List.getD_cons_succ, List.getD_cons_zero, List.set_cons_succ, List.set_cons_zero, List.cons.injEq, and_true,
      true_and, Nat.reduceAdd]
    and_intros <;> omega

end DirEntryData

/-! ### time-stamp setters: byte frame -/

namespace DirFileEntryData

/-- `set_created` rewrites bytes 13 (hi-res), 14–15 (time), 16–17 (date) and nothing else -/
theorem serialize_setCreated (e : DirFileEntryData) (dt : DateTime) (h : e.name.length = 11) :
    (e.setCreated dt).serialize =
      e.serialize.take 13 ++ ([dt.time.encodeHi] ++ bytesLe16 dt.time.encodeLo ++ bytesLe16 dt.date.encode) ++
      e.serialize.drop 18 := by
  obtain ⟨a0, a1, a2, a3, a4, a5, a6, a7, a8, a9, a10, hn⟩ := list_length_11 h
  simp [serialize, serializeTail, setCreated, hn, bytesLe16, bytesLe32]

/-- `set_accessed` rewrites bytes 18–19 and nothing else -/
theorem serialize_setAccessed (e : DirFileEntryData) (d : Date) (h : e.name.length = 11) :
    (e.setAccessed d).serialize = e.serialize.take 18 ++ bytesLe16 d.encode ++ e.serialize.drop 20 := by
  obtain ⟨a0, a1, a2, a3, a4, a5, a6, a7, a8, a9, a10, hn⟩ := list_length_11 h
  simp [serialize, serializeTail, setAccessed, hn, bytesLe16, bytesLe32]

/-- `set_modified` rewrites bytes 22–23 (time), 24–25 (date) and nothing else -/
theorem serialize_setModified (e : DirFileEntryData) (dt : DateTime) (h : e.name.length = 11) :
    (e.setModified dt).serialize =
      e.serialize.take 22 ++ (bytesLe16 dt.time.encodeLo ++ bytesLe16 dt.date.encode) ++ e.serialize.drop 26 := by
  obtain ⟨a0, a1, a2, a3, a4, a5, a6, a7, a8, a9, a10, hn⟩ := list_length_11 h
  simp [serialize, serializeTail, setModified, hn, bytesLe16, bytesLe32]

/-! ### getters after setters -/

theorem created_setCreated (e : DirFileEntryData) (dt : DateTime)
    (hd : Date.inRange dt.date.year dt.date.month dt.date.day)
    (ht : Time.inRange dt.time.hour dt.time.min dt.time.sec dt.time.millis) :
    (e.setCreated dt).created = ⟨dt.date, dt.time.round10⟩ := by
  unfold Date.inRange at hd
  simp only [created, setCreated, DateTime.decode]
  rw [Date.decode_encode _ (by omega) (by omega) (by omega) (by omega), Time.decode_encode _ ht]

theorem accessed_setAccessed (e : DirFileEntryData) (d : Date) (hd : Date.inRange d.year d.month d.day) :
    (e.setAccessed d).accessed = d := by
  unfold Date.inRange at hd
  simp only [accessed, setAccessed]
  exact Date.decode_encode _ (by omega) (by omega) (by omega) (by omega)

theorem modified_setModified (e : DirFileEntryData) (dt : DateTime)
    (hd : Date.inRange dt.date.year dt.date.month dt.date.day)
    (ht : Time.inRange dt.time.hour dt.time.min dt.time.sec dt.time.millis) :
    (e.setModified dt).modified = ⟨dt.date, dt.time.round2s⟩ := by
  unfold Date.inRange at hd
  simp only [modified, setModified, DateTime.decode]
  rw [Date.decode_encode _ (by omega) (by omega) (by omega) (by omega), Time.decode_encode_mod _ ht]

/-- the three stamps are independent fields -/
theorem getters_setCreated (e : DirFileEntryData) (dt : DateTime) :
    (e.setCreated dt).accessed = e.accessed ∧ (e.setCreated dt).modified = e.modified := ⟨rfl, rfl⟩

theorem getters_setAccessed (e : DirFileEntryData) (d : Date) :
    (e.setAccessed d).created = e.created ∧ (e.setAccessed d).modified = e.modified := ⟨rfl, rfl⟩

theorem getters_setModified (e : DirFileEntryData) (dt : DateTime) :
    (e.setModified dt).created = e.created ∧ (e.setModified dt).accessed = e.accessed := ⟨rfl, rfl⟩

/-- storing what was read changes nothing (the stamps the library itself decodes re-encode to the same bytes) -/
theorem setAccessed_accessed (e : DirFileEntryData) (h : e.accessDate < 65536) : e.setAccessed e.accessed = e := by
  simp only [setAccessed, accessed, Date.encode_decode _ h]

theorem setModified_modified (e : DirFileEntryData) (h1 : e.modifyDate < 65536) (h2 : e.modifyTime < 65536) :
    e.setModified e.modified = e := by
  simp only [setModified, modified, DateTime.decode, Date.encode_decode _ h1, Time.encodeLo_decode_zero _ h2]

theorem setCreated_created (e : DirFileEntryData) (h1 : e.createDate < 65536) (h2 : e.createTime1 < 65536)
    (h3 : e.createTime0 < 200) : e.setCreated e.created = e := by
  have := Time.encode_decode e.createTime1 e.createTime0 h2 h3
  simp only [Time.encode, Prod.mk.injEq] at this
  simp only [setCreated, created, DateTime.decode, Date.encode_decode _ h1, this.1, this.2]

/-! ### first cluster / size -/

theorem firstCluster_setFirstCluster_fat32 (e : DirFileEntryData) (c : Option Nat)
    (hc : ∀ n, c = some n → 0 < n ∧ n < 4294967296) :
    (e.setFirstCluster c .fat32).firstCluster .fat32 = c := by
  cases c with
  | none => simp [firstCluster, firstClusterRaw, setFirstCluster]
  | some n =>
    have := hc n rfl
    simp only [firstCluster, firstClusterRaw, setFirstCluster, if_true, Option.getD_some]
    rw [if_neg (by omega)]
    congr 1; omega

/-- on FAT12/16 only the low word is stored and read -/
theorem firstCluster_setFirstCluster_small (e : DirFileEntryData) (c : Option Nat) (ft : FatType) (hft : ft ≠ .fat32)
    (hc : ∀ n, c = some n → 0 < n ∧ n < 65536) :
    (e.setFirstCluster c ft).firstCluster ft = c := by
  cases c with
  | none => simp [firstCluster, firstClusterRaw, setFirstCluster, hft]
  | some n =>
    have := hc n rfl
    simp only [firstCluster, firstClusterRaw, setFirstCluster, if_neg hft, Option.getD_some]
    rw [if_neg (by omega)]
    congr 1; omega

theorem size?_setSize (e : DirFileEntryData) (n : Nat) :
    (e.setSize n).size? = if e.isFile then some n else none := by
  simp [size?, setSize, isFile, isDir]

end DirFileEntryData

/-! ### the editor's dirty latch -/

namespace DirEntryEditor

theorem setCreated_dirty (ed : DirEntryEditor) (dt : DateTime) :
    (ed.setCreated dt).dirty = (ed.dirty || decide (dt ≠ ed.data.created)) := by
  unfold setCreated; split <;> simp_all

theorem setAccessed_dirty (ed : DirEntryEditor) (d : Date) :
    (ed.setAccessed d).dirty = (ed.dirty || decide (d ≠ ed.data.accessed)) := by
  unfold setAccessed; split <;> simp_all

theorem setModified_dirty (ed : DirEntryEditor) (dt : DateTime) :
    (ed.setModified dt).dirty = (ed.dirty || decide (dt ≠ ed.data.modified)) := by
  unfold setModified; split <;> simp_all

theorem setFirstCluster_dirty (ed : DirEntryEditor) (c : Option Nat) (ft : FatType) :
    (ed.setFirstCluster c ft).dirty = (ed.dirty || decide (c ≠ ed.data.firstCluster ft)) := by
  unfold setFirstCluster; split <;> simp_all

/-- a setter whose argument equals the current getter is the identity (no write on flush) -/
theorem setCreated_same (ed : DirEntryEditor) : ed.setCreated ed.data.created = ed := by simp [setCreated]
theorem setAccessed_same (ed : DirEntryEditor) : ed.setAccessed ed.data.accessed = ed := by simp [setAccessed]
theorem setModified_same (ed : DirEntryEditor) : ed.setModified ed.data.modified = ed := by simp [setModified]

/-- the setters never move the entry and never clear `dirty` -/
theorem setCreated_pos (ed : DirEntryEditor) (dt : DateTime) : (ed.setCreated dt).pos = ed.pos := by
  unfold setCreated; split <;> rfl
theorem setAccessed_pos (ed : DirEntryEditor) (d : Date) : (ed.setAccessed d).pos = ed.pos := by
  unfold setAccessed; split <;> rfl
theorem setModified_pos (ed : DirEntryEditor) (dt : DateTime) : (ed.setModified dt).pos = ed.pos := by
  unfold setModified; split <;> rfl

/-- `set_size` is a no-op on a directory entry -/
theorem setSize_dir (ed : DirEntryEditor) (n : Nat) (h : ed.data.isDir = true) : ed.setSize n = ed := by
  simp [setSize, DirFileEntryData.size?, DirFileEntryData.isFile, h]

theorem setSize_file (ed : DirEntryEditor) (n : Nat) (h : ed.data.isDir = false) :
    (ed.setSize n).data.size = n ∧ (ed.setSize n).dirty = (ed.dirty || decide (n ≠ ed.data.size)) := by
  simp only [setSize, DirFileEntryData.size?, DirFileEntryData.isFile, h, Bool.not_false, if_true]
  split <;> simp_all [DirFileEntryData.setSize]

end DirEntryEditor

end FatVerif
