import FatVerif.Proofs.FatViewLemmas
/-! The FAT-level structural invariant (`chains_inv`) and its preservation by alloc / free / truncate. -/
namespace FatVerif.Fat

/-- FAT-level part of `Fsck`: every link stays inside `[2,total+2)` and points to an allocated (not free, not bad)
    entry; no two entries link to the same cluster (no cross-links / merges); the link relation is well-founded
    (`rank` decreases along links: no cycles). Together: the allocated entries form pairwise disjoint, acyclic
    chains, each entry lying on exactly one of them. -/
structure FatWf (g : Nat → FatValue) (total : Nat) : Prop where
  link_range : ∀ c n, g c = .data n → 2 ≤ n ∧ n < total + 2
  link_alloc : ∀ c n, g c = .data n → g n ≠ .free ∧ g n ≠ .bad
  no_cross : ∀ a b n, g a = .data n → g b = .data n → a = b
  acyclic : ∃ rank : Nat → Nat, ∀ c n, g c = .data n → rank n < rank c

/-- along a chain the rank does not increase beyond the head's -/
theorem chain_rank_le {g : Nat → FatValue} {rank : Nat → Nat} (hr : ∀ c n, g c = .data n → rank n < rank c)
    {c : Nat} {cs : List Nat} (h : Chain g c cs) : ∀ i, i ∈ cs → rank i ≤ rank c := by
  induction h with
  | last m _ => intro i hi; simp at hi; subst hi; exact Nat.le_refl _
  | cons m k ms hd _ ih =>
    intro i hi
    rcases List.mem_cons.mp hi with rfl | hi
    · exact Nat.le_refl _
    · have := ih i hi; have := hr m k hd; omega

/-- in a well-formed table every cluster starts a finite, duplicate-free chain -/
theorem chain_exists {g : Nat → FatValue} {total : Nat} (hw : FatWf g total) :
    ∀ c, ∃ cs, Chain g c cs ∧ cs.Nodup := by
  obtain ⟨rank, hr⟩ := hw.acyclic
  suffices ∀ k c, rank c ≤ k → ∃ cs, Chain g c cs ∧ cs.Nodup from fun c => this (rank c) c (Nat.le_refl _)
  intro k
  induction k with
  | zero =>
    intro c hc
    refine ⟨[c], Chain.last c ?_, by simp⟩
    intro n hd; have := hr c n hd; omega
  | succ k ih =>
    intro c hc
    cases hgc : g c with
    | data n =>
      have hlt := hr c n hgc
      obtain ⟨cs, hch, hnd⟩ := ih n (by omega)
      refine ⟨c :: cs, Chain.cons c n cs hgc hch, List.nodup_cons.mpr ⟨?_, hnd⟩⟩
      intro hmem
      have := chain_rank_le hr hch c hmem
      omega
    | free => exact ⟨[c], Chain.last c (by intro n h; rw [hgc] at h; cases h), by simp⟩
    | bad => exact ⟨[c], Chain.last c (by intro n h; rw [hgc] at h; cases h), by simp⟩
    | eoc => exact ⟨[c], Chain.last c (by intro n h; rw [hgc] at h; cases h), by simp⟩

theorem chain_nodup {g : Nat → FatValue} {total : Nat} (hw : FatWf g total) {c : Nat} {cs : List Nat}
    (h : Chain g c cs) : cs.Nodup := by
  obtain ⟨cs', h', hnd⟩ := chain_exists hw c
  rw [chain_unique h h']; exact hnd

/-- **alloc preserves the invariant**: `c` was free and in range, `prev` (if any) was the EOC-terminated tail of a
    chain. -/
theorem fatWf_alloc {g : Nat → FatValue} {total : Nat} (hw : FatWf g total) (prev : Option Nat) (c : Nat)
    (hc : g c = .free) (hc1 : 2 ≤ c) (hc2 : c < total + 2) (hp : ∀ p, prev = some p → g p = .eoc) :
    FatWf (allocLinkV g prev c) total := by
  obtain ⟨rank, hr⟩ := hw.acyclic
  cases prev with
  | none =>
    simp only [allocLinkV]
    have hlink : ∀ a n, updV g c .eoc a = .data n → g a = .data n := by
      intro a n h
      by_cases ha : a = c
      · subst ha; simp at h
      · rwa [updV_ne _ _ _ _ ha] at h
    refine ⟨fun a n h => hw.link_range a n (hlink a n h), ?_, fun a b n ha hb => hw.no_cross a b n (hlink a n ha)
      (hlink b n hb), ⟨rank, fun a n h => hr a n (hlink a n h)⟩⟩
    intro a n h
    have h' := hlink a n h
    have hn := hw.link_alloc a n h'
    have : n ≠ c := by intro e; subst e; exact hn.1 hc
    rw [updV_ne _ _ _ _ this]; exact hn
  | some p =>
    have hpe := hp p rfl
    have hpc : p ≠ c := by intro e; subst e; rw [hc] at hpe; cases hpe
    simp only [allocLinkV]
    have hlink : ∀ a n, updV (updV g c .eoc) p (.data c) a = .data n → (a = p ∧ n = c) ∨ (a ≠ p ∧ a ≠ c ∧ g a = .data n) := by
      intro a n h
      by_cases ha : a = p
      · subst ha; simp at h; exact Or.inl ⟨rfl, h.symm⟩
      · rw [updV_ne _ _ _ _ ha] at h
        by_cases hac : a = c
        · subst hac; simp at h
        · rw [updV_ne _ _ _ _ hac] at h; exact Or.inr ⟨ha, hac, h⟩
    refine ⟨?_, ?_, ?_, ⟨fun i => if i = c then 0 else rank i + 1, ?_⟩⟩
    · intro a n h
      rcases hlink a n h with ⟨_, rfl⟩ | ⟨_, _, h'⟩
      · exact ⟨hc1, hc2⟩
      · exact hw.link_range a n h'
    · intro a n h
      rcases hlink a n h with ⟨_, rfl⟩ | ⟨_, _, h'⟩
      · rw [updV_ne _ _ _ _ (Ne.symm hpc)]; simp
      · have hn := hw.link_alloc a n h'
        have hnc : n ≠ c := by intro e; subst e; exact hn.1 hc
        by_cases hnp : n = p
        · subst hnp; simp
        · rw [updV_ne _ _ _ _ hnp, updV_ne _ _ _ _ hnc]; exact hn
    · intro a b n ha hb
      rcases hlink a n ha with ⟨rfl, rfl⟩ | ⟨_, _, ha'⟩ <;> rcases hlink b _ hb with ⟨rfl, e⟩ | ⟨_, _, hb'⟩
      · rfl
      · exact absurd hc (hw.link_alloc b _ hb').1
      · subst e; exact absurd hc (hw.link_alloc a _ ha').1
      · exact hw.no_cross a b n ha' hb'
    · intro a n h
      rcases hlink a n h with ⟨rfl, rfl⟩ | ⟨_, hac, h'⟩
      · simp [hpc]
      · have hn := hw.link_alloc a n h'
        have hnc : n ≠ c := by intro e; subst e; exact hn.1 hc
        have := hr a n h'
        simp [hac, hnc]; omega

/-- **free preserves the invariant**: the freed chain starts at a head (no entry links to `c`) -/
theorem fatWf_free {g g' : Nat → FatValue} {total : Nat} (hw : FatWf g total) {c : Nat} {cs : List Nat}
    (hch : Chain g c cs) (hhead : ∀ a, g a ≠ .data c)
    (hfree : ∀ i, i ∈ cs → g' i = .free) (hsame : ∀ i, i ∉ cs → g' i = g i) : FatWf g' total := by
  obtain ⟨rank, hr⟩ := hw.acyclic
  have hlink : ∀ a n, g' a = .data n → a ∉ cs ∧ g a = .data n := by
    intro a n h
    by_cases ha : a ∈ cs
    · rw [hfree a ha] at h; cases h
    · rw [hsame a ha] at h; exact ⟨ha, h⟩
  refine ⟨fun a n h => hw.link_range a n (hlink a n h).2, ?_,
    fun a b n ha hb => hw.no_cross a b n (hlink a n ha).2 (hlink b n hb).2,
    ⟨rank, fun a n h => hr a n (hlink a n h).2⟩⟩
  intro a n h
  obtain ⟨ha, h'⟩ := hlink a n h
  have hn : n ∉ cs := by
    intro hmem
    rcases chain_pred hch n hmem with rfl | ⟨b, hb, hgb⟩
    · exact hhead a h'
    · have := hw.no_cross a b n h' hgb; subst this; exact ha hb
  rw [hsame n hn]; exact hw.link_alloc a n h'

/-- **truncate preserves the invariant**: `c` becomes the EOC tail, the rest of its chain is freed -/
theorem fatWf_truncate {g g' : Nat → FatValue} {total : Nat} (hw : FatWf g total) {c : Nat} {t : List Nat}
    (hch : Chain g c (c :: t)) (hc : g' c = .eoc)
    (hfree : ∀ i, i ∈ t → g' i = .free) (hsame : ∀ i, i ≠ c → i ∉ t → g' i = g i) : FatWf g' total := by
  obtain ⟨rank, hr⟩ := hw.acyclic
  have hnd := chain_nodup hw hch
  have hct : c ∉ t := (List.nodup_cons.mp hnd).1
  have hlink : ∀ a n, g' a = .data n → a ≠ c ∧ a ∉ t ∧ g a = .data n := by
    intro a n h
    by_cases hac : a = c
    · subst hac; rw [hc] at h; cases h
    · by_cases ha : a ∈ t
      · rw [hfree a ha] at h; cases h
      · rw [hsame a hac ha] at h; exact ⟨hac, ha, h⟩
  refine ⟨fun a n h => hw.link_range a n (hlink a n h).2.2, ?_,
    fun a b n ha hb => hw.no_cross a b n (hlink a n ha).2.2 (hlink b n hb).2.2,
    ⟨rank, fun a n h => hr a n (hlink a n h).2.2⟩⟩
  intro a n h
  obtain ⟨hac, ha, h'⟩ := hlink a n h
  by_cases hnc : n = c
  · subst hnc; rw [hc]; constructor <;> intro e <;> cases e
  · have hn : n ∉ t := by
      intro hmem
      rcases chain_pred hch n (List.mem_cons_of_mem _ hmem) with e | ⟨b, hb, hgb⟩
      · exact hnc e
      · have := hw.no_cross a b n h' hgb; subst this
        rcases List.mem_cons.mp hb with e | hb
        · exact hac e
        · exact ha hb
    rw [hsame n hnc hn]; exact hw.link_alloc a n h'

end FatVerif.Fat
