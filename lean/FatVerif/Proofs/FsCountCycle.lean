import FatVerif.Proofs.FsCountOps
/-! Fill / delete cycle: allocating `k` clusters into one chain and freeing that chain restores the table. -/
namespace FatVerif.FsCount
open FatVerif.Fat

/-- extend a chain by `k` clusters, as `File::write` does: the first allocation hangs the new cluster on `prev`
    (or starts a chain), every further one on the cluster just allocated. Returns the clusters in chain order. -/
def allocMany : Nat → FsCountState → Option Nat → Except Err (FsCountState × List Nat)
  | 0, s, _ => .ok (s, [])
  | k + 1, s, prev =>
    match allocOp s prev with
    | .error e => .error e
    | .ok (s1, c) =>
      match allocMany k s1 (some c) with
      | .error e => .error e
      | .ok (s2, cs) => .ok (s2, c :: cs)

theorem allocMany_spec : ∀ (k : Nat) (s : FsCountState) (prev : Option Nat) (s2 : FsCountState) (cs : List Nat),
    (∀ n, s.info.next = some n → 2 ≤ n) → (∀ p, prev = some p → s.fat p = .eoc) →
    allocMany k s prev = .ok (s2, cs) →
    cs.length = k ∧ cs.Nodup ∧ (∀ i, i ∈ cs → 2 ≤ i ∧ i < s.total + 2 ∧ s.fat i = .free) ∧
    (∀ i, i ∉ cs → prev ≠ some i → s2.fat i = s.fat i) ∧ (cs ≠ [] → Seg s2.fat cs) ∧
    (∀ p c r, prev = some p → cs = c :: r → s2.fat p = .data c) ∧ s2.total = s.total ∧ s2.fat32 = s.fat32 ∧
    (∀ n, s2.info.next = some n → 2 ≤ n) ∧ (CountOk s → CountOk s2) := by
  intro k
  induction k with
  | zero =>
    intro s prev s2 cs hh _ h
    simp only [allocMany] at h; cases h
    exact ⟨rfl, List.nodup_nil, fun i hi => by simp at hi, fun _ _ _ => rfl, fun h => absurd rfl h,
      fun p c r _ e => (by cases e), rfl, rfl, hh, id⟩
  | succ k ih =>
    intro s prev s2 cs hh hp h
    simp only [allocMany] at h
    cases ha : allocOp s prev with
    | error e => rw [ha] at h; cases h
    | ok r1 =>
      obtain ⟨s1, c⟩ := r1
      rw [ha] at h
      simp only at h
      cases hm : allocMany k s1 (some c) with
      | error e => rw [hm] at h; cases h
      | ok r2 =>
        obtain ⟨s2', rest⟩ := r2
        rw [hm] at h; cases h
        obtain ⟨hf, hfat, htot, h32, _⟩ := allocOp_ok ha
        obtain ⟨hstrict, hc1, hc2, hc3⟩ := allocOp_hintStrict hh ha
        have hpc : ∀ p, prev = some p → p ≠ c := by
          intro p hpp e; subst e; rw [hp p hpp] at hc3; cases hc3
        obtain ⟨l1, l2, l3⟩ := allocLinkV_spec s.fat prev c hpc
        rw [← hfat] at l1 l2 l3
        have hh1 : ∀ n, s1.info.next = some n → 2 ≤ n := fun n hn => (hstrict n hn).1
        obtain ⟨i1, i2, i3, i4, i5, i6, i7, i8, i9, i10⟩ :=
          ih s1 (some c) s2 rest hh1 (fun p e => by cases e; exact l1) hm
        have hcrest : c ∉ rest := by
          intro hmem; have := (i3 c hmem).2.2; rw [l1] at this; cases this
        have hprest : ∀ p, prev = some p → p ∉ rest := by
          intro p hpp hmem; have := (i3 p hmem).2.2; rw [l2 p hpp] at this; cases this
        refine ⟨by simp [i1], List.nodup_cons.mpr ⟨hcrest, i2⟩, ?_, ?_, ?_, ?_, by rw [i7, htot], by rw [i8, h32],
          i9, ?_⟩
        · intro i hi
          rcases List.mem_cons.mp hi with e | hir
          · rw [e]; exact ⟨hc1, hc2, hc3⟩
          · obtain ⟨a, b, cf⟩ := i3 i hir
            have hic : i ≠ c := fun e => hcrest (e ▸ hir)
            have hip : ∀ p, prev = some p → i ≠ p := fun p hpp e => hprest p hpp (e ▸ hir)
            rw [l3 i hic hip] at cf
            exact ⟨a, by rw [← htot]; exact b, cf⟩
        · intro i hi hip
          have hic : i ≠ c := by intro e; subst e; simp at hi
          have hir : i ∉ rest := fun hm => hi (List.mem_cons_of_mem _ hm)
          rw [i4 i hir (fun e => hic (Option.some.inj e).symm)]
          exact l3 i hic (fun p hpp e => by subst e; exact hip hpp)
        · intro _
          cases rest with
          | nil =>
            have hk : k = 0 := by simpa using i1.symm
            subst hk
            simp only [allocMany] at hm; cases hm
            simp only [Seg]; exact l1
          | cons d r =>
            simp only [Seg]
            exact ⟨i6 c d r rfl rfl, i5 (by simp)⟩
        · intro p c' r hpp e
          cases e
          rw [i4 p (hprest p hpp) (fun e => hpc p hpp (Option.some.inj e).symm)]
          exact l2 p hpp
        · intro hcnt
          have hp' : ∀ p, prev = some p → s.fat p ≠ .free := fun p hpp => by rw [hp p hpp]; intro e; cases e
          exact i10 (allocOp_countOk hcnt hh hp' ha).1

/-- allocation keeps a cached count cached (and an unknown one unknown) -/
theorem allocMany_free_isSome : ∀ (k : Nat) (s : FsCountState) (prev : Option Nat) (s2 : FsCountState) (cs : List Nat),
    allocMany k s prev = .ok (s2, cs) → s2.info.free.isSome = s.info.free.isSome := by
  intro k
  induction k with
  | zero => intro s prev s2 cs h; simp only [allocMany] at h; cases h; rfl
  | succ k ih =>
    intro s prev s2 cs h
    simp only [allocMany] at h
    cases ha : allocOp s prev with
    | error e => rw [ha] at h; cases h
    | ok r1 =>
      obtain ⟨s1, c⟩ := r1
      rw [ha] at h; simp only at h
      cases hm : allocMany k s1 (some c) with
      | error e => rw [hm] at h; cases h
      | ok r2 =>
        obtain ⟨s2', rest⟩ := r2
        rw [hm] at h; cases h
        rw [ih s1 (some c) s2 rest hm, (allocOp_ok ha).2.2.2.2.2.1]
        cases s.info.free <;> rfl

/-- **fill / delete cycle** -/
theorem fill_delete (k : Nat) (s s2 : FsCountState) (cs : List Nat) (hk : 0 < k)
    (hh : ∀ n, s.info.next = some n → 2 ≤ n) (h : allocMany k s none = .ok (s2, cs)) :
    ∃ c r s3, cs = c :: r ∧ cs.length = k ∧ freeOp s2 c = .ok s3 ∧ (∀ i, s3.fat i = s.fat i) ∧ s3.total = s.total ∧
      countFreeV s3.fat s3.total = countFreeV s.fat s.total ∧
      countFreeV s2.fat s2.total + k = countFreeV s.fat s.total ∧ (CountOk s → CountOk s2 ∧ CountOk s3) := by
  obtain ⟨i1, i2, i3, i4, i5, _, i7, _, _, i10⟩ := allocMany_spec k s none s2 cs hh (fun p e => by cases e) h
  cases cs with
  | nil => simp at i1; omega
  | cons c r =>
    have hseg := i5 (by simp)
    have hch := seg_chain s2.fat r c hseg
    have hin2 : ∀ i, i ∈ c :: r → i < s2.total + 2 := fun i hi => by rw [i7]; exact (i3 i hi).2.1
    obtain ⟨s3, e1, e2, e3, e4, _, e6⟩ := freeOp_spec s2 c (c :: r) hch i2 hin2
    have hfat : ∀ i, s3.fat i = s.fat i := by
      intro i
      by_cases hi : i ∈ c :: r
      · rw [e2 i hi, (i3 i hi).2.2]
      · rw [e3 i hi, i4 i hi (by intro e; cases e)]
    have hmem2 : ∀ i, i ∈ c :: r → 2 ≤ i ∧ i < s2.total + 2 ∧ s2.fat i ≠ .free :=
      fun i hi => ⟨(i3 i hi).1, hin2 i hi, seg_not_free s2.fat _ hseg i hi⟩
    have hcnt3 : countFreeV s3.fat s2.total = countFreeV s2.fat s2.total + (c :: r).length :=
      countFreeV_free_list (c :: r) s2.fat s3.fat s2.total i2 hmem2 e2 (fun i hi => by rw [e3 i hi])
    have hsame : countFreeV s3.fat s3.total = countFreeV s.fat s.total := by
      rw [e4, i7]; exact countFreeV_congr _ _ _ (fun i _ _ => by rw [hfat i])
    refine ⟨c, r, s3, rfl, i1, e1, hfat, by rw [e4, i7], hsame, ?_, ?_⟩
    · have b : countFreeV s3.fat s2.total = countFreeV s.fat s.total := by rw [← e4]; exact hsame
      have hc3 := hcnt3
      rw [i1] at hc3; omega
    · intro hc
      exact ⟨i10 hc, countOk_mapFree_add s2 s3 (c :: r).length (i10 hc) e4 e6 hcnt3⟩

end FatVerif.FsCount
