import FatVerif.Proofs.DirWriteSim40
/-! Directory WRITES, part 41: the second half of `create_dir` — `to_dir` on the new entry and the two dot entries — from
    any device on which the parent already holds the entry (however it was written: inside its slots or across a
    growth). -/
namespace FatVerif.DirSim
open FatVerif.FileSim FatVerif.Fat DirEntryData DirAlias

/-- the tail of `create_dir` after the entry is in the parent (same text as in `Model/DirOps.lean`) -/
def createDirTail (fs : FsState) (d : DirStream) (entry : DirEntry) : Prog DirStream := do
  let dir ← entry.toDir fs
  Prog.finallyDrop (do
      let dot ← createSfnEntry (46 :: List.replicate 10 32) ATTR_DIRECTORY (entry.firstCluster fs)
      let _ ← writeEntry dir "." dot
      let ddCluster := if d.isRootDir then none else d.firstCluster
      let dotdot ← createSfnEntry (46 :: 46 :: List.replicate 9 32) ATTR_DIRECTORY ddCluster
      let _ ← writeEntry dir ".." dotdot
      pure dir)
    (fun r => match r with
      | some _ => pure ()
      | none => dir.dropBody)

/-- **the new directory gets its dot entries**: `e` is the entry of the new directory (record `sfnAt … 16 (some c)`
    stamped with the clock of `d3`) whose 32 bytes are on the image at `e.entryPos` (behind the FAT copies, inside the
    device, outside cluster `c`); cluster `c` is zero-filled and ends a chain in the FAT -/
theorem createDir_child (fs0 : FsState) (st : DirStream) (e : DirEntry) (a : List Nat) (c : Nat) (d3 : Dev)
    (hl11 : a.length = 11) (hab : ∀ b ∈ a, b < 256) (hedata : e.data = sfnAt fs0 d3.clock a 16 (some c))
    (hg3 : FsGeomEq fs0 d3.fs) (hfa : d3.failAt = none) (hwf : d3.img.WF) (hgeo : Geo fs0 d3.img.size)
    (hacc : fs0.accDate = false) (hcs32 : fs0.clusterSize % 32 = 0) (hcs64 : 64 ≤ fs0.clusterSize)
    (hu32 : fs0.clusterSize < 4294967296) (hfuelN : fs0.clusterSize / 32 < dirFuel fs0)
    (hrange : 2 ≤ c ∧ c < fs0.totalClusters + 2) (htvc : ∀ n, tabView d3.fs d3.img c ≠ .data n)
    (hzero : ∀ q, clusterOff fs0 c ≤ q → q < clusterOff fs0 c + fs0.clusterSize → d3.img.getByte q = 0)
    (hpos1 : (fatSliceOf fs0).beginOff + (fatSliceOf fs0).mirrors * (fatSliceOf fs0).size ≤ e.entryPos)
    (hpos2 : e.entryPos + 32 ≤ d3.img.size)
    (hpos3 : e.entryPos + 32 ≤ clusterOff fs0 c ∨ clusterOff fs0 c + fs0.clusterSize ≤ e.entryPos)
    (hP : ∀ x, x < 32 → d3.img.getByte (e.entryPos + x) = e.data.serialize.getD x 0) :
    ∃ d6, run (createDirTail fs0 st e) d3 = (.ok (.file (FileH.new (some c) (some e.editor))), d6) ∧
      VolStep d3 d6 ∧ d6.fs.curDirty = true ∧ d6.clock = d3.clock ∧
      ChainDir d6 (FileH.new (some c) (some e.editor)) c [c] ∧
      srcSlots d6.img (chainSrc fs0 [c]) (fs0.clusterSize / 32) =
        sfnWith (46 :: List.replicate 10 32) (16 :: sfnStamp fs0 d3.clock (some c)) ::
        sfnWith (46 :: 46 :: List.replicate 9 32)
          (16 :: sfnStamp fs0 d3.clock (if st.isRootDir then none else st.firstCluster)) ::
        List.replicate (fs0.clusterSize / 32 - 2) (List.replicate 32 0) ∧
      tabView d6.fs d6.img = tabView d3.fs d3.img ∧
      (∀ q, 0x42 ≤ q → ¬ (clusterOff fs0 c ≤ q ∧ q < clusterOff fs0 c + fs0.clusterSize) →
        d6.img.getByte q = d3.img.getByte q) := by
  have hrawwf := sfnAt_wf fs0 d3.clock a 16 (some c) hl11 hab (by omega)
  have hst42 := hgeo.status_lt
  have hfatdata := hgeo.fat_data
  have hms : (fatSliceOf fs0).size ≤ (fatSliceOf fs0).mirrors * (fatSliceOf fs0).size :=
    Nat.le_mul_of_pos_left _ hgeo.mirrors_pos
  obtain ⟨hco1, hco2⟩ := clusterOff_end hgeo hrange.1 hrange.2
  have heisdir : e.isDir = true := by
    unfold DirEntry.isDir; rw [hedata]; exact sfnAt_isDir_true _ _ _ _
  have hefc : e.firstCluster fs0 = some c := by
    unfold DirEntry.firstCluster
    rw [hedata]
    refine sfnAt_firstCluster fs0 d3.clock a 16 (some c) (fun m hm => ?_)
    cases hm
    have := hgeo.small
    have := badMark_bound fs0.fatType
    omega
  generalize hed0 : e.editor = ed0
  have hedpos : ed0.pos = e.entryPos := by rw [← hed0]; rfl
  have heddata : ed0.data = sfnAt fs0 d3.clock a 16 (some c) := by rw [← hed0]; exact hedata
  -- to_dir
  obtain ⟨d4, h4, hs4⟩ := toDir_sim fs0 e heisdir d3
  have hds : DirEntry.dirStream fs0 e = .file (FileH.new (some c) (some ed0)) := by
    unfold DirEntry.dirStream; rw [hefc, hed0]
  rw [hds] at h4
  have hg4 : FsGeomEq fs0 d4.fs := by rw [hs4.fs]; exact hg3
  have hc4 : d4.clock = d3.clock := run_clock _ _ _ _ h4
  have hcs4 : d4.fs.clusterSize = fs0.clusterSize := hg4.clusterSize
  have hsz4 : d4.img.size = d3.img.size := by rw [hs4.img]
  have C4 : ChainDir d4 (FileH.new (some c) (some ed0)) c [c] := by
    refine ⟨by rw [hs4.failAt]; exact hfa, by rw [hsz4]; exact hgeo.frame hg4, rfl, ?_, ?_, ?_,
      Or.inl (by rw [hg4.accDate]; exact hacc), ?_, by rw [hcs4]; exact hcs32,
      by rw [hcs4, List.length_singleton, Nat.one_mul]; exact hu32⟩
    · refine Chain.last c (fun m => ?_)
      rw [hs4.fs, hs4.img]; exact htvc m
    · intro x hx
      simp only [List.mem_singleton] at hx
      subst hx
      rw [hg4.totalClusters]; exact hrange
    · show ed0.data.size? = none
      rw [heddata]; exact sfnAt_size?_dir _ _ _ _
    · intro ed hed
      cases hed
      rw [← hed0]; rfl
  obtain ⟨K, hK⟩ : ∃ K, fs0.clusterSize / 32 = K + 2 := ⟨fs0.clusterSize / 32 - 2, by omega⟩
  have hcsK : fs0.clusterSize = 32 * (K + 2) := by
    have := Nat.div_add_mod fs0.clusterSize 32; omega
  have hsrcC : ∀ i, i < fs0.clusterSize / 32 → chainSrc fs0 [c] (32 * i) = clusterOff fs0 c + 32 * i :=
    fun i hi => chainSrc_single fs0 c i (by omega)
  have hzero4 : ∀ q, clusterOff d4.fs c ≤ q → q < clusterOff d4.fs c + d4.fs.clusterSize → d4.img.getByte q = 0 := by
    intro q h1 h2
    rw [hg4.clusterOff] at h1 h2
    rw [hcs4] at h2
    rw [hs4.img]; exact hzero q h1 h2
  have hP4 : ∀ q, subExtra ed0 q → d4.img.getByte q = ed0.data.serialize.getD (q - ed0.pos) 0 := by
    intro q hq
    unfold subExtra at hq
    obtain ⟨x, hx⟩ : ∃ x, q = ed0.pos + x := ⟨q - ed0.pos, by omega⟩
    subst hx
    rw [hs4.img, hedpos, hP x (by omega), heddata, hedata]
    congr 1
    omega
  obtain ⟨d5, e5, d6, e6, h5, h6, hs6, hd6, hc6, hinv6, hsl6, hfr6, hst6⟩ := sub_fresh_dots d4 c ed0
    (if st.isRootDir then none else st.firstCluster) K C4 (by rw [hs4.img]; exact hwf) (by rw [hcs4]; exact hK)
    (by rw [hcs4, dirFuel_geom hg4]; exact hfuelN) (by rw [heddata, sfnAt_name]; exact hl11)
    (by rw [hg4.fatSlice, hedpos]; exact hpos1) (by rw [hsz4, hedpos]; exact hpos2)
    (fun i hi => by
      rw [hcs4] at hi
      rw [chainSrc_geom hg4, hsrcC i hi, hedpos]
      omega)
    hzero4 (by rw [heddata, hc4]; exact sfnAt_setModified _ _ _ _ _) (by rw [heddata]; exact hrawwf) hP4
  rw [chainSrc_geom hg4, hcs4, sfnStamp_geom hg4, sfnStamp_geom hg4, hc4] at hsl6
  rw [chainSrc_geom hg4, hcs4] at hfr6
  have hagree6 : FatAgree d4.fs d4.img d6.img :=
    fatAgree_of_frameE hfr6 d4.fs (by rw [hg4.fatSlice]; exact hst42)
      (fun j hj => by rw [hg4.fatSlice, hsrcC j hj]; omega)
      (fun q hq => by rw [hg4.fatSlice]; unfold subExtra at hq; rw [hedpos] at hq; omega)
  have htv46 : tabView d6.fs d6.img = tabView d4.fs d4.img := by
    rw [hs6.geom.tabView, tabView_congr (sz := d3.img.size) (by rw [← hsz4]; rw [hsz4]; exact hgeo.frame hg4) hagree6]
  refine ⟨d6, ?_, (VolStep.of_sameVol hs4).trans hs6, hd6, hc6.trans hc4, ?_, by rw [hsl6, hK]; rfl,
    by rw [htv46, hs4.fs, hs4.img], ?_⟩
  · unfold createDirTail
    rw [run_bind_ok h4]
    refine run_finallyDrop_noop ?_ (fun _ => rfl)
    rw [run_bind_ok (run_createSfnEntry _ ATTR_DIRECTORY (e.firstCluster fs0) d4), hefc]
    have h5' : run (FatVerif.writeEntry (.file (FileH.new (some c) (some ed0))) "."
        (sfnAt d4.fs d4.clock (46 :: List.replicate 10 32) ATTR_DIRECTORY (some c))) d4 = (.ok e5, d5) := h5
    have h6' : run (FatVerif.writeEntry (.file (FileH.new (some c) (some ed0))) ".."
        (sfnAt d5.fs d5.clock (46 :: 46 :: List.replicate 9 32) ATTR_DIRECTORY
          (if st.isRootDir then none else st.firstCluster))) d5 = (.ok e6, d6) := h6
    rw [run_bind_ok h5']
    rw [run_bind_ok (run_createSfnEntry _ ATTR_DIRECTORY _ d5), run_bind_ok h6']
    rfl
  · have := hinv6.dir
    exact ⟨this.failAt, this.geo, this.first, this.link, this.inTab, this.nosize, this.noacc, this.clean, this.cs32,
      this.u32⟩
  · intro q hq hnc
    rw [← hs4.img]
    by_cases hx : subExtra ed0 q
    · exact hst6 q hx
    · exact hfr6 q hq (fun j hj hc => by rw [hsrcC j hj] at hc; omega) hx

end FatVerif.DirSim
