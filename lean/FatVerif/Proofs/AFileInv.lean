import FatVerif.Model.AFile
import FatVerif.Spec.ByteFile
import FatVerif.Proofs.AFileArith
import FatVerif.Proofs.AFileChain
/-!
The invariant of the file cursor machine, the abstraction function to `ByteFile`, and the position of the cursor
in the chain (`readCluster_eq`): on every offset — boundary or not — the cluster the next transfer uses is
`chain[offset / cs]`, because `current` is kept at `chain[(offset − 1) / cs]`.
-/
namespace FatVerif.Cursor

/-- What the allocator promises, in terms of a "cluster `c` is free in allocator state `s`" predicate:
    it hands out only free clusters, handing one out frees nothing else and un-frees it, and `release`
    frees nothing but what it is given. -/
structure AllocLaws {σ : Type} (A : Allocator σ) (isFree : σ → Nat → Prop) : Prop where
  alloc_free : ∀ {s c s'}, A.alloc s = some (c, s') → isFree s c
  alloc_frame : ∀ {s c s' d}, A.alloc s = some (c, s') → isFree s' d → isFree s d ∧ d ≠ c
  release_sub : ∀ {l s d}, isFree (A.release l s) d → isFree s d ∨ d ∈ l

/-- The invariant the code maintains. -/
structure AFileInv {σ : Type} (isFree : σ → Nat → Prop) (f : AFile) (s : σ) : Prop where
  /-- cluster size is positive -/
  cs_pos : 0 < f.cs
  /-- the chain is acyclic -/
  nodup : f.chain.Nodup
  /-- the handle's first cluster is the head of the chain (`none` iff the chain is empty) -/
  first : f.firstCluster = f.chain.head?
  /-- `⌈size / cs⌉ ≤ chain.length` -/
  cover : f.size ≤ f.chain.length * f.cs
  /-- "seeking beyond end of file is not allowed" -/
  off_le : f.offset ≤ f.size
  /-- sizes are `u32` -/
  size_le : f.size ≤ u32Max
  /-- `current_cluster` is the cluster of the byte before the cursor -/
  cur : f.current = if f.offset = 0 then none else f.chain[(f.offset - 1) / f.cs]?
  /-- the clusters of the chain are not free -/
  live : ∀ c ∈ f.chain, ¬ isFree s c

namespace AFile

/-- byte `p` of the file: cluster `p / cs` of the chain, offset `p % cs` in it -/
def byteAt (f : AFile) (p : Nat) : Nat :=
  f.data (f.chain.getD (p / f.cs) 0) (p % f.cs)

/-- the content: the clusters of the chain concatenated, clipped to `size` -/
def content (f : AFile) : List Nat :=
  (List.range f.size).map f.byteAt

/-- the abstraction function -/
def abs (f : AFile) : ByteFile :=
  { content := f.content, pos := f.offset }

@[simp] theorem content_length (f : AFile) : f.content.length = f.size := by simp [content]
@[simp] theorem abs_pos (f : AFile) : f.abs.pos = f.offset := rfl
@[simp] theorem abs_content (f : AFile) : f.abs.content = f.content := rfl
@[simp] theorem abs_remaining (f : AFile) : f.abs.remaining = f.size - f.offset := by
  simp [ByteFile.remaining]

end AFile

/-- a slice of a mapped range -/
theorem take_drop_map_range (g : Nat → Nat) (n p k : Nat) (h : p + k ≤ n) :
    (((List.range n).map g).drop p).take k = (List.range k).map fun j => g (p + j) := by
  apply List.ext_getElem
  · simp; omega
  · intro i h1 h2
    simp

theorem take_map_range (g : Nat → Nat) (n p : Nat) (h : p ≤ n) :
    ((List.range n).map g).take p = (List.range p).map g := by
  apply List.ext_getElem
  · simp; omega
  · intro i h1 h2
    simp

section
variable {σ : Type} {isFree : σ → Nat → Prop} {f : AFile} {s : σ}

theorem AFileInv.index_lt (h : AFileInv isFree f s) {p : Nat} (hp : p < f.size) : p / f.cs < f.chain.length :=
  div_lt_of_lt_mul' (Nat.lt_of_lt_of_le hp h.cover)

/-- the cluster the next transfer uses -/
theorem AFileInv.readCluster_eq (h : AFileInv isFree f s) : f.readCluster = f.chain[f.offset / f.cs]? := by
  have hcs := h.cs_pos
  have hdm := divmod_spec f.cs f.offset hcs
  unfold AFile.readCluster AFile.boundaryCluster
  by_cases hm : f.offset % f.cs = 0
  · simp only [hm, if_true]
    by_cases h0 : f.offset = 0
    · rw [h.cur]; simp [h0, h.first, List.head?_eq_getElem?]
    · have hpos : 0 < f.offset := Nat.pos_of_ne_zero h0
      have hq := pred_div_of_boundary hcs hpos hm
      have hlt : (f.offset - 1) / f.cs < f.chain.length :=
        h.index_lt (by have := h.off_le; omega)
      rw [h.cur]; simp only [h0, if_false]
      rw [List.getElem?_eq_getElem hlt]
      simp only
      rw [nextOf_of_getElem? f.chain _ _ h.nodup (List.getElem?_eq_getElem hlt), hq]
  · simp only [hm, if_false]
    have h0 : f.offset ≠ 0 := by intro e; rw [e] at hm; simp at hm
    rw [h.cur]; simp only [h0, if_false]
    rw [pred_div_of_inside hcs hm]

/-- no cluster for the cursor ⇒ the cursor is at the end of the file, on the boundary after the last cluster -/
theorem AFileInv.readCluster_none (h : AFileInv isFree f s) (hn : f.readCluster = none) :
    f.offset = f.size ∧ f.offset = f.chain.length * f.cs := by
  rw [h.readCluster_eq] at hn
  have hge : f.chain.length ≤ f.offset / f.cs := by simpa using hn
  have hdm := divmod_spec f.cs f.offset h.cs_pos
  have := mul_le_of_le (cs := f.cs) hge
  have := h.cover; have := h.off_le
  omega

end
end FatVerif.Cursor
