import FatVerif.Proofs.DirReadSim8
/-! Directory reads, part 9 (generic): the scan of `find_entry` over the library's entries = `DirAlias.scan` over the
    pure reader's entries, for any `DirSrc`; `find_entry(..)?`; the slots of a cluster-chain directory as a list. -/
namespace FatVerif.DirSim
open FatVerif.FileSim FatVerif.Fat

theorem toDirEntryS_name (src : Nat → Nat) (e : LfnEntry) (h : SlotOK e.sfn) :
    (toDirEntryS src e).data.name = Lfn.sfnName e.sfn := by
  simp only [toDirEntryS, DirEntryData.deserializeFile, take11_sfnName _ h.1]

theorem toDirEntryS_eqName (env : Env) (src : Nat → Nat) (e : LfnEntry) (h : SlotOK e.sfn) (name : String) :
    (toDirEntryS src e).eqName env name = DirSlots.matchesName env.upper e name.toList := by
  simp only [DirEntry.eqName, DirSlots.matchesName, toDirEntryS_name src e h]
  rfl

theorem toDirEntryS_isDir (src : Nat → Nat) (e : LfnEntry) (h : SlotOK e.sfn) :
    (toDirEntryS src e).isDir = Lfn.isDir e.sfn := by
  simp only [DirEntry.isDir, DirFileEntryData.isDir, toDirEntryS, DirEntryData.deserializeFile, DirEntryData.u8At,
    attrs_dir_table _ h.2, Lfn.isDir, Lfn.attrs, Lfn.byte]

/-- with a generator: lookup result and generator coincide with `DirAlias.scan` -/
theorem scanD_eq_scanS (env : Env) (src : Nat → Nat) (name : String) (isDir : Option Bool) :
    ∀ (es : List LfnEntry) (g : Names.Gen), (∀ e ∈ es, SlotOK e.sfn) →
      scanD env name isDir (es.map (toDirEntryS src)) (some g) =
        (((DirAlias.scan env.upper name.toList isDir es g).1).map (toDirEntryS src),
         some (DirAlias.scan env.upper name.toList isDir es g).2) := by
  intro es
  induction es with
  | nil => intro g _; rfl
  | cons e es ih =>
    intro g hok
    have he := hok e (List.mem_cons_self ..)
    simp only [List.map_cons, scanD, DirAlias.scan, toDirEntryS_eqName env src e he, toDirEntryS_isDir src e he,
      toDirEntryS_name src e he, Option.map]
    split
    · split <;> rfl
    · exact ih _ (fun e' he' => hok e' (List.mem_cons_of_mem _ he'))

/-- without a generator: the lookup result is that of `DirAlias.scan` with any generator -/
theorem scanD_none_eq_scanS (env : Env) (src : Nat → Nat) (name : String) (isDir : Option Bool) :
    ∀ (es : List LfnEntry) (g : Names.Gen), (∀ e ∈ es, SlotOK e.sfn) →
      scanD env name isDir (es.map (toDirEntryS src)) none =
        (((DirAlias.scan env.upper name.toList isDir es g).1).map (toDirEntryS src), none) := by
  intro es
  induction es with
  | nil => intro g _; rfl
  | cons e es ih =>
    intro g hok
    have he := hok e (List.mem_cons_self ..)
    simp only [List.map_cons, scanD, DirAlias.scan, toDirEntryS_eqName env src e he, toDirEntryS_isDir src e he,
      Option.map]
    split
    · split <;> rfl
    · exact ih _ (fun e' he' => hok e' (List.mem_cons_of_mem _ he'))

/-- every entry the pure reader finds in slots read from an image comes from such a slot -/
theorem srcEntries_slotOK (alloc sv : Bool) (img : Img) (src : Nat → Nat) (N : Nat) (e : LfnEntry)
    (h : e ∈ readDirEntries alloc sv (srcSlots img src N)) : SlotOK e.sfn := by
  have hm := readLoop_sfn_mem alloc sv _ _ _ _ e h
  simp only [srcSlots, List.mem_map] at hm
  obtain ⟨j, _, hj⟩ := hm
  rw [← hj]
  exact ⟨by rw [Img.read_length]; omega, by rw [Img.read_getD _ _ _ _ (by omega)]; exact Img.getByte_lt _ _⟩

section generic
variable {d : Dev} {S : Nat → DirStream} {N : Nat} {src room : Nat → Nat}

/-- **`find_entry(name, is_dir, Some(gen))`, generic** = `DirAlias.scan` over the entries of the pure reader: the
    lookup outcome AND the short-name generator as the scan leaves it -/
theorem DirSrc.findEntryG_scan (D : DirSrc d S N src room) (hfuel : N < dirFuel d.fs) (env : Env) (name : String)
    (isDir : Option Bool) (g : Names.Gen) (d1 : Dev) (hv : SameVol d d1) :
    Reads (findEntryG env (S 0) name isDir (some g)) d1
      (((DirAlias.scan env.upper name.toList isDir (readDirEntries d.fs.lfnAlloc true (srcSlots d.img src N)) g).1).map
          (toDirEntryS src),
       some (DirAlias.scan env.upper name.toList isDir (readDirEntries d.fs.lfnAlloc true (srcSlots d.img src N)) g).2) := by
  have := D.findEntryG_sim hfuel env name isDir (some g) d1 hv
  rw [scanD_eq_scanS env _ name isDir _ g (fun e he => srcEntries_slotOK _ _ _ _ _ e he)] at this
  exact this

theorem DirSrc.findEntryG_scan_none (D : DirSrc d S N src room) (hfuel : N < dirFuel d.fs) (env : Env) (name : String)
    (isDir : Option Bool) (g : Names.Gen) (d1 : Dev) (hv : SameVol d d1) :
    Reads (findEntryG env (S 0) name isDir none) d1
      (((DirAlias.scan env.upper name.toList isDir (readDirEntries d.fs.lfnAlloc true (srcSlots d.img src N)) g).1).map
          (toDirEntryS src), none) := by
  have := D.findEntryG_sim hfuel env name isDir none d1 hv
  rw [scanD_none_eq_scanS env _ name isDir _ g (fun e he => srcEntries_slotOK _ _ _ _ _ e he)] at this
  exact this

/-- **`find_entry(..)?`, generic** (the step of every path walk): succeeds with the entry the scan finds … -/
theorem DirSrc.findEntry_ok (D : DirSrc d S N src room) (hfuel : N < dirFuel d.fs) (env : Env) (name : String)
    (isDir : Option Bool) (g : Names.Gen) {e : LfnEntry}
    (hs : (DirAlias.scan env.upper name.toList isDir (readDirEntries d.fs.lfnAlloc true (srcSlots d.img src N)) g).1 = .ok e)
    (d1 : Dev) (hv : SameVol d d1) :
    Reads (findEntry env (S 0) name isDir) d1 (toDirEntryS src e) := by
  unfold findEntry
  have := D.findEntryG_scan_none hfuel env name isDir g d1 hv
  rw [hs] at this
  exact Reads.bind this (fun d2 _ => Reads.pure _ d2)

/-- … and fails with the scan's error (`NotFound`, or `InvalidInput` for the wrong kind) otherwise -/
theorem DirSrc.findEntry_error (D : DirSrc d S N src room) (hfuel : N < dirFuel d.fs) (env : Env) (name : String)
    (isDir : Option Bool) (g : Names.Gen) {err : Err}
    (hs : (DirAlias.scan env.upper name.toList isDir (readDirEntries d.fs.lfnAlloc true (srcSlots d.img src N)) g).1 = .error err)
    (d1 : Dev) (hv : SameVol d d1) :
    FailsV (findEntry env (S 0) name isDir) d1 err := by
  unfold findEntry
  have := D.findEntryG_scan_none hfuel env name isDir g d1 hv
  rw [hs] at this
  exact FailsV.bind_right this (fun d2 _ => ⟨d2, rfl, SameVol.refl d2⟩)

end generic

/-! ### the slots of a cluster-chain directory -/

/-- **`dirSlotsOf`** for a cluster chain: the 32-byte records of the clusters of the chain, in chain order -/
def chainSlots (fs : FsState) (img : Img) (chain : List Nat) : List (List Nat) :=
  chain.flatMap fun c => (List.range (fs.clusterSize / 32)).map fun j => img.read (clusterOff fs c + 32 * j) 32

theorem chainSrc_cons_lt (fs : FsState) (c : Nat) (t : List Nat) (x : Nat) (hx : x < fs.clusterSize) :
    chainSrc fs (c :: t) x = clusterOff fs c + x := by
  unfold chainSrc
  rw [Nat.div_eq_of_lt hx, Nat.mod_eq_of_lt hx]
  rfl

theorem chainSrc_cons_ge (fs : FsState) (c : Nat) (t : List Nat) (x : Nat) (hcs : 0 < fs.clusterSize) :
    chainSrc fs (c :: t) (fs.clusterSize + x) = chainSrc fs t x := by
  unfold chainSrc
  rw [Nat.add_div_left _ hcs, Nat.add_mod_left]
  rfl

theorem srcSlots_chain (fs : FsState) (img : Img) (hcs : 0 < fs.clusterSize) (h32 : fs.clusterSize % 32 = 0) :
    ∀ chain : List Nat, srcSlots img (chainSrc fs chain) (chain.length * (fs.clusterSize / 32)) = chainSlots fs img chain := by
  have hK : 32 * (fs.clusterSize / 32) = fs.clusterSize := by
    have := Nat.div_add_mod fs.clusterSize 32
    omega
  intro chain
  induction chain with
  | nil => simp [srcSlots, chainSlots]
  | cons c t ih =>
    unfold srcSlots chainSlots at *
    rw [List.length_cons, Nat.add_mul, Nat.one_mul, Nat.add_comm, List.range_add, List.map_append, List.flatMap_cons]
    congr 1
    · apply List.map_congr_left
      intro j hj
      have hj' : j < fs.clusterSize / 32 := List.mem_range.mp hj
      rw [chainSrc_cons_lt fs c t _ (by omega)]
    · rw [← ih, List.map_map]
      apply List.map_congr_left
      intro j _
      simp only [Function.comp]
      rw [Nat.mul_add, hK, chainSrc_cons_ge fs c t _ hcs]

end FatVerif.DirSim
