import FatVerif.Proofs.IoSafeModel3
import FatVerif.Model.Fs
/-! C09, structural descent, part 4: `Fs.lean`. -/
namespace FatVerif

theorem readBootSector_ioSafe : IoSafe readBootSector := by
  unfold readBootSector; iosafe [readChunks_ioSafe, devStrm_safe]

theorem readFsInfoSector_ioSafe : IoSafe readFsInfoSector := by
  unfold readFsInfoSector; iosafe [readU32_ioSafe, readExact_ioSafe, devStrm_safe]

theorem mount_ioSafe (strict accDate lfnAlloc unicode : Bool) : IoSafe (mount strict accDate lfnAlloc unicode) := by
  unfold mount; iosafe [readBootSector_ioSafe, liftE_ioSafe, readFsInfoSector_ioSafe]

theorem flushFsInfo_ioSafe : IoSafe flushFsInfo := by
  unfold flushFsInfo; iosafe [writeChunks_ioSafe, devStrm_safe]

theorem unmountInternal_ioSafe : IoSafe unmountInternal := by
  unfold unmountInternal; iosafe [flushFsInfo_ioSafe, setDirtyFlag_ioSafe]

theorem flushFsInfo_nonFatal : NonFatal flushFsInfo := by
  unfold flushFsInfo
  refine NonFatal.bind (NonFatal.op _) (fun fs => ?_)
  split
  · refine NonFatal.bind (NonFatal.op _) (fun _ => NonFatal.bind (writeChunks_dev_nonFatal _ _) (fun _ => ?_))
    exact NonFatal.bind (NonFatal.op _) (fun _ => NonFatal.op _)
  · exact NonFatal.pure _

theorem unmountInternal_nonFatal : NonFatal unmountInternal :=
  NonFatal.bind flushFsInfo_nonFatal (fun _ => setDirtyFlag_nonFatal _)

theorem dropFs_ioSafe : IoSafe dropFs := inDrop_ioSafe unmountInternal_nonFatal

theorem unmount_ioSafe : IoSafe unmount :=
  IoSafe.finallyDrop _ _ unmountInternal_ioSafe (fun _ => unmountInternal_nonFatal)

theorem stats_ioSafe : IoSafe stats := by
  unfold stats; iosafe [Table.countFree_ioSafe, DiskSlice.strm_safe]

theorem readStatusFlags_ioSafe : IoSafe readStatusFlags := by
  unfold readStatusFlags; iosafe [Table.readFatFlags_ioSafe, DiskSlice.strm_safe]

theorem readVolumeLabelFromRootDir_ioSafe : IoSafe readVolumeLabelFromRootDir := by
  unfold readVolumeLabelFromRootDir; iosafe [thenDrop_ioSafe, findVolumeEntry_ioSafe]

theorem writeZerosUntilEndOfSector_ioSafe (bps) : IoSafe (writeZerosUntilEndOfSector bps) := by
  unfold writeZerosUntilEndOfSector; iosafe [writeZeros_ioSafe, devStrm_safe]

theorem writeBootSector_ioSafe (boot) : IoSafe (writeBootSector boot) := by
  unfold writeBootSector; iosafe [writeChunks_ioSafe, devStrm_safe]

theorem formatVolume_ioSafe (o) : IoSafe (formatVolume o) := by
  unfold formatVolume
  iosafe [liftE_ioSafe, writeBootSector_ioSafe, writeZerosUntilEndOfSector_ioSafe, writeZeros_ioSafe, devStrm_safe,
    Table.formatFat_ioSafe, Table.allocCluster_ioSafe, DiskSlice.strm_safe, writeChunks_ioSafe]

end FatVerif
