import FatVerif.Proofs.FatImgRead
/-! The read-only table programs over a `DiskSlice` (`get`, `find_free`, `count_free`) compute the pure byte-level
    functions of `Model/FatAlgo.lean` on the window's bytes. -/
namespace FatVerif
open FatVerif.Fat

/-! ### which errors a program can end with -/

/-- `p` never ends with the error `e0` -/
def NeverErr {α} (e0 : Err) (p : Prog α) : Prop := ∀ d r d', run p d = (r, d') → r ≠ .error e0

theorem stepOp_err_io (o : Op) (d : Dev) {e d'} (hr : stepOp o d = (.error e, d')) : ∃ k, e = .io k := by
  have dc : ∀ {β} (k : CallKind) (d0 : Dev) (act : Dev → Except Err β × Dev),
      (∀ d1 e d2, act d1 = (.error e, d2) → ∃ k, e = .io k) →
      ∀ {e d'}, devCall k d0 act = (.error e, d') → ∃ k, e = .io k := by
    intro β k d0 act hact e d' h
    unfold devCall devCallCore at h
    split at h
    · cases h; exact ⟨_, rfl⟩
    · exact hact _ _ _ h
  cases o with
  | read n => simp only [stepOp] at hr; exact dc _ _ _ (by intro d1 e d2 h; cases h) hr
  | write bs => simp only [stepOp] at hr; exact dc _ _ _ (by intro d1 e d2 h; cases h) hr
  | seek p =>
    simp only [stepOp] at hr
    refine dc _ _ _ ?_ hr
    intro d1 e d2 h
    cases p with
    | start n => cases h
    | cur x => simp only at h; split at h <;> cases h; exact ⟨_, rfl⟩
    | fromEnd x => simp only at h; split at h <;> cases h; exact ⟨_, rfl⟩
  | flush => simp only [stepOp] at hr; exact dc _ _ _ (by intro d1 e d2 h; cases h) hr
  | now => simp only [stepOp] at hr; cases hr
  | today => simp only [stepOp] at hr; cases hr
  | getFs => simp only [stepOp] at hr; cases hr
  | setFs fs => simp only [stepOp] at hr; cases hr

theorem NeverErr.pure {α} (e0 : Err) (a : α) : NeverErr e0 (Prog.pure a) := by
  intro d r d' h; simp only [run] at h; cases h; intro e; cases e

theorem NeverErr.fail {α} {e0 e : Err} (h : e ≠ e0) : NeverErr e0 (Prog.fail (α := α) e) := by
  intro d r d' hr; simp only [run] at hr; cases hr; intro x; cases x; exact h rfl

theorem NeverErr.op (o : Op) : NeverErr .noSpace (Prog.op o) := by
  intro d r d' hr
  simp only [run] at hr
  intro e; subst e
  obtain ⟨k, hk⟩ := stepOp_err_io o d hr
  cases hk

theorem NeverErr.bind {α β} {e0 : Err} {p : Prog β} {k : β → Prog α} (hp : NeverErr e0 p) (hk : ∀ b, NeverErr e0 (k b)) :
    NeverErr e0 (Prog.bind p k) := by
  intro d r d' hr
  rcases run_bind_cases hr with ⟨b, d1, h1, h2⟩ | ⟨e, h1, he⟩
  · exact hk b _ _ _ h2
  · rw [he]; intro x; cases x; exact hp _ _ _ h1 rfl

theorem inner_seek_never (s : DiskSlice) (p : SeekFrom) : NeverErr .noSpace (s.inner.seek () p) := by
  unfold DiskSlice.inner
  split <;> exact NeverErr.bind (NeverErr.op _) (fun _ => NeverErr.pure _ _)

theorem inner_read_never (s : DiskSlice) (n : Nat) : NeverErr .noSpace (s.inner.read () n) := by
  unfold DiskSlice.inner
  split <;> exact NeverErr.bind (NeverErr.op _) (fun _ => NeverErr.pure _ _)

theorem slice_read_never (s : DiskSlice) (n : Nat) : NeverErr .noSpace (DiskSlice.strm.read s n) := by
  show NeverErr .noSpace (s.read n)
  unfold DiskSlice.read
  exact NeverErr.bind (inner_seek_never s _) (fun _ => NeverErr.bind (inner_read_never s _) (fun _ => NeverErr.pure _ _))

theorem slice_seek_never (s : DiskSlice) (p : SeekFrom) : NeverErr .noSpace (DiskSlice.strm.seek s p) := by
  show NeverErr .noSpace (s.seek p)
  unfold DiskSlice.seek
  dsimp only
  split
  · split
    · exact NeverErr.fail (by intro e; cases e)
    · exact NeverErr.pure _ _
  · exact NeverErr.fail (by intro e; cases e)

theorem readExactLoop_never : ∀ fuel (s : DiskSlice) n acc,
    NeverErr .noSpace (readExactLoop DiskSlice.strm fuel s n acc) := by
  intro fuel
  induction fuel with
  | zero => intro s n acc; unfold readExactLoop; exact NeverErr.fail (by intro e; cases e)
  | succ k ih =>
    intro s n acc
    unfold readExactLoop
    split
    · exact NeverErr.pure _ _
    · refine NeverErr.bind (slice_read_never s n) ?_
      rintro ⟨got, s'⟩
      dsimp only
      split
      · exact NeverErr.fail (by intro e; cases e)
      · exact ih _ _ _

theorem readU8_never (s : DiskSlice) : NeverErr .noSpace (readU8 DiskSlice.strm s) :=
  NeverErr.bind (readExactLoop_never _ _ _ _) (fun _ => NeverErr.pure _ _)
theorem readU16_never (s : DiskSlice) : NeverErr .noSpace (readU16 DiskSlice.strm s) :=
  NeverErr.bind (readExactLoop_never _ _ _ _) (fun _ => NeverErr.pure _ _)
theorem readU32_never (s : DiskSlice) : NeverErr .noSpace (readU32 DiskSlice.strm s) :=
  NeverErr.bind (readExactLoop_never _ _ _ _) (fun _ => NeverErr.pure _ _)

section window
variable {s0 : DiskSlice}

local notation "F[" d "]" => fatBytes s0.beginOff s0.size (Dev.img d)

/-! ### get_raw / get -/

theorem getRaw_img (ft : FatType) {s : DiskSlice} (hs : SliceInv s0 s) (c : Nat) (d : Dev) (hw : d.img.WF)
    (hdev : s0.beginOff + s0.size ≤ d.img.size) (hZ : s0.size < u32Lim) {v : Nat} {s' : DiskSlice} {d' : Dev}
    (hr : run (Table.getRaw DiskSlice.strm ft s c) d = (.ok (v, s'), d')) :
    Fat.getRaw ft F[d] c = .ok v ∧ SliceInv s0 s' ∧ SameBytes d d' := by
  have hsz := fatBytes_size s0.beginOff s0.size d.img
  cases ft with
  | fat12 =>
    unfold Table.getRaw at hr
    dsimp only at hr
    rcases run_bind_cases hr with ⟨⟨t, s1⟩, d1, h1, h2⟩ | ⟨e, _, he⟩
    · obtain ⟨hd1, hs1, hn, hi1⟩ := slice_seek_at hs _ d h1
      subst hd1
      dsimp only at h2
      rcases run_bind_cases h2 with ⟨⟨packed, s2⟩, d2, h3, h4⟩ | ⟨e, _, he⟩
      · obtain ⟨a, b, _, e, f⟩ := slice_readU16_at hi1 d1 hw hdev h3
        have h4' : run (Prog.pure ((if c % 2 = 0 then packed % 4096 else packed / 16), s2)) d2 = (.ok (v, s'), d') := h4
        simp only [run] at h4'; cases h4'
        rw [hs1] at a b
        dsimp only at a b
        refine ⟨?_, e, f⟩
        simp only [Fat.getRaw, getRaw12, hsz]
        rw [if_neg (by omega), if_neg (by omega), b]; rfl
      · cases he
    · cases he
  | fat16 =>
    unfold Table.getRaw at hr
    dsimp only at hr
    rcases run_bind_cases hr with ⟨⟨t, s1⟩, d1, h1, h2⟩ | ⟨e, _, he⟩
    · obtain ⟨hd1, hs1, hn, hi1⟩ := slice_seek_at hs _ d h1
      subst hd1
      dsimp only at h2
      obtain ⟨a, b, _, e, f⟩ := slice_readU16_at hi1 d1 hw hdev h2
      rw [hs1] at a b
      dsimp only at a b
      refine ⟨?_, e, f⟩
      simp only [Fat.getRaw, getRaw16, hsz]
      rw [if_neg (by omega), if_neg (by omega), b]
    · cases he
  | fat32 =>
    unfold Table.getRaw at hr
    dsimp only at hr
    rcases run_bind_cases hr with ⟨⟨t, s1⟩, d1, h1, h2⟩ | ⟨e, _, he⟩
    · obtain ⟨hd1, hs1, hn, hi1⟩ := slice_seek_at hs _ d h1
      subst hd1
      dsimp only at h2
      obtain ⟨a, b, _, e, f⟩ := slice_readU32_at hi1 d1 hw hdev h2
      rw [hs1] at a b
      dsimp only at a b
      refine ⟨?_, e, f⟩
      simp only [Fat.getRaw, getRaw32, hsz]
      rw [if_neg (by omega), if_neg (by omega), b]
    · cases he

/-- **`Table.get` at image level**: a successful read of entry `c` returns `Fat.get` of the window's bytes, i.e. the
    decoded entry `view c` (= `imgFatView … c`), and changes no byte and no mounted state -/
theorem get_img (ft : FatType) {s : DiskSlice} (hs : SliceInv s0 s) (c : Nat) (d : Dev) (hw : d.img.WF)
    (hdev : s0.beginOff + s0.size ≤ d.img.size) (hZ : s0.size < u32Lim) {v : FatValue} {s' : DiskSlice} {d' : Dev}
    (hr : run (Table.get DiskSlice.strm ft s c) d = (.ok (v, s'), d')) :
    Fat.get ft F[d] c = .ok v ∧ view ft F[d] c = v ∧ SliceInv s0 s' ∧ SameBytes d d' := by
  unfold Table.get at hr
  rcases run_bind_cases hr with ⟨⟨raw, s1⟩, d1, h1, h2⟩ | ⟨e, _, he⟩
  · obtain ⟨a, b, c'⟩ := getRaw_img ft hs c d hw hdev hZ h1
    have h2' : run (Prog.pure (Table.classify ft c raw, s1)) d1 = (.ok (v, s'), d') := h2
    simp only [run] at h2'; cases h2'
    have hg : Fat.get ft F[d] c = .ok (Table.classify ft c raw) := by
      unfold Fat.get; rw [a, tableClassify_eq]
    exact ⟨hg, by unfold view; rw [hg], b, c'⟩
  · cases he

end window

section window
variable {s0 : DiskSlice}
local notation "F[" d "]" => fatBytes s0.beginOff s0.size (Dev.img d)

/-! ### count_free -/

theorem countFreeLoop16_img : ∀ (fuel : Nat) (s : DiskSlice) (c endC count : Nat) (d : Dev) (n : Nat)
    (s' : DiskSlice) (d' : Dev), SliceInv s0 s → s.offset = c * 2 → d.img.WF → s0.beginOff + s0.size ≤ d.img.size →
    run (Table.countFreeLoop DiskSlice.strm .fat16 fuel s c endC count) d = (.ok (n, s'), d') →
    countFreeLoop16 F[d] (endC - c) c count = .ok n := by
  intro fuel
  induction fuel with
  | zero => intro s c endC count d n s' d' _ _ _ _ hr; unfold Table.countFreeLoop at hr; simp only [run] at hr; cases hr
  | succ k ih =>
    intro s c endC count d n s' d' hs hoff hw hdev hr
    unfold Table.countFreeLoop at hr
    split at hr
    · rename_i hc
      simp only [if_true] at hr
      rcases run_bind_cases hr with ⟨⟨v, s1⟩, d1, h1, h2⟩ | ⟨e, _, he⟩
      · obtain ⟨a, b, cs, e, f⟩ := slice_readU16_at hs d hw hdev h1
        dsimp only at h2
        have hrec := ih s1 (c + 1) endC _ d1 n s' d' e (by rw [cs]; show s.offset + 2 = _; omega) f.2.2.1
          (by rw [f.2.2.2]; exact hdev) h2
        rw [f.bytes] at hrec
        obtain ⟨m, hm⟩ : ∃ m, endC - c = m + 1 := ⟨endC - c - 1, by omega⟩
        rw [hm]
        have hm' : endC - (c + 1) = m := by omega
        rw [hm'] at hrec
        simp only [countFreeLoop16, fatBytes_size]
        rw [if_neg (by omega), ← hoff, ← b]
        exact hrec
      · cases he
    · rename_i hc
      have hr' : run (Prog.pure (count, s)) d = (.ok (n, s'), d') := hr
      simp only [run] at hr'; cases hr'
      rw [show endC - c = 0 by omega]; rfl

theorem countFreeLoop32_img : ∀ (fuel : Nat) (s : DiskSlice) (c endC count : Nat) (d : Dev) (n : Nat)
    (s' : DiskSlice) (d' : Dev), SliceInv s0 s → s.offset = c * 4 → d.img.WF → s0.beginOff + s0.size ≤ d.img.size →
    run (Table.countFreeLoop DiskSlice.strm .fat32 fuel s c endC count) d = (.ok (n, s'), d') →
    countFreeLoop32 F[d] (endC - c) c count = .ok n := by
  intro fuel
  induction fuel with
  | zero => intro s c endC count d n s' d' _ _ _ _ hr; unfold Table.countFreeLoop at hr; simp only [run] at hr; cases hr
  | succ k ih =>
    intro s c endC count d n s' d' hs hoff hw hdev hr
    unfold Table.countFreeLoop at hr
    split at hr
    · rename_i hc
      simp only [reduceCtorEq, if_false] at hr
      rcases run_bind_cases hr with ⟨⟨v, s1⟩, d1, h1, h2⟩ | ⟨e, _, he⟩
      · rcases run_bind_cases h1 with ⟨⟨r, s2⟩, d2, h3, h4⟩ | ⟨e, _, he⟩
        · obtain ⟨a, b, cs, e, f⟩ := slice_readU32_at hs d hw hdev h3
          have h4' : run (Prog.pure (r % 0x10000000, s2)) d2 = (.ok (v, s1), d1) := h4
          simp only [run] at h4'; cases h4'
          dsimp only at h2
          have hrec := ih s1 (c + 1) endC _ d1 n s' d' e (by rw [cs]; show s.offset + 4 = _; omega) f.2.2.1
            (by rw [f.2.2.2]; exact hdev) h2
          rw [f.bytes] at hrec
          obtain ⟨m, hm⟩ : ∃ m, endC - c = m + 1 := ⟨endC - c - 1, by omega⟩
          rw [hm]
          have hm' : endC - (c + 1) = m := by omega
          rw [hm'] at hrec
          simp only [countFreeLoop32, fatBytes_size]
          rw [if_neg (by omega), ← hoff, ← b]
          exact hrec
        · cases he
      · cases he
    · rename_i hc
      have hr' : run (Prog.pure (count, s)) d = (.ok (n, s'), d') := hr
      simp only [run] at hr'; cases hr'
      rw [show endC - c = 0 by omega]; rfl

theorem or_eq_zero_iff' (a b : Nat) : a ||| b = 0 ↔ a = 0 ∧ b = 0 := by
  constructor
  · intro h
    constructor
    · apply Nat.eq_of_testBit_eq; intro i
      have := congrArg (fun x => Nat.testBit x i) h
      simp only [Nat.testBit_or, Nat.zero_testBit, Bool.or_eq_false_iff] at this
      simp [this.1]
    · apply Nat.eq_of_testBit_eq; intro i
      have := congrArg (fun x => Nat.testBit x i) h
      simp only [Nat.testBit_or, Nat.zero_testBit, Bool.or_eq_false_iff] at this
      simp [this.2]
  · rintro ⟨rfl, rfl⟩; rfl

theorem countFree12Loop_img : ∀ (fuel : Nat) (s : DiskSlice) (c endC prev count : Nat) (d : Dev) (n : Nat)
    (s' : DiskSlice) (d' : Dev), SliceInv s0 s → d.img.WF → s0.beginOff + s0.size ≤ d.img.size →
    run (Table.countFree12Loop DiskSlice.strm fuel s c endC prev count) d = (.ok (n, s'), d') →
    countFreeLoop12 F[d] (endC - c) c s.offset prev count = .ok n := by
  intro fuel
  induction fuel with
  | zero => intro s c endC prev count d n s' d' _ _ _ hr; unfold Table.countFree12Loop at hr; simp only [run] at hr; cases hr
  | succ k ih =>
    intro s c endC prev count d n s' d' hs hw hdev hr
    unfold Table.countFree12Loop at hr
    split at hr
    · rename_i hc
      obtain ⟨m, hm⟩ : ∃ m, endC - c = m + 1 := ⟨endC - c - 1, by omega⟩
      have hm' : endC - (c + 1) = m := by omega
      rcases run_bind_cases hr with ⟨⟨packed, s1⟩, d1, h1, h2⟩ | ⟨e, _, he⟩
      · dsimp only at h2
        by_cases hp : c % 2 = 0
        · rw [if_pos hp] at h1
          obtain ⟨a, b, cs, e, f⟩ := slice_readU16_at hs d hw hdev h1
          have hrec := ih s1 (c + 1) endC _ _ d1 n s' d' e f.2.2.1 (by rw [f.2.2.2]; exact hdev) h2
          rw [f.bytes, hm', cs] at hrec
          rw [hm]
          simp only [countFreeLoop12, fatBytes_size]
          rw [if_pos hp, if_neg (by omega), ← b]
          simp only [if_pos hp] at hrec
          exact hrec
        · rw [if_neg hp] at h1
          obtain ⟨a, b, cs, e, f⟩ := slice_readU8_at hs d hw hdev h1
          have hrec := ih s1 (c + 1) endC _ _ d1 n s' d' e f.2.2.1 (by rw [f.2.2.2]; exact hdev) h2
          rw [f.bytes, hm', cs] at hrec
          rw [hm]
          simp only [countFreeLoop12, fatBytes_size]
          rw [if_neg hp, if_neg (by omega), ← b]
          simp only [if_neg hp] at hrec
          have hlt : packed < 256 := by rw [b]; exact wf_fatBytes _ _ _ _
          have hz : ((packed * 256 % 65536 ||| prev / 4096) = 0) ↔ (packed * 256 + prev / 4096 = 0) := by
            rw [or_eq_zero_iff']; omega
          by_cases h0 : packed * 256 + prev / 4096 = 0
          · rw [if_pos h0]; rw [if_pos (hz.mpr h0)] at hrec; exact hrec
          · rw [if_neg h0]; rw [if_neg (fun x => h0 (hz.mp x))] at hrec; exact hrec
      · cases he
    · rename_i hc
      have hr' : run (Prog.pure (count, s)) d = (.ok (n, s'), d') := hr
      simp only [run] at hr'; cases hr'
      rw [show endC - c = 0 by omega]; rfl

/-- **`Table.countFree` at image level**: a successful `count_free_clusters` over the FAT slice returns what the pure
    byte-level `Fat.countFree` computes on the window's bytes, and changes nothing -/
theorem countFree_img (ft : FatType) {s : DiskSlice} (hs : SliceInv s0 s) (total : Nat) (d : Dev) (hw : d.img.WF)
    (hdev : s0.beginOff + s0.size ≤ d.img.size) (htot : total + 2 < u32Lim) {n : Nat} {s' : DiskSlice} {d' : Dev}
    (hr : run (Table.countFree DiskSlice.strm ft s total) d = (.ok (n, s'), d')) :
    Fat.countFree ft F[d] total = .ok n ∧ SameBytes d d' := by
  refine ⟨?_, quiet_sameBytes (Table.countFree_quiet DiskSlice.strm DiskSlice.strm_quiet ft s total) hw hr⟩
  unfold Fat.countFree
  rw [if_neg (by omega)]
  cases ft with
  | fat12 =>
    unfold Table.countFree at hr
    dsimp only at hr
    rcases run_bind_cases hr with ⟨⟨t, s1⟩, d1, h1, h2⟩ | ⟨e, _, he⟩
    · obtain ⟨hd1, hs1, _, hi1⟩ := slice_seek_at hs _ d h1
      subst hd1
      dsimp only at h2
      have := countFree12Loop_img _ s1 2 (total + 2) 0 0 d1 n s' d' hi1 hw hdev h2
      rw [hs1] at this
      simpa using this
    · cases he
  | fat16 =>
    unfold Table.countFree at hr
    dsimp only at hr
    rcases run_bind_cases hr with ⟨⟨t, s1⟩, d1, h1, h2⟩ | ⟨e, _, he⟩
    · obtain ⟨hd1, hs1, _, hi1⟩ := slice_seek_at hs _ d h1
      subst hd1
      dsimp only at h2
      have := countFreeLoop16_img _ s1 2 (total + 2) 0 d1 n s' d' hi1 (by rw [hs1]) hw hdev h2
      simpa using this
    · cases he
  | fat32 =>
    unfold Table.countFree at hr
    dsimp only at hr
    rcases run_bind_cases hr with ⟨⟨t, s1⟩, d1, h1, h2⟩ | ⟨e, _, he⟩
    · obtain ⟨hd1, hs1, _, hi1⟩ := slice_seek_at hs _ d h1
      subst hd1
      dsimp only at h2
      have := countFreeLoop32_img _ s1 2 (total + 2) 0 d1 n s' d' hi1 (by rw [hs1]) hw hdev h2
      simpa using this
    · cases he

end window

section window
variable {s0 : DiskSlice}
local notation "F[" d "]" => fatBytes s0.beginOff s0.size (Dev.img d)

/-! ### find_free -/

theorem findFreeLoop16_img : ∀ (fuel : Nat) (s : DiskSlice) (c endC : Nat) (d : Dev) (r : Except Err (Nat × DiskSlice))
    (d' : Dev), SliceInv s0 s → s.offset = c * 2 → d.img.WF → s0.beginOff + s0.size ≤ d.img.size →
    run (Table.findFreeLoop DiskSlice.strm .fat16 fuel s c endC) d = (r, d') →
    (∀ v s', r = .ok (v, s') → findFreeLoop16 F[d] (endC - c) c = .ok v ∧ SliceInv s0 s') ∧
    (r = .error .noSpace → findFreeLoop16 F[d] (endC - c) c = .error .noSpace) := by
  intro fuel
  induction fuel with
  | zero =>
    intro s c endC d r d' _ _ _ _ hr
    unfold Table.findFreeLoop at hr; simp only [run] at hr; cases hr
    exact ⟨fun _ _ h => (by cases h), fun h => (by cases h)⟩
  | succ k ih =>
    intro s c endC d r d' hs hoff hw hdev hr
    unfold Table.findFreeLoop at hr
    split at hr
    · rename_i hc
      obtain ⟨m, hm⟩ : ∃ m, endC - c = m + 1 := ⟨endC - c - 1, by omega⟩
      have hm' : endC - (c + 1) = m := by omega
      try simp only [↓reduceIte] at hr
      rcases run_bind_cases hr with ⟨⟨v, s1⟩, d1, h1, h2⟩ | ⟨e, h1, he⟩
      · obtain ⟨a, b, cs, e, f⟩ := slice_readU16_at hs d hw hdev h1
        dsimp only at h2
        rw [hm]
        simp only [findFreeLoop16, fatBytes_size]
        rw [if_neg (by omega), ← hoff, ← b]
        split at h2
        · rename_i hv
          have h2' : run (Prog.pure (c, s1)) d1 = (r, d') := h2
          simp only [run] at h2'; cases h2'
          rw [if_pos hv]
          exact ⟨fun _ _ h => (by cases h; exact ⟨rfl, e⟩), fun h => (by cases h)⟩
        · rename_i hv
          rw [if_neg hv]
          have hrec := ih s1 (c + 1) endC d1 r d' e (by rw [cs]; show s.offset + 2 = _; omega) f.2.2.1
            (by rw [f.2.2.2]; exact hdev) h2
          rw [f.bytes, hm'] at hrec
          exact hrec
      · subst he
        exact ⟨fun _ _ h => (by cases h), fun h => (by cases h; exact absurd rfl (readU16_never s _ _ _ h1))⟩
    · rename_i hc
      simp only [run] at hr; cases hr
      rw [show endC - c = 0 by omega]
      exact ⟨fun _ _ h => (by cases h), fun _ => rfl⟩

theorem findFreeLoop32_img : ∀ (fuel : Nat) (s : DiskSlice) (c endC : Nat) (d : Dev) (r : Except Err (Nat × DiskSlice))
    (d' : Dev), SliceInv s0 s → s.offset = c * 4 → d.img.WF → s0.beginOff + s0.size ≤ d.img.size →
    run (Table.findFreeLoop DiskSlice.strm .fat32 fuel s c endC) d = (r, d') →
    (∀ v s', r = .ok (v, s') → findFreeLoop32 F[d] (endC - c) c = .ok v ∧ SliceInv s0 s') ∧
    (r = .error .noSpace → findFreeLoop32 F[d] (endC - c) c = .error .noSpace) := by
  intro fuel
  induction fuel with
  | zero =>
    intro s c endC d r d' _ _ _ _ hr
    unfold Table.findFreeLoop at hr; simp only [run] at hr; cases hr
    exact ⟨fun _ _ h => (by cases h), fun h => (by cases h)⟩
  | succ k ih =>
    intro s c endC d r d' hs hoff hw hdev hr
    unfold Table.findFreeLoop at hr
    split at hr
    · rename_i hc
      obtain ⟨m, hm⟩ : ∃ m, endC - c = m + 1 := ⟨endC - c - 1, by omega⟩
      have hm' : endC - (c + 1) = m := by omega
      simp only [reduceCtorEq, if_false] at hr
      rcases run_bind_cases hr with ⟨⟨v, s1⟩, d1, h1, h2⟩ | ⟨e, h1, he⟩
      · rcases run_bind_cases h1 with ⟨⟨raw, s2⟩, d2, h3, h4⟩ | ⟨e, _, he⟩
        · obtain ⟨a, b, cs, e, f⟩ := slice_readU32_at hs d hw hdev h3
          have h4' : run (Prog.pure (raw % 0x10000000, s2)) d2 = (.ok (v, s1), d1) := h4
          simp only [run] at h4'; cases h4'
          dsimp only at h2
          rw [hm]
          simp only [findFreeLoop32, fatBytes_size]
          rw [if_neg (by omega), ← hoff, ← b]
          split at h2
          · rename_i hv
            have h2' : run (Prog.pure (c, s1)) d1 = (r, d') := h2
            simp only [run] at h2'; cases h2'
            rw [if_pos hv]
            exact ⟨fun _ _ h => (by cases h; exact ⟨rfl, e⟩), fun h => (by cases h)⟩
          · rename_i hv
            rw [if_neg hv]
            have hrec := ih s1 (c + 1) endC d1 r d' e (by rw [cs]; show s.offset + 4 = _; omega) f.2.2.1
              (by rw [f.2.2.2]; exact hdev) h2
            rw [f.bytes, hm'] at hrec
            exact hrec
        · cases he
      · subst he
        refine ⟨fun _ _ h => (by cases h), fun h => ?_⟩
        cases h
        have hn : NeverErr .noSpace (do
            let (r, s) ← readU32 DiskSlice.strm s
            (pure (r % 0x10000000, s) : Prog (Nat × DiskSlice))) :=
          NeverErr.bind (readU32_never s) (fun _ => NeverErr.pure _ _)
        exact absurd rfl (hn _ _ _ h1)
    · rename_i hc
      simp only [run] at hr; cases hr
      rw [show endC - c = 0 by omega]
      exact ⟨fun _ _ h => (by cases h), fun _ => rfl⟩

theorem or_shift8 (a b : Nat) (ha : a < 256) : a ||| b * 256 = a + 256 * b := by
  have := Nat.two_pow_add_eq_or_of_lt (i := 8) (b := a) (by simpa using ha) b
  rw [show (2:Nat) ^ 8 = 256 from rfl] at this
  rw [Nat.or_comm, Nat.mul_comm b 256, ← this]; omega

theorem findFree12Loop_img : ∀ (fuel : Nat) (s : DiskSlice) (c endC packed : Nat) (d : Dev)
    (r : Except Err (Nat × DiskSlice)) (d' : Dev) (k : Nat), SliceInv s0 s → packed < 65536 →
    s0.size - s.offset + 1 ≤ k → d.img.WF → s0.beginOff + s0.size ≤ d.img.size →
    run (Table.findFree12Loop DiskSlice.strm fuel s c endC packed) d = (r, d') →
    (∀ v s', r = .ok (v, s') → findFreeLoop12 F[d] endC k c packed s.offset = .ok v ∧ SliceInv s0 s') ∧
    (r = .error .noSpace → findFreeLoop12 F[d] endC k c packed s.offset = .error .noSpace) := by
  intro fuel
  induction fuel with
  | zero =>
    intro s c endC packed d r d' k _ _ _ _ _ hr
    unfold Table.findFree12Loop at hr; simp only [run] at hr; cases hr
    exact ⟨fun _ _ h => (by cases h), fun h => (by cases h)⟩
  | succ fu ih =>
    intro s c endC packed d r d' k hs hp hk hw hdev hr
    obtain ⟨k, rfl⟩ : ∃ k', k = k' + 1 := ⟨k - 1, by omega⟩
    unfold Table.findFree12Loop at hr
    dsimp only at hr
    simp only [findFreeLoop12, val12, fatBytes_size]
    by_cases hv : (if c % 2 = 0 then packed % 4096 else packed / 16) = 0
    · rw [if_pos hv] at hr ⊢
      have hr' : run (Prog.pure (c, s)) d = (r, d') := hr
      simp only [run] at hr'; cases hr'
      exact ⟨fun _ _ h => (by cases h; exact ⟨rfl, hs⟩), fun h => (by cases h)⟩
    · rw [if_neg hv] at hr ⊢
      by_cases hend : c + 1 = endC
      · rw [if_pos hend] at hr ⊢
        simp only [run] at hr; cases hr
        exact ⟨fun _ _ h => (by cases h), fun _ => rfl⟩
      · rw [if_neg hend] at hr ⊢
        by_cases hpar : (c + 1) % 2 = 0
        · rw [if_pos hpar] at hr ⊢
          rcases run_bind_cases hr with ⟨⟨p, s1⟩, d1, h1, h2⟩ | ⟨e, h1, he⟩
          · obtain ⟨a, b, cs, e, f⟩ := slice_readU16_at hs d hw hdev h1
            rw [if_neg (by omega), ← b]
            have hrec := ih s1 (c + 1) endC p d1 r d' k e (by rw [b]; exact rd16_lt _ (wf_fatBytes _ _ _) _)
              (by rw [cs]; show s0.size - (s.offset + 2) + 1 ≤ k; omega) f.2.2.1 (by rw [f.2.2.2]; exact hdev) h2
            rw [f.bytes, cs] at hrec
            exact hrec
          · subst he
            exact ⟨fun _ _ h => (by cases h), fun h => (by cases h; exact absurd rfl (readU16_never s _ _ _ h1))⟩
        · rw [if_neg hpar] at hr ⊢
          rcases run_bind_cases hr with ⟨⟨b8, s1⟩, d1, h1, h2⟩ | ⟨e, h1, he⟩
          · obtain ⟨a, b, cs, e, f⟩ := slice_readU8_at hs d hw hdev h1
            rw [if_neg (by omega), ← b]
            have hb8 : b8 < 256 := by rw [b]; exact wf_fatBytes _ _ _ _
            have hor : packed / 256 ||| b8 * 256 = packed / 256 + 256 * b8 := or_shift8 _ _ (by omega)
            dsimp only at h2
            rw [hor] at h2
            have hrec := ih s1 (c + 1) endC _ d1 r d' k e (by omega)
              (by rw [cs]; show s0.size - (s.offset + 1) + 1 ≤ k; omega) f.2.2.1 (by rw [f.2.2.2]; exact hdev) h2
            rw [f.bytes, cs] at hrec
            exact hrec
          · subst he
            exact ⟨fun _ _ h => (by cases h), fun h => (by cases h; exact absurd rfl (readU8_never s _ _ _ h1))⟩

/-- **`find_free_cluster` at image level**: success and `NotEnoughSpace` are those of the pure byte-level `Fat.findFree`
    on the window's bytes; nothing is changed (whatever the outcome) -/
theorem findFree_img (ft : FatType) {s : DiskSlice} (hs : SliceInv s0 s) (start endC : Nat) (d : Dev) (hw : d.img.WF)
    (hdev : s0.beginOff + s0.size ≤ d.img.size) (hZ : s0.size < u32Lim)
    {r : Except Err (Nat × DiskSlice)} {d' : Dev}
    (hr : run (Table.findFree DiskSlice.strm ft s start endC) d = (r, d')) :
    (∀ v s', r = .ok (v, s') → Fat.findFree ft F[d] start endC = .ok v ∧ SliceInv s0 s') ∧
    (r = .error .noSpace → Fat.findFree ft F[d] start endC = .error .noSpace) ∧
    SameBytes d d' := by
  have hsame := quiet_sameBytes (Table.findFree_quiet DiskSlice.strm DiskSlice.strm_quiet ft s start endC) hw hr
  have hsz := fatBytes_size s0.beginOff s0.size d.img
  suffices h : (∀ v s', r = .ok (v, s') → Fat.findFree ft F[d] start endC = .ok v ∧ SliceInv s0 s') ∧
      (r = .error .noSpace → Fat.findFree ft F[d] start endC = .error .noSpace) from ⟨h.1, h.2, hsame⟩
  cases ft with
  | fat12 =>
    unfold Table.findFree at hr
    dsimp only at hr
    simp only [Fat.findFree, findFree12, hsz]
    by_cases hge : start ≥ endC
    · rw [if_pos hge] at hr
      simp only [run] at hr; cases hr
      rw [if_pos (by omega)]
      exact ⟨fun _ _ h => (by cases h), fun _ => rfl⟩
    · rw [if_neg hge] at hr
      rw [if_neg (by omega)]
      rcases run_bind_cases hr with ⟨⟨t, s1⟩, d1, h1, h2⟩ | ⟨e, h1, he⟩
      · obtain ⟨hd1, hs1, hn, hi1⟩ := slice_seek_at hs _ d h1
        subst hd1
        dsimp only at h2
        rcases run_bind_cases h2 with ⟨⟨packed, s2⟩, d2, h3, h4⟩ | ⟨e, h3, he⟩
        · obtain ⟨a, b, cs, e, f⟩ := slice_readU16_at hi1 d1 hw hdev h3
          rw [hs1] at a b cs
          dsimp only at a b cs h4
          rw [if_neg (by omega), if_neg (by omega), ← b]
          have := findFree12Loop_img _ s2 start endC packed d2 r d' (s0.size + 2) e
            (by rw [b]; exact rd16_lt _ (wf_fatBytes _ _ _) _) (by omega) f.2.2.1 (by rw [f.2.2.2]; exact hdev) h4
          rw [f.bytes, cs] at this
          exact this
        · subst he
          exact ⟨fun _ _ h => (by cases h), fun h => (by cases h; exact absurd rfl (readU16_never _ _ _ _ h3))⟩
      · subst he
        exact ⟨fun _ _ h => (by cases h), fun h => (by cases h; exact absurd rfl (slice_seek_never _ _ _ _ _ h1))⟩
  | fat16 =>
    unfold Table.findFree at hr
    dsimp only at hr
    simp only [Fat.findFree, findFree16]
    rcases run_bind_cases hr with ⟨⟨t, s1⟩, d1, h1, h2⟩ | ⟨e, h1, he⟩
    · obtain ⟨hd1, hs1, hn, hi1⟩ := slice_seek_at hs _ d h1
      subst hd1
      dsimp only at h2
      rw [if_neg (by omega)]
      exact findFreeLoop16_img _ s1 start endC d1 r d' hi1 (by rw [hs1]) hw hdev h2
    · subst he
      exact ⟨fun _ _ h => (by cases h), fun h => (by cases h; exact absurd rfl (slice_seek_never _ _ _ _ _ h1))⟩
  | fat32 =>
    unfold Table.findFree at hr
    dsimp only at hr
    simp only [Fat.findFree, findFree32]
    rcases run_bind_cases hr with ⟨⟨t, s1⟩, d1, h1, h2⟩ | ⟨e, h1, he⟩
    · obtain ⟨hd1, hs1, hn, hi1⟩ := slice_seek_at hs _ d h1
      subst hd1
      dsimp only at h2
      rw [if_neg (by omega)]
      exact findFreeLoop32_img _ s1 start endC d1 r d' hi1 (by rw [hs1]) hw hdev h2
    · subst he
      exact ⟨fun _ _ h => (by cases h), fun h => (by cases h; exact absurd rfl (slice_seek_never _ _ _ _ _ h1))⟩

end window
end FatVerif
