import FatVerif.Proofs.SlotTreeOps
/-!
# Slot trees: `create_file` / `create_dir` and `remove` against `Spec.evalCreate` / `Spec.evalRemove`
-/
namespace FatVerif
namespace SlotTree
open Lfn DirSlots DirAlias

variable (u : Char → List Char)

/-! ## writing an entry at a path -/

theorem add_success (t : Node) (hwf : TreeWf (upOf u) t) (p : List String) (hlp : Lock (upOf u) t p)
    (s : List (List Nat)) (ch : List (LfnEntry × Node)) (hg : getAtS (upOf u) t p = some (.dir s ch))
    (name : String) (sfn : List Nat) (child : Node) (hv : Names.validateLongName name = .ok ())
    (hwf' : DirWf (upOf u) (writeEntry s (Names.encodeUtf16 name.toList) sfn))
    (hsfn : slotClass sfn = .file) (hkind : Lfn.isDir sfn = child.isDir) (hchild : TreeWf (upOf u) child) :
    TreeWf (upOf u) (updS (upOf u) (addEntry (Names.encodeUtf16 name.toList) sfn child) p t) ∧
    abs (updS (upOf u) (addEntry (Names.encodeUtf16 name.toList) sfn child) p t) =
      Spec.updateAt (cfgOf u) (Spec.insertChild name (abs child)) p (abs t) := by
  obtain ⟨_, _, h1, h255, hu, hnz⟩ := valid_units (cs := name.toList) hv
  constructor
  · apply wf_updS _ p t hwf
    intro n hn
    rw [hg] at hn
    cases hn
    obtain ⟨hd, hch⟩ := (all_dir _ s ch).1 (all_getAtS _ p t _ hwf hg)
    refine ⟨?_, rfl⟩
    rw [addEntry_dir hd.wf.shape _ sfn child ch h1 h255 hu hnz hsfn]
    refine (all_dir _ _ _).2 ⟨(addEntry_dirOk hd _ sfn child hwf' h1 h255 hu hnz hsfn hkind).1, ?_⟩
    intro x hx
    rcases List.mem_append.1 hx with hx | hx
    · exact hch x hx
    · simp only [List.mem_singleton] at hx
      rw [hx]; exact hchild
  · apply abs_updS u _ _ p t hwf hlp
    intro n hn
    rw [hg] at hn
    cases hn
    have hd : DirOk (upOf u) s ch := ((all_dir _ s ch).1 (all_getAtS _ p t _ hwf hg)).1
    exact abs_addEntry hd.wf.shape _ sfn child ch name h1 h255 hu hnz hsfn (entryName_new name sfn _ _ hv)

/-! ## deleting an entry at a path -/

theorem del_success (t : Node) (hwf : TreeWf (upOf u) t) (p : List String) (hlp : Lock (upOf u) t p)
    (s : List (List Nat)) (ch : List (LfnEntry × Node)) (hg : getAtS (upOf u) t p = some (.dir s ch))
    (e : LfnEntry) (he : e ∈ listing s) :
    TreeWf (upOf u) (updS (upOf u) (delEntry e) p t) ∧
    abs (updS (upOf u) (delEntry e) p t) =
      Spec.updateAt (cfgOf u) (Spec.eraseChild (cfgOf u) (entryName e)) p (abs t) := by
  obtain ⟨hd, hch⟩ := (all_dir _ s ch).1 (all_getAtS _ p t _ hwf hg)
  constructor
  · apply wf_updS _ p t hwf
    intro n hn
    rw [hg] at hn
    cases hn
    refine ⟨?_, rfl⟩
    rw [delEntry_dir]
    exact (all_dir _ _ _).2 ⟨delEntry_dirOk hd e he, fun x hx => hch x (List.mem_filter.1 hx).1⟩
  · apply abs_updS u _ _ p t hwf hlp
    intro n hn
    rw [hg] at hn
    cases hn
    exact abs_delEntry u hd e he

/-! ## the short slot of a new entry -/

theorem isDir_sfnWith (a : List Nat) (attr : Nat) (rest : List Nat) (ha : a.length = 11) :
    Lfn.isDir (sfnWith a (attr :: rest)) = (attr % 64 / 16 % 2 == 1) := by
  have hb11 : Lfn.byte (sfnWith a (attr :: rest)) 11 = attr := by
    unfold sfnWith Lfn.byte
    rw [List.getD_eq_getElem?_getD, List.getElem?_append_right (by omega), ha]
    simp
  unfold Lfn.isDir Lfn.attrs
  rw [hb11]

theorem isDir_newBody (a : List Nat) (wantDir : Bool) (stamp : List Nat) (ha : a.length = 11) :
    Lfn.isDir (sfnWith a (newBody wantDir stamp)) = wantDir := by
  unfold newBody
  rw [isDir_sfnWith a _ stamp ha]
  cases wantDir <;> decide

theorem newBody_attr (wantDir : Bool) : (if wantDir then 16 else 0) % 64 / 8 % 2 = 0 := by
  cases wantDir <;> decide

theorem abs_children_empty {up : Char → List Char} (c : Node) (hwf : TreeWf up c) :
    (abs c).children.isEmpty = nodeEmpty c := by
  cases c with
  | file b => simp [abs, Spec.TNode.children, nodeEmpty]
  | dir s ch =>
    obtain ⟨hd, _⟩ := (all_dir _ s ch).1 hwf
    rw [abs_dir]
    simp only [Spec.TNode.children, nodeEmpty]
    have hlen := hd.perm.length_eq
    rw [List.length_map] at hlen
    cases ch with
    | nil =>
      cases hl : listing s with
      | nil => rfl
      | cons _ _ => rw [hl] at hlen; simp at hlen
    | cons x r =>
      cases hl : listing s with
      | nil => rw [hl] at hlen; simp at hlen
      | cons _ _ => rfl

theorem nameErr_empty : Spec.nameErr (cfgOf u) "" = [.nameLen] := by
  unfold Spec.nameErr cfgOf validNameS
  simp only [validate_empty]

theorem validName_eq (name : String) :
    (cfgOf u).validName name = match Names.validateLongName name with | .ok _ => none | .error e => some e := rfl

/-! ## `create_file` / `create_dir` -/

theorem create_refines (fuel : Nat) (t : Node) (hwf : TreeWf (upOf u) t) (cwd : List String)
    (hc : CwdOk (upOf u) t cwd) (path : String) (hp : PathOk (upOf u) t path) (wantDir : Bool) (stamp : List Nat) :
    TreeWf (upOf u) (createS (upOf u) fuel t cwd path wantDir stamp).tree ∧
    (∀ e, (createS (upOf u) fuel t cwd path wantDir stamp).out = .error e →
      (createS (upOf u) fuel t cwd path wantDir stamp).tree = t) ∧
    Accepts (Spec.evalCreate (cfgOf u) (abs t) cwd path wantDir) (createS (upOf u) fuel t cwd path wantDir stamp) := by
  obtain ⟨rp1, rp2⟩ := resolveParent_corr u t hwf cwd hc path hp
  have hq2 := hp.2.2
  unfold createS Spec.evalCreate
  cases hw : walkDirsS (upOf u) t cwd (pathParts path).1 with
  | error e =>
    obtain ⟨es, h1, h2⟩ := rp1 e hw
    rw [h1]
    exact ⟨hwf, fun _ _ => rfl, accepts_fail _ _ _ (Or.inr h2)⟩
  | ok p =>
    obtain ⟨s, ch, hg, hlp, hdot, hnd⟩ := rp2 p hw
    have hd := dirOk_at u hwf hg
    dsimp only
    rw [hg]
    dsimp only
    cases hdn : isDotName (pathParts path).2 with
    | true =>
      obtain ⟨d0, d1⟩ := hdot hdn
      cases wantDir with
      | false =>
        simp only [Bool.not_false, Bool.and_self, if_true]
        refine ⟨hwf, fun _ _ => rfl, accepts_fail _ _ _ (Or.inr ?_)⟩
        by_cases hp0 : p = []
        · rw [d0 hp0]; simp [Spec.failWith]
        · obtain ⟨r, hr⟩ := d1 hp0
          rw [hr]; simp [Spec.failWith]
      | true =>
        simp only [Bool.not_true, Bool.and_false, Bool.false_eq_true, if_false, Bool.true_and]
        by_cases hp0 : p = []
        · subst hp0
          rw [d0 rfl]
          simp only [List.isEmpty_nil, Bool.not_true, Bool.false_eq_true, if_false]
          have hf := (lookup_none_of_bad (qall_at u hq2 hg) (Or.inl hdn)).1
          unfold createFinal
          rcases check_cases (upOf u) s (pathParts path).2 (some true) fuel with h | ⟨e, he, _⟩ | ⟨e, he, _⟩ | ⟨_, a, ha⟩
          · rw [h]
            exact ⟨hwf, fun _ _ => rfl, accepts_fail _ _ _ (Or.inl rfl)⟩
          · rw [hf] at he; cases he
          · rw [hf] at he; cases he
          · rw [ha]
            simp only [hdn, if_true]
            exact ⟨hwf, fun _ _ => rfl, accepts_fail _ _ _ (Or.inr (by simp [Spec.failWith]))⟩
        · obtain ⟨r, hr⟩ := d1 hp0
          rw [hr]
          have hce : p.isEmpty = false := by simpa using hp0
          simp only [hce, Bool.not_false, if_true]
          refine ⟨hwf, fun _ h => (by cases h), ?_⟩
          exact accepts_done _ _ rfl rfl
    | false =>
      rw [hnd hdn]
      simp only [Bool.false_and, Bool.false_eq_true, if_false]
      unfold createFinal
      rcases check_cases (upOf u) s (pathParts path).2 (some wantDir) fuel with
        h | ⟨e, he, hk, hchk⟩ | ⟨e, he, hk, hchk⟩ | ⟨hf, a, ha⟩
      · rw [h]
        exact ⟨hwf, fun _ _ => rfl, accepts_fail _ _ _ (Or.inl rfl)⟩
      · rw [hchk]
        obtain ⟨c, hl, hmem⟩ := lookupS_of_find hd he
        rw [hl]
        simp only [Option.map, abs_isDir]
        have hkd : c.isDir = wantDir := by
          rw [← hd.kind _ hmem]; exact (kind_ok_iff wantDir e).1 hk
        simp only [hkd, beq_self_eq_true, if_true]
        refine ⟨hwf, fun _ h => (by cases h), ?_⟩
        exact accepts_done _ _ rfl rfl
      · rw [hchk]
        obtain ⟨c, hl, hmem⟩ := lookupS_of_find hd he
        rw [hl]
        simp only [Option.map, abs_isDir]
        have hkd : (c.isDir == wantDir) = false := by
          have := (kind_err_iff wantDir e).1 hk
          rw [hd.kind _ hmem] at this
          simpa using this
        simp only [hkd, Bool.false_eq_true, if_false]
        exact ⟨hwf, fun _ _ => rfl, accepts_fail _ _ _ (Or.inr (by simp [Spec.failWith]))⟩
      · rw [ha]
        have hln : lookupS (upOf u) s ch (pathParts path).2 = none := by unfold lookupS; rw [hf]
        rw [hln]
        simp only [Option.map, hdn, Bool.false_eq_true, if_false]
        cases hv : Names.validateLongName (pathParts path).2 with
        | error x =>
          simp only
          refine ⟨hwf, fun _ _ => rfl, accepts_fail _ _ _ (Or.inr ?_)⟩
          by_cases he : (pathParts path).2 = ""
          · rw [he] at hv ⊢
            rw [validate_empty] at hv
            cases hv
            simp [nameErr_empty, Spec.failWith]
          · have hb : ((pathParts path).2 == "") = false := by simpa using he
            simp only [hb, Bool.false_eq_true, if_false, validName_eq, hv]
            simp [Spec.failWith]
        | ok x =>
          cases x
          have he : (pathParts path).2 ≠ "" := by
            intro h0; rw [h0, validate_empty] at hv; cases hv
          have hb : ((pathParts path).2 == "") = false := by simpa using he
          simp only [hb, Bool.false_eq_true, if_false, validName_eq, hv]
          have hlen := C16dir.dir_alias_length _ _ _ _ _ _ ha
          obtain ⟨_, _, _, _, _, hcls, _, _, _⟩ :=
            C16dir.dir_create_hyps (upOf u) s (pathParts path).2 (some wantDir) fuel a (if wantDir then 16 else 0) stamp hv
              (newBody_attr wantDir) ha
          obtain ⟨w1, w2⟩ := add_success u t hwf p hlp s ch hg (pathParts path).2
            (sfnWith a (newBody wantDir stamp)) (freshNode wantDir) hv
            (C16dir.dir_create_wf (upOf u) s (pathParts path).2 (some wantDir) fuel a (if wantDir then 16 else 0) stamp
              hd.wf hv (newBody_attr wantDir) ha)
            hcls (by rw [isDir_newBody a wantDir stamp hlen, fresh_isDir]) (treeWf_fresh _ wantDir)
          refine ⟨w1, fun _ h => (by cases h), accepts_done _ _ rfl ?_⟩
          rw [w2, abs_fresh]

/-! ## `remove` -/

theorem remove_refines (t : Node) (hwf : TreeWf (upOf u) t) (cwd : List String)
    (hc : CwdOk (upOf u) t cwd) (path : String) (hp : PathOk (upOf u) t path) :
    TreeWf (upOf u) (removeS (upOf u) t cwd path).tree ∧
    (∀ e, (removeS (upOf u) t cwd path).out = .error e → (removeS (upOf u) t cwd path).tree = t) ∧
    Accepts (Spec.evalRemove (cfgOf u) (abs t) cwd path) (removeS (upOf u) t cwd path) := by
  obtain ⟨rp1, rp2⟩ := resolveParent_corr u t hwf cwd hc path hp
  unfold removeS Spec.evalRemove
  cases hw : walkDirsS (upOf u) t cwd (pathParts path).1 with
  | error e =>
    obtain ⟨es, h1, h2⟩ := rp1 e hw
    rw [h1]
    exact ⟨hwf, fun _ _ => rfl, accepts_fail _ _ _ (Or.inr h2)⟩
  | ok p =>
    obtain ⟨s, ch, hg, hlp, hdot, hnd⟩ := rp2 p hw
    have hd := dirOk_at u hwf hg
    have hchw := ((all_dir _ s ch).1 (all_getAtS _ p t _ hwf hg)).2
    dsimp only
    rw [hg]
    dsimp only
    cases hdn : isDotName (pathParts path).2 with
    | true =>
      obtain ⟨d0, d1⟩ := hdot hdn
      simp only [if_true]
      refine ⟨hwf, fun _ _ => rfl, accepts_fail _ _ _ (Or.inr ?_)⟩
      by_cases hp0 : p = []
      · rw [d0 hp0]; simp [Spec.failWith]
      · obtain ⟨r, hr⟩ := d1 hp0
        rw [hr]; simp [Spec.failWith]
    | false =>
      rw [hnd hdn]
      simp only [Bool.false_eq_true, if_false]
      cases hl : lookupS (upOf u) s ch (pathParts path).2 with
      | none =>
        simp only [Option.map]
        exact ⟨hwf, fun _ _ => rfl, accepts_fail _ _ _ (Or.inr (by simp [Spec.failWith]))⟩
      | some x =>
        obtain ⟨_, hmem, hlist, _⟩ := lookupS_some hd hl
        simp only [Option.map, abs_isDir]
        rw [abs_children_empty x.2 (hchw x hmem), hd.kind x hmem]
        cases hcond : (x.2.isDir && !nodeEmpty x.2) with
        | true =>
          simp only [if_true]
          exact ⟨hwf, fun _ _ => rfl, accepts_fail _ _ _ (Or.inr (by simp [Spec.failWith]))⟩
        | false =>
          simp only [Bool.false_eq_true, if_false]
          obtain ⟨w1, w2⟩ := del_success u t hwf p hlp s ch hg x.1 hlist
          refine ⟨w1, fun _ h => (by cases h), ?_⟩
          exact accepts_done _ _ rfl w2.symm

end SlotTree
end FatVerif
