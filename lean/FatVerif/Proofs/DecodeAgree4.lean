import FatVerif.Proofs.DecodeAgree3
/-! C08, part 2: the chain hypotheses the simulations keep (`DirSim.ChainReadable`, `FileSim.FileRep`) are consequences of
    what the SPECIFICATION's FAT decoder finds in the image: a chain that exists and ends with an end-of-chain mark
    (`SpecChainOk`), long enough for the recorded size. -/
namespace FatVerif.DecodeAgree
open FatVerif FatVerif.Fat FatVerif.FileSim FatVerif.DirSim

/-! ### chains -/

theorem chain_suffix {g : Nat → FatValue} {c : Nat} {cs : List Nat} (h : Chain g c cs) :
    ∀ x ∈ cs, ∃ pre suf, cs = pre ++ suf ∧ Chain g x suf := by
  induction h with
  | last m hl =>
    intro x hx
    simp at hx; subst hx
    exact ⟨[], [x], rfl, Chain.last x hl⟩
  | cons m k ms hd hc ih =>
    intro x hx
    rcases List.mem_cons.1 hx with rfl | hx
    · exact ⟨[], x :: ms, rfl, Chain.cons x k ms hd hc⟩
    · obtain ⟨pre, suf, e, hs⟩ := ih x hx
      exact ⟨m :: pre, suf, by rw [e]; rfl, hs⟩

/-- a chain that terminates has no repeated cluster (the view is a function: a repeat would loop for ever) -/
theorem chain_nodup_of_finite {g : Nat → FatValue} {c : Nat} {cs : List Nat} (h : Chain g c cs) : cs.Nodup := by
  induction h with
  | last m _ => simp
  | cons m k ms hd hc ih =>
    refine List.nodup_cons.2 ⟨?_, ih⟩
    intro hm
    obtain ⟨pre, suf, e, hs⟩ := chain_suffix hc m hm
    have := chain_unique hs (Chain.cons m k ms hd hc)
    have hl : suf.length ≤ ms.length := by rw [e]; simp
    rw [this] at hl
    simp only [List.length_cons] at hl
    omega

theorem chain_last_not_data {g : Nat → FatValue} {c : Nat} {cs : List Nat} (h : Chain g c cs) :
    ∀ l, cs.getLast? = some l → ∀ n, g l ≠ .data n := by
  induction h with
  | last m hl => intro l hlast; simp at hlast; subst hlast; exact hl
  | cons m k ms _ hc ih =>
    intro l hlast
    obtain ⟨t, rfl⟩ := chain_head hc
    exact ih l (by simpa using hlast)

/-- what the specification's chain walk returns IS a chain of the programs' table, inside the table -/
theorem chain_of_specChain (bits : Nat) (fat : Array Nat) (n : Nat) (g : Nat → FatValue)
    (hg : ∀ c, c < n → g c = FatSpec.specValue bits fat c) :
    ∀ (fuel c : Nat) (cs : List Nat), FatSpec.specChain bits fat n fuel c = some cs →
      Chain g c cs ∧ (∀ x ∈ cs, 2 ≤ x ∧ x < n) ∧ cs.length ≤ fuel := by
  intro fuel
  induction fuel with
  | zero => intro c cs h; simp [FatSpec.specChain] at h
  | succ fuel ih =>
    intro c cs h
    unfold FatSpec.specChain at h
    by_cases hc : c < 2 ∨ n ≤ c
    · rw [if_pos hc] at h; cases h
    · rw [if_neg hc] at h
      have hc' : 2 ≤ c ∧ c < n := by omega
      have hv := hg c hc'.2
      cases hs : FatSpec.specValue bits fat c with
      | data nx =>
        rw [hs] at h
        simp only at h
        cases hr : FatSpec.specChain bits fat n fuel nx with
        | none => rw [hr] at h; cases h
        | some t =>
          rw [hr] at h
          simp only [Option.map_some, Option.some.injEq] at h
          subst h
          obtain ⟨i1, i2, i3⟩ := ih nx t hr
          refine ⟨Chain.cons c nx t (by rw [hv, hs]) i1, ?_, by simp; omega⟩
          intro x hx
          rcases List.mem_cons.1 hx with rfl | hx
          · exact hc'
          · exact i2 x hx
      | free =>
        rw [hs] at h; simp only [Option.some.injEq] at h; subst h
        exact ⟨Chain.last c (by intro k hk; rw [hv, hs] at hk; cases hk), by simpa using hc', by simp⟩
      | bad =>
        rw [hs] at h; simp only [Option.some.injEq] at h; subst h
        exact ⟨Chain.last c (by intro k hk; rw [hv, hs] at hk; cases hk), by simpa using hc', by simp⟩
      | eoc =>
        rw [hs] at h; simp only [Option.some.injEq] at h; subst h
        exact ⟨Chain.last c (by intro k hk; rw [hv, hs] at hk; cases hk), by simpa using hc', by simp⟩

/-- the specification's chain of `c0` exists (every cluster in range, shorter than the table) and ends with an
    end-of-chain mark (not with a free or bad entry) -/
structure SpecChainOk (fs : FsState) (img : Img) (c0 : Nat) (chain : List Nat) : Prop where
  walk : specChainOf fs img c0 = some chain
  eoc : ∀ l, chain.getLast? = some l → FatSpec.specValue fs.fatType.bits (imgFatBytes fs img) l = .eoc

theorem SpecChainOk.facts {fs : FsState} {img : Img} {c0 : Nat} {chain : List Nat} (g : Geo fs img.size)
    (h : SpecChainOk fs img c0 chain) :
    Chain (tabView fs img) c0 chain ∧ (∀ x ∈ chain, 2 ≤ x ∧ x < fs.totalClusters + 2) ∧
      chain.length ≤ fs.totalClusters + 2 ∧ chain.Nodup ∧
      (∀ l, chain.getLast? = some l → tabView fs img l = .eoc) := by
  obtain ⟨h1, h2, h3⟩ := chain_of_specChain _ _ _ (tabView fs img) (fun c hc => tabView_spec g img c hc) _ _ _ h.walk
  refine ⟨h1, h2, h3, chain_nodup_of_finite h1, ?_⟩
  intro l hl
  have hmem : l ∈ chain := List.mem_of_getLast? hl
  rw [tabView_spec g img l (h2 l hmem).2]
  exact h.eoc l hl

/-! ### `ChainReadable` -/

/-- a directory whose specification chain is fine, smaller than 4 GiB, read through a handle that is a directory's and
    has nothing to write back (what `to_dir` builds; `None` for the FAT32 root), with `update_accessed_date` off -/
theorem chainReadable_of_spec {d : Dev} {c0 : Nat} {ent : Option DirEntryEditor} {chain : List Nat}
    (hfa : d.failAt = none) (g : Geo d.fs d.img.size) (hc : SpecChainOk d.fs d.img c0 chain)
    (hdir : ∀ e, ent = some e → e.data.isDir = true) (hclean : ∀ e, ent = some e → e.dirty = false)
    (hacc : d.fs.accDate = false ∨ ent = none) (hcs32 : d.fs.clusterSize % 32 = 0)
    (hsize : chain.length * d.fs.clusterSize < 4294967296) : ChainReadable d c0 ent chain := by
  obtain ⟨f1, f2, f3, _, _⟩ := hc.facts g
  refine ⟨⟨hfa, g, rfl, f1, f2, ?_, ?_, ?_, hcs32, hsize⟩, ?_⟩
  · show (FileH.new (some c0) ent).size? = none
    unfold FileH.size? FileH.new
    cases hent : ent with
    | none => rfl
    | some e =>
      simp only
      have := hdir e hent
      simp [DirFileEntryData.size?, DirFileEntryData.isFile, this]
  · rcases hacc with h | h
    · exact Or.inl h
    · exact Or.inr (by rw [h]; rfl)
  · intro e he
    exact hclean e he
  · show chain.length * (d.fs.clusterSize / 32) < (d.fs.totalClusters + 2) * (d.fs.clusterSize / 32) + d.fs.rootEntries + 64
    have : chain.length * (d.fs.clusterSize / 32) ≤ (d.fs.totalClusters + 2) * (d.fs.clusterSize / 32) :=
      Nat.mul_le_mul_right _ f3
    omega

/-! ### `FileRep` -/

/-- a file handle as `to_file` builds it (first cluster and size from the 32-byte record, cursor at 0) is represented
    when the specification finds its chain fine and long enough for the recorded size (a file without cluster has
    size 0) -/
theorem fileRep_of_spec {fs : FsState} {img : Img} (g : Geo fs img.size) (first : Option Nat) (ed : DirEntryEditor)
    (hfile : ed.data.isDir = false) (hsz : ed.data.size ≤ Cursor.u32Max)
    (hnone : first = none → ed.data.size = 0)
    (hsome : ∀ c0, first = some c0 → ∃ chain, SpecChainOk fs img c0 chain ∧
      ed.data.size ≤ chain.length * fs.clusterSize) :
    FileRep fs img (FileH.new first (some ed)) := by
  have hsize : (FileH.new first (some ed)).size? = some ed.data.size := by
    simp [FileH.size?, FileH.new, DirFileEntryData.size?, DirFileEntryData.isFile, hfile]
  have habs : (absFile fs img (FileH.new first (some ed))).size = ed.data.size := by
    simp [absFile, hsize]
  cases hf : first with
  | none =>
    have hch : fileChain fs img (FileH.new none (some ed)) = [] := rfl
    have hachain : (absFile fs img (FileH.new none (some ed))).chain = [] := hch
    have h0 := hnone hf
    subst hf
    have hinv : Cursor.AFileInv viewFree (absFile fs img (FileH.new none (some ed))) (tabView fs img) :=
      { cs_pos := g.cs_pos
        nodup := by rw [hachain]; exact List.nodup_nil
        first := by
          show (none : Option Nat) = (fileChain fs img (FileH.new none (some ed))).head?
          rw [hch]; rfl
        cover := by rw [habs, h0]; exact Nat.zero_le _
        off_le := by rw [habs, h0]; exact Nat.zero_le _
        size_le := by rw [habs]; exact hsz
        cur := rfl
        live := by intro c hc; rw [hachain] at hc; cases hc }
    exact
      { file := ⟨_, hsize⟩
        inv := hinv
        chain := by intro c hc; cases hc
        inTab := by intro c hc; rw [hch] at hc; cases hc
        last_eoc := by intro c hc; rw [hch] at hc; cases hc }
  | some c0 =>
    subst hf
    obtain ⟨chain, hc, hcov⟩ := hsome c0 rfl
    obtain ⟨f1, f2, f3, f4, f5⟩ := hc.facts g
    have hch : fileChain fs img (FileH.new (some c0) (some ed)) = chain := by
      show chainFrom (tabView fs img) (fs.totalClusters + 2) c0 = chain
      exact chainFrom_of_chain f1 _ (by omega)
    have hachain : (absFile fs img (FileH.new (some c0) (some ed))).chain = chain := hch
    obtain ⟨t, ht⟩ := chain_head f1
    have hlive : ∀ c ∈ chain, ¬ tabView fs img c = .free := by
      intro c hcm
      obtain ⟨pre, suf, e, hs⟩ := chain_suffix f1 c hcm
      cases hs with
      | last _ hl =>
        have hlast : chain.getLast? = some c := by rw [e]; simp
        rw [f5 c hlast]; intro h; cases h
      | cons _ n ms hd _ => rw [hd]; intro h; cases h
    have hinv : Cursor.AFileInv viewFree (absFile fs img (FileH.new (some c0) (some ed))) (tabView fs img) :=
      { cs_pos := g.cs_pos
        nodup := by rw [hachain]; exact f4
        first := by
          show some c0 = (fileChain fs img (FileH.new (some c0) (some ed))).head?
          rw [hch, ht]; rfl
        cover := by rw [habs, hachain]; exact hcov
        off_le := by rw [habs]; exact Nat.zero_le _
        size_le := by rw [habs]; exact hsz
        cur := rfl
        live := by intro c hcm; rw [hachain] at hcm; exact hlive c hcm }
    exact
      { file := ⟨_, hsize⟩
        inv := hinv
        chain := by intro c hcc; cases hcc; rw [hch]; exact f1
        inTab := by rw [hch]; exact f2
        last_eoc := by rw [hch]; exact f5 }

end FatVerif.DecodeAgree
