import FatVerif.Model.Lfn
/-! Lemmas on the LFN slot layout and on the list helpers of `Model/Lfn.lean`. -/
namespace FatVerif
namespace Lfn

/-! ### generic list helpers -/

theorem getD_eq_getElem {α} (l : List α) (i : Nat) (d : α) (h : i < l.length) : l.getD i d = l[i] := by
  simp [List.getD_eq_getElem?_getD, h]

theorem ext_getD {α} (u v : List α) (d : α) (hl : u.length = v.length)
    (h : ∀ i, i < u.length → u.getD i d = v.getD i d) : u = v := by
  apply List.ext_getElem hl
  intro i h1 h2
  have := h i h1
  rwa [getD_eq_getElem _ _ _ h1, getD_eq_getElem _ _ _ h2] at this

/-! ### slot layout -/

@[simp] theorem units_length (s : List Nat) : (units s).length = 13 := by
  simp [units, unitOffsets]

@[simp] theorem lfnSlotBytes_length (o c : Nat) (u : List Nat) : (lfnSlotBytes o c u).length = 32 := by
  simp [lfnSlotBytes]

@[simp] theorem order_slotBytes (o c : Nat) (u : List Nat) : order (lfnSlotBytes o c u) = o := by
  simp [order, byte, lfnSlotBytes]

@[simp] theorem chk_slotBytes (o c : Nat) (u : List Nat) : chk (lfnSlotBytes o c u) = c := by
  simp [chk, byte, lfnSlotBytes]

@[simp] theorem attrs_slotBytes (o c : Nat) (u : List Nat) : attrs (lfnSlotBytes o c u) = 15 := by
  simp [attrs, byte, lfnSlotBytes]

theorem byte12_slotBytes (o c : Nat) (u : List Nat) : byte (lfnSlotBytes o c u) 12 = 0 := by
  simp [byte, lfnSlotBytes]

theorem cluster_slotBytes (o c : Nat) (u : List Nat) : unitAt (lfnSlotBytes o c u) 26 = 0 := by
  simp [unitAt, le16, byte, lfnSlotBytes]

theorem le16_lo_hi (x : Nat) (h : x < 65536) : le16 (lo x) (hi x) = x := by
  unfold le16 lo hi; omega

theorem un_lt (u : List Nat) (h : ∀ x ∈ u, x < 65536) (i : Nat) : un u i < 65536 := by
  unfold un
  by_cases hi : i < u.length
  · rw [getD_eq_getElem _ _ _ hi]; exact h _ (List.getElem_mem hi)
  · simp [List.getD_eq_getElem?_getD, List.getElem?_eq_none (Nat.le_of_not_lt hi)]

/-- decoder ∘ encoder on the 13 units -/
theorem units_slotBytes (o c : Nat) (u : List Nat) (hl : u.length = 13) (h : ∀ x ∈ u, x < 65536) :
    units (lfnSlotBytes o c u) = u := by
  apply ext_getD _ _ 0 (by simp [hl])
  intro i hi
  simp only [units_length] at hi
  have e := fun j => le16_lo_hi (un u j) (un_lt u h j)
  have hc : i = 0 ∨ i = 1 ∨ i = 2 ∨ i = 3 ∨ i = 4 ∨ i = 5 ∨ i = 6 ∨ i = 7 ∨ i = 8 ∨ i = 9 ∨ i = 10 ∨ i = 11 ∨
      i = 12 := by omega
  rcases hc with rfl | rfl | rfl | rfl | rfl | rfl | rfl | rfl | rfl | rfl | rfl | rfl | rfl <;>
    simp [units, unitOffsets, unitAt, byte, lfnSlotBytes, e] <;> rfl

theorem lfnSlotDecode_slotBytes (o c : Nat) (u : List Nat) (hl : u.length = 13) (h : ∀ x ∈ u, x < 65536) :
    lfnSlotDecode (lfnSlotBytes o c u) = (o, c, u) := by
  simp [lfnSlotDecode, units_slotBytes o c u hl h]

/-- a generated slot with a sane order byte is classified as a long-name slot -/
theorem slotClass_slotBytes (o c : Nat) (u : List Nat) (h0 : o ≠ 0) (h1 : o ≠ 0xE5) :
    slotClass (lfnSlotBytes o c u) = .lfn := by
  have e0 : byte (lfnSlotBytes o c u) 0 = o := order_slotBytes o c u
  simp [slotClass, isEnd, isDeleted, isLfn, e0, h0, h1]

/-! ### resize / setSlice -/

@[simp] theorem resize_length (l : List Nat) (n : Nat) : (resize l n).length = n := by
  simp [resize]; omega

theorem resize_of_le (l : List Nat) (n : Nat) (h : n ≤ l.length) : resize l n = l.take n := by
  simp [resize, Nat.sub_eq_zero_of_le h]

theorem resize_nil (n : Nat) : resize [] n = List.replicate n 0 := by
  simp [resize]

@[simp] theorem setSlice_length (buf : List Nat) (pos : Nat) (us : List Nat) (hu : us.length = 13)
    (h : pos + 13 ≤ buf.length) : (setSlice buf pos us).length = buf.length := by
  simp [setSlice, hu]; omega

theorem setSlice_append_left (a z : List Nat) (pos : Nat) (us : List Nat) (h : pos + 13 ≤ a.length) :
    setSlice (a ++ z) pos us = setSlice a pos us ++ z := by
  unfold setSlice
  rw [List.take_append_of_le_length (by omega), List.drop_append_of_le_length (by omega)]
  simp [List.append_assoc]

/-- the units from `pos` on after the copy -/
theorem setSlice_drop (buf : List Nat) (pos : Nat) (us : List Nat) (h : pos ≤ buf.length) :
    (setSlice buf pos us).drop pos = us ++ buf.drop (pos + 13) := by
  unfold setSlice
  rw [List.append_assoc, List.drop_append_of_le_length (by simp; omega)]
  have : (List.take pos buf).length = pos := by simp; omega
  rw [List.drop_of_length_le (by omega)]
  simp

/-- copying inside the live prefix commutes with taking the live prefix -/
theorem setSlice_take (buf : List Nat) (pos n : Nat) (us : List Nat) (hu : us.length = 13)
    (h1 : pos + 13 ≤ n) (h2 : n ≤ buf.length) :
    (setSlice buf pos us).take n = setSlice (buf.take n) pos us := by
  unfold setSlice
  have e1 : (List.take pos buf ++ us).length = pos + 13 := by simp [hu]; omega
  rw [List.take_append, List.take_of_length_le (by omega), e1, List.take_take, List.drop_take]
  congr 2
  rw [Nat.min_eq_left (by omega)]

theorem setSlice?_eq (buf : List Nat) (pos : Nat) (us : List Nat) (h : pos + 13 ≤ buf.length) :
    setSlice? buf pos us = some (setSlice buf pos us) := by
  simp [setSlice?, h]

/-! ### cutAtNul -/

theorem cutAtNul_of_nonzero (l : List Nat) (h : ∀ x ∈ l, x ≠ 0) : cutAtNul l = l := by
  induction l with
  | nil => rfl
  | cons x xs ih =>
    have hx := h x (by simp)
    simp [cutAtNul, hx, ih (fun y hy => h y (by simp [hy]))]

/-- a name without NUL units followed by its terminator and anything -/
theorem cutAtNul_append_nul (l p : List Nat) (h : ∀ x ∈ l, x ≠ 0) : cutAtNul (l ++ 0 :: p) = l := by
  induction l with
  | nil => simp [cutAtNul]
  | cons x xs ih =>
    have hx := h x (by simp)
    simp [cutAtNul, hx, ih (fun y hy => h y (by simp [hy]))]

theorem cutAtNul_nonzero (l : List Nat) : ∀ x ∈ cutAtNul l, x ≠ 0 := by
  induction l with
  | nil => simp [cutAtNul]
  | cons x xs ih =>
    simp only [cutAtNul]
    split
    · simp
    · rename_i hx
      intro y hy
      rcases List.mem_cons.1 hy with rfl | hy
      · exact hx
      · exact ih y hy

theorem cutAtNul_length_le (l : List Nat) : (cutAtNul l).length ≤ l.length := by
  induction l with
  | nil => simp [cutAtNul]
  | cons x xs ih =>
    simp only [cutAtNul]
    split <;> simp <;> omega

theorem take_cutLen (l : List Nat) : l.take (cutLen l) = cutAtNul l := by
  unfold cutLen
  induction l with
  | nil => simp [cutAtNul]
  | cons x xs ih =>
    simp only [cutAtNul]
    split
    · simp
    · simp [ih]

theorem cutLen_le (l : List Nat) : cutLen l ≤ l.length := cutAtNul_length_le l

end Lfn
end FatVerif
