import FatVerif.Proofs.FatImgZero1
/-! `Table.set` / `alloc_cluster` on the FAT slice, volume marked dirty or not (forward evaluation). -/
namespace FatVerif.FileSim
open FatVerif FatVerif.Fat

section
variable {fs : FsState} {d d' : Dev}

theorem fatArr_first16 (o w : Nat)
    (h : ∀ i, i < (fatSliceOf fs).size → d'.img.getByte ((fatSliceOf fs).beginOff + i) =
      if o ≤ i ∧ i < o + (bytesLe16 w).length then (bytesLe16 w).getD (i - o) 0 % 256
      else d.img.getByte ((fatSliceOf fs).beginOff + i))
    (ho : o + 2 ≤ (fatSliceOf fs).size) : fatArr fs d'.img = wr16 (fatArr fs d.img) o w := by
  apply fatArr_eq_of_bytes
  · rw [size_wr16, fatArr_size]
  · intro i hi
    rw [h i hi, rd_wr16 _ _ _ _ (by rw [fatArr_size]; exact ho)]
    have hl : (bytesLe16 w).length = 2 := rfl
    rw [hl]
    by_cases h1 : i = o
    · subst h1
      rw [if_pos (show i ≤ i ∧ i < i + 2 by omega), if_pos rfl]
      simp [bytesLe16]
    · by_cases h2 : i = o + 1
      · subst h2
        rw [if_pos (show o ≤ o + 1 ∧ o + 1 < o + 2 by omega), if_neg h1, if_pos rfl]
        simp [bytesLe16]
      · rw [if_neg (show ¬ (o ≤ i ∧ i < o + 2) by omega), if_neg h1, if_neg h2, rd_fatArr fs d.img i hi]

theorem fatArr_first32 (o w : Nat)
    (h : ∀ i, i < (fatSliceOf fs).size → d'.img.getByte ((fatSliceOf fs).beginOff + i) =
      if o ≤ i ∧ i < o + (bytesLe32 w).length then (bytesLe32 w).getD (i - o) 0 % 256
      else d.img.getByte ((fatSliceOf fs).beginOff + i))
    (ho : o + 4 ≤ (fatSliceOf fs).size) : fatArr fs d'.img = wr32 (fatArr fs d.img) o w := by
  apply fatArr_eq_of_bytes
  · rw [size_wr32, fatArr_size]
  · intro i hi
    rw [h i hi, rd_wr32 _ _ _ _ (by rw [fatArr_size]; exact ho)]
    have hl : (bytesLe32 w).length = 4 := rfl
    rw [hl]
    by_cases h1 : i = o
    · subst h1
      rw [if_pos (show i ≤ i ∧ i < i + 4 by omega), if_pos rfl]
      simp [bytesLe32]
    · by_cases h2 : i = o + 1
      · subst h2
        rw [if_pos (show o ≤ o + 1 ∧ o + 1 < o + 4 by omega), if_neg h1, if_pos rfl]
        simp [bytesLe32]
      · by_cases h3 : i = o + 2
        · subst h3
          rw [if_pos (show o ≤ o + 2 ∧ o + 2 < o + 4 by omega), if_neg h1, if_neg h2, if_pos rfl]
          simp [bytesLe32]
        · by_cases h4 : i = o + 3
          · subst h4
            rw [if_pos (show o ≤ o + 3 ∧ o + 3 < o + 4 by omega), if_neg h1, if_neg h2, if_neg h3, if_pos rfl]
            simp [bytesLe32]
          · rw [if_neg (show ¬ (o ≤ i ∧ i < o + 4) by omega), if_neg h1, if_neg h2, if_neg h3, if_neg h4,
              rd_fatArr fs d.img i hi]

end

/-- what a FAT update does to the device, volume marked dirty or not: the first FAT copy becomes `arr'`, the mounted
    state becomes the marked one, and from byte `0x42` on nothing outside the FAT copies changes -/
structure FatUpdM (fs : FsState) (d d' : Dev) (arr' : Array Nat) : Prop where
  step : DevStep d d'
  fs_eq : d'.fs = markedFs d.fs
  arr : fatArr fs d'.img = arr'
  frame : ∀ q, 0x42 ≤ q → (q < (fatSliceOf fs).beginOff ∨
      (fatSliceOf fs).beginOff + (fatSliceOf fs).mirrors * (fatSliceOf fs).size ≤ q) →
    d'.img.getByte q = d.img.getByte q

theorem FatWroteM.of_sameStore {fs : FsState} {d d1 d' : Dev} {o : Nat} {bs : List Nat} (hs : SameStore d d1)
    (h : FatWroteM fs d1 d' o bs) : FatWroteM fs d d' o bs :=
  ⟨(DevStep.of_sameStore hs).trans h.step, by rw [h.fs_eq, hs.fs], fun i hi => by rw [h.first i hi, hs.img],
   fun q h1 h2 => by rw [h.frame q h1 h2, hs.img]⟩

/-- `FatTrait::set` at an entry of the table, volume marked dirty or not -/
theorem run_table_set_any (fs : FsState) (s : DiskSlice) (hs : IsFatSlice fs s) (c : Nat) (v : FatValue) (d : Dev)
    (hfa : d.failAt = none) (hwf : d.img.WF) (hg : Geo fs d.img.size) (hc : c < fs.totalClusters + 2) :
    ∃ d' s' arr', run (Table.set DiskSlice.strm fs.fatType s c v) d = (.ok s', d') ∧ IsFatSlice fs s' ∧
      Fat.set fs.fatType (fatArr fs d.img) c v = .ok arr' ∧ FatUpdM fs d d' arr' := by
  have hin := hg.inRange d.img hc
  unfold InRange u32Lim at hin
  rw [fatArr_size] at hin
  have hfdev := hg.fat_dev
  obtain ⟨hb, hsz, hm, hvf⟩ := hs
  have hnsp : ¬ special32 c := by
    have := hg.small
    unfold special32
    cases hft : fs.fatType <;> rw [hft] at this <;> simp only [badMark] at this <;> omega
  cases hft : fs.fatType with
  | fat16 =>
    rw [hft] at hin
    simp only [off, width] at hin
    unfold Table.set
    simp only
    rw [run_bind_ok (run_slice_seekStart s (c * 2) d (by rw [hsz]; omega))]
    simp only
    obtain ⟨d1, h1, hw1⟩ := run_fat_writeAll_any fs { s with offset := c * 2 } ⟨hb, hsz, hm, hvf⟩
      (bytesLe16 (Table.rawOfValue .fat16 v % 65536)) (by simp [bytesLe16])
      (by show c * 2 + 2 ≤ s.size; rw [hsz]; omega) d hfa hwf hg
    refine ⟨d1, _, _, h1, ⟨hb, hsz, hm, hvf⟩, ?_, hw1.step, hw1.fs_eq,
      fatArr_first16 _ _ hw1.first (by show c * 2 + 2 ≤ _; omega), hw1.frame⟩
    simp only [Fat.set, setRaw16, u32Lim, fatArr_size, rawOfValue_eq]
    rw [if_neg (by omega), if_neg (by omega)]
  | fat12 =>
    rw [hft] at hin
    simp only [off, width] at hin
    unfold Table.set
    simp only
    rw [run_bind_ok (run_slice_seekStart s (c + c / 2) d (by rw [hsz]; omega))]
    simp only
    obtain ⟨d1, h1, hs1⟩ := run_slice_readU16 { s with offset := c + c / 2 } d hfa (by show c + c / 2 + 2 ≤ s.size; rw [hsz]; omega)
      (by show s.beginOff + s.size ≤ _; rw [hb, hsz]; exact hfdev)
    rw [run_bind_ok h1]
    simp only
    rw [run_bind_ok (run_slice_seekStart _ (c + c / 2) d1 (by show c + c / 2 ≤ s.size; rw [hsz]; omega))]
    simp only
    obtain ⟨d2, h2, hw2⟩ := run_fat_writeAll_any fs { s with offset := c + c / 2 } ⟨hb, hsz, hm, hvf⟩
      (bytesLe16 (if c % 2 = 0 then d.img.le16 (s.beginOff + (c + c / 2)) / 4096 * 4096 |||
          Table.rawOfValue .fat12 v % 65536
        else d.img.le16 (s.beginOff + (c + c / 2)) % 16 ||| Table.rawOfValue .fat12 v % 65536 * 16 % 65536))
      (by simp [bytesLe16])
      (by show c + c / 2 + 2 ≤ s.size; rw [hsz]; omega) d1
      (by rw [hs1.failAt]; exact hfa) (by rw [hs1.img]; exact hwf)
      (by rw [hs1.img]; exact hg)
    have hw := hw2.of_sameStore hs1
    refine ⟨d2, _, _, h2, ⟨hb, hsz, hm, hvf⟩, ?_, hw.step, hw.fs_eq,
      fatArr_first16 _ _ hw.first (by show c + c / 2 + 2 ≤ _; omega), hw.frame⟩
    simp only [Fat.set, setRaw12, u32Lim, fatArr_size, rawOfValue_eq, pack12]
    rw [if_neg (by omega), if_neg (by omega), rd16_fatArr fs d.img _ (by omega), hb]
  | fat32 =>
    rw [hft] at hin
    simp only [off, width] at hin
    unfold Table.set
    simp only
    obtain ⟨d1, h1, hs1⟩ := run_getRaw .fat32 s c d hfa (by simp only [entOff, entWidth]; rw [hsz]; omega)
      (by rw [hb, hsz]; exact hfdev)
    rw [run_bind_ok h1]
    simp only
    have hnp : ¬ (v = FatValue.free ∧ Table.isSpecial32 c = true) := by
      rintro ⟨_, h2⟩
      apply hnsp
      simpa [Table.isSpecial32, special32] using h2
    rw [if_neg hnp]
    rw [run_bind_ok (run_slice_seekStart _ (c * 4) d1 (by show c * 4 ≤ s.size; rw [hsz]; omega))]
    simp only
    obtain ⟨d2, h2, hw2⟩ := run_fat_writeAll_any fs { s with offset := c * 4 } ⟨hb, hsz, hm, hvf⟩
      (bytesLe32 (Table.rawOfValue .fat32 v ||| imgFatRaw .fat32 s.beginOff d.img c / 0x10000000 * 0x10000000))
      (by simp [bytesLe32])
      (by show c * 4 + 4 ≤ s.size; rw [hsz]; omega) d1
      (by rw [hs1.failAt]; exact hfa) (by rw [hs1.img]; exact hwf)
      (by rw [hs1.img]; exact hg)
    have hw := hw2.of_sameStore hs1
    refine ⟨d2, _, _, h2, ⟨hb, hsz, hm, hvf⟩, ?_, hw.step, hw.fs_eq,
      fatArr_first32 _ _ hw.first (by show c * 4 + 4 ≤ _; omega), hw.frame⟩
    simp only [Fat.set, set32, getRaw32, setRaw32, u32Lim, fatArr_size, rawOfValue_eq, imgFatRaw]
    rw [if_neg (by omega), if_neg (by omega)]
    simp only
    rw [if_neg (fun h => hnsp h.2), if_neg (by omega), if_neg (by omega), rd32_fatArr fs d.img _ (by omega), hb]

/-- `set` at an entry of the table, at the level of the decoded table, volume marked dirty or not -/
theorem run_table_set_view_any (fs : FsState) (s : DiskSlice) (hs : IsFatSlice fs s) (c : Nat) (v : FatValue) (d : Dev)
    (hfa : d.failAt = none) (hwf : d.img.WF) (hg : Geo fs d.img.size) (hc : c < fs.totalClusters + 2)
    (hv : Representable fs.fatType v) :
    ∃ d' s', run (Table.set DiskSlice.strm fs.fatType s c v) d = (.ok s', d') ∧ IsFatSlice fs s' ∧
      DevStep d d' ∧ d'.fs = markedFs d.fs ∧ tabView fs d'.img = updV (tabView fs d.img) c v ∧
      (∀ q, 0x42 ≤ q → OutsideFat fs q → d'.img.getByte q = d.img.getByte q) := by
  obtain ⟨d1, s1, arr1, hr, hsl, hset, hu⟩ := run_table_set_any fs s hs c v d hfa hwf hg hc
  exact ⟨d1, s1, hr, hsl, hu.step, hu.fs_eq,
    tabView_of_set hg d.img d1.img hc hv (by rw [hu.arr]; exact hset), hu.frame⟩


/-- `table.rs::alloc_cluster` on the FAT slice, volume marked dirty or not -/
theorem run_allocCluster_any (fs : FsState) (s : DiskSlice) (hs : IsFatSlice fs s) (prev hint : Option Nat) (d : Dev)
    (hfa : d.failAt = none) (hwf : d.img.WF) (hg : Geo fs d.img.size)
    (hh : ∀ n, hint = some n → 2 ≤ n) (hp : ∀ p, prev = some p → p < fs.totalClusters + 2) :
    (allocFindV (tabView fs d.img) hint fs.totalClusters = none ∧
      ∃ d', run (Table.allocCluster DiskSlice.strm fs.fatType s prev hint fs.totalClusters) d = (.error .noSpace, d') ∧
        SameStore d d') ∨
    (∃ c d' s', allocFindV (tabView fs d.img) hint fs.totalClusters = some c ∧
      run (Table.allocCluster DiskSlice.strm fs.fatType s prev hint fs.totalClusters) d = (.ok (c, s'), d') ∧
      DevStep d d' ∧ d'.fs = markedFs d.fs ∧
      tabView fs d'.img = allocLinkV (tabView fs d.img) prev c ∧
      (∀ q, 0x42 ≤ q → OutsideFat fs q → d'.img.getByte q = d.img.getByte q)) := by
  obtain ⟨d1, hs1, hout⟩ := run_allocFind fs d.img hg s hint d hs hfa rfl
  rw [allocCluster_eq]
  cases hf : allocFindV (tabView fs d.img) hint fs.totalClusters with
  | none =>
    left
    rw [hf] at hout
    refine ⟨rfl, d1, ?_, hs1⟩
    rw [run_bind_error hout]
  | some c =>
    right
    rw [hf] at hout
    obtain ⟨s1, hr, hsl1⟩ := hout
    obtain ⟨hc2, hct, _⟩ := allocFindV_some _ _ _ _ hh hf
    rw [run_bind_ok hr]
    simp only
    have hfa1 : d1.failAt = none := by rw [hs1.failAt]; exact hfa
    have hwf1 : d1.img.WF := by rw [hs1.img]; exact hwf
    have hg1 : Geo fs d1.img.size := by rw [hs1.img]; exact hg
    have hsmall := hg.small
    have hrep_eoc : Representable fs.fatType .eoc := by cases fs.fatType <;> trivial
    obtain ⟨d2, s2, hr2, hsl2, hst2, hfs2, htv2', hfr2⟩ :=
      run_table_set_view_any fs s1 hsl1 c .eoc d1 hfa1 hwf1 hg1 hct hrep_eoc
    rw [run_bind_ok hr2]
    have htv2 : tabView fs d2.img = updV (tabView fs d.img) c .eoc := by rw [htv2', hs1.img]
    cases hprev : prev with
    | none =>
      simp only
      refine ⟨c, d2, s2, rfl, rfl, (DevStep.of_sameStore hs1).trans hst2, by rw [hfs2, hs1.fs], ?_, ?_⟩
      · rw [htv2]; rfl
      · intro q h1 h2; rw [hfr2 q h1 h2, hs1.img]
    | some p =>
      simp only
      have hpt := hp p hprev
      have hfa2 : d2.failAt = none := by rw [hst2.failAt]; exact hfa1
      have hwf2 : d2.img.WF := hst2.wf hwf1
      have hg2 : Geo fs d2.img.size := by rw [hst2.size]; exact hg1
      have hrep_data : Representable fs.fatType (.data c) := by
        cases hft : fs.fatType <;> rw [hft] at hsmall <;> simp only [badMark] at hsmall <;>
          simp only [Representable] <;> omega
      obtain ⟨d3, s3, hr3, hsl3, hst3, hfs3, htv3, hfr3⟩ :=
        run_table_set_view_any fs s2 hsl2 p (.data c) d2 hfa2 hwf2 hg2 hpt hrep_data
      rw [run_bind_ok hr3]
      refine ⟨c, d3, s3, rfl, rfl, ((DevStep.of_sameStore hs1).trans hst2).trans hst3, ?_, ?_, ?_⟩
      · rw [hfs3, hfs2, markedFs_idem, hs1.fs]
      · rw [htv3, htv2]; rfl
      · intro q h1 h2; rw [hfr3 q h1 h2, hfr2 q h1 h2, hs1.img]

end FatVerif.FileSim
