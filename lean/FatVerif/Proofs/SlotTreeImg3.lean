import FatVerif.Proofs.SlotTreeImg2
import FatVerif.Proofs.DirWriteSim45
/-!
# Slot trees on a device image, part 3: the CONCRETE bundle `ImgTreeW` and its transport across a write into the
fixed root directory

`ImgTree` (part 1) asks, per directory and denoting stream, for an opaque readable view.  To carry the bundle across
a WRITE the kind of every directory has to be known.  `ImgTreeW d up t cl` (FAT12/16 volumes: the root is the fixed
region) says:

* `Layout d`: not FAT32, image pages well-formed, `alloc` on, `update_accessed_date` off, status byte before the root
  region, first FAT copy before the root region, root region directly before the data region;
* the root: `RootReadable d N`, and the root slots of the image are the root node's slot list followed by end markers
  (slot-level, so that `find_free_entries` / `write_entry` on the image are those on the node's list); the entry of a
  child directory carries the child's cluster;
* every other directory of `t` (path `cur ≠ []`): first cluster `c0 = cl cur`, `ChainReadable d c0 none chain`, the
  listing of the chain's slots = the two dot entries + the node's listing shifted by 2 (`DotsOk`: `.` carries `c0`,
  `..` the parent's cluster), child directories' entries carry the children's clusters.

`ImgTreeW.toImgTree`: the read-only theorems of `Props/C01img.lean` apply.
`imgTreeW_root_step`: after a step that keeps the volume geometry (`VolStep`) and every byte from `0x42` on outside
the root slots (`FrameOutG`), with new root slots = a new root slot list + end markers whose directory children are
the old ones, the bundle holds of the new device and the new tree — every sub-directory is carried over by the frame
(`srcSlots_frame`, `fatAgree_of_frame`, `ChainReadable.of_volStep`).
-/
namespace FatVerif
namespace SlotTreeImg
open Lfn DirSlots DirAlias SlotTree DirSim FatVerif.FileSim FatVerif.Fat

/-! ## slot lists followed by end markers -/

theorem readLoop_append_ends (alloc sv : Bool) (tail : List (List Nat)) (ht : ∀ s ∈ tail, Lfn.isEnd s = true) :
    ∀ (slots : List (List Nat)) (i b : Nat) (bl : LongNameBuilder),
      Lfn.readLoop alloc sv (slots ++ tail) i b bl = Lfn.readLoop alloc sv slots i b bl := by
  intro slots
  induction slots with
  | nil =>
    intro i b bl
    cases tail with
    | nil => rfl
    | cons e r =>
      simp only [List.nil_append, Lfn.readLoop, slotClass, ht e (by simp), if_true]
  | cons s rest ih =>
    intro i b bl
    simp only [List.cons_append, Lfn.readLoop]
    split <;> simp only [ih]

theorem listing_append_ends (slots tail : List (List Nat)) (ht : ∀ s ∈ tail, Lfn.isEnd s = true) :
    listing (slots ++ tail) = listing slots := by
  unfold listing readDirEntries
  exact readLoop_append_ends _ _ tail ht slots _ _ _

theorem check_append_ends (up : Char → List Char) (slots tail : List (List Nat))
    (ht : ∀ s ∈ tail, Lfn.isEnd s = true) (name : String) (k : Option Bool) (fuel : Nat) :
    checkForExistenceL up (slots ++ tail) name k fuel = checkForExistenceL up slots name k fuel := by
  unfold checkForExistenceL
  rw [listing_append_ends slots tail ht]

theorem findFreeLoop_append_ends (num : Nat) (tail : List (List Nat)) (ht : ∀ s ∈ tail, Lfn.isEnd s = true) :
    ∀ (slots : List (List Nat)) (ff nf i : Nat),
      DirSlots.findFreeLoop num (slots ++ tail) ff nf i = DirSlots.findFreeLoop num slots ff nf i := by
  intro slots
  induction slots with
  | nil =>
    intro ff nf i
    cases tail with
    | nil => rfl
    | cons e r => simp only [List.nil_append, DirSlots.findFreeLoop, ht e (by simp), if_true]
  | cons s rest ih =>
    intro ff nf i
    simp only [List.cons_append, DirSlots.findFreeLoop, ih]

theorem findFree_append_ends (slots tail : List (List Nat)) (ht : ∀ s ∈ tail, Lfn.isEnd s = true) (num : Nat) :
    DirSlots.findFree (slots ++ tail) num = DirSlots.findFree slots num :=
  findFreeLoop_append_ends num tail ht slots 0 0 0

/-- writing into a slot list followed by end markers = writing into the list, followed by (a suffix of) the markers -/
theorem writeAt_append_tail (slots tail new : List (List Nat)) (i : Nat) (hi : i ≤ slots.length) :
    DirSlots.writeAt (slots ++ tail) i new = DirSlots.writeAt slots i new ++ tail.drop (i + new.length - slots.length) := by
  unfold DirSlots.writeAt
  rw [List.take_append_of_le_length hi, List.drop_append]
  simp only [List.append_assoc]

theorem writeEntry_append_ends (slots tail : List (List Nat)) (ht : ∀ s ∈ tail, Lfn.isEnd s = true)
    (units sfn : List Nat) (hle : DirSlots.findFree slots (numParts units.length + 1) ≤ slots.length) :
    ∃ tail', DirSlots.writeEntry (slots ++ tail) units sfn = DirSlots.writeEntry slots units sfn ++ tail' ∧
      ∀ s ∈ tail', Lfn.isEnd s = true := by
  unfold DirSlots.writeEntry
  rw [findFree_append_ends slots tail ht, writeAt_append_tail slots tail _ _ hle]
  exact ⟨_, rfl, fun s hs => ht s (List.mem_of_mem_drop hs)⟩

theorem deleteFrom_append : ∀ (slots tail : List (List Nat)) (i b e : Nat), e ≤ i + slots.length →
    DirSlots.deleteFrom (slots ++ tail) i b e = DirSlots.deleteFrom slots i b e ++ tail
  | [], tail, i, b, e, h => by
    simp only [List.nil_append, DirSlots.deleteFrom]
    exact deleteFrom_after tail i b e (by simpa using h)
  | s :: rest, tail, i, b, e, h => by
    simp only [List.cons_append, DirSlots.deleteFrom]
    rw [deleteFrom_append rest tail (i + 1) b e (by simp only [List.length_cons] at h; omega)]

theorem deleteRange_append (slots tail : List (List Nat)) (b e : Nat) (he : e ≤ slots.length) :
    DirSlots.deleteRange (slots ++ tail) b e = DirSlots.deleteRange slots b e ++ tail := by
  unfold DirSlots.deleteRange
  exact deleteFrom_append slots tail 0 b e (by omega)

/-! ## the concrete bundle -/

structure Layout (d : Dev) : Prop where
  fat16 : d.fs.fatType ≠ .fat32
  wf : d.img.WF
  alloc : d.fs.lfnAlloc = true
  acc : d.fs.accDate = false
  hB : 0x42 ≤ (rootSliceOf d.fs).beginOff
  fatRoot : (fatSliceOf d.fs).beginOff + (fatSliceOf d.fs).size ≤ (rootSliceOf d.fs).beginOff
  /-- all FAT copies lie before the root region -/
  fatAllRoot : (fatSliceOf d.fs).beginOff + (fatSliceOf d.fs).mirrors * (fatSliceOf d.fs).size ≤
    (rootSliceOf d.fs).beginOff
  rootData : d.fs.rootDirSectors ≤ d.fs.firstDataSector

theorem Layout.of_volStep {d d' : Dev} (L : Layout d) (hs : VolStep d d') : Layout d' := by
  have hg := hs.geom
  refine ⟨by rw [hg.fatType]; exact L.fat16, hs.wf L.wf, ?_, by rw [hg.accDate]; exact L.acc,
    by rw [rootSliceOf_geomEq hg]; exact L.hB, by rw [rootSliceOf_geomEq hg, hg.fatSlice]; exact L.fatRoot,
    by rw [rootSliceOf_geomEq hg, hg.fatSlice]; exact L.fatAllRoot, ?_⟩
  · have : d'.fs.lfnAlloc = d.fs.lfnAlloc := by rw [hg]
    rw [this]; exact L.alloc
  · have h1 : d'.fs.rootDirSectors = d.fs.rootDirSectors := by rw [hg]
    have h2 : d'.fs.firstDataSector = d.fs.firstDataSector := by rw [hg]
    rw [h1, h2]; exact L.rootData

theorem rootDirStream_fixed (fs : FsState) (h : fs.fatType ≠ .fat32) : rootDirStream fs = rootAt fs 0 := by
  unfold rootDirStream
  cases hf : fs.fatType <;> first | rfl | exact absurd hf h

def rootSrc (fs : FsState) : Nat → Nat := fun o => (rootSliceOf fs).beginOff + o

/-- the root node `.dir slots ch` in the fixed root region -/
def RootImg (d : Dev) (cl : List String → Option Nat) (slots : List (List Nat)) (ch : List (LfnEntry × Node)) : Prop :=
  ∃ (N : Nat) (tail : List (List Nat)), RootReadable d N ∧ rootDirSlots d.fs d.img = slots ++ tail ∧
    (∀ s ∈ tail, Lfn.isEnd s = true) ∧
    ∀ x ∈ ch, x.2.isDir = true → (toDirEntryS (rootSrc d.fs) x.1).firstCluster d.fs = cl [entryName x.1]

/-- the sub-directory node `.dir slots ch` at the path `cur` in its cluster chain -/
def SubImg (d : Dev) (cl : List String → Option Nat) (cur : List String) (slots : List (List Nat))
    (ch : List (LfnEntry × Node)) : Prop :=
  ∃ (c0 : Nat) (chain : List Nat) (e1 e2 : LfnEntry), cl cur = some c0 ∧ ChainReadable d c0 none chain ∧
    listing (chainSlots d.fs d.img chain) = [e1, e2] ++ (listing slots).map (shiftE 2) ∧
    DotsOk d.fs (chainSrc d.fs chain) cl cur e1 e2 ∧
    ∀ x ∈ ch, x.2.isDir = true →
      (toDirEntryS (chainSrc d.fs chain) (shiftE 2 x.1)).firstCluster d.fs = cl (cur ++ [entryName x.1])

structure ImgTreeW (d : Dev) (up : Char → List Char) (t : Node) (cl : List String → Option Nat) : Prop where
  lay : Layout d
  rootNone : cl [] = none
  rootImg : ∀ slots ch, t = .dir slots ch → RootImg d cl slots ch
  subs : ∀ cur slots ch, cur ≠ [] → getAtS up t cur = some (.dir slots ch) → SubImg d cl cur slots ch

/-! ## … gives the abstract one -/

/-- a cluster-chain directory readable through the entry-less handle is readable through the handle of any clean
    directory entry (`update_accessed_date` off) -/
theorem chainReadable_ent {d : Dev} {c0 : Nat} {chain : List Nat} (h : ChainReadable d c0 none chain)
    (hacc : d.fs.accDate = false) (e : DirEntry) (hd : e.isDir = true) :
    ChainReadable d c0 (some e.editor) chain := by
  obtain ⟨⟨f1, f2, _, f4, f5, _, _, _, f9, f10⟩, hf⟩ := h
  refine ⟨⟨f1, f2, rfl, f4, f5, ?_, Or.inl hacc, ?_, f9, f10⟩, hf⟩
  · show e.data.size? = none
    unfold DirFileEntryData.size? DirFileEntryData.isFile
    have : e.data.isDir = true := hd
    simp [this]
  · intro ed hed
    cases hed
    rfl

theorem map_shiftE_zero (l : List LfnEntry) : l.map (shiftE 0) = l := by
  induction l with
  | nil => rfl
  | cons e r ih => rw [List.map_cons, ih]; rfl

theorem dirStream_of_cluster (fs : FsState) (e : DirEntry) (c : Nat) (h : e.firstCluster fs = some c) :
    DirEntry.dirStream fs e = .file (FileH.new (some c) (some e.editor)) := by
  unfold DirEntry.dirStream; rw [h]

theorem dirStream_of_none (fs : FsState) (e : DirEntry) (h : e.firstCluster fs = none) :
    DirEntry.dirStream fs e = rootDirStream fs := by
  unfold DirEntry.dirStream; rw [h]

theorem ImgTreeW.toImgTree {d : Dev} {up : Char → List Char} {t : Node} {cl : List String → Option Nat}
    (W : ImgTreeW d up t cl) : ImgTree d up t cl := by
  refine ⟨W.rootNone, ?_⟩
  intro cur slots ch hg st hs
  by_cases hc : cur = []
  · subst hc
    have ht : t = .dir slots ch := by simpa [getAtS] using hg
    obtain ⟨N, tail, hR, hsl, htl, hchild⟩ := W.rootImg slots ch ht
    have hst : st = rootAt d.fs 0 := by
      rw [← rootDirStream_fixed d.fs W.lay.fat16]
      rcases hs with ⟨_, h⟩ | ⟨e, _, he, h⟩
      · exact h
      · rw [h, W.rootNone] at *; exact dirStream_of_none _ _ he
    subst hst
    refine ⟨DirView.ofRoot hR, [], 0, ?_, fun _ => rfl, fun h => absurd rfl h, ?_⟩
    · show readDirEntries d.fs.lfnAlloc true (srcSlots d.img (rootSrc d.fs) N) = _
      rw [W.lay.alloc]
      have := srcSlots_root hR
      unfold rootSrc
      rw [this, hsl]
      show listing (slots ++ tail) = _
      rw [listing_append_ends slots tail htl, List.nil_append, map_shiftE_zero]
    · intro x hx hd
      exact hchild x hx hd
  · obtain ⟨c0, chain, e1, e2, hcl, hC, hlist, hdots, hchild⟩ := W.subs cur slots ch hc hg
    obtain ⟨e, hd, he, hst⟩ : ∃ e : DirEntry, e.isDir = true ∧ e.firstCluster d.fs = some c0 ∧
        st = .file (FileH.new (some c0) (some e.editor)) := by
      rcases hs with ⟨h, _⟩ | ⟨e, hd, he, h⟩
      · rw [hcl] at h; cases h
      · rw [hcl] at he
        exact ⟨e, hd, he, by rw [h]; exact dirStream_of_cluster _ _ _ he⟩
    subst hst
    have hC' := chainReadable_ent hC W.lay.acc e hd
    refine ⟨DirView.ofChain hC', [e1, e2], 2, ?_, fun h => absurd h hc, fun _ => ⟨e1, e2, rfl, hdots⟩, hchild⟩
    show readDirEntries d.fs.lfnAlloc true
      (srcSlots d.img (chainSrc d.fs chain) (chain.length * (d.fs.clusterSize / 32))) = _
    rw [W.lay.alloc, hC'.slots_eq]
    exact hlist

/-! ## transport across a write into the root -/

theorem firstCluster_geom {a b : FsState} (h : FsGeomEq a b) (e : DirEntry) :
    e.firstCluster b = e.firstCluster a := by
  unfold DirEntry.firstCluster; rw [h.fatType]

theorem chainSlots_of_step {d d' : Dev} {c0 : Nat} {chain : List Nat} (h : ChainReadable d c0 none chain)
    (h' : ChainReadable d' c0 none chain) (hs : VolStep d d')
    (hsl : srcSlots d'.img (chainSrc d.fs chain) (chain.length * (d.fs.clusterSize / 32)) =
      srcSlots d.img (chainSrc d.fs chain) (chain.length * (d.fs.clusterSize / 32))) :
    chainSlots d'.fs d'.img chain = chainSlots d.fs d.img chain := by
  rw [← h'.slots_eq, ← h.slots_eq, chainSrc_of_volStep hs, hs.geom.clusterSize]
  exact hsl

/-- a sub-directory is carried across a step that keeps the geometry and every byte from `0x42` on outside the
    root slots -/
theorem SubImg.of_rootStep {d d' : Dev} {cl : List String → Option Nat} {cur : List String}
    {slots : List (List Nat)} {ch : List (LfnEntry × Node)} (L : Layout d) {N : Nat} (hR : RootReadable d N)
    (hs : VolStep d d') (hfr : FrameOutG N (rootSrc d.fs) d d') (S : SubImg d cl cur slots ch) :
    SubImg d' cl cur slots ch := by
  obtain ⟨c0, chain, e1, e2, hcl, hC, hlist, hdots, hchild⟩ := S
  have hend := rootSlice_end d.fs L.rootData
  have hfat : FatAgree d.fs d.img d'.img :=
    fatAgree_of_frame hfr d.fs hC.dir.geo.status_lt (fun j hj => by
      show _ ≤ (rootSliceOf d.fs).beginOff + 32 * j
      have := L.fatRoot; omega)
  have hC' : ChainReadable d' c0 none chain := hC.of_volStep hs hfat
  have hsl := srcSlots_frame hfr (chainSrc d.fs chain) (chain.length * (d.fs.clusterSize / 32)) (fun i hi x hx => by
    obtain ⟨b1, b2⟩ := hC.dir.slot_behind i hi
    refine ⟨by omega, fun j hj => ?_⟩
    show ¬ ((rootSliceOf d.fs).beginOff + 32 * j ≤ _ ∧ _ < (rootSliceOf d.fs).beginOff + 32 * j + 32)
    have := hR.slots
    omega)
  have hcs := chainSlots_of_step hC hC' hs hsl
  have hsrc := chainSrc_of_volStep hs chain
  refine ⟨c0, chain, e1, e2, hcl, hC', by rw [hcs]; exact hlist, ?_, ?_⟩
  · rw [hsrc]
    exact ⟨hdots.units1, hdots.raw1, hdots.dir1, by rw [firstCluster_geom hs.geom]; exact hdots.own,
      hdots.units2, hdots.raw2, hdots.dir2, by rw [firstCluster_geom hs.geom]; exact hdots.parent⟩
  · intro x hx hd
    rw [hsrc, firstCluster_geom hs.geom]
    exact hchild x hx hd

/-- a directory reached below the new root was there before -/
theorem getAtS_root_change {up : Char → List Char} {slots slots' : List (List Nat)}
    {ch ch' : List (LfnEntry × Node)}
    (hlook : ∀ q x, lookupS up slots' ch' q = some x → x.2.isDir = true → lookupS up slots ch q = some x)
    (q : String) (r : List String) (s : List (List Nat)) (c : List (LfnEntry × Node))
    (h : getAtS up (.dir slots' ch') (q :: r) = some (.dir s c)) :
    getAtS up (.dir slots ch) (q :: r) = some (.dir s c) := by
  simp only [getAtS] at h ⊢
  cases hl : lookupS up slots' ch' q with
  | none => rw [hl] at h; cases h
  | some x =>
    rw [hl] at h
    simp only at h
    have hd : x.2.isDir = true := by
      cases hx : x.2 with
      | dir _ _ => rfl
      | file b =>
        rw [hx] at h
        obtain ⟨_, h2⟩ := getAtS_file b r _ h
        cases h2
    rw [hlook q x hl hd]
    exact h

/-- **the bundle after a write into the root directory** -/
theorem imgTreeW_root_step {d d' : Dev} {up : Char → List Char} {cl : List String → Option Nat}
    {slots slots' : List (List Nat)} {ch ch' : List (LfnEntry × Node)} (W : ImgTreeW d up (.dir slots ch) cl)
    {N : Nat} (hR : RootReadable d N) (hs : VolStep d d') (hfr : FrameOutG N (rootSrc d.fs) d d')
    (tail' : List (List Nat)) (hsl' : rootDirSlots d'.fs d'.img = slots' ++ tail')
    (htl' : ∀ s ∈ tail', Lfn.isEnd s = true)
    (hdirs : ∀ x ∈ ch', x.2.isDir = true → x ∈ ch)
    (hlook : ∀ q x, lookupS up slots' ch' q = some x → x.2.isDir = true → lookupS up slots ch q = some x) :
    ImgTreeW d' up (.dir slots' ch') cl := by
  refine ⟨W.lay.of_volStep hs, W.rootNone, ?_, ?_⟩
  · intro s c ht
    simp only [Node.dir.injEq] at ht
    obtain ⟨rfl, rfl⟩ := ht
    obtain ⟨N0, tail0, _, _, _, hchild⟩ := W.rootImg slots ch rfl
    refine ⟨N, tail', hR.of_volStep hs, hsl', htl', ?_⟩
    intro x hx hd
    have := hchild x (hdirs x hx hd) hd
    unfold rootSrc at this ⊢
    rw [rootSliceOf_geomEq hs.geom, firstCluster_geom hs.geom]
    exact this
  · intro cur s c hne hg
    cases cur with
    | nil => exact absurd rfl hne
    | cons q r =>
      have hg0 := getAtS_root_change hlook q r s c hg
      exact (W.subs (q :: r) s c hne hg0).of_rootStep W.lay hR hs hfr

end SlotTreeImg
end FatVerif
