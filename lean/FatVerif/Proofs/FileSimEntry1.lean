import FatVerif.Proofs.FileSimSeek
import FatVerif.Proofs.FileSimWriteAlloc
import FatVerif.Proofs.FileSimTruncate
import FatVerif.Proofs.DirEntry
/-!
# FileSim / entry, part 1: how ONE call of `File` changes the handle's directory-entry editor

Independent of the device: whatever `read` / `seek` / `write` / `truncate` return on success, the editor of the new
handle is the old one after some of `set_accessed`, `set_modified`, `set_size`, `set_first_cluster` — same slot, same
attributes, still well formed, first-cluster field equal to the handle's first cluster; and an editor that is clean
afterwards was clean before and carries the same record (`EdStep`).
-/
namespace FatVerif.FileSim
open FatVerif FatVerif.Fat

theorem run_bind_ok_inv {α β} {p : Prog β} {k : β → Prog α} {d d' : Dev} {r : α}
    (h : run (p >>= k) d = (.ok r, d')) : ∃ b d1, run p d = (.ok b, d1) ∧ run (k b) d1 = (.ok r, d') := by
  rcases run_bind_cases (p := p) (k := k) h with ⟨b, d1, h1, h2⟩ | ⟨e, _, he⟩
  · exact ⟨b, d1, h1, h2⟩
  · cases he

theorem run_pure_inv {α} {a r : α} {d d' : Dev} (h : run (pure a : Prog α) d = (.ok r, d')) : r = a := by
  have : run (pure a : Prog α) d = (.ok a, d) := rfl
  rw [this] at h
  exact (Except.ok.inj (congrArg Prod.fst h)).symm

/-- the editor moved on: same slot, same attributes and name; clean afterwards only if untouched -/
structure EdRel (e e' : DirEntryEditor) : Prop where
  pos : e'.pos = e.pos
  attrs : e'.data.attrs = e.data.attrs
  clean : e'.dirty = false → e' = e

theorem EdRel.refl (e : DirEntryEditor) : EdRel e e := ⟨rfl, rfl, fun _ => rfl⟩

theorem EdRel.trans {a b c : DirEntryEditor} (h1 : EdRel a b) (h2 : EdRel b c) : EdRel a c :=
  ⟨h2.pos.trans h1.pos, h2.attrs.trans h1.attrs, fun h => by
    have e1 := h2.clean h
    rw [e1] at h
    rw [e1, h1.clean h]⟩

theorem EdRel.setModified (e : DirEntryEditor) (x : DateTime) : EdRel e (e.setModified x) := by
  unfold DirEntryEditor.setModified
  split
  · exact ⟨rfl, rfl, fun h => by cases h⟩
  · exact EdRel.refl e

theorem EdRel.setAccessed (e : DirEntryEditor) (x : Date) : EdRel e (e.setAccessed x) := by
  unfold DirEntryEditor.setAccessed
  split
  · exact ⟨rfl, rfl, fun h => by cases h⟩
  · exact EdRel.refl e

theorem EdRel.setSize (e : DirEntryEditor) (n : Nat) : EdRel e (e.setSize n) := by
  unfold DirEntryEditor.setSize
  split
  · split
    · exact ⟨rfl, rfl, fun h => by cases h⟩
    · exact EdRel.refl e
  · exact EdRel.refl e

theorem EdRel.setFirstCluster (e : DirEntryEditor) (c : Option Nat) (ft : FatType) :
    EdRel e (e.setFirstCluster c ft) := by
  unfold DirEntryEditor.setFirstCluster
  split
  · exact ⟨rfl, rfl, fun h => by cases h⟩
  · exact EdRel.refl e

/-! ### well-formedness of the record -/

theorem clockDateTime_ok (t : Nat) : (clockDateTime t).date.day < 65536 ∧ (clockDateTime t).time.sec < 131072 := by
  constructor
  · show (1 + t / 86400000) % 28 + 1 < 65536
    omega
  · show t % 86400000 / 1000 % 60 < 131072
    omega

theorem wf_setModified_clock {e : DirEntryEditor} (h : e.data.WF) (t : Nat) :
    (e.setModified (clockDateTime t)).data.WF := by
  unfold DirEntryEditor.setModified
  split
  · exact h.setModified _ (clockDateTime_ok t).1 (clockDateTime_ok t).2
  · exact h

theorem wf_setAccessed_clock {e : DirEntryEditor} (h : e.data.WF) (t : Nat) :
    (e.setAccessed (clockDate t)).data.WF := by
  unfold DirEntryEditor.setAccessed
  split
  · exact h.setAccessed _ (clockDateTime_ok t).1
  · exact h

theorem wf_setSize {e : DirEntryEditor} (h : e.data.WF) (n : Nat) (hn : n < 4294967296) : (e.setSize n).data.WF := by
  unfold DirEntryEditor.setSize
  split
  · split
    · exact h.setSize n hn
    · exact h
  · exact h

theorem wf_setFirstCluster {e : DirEntryEditor} (h : e.data.WF) (c : Option Nat) (ft : FatType) :
    (e.setFirstCluster c ft).data.WF := by
  unfold DirEntryEditor.setFirstCluster
  split
  · exact h.setFirstCluster c ft
  · exact h

/-! ### the first-cluster field -/

theorem first_setModified (e : DirEntryEditor) (x : DateTime) (ft : FatType) :
    (e.setModified x).data.firstCluster ft = e.data.firstCluster ft := by
  unfold DirEntryEditor.setModified
  split <;> rfl

theorem first_setAccessed (e : DirEntryEditor) (x : Date) (ft : FatType) :
    (e.setAccessed x).data.firstCluster ft = e.data.firstCluster ft := by
  unfold DirEntryEditor.setAccessed
  split <;> rfl

theorem first_setSize (e : DirEntryEditor) (n : Nat) (ft : FatType) :
    (e.setSize n).data.firstCluster ft = e.data.firstCluster ft := by
  unfold DirEntryEditor.setSize
  split
  · split <;> rfl
  · rfl

/-- a cluster number the 16 (FAT12/16) or 32 (FAT32) bits of the record can hold -/
def FirstOk (ft : FatType) (o : Option Nat) : Prop :=
  ∀ c, o = some c → c ≠ 0 ∧ c < (if ft = .fat32 then 4294967296 else 65536)

theorem first_setFirstCluster (e : DirEntryEditor) (c : Option Nat) (ft : FatType) (hc : FirstOk ft c) :
    (e.setFirstCluster c ft).data.firstCluster ft = c := by
  unfold DirEntryEditor.setFirstCluster
  split
  · show (e.data.setFirstCluster c ft).firstCluster ft = c
    unfold DirFileEntryData.firstCluster DirFileEntryData.firstClusterRaw DirFileEntryData.setFirstCluster
    cases c with
    | none => by_cases hft : ft = .fat32 <;> simp [hft]
    | some c =>
      obtain ⟨h0, hlt⟩ := hc c rfl
      simp only [Option.getD_some]
      by_cases hft : ft = .fat32
      · simp only [hft, if_true] at hlt ⊢
        have : c / 65536 % 65536 * 65536 + c % 65536 = c := by omega
        rw [this, if_neg h0]
      · simp only [hft, if_false] at hlt ⊢
        have : 0 * 65536 + c % 65536 = c := by omega
        rw [this, if_neg h0]
  · rename_i h
    exact (Decidable.of_not_not h).symm

/-! ### one call -/

/-- what a successful call does to the editor -/
structure EdStep (ft : FatType) (f f' : FileH) : Prop where
  step : ∀ e, f.entry = some e → ∃ e', f'.entry = some e' ∧ EdRel e e' ∧
    (e.data.WF → f'.offset < 4294967296 → e'.data.WF) ∧
    (e.data.firstCluster ft = f.firstCluster → FirstOk ft f'.firstCluster →
      e'.data.firstCluster ft = f'.firstCluster)

theorem EdStep.of_entry_eq {ft : FatType} {f f' : FileH} (he : f'.entry = f.entry)
    (hf : f'.firstCluster = f.firstCluster) : EdStep ft f f' :=
  ⟨fun e h => ⟨e, by rw [he, h], EdRel.refl e, fun hw _ => hw, fun h1 _ => by rw [hf]; exact h1⟩⟩

/-- `seek` does not touch the editor -/
theorem seek_edStep (f : FileH) (p : FatVerif.SeekFrom) (d d' : Dev) (pos : Nat) (f' : FileH) (sz : Nat)
    (hsz : f.size? = some sz) (h : run (f.seek p) d = (.ok (pos, f'), d')) : EdStep d.fs.fatType f f' := by
  rw [seek_eq f p sz hsz] at h
  obtain ⟨fs, d1, h1, h2⟩ := run_bind_ok_inv h
  cases hs : seekTgt f sz p with
  | none => rw [hs] at h2; cases h2
  | some t =>
    rw [hs] at h2
    simp only at h2
    generalize (if t > sz then sz else t) = n at h2
    unfold seekBody at h2
    by_cases c1 : n = f.offset
    · rw [if_pos c1] at h2
      have := run_pure_inv h2; cases this; exact EdStep.of_entry_eq rfl rfl
    · rw [if_neg c1] at h2
      by_cases c2 : n = 0
      · rw [if_pos c2] at h2
        have := run_pure_inv h2; cases this; exact EdStep.of_entry_eq rfl rfl
      · rw [if_neg c2] at h2
        by_cases c3 : FileH.clustersFromBytes fs n = FileH.clustersFromBytes fs f.offset
        · rw [if_pos c3] at h2
          have := run_pure_inv h2; cases this; exact EdStep.of_entry_eq rfl rfl
        · rw [if_neg c3] at h2
          cases hfc : f.firstCluster with
          | none =>
            rw [hfc] at h2
            have := run_pure_inv h2; cases this; exact EdStep.of_entry_eq rfl hfc.symm
          | some first =>
            rw [hfc] at h2
            obtain ⟨x, d2, _, h4⟩ := run_bind_ok_inv h2
            have := run_pure_inv h4; cases this; exact EdStep.of_entry_eq rfl hfc.symm

/-- `read` changes at most the accessed date -/
theorem read_edStep (f : FileH) (n : Nat) (d d' : Dev) (bs : List Nat) (f' : FileH)
    (h : run (f.read n) d = (.ok (bs, f'), d')) : EdStep d.fs.fatType f f' := by
  unfold FileH.read at h
  obtain ⟨fs, d1, h1, h2⟩ := run_bind_ok_inv h
  simp only at h2
  obtain ⟨curOpt, d2, _, h3⟩ := run_bind_ok_inv h2
  cases curOpt with
  | none => have := run_pure_inv h3; cases this; exact EdStep.of_entry_eq rfl rfl
  | some cur =>
    simp only at h3
    split at h3
    · cases h3
    · rename_i left _
      by_cases c1 : min (min n (fs.clusterSize - f.offset % fs.clusterSize)) left = 0
      · rw [if_pos c1] at h3
        have := run_pure_inv h3; cases this; exact EdStep.of_entry_eq rfl rfl
      · rw [if_neg c1] at h3
        obtain ⟨off, d3, _, h4⟩ := run_bind_ok_inv h3
        obtain ⟨_, d4, _, h5⟩ := run_bind_ok_inv h4
        obtain ⟨got, d5, _, h6⟩ := run_bind_ok_inv h5
        by_cases c2 : got.length = 0
        · rw [if_pos c2] at h6
          have := run_pure_inv h6; cases this; exact EdStep.of_entry_eq rfl rfl
        · rw [if_neg c2] at h6
          cases he : f.entry with
          | none =>
            simp only [he] at h6
            have := run_pure_inv h6; cases this
            exact ⟨fun e h => by rw [he] at h; cases h⟩
          | some e =>
            simp only [he] at h6
            by_cases c3 : fs.accDate = true
            · rw [if_pos c3] at h6
              obtain ⟨t, d6, _, h7⟩ := run_bind_ok_inv h6
              have := run_pure_inv h7; cases this
              refine ⟨fun e0 h0 => ?_⟩
              rw [he] at h0; cases h0
              exact ⟨_, rfl, EdRel.setAccessed e _, fun hw _ => wf_setAccessed_clock hw t,
                fun h1 _ => by rw [first_setAccessed]; exact h1⟩
            · rw [if_neg c3] at h6
              have := run_pure_inv h6; cases this
              exact EdStep.of_entry_eq he.symm rfl

/-- `update_dir_entry_after_write` -/
theorem updateAfterWrite_inv (f2 f' : FileH) (d d' : Dev) (h : run f2.updateAfterWrite d = (.ok f', d')) :
    f'.firstCluster = f2.firstCluster ∧ f'.offset = f2.offset ∧
    ∀ e1, f2.entry = some e1 → ∃ e', f'.entry = some e' ∧ EdRel e1 e' ∧
      (e1.data.WF → f2.offset < 4294967296 → e'.data.WF) ∧
      ∀ ft, e'.data.firstCluster ft = e1.data.firstCluster ft := by
  unfold FileH.updateAfterWrite at h
  cases he : f2.entry with
  | none =>
    rw [he] at h
    have := run_pure_inv h; cases this
    exact ⟨rfl, rfl, fun e1 h1 => by cases h1⟩
  | some e =>
    rw [he] at h
    simp only at h
    obtain ⟨t, d1, _, h2⟩ := run_bind_ok_inv h
    have := run_pure_inv h2; cases this
    refine ⟨rfl, rfl, fun e1 h1 => ?_⟩
    cases h1
    refine ⟨_, rfl, ?_, ?_, ?_⟩
    · split
      · split
        · exact (EdRel.setModified e _).trans (EdRel.setSize _ _)
        · exact EdRel.setModified e _
      · exact EdRel.setModified e _
    · intro hw ho
      split
      · split
        · exact wf_setSize (wf_setModified_clock hw t) _ ho
        · exact wf_setModified_clock hw t
      · exact wf_setModified_clock hw t
    · intro ft
      split
      · split
        · rw [first_setSize, first_setModified]
        · rw [first_setModified]
      · rw [first_setModified]

/-- the handle after the cluster selection of `write`: unchanged, or with a fresh first cluster -/
theorem selCluster_inv (f : FileH) (fs : FsState) (d d' : Dev) (c : Nat) (f1 : FileH)
    (h : run (selCluster f fs) d = (.ok (c, f1), d')) :
    f1 = f ∨ (f.firstCluster = none ∧ f1 = FileH.setFirstCluster fs f c) := by
  unfold selCluster at h
  split at h
  · obtain ⟨nxt, d1, _, h2⟩ := run_bind_ok_inv h
    cases nxt with
    | some n => have := run_pure_inv h2; cases this; exact Or.inl rfl
    | none =>
      simp only at h2
      obtain ⟨c', d2, _, h3⟩ := run_bind_ok_inv h2
      have := run_pure_inv h3; cases this
      cases hfc : f.firstCluster with
      | none => right; simp
      | some x => left; simp
  · cases hcc : f.currentCluster with
    | none => rw [hcc] at h; cases h
    | some n => rw [hcc] at h; have := run_pure_inv h; cases this; exact Or.inl rfl

/-- `write`: modification stamp, size, and the first cluster when the file was empty -/
theorem write_edStep (f : FileH) (buf : List Nat) (d d' : Dev) (k : Nat) (f' : FileH)
    (h : run (f.write buf) d = (.ok (k, f'), d')) : EdStep d.fs.fatType f f' := by
  rw [write_eq] at h
  obtain ⟨fs, d1, h1, h2⟩ := run_bind_ok_inv h
  have hfs : fs = d.fs := run_pure_inv (a := d.fs) h1
  subst hfs
  by_cases c1 : writeLenH f d.fs buf.length = 0
  · rw [if_pos c1] at h2
    have := run_pure_inv h2; cases this; exact EdStep.of_entry_eq rfl rfl
  · rw [if_neg c1] at h2
    obtain ⟨_, d2, _, h3⟩ := run_bind_ok_inv h2
    obtain ⟨⟨c, f1⟩, d3, hsel, h4⟩ := run_bind_ok_inv h3
    have hf1 := selCluster_inv f d.fs d2 d3 c f1 hsel
    unfold writeTail at h4
    obtain ⟨off, d4, _, h5⟩ := run_bind_ok_inv h4
    obtain ⟨_, d5, _, h6⟩ := run_bind_ok_inv h5
    obtain ⟨n, d6, _, h7⟩ := run_bind_ok_inv h6
    -- the editor after the cluster selection
    have hstep1 : f1.firstCluster = f.firstCluster ∧ (∀ e, f.entry = some e → f1.entry = some e) ∨
        f.firstCluster = none ∧ f1.firstCluster = some c ∧
          ∀ e, f.entry = some e → f1.entry = some (e.setFirstCluster (some c) d.fs.fatType) := by
      rcases hf1 with rfl | ⟨hn, rfl⟩
      · exact Or.inl ⟨rfl, fun e he => he⟩
      · exact Or.inr ⟨hn, rfl, fun e he => by simp [FileH.setFirstCluster, he]⟩
    by_cases c2 : n = 0
    · rw [if_pos c2] at h7
      have := run_pure_inv h7; cases this
      refine ⟨fun e he => ?_⟩
      rcases hstep1 with ⟨hfc, hen⟩ | ⟨hn, hfc, hen⟩
      · exact ⟨e, hen e he, EdRel.refl e, fun hw _ => hw, fun h1 _ => by rw [hfc]; exact h1⟩
      · exact ⟨_, hen e he, EdRel.setFirstCluster e _ _, fun hw _ => wf_setFirstCluster hw _ _,
          fun _ hok => by rw [hfc] at hok ⊢; exact first_setFirstCluster e _ _ hok⟩
    · rw [if_neg c2] at h7
      obtain ⟨f3, d7, hu, h8⟩ := run_bind_ok_inv h7
      have := run_pure_inv h8; cases this
      obtain ⟨u1, u2, u3⟩ := updateAfterWrite_inv _ _ _ _ hu
      refine ⟨fun e he => ?_⟩
      rcases hstep1 with ⟨hfc, hen⟩ | ⟨hn, hfc, hen⟩
      · obtain ⟨e', he', hrel, hwf, hfirst⟩ := u3 e (hen e he)
        exact ⟨e', he', hrel, fun hw ho => hwf hw (by rw [u2] at ho; exact ho),
          fun h1 _ => by rw [hfirst, u1]; show _ = f1.firstCluster; rw [hfc]; exact h1⟩
      · obtain ⟨e', he', hrel, hwf, hfirst⟩ := u3 _ (hen e he)
        refine ⟨e', he', (EdRel.setFirstCluster e _ _).trans hrel,
          fun hw ho => hwf (wf_setFirstCluster hw _ _) (by rw [u2] at ho; exact ho), fun _ hok => ?_⟩
        rw [hfirst, u1]
        show _ = f1.firstCluster
        rw [u1] at hok
        have hok' : FirstOk d.fs.fatType f1.firstCluster := hok
        rw [hfc] at hok' ⊢
        exact first_setFirstCluster e _ _ hok'

theorem firstOk_none (ft : FatType) : FirstOk ft none := fun c h => by cases h

/-- `truncate`: size, and the first cluster when the file becomes empty -/
theorem truncate_edStep (f : FileH) (d d' : Dev) (f' : FileH) (h : run f.truncate d = (.ok f', d'))
    (hft : ∀ d1, run (setDirtyFlag true) d = (.ok (), d1) → d1.fs.fatType = d.fs.fatType) :
    EdStep d.fs.fatType f f' ∧ f'.offset = f.offset := by
  cases he : f.entry with
  | none =>
    unfold FileH.truncate at h
    obtain ⟨_, d1, _, h2⟩ := run_bind_ok_inv h
    obtain ⟨fs, d2, _, h3⟩ := run_bind_ok_inv h2
    rw [he] at h3
    cases h3
  | some e =>
    rw [truncate_eq f e he] at h
    obtain ⟨_, d1, hd1, h2⟩ := run_bind_ok_inv h
    obtain ⟨fs, d2, hg, h3⟩ := run_bind_ok_inv h2
    have hfs : fs = d1.fs := run_pure_inv (a := d1.fs) hg
    have hft1 : fs.fatType = d.fs.fatType := by rw [hfs]; exact hft d1 hd1
    rw [hft1] at h3
    -- the three successful paths
    have hres : (f' = { f with entry := some (truncEditor f e d.fs.fatType) } ∧ (f.offset = 0 → f.firstCluster = none)) ∨
        (f' = { f with entry := some (truncEditor f e d.fs.fatType), firstCluster := none } ∧ f.offset = 0) := by
      unfold truncBody at h3
      cases hcc : f.currentCluster with
      | some cur =>
        simp only [hcc] at h3
        by_cases c1 : f.offset = 0
        · rw [if_pos c1] at h3; cases h3
        · rw [if_neg c1] at h3
          obtain ⟨_, d3, _, h4⟩ := run_bind_ok_inv h3
          have := run_pure_inv h4; cases this
          exact Or.inl ⟨rfl, fun h0 => absurd h0 c1⟩
      | none =>
        simp only [hcc] at h3
        by_cases c1 : f.offset ≠ 0
        · rw [if_pos c1] at h3; cases h3
        · rw [if_neg c1] at h3
          have c0 : f.offset = 0 := Decidable.of_not_not c1
          cases hfc : f.firstCluster with
          | some n =>
            simp only [hfc] at h3
            obtain ⟨_, d3, _, h4⟩ := run_bind_ok_inv h3
            have := run_pure_inv h4; cases this
            exact Or.inr ⟨rfl, c0⟩
          | none =>
            simp only [hfc] at h3
            have := run_pure_inv h3; cases this
            exact Or.inl ⟨rfl, fun _ => rfl⟩
    have hrel : EdRel e (truncEditor f e d.fs.fatType) := by
      unfold truncEditor
      split
      · exact (EdRel.setSize e _).trans (EdRel.setFirstCluster _ _ _)
      · exact EdRel.setSize e _
    have hwf : e.data.WF → f.offset < 4294967296 → (truncEditor f e d.fs.fatType).data.WF := by
      intro hw ho
      unfold truncEditor
      split
      · exact wf_setFirstCluster (wf_setSize hw _ ho) _ _
      · exact wf_setSize hw _ ho
    rcases hres with ⟨rfl, h0⟩ | ⟨rfl, h0⟩
    · refine ⟨⟨fun e0 he0 => ?_⟩, rfl⟩
      have he0' : some e = some e0 := by rw [← he]; exact he0
      cases he0'
      refine ⟨_, rfl, hrel, hwf, fun h1 _ => ?_⟩
      unfold truncEditor
      split
      · rename_i hz
        rw [first_setFirstCluster _ _ _ (firstOk_none _)]
        exact (h0 hz).symm
      · rw [first_setSize]; exact h1
    · refine ⟨⟨fun e0 he0 => ?_⟩, rfl⟩
      have he0' : some e = some e0 := by rw [← he]; exact he0
      cases he0'
      refine ⟨_, rfl, hrel, hwf, fun _ _ => ?_⟩
      unfold truncEditor
      rw [if_pos h0]
      exact first_setFirstCluster _ _ _ (firstOk_none _)

end FatVerif.FileSim
