import FatVerif.Proofs.DirWriteSim13
/-! Directory WRITES, part 14: helper lemmas for the tree-level composition — where the slots of a chain directory lie,
    disjointness of the slots of different directories, the kind and first cluster of the entry `create_write_sim`
    returns. -/
namespace FatVerif.DirSim
open FatVerif.FileSim FatVerif.Fat DirEntryData

section chain
variable {d : Dev} {f0 : FileH} {c0 : Nat} {chain : List Nat}

/-- every slot of a chain directory lies inside one cluster of its chain -/
theorem ChainCore.slot_in_cluster (C : ChainCore d f0 c0 chain) (i : Nat)
    (hi : i < chain.length * (d.fs.clusterSize / 32)) :
    ∃ c ∈ chain, clusterOff d.fs c ≤ chainSrc d.fs chain (32 * i) ∧
      chainSrc d.fs chain (32 * i) + 32 ≤ clusterOff d.fs c + d.fs.clusterSize := by
  have hcs := C.geo.cs_pos
  have h32 := C.cs32
  have hK : 32 * (d.fs.clusterSize / 32) = d.fs.clusterSize := by
    have := Nat.div_add_mod d.fs.clusterSize 32; omega
  have hT : 32 * i + 32 ≤ chain.length * d.fs.clusterSize := by
    have : 32 * (chain.length * (d.fs.clusterSize / 32)) = chain.length * d.fs.clusterSize := by
      rw [Nat.mul_left_comm, hK]
    omega
  have hlt : 32 * i / d.fs.clusterSize < chain.length := div_lt_of_lt_mul hcs (by omega)
  have hmod : 32 * i % d.fs.clusterSize + 32 ≤ d.fs.clusterSize := by
    have h1 : 32 * i % d.fs.clusterSize % 32 = 0 := by
      rw [Nat.mod_mod_of_dvd _ (Nat.dvd_of_mod_eq_zero h32)]; omega
    have := Nat.mod_lt (32 * i) hcs
    omega
  refine ⟨chain[32 * i / d.fs.clusterSize], List.getElem_mem hlt, ?_, ?_⟩
  · unfold chainSrc
    rw [List.getD_eq_getElem?_getD, List.getElem?_eq_getElem hlt]
    simp only [Option.getD]; omega
  · unfold chainSrc
    rw [List.getD_eq_getElem?_getD, List.getElem?_eq_getElem hlt]
    simp only [Option.getD]; omega

/-- the clusters of the table are pairwise disjoint byte ranges behind the FAT -/
theorem cluster_ranges_disjoint (fs : FsState) {a b : Nat} (ha : 2 ≤ a) (hb : 2 ≤ b) (hab : a ≠ b) :
    clusterOff fs a + fs.clusterSize ≤ clusterOff fs b ∨ clusterOff fs b + fs.clusterSize ≤ clusterOff fs a := by
  rcases Nat.lt_or_gt_of_ne hab with h | h
  · exact Or.inl (clusterOff_lt_of_lt fs ha h)
  · exact Or.inr (clusterOff_lt_of_lt fs hb h)

/-- **the slots of two chain directories with disjoint cluster sets do not meet** (the `hcont` of `srcSlots_frame`,
    second part) -/
theorem ChainCore.slots_disjoint {f1 : FileH} {c1 : Nat} {chain1 : List Nat} (C : ChainCore d f0 c0 chain)
    (C1 : ChainCore d f1 c1 chain1) (hdisj : ∀ c ∈ chain, c ∉ chain1) (i : Nat)
    (hi : i < chain.length * (d.fs.clusterSize / 32)) (x : Nat) (hx : x < 32) (j : Nat)
    (hj : j < chain1.length * (d.fs.clusterSize / 32)) :
    ¬ (chainSrc d.fs chain1 (32 * j) ≤ chainSrc d.fs chain (32 * i) + x ∧
       chainSrc d.fs chain (32 * i) + x < chainSrc d.fs chain1 (32 * j) + 32) := by
  obtain ⟨a, ha, h1, h2⟩ := C.slot_in_cluster i hi
  obtain ⟨b, hb, h3, h4⟩ := C1.slot_in_cluster j hj
  have hab : a ≠ b := fun h => hdisj a ha (h ▸ hb)
  have := cluster_ranges_disjoint d.fs (C.inTab a ha).1 (C1.inTab b hb).1 hab
  omega

/-- every slot byte of a chain directory lies behind the status byte, the FAT copies and the fixed root region -/
theorem ChainCore.slot_behind (C : ChainCore d f0 c0 chain) (i : Nat) (hi : i < chain.length * (d.fs.clusterSize / 32)) :
    d.fs.firstDataSector * d.fs.bps ≤ chainSrc d.fs chain (32 * i) ∧ 0x42 ≤ chainSrc d.fs chain (32 * i) := by
  obtain ⟨a, ha, h1, _⟩ := C.slot_in_cluster i hi
  have hfirst : d.fs.firstDataSector * d.fs.bps ≤ clusterOff d.fs 2 := by unfold clusterOff; simp
  have := clusterOff_mono d.fs (C.inTab a ha).1
  have := C.geo.status_lt
  have := C.geo.fat_data
  have : (fatSliceOf d.fs).size ≤ (fatSliceOf d.fs).mirrors * (fatSliceOf d.fs).size :=
    Nat.le_mul_of_pos_left _ C.geo.mirrors_pos
  omega

theorem ChainDir.slot_in_cluster (C : ChainDir d f0 c0 chain) (i : Nat)
    (hi : i < chain.length * (d.fs.clusterSize / 32)) :
    ∃ c ∈ chain, clusterOff d.fs c ≤ chainSrc d.fs chain (32 * i) ∧
      chainSrc d.fs chain (32 * i) + 32 ≤ clusterOff d.fs c + d.fs.clusterSize := C.core.slot_in_cluster i hi

theorem ChainDir.slots_disjoint {f1 : FileH} {c1 : Nat} {chain1 : List Nat} (C : ChainDir d f0 c0 chain)
    (C1 : ChainDir d f1 c1 chain1) (hdisj : ∀ c ∈ chain, c ∉ chain1) (i : Nat)
    (hi : i < chain.length * (d.fs.clusterSize / 32)) (x : Nat) (hx : x < 32) (j : Nat)
    (hj : j < chain1.length * (d.fs.clusterSize / 32)) :
    ¬ (chainSrc d.fs chain1 (32 * j) ≤ chainSrc d.fs chain (32 * i) + x ∧
       chainSrc d.fs chain (32 * i) + x < chainSrc d.fs chain1 (32 * j) + 32) :=
  C.core.slots_disjoint C1.core hdisj i hi x hx j hj

theorem ChainDir.slot_behind (C : ChainDir d f0 c0 chain) (i : Nat) (hi : i < chain.length * (d.fs.clusterSize / 32)) :
    d.fs.firstDataSector * d.fs.bps ≤ chainSrc d.fs chain (32 * i) ∧ 0x42 ≤ chainSrc d.fs chain (32 * i) :=
  C.core.slot_behind i hi

/-- the fixed root region ends where the data region starts (when it lies inside the reserved part) -/
theorem rootSlice_end (fs : FsState) (h : fs.rootDirSectors ≤ fs.firstDataSector) :
    (rootSliceOf fs).beginOff + (rootSliceOf fs).size = fs.firstDataSector * fs.bps := by
  simp only [rootSliceOf]
  rw [← Nat.add_mul, Nat.sub_add_cancel h]

end chain

/-! ### the entry `create_write_sim` returns -/

theorem sfnWith_slotOK (a : List Nat) (attrs : Nat) (stamp : List Nat) (ha : a.length = 11) (hattrs : attrs < 256) :
    SlotOK (DirAlias.sfnWith a (attrs :: stamp)) := by
  unfold SlotOK DirAlias.sfnWith
  refine ⟨by simp [ha], ?_⟩
  rw [List.getD_eq_getElem?_getD, List.getElem?_append_right (by omega), ha]
  simpa using hattrs

/-- kind of the returned entry: the `DIRECTORY` bit of the attribute byte -/
theorem toDirEntryS_sfnWith_isDir (src : Nat → Nat) (a : List Nat) (attrs : Nat) (stamp units : List Nat) (b e : Nat)
    (ha : a.length = 11) (hattrs : attrs < 256) :
    (toDirEntryS src ⟨DirAlias.sfnWith a (attrs :: stamp), units, b, e⟩).isDir = (attrs % 64 / 16 % 2 == 1) := by
  rw [toDirEntryS_isDir src _ (sfnWith_slotOK a attrs stamp ha hattrs)]
  simp only [Lfn.isDir, Lfn.attrs, Lfn.byte, DirAlias.sfnWith]
  rw [List.getD_eq_getElem?_getD, List.getElem?_append_right (by omega), ha]
  simp

/-- the record behind the returned entry is the one `create_sfn_entry` built -/
theorem toDirEntryS_sfnAt_data (src : Nat → Nat) (fs : FsState) (t : Nat) (a : List Nat) (attrs : Nat)
    (first : Option Nat) (units : List Nat) (b e : Nat) (ha : a.length = 11) (hab : ∀ x ∈ a, x < 256) (hattrs : attrs < 64)
    (hlfn : attrsIsLfn attrs = false) :
    (toDirEntryS src ⟨DirAlias.sfnWith a (attrs :: sfnStamp fs t first), units, b, e⟩).data = sfnAt fs t a attrs first := by
  rw [← sfnAt_serialize]
  have hwf := sfnAt_wf fs t a attrs first ha hab hattrs
  have hl : attrsIsLfn (sfnAt fs t a attrs first).attrs = false := by
    have : (sfnAt fs t a attrs first).attrs = attrs := by
      simp only [sfnAt, DirFileEntryData.setModified, DirFileEntryData.setAccessed, DirFileEntryData.setCreated,
        DirFileEntryData.setFirstCluster, DirFileEntryData.new]
    rw [this]; exact hlfn
  have := deserialize_serialize_file _ hwf hl
  unfold deserialize at this
  simp only [toDirEntryS]
  split at this
  · cases this
  · injection this

/-- first cluster of the returned entry (FAT32; for FAT12/16 use `firstCluster_setFirstCluster_small` likewise) -/
theorem sfnAt_firstCluster (fs : FsState) (t : Nat) (a : List Nat) (attrs : Nat) (first : Option Nat)
    (hc : ∀ n, first = some n → 0 < n ∧ n < (if fs.fatType = .fat32 then 4294967296 else 65536)) :
    (sfnAt fs t a attrs first).firstCluster fs.fatType = first := by
  have e : (sfnAt fs t a attrs first).firstCluster fs.fatType =
      ((DirFileEntryData.new a attrs).setFirstCluster first fs.fatType).firstCluster fs.fatType := by
    rfl
  rw [e]
  by_cases hft : fs.fatType = .fat32
  · rw [hft]
    exact DirFileEntryData.firstCluster_setFirstCluster_fat32 _ _ (fun n hn => by have := hc n hn; rw [if_pos hft] at this; exact this)
  · exact DirFileEntryData.firstCluster_setFirstCluster_small _ _ _ hft
      (fun n hn => by have := hc n hn; rw [if_neg hft] at this; exact this)

end FatVerif.DirSim
