import FatVerif.Proofs.FileSimWrite
import FatVerif.Proofs.FileSimFatAlloc
/-!
# FileSim, part 13: `File::write` with allocation of a new cluster at the end of the chain

The allocator of the cursor machine is instantiated with the scan of the FAT: `fatAllocator total hint` hands out
`allocFindV g hint total` (the cluster `alloc_cluster` finds on the decoded FAT `g` with FS-info hint `hint`).
`write_sim_alloc`: the cursor sits at the end of the last cluster (or the file is empty) and there is something to write.
Either no entry is free — both sides answer `NotEnoughSpace`, the handle is untouched, the image changed by the status
byte at most — or both allocate the same cluster, link it (FAT: `allocLinkV`), and write the data at its start.
-/
namespace FatVerif.FileSim
open FatVerif FatVerif.Fat

/-- the machine's allocator: the FAT scan of `alloc_cluster` -/
def fatAllocator (total : Nat) (hint : Option Nat) : Cursor.Allocator (Nat → FatValue) where
  alloc := fun g => (allocFindV g hint total).map fun c => (c, updV g c .eoc)
  release := fun l g => fun c => if c ∈ l then .free else g c

theorem fatAllocator_laws (total : Nat) (hint : Option Nat) : Cursor.AllocLaws (fatAllocator total hint) viewFree where
  alloc_free := by
    intro g c g' h
    simp only [fatAllocator, Option.map_eq_some_iff] at h
    obtain ⟨c', hc', he⟩ := h
    cases he
    exact (allocFindV_some_lt g hint total c hc').2
  alloc_frame := by
    intro g c g' d h hf
    simp only [fatAllocator, Option.map_eq_some_iff] at h
    obtain ⟨c', hc', he⟩ := h
    cases he
    unfold viewFree at hf ⊢
    by_cases hdc : d = c
    · subst hdc; rw [updV_same] at hf; cases hf
    · rw [updV_ne _ _ _ _ hdc] at hf; exact ⟨hf, hdc⟩
  release_sub := by
    intro l g d h
    unfold viewFree fatAllocator at *
    simp only at h
    by_cases hd : d ∈ l
    · exact Or.inr hd
    · rw [if_neg hd] at h; exact Or.inl h

/-- appending a freshly allocated cluster to a chain -/
theorem chain_alloc_append {g : Nat → FatValue} {c0 : Nat} {cs : List Nat} (h : Chain g c0 cs) (c p : Nat)
    (hnd : cs.Nodup) (hc : c ∉ cs) (hlast : cs.getLast? = some p) :
    Chain (updV (updV g c .eoc) p (.data c)) c0 (cs ++ [c]) := by
  induction h with
  | last m hl =>
    have hp : p = m := by simpa using hlast.symm
    subst hp
    have hcp : c ≠ p := by intro e; subst e; simp at hc
    refine Chain.cons p c [c] (by rw [updV_same]) (Chain.last c ?_)
    intro n hn
    rw [updV_ne _ _ _ _ hcp, updV_same] at hn
    cases hn
  | cons m k ms hd hch ih =>
    have hms : ms ≠ [] := chain_ne_nil hch
    have hlast' : ms.getLast? = some p := by
      cases ms with
      | nil => exact absurd rfl hms
      | cons a l => rw [List.getLast?_cons_cons] at hlast; exact hlast
    have hm : m ∉ ms := (List.nodup_cons.mp hnd).1
    have hmc : m ≠ c := by intro e; subst e; simp at hc
    have hmp : m ≠ p := by
      intro e; subst e
      exact hm (List.mem_of_getLast? hlast')
    refine Chain.cons m k (ms ++ [c]) ?_ (ih (List.nodup_cons.mp hnd).2
      (fun h => hc (List.mem_cons_of_mem _ h)) hlast')
    rw [updV_ne _ _ _ _ hmp, updV_ne _ _ _ _ hmc]; exact hd

theorem size?_setFirstCluster (e : DirEntryEditor) (c : Option Nat) (ft : FatType) :
    (e.setFirstCluster c ft).data.size? = e.data.size? := by
  unfold DirEntryEditor.setFirstCluster
  split <;> rfl

theorem nodup_length_le {cs : List Nat} {n : Nat} (hnd : cs.Nodup) (h : ∀ c ∈ cs, c < n) : cs.length ≤ n := by
  have hsub : cs ⊆ List.range n := fun k hk => List.mem_range.mpr (h k hk)
  have := List.Nodup.length_le_of_subset hnd hsub
  simpa using this

/-- the rest of `File::write` once the cluster `cur` is known: the data goes to the device at the cursor's position
    in `cur`, the handle advances, the recorded size grows if the cursor passes it -/
theorem run_writeTail (f0 : FileH) (fs : FsState) (buf : List Nat) (w cur : Nat) (f2 : FileH) (d2 : Dev) (sz2 : Nat)
    (hg : Geo fs d2.img.size) (hfa : d2.failAt = none) (hc2 : 2 ≤ cur) (hct : cur < fs.totalClusters + 2)
    (hw : 0 < w) (hwb : w ≤ buf.length) (hfit : f0.offset % fs.clusterSize + w ≤ fs.clusterSize)
    (hsz : f2.size? = some sz2) :
    ∃ f' d', run (writeTail f0 fs buf w (cur, f2)) d2 = (.ok (w, f'), d') ∧
      d'.img = d2.img.write (clusterOff fs cur + f0.offset % fs.clusterSize) (buf.take w) ∧
      d'.fs = d2.fs ∧ d'.failAt = d2.failAt ∧ d'.clock = d2.clock ∧
      f'.firstCluster = f2.firstCluster ∧ f'.currentCluster = some cur ∧ f'.offset = f2.offset + w ∧
      f'.size? = some (if f2.offset + w > sz2 then f2.offset + w else sz2) ∧
      d'.log = .write (clusterOff fs cur + f0.offset % fs.clusterSize) (buf.take w) :: d2.log := by
  have hdev := hg.cluster_dev hc2 hct
  have hlen : (buf.take w).length = w := by rw [List.length_take]; omega
  unfold writeTail
  dsimp only
  rw [run_bind_ok (run_offsetFromClusterP hg cur hc2 hct d2)]
  rw [run_bind_ok (run_seekStart _ d2 hfa)]
  have hfit' : (d2.didSeek (clusterOff fs cur + f0.offset % fs.clusterSize)).pos + (buf.take w).length ≤
      (d2.didSeek (clusterOff fs cur + f0.offset % fs.clusterSize)).img.size := by
    simp only [didSeek_pos, didSeek_img, hlen]; omega
  have hmin : min (buf.take w).length ((d2.didSeek (clusterOff fs cur + f0.offset % fs.clusterSize)).img.size -
      (d2.didSeek (clusterOff fs cur + f0.offset % fs.clusterSize)).pos) = w := by
    rw [hlen]; simp only [didSeek_pos, didSeek_img]; omega
  rw [run_bind_ok (run_write (buf.take w) _ (by simpa using hfa)), hmin]
  rw [if_neg (by omega)]
  have hsz2' : ({ f2 with offset := f2.offset + w, currentCluster := some cur } : FileH).size? = some sz2 := hsz
  obtain ⟨f', hu, hf1, hf2, hf3, hf4⟩ := run_updateAfterWrite
    { f2 with offset := f2.offset + w, currentCluster := some cur }
    (didWrite (d2.didSeek (clusterOff fs cur + f0.offset % fs.clusterSize)) (buf.take w)) sz2 hsz2'
  rw [run_bind_ok hu]
  refine ⟨f', _, rfl, ?_, rfl, rfl, rfl, hf1, hf2, hf3, hf4, ?_⟩
  · rw [didWrite_img _ _ hfit']
    rfl
  · rw [didWrite_log _ _ hfit']
    rfl

/-- the data region after the device write, cluster by cluster: the machine's `putBytes` -/
theorem data_after_write (fs : FsState) (img img2 img' : Img) (hwf2 : img2.WF) (cur o : Nat) (bs : List Nat)
    (hagree : DataAgree fs img img2) (himg' : img' = img2.write (clusterOff fs cur + o) bs)
    (hbytes : ∀ b ∈ bs, b < 256) (hcur : 2 ≤ cur) (hfit : o + bs.length ≤ fs.clusterSize)
    {x j : Nat} (hx : 2 ≤ x) (hj : j < fs.clusterSize) :
    img'.getByte (clusterOff fs x + j) =
      Cursor.AFile.putBytes (fun c j => img.getByte (clusterOff fs c + j)) cur o bs.toArray x j := by
  rw [himg', Img.getByte_write _ hwf2]
  unfold Cursor.AFile.putBytes
  simp only [List.size_toArray]
  have hiff := cluster_range_iff fs (c := x) (cur := cur) (j := j) (o := o) (w := bs.length) hx hcur hj hfit
  by_cases hin : x = cur ∧ o ≤ j ∧ j < o + bs.length
  · rw [if_pos (hiff.mpr hin), if_pos hin]
    obtain ⟨rfl, h1, h2⟩ := hin
    have hidx : clusterOff fs x + j - (clusterOff fs x + o) = j - o := by omega
    rw [hidx]
    have hlt : j - o < bs.length := by omega
    have hb : bs.getD (j - o) 0 < 256 := by
      rw [List.getD_eq_getElem?_getD, List.getElem?_eq_getElem hlt]
      exact hbytes _ (List.getElem_mem hlt)
    rw [Nat.mod_eq_of_lt hb]
    simp
  · rw [if_neg (fun h => hin (hiff.mp h)), if_neg hin]
    apply hagree
    have : fs.firstDataSector * fs.bps ≤ clusterOff fs x := by
      unfold clusterOff; exact Nat.mul_le_mul_right _ (Nat.le_add_right _ _)
    omega

theorem isDir_of_size? {f : FileH} {sz : Nat} (h : f.size? = some sz) : f.isDir = false := by
  unfold FileH.size? at h
  unfold FileH.isDir
  cases he : f.entry with
  | none => rw [he] at h; cases h
  | some e =>
    rw [he] at h
    show e.data.isDir = false
    have h' : e.data.size? = some sz := h
    unfold DirFileEntryData.size? DirFileEntryData.isFile at h'
    cases hd : e.data.isDir with
    | false => rfl
    | true => rw [hd] at h'; simp at h'

/-- what the frame of a step preserves: everything `FileRep`, `InfoOk` and `absFile` look at -/
theorem frame_all {fs fs' : FsState} {img img' : Img} {f : FileH} (hg : Geo fs img.size) (hrep : FileRep fs img f)
    (hinfo : InfoOk fs img) (hgeo : FsGeomEq fs fs') (hfi : fs'.fsInfo = fs.fsInfo)
    (hfat : FatAgree fs img img') (hdata : DataAgree fs img img') :
    absFile fs' img' f = absFile fs img f ∧ FileRep fs' img' f ∧ InfoOk fs' img' ∧
    tabView fs' img' = tabView fs img := by
  have htv : tabView fs' img' = tabView fs img := by rw [hgeo.tabView, tabView_congr hg hfat]
  refine ⟨absFile_frame hg f hgeo hfat hdata, hrep.frame hg hgeo hfat hdata, ⟨?_, ?_⟩, htv⟩
  · rw [hfi]; exact hinfo.hint
  · rw [hfi, htv, hgeo.totalClusters]; exact hinfo.count

/-- **`write_sim_alloc`.**  ONE `File::write` call of bytes when the cursor sits at the end of the chain (or the
    file is empty) and there is something to write: a cluster has to be allocated. -/
theorem write_sim_alloc (f : FileH) (buf : List Nat) (d : Dev)
    (hfa : d.failAt = none) (hg : Geo d.fs d.img.size) (hrep : FileRep d.fs d.img f) (hwf : d.img.WF)
    (hinfo : InfoOk d.fs d.img) (hbytes : ∀ b ∈ buf, b < 256)
    (hrcn : (absFile d.fs d.img f).readCluster = none)
    (hw0 : (absFile d.fs d.img f).writeLen buf.length ≠ 0) :
    (∃ d', run (f.write buf) d = (.error .noSpace, d') ∧
      (absFile d.fs d.img f).write (fatAllocator d.fs.totalClusters d.fs.fsInfo.next) (tabView d.fs d.img) buf =
        (.error .noSpace, absFile d.fs d.img f, tabView d.fs d.img) ∧
      DevStep d d' ∧ absFile d'.fs d'.img f = absFile d.fs d.img f ∧ FileRep d'.fs d'.img f ∧
      InfoOk d'.fs d'.img ∧
      (∀ q, d'.img.getByte q ≠ d.img.getByte q → q = statusOff d.fs) ∧
      (∀ E D : Nat → Prop, Trace d.fs E D d d')) ∨
    (∃ k f' d', run (f.write buf) d = (.ok (k, f'), d') ∧
      ((absFile d.fs d.img f).write (fatAllocator d.fs.totalClusters d.fs.fsInfo.next)
        (tabView d.fs d.img) buf).1 = .ok k ∧
      DevStep d d' ∧
      CoreEq (absFile d'.fs d'.img f') ((absFile d.fs d.img f).write
        (fatAllocator d.fs.totalClusters d.fs.fsInfo.next) (tabView d.fs d.img) buf).2.1 ∧
      FileRep d'.fs d'.img f' ∧ InfoOk d'.fs d'.img ∧
      (∃ c, allocFindV (tabView d.fs d.img) d.fs.fsInfo.next d.fs.totalClusters = some c ∧
        ∀ q, d'.img.getByte q ≠ d.img.getByte q → q = statusOff d.fs ∨ FatEntryPos d.fs c q ∨
          (∃ p, f.currentCluster = some p ∧ FatEntryPos d.fs p q) ∨
          (clusterOff d.fs c ≤ q ∧ q < clusterOff d.fs c + k)) ∧
      (∀ x, x ∉ fileChain d.fs d.img f → tabView d.fs d.img x ≠ .free →
        tabView d'.fs d'.img x = tabView d.fs d.img x) ∧
      (∀ x ∈ fileChain d'.fs d'.img f', x ∈ fileChain d.fs d.img f ∨ tabView d.fs d.img x = .free) ∧
      (∀ E D : Nat → Prop, (∀ x ∈ fileChain d.fs d.img f, E x) →
        (∀ x, 2 ≤ x → x < d.fs.totalClusters + 2 → tabView d.fs d.img x = .free → E x ∧ D x) →
        Trace d.fs E D d d')) := by
  obtain ⟨sz, hsz⟩ := hrep.file
  have hinv := hrep.inv
  have hasz : (absFile d.fs d.img f).size = sz := by simp [absFile, hsz]
  have hcsp := hg.cs_pos
  obtain ⟨hoffsz, hend⟩ := hinv.readCluster_none hrcn
  have hoffsz' : f.offset = sz := by rw [← hasz]; exact hoffsz
  have hend' : f.offset = (fileChain d.fs d.img f).length * d.fs.clusterSize := hend
  have hm : f.offset % d.fs.clusterSize = 0 := by rw [hend']; exact Nat.mul_mod_left _ _
  have hszle : sz ≤ 4294967295 := by have := hinv.size_le; rw [hasz] at this; exact this
  have hwl : (absFile d.fs d.img f).writeLen buf.length = writeLenH f d.fs buf.length := rfl
  generalize hww : writeLenH f d.fs buf.length = w at hwl
  rw [hwl] at hw0
  have hwb : w ≤ buf.length ∧ w ≤ d.fs.clusterSize ∧ w ≤ 4294967295 - f.offset := by
    rw [← hww]; unfold writeLenH; rw [hm]; omega
  -- the machine: boundary, no next cluster
  have hbnone : (absFile d.fs d.img f).boundaryCluster = none := by
    have := hrcn
    unfold Cursor.AFile.readCluster at this
    rw [if_pos (show (absFile d.fs d.img f).offset % (absFile d.fs d.img f).cs = 0 from hm)] at this
    exact this
  -- set_dirty_flag
  obtain ⟨d1, hr1, hs1, hcd1, hinfo1, hb1⟩ := run_setDirtyFlag_true d hfa (by
    have := hg.status_lt; have := hg.fat_dev; omega)
  have hfa1 : d1.failAt = none := by rw [hs1.failAt]; exact hfa
  have hfat1 : FatAgree d.fs d.img d1.img := fun q h1 _ => hb1 hwf q (by have := hg.status_lt; omega)
  have hfatdata : (fatSliceOf d.fs).beginOff ≤ d.fs.firstDataSector * d.fs.bps := by
    have := hg.fat_data; omega
  have hdat1 : DataAgree d.fs d.img d1.img := fun q h1 => hb1 hwf q (by have := hg.status_lt; omega)
  obtain ⟨hab1, hrep1, hinfoOk1, htv1⟩ := frame_all hg hrep hinfo hs1.geom hinfo1 hfat1 hdat1
  have hg1 : Geo d1.fs d1.img.size := by rw [hs1.size]; exact hg.frame hs1.geom
  have hwf1 : d1.img.WF := hs1.wf hwf
  -- boundary_cluster
  obtain ⟨d2, h2, hs2⟩ := run_curOpt f d1 hfa1 hg1 hrep1
  rw [hab1, hrcn, hs1.geom.clusterSize, if_pos hm] at h2
  have hfa2 : d2.failAt = none := by rw [hs2.failAt]; exact hfa1
  have hcd2 : d2.fs.curDirty = true := by rw [hs2.fs]; exact hcd1
  have hwf2 : d2.img.WF := by rw [hs2.img]; exact hwf1
  have hg2 : Geo d2.fs d2.img.size := by rw [hs2.fs, hs2.img]; exact hg1
  have hinfo2 : InfoOk d2.fs d2.img := by rw [hs2.fs, hs2.img]; exact hinfoOk1
  have htv2 : tabView d2.fs d2.img = tabView d.fs d.img := by rw [hs2.fs, hs2.img]; exact htv1
  have htot2 : d2.fs.totalClusters = d.fs.totalClusters := by rw [hs2.fs]; exact hs1.geom.totalClusters
  have hnext2 : d2.fs.fsInfo.next = d.fs.fsInfo.next := by rw [hs2.fs, hinfo1]
  -- the previous cluster is an allocated cluster of the table
  have hprev : ∀ p, f.currentCluster = some p →
      2 ≤ p ∧ p < d2.fs.totalClusters + 2 ∧ tabView d2.fs d2.img p ≠ .free := by
    intro p hp
    have hc := hinv.cur
    have hc' : f.currentCluster = if f.offset = 0 then none
        else (fileChain d.fs d.img f)[(f.offset - 1) / d.fs.clusterSize]? := hc
    rw [hp] at hc'
    by_cases h0 : f.offset = 0
    · rw [if_pos h0] at hc'; cases hc'
    · rw [if_neg h0] at hc'
      have hmem : p ∈ fileChain d.fs d.img f := List.mem_of_getElem? hc'.symm
      obtain ⟨a1, a2⟩ := hrep.inTab p hmem
      rw [htot2, htv2]
      exact ⟨a1, a2, hinv.live p hmem⟩
  have hisdir : f.isDir = false := isDir_of_size? hsz
  have htr1 : ∀ E D : Nat → Prop, Trace d.fs E D d d1 := setDirtyFlag_trace d d1 hr1 hfa (by
    have := hg.status_lt; have := hg.fat_dev; omega)
  rw [write_eq, run_bind_ok (run_getFs d), hww, if_neg hw0, run_bind_ok hr1]
  -- the machine's write, unfolded
  have hawrite : ∀ r, (absFile d.fs d.img f).writeCluster (fatAllocator d.fs.totalClusters d.fs.fsInfo.next)
        (tabView d.fs d.img) = r →
      (absFile d.fs d.img f).write (fatAllocator d.fs.totalClusters d.fs.fsInfo.next) (tabView d.fs d.img) buf =
        (match r with
          | (.error e, f', s') => (.error e, f', s')
          | (.ok c, f', s') => (.ok w, f'.put c (buf.take w), s')) := by
    intro r hr
    unfold Cursor.AFile.write
    rw [hwl, if_neg hw0, hr]
    obtain ⟨r1, f', s'⟩ := r
    cases r1 <;> rfl
  have hawc : (absFile d.fs d.img f).writeCluster (fatAllocator d.fs.totalClusters d.fs.fsInfo.next)
      (tabView d.fs d.img) =
      (match allocFindV (tabView d.fs d.img) d.fs.fsInfo.next d.fs.totalClusters with
        | none => (.error .noSpace, absFile d.fs d.img f, tabView d.fs d.img)
        | some c => (.ok c, (absFile d.fs d.img f).linkNew c, updV (tabView d.fs d.img) c .eoc)) := by
    unfold Cursor.AFile.writeCluster
    rw [if_pos (show (absFile d.fs d.img f).offset % (absFile d.fs d.img f).cs = 0 from hm), hbnone]
    simp only [fatAllocator]
    cases allocFindV (tabView d.fs d.img) d.fs.fsInfo.next d.fs.totalClusters <;> rfl
  rcases run_allocClusterFs_fine f.currentCluster d2 hfa2 hcd2 hwf2 hg2 hinfo2 hprev with
    ⟨hnone, d3, hr3, hs3⟩ | ⟨c, d3, hsome, hr3, hst3, hcd3, htv3, hinfo3, hfr3, hfine3, htr3⟩
  · -- NotEnoughSpace
    left
    rw [htv2, hnext2, htot2] at hnone
    have hsel : run (selCluster f d.fs) d1 = (.error .noSpace, d3) := by
      unfold selCluster
      rw [if_pos hm, run_bind_ok h2]
      simp only
      rw [hisdir, run_bind_error hr3]
    have hstatus := setDirtyFlag_only_status d d1 hr1 hfa (by
      have := hg.status_lt; have := hg.fat_dev; omega) hwf
    refine ⟨d3, by rw [run_bind_error hsel], ?_, ?_, ?_, ?_, ?_, ?_,
      fun E D => (htr1 E D).trans ((Trace.of_sameStore hs2).trans (Trace.of_sameStore hs3))⟩
    rotate_left 5
    · intro q hne
      by_cases hsq : q = statusOff d.fs
      · exact hsq
      · exfalso; apply hne; rw [hs3.img, hs2.img]; exact hstatus q hsq
    · rw [hawrite _ hawc, hnone]
    · exact hs1.trans ((DevStep.of_sameStore hs2).trans (DevStep.of_sameStore hs3))
    · rw [hs3.fs, hs3.img, hs2.fs, hs2.img]; exact hab1
    · rw [hs3.fs, hs3.img, hs2.fs, hs2.img]; exact hrep1
    · rw [hs3.fs, hs3.img, hs2.fs, hs2.img]; exact hinfoOk1
  · -- a cluster was allocated
    right
    rw [htv2, hnext2, htot2] at hsome
    rw [htv2] at htv3
    obtain ⟨hc2, hct, hcf⟩ := allocFindV_some _ _ _ _ hinfo.hint hsome
    have hcn : c ∉ fileChain d.fs d.img f := fun hmem => hinv.live c hmem hcf
    -- geometry of the device after the allocation
    have hgeo3 : FsGeomEq d.fs d3.fs := hs1.geom.trans (by rw [← hs2.fs]; exact hst3.geom)
    have hsz3 : d3.img.size = d.img.size := by rw [hst3.size, hs2.img, hs1.size]
    have hg3 : Geo d.fs d3.img.size := by rw [hsz3]; exact hg
    have hfa3 : d3.failAt = none := by rw [hst3.failAt]; exact hfa2
    have hwf3 : d3.img.WF := hst3.wf hwf2
    have hdat3 : DataAgree d.fs d.img d3.img := by
      intro q hq
      have hfd := hg.fat_data
      rw [hfr3 q (Or.inr (by
        rw [hs2.fs, hs1.geom.fatSlice]; omega)), hs2.img]
      exact hdat1 q hq
    -- the handle after `set_first_cluster`
    generalize hf2 : (if f.firstCluster.isNone = true then FileH.setFirstCluster d.fs f c else f) = f2
    have hf2off : f2.offset = f.offset := by rw [← hf2]; split <;> rfl
    have hf2sz : f2.size? = some sz := by
      rw [← hf2]
      split
      · unfold FileH.setFirstCluster FileH.size? at *
        cases he : f.entry with
        | none => rw [he] at hsz; cases hsz
        | some e => rw [he] at hsz; simp only [Option.map]; rw [size?_setFirstCluster]; exact hsz
      · exact hsz
    have hsel : run (selCluster f d.fs) d1 = (.ok (c, f2), d3) := by
      unfold selCluster
      rw [if_pos hm, run_bind_ok h2]
      simp only
      rw [hisdir, run_bind_ok hr3, hf2]
      rfl
    rw [run_bind_ok hsel]
    obtain ⟨f', d4, hr4, himg4, hfs4, hfa4, hclk4, hf1', hfc', hfo', hfs', hlog4⟩ := run_writeTail f d.fs buf w c f2 d3 sz
      hg3 hfa3 hc2 hct (Nat.pos_of_ne_zero hw0) hwb.1 (by rw [hm]; omega) hf2sz
    rw [hm, Nat.add_zero] at himg4 hlog4
    have hlen : (buf.take w).length = w := by rw [List.length_take]; omega
    -- the chain after the allocation
    have hchain' : ∃ c0, f2.firstCluster = some c0 ∧
        Chain (allocLinkV (tabView d.fs d.img) f.currentCluster c) c0 (fileChain d.fs d.img f ++ [c]) ∧
        (fileChain d.fs d.img f ++ [c]).head? = some c0 := by
      cases hfirst : f.firstCluster with
      | none =>
        have hnil : fileChain d.fs d.img f = [] := by unfold fileChain; rw [hfirst]
        have hoff0 : f.offset = 0 := by rw [hend', hnil]; simp
        have hcur : f.currentCluster = none := by
          have hc := hinv.cur
          have hc' : f.currentCluster = if f.offset = 0 then none
              else (fileChain d.fs d.img f)[(f.offset - 1) / d.fs.clusterSize]? := hc
          rw [if_pos hoff0] at hc'; exact hc'
        refine ⟨c, ?_, ?_, by rw [hnil]; rfl⟩
        · rw [← hf2, if_pos (by rw [hfirst]; rfl)]; rfl
        · rw [hnil, hcur]
          refine Chain.last c ?_
          intro n hn
          simp only [allocLinkV, updV_same] at hn
          cases hn
      | some c0 =>
        have hch := hrep.chain c0 hfirst
        have hne : fileChain d.fs d.img f ≠ [] := chain_ne_nil hch
        have hL : 0 < (fileChain d.fs d.img f).length := List.length_pos_iff.mpr hne
        have hoffpos : 0 < f.offset := by rw [hend']; exact Nat.mul_pos hL hcsp
        have hq : f.offset / d.fs.clusterSize = (fileChain d.fs d.img f).length :=
          Cursor.div_eq_of_decomp hcsp (j := 0) (by omega) hcsp
        have hp := Cursor.pred_div_of_boundary hcsp hoffpos hm
        have hcur : (fileChain d.fs d.img f).getLast? = f.currentCluster := by
          have hc := hinv.cur
          have hc' : f.currentCluster = if f.offset = 0 then none
              else (fileChain d.fs d.img f)[(f.offset - 1) / d.fs.clusterSize]? := hc
          rw [if_neg (by omega)] at hc'
          rw [hc', List.getLast?_eq_getElem?]
          congr 1; omega
        obtain ⟨p, hpl⟩ : ∃ p, (fileChain d.fs d.img f).getLast? = some p := by
          cases hgl : (fileChain d.fs d.img f).getLast? with
          | none => exact absurd (List.getLast?_eq_none_iff.mp hgl) hne
          | some p => exact ⟨p, rfl⟩
        refine ⟨c0, ?_, ?_, ?_⟩
        · rw [← hf2, if_neg (by rw [hfirst]; simp)]; exact hfirst
        · rw [← hcur, hpl]
          exact chain_alloc_append hch c p hinv.nodup hcn hpl
        · obtain ⟨t, ht⟩ := chain_head hch
          rw [ht]; rfl
    obtain ⟨c0, hf2first, hch3, hhead⟩ := hchain'
    have htv4 : tabView d4.fs d4.img = allocLinkV (tabView d.fs d.img) f.currentCluster c := by
      rw [← htv3, hfs4]
      have hfat4 : FatAgree d3.fs d3.img d4.img := by
        intro q h1 h2
        have hfd := hg.fat_data
        have hm1 : (fatSliceOf d.fs).size ≤ (fatSliceOf d.fs).mirrors * (fatSliceOf d.fs).size :=
          Nat.le_mul_of_pos_left _ hg.mirrors_pos
        have hcd : d.fs.firstDataSector * d.fs.bps ≤ clusterOff d.fs c := by
          unfold clusterOff; exact Nat.mul_le_mul_right _ (Nat.le_add_right _ _)
        rw [hgeo3.fatSlice] at h1 h2
        rw [himg4, Img.getByte_write_of_not_mem _ hwf3 _ _ _ (by omega)]
      exact tabView_congr (sz := d.img.size) (hg.frame hgeo3) hfat4
    have hnd' : (fileChain d.fs d.img f ++ [c]).Nodup := by
      refine List.nodup_append.mpr ⟨hinv.nodup, by simp, ?_⟩
      intro a ha b hb e
      simp at hb
      exact hcn (hb ▸ e ▸ ha)
    have hin' : ∀ x ∈ fileChain d.fs d.img f ++ [c], 2 ≤ x ∧ x < d.fs.totalClusters + 2 := by
      intro x hx
      rcases List.mem_append.mp hx with hx | hx
      · exact hrep.inTab x hx
      · simp at hx; subst hx; exact ⟨hc2, hct⟩
    have hch4 : fileChain d4.fs d4.img f' = fileChain d.fs d.img f ++ [c] := by
      unfold fileChain
      rw [hf1', hf2first, htv4, hfs4, hgeo3.totalClusters]
      simp only
      refine chainFrom_of_chain hch3 _ ?_
      have := nodup_length_le hnd' (fun x hx => (hin' x hx).2)
      omega
    -- the machine's new state
    have hwrite := hawrite _ hawc
    rw [hsome] at hwrite
    simp only at hwrite
    obtain ⟨l1, l2, l3, l4, l5, l6, l7⟩ := hinv.linkNew_post c hend
    have hcore : CoreEq (absFile d4.fs d4.img f') (((absFile d.fs d.img f).linkNew c).put c (buf.take w)) := by
      refine ⟨?_, ?_, ?_, ?_, ?_, ?_, ?_⟩
      · show d4.fs.clusterSize = ((absFile d.fs d.img f).linkNew c).cs
        rw [l3, hfs4, hgeo3.clusterSize]; rfl
      · show fileChain d4.fs d4.img f' = ((absFile d.fs d.img f).linkNew c).chain
        rw [l1, hch4]; rfl
      · intro x hx j hj
        have hx' : x ∈ fileChain d.fs d.img f ++ [c] := by
          have : x ∈ ((absFile d.fs d.img f).linkNew c).chain := hx
          rw [l1] at this; exact this
        have hj' : j < d.fs.clusterSize := by
          have : j < ((absFile d.fs d.img f).linkNew c).cs := hj
          rw [l3] at this; exact this
        show d4.img.getByte (clusterOff d4.fs x + j) =
          Cursor.AFile.putBytes ((absFile d.fs d.img f).linkNew c).data c
            (((absFile d.fs d.img f).linkNew c).offset % ((absFile d.fs d.img f).linkNew c).cs) (buf.take w).toArray x j
        rw [l4, l6, l3, hfs4, hgeo3.clusterOff]
        have hm' : (absFile d.fs d.img f).offset % (absFile d.fs d.img f).cs = 0 := hm
        rw [hm']
        exact data_after_write d.fs d.img d3.img d4.img hwf3 c 0 (buf.take w) hdat3
          (by rw [himg4, Nat.add_zero]) (fun b hb => hbytes b (List.mem_of_mem_take hb)) hc2 (by rw [hlen]; omega)
          (hin' x hx').1 hj'
      · show f'.size?.getD 0 = if ((absFile d.fs d.img f).linkNew c).size <
            ((absFile d.fs d.img f).linkNew c).offset + (buf.take w).length then
            ((absFile d.fs d.img f).linkNew c).offset + (buf.take w).length else ((absFile d.fs d.img f).linkNew c).size
        rw [hfs', l5, l6, hlen, hasz, hf2off]
        show (if f.offset + w > sz then f.offset + w else sz) = _
        rfl
      · show f'.firstCluster = ((absFile d.fs d.img f).linkNew c).firstCluster
        rw [hf1', hf2first, l2]; exact hhead.symm
      · show f'.offset = ((absFile d.fs d.img f).linkNew c).offset + (buf.take w).length
        rw [hfo', hf2off, l6, hlen]; rfl
      · exact hfc'
    -- the invariant of the machine for the new state
    obtain ⟨hi', _⟩ : Cursor.AFileInv viewFree
        (((absFile d.fs d.img f).write (fatAllocator d.fs.totalClusters d.fs.fsInfo.next)
          (tabView d.fs d.img) buf).2.1)
        (((absFile d.fs d.img f).write (fatAllocator d.fs.totalClusters d.fs.fsInfo.next)
          (tabView d.fs d.img) buf).2.2) ∧ True := by
      rcases hinv.write_refines (fatAllocator_laws _ _) buf with ⟨he, _⟩ | ⟨_, hi, _⟩
      · rw [hwrite] at he; cases he
      · exact ⟨hi, trivial⟩
    rw [hwrite] at hi'
    have hlive4 : ∀ x ∈ fileChain d.fs d.img f ++ [c],
        allocLinkV (tabView d.fs d.img) f.currentCluster c x ≠ .free := by
      intro x hx
      cases hcur : f.currentCluster with
      | none =>
        simp only [allocLinkV]
        by_cases hxc : x = c
        · subst hxc; rw [updV_same]; intro h; cases h
        · rw [updV_ne _ _ _ _ hxc]
          rcases List.mem_append.mp hx with hx | hx
          · exact hinv.live x hx
          · simp at hx; exact absurd hx hxc
      | some p =>
        simp only [allocLinkV]
        by_cases hxp : x = p
        · subst hxp; rw [updV_same]; intro h; cases h
        · rw [updV_ne _ _ _ _ hxp]
          by_cases hxc : x = c
          · subst hxc; rw [updV_same]; intro h; cases h
          · rw [updV_ne _ _ _ _ hxc]
            rcases List.mem_append.mp hx with hx | hx
            · exact hinv.live x hx
            · simp at hx; exact absurd hx hxc
    have hrep4 : FileRep d4.fs d4.img f' := by
      have hbase := AFileInv.of_coreEq hcore hi'
      refine ⟨⟨_, hfs'⟩, ⟨hbase.cs_pos, hbase.nodup, hbase.first, hbase.cover, hbase.off_le, hbase.size_le,
        hbase.cur, ?_⟩, ?_, ?_, ?_⟩
      · intro x hx
        have hx' : x ∈ fileChain d4.fs d4.img f' := hx
        rw [hch4] at hx'
        rw [htv4]; exact hlive4 x hx'
      · intro x hx
        rw [hch4, htv4]
        rw [hf1', hf2first] at hx
        cases hx
        exact hch3
      · intro x hx
        rw [hch4] at hx
        rw [hfs4, hgeo3.totalClusters]; exact hin' x hx
      · intro x hx
        rw [hch4] at hx
        have : x = c := by simpa using hx.symm
        subst this
        rw [htv4]
        cases hcur : f.currentCluster with
        | none => simp only [allocLinkV, updV_same]
        | some p =>
          have hpc : x ≠ p := by
            intro e; subst e
            exact (hprev x hcur).2.2 (by rw [htv2]; exact hcf)
          simp only [allocLinkV]
          rw [updV_ne _ _ _ _ hpc, updV_same]
    have hstatus := setDirtyFlag_only_status d d1 hr1 hfa (by
      have := hg.status_lt; have := hg.fat_dev; omega) hwf
    refine ⟨w, f', d4, hr4, by rw [hwrite], ?_, by rw [hwrite]; exact hcore, hrep4, ?_, ⟨c, hsome, ?_⟩, ?_, ?_, ?_⟩
    rotate_left 2
    · intro q hne
      by_cases hsq : q = statusOff d.fs
      · exact Or.inl hsq
      · by_cases h1 : FatEntryPos d.fs c q
        · exact Or.inr (Or.inl h1)
        · by_cases h2 : ∃ p, f.currentCluster = some p ∧ FatEntryPos d.fs p q
          · exact Or.inr (Or.inr (Or.inl h2))
          · refine Or.inr (Or.inr (Or.inr ?_))
            by_cases hin : clusterOff d.fs c ≤ q ∧ q < clusterOff d.fs c + w
            · exact hin
            · exfalso
              apply hne
              have hfs2 : d2.fs = d1.fs := hs2.fs
              have hfe : ∀ x, FatEntryPos d2.fs x q ↔ FatEntryPos d.fs x q := by
                intro x; unfold FatEntryPos
                rw [hfs2, hs1.geom.fatSlice, hs1.geom.fatType]
              rw [himg4, Img.getByte_write_of_not_mem _ hwf3 _ _ _ (by rw [hlen]; exact hin),
                hfine3 q (fun h => h1 ((hfe c).mp h)) (fun p hp h => h2 ⟨p, hp, (hfe p).mp h⟩), hs2.img]
              exact hstatus q hsq
    · intro x hx hxf
      rw [htv4]
      cases hcur : f.currentCluster with
      | none =>
        simp only [allocLinkV]
        rw [updV_ne _ _ _ _ (fun e => hxf (by rw [e]; exact hcf))]
      | some p =>
        have hpm : p ∈ fileChain d.fs d.img f := by
          have hc := hinv.cur
          have hc' : f.currentCluster = if f.offset = 0 then none
              else (fileChain d.fs d.img f)[(f.offset - 1) / d.fs.clusterSize]? := hc
          rw [hcur] at hc'
          by_cases h0 : f.offset = 0
          · rw [if_pos h0] at hc'; cases hc'
          · rw [if_neg h0] at hc'; exact List.mem_of_getElem? hc'.symm
        simp only [allocLinkV]
        rw [updV_ne _ _ _ _ (fun e => hx (by rw [e]; exact hpm)),
          updV_ne _ _ _ _ (fun e => hxf (by rw [e]; exact hcf))]
    · intro x hx
      rw [hch4] at hx
      rcases List.mem_append.mp hx with hx | hx
      · exact Or.inl hx
      · simp at hx; exact Or.inr (hx ▸ hcf)
    · intro E D hE hfree
      have hEc := hfree c hc2 hct hcf
      have hprevE : ∀ p, f.currentCluster = some p → E p := by
        intro p hp
        have hc := hinv.cur
        have hc' : f.currentCluster = if f.offset = 0 then none
            else (fileChain d.fs d.img f)[(f.offset - 1) / d.fs.clusterSize]? := hc
        rw [hp] at hc'
        by_cases h0 : f.offset = 0
        · rw [if_pos h0] at hc'; cases hc'
        · rw [if_neg h0] at hc'; exact hE p (List.mem_of_getElem? hc'.symm)
      have hgeo2 : FsGeomEq d.fs d2.fs := by rw [hs2.fs]; exact hs1.geom
      have ht3 : Trace d.fs E D d2 d3 := by
        have := htr3 E D hEc.1 hprevE
        obtain ⟨r, l, i, cl⟩ := this
        refine ⟨r, l, i, ?_⟩
        have hsymm : FsGeomEq d2.fs d.fs := by
          unfold FsGeomEq at hgeo2 ⊢
          rw [hgeo2]
        exact cl.frame hsymm
      have ht4 : Trace d.fs E D d3 d4 := by
        refine Trace.single hlog4 himg4 (Or.inr (Or.inl ⟨c, hEc.2, hc2, hct, Nat.le_refl _, ?_⟩))
        show clusterOff d.fs c + (buf.take w).length ≤ _
        rw [hlen]; omega
      exact (htr1 E D).trans ((Trace.of_sameStore hs2).trans (ht3.trans ht4))
    · refine hs1.trans ((DevStep.of_sameStore hs2).trans (hst3.trans ⟨hfa4, ?_, ?_, by rw [hfs4]; exact FsGeomEq.refl _,
        hclk4⟩))
      · rw [himg4, Img.write_size]
      · intro _; rw [himg4]; exact Img.wf_write _ hwf3 _ _
    · have hfat4 : tabView d4.fs d4.img = tabView d3.fs d3.img := by rw [htv4, htv3]
      exact ⟨by rw [hfs4]; exact hinfo3.hint, by rw [hfat4, hfs4]; exact hinfo3.count⟩

end FatVerif.FileSim
