import FatVerif.Proofs.FormatImage6
/-! C06 image part, 7: where each phase of `format_volume` writes. -/
namespace FatVerif
open Format

theorem padLen_sector (B : Nat) (hB : B ∈ [512, 1024, 2048, 4096]) (k : Nat) : padLen (k * B + 512) B = B - 512 := by
  unfold padLen
  rw [Nat.add_comm, Nat.add_mul_mod_self_right]
  simp only [List.mem_cons, List.mem_nil_iff, or_false] at hB
  rcases hB with rfl | rfl | rfl | rfl <;> decide

/-- the FAT slice `format_volume` hands to `format_fat` / `alloc_cluster` -/
def fmtSlice (b : FBpb) : DiskSlice :=
  { beginOff := b.reserved * b.bps, size := b.sectorsPerFat * b.bps, mirrors := b.fats, viaFs := false }

theorem fmtSlice_eq (b : FBpb) (ft : FatType) (h : b.extFlags = 0) :
    fatSliceOf (formatFsState b ft) false = fmtSlice b := by
  unfold fatSliceOf formatFsState fmtSlice
  simp [h]

section regions
variable {o : FormatOpts} {t : Nat} {boot : FBoot} {ft : FatType} (hg : FmtGeom o t boot ft)
include hg

theorem FmtGeom.bps_pos : 0 < boot.bpb.bps := by
  have := hg.bps_mem
  simp only [List.mem_cons, List.mem_nil_iff, or_false] at this; omega

theorem FmtGeom.bps_ge : 512 ≤ boot.bpb.bps := by
  have := hg.bps_mem
  simp only [List.mem_cons, List.mem_nil_iff, or_false] at this; omega

omit hg in
/-- end of the FAT area = start of the root region, in bytes -/
theorem FmtGeom.fatEnd_eq :
    (boot.bpb.reserved + boot.bpb.fats * boot.bpb.sectorsPerFat) * boot.bpb.bps =
      boot.bpb.reserved * boot.bpb.bps + boot.bpb.fats * (boot.bpb.sectorsPerFat * boot.bpb.bps) := by
  rw [Nat.add_mul, Nat.mul_assoc]

/-- the FAT window lies inside `total_sectors * bps` -/
theorem FmtGeom.window_le :
    (fmtSlice boot.bpb).beginOff + (fmtSlice boot.bpb).mirrors * (fmtSlice boot.bpb).size ≤ t * boot.bpb.bps := by
  show boot.bpb.reserved * boot.bpb.bps + boot.bpb.fats * (boot.bpb.sectorsPerFat * boot.bpb.bps) ≤ _
  rw [← FmtGeom.fatEnd_eq]
  exact Nat.mul_le_mul_right _ (by have := hg.fit; omega)

theorem FmtGeom.bootTile_len (hlen : boot.serialize.length = 512) (k : Nat) :
    (bootTile boot (k * boot.bpb.bps)).length = boot.bpb.bps := by
  unfold bootTile
  have h512 : (boot.serialize.take 512).length = 512 := by rw [List.length_take, hlen]; rfl
  rw [List.length_append, List.length_replicate, h512, padLen_sector _ hg.bps_mem]
  have := hg.bps_ge; omega

end regions

theorem Seg.unique {d d' : Dev} {L1 L2 : List LogItem} (h1 : Seg d d' L1) (h2 : Seg d d' L2) : L1 = L2 := by
  unfold Seg at *
  rw [h1] at h2
  exact List.append_cancel_right h2

/-- the regions of a formatted volume, in bytes -/
structure FmtRegions (o : FormatOpts) (boot : FBoot) (ft : FatType) (Lb Lk Lz Lf Lr Lt : List LogItem) : Prop where
  bootW : Within 0 boot.bpb.bps Lb
  backup : Within (6 * boot.bpb.bps) (7 * boot.bpb.bps) Lk
  backup_nil : ft ≠ .fat32 → Lk = []
  fatZero : Within (boot.bpb.reserved * boot.bpb.bps)
    ((boot.bpb.reserved + boot.bpb.fats * boot.bpb.sectorsPerFat) * boot.bpb.bps) Lz
  fmt : Within (boot.bpb.reserved * boot.bpb.bps)
    ((boot.bpb.reserved + boot.bpb.fats * boot.bpb.sectorsPerFat) * boot.bpb.bps) Lf
  rootZero : Within ((boot.bpb.reserved + boot.bpb.fats * boot.bpb.sectorsPerFat) * boot.bpb.bps)
    ((boot.bpb.reserved + boot.bpb.fats * boot.bpb.sectorsPerFat) * boot.bpb.bps +
      boot.bpb.rootDirSectors * boot.bpb.bps) Lr
  tail : (ft = .fat32 ∧ ∃ La Lc Li Ll, Lt = Ll ++ (Li ++ (Lc ++ La)) ∧
      Within (boot.bpb.reserved * boot.bpb.bps)
        ((boot.bpb.reserved + boot.bpb.fats * boot.bpb.sectorsPerFat) * boot.bpb.bps) La ∧
      TileAt ((boot.bpb.reserved + boot.bpb.fats * boot.bpb.sectorsPerFat) * boot.bpb.bps)
        (List.replicate (boot.bpb.spc * boot.bpb.bps) 0) Lc ∧
      (∃ tc, boot.bpb.totalClusters = .ok tc ∧
        TileAt boot.bpb.bps ((fsInfoBytes (fmtInfo tc 2)).take 512 ++ List.replicate (boot.bpb.bps - 512) 0) Li) ∧
      labelSpec o ((boot.bpb.reserved + boot.bpb.fats * boot.bpb.sectorsPerFat) * boot.bpb.bps) Ll ∧
      (∃ s dA dB, (fmtSlice boot.bpb).beginOff + (fmtSlice boot.bpb).mirrors * (fmtSlice boot.bpb).size ≤ dA.img.size ∧
        run (Table.allocCluster DiskSlice.strm .fat32 (fmtSlice boot.bpb) none none 1) dA = (.ok (2, s), dB) ∧
        Seg dA dB La)) ∨
    (ft ≠ .fat32 ∧ labelSpec o ((boot.bpb.reserved + boot.bpb.fats * boot.bpb.sectorsPerFat) * boot.bpb.bps) Lt)

theorem fsInfoBytes_len (i : FsInfoSt) : (fsInfoBytes i).length = 512 := by
  unfold fsInfoBytes
  simp only [List.length_append, List.length_replicate, bytesLe32, List.length_cons, List.length_nil]

theorem FormatLog.regions {o : FormatOpts} {t : Nat} {boot : FBoot} {ft : FatType} {d0 d' : Dev}
    {Lb Lk Lz Lf Lr Lt : List LogItem} (hlog : FormatLog o boot ft d0 d' Lb Lk Lz Lf Lr Lt)
    (hg : FmtGeom o t boot ft) (hlen : boot.serialize.length = 512) (hsz : t * boot.bpb.bps ≤ d0.img.size) :
    FmtRegions o boot ft Lb Lk Lz Lf Lr Lt := by
  obtain ⟨dK, hsK, himgK, hsizeK, hfr⟩ := hlog.rest
  obtain ⟨tc, s, dA, dB, dC, htc, hsA, himgA, hsizeA, hrun, hsf, hsr, hsizeC, htail⟩ := hfr.fmt
  have hslice := fmtSlice_eq boot.bpb ft hg.extFlags
  rw [hslice] at hrun
  have hmir : 0 < (fmtSlice boot.bpb).mirrors := by
    show 0 < boot.bpb.fats
    have := hg.fats; omega
  have hwin := hg.window_le
  have hinv : SliceInv (fmtSlice boot.bpb) (fmtSlice boot.bpb) := SliceInv.self (Nat.zero_le _)
  have hwindow : (fmtSlice boot.bpb).beginOff + (fmtSlice boot.bpb).mirrors * (fmtSlice boot.bpb).size =
      (boot.bpb.reserved + boot.bpb.fats * boot.bpb.sectorsPerFat) * boot.bpb.bps := by
    rw [FmtGeom.fatEnd_eq]; rfl
  -- format_fat stays inside the FAT window
  have hWf : Within (boot.bpb.reserved * boot.bpb.bps)
      ((boot.bpb.reserved + boot.bpb.fats * boot.bpb.sectorsPerFat) * boot.bpb.bps) Lf := by
    have hms := ((fat_ops_mirrored (sz := d0.img.size) hmir (by omega) ft hinv).2.2.2 boot.bpb.media
      (boot.bpb.sectorsPerFat * boot.bpb.bps) tc).out dA s dB (hsizeA.trans hsizeK) hrun
    obtain ⟨L, hL, hW⟩ := hms.1.within rfl
    rw [hwindow] at hW
    rw [← Seg.unique hL hsf]; exact hW
  refine ⟨?_, ?_, ?_, ?_, hWf, ?_, ?_⟩
  · have := hlog.bootT.within
    have hl := hg.bootTile_len hlen 0
    rw [Nat.zero_mul] at hl
    rw [hl, Nat.zero_add] at this; exact this
  · rcases hlog.backup with ⟨h32, hk⟩ | ⟨_, hk⟩
    · have hft : ft = .fat32 := by
        have := hg.isFat32; rw [h32] at this; simpa using this.symm
      have hb6 := (hg.f32 hft).1
      rw [hb6] at hk
      have := hk.within
      rw [hg.bootTile_len hlen 6] at this
      exact this.mono (Nat.le_refl _) (by omega)
    · rw [hk]; exact Within.nil _ _
  · intro hne
    rcases hlog.backup with ⟨h32, _⟩ | ⟨_, hk⟩
    · have := hg.isFat32; rw [h32] at this
      exact absurd (by simpa using this.symm) hne
    · exact hk
  · have := hfr.fatZero.within
    rw [List.length_replicate] at this
    rw [FmtGeom.fatEnd_eq, ← Nat.mul_assoc]; exact this
  · have := hfr.rootZero.within
    rw [List.length_replicate] at this; exact this
  · rcases htail with ⟨h32, La, Lc, Li, Ll, hLt, hp⟩ | ⟨h32, _, hll⟩
    · left
      subst h32
      obtain ⟨s2, dB2, hrun2, hsa⟩ := hp.alloc
      rw [hslice] at hrun2
      obtain ⟨hb6, hfi, hrc⟩ := hg.f32 rfl
      have hWa : Within (boot.bpb.reserved * boot.bpb.bps)
          ((boot.bpb.reserved + boot.bpb.fats * boot.bpb.sectorsPerFat) * boot.bpb.bps) La := by
        have hms := ((fat_ops_mirrored (sz := d0.img.size) hmir (by omega) .fat32 hinv).1 none none 1).out dC _ dB2
          (hsizeC.trans hsizeK) hrun2
        obtain ⟨L, hL, hW⟩ := hms.1.within rfl
        rw [hwindow] at hW
        rw [← Seg.unique hL hsa]; exact hW
      refine ⟨rfl, La, Lc, Li, Ll, hLt, hWa, ?_, ⟨tc, htc, ?_⟩, hp.label,
        ⟨s2, dC, dB2, by rw [hsizeC, hsizeK]; omega, by rw [← hrc]; exact hrun2, hsa⟩⟩
      · have := hp.clus
        rw [hrc, hg.rds32 rfl] at this
        simpa using this
      · have := hp.info
        rw [hrc, hfi, List.length_take, fsInfoBytes_len, Nat.min_self] at this
        have hpad := padLen_sector _ hg.bps_mem 1
        rw [hpad] at this
        simpa using this
    · exact Or.inr ⟨h32, hll⟩

end FatVerif
