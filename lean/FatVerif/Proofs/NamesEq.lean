import FatVerif.Model.Names
/-! Lemmas for C15.4 (case-insensitive lookup) and the checksum specification (C16.4). -/
namespace FatVerif.Names

/-! ## `lfn_checksum` is the specification's rotate-right-and-add -/

theorem chkStep_eq (sum b : Nat) : lfnChecksumStep sum b = specChkStep sum b := by
  unfold lfnChecksumStep specChkStep
  split <;> omega

theorem lfnChecksum_fold (l : List Nat) (acc : Nat) : l.foldl lfnChecksumStep acc = specLfnChecksum l acc := by
  induction l generalizing acc with
  | nil => rfl
  | cons b bs ih => simp only [List.foldl_cons, specLfnChecksum, chkStep_eq]; exact ih _

/-! ## the comparison loop -/

theorem consume_eq_some_iff (xs other rest : List Char) : consume xs other = some rest ↔ other = xs ++ rest := by
  induction xs generalizing other with
  | nil => simp [consume, eq_comm]
  | cons x xs ih =>
    cases other with
    | nil => simp [consume]
    | cons y ys =>
      simp only [consume, List.cons_append, List.cons.injEq]
      by_cases h : x = y
      · subst h; simp [ih]
      · simp [h]; intro h'; exact absurd h'.symm h

theorem lfnLoop_iff (upper : Char → List Char) (ds : List (Option Char)) (other : List Char) :
    lfnLoop upper ds other = true ↔ ∃ cs : List Char, ds = cs.map some ∧ other = fold upper cs := by
  induction ds generalizing other with
  | nil =>
    simp only [lfnLoop, List.isEmpty_iff]
    constructor
    · rintro rfl; exact ⟨[], rfl, rfl⟩
    · rintro ⟨cs, h1, h2⟩
      cases cs with
      | nil => exact h2
      | cons _ _ => simp at h1
  | cons d ds ih =>
    cases d with
    | none =>
      simp only [lfnLoop, Bool.false_eq_true, false_iff]
      rintro ⟨cs, h1, _⟩
      cases cs <;> simp at h1
    | some c =>
      simp only [lfnLoop]
      constructor
      · intro h
        split at h
        · cases h
        · rename_i other' hc
          obtain ⟨cs, h1, h2⟩ := (ih other').1 h
          refine ⟨c :: cs, by simp [h1], ?_⟩
          rw [(consume_eq_some_iff _ _ _).1 hc, h2]; simp [fold]
      · rintro ⟨cs, h1, h2⟩
        cases cs with
        | nil => simp at h1
        | cons c' cs =>
          simp only [List.map_cons, List.cons.injEq, Option.some.injEq] at h1
          obtain ⟨rfl, h1⟩ := h1
          have hc : consume (upper c) other = some (fold upper cs) :=
            (consume_eq_some_iff _ _ _).2 (by rw [h2]; simp [fold])
          rw [hc]
          exact (ih _).2 ⟨cs, h1, rfl⟩

theorem eqNameLfn_iff (upper : Char → List Char) (units : List Nat) (q : List Char) :
    eqNameLfn upper units q = true ↔
      units ≠ [] ∧ ∃ cs : List Char, decodeUtf16 units = cs.map some ∧ fold upper q = fold upper cs := by
  unfold eqNameLfn
  by_cases h : units = []
  · simp [h]
  · simp only [List.isEmpty_iff, h, if_false, ne_eq, not_false_eq_true, true_and]
    exact lfnLoop_iff upper _ _

theorem eqIgnoreCase_iff (upper : Char → List Char) (raw : List Nat) (q : List Char) :
    eqIgnoreCase upper raw q = true ↔ fold upper q = fold upper (aliasDisplay raw) := by
  unfold eqIgnoreCase
  rw [beq_iff_eq]
  exact eq_comm

/-! ## UTF-16 round trip -/

theorem char_range (c : Char) : c.toNat < 0xD800 ∨ (0xDFFF < c.toNat ∧ c.toNat < 0x110000) := c.valid

theorem decode_encode (s : List Char) : decodeUtf16 (encodeUtf16 s) = s.map some := by
  induction s with
  | nil => rfl
  | cons c cs ih =>
    have hr := char_range c
    unfold encodeUtf16
    by_cases h : c.toNat < 0x10000
    · simp only [h, if_true]
      unfold decodeUtf16
      have : c.toNat < 0xD800 ∨ 0xDFFF < c.toNat := by omega
      simp only [this, if_true, ih, Char.ofNat_toNat, List.map_cons]
    · simp only [h, if_false]
      unfold decodeUtf16
      have h1 : ¬ (0xD800 + (c.toNat - 0x10000) / 1024 < 0xD800 ∨ 0xDFFF < 0xD800 + (c.toNat - 0x10000) / 1024) := by
        omega
      have h2 : ¬ (0xDC00 ≤ 0xD800 + (c.toNat - 0x10000) / 1024) := by omega
      have h3 : 0xDC00 ≤ 0xDC00 + (c.toNat - 0x10000) % 1024 ∧ 0xDC00 + (c.toNat - 0x10000) % 1024 ≤ 0xDFFF := by
        omega
      have h4 : 0x10000 + (0xD800 + (c.toNat - 0x10000) / 1024 - 0xD800) * 1024 +
          (0xDC00 + (c.toNat - 0x10000) % 1024 - 0xDC00) = c.toNat := by omega
      simp only [h1, h2, h3, h4, if_false, if_true, and_self, ih, Char.ofNat_toNat, List.map_cons]

theorem encodeUtf16_ne_nil {s : List Char} (h : s ≠ []) : encodeUtf16 s ≠ [] := by
  cases s with
  | nil => exact absurd rfl h
  | cons c cs => unfold encodeUtf16; split <;> simp

theorem map_some_inj {a b : List Char} (h : a.map some = b.map some) : a = b := by
  induction a generalizing b with
  | nil => cases b <;> simp_all
  | cons x xs ih =>
    cases b with
    | nil => simp at h
    | cons y ys =>
      simp only [List.map_cons, List.cons.injEq, Option.some.injEq] at h
      rw [h.1, ih h.2]

/-- against an entry whose long name is the UTF-16 encoding of `s`, the long-name comparison is exactly
    equality of the case-folded strings -/
theorem eqNameLfn_encode (upper : Char → List Char) {s : List Char} (hs : s ≠ []) (q : List Char) :
    eqNameLfn upper (encodeUtf16 s) q = true ↔ fold upper q = fold upper s := by
  rw [eqNameLfn_iff, decode_encode]
  constructor
  · rintro ⟨_, cs, h1, h2⟩; rw [map_some_inj h1]; exact h2
  · intro h; exact ⟨encodeUtf16_ne_nil hs, s, rfl, h⟩

end FatVerif.Names
