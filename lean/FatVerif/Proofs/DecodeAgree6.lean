import FatVerif.Proofs.DecodeAgree5
/-! C08, part 4: files of a faithful listing read faithfully; the handles the library derives while walking the tree are
    the handles of directories of the tree; the invariants follow from a valid boot sector and the mount. -/
namespace FatVerif.DecodeAgree
open FatVerif FatVerif.Fat FatVerif.FileSim FatVerif.DirSim

theorem read_byte_lt (img : Img) (off : Nat) (i : Nat) : DirSpec.b (img.read off 32) i < 256 := by
  unfold DirSpec.b
  by_cases hi : i < 32
  · rw [Img.read_getD _ _ _ _ hi]; exact Img.getByte_lt _ _
  · simp [List.getD_eq_getElem?_getD, List.getElem?_eq_none (by simp; omega : (img.read off 32).length ≤ i)]

theorem d32_lt (s : List Nat) (h : ∀ i, DirSpec.b s i < 256) : DirSpec.d32 s 28 ≤ Cursor.u32Max := by
  have h0 := h 28; have h1 := h (28 + 1); have h2 := h (28 + 2); have h3 := h (28 + 3)
  unfold DirSpec.d32 Cursor.u32Max
  omega

theorem locSlots_bytes (fs : FsState) (img : Img) (loc : Loc) (slots : List (List Nat))
    (h : locSlots fs img loc = some slots) : ∀ s ∈ slots, ∀ i, DirSpec.b s i < 256 := by
  intro s hs i
  cases loc with
  | fixedRoot =>
    simp only [locSlots, Option.some.injEq] at h
    subst h
    unfold rootDirSlots rootSlots at hs
    obtain ⟨j, _, rfl⟩ := List.mem_map.1 hs
    exact read_byte_lt _ _ _
  | chain c0 =>
    simp only [locSlots] at h
    cases hc : specChainOf fs img c0 with
    | none => rw [hc] at h; cases h
    | some chain =>
      rw [hc] at h
      simp only [Option.map_some, Option.some.injEq] at h
      subst h
      unfold chainSlots at hs
      obtain ⟨c, _, hs⟩ := List.mem_flatMap.1 hs
      obtain ⟨j, _, rfl⟩ := List.mem_map.1 hs
      exact read_byte_lt _ _ _

/-- **every listed file reads faithfully**: for an entry `e` of the listing of a directory of the tree that is not a
    directory, `readall` on the handle `to_file` builds returns the specification's content for the first cluster and
    size of its row -/
theorem file_faithful {d : Dev} (hv : VolInv d) (loc : Loc) (hloc : SpecDir d.fs d.img loc) (slots : List (List Nat))
    (hslots : locSlots d.fs d.img loc = some slots) (L : List DirEntry)
    (hrows : L.map (libRow d.fs.fatType) = DirSpec.specRows (d.fs.fatType == .fat32) slots)
    (e : DirEntry) (he : e ∈ L) (hfile : e.isDir = false) (fuel : Nat) (hfuel : e.data.size < fuel) :
    ∃ f' d', run (Session.readAllLoop fuel (FileH.new (e.firstCluster d.fs) (some e.editor)) []) d =
        (.ok (specContent d.fs d.img (libRow d.fs.fatType e).firstCluster (libRow d.fs.fatType e).size, f'), d') ∧
      d'.img = d.img ∧ d'.log = d.log ∧ d'.fs = d.fs := by
  -- the row of `e` is a specification row
  have hmem : libRow d.fs.fatType e ∈ DirSpec.specRows (d.fs.fatType == .fat32) slots := by
    rw [← hrows]; exact List.mem_map_of_mem he
  have hrdir : (libRow d.fs.fatType e).isDir = false := hfile
  obtain ⟨hnone, hsome⟩ := hv.tree.files loc slots _ hloc hslots hmem hrdir
  -- its size is a u32
  have hsz : e.data.size ≤ Cursor.u32Max := by
    unfold DirSpec.specRows at hmem
    obtain ⟨se, hse, hrow⟩ := List.mem_map.1 hmem
    have hsfn := specEntries_sfn_mem true slots se hse
    have hb := locSlots_bytes d.fs d.img loc slots hslots se.sfn hsfn
    have : (libRow d.fs.fatType e).size = DirSpec.d32 se.sfn 28 := by rw [← hrow]; rfl
    have h2 : e.data.size = DirSpec.d32 se.sfn 28 := this
    rw [h2]; exact d32_lt _ hb
  have hrep : FileRep d.fs d.img (FileH.new (e.firstCluster d.fs) (some e.editor)) :=
    fileRep_of_spec hv.geo (e.firstCluster d.fs) e.editor hfile hsz hnone hsome
  have hsize : (FileH.new (e.firstCluster d.fs) (some e.editor)).size?.getD 0 = e.data.size := by
    have hd : e.data.isDir = false := hfile
    simp [FileH.size?, FileH.new, DirEntry.editor, DirEntryEditor.new, DirFileEntryData.size?,
      DirFileEntryData.isFile, hd]
  obtain ⟨f', d', hr, hs, _⟩ := readAll_specContent _ d hv.noFault hv.geo hrep rfl fuel (by rw [hsize]; exact hfuel)
  refine ⟨f', d', ?_, hs.img, hs.log, hs.fs⟩
  rw [hr, hsize]
  rfl

/-- **descending**: for a directory entry `e` of a faithful listing with a first cluster `c`, `to_dir` hands out the
    handle of the directory `.chain c` of the tree -/
theorem child_handle {d : Dev} (loc : Loc) (hloc : SpecDir d.fs d.img loc) (slots : List (List Nat))
    (hslots : locSlots d.fs d.img loc = some slots) (L : List DirEntry)
    (hrows : L.map (libRow d.fs.fatType) = DirSpec.specRows (d.fs.fatType == .fat32) slots)
    (e : DirEntry) (he : e ∈ L) (hdir : e.isDir = true) (c : Nat) (hc : e.firstCluster d.fs = some c) :
    run (e.toDir d.fs) d = (.ok (.file (FileH.new (some c) (some e.editor))), d) ∧
      SpecDir d.fs d.img (.chain c) ∧ HandleFor d.fs (.chain c) (.file (FileH.new (some c) (some e.editor))) := by
  have hmem : libRow d.fs.fatType e ∈ DirSpec.specRows (d.fs.fatType == .fat32) slots := by
    rw [← hrows]; exact List.mem_map_of_mem he
  refine ⟨?_, SpecDir.sub loc slots _ c hloc hslots hmem hdir hc, ⟨some e.editor, rfl, ?_⟩⟩
  · unfold DirEntry.toDir
    simp [hdir, hc]
  · intro ed hed
    cases hed
    exact ⟨hdir, rfl⟩

/-! ### the invariants from the boot sector and the mount -/

theorem clusterSize_mod32 {p : Bpb} (hv : p.Valid) (strict accDate lfnAlloc unicode : Bool) (fi : FsInfo) :
    (fsOf strict accDate lfnAlloc unicode p fi).clusterSize % 32 = 0 := by
  obtain ⟨_, h32⟩ := bps_ge hv
  show p.bytesPerSector * p.sectorsPerCluster % 32 = 0
  rw [Nat.mul_mod, h32]; simp

/-- after a successful mount (heap long-name buffer, `update_accessed_date` off) of a volume whose boot sector is valid,
    whose layout is fine and whose tree is specification-valid FOR THE MOUNTED GEOMETRY, the invariants hold -/
theorem volInv_of_mount {p : Bpb} (hr : p.InRange) (hv : p.Valid) (d : Dev) (hl : LayoutOk p d.img.size)
    (strict unicode : Bool) (fi : FsInfo) (hfs : d.fs = fsOf strict false true unicode p fi) (hfa : d.failAt = none)
    (htree : SpecValidTree d.fs d.img) : VolInv d := by
  refine ⟨hfa, by rw [hfs]; exact geo_of_valid hr hv _ hl _ _ _ _ _, by rw [hfs]; rfl, by rw [hfs]; rfl,
    by rw [hfs]; exact clusterSize_mod32 hv _ _ _ _ _, ?_, htree⟩
  intro _
  exact ⟨_, rootReadable_of_valid hv d hl strict false true unicode fi hfs hfa⟩

end FatVerif.DecodeAgree
