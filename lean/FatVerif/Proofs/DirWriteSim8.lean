import FatVerif.Proofs.DirWriteSim7
/-! Directory WRITES, part 8: a cluster-chain directory WITHOUT a directory entry (the root of FAT32) as a write
    family: `File::write` inside the allocated clusters, `seek` back and to a slot. -/
namespace FatVerif.DirSim
open FatVerif.FileSim FatVerif.Fat DirEntryData

theorem run_bind_assoc {α β γ} (p : Prog β) (f : β → Prog γ) (k : γ → Prog α) (d : Dev) :
    run ((p >>= f) >>= k) d = run (p >>= fun b => f b >>= k) d := by
  show run (Prog.bind (Prog.bind p f) k) d = run (Prog.bind p fun b => Prog.bind (f b) k) d
  simp only [run]
  rcases run p d with ⟨r, d1⟩
  cases r <;> rfl

/-! ### chains have no repetition -/

theorem chain_drop {g : Nat → FatValue} : ∀ {cs : List Nat} {c : Nat}, Chain g c cs → ∀ i (h : i < cs.length),
    Chain g cs[i] (cs.drop i) := by
  intro cs c hc
  induction hc with
  | last m hl =>
    intro i h
    have : i = 0 := by simpa using h
    subst this
    exact Chain.last m hl
  | cons m k ms hd hc ih =>
    intro i h
    cases i with
    | zero => exact Chain.cons m k ms hd hc
    | succ i => exact ih i (by simpa using h)

theorem chain_nodup' {g : Nat → FatValue} {c : Nat} {cs : List Nat} (hc : Chain g c cs) : cs.Nodup := by
  rw [List.nodup_iff_pairwise_ne, List.pairwise_iff_getElem]
  intro i j hi hj hij e
  have h1 := chain_drop hc i hi
  have h2 := chain_drop hc j hj
  rw [e] at h1
  have := chain_unique h1 h2
  have hl := congrArg List.length this
  simp only [List.length_drop] at hl
  omega

/-! ### the slots of a chain directory on the device -/

section chain
variable {d : Dev} {f0 : FileH} {c0 : Nat} {chain : List Nat}

theorem clusterOff_lt_of_lt (fs : FsState) {a b : Nat} (ha : 2 ≤ a) (h : a < b) :
    clusterOff fs a + fs.clusterSize ≤ clusterOff fs b := by
  rw [← clusterOff_succ fs a ha]
  exact clusterOff_mono fs h

theorem slotGeo_of {fs : FsState} {sz : Nat} {chain : List Nat} (hgeo : Geo fs sz) (hc32 : fs.clusterSize % 32 = 0)
    (hin : ∀ x ∈ chain, 2 ≤ x) (hnd0 : chain.Nodup) :
    SlotGeo (chain.length * (fs.clusterSize / 32)) (chainSrc fs chain) := by
  have hcs := hgeo.cs_pos
  have h32 := hc32
  have hK : 32 * (fs.clusterSize / 32) = fs.clusterSize := by
    have := Nat.div_add_mod fs.clusterSize 32; omega
  have hT : ∀ i, i < chain.length * (fs.clusterSize / 32) → 32 * i + 32 ≤ chain.length * fs.clusterSize := by
    intro i hi
    have : 32 * (chain.length * (fs.clusterSize / 32)) = chain.length * fs.clusterSize := by
      rw [Nat.mul_left_comm, hK]
    omega
  have hidx : ∀ i, i < chain.length * (fs.clusterSize / 32) → 32 * i / fs.clusterSize < chain.length :=
    fun i hi => div_lt_of_lt_mul hcs (by have := hT i hi; omega)
  have hmod : ∀ i, 32 * i % fs.clusterSize + 32 ≤ fs.clusterSize := by
    intro i
    have h1 : 32 * i % fs.clusterSize % 32 = 0 := by
      rw [Nat.mod_mod_of_dvd _ (Nat.dvd_of_mod_eq_zero h32)]; omega
    have := Nat.mod_lt (32 * i) hcs
    omega
  have hfirst : fs.firstDataSector * fs.bps ≤ clusterOff fs 2 := by
    unfold clusterOff; simp
  have h42 : 0x42 ≤ fs.firstDataSector * fs.bps := by
    have := hgeo.status_lt
    have := hgeo.fat_data
    have : (fatSliceOf fs).size ≤ (fatSliceOf fs).mirrors * (fatSliceOf fs).size :=
      Nat.le_mul_of_pos_left _ hgeo.mirrors_pos
    omega
  constructor
  · intro i hi
    have hlt := hidx i hi
    have hmem : chain[32 * i / fs.clusterSize] ∈ chain := List.getElem_mem hlt
    have hc2 := hin _ hmem
    unfold chainSrc
    rw [List.getD_eq_getElem?_getD, List.getElem?_eq_getElem hlt]
    simp only [Option.getD]
    have := clusterOff_mono fs hc2
    omega
  · intro i j hi hj hij
    have hli := hidx i hi
    have hlj := hidx j hj
    have hnd := hnd0
    unfold chainSrc
    rw [List.getD_eq_getElem?_getD, List.getD_eq_getElem?_getD, List.getElem?_eq_getElem hli,
      List.getElem?_eq_getElem hlj]
    simp only [Option.getD]
    have hci := hin _ (List.getElem_mem hli)
    have hcj := hin _ (List.getElem_mem hlj)
    have hmi := hmod i
    have hmj := hmod j
    by_cases hq : 32 * i / fs.clusterSize = 32 * j / fs.clusterSize
    · -- same cluster: different offsets in it
      have hdi := decomp (32 * i) fs.clusterSize hcs
      have hdj := decomp (32 * j) fs.clusterSize hcs
      have : chain[32 * i / fs.clusterSize] = chain[32 * j / fs.clusterSize] := by
        congr 1
      rw [this]
      rw [hq] at hdi
      have hne : 32 * i % fs.clusterSize ≠ 32 * j % fs.clusterSize := by
        intro h; omega
      have h1 : 32 * i % fs.clusterSize % 32 = 0 := by
        rw [Nat.mod_mod_of_dvd _ (Nat.dvd_of_mod_eq_zero h32)]; omega
      have h2 : 32 * j % fs.clusterSize % 32 = 0 := by
        rw [Nat.mod_mod_of_dvd _ (Nat.dvd_of_mod_eq_zero h32)]; omega
      omega
    · -- different clusters
      have hcne : chain[32 * i / fs.clusterSize] ≠ chain[32 * j / fs.clusterSize] := by
        intro h
        exact hq ((List.getElem_inj hnd).mp h)
      rcases Nat.lt_or_gt_of_ne hcne with hlt | hgt
      · have := clusterOff_lt_of_lt fs hci hlt
        omega
      · have := clusterOff_lt_of_lt fs hcj hgt
        omega



theorem ChainCore.slotGeo (C : ChainCore d f0 c0 chain) :
    SlotGeo (chain.length * (d.fs.clusterSize / 32)) (chainSrc d.fs chain) :=
  slotGeo_of C.geo C.cs32 (fun x hx => (C.inTab x hx).1) (chain_nodup' C.link)

/-- the hypotheses of a chain directory survive a step that keeps the geometry and the first FAT copy -/
theorem ChainCore.of_agree {d' : Dev} (C : ChainCore d f0 c0 chain) (hfa : d'.failAt = d.failAt)
    (hsz : d'.img.size = d.img.size) (hgeo : FsGeomEq d.fs d'.fs) (hfat : FatAgree d.fs d.img d'.img) :
    ChainCore d' f0 c0 chain := by
  have htv : tabView d'.fs d'.img = tabView d.fs d.img := by rw [hgeo.tabView, tabView_congr C.geo hfat]
  exact ⟨by rw [hfa]; exact C.failAt, by rw [hsz]; exact C.geo.frame hgeo, C.first, by rw [htv]; exact C.link,
    by rw [hgeo.totalClusters]; exact C.inTab, C.nosize, by rw [hgeo.accDate]; exact C.noacc,
    by rw [hgeo.clusterSize]; exact C.cs32, by rw [hgeo.clusterSize]; exact C.u32⟩

theorem ChainDir.slotGeo (C : ChainDir d f0 c0 chain) :
    SlotGeo (chain.length * (d.fs.clusterSize / 32)) (chainSrc d.fs chain) := C.core.slotGeo

theorem ChainDir.of_agree {d' : Dev} (C : ChainDir d f0 c0 chain) (hfa : d'.failAt = d.failAt)
    (hsz : d'.img.size = d.img.size) (hgeo : FsGeomEq d.fs d'.fs) (hfat : FatAgree d.fs d.img d'.img) :
    ChainDir d' f0 c0 chain := by
  have htv : tabView d'.fs d'.img = tabView d.fs d.img := by rw [hgeo.tabView, tabView_congr C.geo hfat]
  exact ⟨by rw [hfa]; exact C.failAt, by rw [hsz]; exact C.geo.frame hgeo, C.first, by rw [htv]; exact C.link,
    by rw [hgeo.totalClusters]; exact C.inTab, C.nosize, by rw [hgeo.accDate]; exact C.noacc, C.clean,
    by rw [hgeo.clusterSize]; exact C.cs32, by rw [hgeo.clusterSize]; exact C.u32⟩

/-- a write behind the FAT keeps the first FAT copy -/
theorem fatAgree_of_writesTo {d' : Dev} {p : Nat} {bs : List Nat} (C : ChainCore d f0 c0 chain) (hw : WritesTo d d' p bs)
    (hwf : d.img.WF) (hp : d.fs.firstDataSector * d.fs.bps ≤ p) : FatAgree d.fs d.img d'.img := by
  intro q h1 h2
  have := C.geo.status_lt
  have := C.geo.fat_data
  have : (fatSliceOf d.fs).size ≤ (fatSliceOf d.fs).mirrors * (fatSliceOf d.fs).size :=
    Nat.le_mul_of_pos_left _ C.geo.mirrors_pos
  rw [hw.bytes hwf q (by omega)]
  unfold putBytes
  rw [if_neg (by omega)]

/-- the handle after `update_dir_entry_after_write` at clock `t`: the modification stamp of its entry (if it has one) -/
def stamped (f : FileH) (t : Nat) : FileH :=
  { f with entry := f.entry.map fun e => e.setModified (clockDateTime t) }

theorem stamped_none (f : FileH) (t : Nat) (h : f.entry = none) : stamped f t = f := by
  cases f with
  | mk a b c e =>
    simp only at h
    subst h
    rfl

theorem size?_setModified_ed (e : DirEntryEditor) (dt : DateTime) : (e.setModified dt).data.size? = e.data.size? := by
  unfold DirEntryEditor.setModified
  split <;> rfl

/-- **one `File::write` on a cluster-chain directory, inside an allocated cluster**: the volume is marked dirty first,
    then all bytes go to the cluster; the handle's entry (if any) gets the modification stamp of the clock -/
theorem ChainCore.file_write (C : ChainCore d f0 c0 chain) (hwf : d.img.WF) (o : Nat)
    (bs : List Nat) (hne : bs ≠ []) (hroom : bs.length ≤ chainRoom d.fs chain o)
    (hfit : o + bs.length ≤ chain.length * d.fs.clusterSize) :
    ∃ d', run ((dirFile f0 chain d.fs.clusterSize o).write bs) d =
        (.ok (bs.length, dirFile (stamped f0 d.clock) chain d.fs.clusterSize (o + bs.length)), d') ∧
      WritesTo d d' (chainSrc d.fs chain o) bs ∧ ChainCore d' f0 c0 chain ∧ d'.img.WF := by
  have hcs := C.geo.cs_pos
  have hlen : bs.length ≠ 0 := by
    cases bs with
    | nil => exact absurd rfl hne
    | cons _ _ => simp
  have holt : o < chain.length * d.fs.clusterSize := by omega
  have hr : chainRoom d.fs chain o = d.fs.clusterSize - o % d.fs.clusterSize := by
    unfold chainRoom; rw [if_pos holt]
  rw [hr] at hroom
  have hu := C.u32
  have hoff : (dirFile f0 chain d.fs.clusterSize o).offset = o := rfl
  have hws : min (min bs.length (d.fs.clusterSize - o % d.fs.clusterSize)) (4294967295 - o) = bs.length := by omega
  have h42 : 0x42 ≤ d.img.size := by
    have := C.geo.status_lt
    have := C.geo.fat_dev
    omega
  -- 1. set_dirty_flag(true)
  obtain ⟨d1, h1, hs1, hd1, hi1, hb1⟩ := run_setDirtyFlag_true d C.failAt h42
  have hfat1 : FatAgree d.fs d.img d1.img := by
    intro q hq1 _
    have := C.geo.status_lt
    exact hb1 hwf q (by omega)
  have C1 : ChainCore d1 f0 c0 chain := C.of_agree hs1.failAt hs1.size hs1.geom hfat1
  have hcs1 : d1.fs.clusterSize = d.fs.clusterSize := hs1.geom.clusterSize
  -- 2. the cluster
  obtain ⟨d2, h2, hs2⟩ := C1.curOpt o (by rw [hcs1]; omega)
  rw [hcs1] at h2
  have hlt : o / d.fs.clusterSize < chain.length := div_lt_of_lt_mul hcs holt
  have hcur : chain[o / d.fs.clusterSize]? = some chain[o / d.fs.clusterSize] := List.getElem?_eq_getElem hlt
  obtain ⟨hc2, hct⟩ := C.inTab _ (List.getElem_mem hlt)
  have hfa2 : d2.failAt = none := by rw [hs2.failAt, hs1.failAt]; exact C.failAt
  have hsz2 : d2.img.size = d.img.size := by rw [hs2.img, hs1.size]
  -- 3. the device write
  have hdev := C.geo.cluster_dev hc2 hct
  have hmod := Nat.mod_lt o hcs
  have hpos : clusterOff d.fs chain[o / d.fs.clusterSize] + o % d.fs.clusterSize + bs.length ≤ d2.img.size := by
    rw [hsz2]; omega
  have hsrc : chainSrc d.fs chain o = clusterOff d.fs chain[o / d.fs.clusterSize] + o % d.fs.clusterSize := by
    unfold chainSrc
    rw [List.getD_eq_getElem?_getD, hcur]; rfl
  let d3 := d2.didSeek (chainSrc d.fs chain o)
  have hmin : min bs.length (d3.img.size - d3.pos) = bs.length := by
    show min bs.length (d2.img.size - chainSrc d.fs chain o) = bs.length
    rw [hsrc]; omega
  have hd3img : (didWrite d3 bs).img = d2.img.write (chainSrc d.fs chain o) bs := by
    rw [didWrite_img d3 bs (by show chainSrc d.fs chain o + bs.length ≤ d2.img.size; rw [hsrc]; exact hpos)]
    rfl
  have hwf2 : d2.img.WF := by rw [hs2.img]; exact hs1.wf hwf
  have hnew : FileH.mk (dirFile f0 chain d.fs.clusterSize o).firstCluster (some chain[o / d.fs.clusterSize])
      (o + bs.length) (dirFile f0 chain d.fs.clusterSize o).entry =
      dirFile f0 chain d.fs.clusterSize (o + bs.length) := by
    have hne0 : o + bs.length ≠ 0 := by omega
    have hd : (o + bs.length - 1) / d.fs.clusterSize = o / d.fs.clusterSize := by
      have := (div_mod_add (o := o) (j := bs.length - 1) hcs (by omega)).1
      rw [← this]; congr 1; omega
    simp only [dirFile, if_neg hne0, hd, hcur]
  have hstep : DevStep d (didWrite d3 bs) := by
    have hs3 : DevStep d2 d3 := DevStep.of_sameStore (sameStore_didSeek d2 (chainSrc d.fs chain o))
    have hs4 : DevStep d3 (didWrite d3 bs) :=
      ⟨rfl, didWrite_img_size _ _, fun hw => by rw [hd3img]; exact Img.wf_write _ hw _ _, FsGeomEq.refl _, rfl⟩
    exact ((hs1.trans (DevStep.of_sameStore hs2)).trans hs3).trans hs4
  have hw : WritesTo d (didWrite d3 bs) (chainSrc d.fs chain o) bs := by
    refine ⟨hstep, fun _ => ?_, fun _ => ?_, fun hw q hq => ?_, ?_⟩
    · show d2.fs.curDirty = true; rw [hs2.fs]; exact hd1
    · show d2.fs.curDirty = true; rw [hs2.fs]; exact hd1
    · rw [hd3img, Img.getByte_write _ hwf2]
      unfold putBytes
      split
      · rfl
      · rw [hs2.img]; exact hb1 hw q hq
    · show d2.fs.fsInfo = _; rw [hs2.fs]; exact hi1
  have hp : d.fs.firstDataSector * d.fs.bps ≤ chainSrc d.fs chain o := by
    rw [hsrc]
    have h1 : d.fs.firstDataSector * d.fs.bps ≤ clusterOff d.fs 2 := by unfold clusterOff; simp
    have := clusterOff_mono d.fs hc2
    omega
  refine ⟨didWrite d3 bs, ?_, hw, C.of_agree hstep.failAt hstep.size hstep.geom (fatAgree_of_writesTo C hw hwf hp),
    hstep.wf hwf⟩
  unfold FileH.write
  rw [run_bind_ok (run_getFs d)]
  simp only [hoff, hws, hlen, if_false]
  rw [run_bind_ok h1]
  have hsel : ∀ {α} (k : Nat × FileH → Prog α), run ((if o % d.fs.clusterSize = 0 then do
        let nxt ← (dirFile f0 chain d.fs.clusterSize o).boundaryCluster
        match nxt with
        | some n => pure (n, dirFile f0 chain d.fs.clusterSize o)
        | none => do
          let c ← allocClusterFs (dirFile f0 chain d.fs.clusterSize o).currentCluster
            (dirFile f0 chain d.fs.clusterSize o).isDir
          let f := if (dirFile f0 chain d.fs.clusterSize o).firstCluster.isNone
            then FileH.setFirstCluster d.fs (dirFile f0 chain d.fs.clusterSize o) c
            else dirFile f0 chain d.fs.clusterSize o
          pure (c, f)
      else
        match (dirFile f0 chain d.fs.clusterSize o).currentCluster with
        | some n => pure (n, dirFile f0 chain d.fs.clusterSize o)
        | none => Prog.fail .panic) >>= k) d1 =
      run (k (chain[o / d.fs.clusterSize], dirFile f0 chain d.fs.clusterSize o)) d2 := by
    intro α k
    by_cases hm : o % d.fs.clusterSize = 0
    · rw [if_pos hm] at h2 ⊢
      rw [run_bind_assoc, run_bind_ok h2, hcur]
      exact run_bind_ok rfl
    · rw [if_neg hm] at h2 ⊢
      have h2' : run (Prog.pure (dirFile f0 chain d.fs.clusterSize o).currentCluster) d1 =
          (.ok chain[o / d.fs.clusterSize]?, d2) := h2
      simp only [run] at h2'
      injection h2' with h2a h2b
      injection h2a with h2a
      rw [h2a, hcur, ← h2b]
      exact run_bind_ok rfl
  refine (hsel _).trans ?_
  simp only
  rw [run_bind_ok (run_offsetFromClusterP C.geo _ hc2 hct d2), ← hsrc, run_bind_ok (run_seekStart _ d2 hfa2),
    List.take_length, run_bind_ok (run_write bs d3 hfa2), hmin]
  simp only [hlen, if_false]
  have hclk : (didWrite d3 bs).clock = d.clock := hstep.clock
  have hupd : run (FileH.updateAfterWrite (dirFile f0 chain d.fs.clusterSize (o + bs.length))) (didWrite d3 bs) =
      (.ok (dirFile (stamped f0 d.clock) chain d.fs.clusterSize (o + bs.length)), didWrite d3 bs) := by
    unfold FileH.updateAfterWrite
    have hent : (dirFile f0 chain d.fs.clusterSize (o + bs.length)).entry = f0.entry := rfl
    rw [hent]
    cases he : f0.entry with
    | none =>
      have : stamped f0 d.clock = f0 := stamped_none f0 _ he
      rw [this]; rfl
    | some e =>
      have hsz : (e.setModified (clockDateTime d.clock)).data.size? = none := by
        rw [size?_setModified_ed]
        have := C.nosize
        unfold FileH.size? at this
        rw [he] at this
        exact this
      have ht : ∀ dd : Dev, run Prog.now dd = (.ok dd.clock, dd) := fun _ => rfl
      simp only
      rw [run_bind_ok (ht _), hclk]
      simp only [hsz]
      have : stamped f0 d.clock = { f0 with entry := some (e.setModified (clockDateTime d.clock)) } := by
        unfold stamped; rw [he]; rfl
      rw [this]
      rfl
  rw [hoff, hnew, run_bind_ok hupd]
  rfl

end chain

end FatVerif.DirSim
