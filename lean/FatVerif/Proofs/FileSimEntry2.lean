import FatVerif.Proofs.FileSimEntry1
import FatVerif.Proofs.FileSimFrame3
/-!
# FileSim / entry, part 2: the record invariant `EntryRep` is carried through every operation of a history

`SlotApart`: the handle's slot is not a position its own `write` / `truncate` may modify (it lies in a directory, not in
the FAT, not in a cluster of the file, not in a free cluster).  `entry_carried`: a step summarised by `OpSummary` whose
editor moved by `EdStep` keeps `EntryRep` and `SlotApart`.  `execH_entry`: all six operations of `HOp`.
-/
namespace FatVerif.FileSim
open FatVerif FatVerif.Fat

/-- the slot of the handle is not among the positions its own `write` / `truncate` may modify -/
def SlotApart (fs : FsState) (img : Img) (f : FileH) (e : DirEntryEditor) : Prop :=
  ∀ q, e.pos ≤ q → q < e.pos + 32 → ¬ MayTouchData fs img f q

theorem apart_of_not_inCluster {fs : FsState} {c pos : Nat} (hcs : 0 < fs.clusterSize)
    (h : ∀ q, pos ≤ q → q < pos + 32 → ¬ InCluster fs c q) :
    pos + 32 ≤ clusterOff fs c ∨ clusterOff fs c + fs.clusterSize ≤ pos := by
  apply Classical.byContradiction
  intro hn
  by_cases hle : pos ≤ clusterOff fs c
  · exact h (clusterOff fs c) hle (by omega) ⟨Nat.le_refl _, by omega⟩
  · exact h pos (Nat.le_refl _) (by omega) ⟨by omega, by omega⟩

theorem firstOk_of_rep {fs : FsState} {img : Img} {f : FileH} (hg : Geo fs img.size) (hrep : FileRep fs img f) :
    FirstOk fs.fatType f.firstCluster := by
  intro c hc
  have hmem : c ∈ fileChain fs img f := by
    have := hrep.inv.first
    have h1 : (fileChain fs img f).head? = some c := by rw [← hc]; exact this.symm
    exact List.mem_of_head? h1
  obtain ⟨h2, ht⟩ := hrep.inTab c hmem
  have hs := hg.small
  refine ⟨by omega, ?_⟩
  cases hft : fs.fatType <;> rw [hft] at hs <;> simp only [badMark] at hs <;> simp <;> omega

/-- a summarised step whose editor moved by `EdStep` keeps the record invariant -/
theorem entry_carried {f f' : FileH} {d d' : Dev} {e : DirEntryEditor} (hsum : OpSummary f d f' d')
    (hg : Geo d.fs d.img.size) (hrep : FileRep d.fs d.img f) (hrep' : FileRep d'.fs d'.img f')
    (he : EntryRep d.fs d.img f e) (hap : SlotApart d.fs d.img f e) (hst : EdStep d.fs.fatType f f')
    (hoff : f'.offset < 4294967296) :
    ∃ e', EntryRep d'.fs d'.img f' e' ∧ SlotApart d'.fs d'.img f' e' ∧ EdRel e e' := by
  have hgeo := hsum.step.geom
  have hg' : Geo d'.fs d'.img.size := by rw [hsum.step.size]; exact hg.frame hgeo
  obtain ⟨e', he', hrel, hwf, hfirst⟩ := hst.step e he.entry
  have hslot : ∀ q, e.pos ≤ q → q < e.pos + 32 → d'.img.getByte q = d.img.getByte q := by
    intro q h1 h2
    apply Classical.byContradiction
    intro hne
    exact hap q h1 h2 (hsum.diff q hne)
  refine ⟨e', ⟨he', hwf he.wf hoff, by rw [hrel.attrs]; exact he.notLfn, ?_, ?_, ?_, ?_, ?_⟩, ?_, hrel⟩
  · rw [hrel.pos, hsum.step.size]; exact he.inDev
  · rw [hrel.pos, hgeo.fatSlice]; exact he.offFat
  · intro c hc
    rw [hrel.pos, hgeo.clusterOff, hgeo.clusterSize]
    rcases hsum.chain c hc with h | h
    · exact he.offData c h
    · obtain ⟨a, b⟩ := hrep'.inTab c hc
      rw [hgeo.totalClusters] at b
      exact apart_of_not_inCluster hg.cs_pos (fun q h1 h2 hin => hap q h1 h2 (Or.inr (Or.inr (Or.inl ⟨c, ⟨a, b, h⟩, hin⟩))))
  · rw [hgeo.fatType]
    refine hfirst he.first ?_
    have := firstOk_of_rep hg' hrep'
    rw [hgeo.fatType] at this
    exact this
  · intro hcl
    have heq := hrel.clean hcl
    rw [heq] at hcl ⊢
    rw [← he.sync hcl]
    unfold Img.read
    apply List.map_congr_left
    intro k hk
    have hk' := List.mem_range.mp hk
    exact hslot _ (by omega) (by omega)
  · intro q h1 h2 hm
    rw [hrel.pos] at h1 h2
    exact hap q h1 h2 (mayTouchData_mono hsum hrep hrep' hm)

theorem EdStep.refl (ft : FatType) (f : FileH) : EdStep ft f f := EdStep.of_entry_eq rfl rfl

theorem offset_lt_of_simInv {f : FileH} {d : Dev} (h : SimInv f d) : f.offset < 4294967296 := by
  have h1 := h.rep.inv.off_le
  have h2 := h.rep.inv.size_le
  have h3 : (absFile d.fs d.img f).offset = f.offset := rfl
  unfold Cursor.u32Max at h2
  omega

/-- the editor step of the four single calls -/
theorem execH_edStep_prim (op : HOp) (hp : op.isPrim) (f : FileH) (d : Dev) (h : SimInv f d) :
    EdStep d.fs.fatType f (execH op f d).2.1 := by
  cases op with
  | readExact n => exact hp.elim
  | writeAll bs => exact hp.elim
  | read n =>
    simp only [execH]
    generalize hr : run (f.read n) d = r
    obtain ⟨(e | ⟨bs, f'⟩), d'⟩ := r
    · exact EdStep.refl _ f
    · exact read_edStep f n d d' bs f' hr
  | seek p =>
    obtain ⟨sz, hsz⟩ := h.rep.file
    simp only [execH]
    generalize hr : run (f.seek p) d = r
    obtain ⟨(e | ⟨pos, f'⟩), d'⟩ := r
    · exact EdStep.refl _ f
    · exact seek_edStep f p d d' pos f' sz hsz hr
  | write bs =>
    simp only [execH]
    generalize hr : run (f.write bs) d = r
    obtain ⟨(e | ⟨k, f'⟩), d'⟩ := r
    · exact EdStep.refl _ f
    · exact write_edStep f bs d d' k f' hr
  | truncate =>
    simp only [execH]
    generalize hr : run f.truncate d = r
    obtain ⟨(e | f'), d'⟩ := r
    · exact EdStep.refl _ f
    · refine (truncate_edStep f d d' f' hr ?_).1
      intro d1 h1
      obtain ⟨d2, h2, hs2, _⟩ := run_setDirtyFlag_true d h.nofault (by
        have := h.geo.status_lt; have := h.geo.fat_dev; omega)
      rw [h2] at h1
      have : d2 = d1 := congrArg Prod.snd h1
      rw [← this]; exact hs2.geom.fatType

/-- one single call keeps the record invariant -/
theorem execH_entry_prim (op : HOp) (hp : op.isPrim) (f : FileH) (d : Dev) (h : SimInv f d) (hok : op.BytesOk)
    (e : DirEntryEditor) (he : EntryRep d.fs d.img f e) (hap : SlotApart d.fs d.img f e) :
    ∃ e', EntryRep (execH op f d).2.2.fs (execH op f d).2.2.img (execH op f d).2.1 e' ∧
      SlotApart (execH op f d).2.2.fs (execH op f d).2.2.img (execH op f d).2.1 e' ∧ EdRel e e' := by
  have hsum := execH_summary_prim op hp f d h hok
  have hsim' := (execH_refines_prim op hp f d h hok).1
  exact entry_carried hsum h.geo h.rep hsim'.rep he hap (execH_edStep_prim op hp f d h) (offset_lt_of_simInv hsim')

theorem readxH_entry : ∀ (fuel : Nat) (h : FileH) (d : Dev) (need : Nat) (acc : List Nat), SimInv h d →
    ∀ e, EntryRep d.fs d.img h e → SlotApart d.fs d.img h e →
    ∃ e', EntryRep (readxH fuel h d need acc).2.2.fs (readxH fuel h d need acc).2.2.img (readxH fuel h d need acc).2.1 e' ∧
      SlotApart (readxH fuel h d need acc).2.2.fs (readxH fuel h d need acc).2.2.img (readxH fuel h d need acc).2.1 e' ∧
      EdRel e e'
  | 0, h, d, _, _, _, e, he, hap => ⟨e, he, hap, EdRel.refl e⟩
  | fuel + 1, h, d, need, acc, hinv, e, he, hap => by
    by_cases hn : need = 0
    · simp only [readxH, hn, if_true]
      exact ⟨e, he, hap, EdRel.refl e⟩
    · have hb : (HOp.read need).BytesOk := fun bs e => by rcases e with e | e <;> cases e
      have hent := execH_entry_prim (.read need) (by exact True.intro) h d hinv hb e he hap
      have hstep := (execH_refines_prim (.read need) (by exact True.intro) h d hinv hb).1
      rw [readxH]
      simp only [hn, if_false]
      simp only [execH] at hent hstep
      generalize run (h.read need) d = r at hent hstep ⊢
      obtain ⟨(er | ⟨bs, h'⟩), d'⟩ := r
      · exact hent
      · simp only at hent hstep ⊢
        by_cases hl : bs.length = 0
        · simp only [hl, if_true]; exact hent
        · simp only [hl, if_false]
          obtain ⟨e1, a1, a2, a3⟩ := hent
          obtain ⟨e2, b1, b2, b3⟩ := readxH_entry fuel h' d' (need - bs.length) (acc ++ bs) hstep e1 a1 a2
          exact ⟨e2, b1, b2, a3.trans b3⟩

theorem writeallH_entry : ∀ (fuel : Nat) (h : FileH) (d : Dev) (bs : List Nat), SimInv h d → (∀ x ∈ bs, x < 256) →
    ∀ e, EntryRep d.fs d.img h e → SlotApart d.fs d.img h e →
    ∃ e', EntryRep (writeallH fuel h d bs).2.2.fs (writeallH fuel h d bs).2.2.img (writeallH fuel h d bs).2.1 e' ∧
      SlotApart (writeallH fuel h d bs).2.2.fs (writeallH fuel h d bs).2.2.img (writeallH fuel h d bs).2.1 e' ∧
      EdRel e e'
  | 0, h, d, _, _, _, e, he, hap => ⟨e, he, hap, EdRel.refl e⟩
  | fuel + 1, h, d, bs, hinv, hbytes, e, he, hap => by
    by_cases hn : bs.length = 0
    · simp only [writeallH, hn, if_true]
      exact ⟨e, he, hap, EdRel.refl e⟩
    · have hb : (HOp.write bs).BytesOk := fun bs' e => by rcases e with e | e <;> cases e; exact hbytes
      have hent := execH_entry_prim (.write bs) (by exact True.intro) h d hinv hb e he hap
      have hstep := (execH_refines_prim (.write bs) (by exact True.intro) h d hinv hb).1
      rw [writeallH]
      simp only [hn, if_false]
      simp only [execH] at hent hstep
      generalize run (h.write bs) d = r at hent hstep ⊢
      obtain ⟨(er | ⟨k, h'⟩), d'⟩ := r
      · exact hent
      · simp only at hent hstep ⊢
        by_cases hk : k = 0
        · simp only [hk, if_true]; exact hent
        · simp only [hk, if_false]
          obtain ⟨e1, a1, a2, a3⟩ := hent
          obtain ⟨e2, b1, b2, b3⟩ := writeallH_entry fuel h' d' (bs.drop k) hstep
            (fun x hx => hbytes x (List.mem_of_mem_drop hx)) e1 a1 a2
          exact ⟨e2, b1, b2, a3.trans b3⟩

/-- **every operation of a history keeps the record invariant**: the slot still lies inside the device, outside the
    FAT and the clusters of the (possibly grown) file; the record is well formed with the handle's first cluster; a
    clean editor still means the slot holds the record -/
theorem execH_entry (op : HOp) (f : FileH) (d : Dev) (h : SimInv f d) (hok : op.BytesOk)
    (e : DirEntryEditor) (he : EntryRep d.fs d.img f e) (hap : SlotApart d.fs d.img f e) :
    ∃ e', EntryRep (execH op f d).2.2.fs (execH op f d).2.2.img (execH op f d).2.1 e' ∧
      SlotApart (execH op f d).2.2.fs (execH op f d).2.2.img (execH op f d).2.1 e' ∧ EdRel e e' := by
  cases op with
  | read n => exact execH_entry_prim _ (by exact True.intro) f d h hok e he hap
  | seek p => exact execH_entry_prim _ (by exact True.intro) f d h hok e he hap
  | write bs => exact execH_entry_prim _ (by exact True.intro) f d h hok e he hap
  | truncate => exact execH_entry_prim _ (by exact True.intro) f d h hok e he hap
  | readExact n => exact readxH_entry (n + 1) f d n [] h e he hap
  | writeAll bs => exact writeallH_entry (bs.length + 1) f d bs h (hok bs (Or.inr rfl)) e he hap

end FatVerif.FileSim
