import FatVerif.Proofs.NoWriteModel5
/-! Write-side log specifications shared by C12 and C14: what a successful `write_all` / `writeChunks` on the raw
    device appends to the log. -/
namespace FatVerif

/-- the write records `items` (oldest first) tile the byte string `bs` from device offset `p` on: consecutive,
    non-empty pieces whose concatenation is `bs` (a device may accept a `write` partially; `write_all` continues) -/
inductive Pieces : Nat → List Nat → List LogItem → Prop where
  | nil (p : Nat) : Pieces p [] []
  | cons (p : Nat) (c bs' : List Nat) (rest : List LogItem) : c ≠ [] → Pieces (p + c.length) bs' rest →
      Pieces p (c ++ bs') (.write p c :: rest)

theorem Pieces.append {p : Nat} {a b : List Nat} {i1 i2 : List LogItem} (h1 : Pieces p a i1)
    (h2 : Pieces (p + a.length) b i2) : Pieces p (a ++ b) (i1 ++ i2) := by
  induction h1 with
  | nil p => simpa using h2
  | cons p c bs' rest hc _ ih =>
    rw [List.append_assoc, List.cons_append]
    refine Pieces.cons p c _ _ hc (ih ?_)
    rw [List.length_append, ← Nat.add_assoc] at h2
    exact h2

theorem Pieces.nil_inv {p : Nat} {bs : List Nat} {items : List LogItem} (h : Pieces p bs items) (hb : bs = []) :
    items = [] := by
  cases h with
  | nil => rfl
  | cons _ c bs' rest hc hr =>
    have : c = [] := (List.append_eq_nil_iff.mp hb).1
    exact absurd this hc

/-- one byte can only be written in one piece -/
theorem Pieces.single' {p v : Nat} {bs : List Nat} {items : List LogItem} (h : Pieces p bs items) (hb : bs = [v]) :
    items = [.write p [v]] := by
  cases h with
  | nil => cases hb
  | cons _ c bs' rest hc hr =>
    cases c with
    | nil => exact absurd rfl hc
    | cons x xs =>
      simp only [List.cons_append, List.cons.injEq] at hb
      obtain ⟨rfl, h2⟩ := hb
      have hx : xs = [] ∧ bs' = [] := by simpa using h2
      obtain ⟨rfl, rfl⟩ := hx
      rw [hr.nil_inv rfl]

theorem Pieces.single {p v : Nat} {items : List LogItem} (h : Pieces p [v] items) : items = [.write p [v]] :=
  Pieces.single' h rfl

theorem Pieces.all_write {p : Nat} {bs : List Nat} {items : List LogItem} (h : Pieces p bs items) :
    ∀ it ∈ items, it.isWrite = true := by
  induction h with
  | nil p => simp
  | cons p c bs' rest _ _ ih =>
    intro it hit
    rcases List.mem_cons.mp hit with h | h
    · subst h; rfl
    · exact ih it h

/-- a successful `write_all` on the raw device appends pieces that tile the buffer from the start position -/
theorem writeAllLoop_dev_pieces : ∀ (fuel : Nat) (bs : List Nat) (d : Dev) (u : Unit) (d' : Dev),
    run (writeAllLoop devStrm fuel () bs) d = (.ok u, d') →
    ∃ items, d'.log = items.reverse ++ d.log ∧ Pieces d.pos bs items ∧ d'.pos = d.pos + bs.length ∧ d'.fs = d.fs := by
  intro fuel
  induction fuel with
  | zero =>
    intro bs d u d' hr
    unfold writeAllLoop at hr
    simp only [run] at hr; cases hr
  | succ k ih =>
    intro bs d u d' hr
    unfold writeAllLoop at hr
    split at hr
    · rename_i hemp
      have : run (Prog.pure ()) d = (.ok u, d') := hr
      simp only [run] at this; cases this
      have hb : bs = [] := by simpa using hemp
      subst hb
      exact ⟨[], rfl, Pieces.nil _, rfl, rfl⟩
    · rename_i hne
      have hr' : run (Prog.bind (devStrm.write () bs) (fun x => match x with
          | (n, s') => if n = 0 then Prog.fail devStrm.wzErr else writeAllLoop devStrm k s' (bs.drop n))) d = (.ok u, d') := hr
      simp only [run, run_devStrm_write] at hr'
      rcases hw : stepOp (.write bs) d with ⟨rw, d1⟩
      rw [hw] at hr'
      rcases stepOp_write_spec bs d hw with ⟨hfs, ⟨e, he, _⟩ | ⟨m, hm, hle, hlog, hpos⟩⟩
      · subst he; simp only at hr'; cases hr'
      · subst hm
        simp only at hr'
        split at hr'
        · simp only [run] at hr'; cases hr'
        · rename_i hm0
          obtain ⟨items, h1, h2, h3, h4⟩ := ih _ _ _ _ hr'
          refine ⟨.write d.pos (bs.take m) :: items, ?_, ?_, ?_, h4.trans hfs⟩
          · rw [h1, hlog]; simp
          · have hl : (bs.take m).length = m := by simp only [List.length_take]; omega
            have hne' : bs.take m ≠ [] := by
              intro h0
              rw [h0] at hl; simp at hl; omega
            have := Pieces.cons d.pos (bs.take m) (bs.drop m) items hne' (by rw [hl, ← hpos]; exact h2)
            rwa [List.take_append_drop] at this
          · rw [h3, hpos, List.length_drop]; omega

theorem writeAll_dev_pieces (bs : List Nat) (d : Dev) {u : Unit} {d' : Dev}
    (hr : run (writeAll devStrm () bs) d = (.ok u, d')) :
    ∃ items, d'.log = items.reverse ++ d.log ∧ Pieces d.pos bs items ∧ d'.pos = d.pos + bs.length ∧ d'.fs = d.fs :=
  writeAllLoop_dev_pieces _ bs d u d' hr

theorem writeChunks_dev_pieces : ∀ (cs : List (List Nat)) (d : Dev) (u : Unit) (d' : Dev),
    run (writeChunks devStrm () cs) d = (.ok u, d') →
    ∃ items, d'.log = items.reverse ++ d.log ∧ Pieces d.pos cs.flatten items ∧ d'.fs = d.fs := by
  intro cs
  induction cs with
  | nil =>
    intro d u d' hr
    unfold writeChunks at hr
    have : run (Prog.pure ()) d = (.ok u, d') := hr
    simp only [run] at this; cases this
    exact ⟨[], rfl, Pieces.nil _, rfl⟩
  | cons c rest ih =>
    intro d u d' hr
    unfold writeChunks at hr
    have hr' : run (Prog.bind (writeAll devStrm () c) (fun s' => writeChunks devStrm s' rest)) d = (.ok u, d') := hr
    rcases run_bind_cases hr' with ⟨u1, d1, h1, h2⟩ | ⟨e, _, he⟩
    · obtain ⟨i1, l1, p1, pos1, fs1⟩ := writeAll_dev_pieces c d h1
      obtain ⟨i2, l2, p2, fs2⟩ := ih _ _ _ h2
      refine ⟨i1 ++ i2, ?_, ?_, fs2.trans fs1⟩
      · rw [l2, l1]; simp
      · rw [List.flatten_cons]
        exact Pieces.append p1 (by rw [← pos1]; exact p2)
    · cases he

theorem flatten_chunksOf : ∀ (ns : List Nat) (bs : List Nat), (chunksOf bs ns).flatten = bs.take ns.sum := by
  intro ns
  induction ns with
  | nil => intro bs; simp [chunksOf]
  | cons n rest ih =>
    intro bs
    simp only [chunksOf, List.flatten_cons, ih, List.sum_cons]
    rw [List.take_add]

end FatVerif
