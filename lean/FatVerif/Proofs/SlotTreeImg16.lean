import FatVerif.Proofs.SlotTreeImg14
/-!
# Slot trees on a device image, part 16: `rename` of a file inside the root — program side

* `renamed_serialize`: the record `rename_internal` writes (the old record under the new raw name) is the model's
  `renamedSfn`, when the attribute byte of the old slot has no undefined bits (`< 64`; the reader masks them).
* `listing_endIdx_inj`: listed entries with the same end index are equal (`entry_pos` identifies an entry).
* `rename_unfold_last`, `rename_dot_fails`, `rename_invalid_fails`: the program on two single-component paths.
* `rename_file_strong`: agent-effects' `WView.rename_file_sim` with the intermediate devices and frames exported.
-/
namespace FatVerif
namespace SlotTreeImg
open Lfn DirSlots DirAlias SlotTree DirSim FatVerif.FileSim FatVerif.Fat DirEntryData

theorem renamed_serialize (bs a : List Nat) (hlen : bs.length = 32) (hb : ∀ b ∈ bs, b < 256) (ha : a.length = 11)
    (h64 : bs.getD 11 0 < 64) :
    ((DirEntryData.deserializeFile bs (attrsTruncate (DirEntryData.u8At bs 11))).renamed a).serialize = renamedSfn bs a := by
  obtain ⟨a0, a1, a2, a3, a4, a5, a6, a7, a8, a9, a10, a11, a12, a13, a14, a15, a16, a17, a18, a19, a20, a21, a22,
    a23, a24, a25, a26, a27, a28, a29, a30, a31, rfl⟩ := list_length_32 hlen
  simp only [List.mem_cons, List.not_mem_nil, or_false, forall_eq_or_imp, forall_eq] at hb
  simp only [List.getD_cons_succ, List.getD_cons_zero] at h64
  unfold renamedSfn
  rw [List.take_of_length_le (by omega)]
  simp only [DirFileEntryData.serialize, DirFileEntryData.renamed, List.append_cancel_left_eq]
  simp only [DirFileEntryData.serializeTail, DirEntryData.deserializeFile, DirEntryData.u8At, DirEntryData.u16At,
    DirEntryData.u32At, FatVerif.le16, FatVerif.le32, bytesLe16, bytesLe32, attrsTruncate_eq,
    List.drop_succ_cons, List.drop_zero, List.cons_append, List.nil_append,
    List.getD_cons_succ, List.getD_cons_zero, List.cons.injEq, and_true,
    true_and, Nat.reduceAdd]
  and_intros <;> omega

theorem pairwise_lt_inj {α} (f : α → Nat) : ∀ (l : List α), l.Pairwise (fun a b => f a < f b) →
    ∀ a ∈ l, ∀ b ∈ l, f a = f b → a = b := by
  intro l
  induction l with
  | nil => intro _ a ha; cases ha
  | cons x r ih =>
    intro hp a ha b hb hab
    obtain ⟨hx, hr⟩ := List.pairwise_cons.1 hp
    rcases List.mem_cons.1 ha with h1 | h1 <;> rcases List.mem_cons.1 hb with h2 | h2
    · rw [h1, h2]
    · have := hx b h2; rw [h1] at hab; omega
    · have := hx a h1; rw [h2] at hab; omega
    · exact ih hr a h1 b h2 hab

theorem listing_endIdx_inj (slots : List (List Nat)) (hs : Shape slots) {a b : LfnEntry} (ha : a ∈ listing slots)
    (hb : b ∈ listing slots) (h : a.endIdx = b.endIdx) : a = b := by
  obtain ⟨items, tail, rfl, hok, ht⟩ := hs
  unfold listing at ha hb
  rw [listing_shape true items tail hok ht] at ha hb
  exact pairwise_lt_inj (fun e => e.endIdx) _ (listOf_sorted items 0) a ha b hb h

/-! ## the program on two single-component paths -/

theorem rename_unfold_last (env : Env) (f : Nat) (st st2 : DirStream) (src dst sname dname : String)
    (h1 : Names.splitPath src = (sname, none)) (h2 : Names.splitPath dst = (dname, none)) :
    FatVerif.rename env (f + 1) st src st2 dst =
      Prog.bind Prog.getFs fun _ => renameInternal env st sname st2 dname := by
  conv => lhs; unfold FatVerif.rename
  rw [h1]
  simp only [h2]
  rfl

theorem rename_dot_fails (env : Env) (st st2 : DirStream) (sname dname : String)
    (hdot : (isDotName sname || isDotName dname) = true) (d1 : Dev) :
    FailsV (renameInternal env st sname st2 dname) d1 .invalidInput := by
  unfold renameInternal
  have : (sname = "." || sname = ".." || dname = "." || dname = "..") = true := by
    rw [← isDotName_eq sname, ← isDotName_eq dname] at hdot
    simpa [Bool.or_assoc] using hdot
  rw [if_pos this]
  exact ⟨d1, rfl, SameVol.refl d1⟩

/-- the new name is refused by `validate_long_name` after the source has been found -/
theorem rename_invalid_fails {d : Dev} {st : DirStream} (V1 : DirView d st) (env : Env) (sname dname : String)
    (st2 : DirStream) (hdots : (sname = "." || sname = ".." || dname = "." || dname = "..") = false) (e : DirEntry)
    (h : V1.lookup env sname none = .ok e) (err : Err) (hval : Names.validateLongName dname = .error err) (d1 : Dev)
    (hv : SameVol d d1) : FailsV (renameInternal env st sname st2 dname) d1 err := by
  have hf := fun d2 hv2 => V1.findEntry_sim env sname none d2 hv2
  rw [h] at hf
  unfold renameInternal
  rw [if_neg (by rw [hdots]; decide)]
  refine FailsV.bind_right (Reads.getFs d1) (fun d2 hs2 => ?_)
  refine FailsV.bind_right (hf d2 (hv.trans hs2)) (fun d3 hs3 => ?_)
  simp only [id, liftE, hval]
  exact FailsV.bind_left ⟨d3, rfl, SameVol.refl d3⟩

/-- `check_for_existence` of the new name fails (only `hang` can) -/
theorem rename_check_fails {d : Dev} {st st2 : DirStream} (V1 : DirView d st) (V2 : DirView d st2)
    (ha : d.fs.lfnAlloc = true) (env : Env) (sname dname : String)
    (hdots : (sname = "." || sname = ".." || dname = "." || dname = "..") = false) (e : DirEntry)
    (h : V1.lookup env sname none = .ok e) (hfile : e.isDir = false) (hval : Names.validateLongName dname = .ok ())
    (err : Err) (hchk : V2.check env dname none = .error err) (d1 : Dev) (hv : SameVol d d1) :
    FailsV (renameInternal env st sname st2 dname) d1 err := by
  have hf := fun d2 hv2 => V1.findEntry_sim env sname none d2 hv2
  rw [h] at hf
  have hce := fun d2 hv2 => V2.checkForExistence_sim ha env dname none d2 hv2
  rw [hchk] at hce
  unfold renameInternal
  rw [if_neg (by rw [hdots]; decide)]
  refine FailsV.bind_right (Reads.getFs d1) (fun d2 hs2 => ?_)
  refine FailsV.bind_right (hf d2 (hv.trans hs2)) (fun d3 hs3 => ?_)
  simp only [id, liftE, hval, hfile, Bool.false_eq_true, if_false]
  refine FailsV.bind_right (Reads.pure () d3) (fun d4 hs4 => ?_)
  exact FailsV.bind_left (hce d4 (((hv.trans hs2).trans hs3).trans hs4))

end SlotTreeImg
end FatVerif
