import FatVerif.Proofs.DirWriteSim32
/-! Directory WRITES, part 33: the last step of `rename_internal` for a directory: its `..` entry is pointed at the new
    parent (raw 32-byte write of the record if the cluster changes; nothing if it stays). -/
namespace FatVerif.DirSim
open FatVerif.FileSim FatVerif.Fat DirEntryData DirAlias

/-- the tail of `rename_internal` after the old slots are deleted (same text as in `Model/DirOps.lean`) -/
def fixDotDot (env : Env) (fs : FsState) (dst : DirStream) (newEntry : DirEntry) : Prog Unit :=
  if newEntry.isDir then do
    let parentCluster := if dst.isRootDir then none else dst.firstCluster
    let moved ← newEntry.toDir fs
    let dotdot ← thenDrop moved (findEntry env moved ".." (some true))
    let ed := dotdot.editor.setFirstCluster parentCluster fs.fatType
    if ed.dirty then do
      let _ ← Prog.seekStart ed.pos
      let _ ← writeChunks devStrm () (chunksOf ed.data.serialize FileH.entryChunkSizes)
      pure ()
    else pure ()
  else pure ()

theorem fixDotDot_file (env : Env) (fs : FsState) (dst : DirStream) (newEntry : DirEntry) (h : newEntry.isDir = false)
    (d : Dev) : run (fixDotDot env fs dst newEntry) d = (.ok (), d) := by
  unfold fixDotDot; rw [h]; rfl

/-- the `..` entry already names the (new) parent: only reads -/
theorem fixDotDot_same (env : Env) (fs : FsState) (dst : DirStream) (newEntry : DirEntry) (hdir : newEntry.isDir = true)
    {d0 : Dev} (Vm : DirView d0 (DirEntry.dirStream fs newEntry)) (dde : DirEntry)
    (hlk : Vm.lookup env ".." (some true) = .ok dde)
    (hsame : dde.data.firstCluster fs.fatType = (if dst.isRootDir then none else dst.firstCluster))
    (d : Dev) (hv : SameVol d0 d) : Reads (fixDotDot env fs dst newEntry) d () := by
  unfold fixDotDot
  rw [hdir]
  simp only [if_true]
  refine Reads.bind (toDir_sim fs newEntry hdir d) (fun d1 hs1 => ?_)
  have hf := Vm.findEntry_sim env ".." (some true) d1 (hv.trans hs1)
  rw [hlk] at hf
  refine Reads.bind (Reads.thenDrop hf (fun d2 hs2 => Vm.drop_sim d2 ((hv.trans hs1).trans hs2))) (fun d2 _ => ?_)
  have hclean : (dde.editor.setFirstCluster (if dst.isRootDir then none else dst.firstCluster) fs.fatType).dirty = false := by
    unfold DirEntryEditor.setFirstCluster
    rw [if_neg (by
      show ¬ ((if dst.isRootDir then none else dst.firstCluster) ≠ dde.data.firstCluster fs.fatType)
      rw [hsame]; exact fun h => h rfl)]
    rfl
  simp only [id, hclean, Bool.false_eq_true, if_false]
  exact Reads.pure () d2

/-- the parent changes: the record of `..` with the new cluster is written raw at its position -/
theorem fixDotDot_move (env : Env) (fs : FsState) (dst : DirStream) (newEntry : DirEntry) (hdir : newEntry.isDir = true)
    {d0 : Dev} (Vm : DirView d0 (DirEntry.dirStream fs newEntry)) (dde : DirEntry)
    (hlk : Vm.lookup env ".." (some true) = .ok dde)
    (hne : (if dst.isRootDir then none else dst.firstCluster) ≠ dde.data.firstCluster fs.fatType)
    (hname : dde.data.name.length = 11)
    (d : Dev) (hv : SameVol d0 d) (hfa : d0.failAt = none) (hwf : d0.img.WF) (hin : dde.entryPos + 32 ≤ d0.img.size) :
    ∃ d', run (fixDotDot env fs dst newEntry) d = (.ok (), d') ∧ VolStep d d' ∧ d'.fs = d.fs ∧ d'.clock = d.clock ∧
      ∀ q, d'.img.getByte q = putBytes d.img.getByte dde.entryPos
        (dde.data.setFirstCluster (if dst.isRootDir then none else dst.firstCluster) fs.fatType).serialize q := by
  obtain ⟨d1, h1, hs1⟩ := toDir_sim fs newEntry hdir d
  have hf := Vm.findEntry_sim env ".." (some true) d1 (hv.trans hs1)
  rw [hlk] at hf
  obtain ⟨d2, h2, hs2⟩ := Reads.thenDrop hf (fun d2 hs2 => Vm.drop_sim d2 ((hv.trans hs1).trans hs2))
  have hv2 : SameVol d0 d2 := (hv.trans hs1).trans hs2
  generalize hpc : (if dst.isRootDir then none else dst.firstCluster) = pc at hne ⊢
  have hed : dde.editor.setFirstCluster pc fs.fatType =
      { dde.editor with data := dde.data.setFirstCluster pc fs.fatType, dirty := true } := by
    unfold DirEntryEditor.setFirstCluster
    exact if_pos hne
  have hser : (dde.data.setFirstCluster pc fs.fatType).serialize.length = 32 :=
    DirFileEntryData.serialize_length _ hname
  have hfl := chunksOf_flatten FileH.entryChunkSizes (dde.data.setFirstCluster pc fs.fatType).serialize
    (by rw [entryChunks_sum, hser])
  have hfa2 : d2.failAt = none := by rw [hv2.failAt]; exact hfa
  obtain ⟨d3, h3, hs3, hfs3, hb3⟩ := dev_writeChunks
    (chunksOf (dde.data.setFirstCluster pc fs.fatType).serialize FileH.entryChunkSizes) (d2.didSeek dde.entryPos)
    (chunksOf_ne_nil _ _ (by decide) (by rw [entryChunks_sum, hser]; exact Nat.le_refl _)) hfa2
    (by rw [hfl, hser]; show dde.entryPos + 32 ≤ d2.img.size; rw [hv2.img]; exact hin)
  rw [hfl] at hb3
  have hstep : DevStep d2 d3 := (DevStep.of_sameStore (sameStore_didSeek d2 dde.entryPos)).trans hs3
  have hv02 := hs1.trans hs2
  refine ⟨d3, ?_, (VolStep.of_sameVol hv02).trans (VolStep.of_devStep hstep), by rw [hfs3]; exact hv02.fs, ?_, ?_⟩
  · unfold fixDotDot
    rw [hdir]
    simp only [if_true]
    rw [run_bind_ok h1, run_bind_ok h2]
    simp only [id, hpc, hed, if_true]
    show run (Prog.seekStart dde.entryPos >>= fun _ => _) d2 = _
    rw [run_bind_ok (run_seekStart dde.entryPos d2 hfa2), run_bind_ok h3]
    rfl
  · rw [hstep.clock, run_clock _ _ _ _ h2, run_clock _ _ _ _ h1]
  · intro q
    rw [hb3 (by show d2.img.WF; rw [hv2.img]; exact hwf) q]
    show putBytes d2.img.getByte dde.entryPos _ q = _
    rw [hv02.img]

end FatVerif.DirSim
