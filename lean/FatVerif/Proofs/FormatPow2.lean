import FatVerif.Model.Format
/-! `next_power_of_two` -/
namespace FatVerif.Format

theorem nextPow2Aux_spec (n : Nat) : ∀ fuel j, ∃ k, j ≤ k ∧ k ≤ j + fuel ∧ nextPow2Aux n (2 ^ j) fuel = 2 ^ k ∧
    (k = j ∨ 2 ^ (k - 1) < n) ∧ (n ≤ 2 ^ (j + fuel) → n ≤ 2 ^ k) := by
  intro fuel
  induction fuel with
  | zero => intro j; exact ⟨j, Nat.le_refl _, Nat.le_refl _, rfl, Or.inl rfl, fun h => h⟩
  | succ f ih =>
    intro j
    unfold nextPow2Aux
    by_cases h : n ≤ 2 ^ j
    · rw [if_pos h]; exact ⟨j, Nat.le_refl _, by omega, rfl, Or.inl rfl, fun _ => h⟩
    · rw [if_neg h]
      have e : 2 * 2 ^ j = 2 ^ (j + 1) := by rw [Nat.pow_succ]; omega
      rw [e]
      obtain ⟨k, h1, h2, h3, h4, h5⟩ := ih (j + 1)
      refine ⟨k, by omega, by omega, h3, ?_, ?_⟩
      · rcases h4 with h4 | h4
        · right; subst h4; simp only [Nat.add_sub_cancel]; omega
        · right; exact h4
      · intro hh; apply h5; rw [show j + 1 + f = j + (f + 1) by omega]; exact hh

/-- `next_power_of_two` returns the least power of two ≥ n -/
theorem nextPow2_spec (n : Nat) (hn : n ≤ 2 ^ 64) :
    ∃ k, k ≤ 64 ∧ nextPow2 n = 2 ^ k ∧ n ≤ 2 ^ k ∧ (k = 0 ∨ 2 ^ (k - 1) < n) := by
  obtain ⟨k, _, h2, h3, h4, h5⟩ := nextPow2Aux_spec n 64 0
  refine ⟨k, by omega, ?_, h5 (by simpa using hn), h4⟩
  unfold nextPow2; simpa using h3

/-- on `(2^k, 2^(k+1)]` the result is `2^(k+1)` -/
theorem nextPow2_eq (n k : Nat) (hk : k < 64) (h1 : 2 ^ k < n) (h2 : n ≤ 2 ^ (k + 1)) : nextPow2 n = 2 ^ (k + 1) := by
  have hn : n ≤ 2 ^ 64 := Nat.le_trans h2 (Nat.pow_le_pow_right (by omega) (by omega))
  obtain ⟨k', _, h3, h4, h5⟩ := nextPow2_spec n hn
  rw [h3]
  congr 1
  -- 2^k < n ≤ 2^k'  ⇒ k < k' ; 2^(k'-1) < n ≤ 2^(k+1) ⇒ k'-1 < k+1
  have a : k < k' := by
    apply Nat.lt_of_not_le; intro hle
    have := Nat.pow_le_pow_right (show 0 < 2 by omega) hle
    omega
  rcases h5 with h5 | h5
  · omega
  · have b : k' - 1 < k + 1 := by
      apply Nat.lt_of_not_le; intro hle
      have := Nat.pow_le_pow_right (show 0 < 2 by omega) hle
      omega
    omega

theorem nextPow2_small (n : Nat) (h : n ≤ 1) : nextPow2 n = 1 := by
  unfold nextPow2 nextPow2Aux; simp [h]

/-- for the byte counts that occur (`< 2^47`) the result is one of 48 values -/
theorem nextPow2_lt (n : Nat) (hn : n ≤ 2 ^ 47) : ∃ k, k < 48 ∧ nextPow2 n = 2 ^ k := by
  obtain ⟨k, _, h3, _, h5⟩ := nextPow2_spec n (Nat.le_trans hn (by decide))
  refine ⟨k, ?_, h3⟩
  rcases h5 with h5 | h5
  · omega
  · apply Nat.lt_of_not_le; intro hle
    have := Nat.pow_le_pow_right (show 0 < 2 by omega) (show 47 ≤ k - 1 by omega)
    omega

end FatVerif.Format
