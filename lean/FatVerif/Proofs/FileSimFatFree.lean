import FatVerif.Proofs.FileSimFatAlloc
import FatVerif.Proofs.FileSimWriteAlloc
/-!
# FileSim, part 14: `ClusterIterator::free` / `truncate` on the FAT slice, `free/truncate_cluster_chain`

Along an acyclic chain inside the table the loops free exactly the clusters they visit: the decoded FAT afterwards is the
old one with those entries `free` (and, for `truncate`, the first one `eoc`).
-/
namespace FatVerif.FileSim
open FatVerif FatVerif.Fat

/-- a device on which FAT updates of the volume `fs` can run: no fault, marked dirty, well-formed image, layout -/
structure FatDev (fs : FsState) (d : Dev) : Prop where
  nofault : d.failAt = none
  dirty : d.fs.curDirty = true
  wf : d.img.WF
  geo : Geo fs d.img.size

theorem FatDev.step {fs : FsState} {d d' : Dev} (h : FatDev fs d) (hs : DevStep d d') (hfs : d'.fs = d.fs) :
    FatDev fs d' :=
  ⟨by rw [hs.failAt]; exact h.nofault, by rw [hfs]; exact h.dirty, hs.wf h.wf, by rw [hs.size]; exact h.geo⟩

theorem FatDev.same {fs : FsState} {d d' : Dev} (h : FatDev fs d) (hs : SameStore d d') : FatDev fs d' :=
  h.step (DevStep.of_sameStore hs) hs.fs

/-- outside the FAT copies -/
def OutsideFat (fs : FsState) (q : Nat) : Prop :=
  q < (fatSliceOf fs).beginOff ∨ (fatSliceOf fs).beginOff + (fatSliceOf fs).mirrors * (fatSliceOf fs).size ≤ q

/-- `set` at an entry of the table, at the level of the decoded table -/
theorem run_table_set_view_fine (fs : FsState) (s : DiskSlice) (hs : IsFatSlice fs s) (c : Nat) (v : FatValue) (d : Dev)
    (hd : FatDev fs d) (hc : c < fs.totalClusters + 2) (hv : Representable fs.fatType v) :
    ∃ d' s', run (Table.set DiskSlice.strm fs.fatType s c v) d = (.ok s', d') ∧ IsFatSlice fs s' ∧
      DevStep d d' ∧ d'.fs = d.fs ∧ tabView fs d'.img = updV (tabView fs d.img) c v ∧
      (∀ q, OutsideFat fs q → d'.img.getByte q = d.img.getByte q) ∧
      (∀ q, ¬ FatEntryPos fs c q → d'.img.getByte q = d.img.getByte q) ∧
      (∀ E D : Nat → Prop, E c → Trace fs E D d d') := by
  obtain ⟨d1, s1, arr1, hr, hsl, hset, hu⟩ := run_table_set fs s hs c v d hd.nofault hd.dirty hd.wf hd.geo hc
  have htv := tabView_of_set hd.geo d.img d1.img hc hv (by rw [hu.arr]; exact hset)
  exact ⟨d1, s1, hr, hsl, hu.step, hu.fs_eq, htv, hu.frame, hu.fine,
    fun E D hE => hu.trace hd.geo hd.wf hc htv E D hE⟩

/-- the view after freeing the clusters `cs` -/
def freedView (g : Nat → FatValue) (cs : List Nat) : Nat → FatValue :=
  fun x => if x ∈ cs then .free else g x

theorem freedView_nil (g : Nat → FatValue) : freedView g [] = g := by
  funext x; simp [freedView]

theorem freedView_cons (g : Nat → FatValue) (m : Nat) (ms : List Nat) :
    freedView (updV g m .free) ms = freedView g (m :: ms) := by
  funext x
  unfold freedView updV
  by_cases h1 : x ∈ ms
  · simp [h1]
  · by_cases h2 : x = m
    · simp [h2]
    · simp [h1, h2]

theorem rep_free (ft : FatType) : Representable ft .free := by cases ft <;> trivial
theorem rep_eoc (ft : FatType) : Representable ft .eoc := by cases ft <;> trivial

/-- the loop of `ClusterIterator::free` along a chain -/
theorem run_freeLoop_fine (fs : FsState) : ∀ (cs : List Nat) (n : Nat) (fuel : Nat) (it : Table.CIter DiskSlice)
    (num : Nat) (d : Dev), FatDev fs d → Chain (tabView fs d.img) n cs → cs.Nodup →
    (∀ x ∈ cs, x < fs.totalClusters + 2) → cs.length + 1 ≤ fuel →
    it.cluster = some n → it.err = false → IsFatSlice fs it.fat →
    ∃ d' it', run (Table.CIter.freeLoop DiskSlice.strm fs.fatType fuel it num) d = (.ok (num + cs.length, it'), d') ∧
      DevStep d d' ∧ d'.fs = d.fs ∧ tabView fs d'.img = freedView (tabView fs d.img) cs ∧
      (∀ q, OutsideFat fs q → d'.img.getByte q = d.img.getByte q) ∧
      (∀ q, (∀ x ∈ cs, ¬ FatEntryPos fs x q) → d'.img.getByte q = d.img.getByte q) ∧
      (∀ E D : Nat → Prop, (∀ x ∈ cs, E x) → Trace fs E D d d') := by
  intro cs
  induction cs with
  | nil => intro n fuel it num d _ hch; exact absurd rfl (chain_ne_nil hch)
  | cons m ms ih =>
    intro n fuel it num d hd hch hnd hin hfuel hc herr hsl
    obtain ⟨t, ht⟩ := chain_head hch
    have hmn : m = n := by cases ht; rfl
    subst hmn
    obtain ⟨k, hk⟩ : ∃ k, fuel = k + 1 := ⟨fuel - 1, by simp at hfuel; omega⟩
    subst hk
    have hmt : m < fs.totalClusters + 2 := hin m (by simp)
    unfold Table.CIter.freeLoop
    rw [hc]
    simp only
    obtain ⟨d1, s1, h1, hs1, hsl1⟩ := run_citer_next fs it m d hd.nofault hd.geo hsl herr hc hmt
    rw [run_bind_ok h1]
    have hd1 := hd.same hs1
    obtain ⟨d2, s2, h2, hsl2, hst2, hfs2, htv2, hfr2, hfi2, htr2⟩ := run_table_set_view_fine fs s1 hsl1 m .free d1 hd1 hmt
      (rep_free _)
    rw [hs1.img] at htv2
    have hd2 := hd1.step hst2 hfs2
    have hfuel' : ms.length + 1 ≤ k := by simp at hfuel; omega
    cases hch with
    | last _ hl =>
      -- the last cluster of the chain
      have hnv : nextV (tabView fs d.img) m = none := nextV_last hl
      rw [hnv]
      simp only [Option.map]
      rw [run_bind_ok h2]
      obtain ⟨k', hk'⟩ : ∃ k', k = k' + 1 := ⟨k - 1, by omega⟩
      subst hk'
      unfold Table.CIter.freeLoop
      simp only
      refine ⟨d2, _, rfl, (DevStep.of_sameStore hs1).trans hst2, hfs2.trans hs1.fs, ?_, ?_, ?_,
        fun E D hE => (Trace.of_sameStore hs1).trans (htr2 E D (hE m (by simp)))⟩
      · rw [htv2]
        funext x
        unfold freedView updV
        by_cases hx : x = m <;> simp [hx]
      · intro q hq; rw [hfr2 q hq, hs1.img]
      · intro q hq; rw [hfi2 q (hq m (by simp)), hs1.img]
    | cons _ k' _ hdk hch' =>
      have hnv : nextV (tabView fs d.img) m = some k' := nextV_data hdk
      rw [hnv]
      simp only [Option.map]
      rw [run_bind_ok h2]
      have hmms : m ∉ ms := (List.nodup_cons.mp hnd).1
      have hch2 : Chain (tabView fs d2.img) k' ms := by
        rw [htv2]; exact chain_updV_other _ m .free _ _ hch' hmms
      obtain ⟨d3, it3, h3, hst3, hfs3, htv3, hfr3, hfi3, htr3⟩ := ih k' k
        { it with fat := s2, cluster := some k' } (num + 1) d2 hd2 hch2 (List.nodup_cons.mp hnd).2
        (fun x hx => hin x (List.mem_cons_of_mem _ hx)) hfuel' rfl herr hsl2
      refine ⟨d3, it3, ?_, ((DevStep.of_sameStore hs1).trans hst2).trans hst3, (hfs3.trans hfs2).trans hs1.fs, ?_, ?_,
        ?_, fun E D hE => ((Trace.of_sameStore hs1).trans (htr2 E D (hE m (by simp)))).trans
          (htr3 E D (fun x hx => hE x (List.mem_cons_of_mem _ hx)))⟩
      · have e : num + 1 + ms.length = num + (m :: ms).length := by simp only [List.length_cons]; omega
        rw [h3, e]
      · rw [htv3, htv2, freedView_cons]
      · intro q hq; rw [hfr3 q hq, hfr2 q hq, hs1.img]
      · intro q hq
        rw [hfi3 q (fun x hx => hq x (List.mem_cons_of_mem _ hx)), hfi2 q (hq m (by simp)), hs1.img]

/-- `ClusterIterator::free` from the head of a chain -/
theorem run_citer_free_fine (fs : FsState) (cs : List Nat) (n fuel : Nat) (s : DiskSlice) (d : Dev) (hd : FatDev fs d)
    (hch : Chain (tabView fs d.img) n cs) (hnd : cs.Nodup) (hin : ∀ x ∈ cs, x < fs.totalClusters + 2)
    (hfuel : cs.length + 1 ≤ fuel) (hsl : IsFatSlice fs s) :
    ∃ d' it', run (Table.CIter.free DiskSlice.strm fs.fatType fuel { fat := s, cluster := some n }) d =
        (.ok (cs.length, it'), d') ∧
      DevStep d d' ∧ d'.fs = d.fs ∧ tabView fs d'.img = freedView (tabView fs d.img) cs ∧
      (∀ q, OutsideFat fs q → d'.img.getByte q = d.img.getByte q) ∧
      (∀ q, (∀ x ∈ cs, ¬ FatEntryPos fs x q) → d'.img.getByte q = d.img.getByte q) ∧
      (∀ E D : Nat → Prop, (∀ x ∈ cs, E x) → Trace fs E D d d') := by
  obtain ⟨d1, it1, h1, r⟩ := run_freeLoop_fine fs cs n fuel { fat := s, cluster := some n } 0 d hd hch hnd hin hfuel
    rfl rfl hsl
  refine ⟨d1, it1, ?_, r⟩
  unfold Table.CIter.free
  rw [h1, Nat.zero_add]

/-- `ClusterIterator::truncate` at the head `n` of a chain `n :: t`: `n` becomes the end of the chain, `t` is freed -/
theorem run_citer_truncate_fine (fs : FsState) (t : List Nat) (n fuel : Nat) (s : DiskSlice) (d : Dev) (hd : FatDev fs d)
    (hch : Chain (tabView fs d.img) n (n :: t)) (hnd : (n :: t).Nodup)
    (hin : ∀ x ∈ n :: t, x < fs.totalClusters + 2) (hfuel : t.length + 2 ≤ fuel) (hsl : IsFatSlice fs s) :
    ∃ d' it', run (Table.CIter.truncate DiskSlice.strm fs.fatType fuel { fat := s, cluster := some n }) d =
        (.ok (t.length, it'), d') ∧
      DevStep d d' ∧ d'.fs = d.fs ∧
      tabView fs d'.img = freedView (updV (tabView fs d.img) n .eoc) t ∧
      (∀ q, OutsideFat fs q → d'.img.getByte q = d.img.getByte q) ∧
      (∀ q, (∀ x ∈ n :: t, ¬ FatEntryPos fs x q) → d'.img.getByte q = d.img.getByte q) ∧
      (∀ E D : Nat → Prop, (∀ x ∈ n :: t, E x) → Trace fs E D d d') := by
  have hnt : n < fs.totalClusters + 2 := hin n (by simp)
  unfold Table.CIter.truncate
  simp only
  obtain ⟨d1, s1, h1, hs1, hsl1⟩ := run_citer_next fs { fat := s, cluster := some n } n d hd.nofault hd.geo hsl
    rfl rfl hnt
  rw [run_bind_ok h1]
  have hd1 := hd.same hs1
  obtain ⟨d2, s2, h2, hsl2, hst2, hfs2, htv2, hfr2, hfi2, htr2⟩ := run_table_set_view_fine fs s1 hsl1 n .eoc d1 hd1 hnt (rep_eoc _)
  rw [hs1.img] at htv2
  have hd2 := hd1.step hst2 hfs2
  cases hch with
  | last _ hl =>
    have hnv : nextV (tabView fs d.img) n = none := nextV_last hl
    rw [hnv]
    simp only [Option.map]
    rw [run_bind_ok h2]
    obtain ⟨k, hk⟩ : ∃ k, fuel = k + 1 := ⟨fuel - 1, by omega⟩
    subst hk
    refine ⟨d2, { fat := s2, cluster := none }, ?_, (DevStep.of_sameStore hs1).trans hst2, hfs2.trans hs1.fs, ?_, ?_,
      ?_, fun E D hE => (Trace.of_sameStore hs1).trans (htr2 E D (hE n (by simp)))⟩
    · unfold Table.CIter.free Table.CIter.freeLoop
      rfl
    · rw [htv2, freedView_nil]
    · intro q hq; rw [hfr2 q hq, hs1.img]
    · intro q hq; rw [hfi2 q (hq n (by simp)), hs1.img]
  | cons _ k' _ hdk hch' =>
    have hnv : nextV (tabView fs d.img) n = some k' := nextV_data hdk
    rw [hnv]
    simp only [Option.map]
    rw [run_bind_ok h2]
    have hnt' : n ∉ t := (List.nodup_cons.mp hnd).1
    have hch2 : Chain (tabView fs d2.img) k' t := by
      rw [htv2]; exact chain_updV_other _ n .eoc _ _ hch' hnt'
    obtain ⟨d3, it3, h3, hst3, hfs3, htv3, hfr3, hfi3, htr3⟩ := run_citer_free_fine fs t k' fuel s2 d2 hd2 hch2
      (List.nodup_cons.mp hnd).2 (fun x hx => hin x (List.mem_cons_of_mem _ hx)) (by omega) hsl2
    refine ⟨d3, it3, h3, ((DevStep.of_sameStore hs1).trans hst2).trans hst3, (hfs3.trans hfs2).trans hs1.fs, ?_, ?_,
      ?_, fun E D hE => ((Trace.of_sameStore hs1).trans (htr2 E D (hE n (by simp)))).trans
        (htr3 E D (fun x hx => hE x (List.mem_cons_of_mem _ hx)))⟩
    · rw [htv3, htv2]
    · intro q hq; rw [hfr3 q hq, hfr2 q hq, hs1.img]
    · intro q hq
      rw [hfi3 q (fun x hx => hq x (List.mem_cons_of_mem _ hx)), hfi2 q (hq n (by simp)), hs1.img]

/-- the bookkeeping after freeing clusters: `map_free_clusters(|n| n + num)` -/
theorem infoOk_after_free {fs : FsState} {img img' : Img} (hinfo : InfoOk fs img) (cs : List Nat)
    (g' : Nat → FatValue) (htv : tabView fs img' = g') (hnd : cs.Nodup)
    (hin : ∀ i ∈ cs, 2 ≤ i ∧ i < fs.totalClusters + 2 ∧ tabView fs img i ≠ .free)
    (hfree : ∀ i ∈ cs, g' i = .free) (hother : ∀ i, i ∉ cs → (g' i = .free ↔ tabView fs img i = .free)) :
    InfoOk { fs with fsInfo := fs.fsInfo.mapFree (· + cs.length) } img' := by
  have hcount := countFreeV_free_list cs (tabView fs img) g' fs.totalClusters hnd hin hfree hother
  refine ⟨?_, ?_⟩
  · intro n hn
    have : (fs.fsInfo.mapFree (· + cs.length)).next = some n := hn
    rw [mapFree_next] at this
    exact hinfo.hint n this
  · intro n hn
    have h1 : (fs.fsInfo.mapFree (· + cs.length)).free = some n := hn
    rw [mapFree_free] at h1
    show n = countFreeV (tabView fs img') fs.totalClusters
    rw [htv, hcount]
    cases hf : fs.fsInfo.free with
    | none => rw [hf] at h1; cases h1
    | some m =>
      rw [hf] at h1
      have := hinfo.count m hf
      have : n = m + cs.length := (Option.some.inj h1).symm
      omega

theorem chain_fuel_ok {fs : FsState} {cs : List Nat} (hnd : cs.Nodup) (hin : ∀ x ∈ cs, x < fs.totalClusters + 2) :
    cs.length + 1 ≤ chainFuel fs := by
  have := nodup_length_le hnd hin
  unfold chainFuel; omega

/-- `FileSystem::truncate_cluster_chain(cur)` -/
theorem run_truncateClusterChain_fine (cur : Nat) (t : List Nat) (d : Dev) (hd : FatDev d.fs d) (hinfo : InfoOk d.fs d.img)
    (hch : Chain (tabView d.fs d.img) cur (cur :: t)) (hnd : (cur :: t).Nodup)
    (hin : ∀ x ∈ cur :: t, 2 ≤ x ∧ x < d.fs.totalClusters + 2 ∧ tabView d.fs d.img x ≠ .free) :
    ∃ d', run (truncateClusterChain cur) d = (.ok (), d') ∧ DevStep d d' ∧
      tabView d'.fs d'.img = freedView (updV (tabView d.fs d.img) cur .eoc) t ∧ InfoOk d'.fs d'.img ∧
      (∀ q, OutsideFat d.fs q → d'.img.getByte q = d.img.getByte q) ∧
      (∀ q, (∀ x ∈ cur :: t, ¬ FatEntryPos d.fs x q) → d'.img.getByte q = d.img.getByte q) ∧
      (∀ E D : Nat → Prop, (∀ x ∈ cur :: t, E x) → Trace d.fs E D d d') := by
  have hfuel := chain_fuel_ok hnd (fun x hx => (hin x hx).2.1)
  obtain ⟨d1, it1, h1, hst1, hfs1, htv1, hfr1, hfi1, htr1⟩ := run_citer_truncate_fine d.fs t cur (chainFuel d.fs) (fatSliceOf d.fs) d hd
    hch hnd (fun x hx => (hin x hx).2.1) (by simp at hfuel ⊢; omega) (isFatSlice_self _)
  unfold truncateClusterChain
  rw [run_bind_ok (run_getFs d)]
  simp only
  rw [run_bind_ok h1, run_modifyFs]
  have hgeo : FsGeomEq d.fs ({ d1.fs with fsInfo := d1.fs.fsInfo.mapFree (· + t.length) } : FsState) := by
    rw [hfs1]; rfl
  have hcurnt : cur ∉ t := (List.nodup_cons.mp hnd).1
  refine ⟨_, rfl, ⟨hst1.failAt, hst1.size, hst1.wf, hgeo, hst1.clock⟩, ?_, ?_, hfr1, hfi1,
    fun E D hE => by obtain ⟨r, l, i, c⟩ := htr1 E D hE; exact ⟨r, l, i, c⟩⟩
  · show tabView ({ d1.fs with fsInfo := d1.fs.fsInfo.mapFree (· + t.length) } : FsState) d1.img = _
    rw [hgeo.tabView]; exact htv1
  · show InfoOk ({ d1.fs with fsInfo := d1.fs.fsInfo.mapFree (· + t.length) } : FsState) d1.img
    rw [hfs1]
    refine infoOk_after_free hinfo t _ htv1 (List.nodup_cons.mp hnd).2
      (fun i hi => hin i (List.mem_cons_of_mem _ hi)) ?_ ?_
    · intro i hi; unfold freedView; rw [if_pos hi]
    · intro i hi
      unfold freedView
      rw [if_neg hi]
      by_cases hic : i = cur
      · subst hic
        rw [updV_same]
        constructor
        · intro h; cases h
        · intro h; exact absurd h (hin i (by simp)).2.2
      · rw [updV_ne _ _ _ _ hic]

/-- `FileSystem::free_cluster_chain(n)` -/
theorem run_freeClusterChain_fine (n : Nat) (cs : List Nat) (d : Dev) (hd : FatDev d.fs d) (hinfo : InfoOk d.fs d.img)
    (hch : Chain (tabView d.fs d.img) n cs) (hnd : cs.Nodup)
    (hin : ∀ x ∈ cs, 2 ≤ x ∧ x < d.fs.totalClusters + 2 ∧ tabView d.fs d.img x ≠ .free) :
    ∃ d', run (freeClusterChain n) d = (.ok (), d') ∧ DevStep d d' ∧
      tabView d'.fs d'.img = freedView (tabView d.fs d.img) cs ∧ InfoOk d'.fs d'.img ∧
      (∀ q, OutsideFat d.fs q → d'.img.getByte q = d.img.getByte q) ∧
      (∀ q, (∀ x ∈ cs, ¬ FatEntryPos d.fs x q) → d'.img.getByte q = d.img.getByte q) ∧
      (∀ E D : Nat → Prop, (∀ x ∈ cs, E x) → Trace d.fs E D d d') := by
  have hfuel := chain_fuel_ok hnd (fun x hx => (hin x hx).2.1)
  obtain ⟨d1, it1, h1, hst1, hfs1, htv1, hfr1, hfi1, htr1⟩ := run_citer_free_fine d.fs cs n (chainFuel d.fs) (fatSliceOf d.fs) d hd
    hch hnd (fun x hx => (hin x hx).2.1) hfuel (isFatSlice_self _)
  unfold freeClusterChain
  rw [run_bind_ok (run_getFs d)]
  simp only
  rw [run_bind_ok h1, run_modifyFs]
  have hgeo : FsGeomEq d.fs ({ d1.fs with fsInfo := d1.fs.fsInfo.mapFree (· + cs.length) } : FsState) := by
    rw [hfs1]; rfl
  refine ⟨_, rfl, ⟨hst1.failAt, hst1.size, hst1.wf, hgeo, hst1.clock⟩, ?_, ?_, hfr1, hfi1,
    fun E D hE => by obtain ⟨r, l, i, c⟩ := htr1 E D hE; exact ⟨r, l, i, c⟩⟩
  · show tabView ({ d1.fs with fsInfo := d1.fs.fsInfo.mapFree (· + cs.length) } : FsState) d1.img = _
    rw [hgeo.tabView]; exact htv1
  · show InfoOk ({ d1.fs with fsInfo := d1.fs.fsInfo.mapFree (· + cs.length) } : FsState) d1.img
    rw [hfs1]
    refine infoOk_after_free hinfo cs _ htv1 hnd hin ?_ ?_
    · intro i hi; unfold freedView; rw [if_pos hi]
    · intro i hi; unfold freedView; rw [if_neg hi]

/-! ### the same statements without the entry-window frame (the form other modules use) -/

theorem run_table_set_view (fs : FsState) (s : DiskSlice) (hs : IsFatSlice fs s) (c : Nat) (v : FatValue) (d : Dev)
    (hd : FatDev fs d) (hc : c < fs.totalClusters + 2) (hv : Representable fs.fatType v) :
    ∃ d' s', run (Table.set DiskSlice.strm fs.fatType s c v) d = (.ok s', d') ∧ IsFatSlice fs s' ∧
      DevStep d d' ∧ d'.fs = d.fs ∧ tabView fs d'.img = updV (tabView fs d.img) c v ∧
      (∀ q, OutsideFat fs q → d'.img.getByte q = d.img.getByte q) := by
  obtain ⟨d', s', h1, h2, h3, h4, h5, h6, _⟩ := run_table_set_view_fine fs s hs c v d hd hc hv
  exact ⟨d', s', h1, h2, h3, h4, h5, h6⟩

theorem run_freeLoop (fs : FsState) : ∀ (cs : List Nat) (n : Nat) (fuel : Nat) (it : Table.CIter DiskSlice)
    (num : Nat) (d : Dev), FatDev fs d → Chain (tabView fs d.img) n cs → cs.Nodup →
    (∀ x ∈ cs, x < fs.totalClusters + 2) → cs.length + 1 ≤ fuel →
    it.cluster = some n → it.err = false → IsFatSlice fs it.fat →
    ∃ d' it', run (Table.CIter.freeLoop DiskSlice.strm fs.fatType fuel it num) d = (.ok (num + cs.length, it'), d') ∧
      DevStep d d' ∧ d'.fs = d.fs ∧ tabView fs d'.img = freedView (tabView fs d.img) cs ∧
      (∀ q, OutsideFat fs q → d'.img.getByte q = d.img.getByte q) := by
  intro cs n fuel it num d hd hch hnd hin hfuel hcl herr hsl
  obtain ⟨d', it', h1, h2, h3, h4, h5, _⟩ := run_freeLoop_fine fs cs n fuel it num d hd hch hnd hin hfuel hcl herr hsl
  exact ⟨d', it', h1, h2, h3, h4, h5⟩

theorem run_citer_free (fs : FsState) (cs : List Nat) (n fuel : Nat) (s : DiskSlice) (d : Dev) (hd : FatDev fs d)
    (hch : Chain (tabView fs d.img) n cs) (hnd : cs.Nodup) (hin : ∀ x ∈ cs, x < fs.totalClusters + 2)
    (hfuel : cs.length + 1 ≤ fuel) (hsl : IsFatSlice fs s) :
    ∃ d' it', run (Table.CIter.free DiskSlice.strm fs.fatType fuel { fat := s, cluster := some n }) d =
        (.ok (cs.length, it'), d') ∧
      DevStep d d' ∧ d'.fs = d.fs ∧ tabView fs d'.img = freedView (tabView fs d.img) cs ∧
      (∀ q, OutsideFat fs q → d'.img.getByte q = d.img.getByte q) := by
  obtain ⟨d', it', h1, h2, h3, h4, h5, _⟩ := run_citer_free_fine fs cs n fuel s d hd hch hnd hin hfuel hsl
  exact ⟨d', it', h1, h2, h3, h4, h5⟩

theorem run_citer_truncate (fs : FsState) (t : List Nat) (n fuel : Nat) (s : DiskSlice) (d : Dev) (hd : FatDev fs d)
    (hch : Chain (tabView fs d.img) n (n :: t)) (hnd : (n :: t).Nodup)
    (hin : ∀ x ∈ n :: t, x < fs.totalClusters + 2) (hfuel : t.length + 2 ≤ fuel) (hsl : IsFatSlice fs s) :
    ∃ d' it', run (Table.CIter.truncate DiskSlice.strm fs.fatType fuel { fat := s, cluster := some n }) d =
        (.ok (t.length, it'), d') ∧
      DevStep d d' ∧ d'.fs = d.fs ∧
      tabView fs d'.img = freedView (updV (tabView fs d.img) n .eoc) t ∧
      (∀ q, OutsideFat fs q → d'.img.getByte q = d.img.getByte q) := by
  obtain ⟨d', it', h1, h2, h3, h4, h5, _⟩ := run_citer_truncate_fine fs t n fuel s d hd hch hnd hin hfuel hsl
  exact ⟨d', it', h1, h2, h3, h4, h5⟩

theorem run_truncateClusterChain (cur : Nat) (t : List Nat) (d : Dev) (hd : FatDev d.fs d) (hinfo : InfoOk d.fs d.img)
    (hch : Chain (tabView d.fs d.img) cur (cur :: t)) (hnd : (cur :: t).Nodup)
    (hin : ∀ x ∈ cur :: t, 2 ≤ x ∧ x < d.fs.totalClusters + 2 ∧ tabView d.fs d.img x ≠ .free) :
    ∃ d', run (truncateClusterChain cur) d = (.ok (), d') ∧ DevStep d d' ∧
      tabView d'.fs d'.img = freedView (updV (tabView d.fs d.img) cur .eoc) t ∧ InfoOk d'.fs d'.img ∧
      (∀ q, OutsideFat d.fs q → d'.img.getByte q = d.img.getByte q) := by
  obtain ⟨d', h1, h2, h3, h4, h5, _⟩ := run_truncateClusterChain_fine cur t d hd hinfo hch hnd hin
  exact ⟨d', h1, h2, h3, h4, h5⟩

theorem run_freeClusterChain (n : Nat) (cs : List Nat) (d : Dev) (hd : FatDev d.fs d) (hinfo : InfoOk d.fs d.img)
    (hch : Chain (tabView d.fs d.img) n cs) (hnd : cs.Nodup)
    (hin : ∀ x ∈ cs, 2 ≤ x ∧ x < d.fs.totalClusters + 2 ∧ tabView d.fs d.img x ≠ .free) :
    ∃ d', run (freeClusterChain n) d = (.ok (), d') ∧ DevStep d d' ∧
      tabView d'.fs d'.img = freedView (tabView d.fs d.img) cs ∧ InfoOk d'.fs d'.img ∧
      (∀ q, OutsideFat d.fs q → d'.img.getByte q = d.img.getByte q) := by
  obtain ⟨d', h1, h2, h3, h4, h5, _⟩ := run_freeClusterChain_fine n cs d hd hinfo hch hnd hin
  exact ⟨d', h1, h2, h3, h4, h5⟩

end FatVerif.FileSim
