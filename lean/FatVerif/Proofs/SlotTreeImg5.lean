import FatVerif.Proofs.SlotTreeImg4
/-!
# Slot trees on a device image, part 5: `create_file` whose last directory is the fixed root

`createFile_root_final`: the last component of `create_file` in the root directory, on a device whose image holds the
slot tree (`ImgTreeW`): the outcome `createS` gives at the root — `InvalidInput` for a dot name or an existing
directory, the existing file, the error of `validate_long_name`, or the new entry — and in the last case the image
afterwards holds the new slot tree (`imgTreeW_root_step`).
-/
namespace FatVerif
namespace SlotTreeImg
open Lfn DirSlots DirAlias SlotTree DirSim FatVerif.FileSim FatVerif.Fat

/-! ## the bundle on a device with the same volume -/

theorem SubImg.of_sameVol {d d' : Dev} {cl : List String → Option Nat} {cur : List String}
    {slots : List (List Nat)} {ch : List (LfnEntry × Node)} (hv : SameVol d d') (S : SubImg d cl cur slots ch) :
    SubImg d' cl cur slots ch := by
  obtain ⟨c0, chain, e1, e2, hcl, hC, hlist, hdots, hchild⟩ := S
  have hC' : ChainReadable d' c0 none chain :=
    hC.of_volStep (VolStep.of_sameVol hv) (fun q _ _ => by rw [hv.img])
  refine ⟨c0, chain, e1, e2, hcl, hC', by rw [hv.fs, hv.img]; exact hlist, by rw [hv.fs]; exact hdots, ?_⟩
  intro x hx hd
  rw [hv.fs]; exact hchild x hx hd

theorem ImgTreeW.of_sameVol {d d' : Dev} {up : Char → List Char} {t : Node} {cl : List String → Option Nat}
    (W : ImgTreeW d up t cl) (hv : SameVol d d') : ImgTreeW d' up t cl := by
  refine ⟨W.lay.of_volStep (VolStep.of_sameVol hv), W.rootNone, ?_, fun cur s c hne hg => (W.subs cur s c hne hg).of_sameVol hv⟩
  intro s c ht
  obtain ⟨N, tail, hR, hsl, htl, hchild⟩ := W.rootImg s c ht
  refine ⟨N, tail, hR.of_volStep (VolStep.of_sameVol hv), by rw [hv.fs, hv.img]; exact hsl, htl, ?_⟩
  intro x hx hd
  rw [hv.fs]; exact hchild x hx hd

theorem den_root_stream {d : Dev} {up : Char → List Char} {t : Node} {cl : List String → Option Nat}
    (W : ImgTreeW d up t cl) {st : DirStream} (hden : Den d up t cl [] st) : st = rootAt d.fs 0 := by
  rw [← rootDirStream_fixed d.fs W.lay.fat16]
  rcases hden.2 with ⟨_, h⟩ | ⟨e, _, he, h⟩
  · exact h
  · rw [h, W.rootNone] at *; exact dirStream_of_none _ _ he

/-! ## lookups in the root before and after `addEntry` -/

theorem lookupS_addEntry {up : Char → List Char} {slots : List (List Nat)} {ch : List (LfnEntry × Node)}
    (hd : DirOk up slots ch) (units sfn : List Nat) (child : Node)
    (hd' : DirOk up (DirSlots.writeEntry slots units sfn) (ch ++ [(newEntry slots units sfn, child)]))
    (hsub : ∀ e ∈ listing slots, e ∈ listing (DirSlots.writeEntry slots units sfn)) (q : String)
    (x : LfnEntry × Node) (hx : lookupS up slots ch q = some x) :
    lookupS up (DirSlots.writeEntry slots units sfn) (ch ++ [(newEntry slots units sfn, child)]) q = some x := by
  obtain ⟨_, hxm, hxl, hxq⟩ := lookupS_some hd hx
  unfold lookupS
  rw [DirSlots.findEntry_unique up _ hd'.wf _ _ (hsub x.1 hxl) hxq]
  exact hd'.find_key (List.mem_append.2 (Or.inl hxm))

theorem lookupS_addEntry_back {up : Char → List Char} {slots : List (List Nat)} {ch : List (LfnEntry × Node)}
    (hd : DirOk up slots ch) (units sfn : List Nat) (child : Node) (hfile : child.isDir = false)
    (hd' : DirOk up (DirSlots.writeEntry slots units sfn) (ch ++ [(newEntry slots units sfn, child)])) (q : String)
    (x : LfnEntry × Node)
    (hx : lookupS up (DirSlots.writeEntry slots units sfn) (ch ++ [(newEntry slots units sfn, child)]) q = some x)
    (hdir : x.2.isDir = true) : lookupS up slots ch q = some x := by
  obtain ⟨_, hxm, _, hxq⟩ := lookupS_some hd' hx
  have hmem : x ∈ ch := by
    rcases List.mem_append.1 hxm with h | h
    · exact h
    · simp only [List.mem_singleton] at h
      rw [h] at hdir
      simp only at hdir
      rw [hfile] at hdir; cases hdir
  unfold lookupS
  rw [DirSlots.findEntry_unique up _ hd.wf _ _ (hd.mem_listing hmem) hxq]
  exact hd.find_key hmem

/-! ## `create_file`: the program -/

theorem createFile_unfold_step (env : Env) (f : Nat) (st : DirStream) (chars a r : List Char)
    (h : Names.splitPathL chars = (a, some r)) :
    createFile env (f + 1) st (String.ofList chars) =
      Prog.bind Prog.getFs fun fs =>
        Prog.bind (findEntry env st (String.ofList a) (some true)) fun e =>
          Prog.bind (e.toDir fs) fun sub => thenDrop sub (createFile env f sub (String.ofList r)) := by
  conv => lhs; unfold createFile
  rw [splitPath_ofList, h]
  rfl

theorem isDotName_eq (name : String) : (name = "." || name = "..") = isDotName name := rfl

/-- `create_file` of `.`/`..`: `InvalidInput` before anything is read -/
theorem createFile_dot_fails (env : Env) (f : Nat) (st : DirStream) (path name : String)
    (hsp : Names.splitPath path = (name, none)) (hdot : isDotName name = true) (d1 : Dev) :
    FailsV (createFile env (f + 1) st path) d1 .invalidInput := by
  unfold createFile
  refine FailsV.bind_right (Reads.getFs d1) (fun d2 _ => ?_)
  rw [hsp]
  simp only [isDotName_eq, hdot, if_true]
  exact ⟨d2, rfl, SameVol.refl d2⟩

/-- `create_file` of a free but invalid name: `write_entry` refuses it before anything is written -/
theorem createFile_invalid_fails {d : Dev} {st : DirStream} (V : DirView d st) (ha : d.fs.lfnAlloc = true) (env : Env)
    (path name : String) (hsp : Names.splitPath path = (name, none)) (hdot : isDotName name = false) (a : List Nat)
    (h : V.check env name (some false) = .ok (.alias a)) (err : Err)
    (hval : Names.validateLongName name = .error err) (fuel : Nat) (d1 : Dev) (hv : SameVol d d1) :
    FailsV (createFile env (fuel + 1) st path) d1 err := by
  have hce := V.checkForExistence_sim ha env name (some false)
  unfold createFile
  refine FailsV.bind_right (Reads.getFs d1) (fun d2 hs2 => ?_)
  rw [hsp]
  simp only [isDotName_eq, hdot, Bool.false_eq_true, if_false]
  have := hce d2 (hv.trans hs2)
  rw [h] at this
  refine FailsV.bind_right this (fun d3 hs3 => ?_)
  simp only [liftEOA]
  refine FailsV.bind_right ⟨d3, run_createSfnEntry a 0 none d3, SameVol.refl d3⟩ (fun d4 hs4 => ?_)
  refine FailsV.bind_left ?_
  unfold writeEntry
  rw [hval]
  exact ⟨d4, rfl, SameVol.refl d4⟩

/-! ## the slot tree's verdict at the last directory -/

/-- what `createS … false` does once the walk has reached the directory at `p` -/
def cfFinal (up : Char → List Char) (t : Node) (p : List String) (name : String) (stamp : List Nat) : Res :=
  match getAtS up t p with
  | some (.dir slots _) =>
    if isDotName name then fail t .invalidInput else createFinal up 70000 t p slots name false stamp
  | _ => fail t .notFound

theorem createS_file_eq (up : Char → List Char) (t : Node) (cwd : List String) (path : String) (stamp : List Nat) :
    createS up 70000 t cwd path false stamp =
      match walkDirsS up t cwd (pathParts path).1 with
      | .error e => fail t e
      | .ok p => cfFinal up t p (pathParts path).2 stamp := by
  unfold createS cfFinal
  cases walkDirsS up t cwd (pathParts path).1 with
  | error e => rfl
  | ok p =>
    simp only
    cases getAtS up t p with
    | none => rfl
    | some n =>
      cases n with
      | file _ => rfl
      | dir s c =>
        simp only
        cases isDotName (pathParts path).2 <;> simp

def outErr (r : Res) : Option Err :=
  match r.out with
  | .ok _ => none
  | .error e => some e

/-- the entry fits into the root region -/
def HasRoomRoot (d : Dev) (slots : List (List Nat)) (name : String) : Prop :=
  ∀ N, RootReadable d N →
    DirSlots.findFree slots (numParts (Names.encodeUtf16 name.toList).length + 1) +
      (numParts (Names.encodeUtf16 name.toList).length + 1) ≤ N

section final
variable {d : Dev} {up : Char → List Char} {cl : List String → Option Nat} {slots : List (List Nat)}
  {ch : List (LfnEntry × Node)}

/-- **the last component of `create_file` in the root directory** -/
theorem createFile_root_final (W : ImgTreeW d up (.dir slots ch) cl) (hwf : TreeWf up (.dir slots ch)) (env : Env)
    (henv : env.upper = up) (f : Nat) (chars a : List Char) (hsp : Names.splitPathL chars = (a, none))
    (hroom : HasRoomRoot d slots (String.ofList a)) (d4 : Dev) (hv : SameVol d d4) (hc : d4.clock = d.clock) :
    MOut (fun (_ : FileH) d' => VolStep d d' ∧
        ImgTreeW d' up (cfFinal up (.dir slots ch) [] (String.ofList a) (sfnStamp d.fs d.clock none)).tree cl)
      (createFile env (f + 1) (rootAt d.fs 0) (String.ofList chars)) d4
      (outErr (cfFinal up (.dir slots ch) [] (String.ofList a) (sfnStamp d.fs d.clock none))) := by
  have hspS : Names.splitPath (String.ofList chars) = (String.ofList a, none) := by
    rw [splitPath_ofList, hsp]; rfl
  have W4 := W.of_sameVol hv
  obtain ⟨N, tail, hR, hsl, htl, hchild⟩ := W4.rootImg slots ch rfl
  have hd : DirOk up slots ch := ((all_dir _ slots ch).1 hwf).1
  have hst : rootAt d.fs 0 = rootAt d4.fs 0 := by rw [hv.fs]
  rw [hst]
  -- the read view of the root on `d4`, and its `check`
  have hchk : ∀ k, (DirView.ofRoot hR).check env (String.ofList a) k =
      checkForExistenceL up slots (String.ofList a) k 70000 := by
    intro k
    unfold DirView.check
    show checkForExistenceL env.upper (srcSlots d4.img (fun o => (rootSliceOf d4.fs).beginOff + o) N) _ _ _ = _
    rw [henv, srcSlots_root hR, hsl, check_append_ends up slots tail htl]
  have halloc := W4.lay.alloc
  unfold cfFinal
  simp only [getAtS]
  cases hdn : isDotName (String.ofList a) with
  | true =>
    simp only [if_true]
    exact createFile_dot_fails env f _ _ _ hspS hdn d4
  | false =>
    simp only [Bool.false_eq_true, if_false]
    unfold createFinal
    rcases check_cases up slots (String.ofList a) (some false) 70000 with
      h | ⟨e, he, hk, hce⟩ | ⟨e, he, hk, hce⟩ | ⟨hf, al, hal⟩
    · rw [h]
      exact (DirView.ofRoot hR).createFile_fails_sim halloc env _ _ hspS (by rw [isDotName_eq]; exact hdn) .hang
        (by rw [hchk, h]) f d4 (SameVol.refl d4)
    · rw [hce]
      obtain ⟨d', hr, hs⟩ := (DirView.ofRoot hR).createFile_exists_sim halloc env _ _ hspS
        (by rw [isDotName_eq]; exact hdn) e (by rw [hchk, hce]) f d4 (SameVol.refl d4)
      exact ⟨_, d', hr, VolStep.of_sameVol (hv.trans hs), W.of_sameVol (hv.trans hs)⟩
    · rw [hce]
      exact (DirView.ofRoot hR).createFile_fails_sim halloc env _ _ hspS (by rw [isDotName_eq]; exact hdn) .invalidInput
        (by rw [hchk, hce]) f d4 (SameVol.refl d4)
    · rw [hal]
      simp only [hdn, Bool.false_eq_true, if_false]
      cases hval : Names.validateLongName (String.ofList a) with
      | error x =>
        exact createFile_invalid_fails (DirView.ofRoot hR) halloc env _ _ hspS hdn al (by rw [hchk, hal]) x hval f d4
          (SameVol.refl d4)
      | ok u =>
        cases u
        simp only [outErr, done]
        -- the write
        have hlen := C16dir.dir_alias_length _ _ _ _ _ _ hal
        obtain ⟨c0, c1, c2, c3, c4, c5, c6, _, _⟩ :=
          C16dir.dir_create_hyps up slots (String.ofList a) (some false) 70000 al 0 (sfnStamp d.fs d.clock none) hval
            (by decide) hal
        have hwf' := C16dir.dir_create_wf up slots (String.ofList a) (some false) 70000 al 0
          (sfnStamp d.fs d.clock none) hd.wf hval (by decide) hal
        let V : WView d4 (.root (sliceAt (rootSliceOf d4.fs) 0)) :=
          WView.ofRoot (rootSliceOf d4.fs) N hR.slots rfl rfl W4.lay.hB d4 hR.noFault hR.inside W4.lay.wf hR.fuel
        have hVs : V.slots d4.img = slots ++ tail := by
          show srcSlots d4.img (fun o => (rootSliceOf d4.fs).beginOff + o) N = _
          rw [srcSlots_root hR, hsl]
        have hfit := hroom N (hR.of_volStep (VolStep.of_sameVol ⟨hv.img.symm, hv.fs.symm, hv.failAt.symm, hv.writesOf.symm⟩))
        obtain ⟨d', e, hr, _, _, hs, _, _, hslots', hfr, _⟩ := V.createFile_sim env (String.ofList chars) (String.ofList a)
          hspS (by rw [isDotName_eq]; exact hdn) hval halloc al
          (by rw [hVs, henv, check_append_ends up slots tail htl]; exact hal)
          (by rw [hVs, findFree_append_ends slots tail htl]; exact hfit) f
        refine ⟨_, d', hr, (VolStep.of_sameVol hv).trans hs, ?_⟩
        -- the new tree and the new root slots
        have hsfn : (sfnAt d4.fs d4.clock al 0 none).serialize = sfnWith al (newBody false (sfnStamp d.fs d.clock none)) := by
          rw [sfnAt_serialize, hv.fs, hc]; rfl
        have hfl := DirSlots.findFree_le slots (numParts (Names.encodeUtf16 (String.ofList a).toList).length + 1)
          (by omega)
        obtain ⟨tail', htw, htl'⟩ := writeEntry_append_ends slots tail htl
          (Names.encodeUtf16 (String.ofList a).toList) (sfnWith al (newBody false (sfnStamp d.fs d.clock none))) hfl
        have hroot' : rootDirSlots d'.fs d'.img =
            DirSlots.writeEntry slots (Names.encodeUtf16 (String.ofList a).toList)
              (sfnWith al (newBody false (sfnStamp d.fs d.clock none))) ++ tail' := by
          rw [← htw, ← hVs, ← hsfn, ← hslots']
          show _ = srcSlots d'.img (fun o => (rootSliceOf d4.fs).beginOff + o) N
          rw [← rootSliceOf_geomEq hs.geom]
          exact (srcSlots_root (hR.of_volStep hs)).symm
        have hkindF : Lfn.isDir (sfnWith al (newBody false (sfnStamp d.fs d.clock none))) = (freshNode false).isDir := by
          rw [isDir_newBody al false _ hlen, fresh_isDir]
        obtain ⟨hd', hsub, _, _⟩ := addEntry_dirOk hd (Names.encodeUtf16 (String.ofList a).toList)
          (sfnWith al (newBody false (sfnStamp d.fs d.clock none))) (freshNode false) hwf' c1 c2 c3 c4 c5 hkindF
        have htree : updS up (addEntry (Names.encodeUtf16 (String.ofList a).toList)
            (sfnWith al (newBody false (sfnStamp d.fs d.clock none))) (freshNode false)) [] (.dir slots ch) =
            .dir (DirSlots.writeEntry slots (Names.encodeUtf16 (String.ofList a).toList)
              (sfnWith al (newBody false (sfnStamp d.fs d.clock none))))
              (ch ++ [(newEntry slots (Names.encodeUtf16 (String.ofList a).toList)
                (sfnWith al (newBody false (sfnStamp d.fs d.clock none))), freshNode false)]) := by
          show addEntry _ _ _ (.dir slots ch) = _
          exact addEntry_dir hd.wf.shape _ _ _ ch c1 c2 c3 c4 c5
        show ImgTreeW d' up (updS up _ [] (.dir slots ch)) cl
        rw [htree]
        refine imgTreeW_root_step W4 hR hs hfr.toG tail' hroot' htl' ?_ ?_
        · intro x hx hdx
          rcases List.mem_append.1 hx with h | h
          · exact h
          · simp only [List.mem_singleton] at h
            rw [h] at hdx
            simp [freshNode, Node.isDir] at hdx
        · intro q x hx hdx
          exact lookupS_addEntry_back hd _ _ (freshNode false) rfl hd' q x hx hdx

end final

end SlotTreeImg
end FatVerif
