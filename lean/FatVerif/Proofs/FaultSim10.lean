import FatVerif.Proofs.FaultSim9
/-! Faults and forward evaluation, part 10: cluster-chain directories (the root of FAT32, sub-directories) satisfy
    `FaultOK`: a slot write hit by the fault leaves the chain of the directory in the FAT, hence the directory writable. -/
namespace FatVerif.DirSim
open FatVerif.FileSim FatVerif.Fat DirEntryData

section chain
variable {fs0 : FsState} {c0 : Nat} {chain : List Nat}

/-- the stream write of a chain handle, reduced to the file write -/
theorem chainWrite_keepsFat {Inv : Dev → Prop} (f : FileH) (hcore : ∀ d, Inv d → ChainCore d f c0 chain)
    (hgeom : ∀ d, Inv d → FsGeomEq fs0 d.fs) (hwfI : ∀ d, Inv d → d.img.WF) :
    WriteKeepsFat Inv fs0 (chain.length * (fs0.clusterSize / 32)) (chainRoom fs0 chain) (chainS f chain fs0.clusterSize) := by
  intro d1 d2 o bs r hd hinv hne hroom hfit hr hf2 hnd
  have hg : FsGeomEq fs0 d1.fs := hgeom d1.disarm hinv
  have hcs : d1.fs.clusterSize = fs0.clusterSize := hg.clusterSize
  have C := hcore d1.disarm hinv
  have h32 : fs0.clusterSize % 32 = 0 := by rw [← hcs]; exact C.cs32
  have hT : 32 * (chain.length * (fs0.clusterSize / 32)) = chain.length * fs0.clusterSize := by
    have := Nat.div_add_mod fs0.clusterSize 32
    rw [h32, Nat.add_zero] at this
    rw [Nat.mul_left_comm, this]
  have hr' : run (DirStream.write (.file (dirFile f chain d1.fs.clusterSize o)) bs) d1 = (r, d2) := by
    rw [hcs]; exact hr
  simp only [DirStream.write] at hr'
  have key : ∀ {r' dd}, run ((dirFile f chain d1.fs.clusterSize o).write bs) d1 = (r', dd) → dd.fault ≠ none →
      (∀ f', dd.fault = some f' → f'.inDrop = false) → FatAgree fs0 d1.img dd.img := by
    intro r' dd h hfd hndd
    have := fileWrite_fatKept C hd (show d1.img.WF from hwfI d1.disarm hinv) o bs hne (by rw [chainRoom_geom hg]; exact hroom)
      (by rw [hcs, ← hT]; exact hfit) h hfd hndd
    intro q h1 h2
    exact this q (by rw [hg.fatSlice]; exact h1) (by rw [hg.fatSlice]; exact h2)
  rcases run_bind_cases hr' with ⟨⟨n, f'⟩, dd, h1, h2⟩ | ⟨e, h1, hre⟩
  · have h2' : run (Prog.pure (n, DirStream.file f')) dd = (r, d2) := h2
    simp only [run] at h2'
    cases h2'
    exact key h1 hf2 hnd
  · exact key h1 hf2 hnd

theorem chain_fatBefore {Inv : Dev → Prop} {sz : Nat} (hgeo : FileSim.Geo fs0 sz) :
    FatBefore Inv fs0 (chain.length * (fs0.clusterSize / 32)) (chainSrc fs0 chain) := by
  refine ⟨hgeo.status_lt, fun o _ => ?_⟩
  have h1 := chainSrc_ge fs0 chain o
  have h2 := hgeo.fat_data
  have : (fatSliceOf fs0).size ≤ (fatSliceOf fs0).mirrors * (fatSliceOf fs0).size :=
    Nat.le_mul_of_pos_left _ hgeo.mirrors_pos
  omega

/-- a faulted slot write leaves a `ChainDir` a `ChainDir` -/
theorem ChainDir.of_faulted {f0 : FileH} {d1 d2 : Dev} {st : DirStream} {e : DirEntryData} {r : Except Err DirStream}
    (C : ChainDir d1.disarm f0 c0 chain) (hw : run (writeSlot st e) d1 = (r, d2)) (hd : d1.fault = none)
    (hf2 : d2.fault ≠ none) (hfat : FatAgree d1.fs d1.img d2.img) : ChainDir d2 f0 c0 chain := by
  have hfa : d2.failAt = none := by
    rcases run_any _ d1 hd hw with h | ⟨h, _⟩
    · exact absurd h hf2
    · exact h
  exact C.of_agree (d' := d2) (by rw [hfa]; rfl) (show d2.img.size = d1.img.size from run_img_size _ d1 _ _ hw)
    (show FsGeomEq d1.fs d2.fs from Geo.fsGeomEq (writeSlot_geo st e) (d := d1) hw) hfat

end chain

section kinds
variable {fs0 : FsState} {c0 : Nat} {chain : List Nat}

/-- **the root of FAT32 (a chain without an entry) satisfies `FaultOK`** -/
theorem faultOK_ofChain (d : Dev) (c0 : Nat) (chain : List Nat) (C : ChainDir d (FileH.new (some c0) none) c0 chain)
    (hwf : d.img.WF) (hfuel : chain.length * (d.fs.clusterSize / 32) < dirFuel d.fs) :
    FaultOK (WView.ofChain d c0 chain C hwf hfuel) := by
  have hgeo := C.geo
  have hent : (FileH.new (some c0) none).entry = none := rfl
  have W := chain_wfam (fs0 := d.fs) (f0 := FileH.new (some c0) none) (c0 := c0) (chain := chain) hent
  have hK := chainWrite_keepsFat (fs0 := d.fs) (c0 := c0) (chain := chain)
    (Inv := ChainInv d.fs (FileH.new (some c0) none) c0 chain) (FileH.new (some c0) none)
    (fun _ h => h.dir.core) (fun _ h => h.geom) (fun _ h => h.wf)
  have hF : FatBefore (ChainInv d.fs (FileH.new (some c0) none) c0 chain) d.fs
      (chain.length * (d.fs.clusterSize / 32)) (chainSrc d.fs chain) := chain_fatBefore hgeo
  refine ⟨?_, ?_⟩
  · intro d1 d2 st e r hP hl hd hinv hw hf2 hnd
    obtain ⟨q, hq, hst⟩ := hP
    have hq' : q + 1 ≤ chain.length * (d.fs.clusterSize / 32) := hq
    have hstE : st = chainS (FileH.new (some c0) none) chain d.fs.clusterSize (32 * q) := by
      rcases hst with h | h <;> exact h
    subst hstE
    have hfat : FatAgree d.fs d1.img d2.img := writeSlot_armed chainInv_ok hF W hK W hK (32 * q) (by omega) (by omega) e hl
      d1 hd hinv hw hnd
    have hg1 : FsGeomEq d.fs d1.fs := hinv.geom
    have hfat1 : FatAgree d1.fs d1.img d2.img := by
      intro x h1 h2
      exact hfat x (by rw [← hg1.fatSlice]; exact h1) (by rw [← hg1.fatSlice]; exact h2)
    exact ⟨ChainDir.of_faulted hinv.dir hw hd hf2 hfat1, run_wf _ _ _ _ hw hinv.wf,
      hg1.trans (Geo.fsGeomEq (writeSlot_geo _ e) (d := d1) hw), hinv.fuel⟩
  · intro dd h o t ho ht
    exact (chain_wops (fs0 := d.fs) (f0 := FileH.new (some c0) none) (c0 := c0) (chain := chain) hent).seekStartF dd h dd
      (SameVol.refl dd) o t ho ht

/-- **sub-directories satisfy `FaultOK`** -/
theorem faultOK_ofSub (d : Dev) (c0 : Nat) (ed0 : DirEntryEditor) (chain : List Nat)
    (C : ChainDir d (FileH.new (some c0) (some ed0)) c0 chain) (hwf : d.img.WF)
    (hfuel : chain.length * (d.fs.clusterSize / 32) < dirFuel d.fs) (hname : ed0.data.name.length = 11)
    (hepos : (fatSliceOf d.fs).beginOff + (fatSliceOf d.fs).mirrors * (fatSliceOf d.fs).size ≤ ed0.pos)
    (hein : ed0.pos + 32 ≤ d.img.size)
    (heout : ∀ i, i < chain.length * (d.fs.clusterSize / 32) →
      chainSrc d.fs chain (32 * i) + 32 ≤ ed0.pos ∨ ed0.pos + 32 ≤ chainSrc d.fs chain (32 * i)) :
    FaultOK (WView.ofSub d c0 ed0 chain C hwf hfuel hname hepos hein heout) := by
  have hgeo := C.geo
  have WF' := sub_wfam (fs0 := d.fs) (ed0 := ed0) (c0 := c0) (chain := chain) (t0 := d.clock)
    (FileH.new (some c0) (some ed0)) (fun _ h => h.dir.core) stamped_sub0
  have WG' := sub_wfam (fs0 := d.fs) (ed0 := ed0) (c0 := c0) (chain := chain) (t0 := d.clock)
    (subW ed0 c0 d.clock) (fun _ h => h.coreW) stamped_subW
  have hKF := chainWrite_keepsFat (fs0 := d.fs) (c0 := c0) (chain := chain)
    (Inv := SubInv d.fs ed0 c0 chain d.clock) (FileH.new (some c0) (some ed0))
    (fun _ h => h.dir.core) (fun _ h => h.geom) (fun _ h => h.wf)
  have hKG := chainWrite_keepsFat (fs0 := d.fs) (c0 := c0) (chain := chain)
    (Inv := SubInv d.fs ed0 c0 chain d.clock) (subW ed0 c0 d.clock)
    (fun _ h => h.coreW) (fun _ h => h.geom) (fun _ h => h.wf)
  have hF : FatBefore (SubInv d.fs ed0 c0 chain d.clock) d.fs
      (chain.length * (d.fs.clusterSize / 32)) (chainSrc d.fs chain) := chain_fatBefore hgeo
  refine ⟨?_, ?_⟩
  · intro d1 d2 st e r hP hl hd hinv hw hf2 hnd
    obtain ⟨q, hq, hst⟩ := hP
    have hq' : q + 1 ≤ chain.length * (d.fs.clusterSize / 32) := hq
    have hfat : FatAgree d.fs d1.img d2.img := by
      rcases hst with h | h
      · have h' : st = chainS (FileH.new (some c0) (some ed0)) chain d.fs.clusterSize (32 * q) := h
        subst h'
        exact writeSlot_armed subInv_ok hF WG' hKG WF' hKF (32 * q) (by omega) (by omega) e hl d1 hd hinv hw hnd
      · have h' : st = chainS (subW ed0 c0 d.clock) chain d.fs.clusterSize (32 * q) := h
        subst h'
        exact writeSlot_armed subInv_ok hF WG' hKG WG' hKG (32 * q) (by omega) (by omega) e hl d1 hd hinv hw hnd
    have hg1 : FsGeomEq d.fs d1.fs := hinv.geom
    have hfat1 : FatAgree d1.fs d1.img d2.img := by
      intro x h1 h2
      exact hfat x (by rw [← hg1.fatSlice]; exact h1) (by rw [← hg1.fatSlice]; exact h2)
    exact ⟨ChainDir.of_faulted hinv.dir hw hd hf2 hfat1, run_wf _ _ _ _ hw hinv.wf,
      hg1.trans (Geo.fsGeomEq (writeSlot_geo _ e) (d := d1) hw), hinv.fuel,
      (run_clock _ _ _ _ hw).trans hinv.clock, hinv.nameLen, hinv.epos,
      by rw [run_img_size _ _ _ _ hw]; exact hinv.einside⟩
  · intro dd h o t ho ht
    have hcs : dd.fs.clusterSize = d.fs.clusterSize := h.geom.clusterSize
    have hT : 32 * (chain.length * (d.fs.clusterSize / 32)) = chain.length * dd.fs.clusterSize := by
      have := Nat.div_add_mod d.fs.clusterSize 32
      have h32 := h.dir.cs32
      rw [hcs] at h32
      rw [h32, Nat.add_zero] at this
      rw [hcs, Nat.mul_left_comm, this]
    obtain ⟨d1, h1, hs1⟩ := h.coreW.seekStart o t (by rw [← hT]; exact ho) (by rw [← hT]; exact ht)
    rw [hcs] at h1
    refine ⟨d1, ?_, hs1.toVol⟩
    show run ((chainS (subW ed0 c0 d.clock) chain d.fs.clusterSize o).seek (.start t)) dd = _
    simp only [chainS, DirStream.seek]
    rw [run_bind_ok h1]
    rfl

end kinds

end FatVerif.DirSim
