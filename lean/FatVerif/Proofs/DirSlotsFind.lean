import FatVerif.Proofs.DirSlotsMap
import FatVerif.Props.C15
/-! Lookup and the abstraction to a case-insensitive association list. -/
namespace FatVerif
namespace DirSlots
open Lfn

/-- the abstract directory: association list from (long units, short slot) -/
abbrev AMap := List (List Nat × List Nat)

/-- a query hits an abstract entry (long name or alias, up to case) -/
def amMatch (upper : Char → List Char) (q : List Char) (kv : List Nat × List Nat) : Bool :=
  Names.eqName upper kv.1 (sfnName kv.2) q

def amFind (upper : Char → List Char) (m : AMap) (q : List Char) : Option (List Nat × List Nat) :=
  m.find? (amMatch upper q)

def absEntry (e : LfnEntry) : List Nat × List Nat := (e.units, e.sfn)

theorem absDir_eq (slots : List (List Nat)) : absDir slots = (listing slots).map absEntry := rfl

theorem amMatch_abs (upper : Char → List Char) (q : List Char) (e : LfnEntry) :
    amMatch upper q (absEntry e) = matchesName upper e q := rfl

theorem abs_lookup (upper : Char → List Char) (slots : List (List Nat)) (q : List Char) :
    amFind upper (absDir slots) q = (findEntry upper slots q).map absEntry := by
  unfold amFind findEntry
  rw [absDir_eq, List.find?_map]
  rfl

theorem findEntry_some_iff (upper : Char → List Char) (slots : List (List Nat)) (q : List Char) (e : LfnEntry) :
    findEntry upper slots q = some e ↔
      ∃ L1 L2, listing slots = L1 ++ e :: L2 ∧ matchesName upper e q = true ∧
        ∀ x ∈ L1, matchesName upper x q = false := by
  unfold findEntry
  rw [List.find?_eq_some_iff_append]
  constructor
  · rintro ⟨h1, as, bs, h2, h3⟩
    exact ⟨as, bs, h2, h1, fun x hx => by simpa using h3 x hx⟩
  · rintro ⟨L1, L2, h1, h2, h3⟩
    exact ⟨h2, L1, L2, h1, fun x hx => by simpa using h3 x hx⟩

theorem findEntry_none_iff (upper : Char → List Char) (slots : List (List Nat)) (q : List Char) :
    findEntry upper slots q = none ↔ ∀ e ∈ listing slots, matchesName upper e q = false := by
  unfold findEntry
  rw [List.find?_eq_none]
  constructor <;> intro h e he <;> simpa using h e he

theorem findEntry_unique (upper : Char → List Char) (slots : List (List Nat)) (hwf : DirWf upper slots)
    (q : List Char) (e : LfnEntry) (he : e ∈ listing slots) (hm : matchesName upper e q = true) :
    findEntry upper slots q = some e := by
  cases hf : findEntry upper slots q with
  | none => rw [(findEntry_none_iff upper slots q).1 hf e he] at hm; exact absurd hm (by simp)
  | some e' =>
    obtain ⟨L1, L2, h1, h2, _⟩ := (findEntry_some_iff upper slots q e').1 hf
    have he' : e' ∈ listing slots := by rw [h1]; simp
    rw [match_unique upper _ hwf.keys e he e' he' q hm h2]

/-! ### an entry occurs once in a listing -/

theorem listOf_sorted : ∀ (items : List Item) (i : Nat),
    (listOf items i).Pairwise (fun a b => a.endIdx < b.endIdx) := by
  intro items
  induction items with
  | nil => intro i; simp [listOf]
  | cons it items ih =>
    intro i
    cases it with
    | deleted s => exact ih (i + 1)
    | label s => exact ih (i + 1)
    | entry R sfn =>
      simp only [listOf]
      refine List.pairwise_cons.2 ⟨?_, ih _⟩
      intro b hb
      have := listOf_bounds items _ b hb
      simp only; omega

theorem listing_nodup (slots : List (List Nat)) (hs : Shape slots) : (listing slots).Nodup := by
  obtain ⟨items, tail, rfl, hok, ht⟩ := hs
  unfold listing
  rw [listing_shape true items tail hok ht]
  exact (listOf_sorted items 0).imp (fun h heq => by rw [heq] at h; exact Nat.lt_irrefl _ h)

theorem append_cons_unique {α} : ∀ (M1 L1 M2 L2 : List α) (e : α), (M1 ++ e :: M2).Nodup →
    M1 ++ e :: M2 = L1 ++ e :: L2 → M1 = L1 ∧ M2 = L2 := by
  intro M1
  induction M1 with
  | nil =>
    intro L1 M2 L2 e hn h
    cases L1 with
    | nil => simp at h; exact ⟨rfl, h⟩
    | cons b L1 =>
      simp only [List.nil_append, List.cons_append, List.cons.injEq] at h
      obtain ⟨rfl, h⟩ := h
      have : e ∈ M2 := by rw [h]; simp
      exact absurd this (List.nodup_cons.1 hn).1
  | cons a M1 ih =>
    intro L1 M2 L2 e hn h
    cases L1 with
    | nil =>
      simp only [List.nil_append, List.cons_append, List.cons.injEq] at h
      obtain ⟨rfl, h⟩ := h
      have hn' : (a :: (M1 ++ a :: M2)).Nodup := hn
      exact absurd (by simp : a ∈ M1 ++ a :: M2) (List.nodup_cons.1 hn').1
    | cons b L1 =>
      simp only [List.cons_append, List.cons.injEq] at h
      obtain ⟨rfl, h⟩ := h
      obtain ⟨r1, r2⟩ := ih L1 M2 L2 e (List.nodup_cons.1 hn).2 h
      exact ⟨by rw [r1], r2⟩

/-! ### the three squares -/

theorem absDir_remove (upper : Char → List Char) (slots : List (List Nat)) (hs : Shape slots) (q : List Char)
    (e : LfnEntry) (hf : findEntry upper slots q = some e) :
    absDir (deleteRange slots e.beginIdx e.endIdx) = (absDir slots).eraseP (amMatch upper q) ∧
      Shape (deleteRange slots e.beginIdx e.endIdx) := by
  obtain ⟨L1, L2, h1, h2, h3⟩ := (findEntry_some_iff upper slots q e).1 hf
  have he : e ∈ readDirEntries true true slots := by
    show e ∈ listing slots
    rw [h1]; simp
  obtain ⟨M1, M2, m1, m2, m3⟩ := deleteRange_remove true slots hs e he
  refine ⟨?_, m3⟩
  rw [absDir_eq, absDir_eq, List.eraseP_map, h1]
  have hno : ∀ b ∈ L1, ¬ (amMatch upper q ∘ absEntry) b = true := by
    intro b hb; simp [amMatch_abs, h3 b hb]
  rw [List.eraseP_append_right _ hno, List.eraseP_cons_of_pos (by simpa [amMatch_abs] using h2)]
  -- the listing after deletion is L1 ++ L2: an entry occurs once in a listing (ranges are increasing)
  congr 1
  show readDirEntries true true (deleteRange slots e.beginIdx e.endIdx) = L1 ++ L2
  rw [m2]
  have hEq : M1 ++ e :: M2 = L1 ++ e :: L2 := by rw [← m1]; exact h1
  have hn : (M1 ++ e :: M2).Nodup := by rw [← m1]; exact listing_nodup slots hs
  obtain ⟨r1, r2⟩ := append_cons_unique M1 L1 M2 L2 e hn hEq
  rw [r1, r2]

theorem absDir_create (slots : List (List Nat)) (units sfn : List Nat) (hs : Shape slots)
    (h1 : 1 ≤ units.length) (h255 : units.length ≤ 255) (hu : ∀ x ∈ units, x < 65536)
    (hnz : ∀ x ∈ units, x ≠ 0) (hsfn : slotClass sfn = .file) :
    (absDir (writeEntry slots units sfn)).Perm ((units, sfn) :: absDir slots) ∧
      Shape (writeEntry slots units sfn) := by
  obtain ⟨L1, L2, e1, e2, _, _, e5⟩ := writeEntry_insert true slots units sfn hs h1 h255 hu hnz hsfn
  refine ⟨?_, e5⟩
  rw [absDir_eq, absDir_eq]
  show (List.map absEntry (readDirEntries true true (writeEntry slots units sfn))).Perm
    ((units, sfn) :: List.map absEntry (readDirEntries true true slots))
  rw [e1, e2]
  simp only [List.map_append, List.map_cons]
  exact List.perm_middle

/-- a name that is not found, with an alias nobody answers to, keeps the directory well-formed -/
theorem create_wf (upper : Char → List Char) (slots : List (List Nat)) (name : List Char) (sfn : List Nat)
    (hwf : DirWf upper slots) (hname : name ≠ [])
    (h1 : 1 ≤ (Names.encodeUtf16 name).length) (h255 : (Names.encodeUtf16 name).length ≤ 255)
    (hu : ∀ x ∈ Names.encodeUtf16 name, x < 65536)
    (hnz : ∀ x ∈ Names.encodeUtf16 name, x ≠ 0)
    (hsfn : slotClass sfn = .file)
    (hnf : findEntry upper slots name = none)
    (hraw : ∀ e ∈ listing slots, sfnName e.sfn ≠ sfnName sfn)
    (halias : ∀ e ∈ listing slots, matchesName upper e (Names.aliasDisplay (sfnName sfn)) = false) :
    DirWf upper (writeEntry slots (Names.encodeUtf16 name) sfn) := by
  apply writeEntry_wf upper slots _ sfn hwf h1 h255 hu hnz hsfn hraw
  intro e he q hq
  obtain ⟨hq1, hq2⟩ := hq
  have hnone := (findEntry_none_iff upper slots name).1 hnf e he
  rcases (C15.lookup_stored_iff upper hname (sfnName sfn) q).1 hq2 with hf | hf
  · have := C15.lookup_congr upper e.units (sfnName e.sfn) hf
    unfold matchesName at hq1 hnone
    rw [this, hnone] at hq1
    exact absurd hq1 (by simp)
  · have := C15.lookup_congr upper e.units (sfnName e.sfn) hf
    have ha := halias e he
    unfold matchesName at hq1 ha
    rw [this, ha] at hq1
    exact absurd hq1 (by simp)

theorem absDir_rename (upper : Char → List Char) (slots : List (List Nat)) (src dst : List Char) (alias : List Nat)
    (hs : Shape slots) (e : LfnEntry) (hsrc : findEntry upper slots src = some e)
    (h1 : 1 ≤ (Names.encodeUtf16 dst).length) (h255 : (Names.encodeUtf16 dst).length ≤ 255)
    (hu : ∀ x ∈ Names.encodeUtf16 dst, x < 65536)
    (hnz : ∀ x ∈ Names.encodeUtf16 dst, x ≠ 0)
    (hcls : slotClass (renamedSfn e.sfn alias) = .file) :
    (absDir (writeEntry (deleteRange slots e.beginIdx e.endIdx) (Names.encodeUtf16 dst) (renamedSfn e.sfn alias))).Perm
        ((Names.encodeUtf16 dst, renamedSfn e.sfn alias) :: (absDir slots).eraseP (amMatch upper src)) ∧
      Shape (writeEntry (deleteRange slots e.beginIdx e.endIdx) (Names.encodeUtf16 dst) (renamedSfn e.sfn alias)) := by
  obtain ⟨d1, d2⟩ := absDir_remove upper slots hs src e hsrc
  obtain ⟨c1, c2⟩ := absDir_create _ (Names.encodeUtf16 dst) (renamedSfn e.sfn alias) d2 h1 h255 hu hnz hcls
  rw [d1] at c1
  exact ⟨c1, c2⟩

end DirSlots
end FatVerif
