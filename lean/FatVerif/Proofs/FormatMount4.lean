import FatVerif.Proofs.FormatMount3
/-!
# C06 — `stats` succeeds on a fault-free mounted volume

Forward evaluation (existence of a successful run) of `count_free_clusters` over the FAT slice, built on agent-cursor's
forward lemmas for slice reads (`Proofs/FileSimRun`): on a device without a scheduled fault whose layout satisfies
`FileSim.Geo` the recount reads every entry `[2, total+2)` inside the FAT window, so it cannot fail; hence `stats`
returns a value. The VALUE is then given by agent-fat's `C05img.stats_img` (which assumes success).
-/
namespace FatVerif.C06vol
open FatVerif FatVerif.FileSim

/-- `read_u8` on a slice inside the device -/
theorem run_slice_readU8 (s : DiskSlice) (d : Dev) (h : d.failAt = none)
    (hfit : s.offset + 1 ≤ s.size) (hdev : s.beginOff + s.size ≤ d.img.size) :
    ∃ v d', run (readU8 DiskSlice.strm s) d = (.ok (v, { s with offset := s.offset + 1 }), d') ∧ SameStore d d' := by
  obtain ⟨d1, h1, hs1⟩ := run_slice_readExact s 1 d h hfit hdev
  refine ⟨(d.img.read (s.beginOff + s.offset) 1).getD 0 0, d1, ?_, hs1⟩
  unfold readU8
  rw [run_bind_ok h1]
  rfl

/-- the FAT16/FAT32 recount loop succeeds -/
theorem run_countFreeLoop_ok (ft : FatType) (hft : ft ≠ .fat12) : ∀ (fuel : Nat) (s : DiskSlice) (c endC count : Nat)
    (d : Dev), d.failAt = none → endC - c < fuel → s.offset = c * entWidth ft → endC * entWidth ft ≤ s.size →
    s.beginOff + s.size ≤ d.img.size →
    ∃ n s' d', run (Table.countFreeLoop DiskSlice.strm ft fuel s c endC count) d = (.ok (n, s'), d') ∧
      SameStore d d' := by
  intro fuel
  induction fuel with
  | zero => intro s c endC count d _ h; omega
  | succ k ih =>
    intro s c endC count d hfail hfuel hoff hfit hdev
    unfold Table.countFreeLoop
    by_cases hc : c < endC
    · rw [if_pos hc]
      have hmul : (c + 1) * entWidth ft ≤ endC * entWidth ft := Nat.mul_le_mul_right _ (by omega)
      rw [Nat.add_mul, Nat.one_mul] at hmul
      by_cases h16 : ft = .fat16
      · subst h16
        simp only [entWidth] at hoff hfit hmul
        rw [if_pos rfl]
        obtain ⟨d1, h1, hs1⟩ := run_slice_readU16 s d hfail (by omega) hdev
        rw [run_bind_ok h1]
        dsimp only
        obtain ⟨n, s', d', hr, hs'⟩ := ih { s with offset := s.offset + 2 } (c + 1) endC
          (if d.img.le16 (s.beginOff + s.offset) = 0 then count + 1 else count) d1 (SameStore.failAt_none hs1 hfail) (by omega)
          (by simp only [entWidth]; omega) (by simp only [entWidth]; exact hfit) (by rw [hs1.img]; exact hdev)
        exact ⟨n, s', d', hr, hs1.trans hs'⟩
      · have h32 : ft = .fat32 := by cases ft <;> simp_all
        subst h32
        simp only [entWidth] at hoff hfit hmul
        rw [if_neg (by simp)]
        obtain ⟨d1, h1, hs1⟩ := run_slice_readU32 s d hfail (by omega) hdev
        rw [run_bind_ok (run_bind_ok h1 ▸ rfl :
          run (readU32 DiskSlice.strm s >>= fun x => (pure (x.1 % 0x10000000, x.2) : Prog (Nat × DiskSlice))) d =
            (.ok (d.img.le32 (s.beginOff + s.offset) % 0x10000000, { s with offset := s.offset + 4 }), d1))]
        dsimp only
        obtain ⟨n, s', d', hr, hs'⟩ := ih { s with offset := s.offset + 4 } (c + 1) endC
          (if d.img.le32 (s.beginOff + s.offset) % 0x10000000 = 0 then count + 1 else count) d1
          (SameStore.failAt_none hs1 hfail) (by omega)
          (by simp only [entWidth]; omega) (by simp only [entWidth]; exact hfit) (by rw [hs1.img]; exact hdev)
        exact ⟨n, s', d', hr, hs1.trans hs'⟩
    · rw [if_neg hc]
      exact ⟨count, s, d, rfl, SameStore.refl d⟩

/-- the FAT12 recount loop succeeds: the stream stands at byte `(3c+1)/2` when entry `c` is next -/
theorem run_countFree12Loop_ok : ∀ (fuel : Nat) (s : DiskSlice) (c endC prev count : Nat)
    (d : Dev), d.failAt = none → endC - c < fuel → 2 * s.offset = 3 * c + c % 2 →
    (∀ x, x < endC → x + x / 2 + 2 ≤ s.size) → s.beginOff + s.size ≤ d.img.size →
    ∃ n s' d', run (Table.countFree12Loop DiskSlice.strm fuel s c endC prev count) d = (.ok (n, s'), d') ∧
      SameStore d d' := by
  intro fuel
  induction fuel with
  | zero => intro s c endC prev count d _ h; omega
  | succ k ih =>
    intro s c endC prev count d hfail hfuel hoff hfit hdev
    unfold Table.countFree12Loop
    by_cases hc : c < endC
    · rw [if_pos hc]
      have hf := hfit c hc
      by_cases hp : c % 2 = 0
      · simp only [if_pos hp]
        obtain ⟨d1, h1, hs1⟩ := run_slice_readU16 s d hfail (by omega) hdev
        rw [run_bind_ok h1]
        dsimp only
        obtain ⟨n, s', d', hr, hs'⟩ := ih { s with offset := s.offset + 2 } (c + 1) endC
          (d.img.le16 (s.beginOff + s.offset))
          (if d.img.le16 (s.beginOff + s.offset) % 4096 = 0 then count + 1 else count) d1 (SameStore.failAt_none hs1 hfail)
          (by omega) (by show 2 * (s.offset + 2) = _; omega) hfit (by rw [hs1.img]; exact hdev)
        exact ⟨n, s', d', hr, hs1.trans hs'⟩
      · simp only [if_neg hp]
        obtain ⟨v, d1, h1, hs1⟩ := run_slice_readU8 s d hfail (by omega) hdev
        rw [run_bind_ok h1]
        dsimp only
        obtain ⟨n, s', d', hr, hs'⟩ := ih { s with offset := s.offset + 1 } (c + 1) endC v
          (if (v * 256 % 65536 ||| prev / 4096) = 0 then count + 1 else count) d1 (SameStore.failAt_none hs1 hfail)
          (by omega) (by show 2 * (s.offset + 1) = _; omega) hfit (by rw [hs1.img]; exact hdev)
        exact ⟨n, s', d', hr, hs1.trans hs'⟩
    · rw [if_neg hc]
      exact ⟨count, s, d, rfl, SameStore.refl d⟩

/-- **`count_free_clusters` succeeds** on a fault-free device when the entries `[0, total+2)` lie inside the slice and
    the slice inside the device -/
theorem run_countFree_ok (ft : FatType) (s : DiskSlice) (total : Nat) (d : Dev) (hfail : d.failAt = none)
    (hents : ∀ c, c < total + 2 → entOff ft c + entWidth ft ≤ s.size) (hdev : s.beginOff + s.size ≤ d.img.size) :
    ∃ n s' d', run (Table.countFree DiskSlice.strm ft s total) d = (.ok (n, s'), d') ∧ SameStore d d' := by
  have h0 := hents 0 (by omega)
  have h1 := hents (total + 1) (by omega)
  unfold Table.countFree
  cases ft with
  | fat12 =>
    simp only [entOff, entWidth] at h0 h1 hents
    dsimp only
    rw [run_bind_ok (run_slice_seekStart s 3 d (by omega))]
    dsimp only
    exact run_countFree12Loop_ok _ _ 2 _ 0 0 d hfail (by omega) (by show 2 * 3 = _; omega)
      (fun x hx => hents x hx) hdev
  | fat16 =>
    simp only [entOff, entWidth] at h0 h1
    dsimp only
    rw [run_bind_ok (run_slice_seekStart s 4 d (by omega))]
    dsimp only
    exact run_countFreeLoop_ok .fat16 (by simp) _ _ 2 _ 0 d hfail (by omega) (by simp [entWidth])
      (by simp only [entWidth]; omega) hdev
  | fat32 =>
    simp only [entOff, entWidth] at h0 h1
    dsimp only
    rw [run_bind_ok (run_slice_seekStart s 8 d (by omega))]
    dsimp only
    exact run_countFreeLoop_ok .fat32 (by simp) _ _ 2 _ 0 d hfail (by omega) (by simp [entWidth])
      (by simp only [entWidth]; omega) hdev

theorem run_bind_exists {α β} {p : Prog β} {k : β → Prog α} {d : Dev} (h : ∃ b d1, run p d = (.ok b, d1))
    (hk : ∀ b d1, ∃ a d2, run (k b) d1 = (.ok a, d2)) : ∃ a d2, run (p >>= k) d = (.ok a, d2) := by
  obtain ⟨b, d1, h1⟩ := h
  obtain ⟨a, d2, h2⟩ := hk b d1
  exact ⟨a, d2, by rw [run_bind_ok h1]; exact h2⟩

/-- **`stats` succeeds** on a fault-free mounted volume with layout `Geo` -/
theorem run_stats_ok (d : Dev) (hfail : d.failAt = none) (hg : Geo d.fs d.img.size) :
    ∃ a b n d', run stats d = (.ok (a, b, n), d') := by
  suffices h : ∃ r d', run stats d = (.ok r, d') by
    obtain ⟨⟨a, b, n⟩, d', h⟩ := h
    exact ⟨a, b, n, d', h⟩
  unfold stats
  have h0 : run Prog.getFs d = (.ok d.fs, d) := rfl
  rw [run_bind_ok h0]
  cases hfree : d.fs.fsInfo.free with
  | some m => exact ⟨_, d, rfl⟩
  | none =>
    dsimp only
    obtain ⟨n, s', d1, h1, _⟩ := run_countFree_ok d.fs.fatType (fatSliceOf d.fs) d.fs.totalClusters d hfail hg.ents
      hg.fat_dev
    apply run_bind_exists
    · apply run_bind_exists ⟨_, _, h1⟩
      intro b d2
      apply run_bind_exists ⟨(), _, FileSim.run_modifyFs _ _⟩
      intro _ d3
      exact ⟨_, _, rfl⟩
    · intro b d2
      exact ⟨_, _, rfl⟩

end FatVerif.C06vol
