import FatVerif.Proofs.DirReadSim9
import FatVerif.Props.C16dir
/-! Directory reads, part 10 (generic): `check_for_existence` on a directory stream = `DirAlias.loop` /
    `DirAlias.checkForExistenceL` on the entries of the pure reader. -/
namespace FatVerif.DirSim
open DirAlias

/-- the library's `DirEntryOrShortName` for an outcome of the pure loop -/
def liftEOA (src : Nat → Nat) : EntryOrAlias → EntryOrShort
  | .entry e => .entry (toDirEntryS src e)
  | .alias a => .short a

theorem scan_wf (upper : Char → List Char) (name : List Char) (isDir : Option Bool) :
    ∀ (es : List LfnEntry) (g : Names.Gen), Names.GenWF g → Names.GenWF (scan upper name isDir es g).2 := by
  intro es
  induction es with
  | nil => intro g h; exact h
  | cons e es ih =>
    intro g h
    unfold scan
    split
    · split <;> exact h
    · exact ih _ (h.addExisting _)

/-- a scan without kind filter: the first entry answering to the name -/
theorem scan_none_fst (upper : Char → List Char) (q : List Char) :
    ∀ (es : List LfnEntry) (g : Names.Gen), (scan upper q none es g).1 =
      match lookupNoGen upper es q with
      | some e => .ok e
      | none => .error .notFound := by
  intro es
  induction es with
  | nil => intro g; rfl
  | cons e es ih =>
    intro g
    unfold scan lookupNoGen
    rw [List.find?_cons]
    by_cases hm : DirSlots.matchesName upper e q = true
    · simp [hm]
    · simp only [hm, Bool.false_eq_true, if_false]
      exact ih _

/-- what `DirOps.checkForExistenceLoop` computes from a generated candidate (of 11 bytes) is what `DirAlias.loop`
    uses -/
theorem cand_facts {a : List Nat} (hl : a.length = 11) :
    (ShortName.new a).asBytes.all (· < 128) = displayAscii a ∧
    (displayAscii a = true →
      (String.ofList ((ShortName.new a).asBytes.map Char.ofNat)).toList = Names.aliasDisplay a) := by
  rw [← C16dir.shortDisplay_eq_shortName a hl]
  refine ⟨rfl, fun hd => ?_⟩
  rw [String.toList_ofList]
  unfold Names.aliasDisplay
  apply List.map_congr_left
  intro y hy
  unfold displayAscii at hd
  have := List.all_eq_true.1 hd y hy
  simp only [decide_eq_true_eq] at this
  unfold Names.oemDecode
  rw [if_pos (by omega)]


section generic
variable {d : Dev} {S : Nat → DirStream} {N : Nat} {src room : Nat → Nat}

/-- outcome of the pure loop ↦ behaviour of the program -/
def Outcome {α β} (p : Prog β) (d : Dev) (f : α → β) : Except Err α → Prop
  | .ok r => Reads p d (f r)
  | .error e => FailsV p d e

theorem Outcome.bind {α β γ} {p : Prog γ} {k : γ → Prog β} {d : Dev} {b : γ} {f : α → β} {r : Except Err α}
    (h1 : Reads p d b) (h2 : ∀ d1, SameVol d d1 → Outcome (k b) d1 f r) : Outcome (Prog.bind p k) d f r := by
  cases r with
  | ok v => exact Reads.bind h1 h2
  | error e => exact FailsV.bind_right h1 h2

/-- **`check_for_existence`, the loop, generic**: on the entries of the pure reader the program does what
    `DirAlias.loop` computes — the existing entry, the chosen alias, or the error (`.hang` = the fuel ran out) -/
theorem DirSrc.checkLoop_sim (D : DirSrc d S N src room) (hfuel : N < dirFuel d.fs) (env : Env) (name : String)
    (isDir : Option Bool) :
    ∀ (fuel : Nat) (g : Names.Gen) (d1 : Dev), Names.GenWF g → SameVol d d1 →
      Outcome (checkForExistenceLoop env (S 0) name isDir fuel g) d1 (liftEOA src)
        (DirAlias.loop env.upper (readDirEntries d.fs.lfnAlloc true (srcSlots d.img src N)) name.toList isDir fuel g) := by
  intro fuel
  induction fuel with
  | zero =>
    intro g d1 _ _
    exact ⟨d1, rfl, SameVol.refl d1⟩
  | succ k ih =>
    intro g d1 hw hv
    have hfe := D.findEntryG_scan hfuel env name isDir g d1 hv
    have hw' := scan_wf env.upper name.toList isDir (readDirEntries d.fs.lfnAlloc true (srcSlots d.img src N)) g hw
    unfold checkForExistenceLoop DirAlias.loop
    generalize hsc : DirAlias.scan env.upper name.toList isDir
      (readDirEntries d.fs.lfnAlloc true (srcSlots d.img src N)) g = sc at hfe hw'
    obtain ⟨r, g'⟩ := sc
    simp only at hfe hw'
    cases r with
    | ok e =>
      simp only [Outcome, liftEOA]
      exact Reads.bind hfe (fun d2 _ => Reads.pure _ d2)
    | error er =>
      cases er with
      | notFound =>
        refine Outcome.bind hfe (fun d2 hs2 => ?_)
        have hv2 := hv.trans hs2
        simp only [Except.map, Option.getD]
        cases hgen : Names.generate g' with
        | error ee =>
          simp only
          exact ih (Names.nextIteration g') d2 hw'.nextIteration hv2
        | ok sn =>
          simp only
          have hl := generate_length hw' hgen
          obtain ⟨hc1, hc2⟩ := cand_facts hl
          rw [hc1]
          by_cases hda : displayAscii sn = true
          · rw [if_pos hda, if_pos hda]
            have h2 := D.findEntryG_scan_none hfuel env
              (String.ofList ((ShortName.new sn).asBytes.map Char.ofNat)) none g' d2 hv2
            rw [hc2 hda, scan_none_fst] at h2
            refine Outcome.bind h2 (fun d3 hs3 => ?_)
            cases hlk : lookupNoGen env.upper (readDirEntries d.fs.lfnAlloc true (srcSlots d.img src N))
                (Names.aliasDisplay sn) with
            | none => exact Reads.pure _ d3
            | some v => exact ih (Names.addExisting g' sn) d3 (hw'.addExisting sn) (hv2.trans hs3)
          · rw [if_neg hda, if_neg hda]
            exact Reads.pure _ d2
      | _ => exact FailsV.bind_right hfe (fun d2 _ => ⟨d2, rfl, SameVol.refl d2⟩)

/-- **`check_for_existence`, generic** (`alloc` feature on: the reader's entries are `DirSlots.listing`): the program
    does what `DirAlias.checkForExistenceL` computes from the slots of the image — returns the existing entry, or the
    alias the C16 theorems are about, or fails with its error -/
theorem DirSrc.checkForExistence_sim (D : DirSrc d S N src room) (hfuel : N < dirFuel d.fs) (ha : d.fs.lfnAlloc = true)
    (env : Env) (name : String) (isDir : Option Bool) (d1 : Dev) (hv : SameVol d d1) :
    Outcome (checkForExistence env (S 0) name isDir) d1 (liftEOA src)
      (DirAlias.checkForExistenceL env.upper (srcSlots d.img src N) name isDir 70000) := by
  unfold checkForExistence DirAlias.checkForExistenceL
  cases hn : Names.new name with
  | error e => exact ⟨d1, rfl, SameVol.refl d1⟩
  | ok g =>
    have hw : Names.GenWF g := Names.newL_wf hn
    have := D.checkLoop_sim hfuel env name isDir 70000 g d1 hw hv
    rw [ha] at this
    exact this

end generic

end FatVerif.DirSim
