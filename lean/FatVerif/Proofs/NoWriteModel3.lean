import FatVerif.Proofs.NoWriteModel2
/-! C13, part 3: `mount`, `stats`, `unmount`/`Drop for FileSystem`. -/
namespace FatVerif

/-- status flags as read at mount (what `unmount` has to restore) -/
def FlagsClean (fs : FsState) : Prop := fs.curDirty = fs.bpbDirty ∧ fs.curIoErr = fs.bpbIoErr

theorem CleanFs.flags {fs : FsState} (h : CleanFs fs) : FlagsClean fs := ⟨h.1, h.2.1⟩

/-! ### `mount` -/

theorem readFsInfoSector_ro {fs0 : FsState} : RO fs0 readFsInfoSector (fun i => i.dirty = false) := by
  unfold readFsInfoSector
  ro [readU32_quiet, readExact_quiet, devStrm_quiet]

/-- `FileSystem::new` writes nothing; on success the mounted state is the returned one, it is clean, and carries the
    `update_accessed_date` option it was given -/
theorem mount_nw {fs0 : FsState} (strict accDate lfnAlloc unicode : Bool) :
    NW fs0 (mount strict accDate lfnAlloc unicode)
      (fun fs fs1 => fs1 = fs ∧ CleanFs fs ∧ fs.accDate = accDate) := by
  unfold mount
  refine NW.bind_ro (RO.of_quiet (QuietOps.progSeek _)) (fun pos _ => ?_)
  split
  · exact NW.fail _
  refine NW.bind_ro (RO.of_quiet readBootSector_quiet) (fun bs _ => ?_)
  refine NW.bind_ro (RO.of_quiet (liftE_quiet _)) (fun _ _ => ?_)
  refine NW.bind_ro (RO.of_quiet (liftE_quiet _)) (fun g _ => ?_)
  refine NW.bind_ro (Q := fun i => i.dirty = false) ?_ (fun info hinfo => ?_)
  · split
    · refine RO.bind (RO.of_quiet (liftE_quiet _)) (fun off _ => ?_)
      refine RO.bind (RO.of_quiet (QuietOps.progSeekStart _)) (fun _ _ => ?_)
      exact readFsInfoSector_ro
    · exact RO.pure rfl
  try dsimp only
  refine NW.bind_ro (RO.of_quiet (liftE_quiet _)) (fun maxValid _ => ?_)
  try dsimp only
  refine NW.bind (NW.setFs _) ?_
  rintro _ fs1 rfl
  refine NW.pure ⟨rfl, ⟨rfl, rfl, ?_⟩, rfl⟩
  try dsimp only
  split <;> simp [hinfo]

/-! ### `stats` -/

/-- the mounted state after `stats`: unchanged, or — the documented exception, when no free count was cached — the
    count is now cached and the FS-info latch is set -/
def StatsStep (fs0 fs1 : FsState) : Prop :=
  fs1 = fs0 ∨ (fs0.fsInfo.free = none ∧ ∃ n, fs1 = { fs0 with fsInfo := { fs0.fsInfo with free := some n, dirty := true } })

theorem stats_nw {fs0 : FsState} : NW fs0 stats (fun _ fs1 => StatsStep fs0 fs1) := by
  unfold stats
  refine NW.bind_ro RO.getFs (fun fs hfs => ?_)
  subst hfs
  refine NW.bind (Q := fun _ fs1 => StatsStep fs fs1) ?_ ?_
  · split
    · exact NW.pure (Or.inl rfl)
    · rename_i hfree
      refine NW.bind_ro (RO.of_quiet (Table.countFree_quiet _ DiskSlice.strm_quiet _ _ _)) ?_
      rintro ⟨n, s⟩ _
      dsimp only
      refine NW.bind (NW.modifyFs _) ?_
      rintro _ fs1 rfl
      exact NW.pure (Or.inr ⟨hfree, n, rfl⟩)
  · rintro free fs1 h
    exact NW.pure h

/-! ### `unmount` from a clean state -/

theorem flushFsInfo_clean_ro {fs0 : FsState} (h : fs0.fsInfo.dirty = false) : RO fs0 flushFsInfo (fun _ => True) := by
  unfold flushFsInfo
  refine RO.bind RO.getFs (fun fs hfs => ?_)
  subst hfs
  split
  · rename_i hc; simp [h] at hc
  · exact RO.pure trivial

theorem setDirtyFlag_false_clean_ro {fs0 : FsState} (h : FlagsClean fs0) : RO fs0 (setDirtyFlag false) (fun _ => True) := by
  unfold setDirtyFlag
  refine RO.bind RO.getFs (fun fs hfs => ?_)
  subst hfs
  try dsimp only
  split
  · exact RO.pure trivial
  · rename_i hc
    exfalso; apply hc
    simp [h.1, h.2]

theorem unmountInternal_clean_ro {fs0 : FsState} (h : CleanFs fs0) : RO fs0 unmountInternal (fun _ => True) := by
  unfold unmountInternal
  exact RO.bind (flushFsInfo_clean_ro h.2.2) (fun _ _ => setDirtyFlag_false_clean_ro h.flags)

/-- `FileSystem::unmount` on a clean file system writes nothing -/
theorem unmount_clean_ro {fs0 : FsState} (h : CleanFs fs0) : RO fs0 unmount (fun _ => True) := by
  unfold unmount
  exact RO.finallyDrop (unmountInternal_clean_ro h) (fun _ _ => unmountInternal_clean_ro h) (unmountInternal_clean_ro h)

/-- `impl Drop for FileSystem` on a clean file system writes nothing -/
theorem dropFs_clean_ro {fs0 : FsState} (h : CleanFs fs0) : RO fs0 dropFs (fun _ => True) :=
  inDrop_ro (unmountInternal_clean_ro h)

end FatVerif
