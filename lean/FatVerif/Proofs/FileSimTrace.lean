import FatVerif.Proofs.FileSimSeek
import FatVerif.Proofs.ImgLemmas
/-!
# FileSim / trace: the device write records of a step, classified

`Trace fs E D d d'`: between `d` and `d'` the log grew by the write records `recs` (oldest first), the image is `d.img` with
them applied in order, and every record — looked at on the image it hits — is one of

* the status byte;
* a piece of ONE cluster `c` of the data region with `D c`;
* the complete window of the FAT entry of a cluster `c` with `E c`, in one FAT copy, whose application leaves the DECODED
  value of every other entry unchanged (a read-modify-write: on FAT12 the neighbour's nibble in the shared byte is kept;
  on FAT32 the four reserved bits).

Records are atomic (this is the granularity of the device log and of the crash model of `Props/C14sim.lean`).
-/
namespace FatVerif.FileSim
open FatVerif FatVerif.Fat

/-- a device write record: offset, bytes -/
abbrev Rec := Nat × List Nat

/-- the log items of a list of records (the log is newest first) -/
def recItems (recs : List Rec) : List LogItem := (recs.map fun r => LogItem.write r.1 r.2).reverse

/-- records applied in order -/
def applyRecs (img : Img) (recs : List Rec) : Img := recs.foldl (fun i w => i.write w.1 w.2) img

theorem applyRecs_append (img : Img) (a b : List Rec) : applyRecs img (a ++ b) = applyRecs (applyRecs img a) b := by
  unfold applyRecs; rw [List.foldl_append]

theorem recItems_append (a b : List Rec) : recItems (a ++ b) = recItems b ++ recItems a := by
  unfold recItems; rw [List.map_append, List.reverse_append]

/-- one record, on the image it hits -/
def RecOk (fs : FsState) (E D : Nat → Prop) (img : Img) (r : Rec) : Prop :=
  (r.1 = statusOff fs ∧ r.2.length = 1) ∨
  (∃ c, D c ∧ 2 ≤ c ∧ c < fs.totalClusters + 2 ∧ clusterOff fs c ≤ r.1 ∧
    r.1 + r.2.length ≤ clusterOff fs c + fs.clusterSize) ∨
  (∃ c i, E c ∧ c < fs.totalClusters + 2 ∧ i < (fatSliceOf fs).mirrors ∧
    r.1 = (fatSliceOf fs).beginOff + entOff fs.fatType c + i * (fatSliceOf fs).size ∧
    r.2.length = entWidth fs.fatType ∧
    ∀ x, x ≠ c → tabView fs (img.write r.1 r.2) x = tabView fs img x)

def Classified (fs : FsState) (E D : Nat → Prop) : Img → List Rec → Prop
  | _, [] => True
  | img, r :: rs => RecOk fs E D img r ∧ Classified fs E D (img.write r.1 r.2) rs

theorem classified_append (fs : FsState) (E D : Nat → Prop) : ∀ (a b : List Rec) (img : Img),
    Classified fs E D img (a ++ b) ↔ Classified fs E D img a ∧ Classified fs E D (applyRecs img a) b
  | [], b, img => by simp [Classified, applyRecs]
  | r :: a, b, img => by
    simp only [List.cons_append, Classified]
    rw [classified_append fs E D a b (img.write r.1 r.2)]
    simp only [applyRecs, List.foldl_cons, and_assoc]

theorem RecOk.mono {fs : FsState} {E D E' D' : Nat → Prop} (hE : ∀ c, E c → E' c) (hD : ∀ c, D c → D' c) {img : Img}
    {r : Rec} (h : RecOk fs E D img r) : RecOk fs E' D' img r := by
  rcases h with h | ⟨c, hc, h⟩ | ⟨c, i, hc, h⟩
  · exact Or.inl h
  · exact Or.inr (Or.inl ⟨c, hD c hc, h⟩)
  · exact Or.inr (Or.inr ⟨c, i, hE c hc, h⟩)

theorem Classified.mono {fs : FsState} {E D E' D' : Nat → Prop} (hE : ∀ c, E c → E' c) (hD : ∀ c, D c → D' c) :
    ∀ {recs : List Rec} {img : Img}, Classified fs E D img recs → Classified fs E' D' img recs
  | [], _, _ => trivial
  | _ :: _, _, h => ⟨h.1.mono hE hD, Classified.mono hE hD h.2⟩

/-- the classified write records of a step -/
def Trace (fs : FsState) (E D : Nat → Prop) (d d' : Dev) : Prop :=
  ∃ recs : List Rec, d'.log = recItems recs ++ d.log ∧ d'.img = applyRecs d.img recs ∧ Classified fs E D d.img recs

theorem Trace.of_same {fs : FsState} {E D : Nat → Prop} {d d' : Dev} (hi : d'.img = d.img) (hl : d'.log = d.log) :
    Trace fs E D d d' := ⟨[], by simp [recItems, hl], hi, trivial⟩

theorem Trace.refl (fs : FsState) (E D : Nat → Prop) (d : Dev) : Trace fs E D d d := Trace.of_same rfl rfl

theorem Trace.of_sameStore {fs : FsState} {E D : Nat → Prop} {d d' : Dev} (h : SameStore d d') : Trace fs E D d d' :=
  Trace.of_same h.img h.log

theorem Trace.trans {fs : FsState} {E D : Nat → Prop} {a b c : Dev} (h1 : Trace fs E D a b) (h2 : Trace fs E D b c) :
    Trace fs E D a c := by
  obtain ⟨r1, l1, i1, c1⟩ := h1
  obtain ⟨r2, l2, i2, c2⟩ := h2
  refine ⟨r1 ++ r2, by rw [l2, l1, recItems_append, List.append_assoc], by rw [i2, i1, applyRecs_append], ?_⟩
  rw [classified_append]
  exact ⟨c1, by rw [← i1]; exact c2⟩

theorem Trace.mono {fs : FsState} {E D E' D' : Nat → Prop} {d d' : Dev} (h : Trace fs E D d d')
    (hE : ∀ c, E c → E' c) (hD : ∀ c, D c → D' c) : Trace fs E' D' d d' := by
  obtain ⟨r, l, i, c⟩ := h
  exact ⟨r, l, i, c.mono hE hD⟩

/-- ONE device write -/
theorem Trace.single {fs : FsState} {E D : Nat → Prop} {d d' : Dev} {off : Nat} {bs : List Nat}
    (hl : d'.log = .write off bs :: d.log) (hi : d'.img = d.img.write off bs) (hr : RecOk fs E D d.img (off, bs)) :
    Trace fs E D d d' :=
  ⟨[(off, bs)], by simp [recItems, hl], by simp [applyRecs, hi], ⟨hr, trivial⟩⟩

/-- the geometry is all `RecOk` looks at -/
theorem Trace.geom {fs fs' : FsState} {E D : Nat → Prop} {d d' : Dev} (h : Trace fs E D d d') (hg : fs' = fs) :
    Trace fs' E D d d' := hg ▸ h

end FatVerif.FileSim
