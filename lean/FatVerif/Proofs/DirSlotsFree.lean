import FatVerif.Model.DirSlots
import FatVerif.Proofs.LfnSlot
/-! `find_free_entries` on a slot list: what the returned index is (first fit / end marker / the trailing-run quirk),
    and completeness for runs. -/
namespace FatVerif
namespace DirSlots
open Lfn

/-- deleted slots already counted when the scan has not yet passed a used slot -/
def carried (U : List (List Nat)) (nf : Nat) : Nat :=
  match U with
  | [] => nf
  | _ :: _ => 0

@[simp] theorem carried_nil (nf : Nat) : carried [] nf = nf := rfl
@[simp] theorem carried_cons (u : List Nat) (U : List (List Nat)) (nf : Nat) : carried (u :: U) nf = 0 := rfl

/-- the rest of the directory starts with an end marker (or is the end of the stream) -/
def EndsHere (rest : List (List Nat)) : Prop := rest = [] ∨ ∃ r rs, rest = r :: rs ∧ isEnd r = true

/-- **Loop invariant of `find_free_entries`.**  From a state with `nf < num` deleted slots already counted
    (`ff = i - nf` their start), the scan splits the remaining slots into `U` (up to and including the last used slot
    before the answer), `D` (deleted slots) and `rest`; the answer is the start of the counted run; either the run is
    complete, or the end marker was reached first; no earlier window of `num` deleted slots was passed. -/
theorem findFreeLoop_spec (num : Nat) : ∀ (slots : List (List Nat)) (ff nf i : Nat), nf < num →
    (0 < nf → ff + nf = i) →
    ∃ U D rest, slots = U ++ D ++ rest ∧ (∀ s ∈ U ++ D, isEnd s = false) ∧ (∀ s ∈ D, isDeleted s = true) ∧
      (U ≠ [] → ∃ U' u, U = U' ++ [u] ∧ isDeleted u = false) ∧
      findFreeLoop num slots ff nf i = i + U.length - carried U nf ∧
      (carried U nf + D.length = num ∨ (carried U nf + D.length < num ∧ EndsHere rest)) ∧
      (∀ j k, j + k ≤ U.length → (∀ t, t < k → isDeleted (U.getD (j + t) []) = true) →
        (if j = 0 then nf + k else k) < num) := by
  intro slots
  induction slots with
  | nil =>
    intro ff nf i hnf hff
    refine ⟨[], [], [], rfl, by simp, by simp, by simp, ?_, Or.inr ⟨by simpa using hnf, Or.inl rfl⟩, ?_⟩
    · simp only [findFreeLoop, carried_nil, List.length_nil, Nat.add_zero]
      split <;> omega
    · intro j k hjk _
      simp at hjk
      obtain ⟨rfl, rfl⟩ : j = 0 ∧ k = 0 := by omega
      simpa using hnf
  | cons s t ih =>
    intro ff nf i hnf hff
    by_cases hE : isEnd s = true
    · refine ⟨[], [], s :: t, rfl, by simp, by simp, by simp, ?_,
        Or.inr ⟨by simpa using hnf, Or.inr ⟨s, t, rfl, hE⟩⟩, ?_⟩
      · simp only [findFreeLoop, hE, if_true, carried_nil, List.length_nil, Nat.add_zero]
        split <;> omega
      · intro j k hjk _
        simp at hjk
        obtain ⟨rfl, rfl⟩ : j = 0 ∧ k = 0 := by omega
        simpa using hnf
    · have hE' : isEnd s = false := by simpa using hE
      by_cases hD : isDeleted s = true
      · by_cases hfull : nf + 1 = num
        · -- the run is complete with this slot
          refine ⟨[], [s], t, rfl, by simp [hE'], by simp [hD], by simp, ?_, Or.inl (by simpa using hfull), ?_⟩
          · simp only [findFreeLoop, hE', hD, hfull, if_true, Bool.false_eq_true, if_false, carried_nil,
              List.length_nil, Nat.add_zero]
            split <;> omega
          · intro j k hjk _
            simp at hjk
            obtain ⟨rfl, rfl⟩ : j = 0 ∧ k = 0 := by omega
            simpa using hnf
        · obtain ⟨U, D, rest, h1, h2, h3, h4, h5, h6, h7⟩ :=
            ih (if nf = 0 then i else ff) (nf + 1) (i + 1) (by omega) (by intro _; split <;> omega)
          have hloop : findFreeLoop num (s :: t) ff nf i =
              findFreeLoop num t (if nf = 0 then i else ff) (nf + 1) (i + 1) := by
            simp [findFreeLoop, hE', hD, hfull]
          cases U with
          | nil =>
            refine ⟨[], s :: D, rest, by simp [h1], ?_, ?_, by simp, ?_, ?_, ?_⟩
            · intro x hx
              simp only [List.nil_append, List.mem_cons] at hx
              rcases hx with rfl | hx
              · exact hE'
              · exact h2 x (by simpa using hx)
            · intro x hx
              rcases List.mem_cons.1 hx with rfl | hx
              · exact hD
              · exact h3 x hx
            · rw [hloop, h5]; simp
            · simp only [carried_nil, List.length_cons] at h6 ⊢
              rcases h6 with h6 | h6
              · left; omega
              · right; exact ⟨by omega, h6.2⟩
            · intro j k hjk _
              simp at hjk
              obtain ⟨rfl, rfl⟩ : j = 0 ∧ k = 0 := by omega
              simpa using hnf
          | cons u U =>
            refine ⟨s :: u :: U, D, rest, by simp [h1], ?_, h3, ?_, ?_, ?_, ?_⟩
            · intro x hx
              simp only [List.cons_append, List.mem_cons] at hx
              rcases hx with rfl | hx
              · exact hE'
              · exact h2 x (by simpa using hx)
            · intro _
              obtain ⟨U', w, e1, e2⟩ := h4 (by simp)
              exact ⟨s :: U', w, by simp [e1], e2⟩
            · rw [hloop, h5]; simp; omega
            · simpa using h6
            · intro j k hjk hall
              cases j with
              | zero =>
                cases k with
                | zero => simpa using hnf
                | succ k =>
                  have := h7 0 k (by simp at hjk ⊢; omega) (by
                    intro t ht
                    have := hall (t + 1) (by omega)
                    simpa [List.getD_cons_succ] using this)
                  simp at this ⊢; omega
              | succ j =>
                have := h7 j k (by simp at hjk ⊢; omega) (by
                  intro t ht
                  have := hall t ht
                  rw [show j + 1 + t = (j + t) + 1 by omega] at this
                  simpa [List.getD_cons_succ] using this)
                simp only [Nat.succ_ne_zero, if_false]
                split at this <;> omega
      · -- a used slot: counting restarts
        have hD' : isDeleted s = false := by simpa using hD
        obtain ⟨U, D, rest, h1, h2, h3, h4, h5, h6, h7⟩ := ih ff 0 (i + 1) (by omega) (by intro h; omega)
        have hloop : findFreeLoop num (s :: t) ff nf i = findFreeLoop num t ff 0 (i + 1) := by
          simp [findFreeLoop, hE', hD']
        refine ⟨s :: U, D, rest, by simp [h1], ?_, h3, ?_, ?_, ?_, ?_⟩
        · intro x hx
          simp only [List.cons_append, List.mem_cons] at hx
          rcases hx with rfl | hx
          · exact hE'
          · exact h2 x (by simpa using hx)
        · intro _
          cases U with
          | nil => exact ⟨[], s, rfl, hD'⟩
          | cons u U =>
            obtain ⟨U', w, e1, e2⟩ := h4 (by simp)
            exact ⟨s :: U', w, by simp [e1], e2⟩
        · rw [hloop, h5]
          cases U <;> simp <;> omega
        · cases U <;> simpa using h6
        · intro j k hjk hall
          cases j with
          | zero =>
            cases k with
            | zero => simpa using hnf
            | succ k =>
              have := hall 0 (by omega)
              simp [hD'] at this
          | succ j =>
            have := h7 j k (by simp at hjk ⊢; omega) (by
              intro t ht
              have := hall t ht
              rw [show j + 1 + t = (j + t) + 1 by omega] at this
              simpa [List.getD_cons_succ] using this)
            simp only [Nat.succ_ne_zero, if_false]
            split at this <;> omega

/-- a slot index is free: a deleted slot before the first end marker, or anything from the first end marker on
    (the end of the list counts as end marker) -/
def FreeAt (slots : List (List Nat)) (i : Nat) : Prop :=
  (isDeleted (slots.getD i []) = true ∧ ∀ e, e ≤ i → isEnd (slots.getD e []) = false) ∨
  ∃ e, e ≤ i ∧ isEnd (slots.getD e []) = true

/-- top-level reading of the invariant -/
theorem findFree_spec (slots : List (List Nat)) (num : Nat) (hnum : 1 ≤ num) :
    ∃ U D rest, slots = U ++ D ++ rest ∧ (∀ s ∈ U ++ D, isEnd s = false) ∧ (∀ s ∈ D, isDeleted s = true) ∧
      (U ≠ [] → ∃ U' u, U = U' ++ [u] ∧ isDeleted u = false) ∧
      findFree slots num = U.length ∧
      (D.length = num ∨ (D.length < num ∧ EndsHere rest)) ∧
      (∀ j k, j + k ≤ U.length → (∀ t, t < k → isDeleted (U.getD (j + t) []) = true) → k < num) := by
  obtain ⟨U, D, rest, h1, h2, h3, h4, h5, h6, h7⟩ := findFreeLoop_spec num slots 0 0 0 (by omega) (by omega)
  refine ⟨U, D, rest, h1, h2, h3, h4, ?_, ?_, ?_⟩
  · unfold findFree; rw [h5]; cases U <;> simp
  · cases U <;> simpa using h6
  · intro j k hjk hall
    have := h7 j k hjk hall
    split at this <;> omega

theorem findFree_le (slots : List (List Nat)) (num : Nat) (hnum : 1 ≤ num) : findFree slots num ≤ slots.length := by
  obtain ⟨U, D, rest, h1, _, _, _, h5, _, _⟩ := findFree_spec slots num hnum
  rw [h5, h1]; simp

theorem getD_append_left' (A B : List (List Nat)) (i : Nat) (h : i < A.length) :
    (A ++ B).getD i [] = A.getD i [] := by
  simp [List.getD_eq_getElem?_getD, List.getElem?_append_left h]

theorem getD_mem' (A : List (List Nat)) (i : Nat) (h : i < A.length) : A.getD i [] ∈ A := by
  rw [getD_eq_getElem _ _ _ h]; exact List.getElem_mem h

/-- the slots `find_free_entries` hands out are free: deleted slots, or the end region -/
theorem findFree_sound (slots : List (List Nat)) (num : Nat) (hnum : 1 ≤ num) :
    ∀ k, k < num → FreeAt slots (findFree slots num + k) := by
  obtain ⟨U, D, rest, h1, h2, h3, h4, h5, h6, h7⟩ := findFree_spec slots num hnum
  intro k hk
  rw [h5]
  by_cases hin : U.length + k < (U ++ D).length
  · left
    have e1 : slots.getD (U.length + k) [] = (U ++ D).getD (U.length + k) [] := by
      rw [h1]; exact getD_append_left' _ _ _ hin
    refine ⟨?_, ?_⟩
    · rw [e1]
      have : (U ++ D).getD (U.length + k) [] = D.getD k [] := by
        simp [List.getD_eq_getElem?_getD, List.getElem?_append_right (Nat.le_add_right _ _)]
      rw [this]
      exact h3 _ (getD_mem' D k (by simp at hin; omega))
    · intro e he
      have : slots.getD e [] = (U ++ D).getD e [] := by rw [h1]; exact getD_append_left' _ _ _ (by omega)
      rw [this]
      exact h2 _ (getD_mem' _ e (by omega))
  · right
    rcases h6 with h6 | ⟨_, h6⟩
    · simp at hin; omega
    · rcases h6 with rfl | ⟨r, rs, rfl, hr⟩
      · refine ⟨U.length + k, Nat.le_refl _, ?_⟩
        have : slots.length ≤ U.length + k := by rw [h1]; simp at hin ⊢; omega
        simp [List.getD_eq_getElem?_getD, List.getElem?_eq_none this, isEnd, byte]
      · refine ⟨(U ++ D).length, by omega, ?_⟩
        rw [h1]
        simp only [List.getD_eq_getElem?_getD, List.getElem?_append_right (Nat.le_refl _)]
        simpa using hr

/-- **Completeness for runs (C05.4, fixed root).**  If the run `find_free_entries` hands out does not fit into the
    directory's `slots.length` slots, then NO window of `num` consecutive free slots (deleted, or in the end region)
    exists in the directory: a creating call fails for lack of room only when there really is no room. -/
theorem findFree_complete_aux (slots : List (List Nat)) (num : Nat) (hnum : 1 ≤ num)
    (h : findFree slots num + num > slots.length) :
    ¬ ∃ j, j + num ≤ slots.length ∧ ∀ k, k < num → FreeAt slots (j + k) := by
  obtain ⟨U, D, rest, h1, h2, h3, h4, h5, h6, h7⟩ := findFree_spec slots num hnum
  rintro ⟨j, hj, hfree⟩
  rw [h5] at h
  have hUend : ∀ e, e < U.length → isEnd (slots.getD e []) = false := by
    intro e he
    have : slots.getD e [] = U.getD e [] := by
      rw [h1, List.append_assoc]; exact getD_append_left' _ _ _ he
    rw [this]
    exact h2 _ (List.mem_append_left _ (getD_mem' U e he))
  have hdel : ∀ i, i < U.length → FreeAt slots i → isDeleted (U.getD i []) = true := by
    intro i hi hf
    have e1 : slots.getD i [] = U.getD i [] := by
      rw [h1, List.append_assoc]; exact getD_append_left' _ _ _ hi
    rcases hf with ⟨hd, _⟩ | ⟨e, he, hend⟩
    · rwa [e1] at hd
    · rw [hUend e (by omega)] at hend; exact absurd hend (by simp)
  by_cases hjU : j < U.length
  · by_cases hcov : U.length ≤ j + num
    · -- the window contains the last slot of `U`, which is used
      obtain ⟨U', u, e1, e2⟩ := h4 (by intro hU; rw [hU] at hjU; simp at hjU)
      have hlen : U.length = U'.length + 1 := by rw [e1]; simp
      have := hdel (U.length - 1) (by omega) (by
        have := hfree (U.length - 1 - j) (by omega)
        rwa [show j + (U.length - 1 - j) = U.length - 1 by omega] at this)
      rw [e1] at this
      have hu : (U' ++ [u]).getD ((U' ++ [u]).length - 1) [] = u := by
        simp [List.getD_eq_getElem?_getD]
      rw [hu, e2] at this
      exact absurd this (by simp)
    · -- the window lies inside `U`: first fit would have taken it
      have := h7 j num (by omega) (by
        intro t ht
        exact hdel (j + t) (by omega) (hfree t ht))
      omega
  · omega

end DirSlots
end FatVerif
