import FatVerif.Model.SlotTree
import FatVerif.Props.C16dir
/-!
# Slot trees: well-formedness, the hypotheses on a call, and the one-directory correspondence

* `TreeWf up t`: every directory of `t` is `DirOk`: its slot list is `DirWf`, its children hang exactly on the listed
  entries (`Perm`), a child is a directory iff its entry has the directory attribute.
* `cfgOf u` / `upOf u`: the specification's configuration and the model's case folding for the build's upper-casing `u`
  (`Spec.foldName` applies ASCII upper-casing on top of `u`).
* `QAll up t q`: the hypothesis on a path component `q` given by the caller: any entry anywhere in `t` that answers to
  `q` answers by its NAME (not only by its 8.3 alias — the specification tree has no aliases; the run-time oracle
  translates such queries, `Spec.dealias`), and `q` is then an ordinary valid name (not `.`/`..`/empty/invalid).
* `Lock up t p`: along the resolution of the path `p` (a directory handle) no component answers only to an alias.
-/
namespace FatVerif
namespace SlotTree
open Lfn DirSlots DirAlias

/-! ## configuration -/

def validNameS (s : String) : Option Err :=
  match Names.validateLongName s with
  | .ok _ => none
  | .error e => some e

/-- the specification's configuration for a build whose `char_to_uppercase` is `u` -/
def cfgOf (u : Char → List Char) : Spec.TreeCfg := { upper := u, validName := validNameS }

/-- the case folding the specification compares names with (`u`, then ASCII upper-casing) -/
def upOf (u : Char → List Char) : Char → List Char := fun c => (u c).map Char.toUpper

theorem same_eq (u : Char → List Char) (a b : String) : (cfgOf u).same a b = sameName (upOf u) a b := by
  unfold Spec.TreeCfg.same Spec.foldName sameName Names.fold upOf cfgOf
  simp only
  rw [Bool.eq_iff_iff]
  simp only [beq_iff_eq]
  constructor
  · intro h
    have := congrArg String.toList h
    simpa using this
  · intro h; rw [h]

theorem sameName_iff (up : Char → List Char) (a b : String) :
    sameName up a b = true ↔ Names.fold up a.toList = Names.fold up b.toList := by
  unfold sameName; simp

theorem sameName_refl (up : Char → List Char) (a : String) : sameName up a a = true := by
  rw [sameName_iff]

theorem sameName_symm (up : Char → List Char) (a b : String) : sameName up a b = sameName up b a := by
  rw [Bool.eq_iff_iff, sameName_iff, sameName_iff]; exact eq_comm

/-! ## predicates over all directories of a tree -/

mutual
def Node.All (P : List (List Nat) → List (LfnEntry × Node) → Prop) : Node → Prop
  | .file _ => True
  | .dir s ch => P s ch ∧ allCh P ch
def allCh (P : List (List Nat) → List (LfnEntry × Node) → Prop) : List (LfnEntry × Node) → Prop
  | [] => True
  | (_, c) :: r => c.All P ∧ allCh P r
end

theorem allCh_iff (P : List (List Nat) → List (LfnEntry × Node) → Prop) (ch : List (LfnEntry × Node)) :
    allCh P ch ↔ ∀ x ∈ ch, x.2.All P := by
  induction ch with
  | nil => simp [allCh]
  | cons x r ih =>
    obtain ⟨e, c⟩ := x
    simp only [allCh, ih, List.mem_cons, forall_eq_or_imp]

theorem all_dir (P : List (List Nat) → List (LfnEntry × Node) → Prop) (s : List (List Nat))
    (ch : List (LfnEntry × Node)) : (Node.dir s ch).All P ↔ P s ch ∧ ∀ x ∈ ch, x.2.All P := by
  rw [Node.All, allCh_iff]

theorem all_file (P : List (List Nat) → List (LfnEntry × Node) → Prop) (c : List Nat) : (Node.file c).All P := by
  simp [Node.All]

/-- one directory: slot list well-formed, children = listed entries, kinds agree -/
structure DirOk (up : Char → List Char) (slots : List (List Nat)) (ch : List (LfnEntry × Node)) : Prop where
  wf : DirWf up slots
  perm : (ch.map (·.1)).Perm (listing slots)
  kind : ∀ x ∈ ch, Lfn.isDir x.1.sfn = x.2.isDir

def TreeWf (up : Char → List Char) (t : Node) : Prop := t.All (DirOk up)

/-- an entry answering to `q` answers by its name, and `q` is an ordinary valid name -/
def QHit (up : Char → List Char) (q : String) (slots : List (List Nat)) (_ : List (LfnEntry × Node)) : Prop :=
  ∀ e ∈ listing slots, matchesName up e q.toList = true →
    Names.fold up (entryNameL e) = Names.fold up q.toList ∧ Names.validateLongName q = .ok () ∧ isDotName q = false

def QAll (up : Char → List Char) (t : Node) (q : String) : Prop := t.All (QHit up q)

/-- in this directory `q` answers to no alias -/
def NameHitOnly (up : Char → List Char) (slots : List (List Nat)) (q : String) : Prop :=
  ∀ e ∈ listing slots, matchesName up e q.toList = true → Names.fold up (entryNameL e) = Names.fold up q.toList

def Lock (up : Char → List Char) : Node → List String → Prop
  | _, [] => True
  | .file _, _ :: _ => True
  | .dir slots ch, q :: r => NameHitOnly up slots q ∧ ∀ x, lookupS up slots ch q = some x → Lock up x.2 r

/-! ## abstraction -/

theorem absCh_eq_map (ch : List (LfnEntry × Node)) : absCh ch = ch.map fun x => (entryName x.1, abs x.2) := by
  induction ch with
  | nil => rfl
  | cons x r ih => obtain ⟨e, c⟩ := x; simp [absCh, ih]

theorem abs_dir (s : List (List Nat)) (ch : List (LfnEntry × Node)) :
    abs (.dir s ch) = .dir (ch.map fun x => (entryName x.1, abs x.2)) := by
  rw [abs, absCh_eq_map]

theorem abs_isDir (n : Node) : (abs n).isDir = n.isDir := by
  cases n <;> simp [abs, Spec.TNode.isDir, Node.isDir]

/-! ## names -/

theorem allSome_eq_some (l : List (Option Char)) (long : List Char) : allSome l = some long ↔ l = long.map some := by
  induction l generalizing long with
  | nil => cases long <;> simp [allSome]
  | cons a r ih =>
    cases a with
    | none => cases long <;> simp [allSome]
    | some c =>
      cases long with
      | nil => simp [allSome]
      | cons d ds =>
        simp only [allSome, Option.map_eq_some_iff, List.map_cons, List.cons.injEq, Option.some.injEq]
        constructor
        · rintro ⟨x, hx, h1, h2⟩
          exact ⟨h1, by rw [← h2]; exact (ih x).1 hx⟩
        · rintro ⟨h1, h2⟩
          exact ⟨ds, (ih ds).2 h2, h1, rfl⟩

/-- an entry always answers to its own name -/
theorem matches_of_nameHit (up : Char → List Char) (e : LfnEntry) (q : List Char)
    (h : Names.fold up (entryNameL e) = Names.fold up q) : matchesName up e q = true := by
  unfold matchesName
  rw [C15.lookup_iff]
  unfold entryNameL at h
  split at h
  · exact Or.inr h.symm
  · rename_i hne
    split at h
    · rename_i long hl
      exact Or.inl ⟨by simpa using hne, long, (allSome_eq_some _ _).1 hl, h.symm⟩
    · exact Or.inr h.symm

theorem matches_self (up : Char → List Char) (e : LfnEntry) : matchesName up e (entryNameL e) = true :=
  matches_of_nameHit up e _ rfl

theorem matches_congr (up : Char → List Char) (e : LfnEntry) {q q' : List Char}
    (h : Names.fold up q = Names.fold up q') : matchesName up e q = matchesName up e q' :=
  C15.lookup_congr up _ _ h

theorem findEntry_congr (up : Char → List Char) (slots : List (List Nat)) {q q' : List Char}
    (h : Names.fold up q = Names.fold up q') : findEntry up slots q = findEntry up slots q' := by
  unfold findEntry
  congr 1
  funext e
  exact matches_congr up e h

theorem entryName_toList (e : LfnEntry) : (entryName e).toList = entryNameL e := by
  unfold entryName; simp

/-- the name of the entry `write_entry` makes for a valid name is that name -/
theorem entryName_new (name : String) (sfn : List Nat) (b e : Nat) (hv : Names.validateLongName name = .ok ()) :
    entryName ⟨sfn, Names.encodeUtf16 name.toList, b, e⟩ = name := by
  obtain ⟨_, _, h1, _, _, _⟩ := valid_units (cs := name.toList) hv
  unfold entryName entryNameL
  have hne : (Names.encodeUtf16 name.toList).isEmpty = false := by
    cases hx : Names.encodeUtf16 name.toList with
    | nil => rw [hx] at h1; simp at h1
    | cons _ _ => rfl
  simp only [hne, Bool.false_eq_true, if_false]
  rw [Names.decode_encode, (allSome_eq_some _ _).2 rfl]
  simp

theorem find_congr' {α : Type} {p q : α → Bool} : ∀ {l : List α}, (∀ x ∈ l, p x = q x) → l.find? p = l.find? q
  | [], _ => rfl
  | a :: r, h => by
    have ha := h a (by simp)
    have ih := find_congr' (l := r) (fun x hx => h x (by simp [hx]))
    simp only [List.find?_cons, ha, ih]

/-! ## one directory -/

section dir
variable {up : Char → List Char} {slots : List (List Nat)} {ch : List (LfnEntry × Node)}

theorem DirOk.mem_listing (h : DirOk up slots ch) {x : LfnEntry × Node} (hx : x ∈ ch) : x.1 ∈ listing slots :=
  h.perm.mem_iff.1 (List.mem_map.2 ⟨x, hx, rfl⟩)

theorem DirOk.keys_nodup (h : DirOk up slots ch) : (ch.map (·.1)).Nodup :=
  h.perm.nodup_iff.2 (listing_nodup slots h.wf.shape)

/-- the child found by key is THE pair with that key -/
theorem DirOk.find_key (h : DirOk up slots ch) {x : LfnEntry × Node} (hx : x ∈ ch) :
    ch.find? (fun y => y.1 == x.1) = some x := by
  have hn := h.keys_nodup
  clear h
  induction ch with
  | nil => simp at hx
  | cons y r ih =>
    rw [List.map_cons, List.nodup_cons] at hn
    rcases List.mem_cons.1 hx with rfl | hx
    · simp
    · have hne : y.1 ≠ x.1 := fun heq => hn.1 (heq ▸ List.mem_map.2 ⟨x, hx, rfl⟩)
      rw [List.find?_cons_of_neg (by simpa using hne)]
      exact ih hx hn.2

/-- a listed entry has its child -/
theorem DirOk.child_exists (h : DirOk up slots ch) {e : LfnEntry} (he : e ∈ listing slots) :
    ∃ c, (e, c) ∈ ch := by
  obtain ⟨x, hx, rfl⟩ := List.mem_map.1 (h.perm.mem_iff.2 he)
  exact ⟨x.2, hx⟩

/-- within a well-formed directory only the entry itself answers to its name -/
theorem DirOk.name_hits_self (h : DirOk up slots ch) {e e' : LfnEntry} (he : e ∈ listing slots)
    (he' : e' ∈ listing slots) (hm : matchesName up e' (entryNameL e) = true) : e' = e :=
  match_unique up _ h.wf.keys e' he' e he _ hm (matches_self up e)

theorem lookupS_some (h : DirOk up slots ch) {q : String} {x : LfnEntry × Node}
    (hl : lookupS up slots ch q = some x) :
    findEntry up slots q.toList = some x.1 ∧ x ∈ ch ∧ x.1 ∈ listing slots ∧ matchesName up x.1 q.toList = true := by
  unfold lookupS at hl
  cases hf : findEntry up slots q.toList with
  | none => rw [hf] at hl; cases hl
  | some e =>
    rw [hf] at hl
    have hx := List.mem_of_find?_eq_some hl
    have hk : x.1 = e := by simpa using List.find?_some hl
    obtain ⟨L1, L2, h1, h2, _⟩ := (findEntry_some_iff up slots _ e).1 hf
    exact ⟨by rw [hk], hx, h.mem_listing hx, by rw [hk]; exact h2⟩

theorem lookupS_of_find (h : DirOk up slots ch) {q : String} {e : LfnEntry}
    (hf : findEntry up slots q.toList = some e) : ∃ c, lookupS up slots ch q = some (e, c) ∧ (e, c) ∈ ch := by
  obtain ⟨L1, L2, h1, _, _⟩ := (findEntry_some_iff up slots _ e).1 hf
  obtain ⟨c, hc⟩ := h.child_exists (e := e) (by rw [h1]; simp)
  refine ⟨c, ?_, hc⟩
  unfold lookupS
  rw [hf]
  exact h.find_key hc

theorem lookupS_none (h : DirOk up slots ch) {q : String} (hl : lookupS up slots ch q = none) :
    findEntry up slots q.toList = none := by
  cases hf : findEntry up slots q.toList with
  | none => rfl
  | some e =>
    obtain ⟨c, hc, _⟩ := lookupS_of_find h hf
    rw [hc] at hl; cases hl

/-- a child is found under the name of its entry -/
theorem lookupS_self (h : DirOk up slots ch) {x : LfnEntry × Node} (hx : x ∈ ch) :
    lookupS up slots ch (entryName x.1) = some x := by
  have hf : findEntry up slots (entryName x.1).toList = some x.1 := by
    rw [entryName_toList]
    exact findEntry_unique up slots h.wf _ _ (h.mem_listing hx) (matches_self up x.1)
  unfold lookupS
  rw [hf]
  exact h.find_key hx

/-- **the one-directory correspondence**: for a query that answers to no alias in this directory, the specification's
    lookup among the abstracted children is the model's lookup in the slots -/
theorem find_corr (u : Char → List Char) (h : DirOk (upOf u) slots ch) (q : String)
    (hq : NameHitOnly (upOf u) slots q) :
    Spec.findEntry (cfgOf u) (abs (.dir slots ch)) q =
      (lookupS (upOf u) slots ch q).map fun x => (entryName x.1, abs x.2) := by
  unfold Spec.findEntry
  rw [abs_dir]
  simp only [Spec.TNode.children]
  rw [List.find?_map]
  have hpt : ∀ x ∈ ch, ((fun (p : String × Spec.TNode) => (cfgOf u).same p.1 q) ∘
      fun (x : LfnEntry × Node) => (entryName x.1, abs x.2)) x = matchesName (upOf u) x.1 q.toList := by
    intro x hx
    simp only [Function.comp]
    rw [same_eq, Bool.eq_iff_iff, sameName_iff, entryName_toList]
    exact ⟨matches_of_nameHit _ _ _, hq x.1 (h.mem_listing hx)⟩
  have hcongr : ch.find? ((fun (p : String × Spec.TNode) => (cfgOf u).same p.1 q) ∘
      fun (x : LfnEntry × Node) => (entryName x.1, abs x.2)) =
      ch.find? (fun x => matchesName (upOf u) x.1 q.toList) := find_congr' hpt
  have hgoal : ch.find? (fun x => matchesName (upOf u) x.1 q.toList) = lookupS (upOf u) slots ch q := by
    unfold lookupS
    cases hf : findEntry (upOf u) slots q.toList with
    | none =>
      rw [List.find?_eq_none]
      intro x hx
      have := (findEntry_none_iff _ slots _).1 hf x.1 (h.mem_listing hx)
      simp [this]
    | some e =>
      simp only
      apply find_congr'
      intro x hx
      obtain ⟨L1, L2, h1, h2, _⟩ := (findEntry_some_iff _ slots _ e).1 hf
      have he : e ∈ listing slots := by rw [h1]; simp
      rw [Bool.eq_iff_iff]
      constructor
      · intro hm
        have := match_unique _ _ h.wf.keys x.1 (h.mem_listing hx) e he _ hm h2
        simp [this]
      · intro hk
        have : x.1 = e := by simpa using hk
        rw [this]; exact h2
  have hfun : (fun (x : String × Spec.TNode) => match x with | (nm, _) => (cfgOf u).same nm q) =
      (fun (p : String × Spec.TNode) => (cfgOf u).same p.1 q) := by
    funext p; obtain ⟨a, b⟩ := p; rfl
  rw [hfun, hcongr, hgoal]

end dir

end SlotTree
end FatVerif
