import FatVerif.Proofs.NoWriteModel3
/-! C13, part 4: the documented exception — after `stats` recomputed a missing free count the FS-info latch is set,
    and `unmount`/`Drop for FileSystem` then write, but only inside the FS-info sector (stated on the write log). -/
namespace FatVerif

def LogItem.within (lo hi : Nat) : LogItem → Prop
  | .write off bs => lo ≤ off ∧ off + bs.length ≤ hi
  | .flush => True

/-- the log of `d'` extends that of `d`, and every write record added lies inside `[lo, hi)` -/
def LogWithin (lo hi : Nat) (d d' : Dev) : Prop :=
  ∃ items, d'.log = items ++ d.log ∧ ∀ it ∈ items, it.within lo hi

theorem LogWithin.refl (lo hi : Nat) (d : Dev) : LogWithin lo hi d d := ⟨[], rfl, by simp⟩

theorem LogWithin.of_log_eq {lo hi : Nat} {d d' : Dev} (h : d'.log = d.log) : LogWithin lo hi d d' :=
  ⟨[], by simp [h], by simp⟩

theorem LogWithin.trans {lo hi : Nat} {a b c : Dev} (h1 : LogWithin lo hi a b) (h2 : LogWithin lo hi b c) :
    LogWithin lo hi a c := by
  obtain ⟨i1, e1, w1⟩ := h1
  obtain ⟨i2, e2, w2⟩ := h2
  refine ⟨i2 ++ i1, by rw [e2, e1, List.append_assoc], ?_⟩
  intro it hit
  rcases List.mem_append.mp hit with h | h
  · exact w2 it h
  · exact w1 it h

theorem LogItem.within_mono {lo hi lo' hi' : Nat} (hlo : lo' ≤ lo) (hhi : hi ≤ hi') {it : LogItem}
    (h : it.within lo hi) : it.within lo' hi' := by
  cases it with
  | write off bs => exact ⟨Nat.le_trans hlo h.1, Nat.le_trans h.2 hhi⟩
  | flush => trivial

theorem LogWithin.mono {lo hi lo' hi' : Nat} (hlo : lo' ≤ lo) (hhi : hi ≤ hi') {d d' : Dev}
    (h : LogWithin lo hi d d') : LogWithin lo' hi' d d' := by
  obtain ⟨i, e, w⟩ := h
  exact ⟨i, e, fun it hit => LogItem.within_mono hlo hhi (w it hit)⟩

/-- no write record added at all -/
theorem logWithin_of_sameWrites {lo hi : Nat} {d d' : Dev} (hx : LogExtends d d') (hs : SameWrites d d') :
    LogWithin lo hi d d' := by
  obtain ⟨items, hi'⟩ := hx
  refine ⟨items, hi', ?_⟩
  have h2 := hs.2
  simp only [Dev.writesOf, hi', List.filter_append] at h2
  have h3 : items.filter LogItem.isWrite = [] := by
    have := congrArg List.length h2
    simp only [List.length_append] at this
    exact List.eq_nil_of_length_eq_zero (by omega)
  intro it hit
  cases it with
  | flush => trivial
  | write off bs =>
    have : LogItem.write off bs ∈ items.filter LogItem.isWrite := List.mem_filter.mpr ⟨hit, rfl⟩
    rw [h3] at this; cases this

/-! ### one device write, `write_all`, `writeChunks` on the raw device -/

theorem stepOp_write_spec (bs : List Nat) (d : Dev) {r d1} (hr : stepOp (.write bs) d = (r, d1)) :
    d1.fs = d.fs ∧
    ((∃ e, r = .error e ∧ d1.log = d.log) ∨
     (∃ m : Nat, r = .ok m ∧ m ≤ bs.length ∧ d1.log = .write d.pos (bs.take m) :: d.log ∧ d1.pos = d.pos + m)) := by
  have hc : (d.count .w).fs = d.fs ∧ (d.count .w).log = d.log ∧ (d.count .w).pos = d.pos := by
    unfold Dev.count; simp
  simp only [stepOp, devCall, devCallCore] at hr
  split at hr
  · cases hr
    exact ⟨hc.1, Or.inl ⟨_, rfl, hc.2.1⟩⟩
  · cases hr
    refine ⟨hc.1, Or.inr ⟨_, rfl, Nat.min_le_left _ _, ?_, ?_⟩⟩
    · simp only [hc.2.1, hc.2.2]
    · simp only [hc.2.2]

theorem run_devStrm_write (bs : List Nat) (d : Dev) :
    run (devStrm.write () bs) d =
      match stepOp (.write bs) d with
      | (.ok n, d1) => (.ok (n, ()), d1)
      | (.error e, d1) => (.error e, d1) := by
  show run (Prog.bind (Prog.op (.write bs)) (fun n => Prog.pure (n, ()))) d = _
  simp only [run]
  rcases stepOp (.write bs) d with ⟨r, d1⟩
  cases r <;> rfl

/-- `write_all` on the raw device started at position `p`: everything it writes lies in `[p, p + len)` -/
theorem writeAllLoop_dev_within : ∀ (fuel : Nat) (bs : List Nat) (d : Dev) r d',
    run (writeAllLoop devStrm fuel () bs) d = (r, d') →
    d'.fs = d.fs ∧ LogWithin d.pos (d.pos + bs.length) d d' ∧ (∀ v, r = .ok v → d'.pos = d.pos + bs.length) := by
  intro fuel
  induction fuel with
  | zero =>
    intro bs d r d' hr
    unfold writeAllLoop at hr
    simp only [run] at hr; cases hr
    exact ⟨rfl, LogWithin.refl _ _ _, fun v hv => by cases hv⟩
  | succ k ih =>
    intro bs d r d' hr
    unfold writeAllLoop at hr
    split at hr
    · rename_i hemp
      have : run (Prog.pure ()) d = (r, d') := hr
      simp only [run] at this; cases this
      have : bs.length = 0 := by simpa using hemp
      exact ⟨rfl, LogWithin.refl _ _ _, fun v _ => by omega⟩
    · have hr' : run (Prog.bind (devStrm.write () bs) (fun x => match x with
          | (n, s') => if n = 0 then Prog.fail devStrm.wzErr else writeAllLoop devStrm k s' (bs.drop n))) d = (r, d') := hr
      simp only [run, run_devStrm_write] at hr'
      rcases hw : stepOp (.write bs) d with ⟨rw, d1⟩
      rw [hw] at hr'
      have hspec := stepOp_write_spec bs d hw
      rcases hspec with ⟨hfs, ⟨e, he, hlog⟩ | ⟨m, hm, hle, hlog, hpos⟩⟩
      · subst he
        simp only at hr'; cases hr'
        exact ⟨hfs, LogWithin.of_log_eq hlog, fun v hv => by cases hv⟩
      · subst hm
        simp only at hr'
        have hstep : LogWithin d.pos (d.pos + bs.length) d d1 := by
          refine ⟨[.write d.pos (bs.take m)], by simp [hlog], ?_⟩
          intro it hit
          simp only [List.mem_singleton] at hit
          subst hit
          refine ⟨Nat.le_refl _, ?_⟩
          simp only [List.length_take]; omega
        split at hr'
        · simp only [run] at hr'; cases hr'
          exact ⟨hfs, hstep, fun v hv => by cases hv⟩
        · have h2 := ih _ _ _ _ hr'
          refine ⟨h2.1.trans hfs, hstep.trans (h2.2.1.mono ?_ ?_), fun v hv => ?_⟩
          · omega
          · simp only [List.length_drop]; omega
          · have := h2.2.2 v hv
            simp only [List.length_drop] at this; omega

theorem writeAll_dev_within (bs : List Nat) (d : Dev) {r d'} (hr : run (writeAll devStrm () bs) d = (r, d')) :
    d'.fs = d.fs ∧ LogWithin d.pos (d.pos + bs.length) d d' ∧ (∀ v, r = .ok v → d'.pos = d.pos + bs.length) :=
  writeAllLoop_dev_within _ bs d r d' hr

def totalLen (cs : List (List Nat)) : Nat := (cs.map List.length).sum

theorem writeChunks_dev_within : ∀ (cs : List (List Nat)) (d : Dev) r d',
    run (writeChunks devStrm () cs) d = (r, d') →
    d'.fs = d.fs ∧ LogWithin d.pos (d.pos + totalLen cs) d d' := by
  intro cs
  induction cs with
  | nil =>
    intro d r d' hr
    unfold writeChunks at hr
    have : run (Prog.pure ()) d = (r, d') := hr
    simp only [run] at this; cases this
    exact ⟨rfl, LogWithin.refl _ _ _⟩
  | cons c rest ih =>
    intro d r d' hr
    unfold writeChunks at hr
    have hr' : run (Prog.bind (writeAll devStrm () c) (fun s' => writeChunks devStrm s' rest)) d = (r, d') := hr
    simp only [run] at hr'
    rcases hw : run (writeAll devStrm () c) d with ⟨rw, d1⟩
    rw [hw] at hr'
    have h1 := writeAll_dev_within c d hw
    have htl : totalLen (c :: rest) = c.length + totalLen rest := by simp [totalLen]
    cases rw with
    | error e =>
      simp only at hr'; cases hr'
      exact ⟨h1.1, h1.2.1.mono (Nat.le_refl _) (by omega)⟩
    | ok u =>
      simp only at hr'
      have h2 := ih _ _ _ hr'
      have hp := h1.2.2 u rfl
      refine ⟨h2.1.trans h1.1, (h1.2.1.mono (Nat.le_refl _) (by omega)).trans (h2.2.mono ?_ ?_)⟩
      · omega
      · omega

theorem totalLen_chunksOf_le : ∀ (ns : List Nat) (bs : List Nat), totalLen (chunksOf bs ns) ≤ ns.sum := by
  intro ns
  induction ns with
  | nil => intro bs; simp [chunksOf, totalLen]
  | cons n rest ih =>
    intro bs
    have := ih (bs.drop n)
    simp only [chunksOf, totalLen, List.map_cons, List.sum_cons, List.length_take] at this ⊢
    omega


/-! ### `unmount` from a state whose status flags are as at mount -/

/-- byte offset of the FS-info sector -/
def fsInfoLo (fs : FsState) : Nat := fs.fsInfoSector * fs.bps

/-- what `unmount_internal` may do when the status flags are as read at mount: keep them so, keep the geometry, and
    write only inside the 512 bytes of the FS-info sector -/
def UnmountRel (d d' : Dev) : Prop :=
  FlagsClean d.fs →
    FlagsClean d'.fs ∧ d'.fs.fsInfoSector = d.fs.fsInfoSector ∧ d'.fs.bps = d.fs.bps ∧
    LogWithin (fsInfoLo d.fs) (fsInfoLo d.fs + 512) d d'

theorem unmountRel_ok : RelOK UnmountRel where
  refl := fun d h => ⟨h, rfl, rfl, LogWithin.refl _ _ _⟩
  trans := by
    intro a b c h1 h2 ha
    obtain ⟨hb, s1, b1, w1⟩ := h1 ha
    obtain ⟨hc, s2, b2, w2⟩ := h2 hb
    refine ⟨hc, s2.trans s1, b2.trans b1, w1.trans ?_⟩
    have : fsInfoLo b.fs = fsInfoLo a.fs := by simp [fsInfoLo, s1, b1]
    rw [this] at w2; exact w2
  depth := fun d n h => ⟨h, rfl, rfl, LogWithin.of_log_eq rfl⟩

theorem unmountRel_of_ro {α} {p : Prog α} (hp : ∀ fs0, FlagsClean fs0 → RO fs0 p (fun _ => True)) :
    Steps UnmountRel p := by
  refine ⟨fun d r d' hr hfl => ?_⟩
  have h := (hp d.fs hfl).out d r d' rfl hr
  refine ⟨by rw [h.2.1]; exact hfl, by rw [h.2.1], by rw [h.2.1], ?_⟩
  exact logWithin_of_sameWrites (run_logExtends _ _ _ _ hr) h.1

theorem run_getFs_bind {α} (k : FsState → Prog α) (d : Dev) : run (Prog.bind Prog.getFs k) d = run (k d.fs) d := by
  simp only [Prog.getFs, run, stepOp]

theorem run_seekStart_spec (n : Nat) (d : Dev) {r d1} (hr : run (Prog.seekStart n) d = (r, d1)) :
    d1.fs = d.fs ∧ d1.log = d.log ∧ (∀ v, r = .ok v → d1.pos = n) := by
  have hc : (d.count .s).fs = d.fs ∧ (d.count .s).log = d.log := by unfold Dev.count; simp
  simp only [Prog.seekStart, run, stepOp, devCall, devCallCore] at hr
  split at hr
  · cases hr; exact ⟨hc.1, hc.2, fun v hv => by cases hv⟩
  · cases hr; exact ⟨hc.1, hc.2, fun v _ => rfl⟩

theorem run_modifyFs (f : FsState → FsState) (d : Dev) :
    run (Prog.modifyFs f) d = (.ok (), { d with fs := f d.fs }) := by
  simp only [Prog.modifyFs, Prog.getFs, Prog.setFs, bind, run, stepOp]

theorem fsInfoChunks_sum : fsInfoChunks.sum = 512 := by decide

theorem flushFsInfo_steps : Steps UnmountRel flushFsInfo := by
  refine ⟨fun d r d' hr hfl => ?_⟩
  unfold flushFsInfo at hr
  have hr1 : run (Prog.bind Prog.getFs (fun fs =>
      if fs.fatType = .fat32 ∧ fs.fsInfo.dirty then
        Prog.bind (Prog.seekStart (fs.fsInfoSector * fs.bps)) (fun _ =>
          Prog.bind (writeChunks devStrm () (chunksOf (fsInfoBytes fs.fsInfo) fsInfoChunks)) (fun _ =>
            Prog.modifyFs fun fs => { fs with fsInfo := { fs.fsInfo with dirty := false } }))
      else Prog.pure ())) d = (r, d') := hr
  rw [run_getFs_bind] at hr1
  split at hr1
  · simp only [run] at hr1
    rcases hs : run (Prog.seekStart (d.fs.fsInfoSector * d.fs.bps)) d with ⟨rs, d1⟩
    rw [hs] at hr1
    have h1 := run_seekStart_spec _ d hs
    cases rs with
    | error e =>
      simp only at hr1; cases hr1
      exact ⟨by rw [h1.1]; exact hfl, by rw [h1.1], by rw [h1.1], LogWithin.of_log_eq h1.2.1⟩
    | ok u =>
      simp only at hr1
      rcases hw : run (writeChunks devStrm () (chunksOf (fsInfoBytes d.fs.fsInfo) fsInfoChunks)) d1 with ⟨rw', d2⟩
      rw [hw] at hr1
      have h2 := writeChunks_dev_within _ d1 _ _ hw
      have hpos := h1.2.2 u rfl
      have hlen := totalLen_chunksOf_le fsInfoChunks (fsInfoBytes d.fs.fsInfo)
      rw [fsInfoChunks_sum] at hlen
      have hw2 : LogWithin (fsInfoLo d.fs) (fsInfoLo d.fs + 512) d d2 := by
        refine (LogWithin.of_log_eq h1.2.1).trans (h2.2.mono ?_ ?_)
        · simp [fsInfoLo, hpos]
        · simp only [fsInfoLo, hpos]; omega
      cases rw' with
      | error e =>
        simp only at hr1; cases hr1
        exact ⟨by rw [h2.1, h1.1]; exact hfl, by rw [h2.1, h1.1], by rw [h2.1, h1.1], hw2⟩
      | ok u2 =>
        simp only at hr1
        rw [run_modifyFs] at hr1
        cases hr1
        refine ⟨?_, ?_, ?_, hw2.trans (LogWithin.of_log_eq rfl)⟩
        · simp only [FlagsClean, h2.1, h1.1]; exact hfl
        · simp only [h2.1, h1.1]
        · simp only [h2.1, h1.1]
  · have : run (Prog.pure ()) d = (r, d') := hr1
    simp only [run] at this; cases this
    exact ⟨hfl, rfl, rfl, LogWithin.refl _ _ _⟩

theorem unmountInternal_steps : Steps UnmountRel unmountInternal := by
  unfold unmountInternal
  exact Steps.bind unmountRel_ok flushFsInfo_steps
    (fun _ => unmountRel_of_ro (fun fs0 h => setDirtyFlag_false_clean_ro h))

/-- `FileSystem::unmount` with unchanged status flags writes only inside the FS-info sector -/
theorem unmount_steps : Steps UnmountRel unmount := by
  unfold unmount
  exact Steps.finallyDrop unmountRel_ok unmountInternal_steps (fun _ => unmountInternal_steps)

/-- `impl Drop for FileSystem` with unchanged status flags writes only inside the FS-info sector -/
theorem dropFs_steps : Steps UnmountRel dropFs := by
  unfold dropFs Prog.inDrop
  exact Steps.finallyDrop unmountRel_ok (Steps.pure unmountRel_ok _) (fun _ => unmountInternal_steps)

end FatVerif
