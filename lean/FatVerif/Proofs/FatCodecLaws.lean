import FatVerif.Proofs.FatBytes
/-! Raw-level laws of the FAT codec: `getRaw ∘ setRaw`, the frame law (FAT12: the shared byte keeps the neighbour's
    nibble), FAT32 reserved bits, length preservation. -/
namespace FatVerif.Fat

/-! ### `|||` → `+` for disjoint fields -/

theorem pack12_even (c old raw : Nat) (hc : c % 2 = 0) (hr : raw < 4096) :
    pack12 c old raw = old / 4096 * 4096 + raw := by
  unfold pack12
  rw [if_pos hc, Nat.mod_eq_of_lt (by omega : raw < 65536)]
  have := Nat.two_pow_add_eq_or_of_lt (i := 12) (b := raw) (by omega) (old / 4096)
  rw [show (2:Nat)^12 = 4096 from rfl] at this
  rw [Nat.mul_comm (old / 4096) 4096, ← this]

theorem pack12_odd (c old raw : Nat) (hc : ¬ c % 2 = 0) (hr : raw < 4096) :
    pack12 c old raw = old % 16 + raw * 16 := by
  unfold pack12
  rw [if_neg hc, Nat.mod_eq_of_lt (by omega : raw < 65536), Nat.mod_eq_of_lt (by omega : raw * 16 < 65536)]
  have := Nat.two_pow_add_eq_or_of_lt (i := 4) (b := old % 16) (by omega) raw
  rw [show (2:Nat)^4 = 16 from rfl] at this
  rw [Nat.or_comm, Nat.mul_comm raw 16, ← this]; omega

theorem or_top28 (raw old : Nat) (hr : raw < 268435456) :
    raw ||| (old / 268435456 * 268435456) = old / 268435456 * 268435456 + raw := by
  have := Nat.two_pow_add_eq_or_of_lt (i := 28) (b := raw) (by omega) (old / 268435456)
  rw [show (2:Nat)^28 = 268435456 from rfl] at this
  rw [Nat.or_comm, Nat.mul_comm (old / 268435456) 268435456, ← this]

/-! ### FAT16 -/

theorem setRaw16_size {f f' : Array Nat} {c raw : Nat} (h : setRaw16 f c raw = .ok f') : f'.size = f.size := by
  unfold setRaw16 at h
  split at h; · cases h
  split at h; · cases h
  cases h; exact size_wr16 _ _ _

theorem setRaw16_ok_iff (f : Array Nat) (c raw : Nat) :
    (∃ f', setRaw16 f c raw = .ok f') ↔ (c * 2 + 2 ≤ f.size ∧ c * 2 < u32Lim) := by
  unfold setRaw16
  constructor
  · rintro ⟨f', h⟩
    split at h; · cases h
    split at h; · cases h
    omega
  · rintro ⟨a, b⟩
    rw [if_neg (by omega), if_neg (by omega)]; exact ⟨_, rfl⟩

theorem getRaw16_set_same {f f' : Array Nat} {c raw : Nat} (h : setRaw16 f c raw = .ok f') :
    getRaw16 f' c = .ok (raw % 65536) := by
  have hs := setRaw16_size h
  unfold setRaw16 at h
  split at h; · cases h
  split at h; · cases h
  cases h
  unfold getRaw16
  rw [if_neg (by omega), if_neg (by rw [size_wr16]; omega)]
  unfold rd16
  rw [rd_wr16 _ _ _ _ (by omega), rd_wr16 _ _ _ _ (by omega)]
  simp; omega

theorem getRaw16_set_other {f f' : Array Nat} {c c' raw : Nat} (h : setRaw16 f c raw = .ok f') (hne : c' ≠ c) :
    getRaw16 f' c' = getRaw16 f c' := by
  have hs := setRaw16_size h
  unfold setRaw16 at h
  split at h; · cases h
  split at h; · cases h
  cases h
  unfold getRaw16
  rw [size_wr16]
  split; · rfl
  split; · rfl
  unfold rd16
  rw [rd_wr16 _ _ _ _ (by omega), rd_wr16 _ _ _ _ (by omega)]
  rw [if_neg (by omega), if_neg (by omega), if_neg (by omega), if_neg (by omega)]

/-! ### FAT32 -/

theorem setRaw32_size {f f' : Array Nat} {c raw : Nat} (h : setRaw32 f c raw = .ok f') : f'.size = f.size := by
  unfold setRaw32 at h
  split at h; · cases h
  split at h; · cases h
  cases h; exact size_wr32 _ _ _

theorem getRaw32_set_same {f f' : Array Nat} {c raw : Nat} (h : setRaw32 f c raw = .ok f') :
    getRaw32 f' c = .ok (raw % 4294967296) := by
  unfold setRaw32 at h
  split at h; · cases h
  split at h; · cases h
  cases h
  unfold getRaw32
  rw [if_neg (by omega), if_neg (by rw [size_wr32]; omega)]
  unfold rd32
  rw [rd_wr32 _ _ _ _ (by omega), rd_wr32 _ _ _ _ (by omega), rd_wr32 _ _ _ _ (by omega),
    rd_wr32 _ _ _ _ (by omega)]
  simp; omega

theorem getRaw32_set_other {f f' : Array Nat} {c c' raw : Nat} (h : setRaw32 f c raw = .ok f') (hne : c' ≠ c) :
    getRaw32 f' c' = getRaw32 f c' := by
  unfold setRaw32 at h
  split at h; · cases h
  split at h; · cases h
  cases h
  unfold getRaw32
  rw [size_wr32]
  split; · rfl
  split; · rfl
  unfold rd32
  rw [rd_wr32 _ _ _ _ (by omega), rd_wr32 _ _ _ _ (by omega), rd_wr32 _ _ _ _ (by omega),
    rd_wr32 _ _ _ _ (by omega)]
  simp only [if_neg (show ¬ (c' * 4 = c * 4) by omega), if_neg (show ¬ (c' * 4 = c * 4 + 1) by omega),
    if_neg (show ¬ (c' * 4 = c * 4 + 2) by omega), if_neg (show ¬ (c' * 4 = c * 4 + 3) by omega),
    if_neg (show ¬ (c' * 4 + 1 = c * 4) by omega), if_neg (show ¬ (c' * 4 + 1 = c * 4 + 1) by omega),
    if_neg (show ¬ (c' * 4 + 1 = c * 4 + 2) by omega), if_neg (show ¬ (c' * 4 + 1 = c * 4 + 3) by omega),
    if_neg (show ¬ (c' * 4 + 2 = c * 4) by omega), if_neg (show ¬ (c' * 4 + 2 = c * 4 + 1) by omega),
    if_neg (show ¬ (c' * 4 + 2 = c * 4 + 2) by omega), if_neg (show ¬ (c' * 4 + 2 = c * 4 + 3) by omega),
    if_neg (show ¬ (c' * 4 + 3 = c * 4) by omega), if_neg (show ¬ (c' * 4 + 3 = c * 4 + 1) by omega),
    if_neg (show ¬ (c' * 4 + 3 = c * 4 + 2) by omega), if_neg (show ¬ (c' * 4 + 3 = c * 4 + 3) by omega)]

/-! ### FAT12 (parity split + nibble arithmetic) -/

theorem setRaw12_size {f f' : Array Nat} {c raw : Nat} (h : setRaw12 f c raw = .ok f') : f'.size = f.size := by
  unfold setRaw12 at h
  split at h; · cases h
  split at h; · cases h
  cases h; exact size_wr16 _ _ _

theorem getRaw12_set_same {f f' : Array Nat} {c raw : Nat} (hf : WfBytes f) (hr : raw < 4096)
    (h : setRaw12 f c raw = .ok f') : getRaw12 f' c = .ok raw := by
  unfold setRaw12 at h
  split at h; · cases h
  split at h; · cases h
  cases h
  unfold getRaw12
  rw [if_neg (by omega), if_neg (by rw [size_wr16]; omega)]
  have h0 := hf (c + c / 2); have h1 := hf (c + c / 2 + 1)
  congr 1
  unfold val12 rd16
  rw [rd_wr16 _ _ _ _ (by omega), rd_wr16 _ _ _ _ (by omega)]
  simp only [if_true, if_neg (show ¬ (c + c / 2 + 1 = c + c / 2) by omega)]
  by_cases hp : c % 2 = 0
  · rw [pack12_even _ _ _ hp hr, if_pos hp]; omega
  · rw [pack12_odd _ _ _ hp hr, if_neg hp]; omega

theorem getRaw12_set_other {f f' : Array Nat} {c c' raw : Nat} (hf : WfBytes f) (hr : raw < 4096)
    (h : setRaw12 f c raw = .ok f') (hne : c' ≠ c) : getRaw12 f' c' = getRaw12 f c' := by
  unfold setRaw12 at h
  split at h; · cases h
  split at h; · cases h
  cases h
  unfold getRaw12
  rw [size_wr16]
  split; · rfl
  split; · rfl
  congr 1
  unfold val12 rd16
  rw [rd_wr16 _ _ _ _ (by omega), rd_wr16 _ _ _ _ (by omega)]
  generalize ho : c + c / 2 = o at *
  generalize ho' : c' + c' / 2 = o' at *
  have h0 := hf o; have h1 := hf (o + 1)
  have g0 := hf o'; have g1 := hf (o' + 1)
  by_cases hp : c % 2 = 0
  · rw [pack12_even _ _ _ hp hr]
    by_cases hp' : c' % 2 = 0 <;> simp only [hp', if_true, if_false]
    all_goals (repeat' split)
    all_goals first
      | omega
      | (rename_i h; subst h; omega)
      | (rename_i h1 h2; first | (subst h2; omega) | (subst h1; omega))
      | (rename_i h1 h2 h3; first | (subst h3; omega) | (subst h2; omega) | (subst h1; omega))
      | (rename_i h1 h2 h3 h4; first | (subst h4; omega) | (subst h3; omega) | (subst h2; omega) | (subst h1; omega))
  · rw [pack12_odd _ _ _ hp hr]
    by_cases hp' : c' % 2 = 0 <;> simp only [hp', if_true, if_false]
    all_goals (repeat' split)
    all_goals first
      | omega
      | (rename_i h; subst h; omega)
      | (rename_i h1 h2; first | (subst h2; omega) | (subst h1; omega))
      | (rename_i h1 h2 h3; first | (subst h3; omega) | (subst h2; omega) | (subst h1; omega))
      | (rename_i h1 h2 h3 h4; first | (subst h4; omega) | (subst h3; omega) | (subst h2; omega) | (subst h1; omega))


end FatVerif.Fat
