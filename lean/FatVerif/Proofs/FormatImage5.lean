import FatVerif.Proofs.FormatImage4
/-! C06 image part, 5: the write log of a successful `format_volume`, phase by phase. -/
namespace FatVerif
open Format

/-- `L` (newest first) tiles `bs` from offset `p` -/
def TileAt (p : Nat) (bs : List Nat) (L : List LogItem) : Prop := ∃ items, Pieces p bs items ∧ L = items.reverse

theorem TileAt.within {p : Nat} {bs : List Nat} {L : List LogItem} (h : TileAt p bs L) : Within p (p + bs.length) L := by
  obtain ⟨items, hp, rfl⟩ := h; exact Within.of_pieces hp

theorem TileAt.replay {p : Nat} {bs : List Nat} {L : List LogItem} (h : TileAt p bs L) (g : Nat → Nat)
    (rest : List LogItem) (x : Nat) :
    replay g (L ++ rest) x = if p ≤ x ∧ x < p + bs.length then bs.getD (x - p) 0 else replay g rest x := by
  obtain ⟨items, hp, rfl⟩ := h
  rw [replay_append, replay_pieces hp]

theorem Tiled.tileAt {d d' : Dev} {bs : List Nat} (h : Tiled d d' bs) : ∃ L, TileAt d.pos bs L ∧ Seg d d' L := by
  obtain ⟨items, hp, hs⟩ := h.seg
  exact ⟨_, ⟨items, hp, rfl⟩, hs⟩

theorem Tiled.pos {d d' : Dev} {bs : List Nat} (h : Tiled d d' bs) : d'.pos = d.pos + bs.length := by
  obtain ⟨_, _, _, hp⟩ := h; exact hp

theorem Tiled.of_start {d0 d d' : Dev} {bs : List Nat} (h : Tiled d d' bs) (hl : d.log = d0.log) :
    ∃ L, TileAt d.pos bs L ∧ Seg d0 d' L := by
  obtain ⟨L, h1, h2⟩ := h.tileAt
  exact ⟨L, h1, by have := (Seg.of_log_eq hl).trans h2; simpa using this⟩

theorem entryChunks_sum : FileH.entryChunkSizes.sum = 32 := by decide

/-- amount of zero padding `write_zeros_until_end_of_sector` adds at position `pos` -/
def padLen (pos bps : Nat) : Nat := if bps - pos % bps = bps then 0 else bps - pos % bps

/-- seek to `p`, write the chunks of `bs`, pad to the end of the sector: one tile -/
theorem seek_chunks_pad {p : Nat} {bs : List Nat} {ns : List Nat} {bps : Nat} {d d' : Dev} {v : Nat} {d1 d2 : Dev} {u u' : Unit}
    (h1 : run (Prog.seekStart p) d = (.ok v, d1))
    (h2 : run (writeChunks devStrm () (chunksOf bs ns)) d1 = (.ok u, d2))
    (h3 : run (writeZerosUntilEndOfSector bps) d2 = (.ok u', d')) :
    ∃ L, TileAt p (bs.take ns.sum ++ List.replicate (padLen (p + (bs.take ns.sum).length) bps) 0) L ∧ Seg d d' L ∧
      d'.pos = p + (bs.take ns.sum).length + padLen (p + (bs.take ns.sum).length) bps := by
  obtain ⟨hl1, hp1⟩ := run_seekStart_ok p d h1
  have t2 := writeChunks_dev_tiled _ _ _ _ h2
  rw [flatten_chunksOf] at t2
  obtain ⟨d3, hl3, hp3, t3⟩ := writeZerosUntilEndOfSector_tiled bps d2 h3
  have hpos2 : d2.pos = p + (bs.take ns.sum).length := by rw [t2.pos, hp1]
  rw [hpos2] at t3
  have t3' : Tiled d2 d' (List.replicate (padLen (p + (bs.take ns.sum).length) bps) 0) := by
    obtain ⟨items, a, b, c⟩ := t3
    exact ⟨items, by rw [a, hl3], by rw [← hp3]; exact b, by rw [c, hp3]; rfl⟩
  have t := t2.append t3'
  obtain ⟨L, hL, hs⟩ := t.of_start hl1
  rw [hp1] at hL
  refine ⟨L, hL, hs, ?_⟩
  rw [t.pos, hp1, List.length_append, List.length_replicate]; omega

/-- the label phase -/
theorem fmtLabel_trace (o : FormatOpts) (rootPos : Nat) (d d' : Dev) (u : Unit)
    (hr : run (fmtLabel o rootPos) d = (.ok u, d')) :
    d'.pos = 0 ∧ ∃ L, Seg d d' L ∧
      (match o.label with
       | some lbl => TileAt rootPos ((DirFileEntryData.new lbl ATTR_VOLUME_ID).serialize.take 32) L
       | none => L = []) := by
  unfold fmtLabel at hr
  split at hr
  · rename_i lbl hlbl
    rcases run_bind_cases hr with ⟨v, d1, h1, h2⟩ | ⟨e, _, he⟩
    · rcases run_bind_cases h2 with ⟨u2, d2, h3, h4⟩ | ⟨e, _, he⟩
      · rcases run_bind_cases h4 with ⟨v3, d3, h5, h6⟩ | ⟨e, _, he⟩
        · simp only [run] at h6; cases h6
          obtain ⟨hl1, hp1⟩ := run_seekStart_ok _ _ h1
          obtain ⟨hl3, hp3⟩ := run_seekStart_ok _ _ h5
          have t2 := writeChunks_dev_tiled _ _ _ _ h3
          rw [flatten_chunksOf, entryChunks_sum] at t2
          obtain ⟨L, hL, hs⟩ := t2.of_start hl1
          rw [hp1] at hL
          refine ⟨hp3, L, by have := hs.trans (Seg.of_log_eq hl3); simpa using this, ?_⟩
          simp only [hlbl]; exact hL
        · cases he
      · cases he
    · cases he
  · rename_i hlbl
    rcases run_bind_cases hr with ⟨v, d1, h1, h2⟩ | ⟨e, _, he⟩
    · simp only [run] at h2; cases h2
      obtain ⟨hl1, hp1⟩ := run_seekStart_ok _ _ h1
      refine ⟨hp1, [], Seg.of_log_eq hl1, ?_⟩
      simp only [hlbl]
    · cases he

theorem run_seg {α} (p : Prog α) (d : Dev) {r d'} (hr : run p d = (r, d')) : ∃ L, Seg d d' L := by
  obtain ⟨items, h⟩ := run_logExtends _ _ _ _ hr
  refine ⟨items.filter LogItem.isWrite, ?_⟩
  unfold Seg Dev.writesOf; rw [h, List.filter_append]

def labelSpec (o : FormatOpts) (rootPos : Nat) (L : List LogItem) : Prop :=
  match o.label with
  | some lbl => TileAt rootPos ((DirFileEntryData.new lbl ATTR_VOLUME_ID).serialize.take 32) L
  | none => L = []

/-- the FS-info sector `format_volume` writes -/
def fmtInfo (totalClusters rootCluster : Nat) : FsInfoSt :=
  { free := some (totalClusters - 1), next := some (rootCluster + 1), dirty := false }

/-- what the FAT32-only phase appended -/
structure Fat32Part (o : FormatOpts) (b : FBpb) (tc rootPos : Nat) (d d' : Dev)
    (La Lc Li Ll : List LogItem) : Prop where
  seg : Seg d d' (Ll ++ (Li ++ (Lc ++ La)))
  alloc : ∃ s dB, run (Table.allocCluster DiskSlice.strm .fat32 (fatSliceOf (formatFsState b .fat32) false) none none 1) d =
      (.ok (b.rootCluster, s), dB) ∧ Seg d dB La
  clus : TileAt ((b.reserved + b.fats * b.sectorsPerFat + b.rootDirSectors + (b.rootCluster - 2) * b.spc) * b.bps)
      (List.replicate (b.spc * b.bps) 0) Lc
  info : TileAt (b.fsInfoSector * b.bps)
      ((fsInfoBytes (fmtInfo tc b.rootCluster)).take 512 ++
        List.replicate (padLen (b.fsInfoSector * b.bps + ((fsInfoBytes (fmtInfo tc b.rootCluster)).take 512).length) b.bps) 0) Li
  label : labelSpec o rootPos Ll

theorem fmtFat32_trace (o : FormatOpts) (b : FBpb) (ft : FatType) (tc rootPos : Nat) (d d' : Dev) (u : Unit)
    (hr : run (fmtFat32 o b ft tc rootPos) d = (.ok u, d')) :
    d'.pos = 0 ∧
    ((ft = .fat32 ∧ ∃ La Lc Li Ll, Fat32Part o b tc rootPos d d' La Lc Li Ll) ∨
     (ft ≠ .fat32 ∧ ∃ Ll, Seg d d' Ll ∧ labelSpec o rootPos Ll)) := by
  unfold fmtFat32 at hr
  split at hr
  · rename_i h32
    subst h32
    rcases run_bind_cases hr with ⟨⟨rc, s⟩, dB, h1, h2⟩ | ⟨e, _, he⟩
    · dsimp only at h2
      split at h2
      · rcases run_bind_cases h2 with ⟨_, _, h3, _⟩ | ⟨e, h3, he⟩
        · simp only [run] at h3; cases h3
        · cases he
      · rename_i hrc
        have hrc' : rc = b.rootCluster := by simpa using hrc
        subst hrc'
        obtain ⟨La, hLa⟩ := run_seg _ _ h1
        rcases run_bind_cases h2 with ⟨v1, d1, h3, h4⟩ | ⟨e, _, he⟩
        · rcases run_bind_cases h4 with ⟨u2, d2, h5, h6⟩ | ⟨e, _, he⟩
          · rcases run_bind_cases h6 with ⟨v3, d3, h7, h8⟩ | ⟨e, _, he⟩
            · rcases run_bind_cases h8 with ⟨u4, d4, h9, h10⟩ | ⟨e, _, he⟩
              · rcases run_bind_cases h10 with ⟨u5, d5, h11, h12⟩ | ⟨e, _, he⟩
                · obtain ⟨hl1, hp1⟩ := run_seekStart_ok _ _ h3
                  have t2 := writeZeros_dev_tiled _ _ h5
                  obtain ⟨Lc, hLc, hsc⟩ := t2.of_start hl1
                  rw [hp1] at hLc
                  obtain ⟨Li, hLi, hsi, _⟩ := seek_chunks_pad h7 h9 h11
                  obtain ⟨hpos, Ll, hsl, hll⟩ := fmtLabel_trace o rootPos d5 d' u h12
                  rw [fsInfoChunks_sum] at hLi
                  refine ⟨hpos, Or.inl ⟨rfl, La, Lc, Li, Ll, ?_, ⟨s, dB, h1, hLa⟩, hLc, hLi, hll⟩⟩
                  exact ((hLa.trans hsc).trans hsi).trans hsl
                · cases he
              · cases he
            · cases he
          · cases he
        · cases he
    · cases he
  · rename_i h32
    obtain ⟨hpos, Ll, hsl, hll⟩ := fmtLabel_trace o rootPos d d' u hr
    exact ⟨hpos, Or.inr ⟨h32, Ll, hsl, hll⟩⟩

/-- the tail after the FAT and the fixed root region: FAT32 part and label -/
def TailSpec (o : FormatOpts) (b : FBpb) (ft : FatType) (tc rootPos : Nat) (d d' : Dev) (Lt : List LogItem) : Prop :=
  (ft = .fat32 ∧ ∃ La Lc Li Ll, Lt = Ll ++ (Li ++ (Lc ++ La)) ∧ Fat32Part o b tc rootPos d d' La Lc Li Ll) ∨
  (ft ≠ .fat32 ∧ Seg d d' Lt ∧ labelSpec o rootPos Lt)

/-- what the FAT/root phase appended: zeros over all FAT copies, `format_fat`, zeros over the root region, the tail -/
structure FatRootPart (o : FormatOpts) (b : FBpb) (ft : FatType) (d d' : Dev) (Lz Lf Lr Lt : List LogItem) : Prop where
  seg : Seg d d' (Lt ++ (Lr ++ (Lf ++ Lz)))
  fatZero : TileAt (b.reserved * b.bps) (List.replicate (b.fats * b.sectorsPerFat * b.bps) 0) Lz
  fmt : ∃ tc s dA dB dC, b.totalClusters = .ok tc ∧ Seg d dA Lz ∧ ImgRel d dA ∧ dA.img.size = d.img.size ∧
      run (Table.formatFat DiskSlice.strm ft (fatSliceOf (formatFsState b ft) false) b.media
        (b.sectorsPerFat * b.bps) tc) dA = (.ok s, dB) ∧ Seg dA dB Lf ∧
      Seg dB dC Lr ∧ dC.img.size = d.img.size ∧
      TailSpec o b ft tc ((b.reserved + b.fats * b.sectorsPerFat) * b.bps) dC d' Lt
  rootZero : TileAt ((b.reserved + b.fats * b.sectorsPerFat) * b.bps) (List.replicate (b.rootDirSectors * b.bps) 0) Lr

theorem run_liftE_ok {α} (e : Except Err α) (d : Dev) {a : α} {d' : Dev} (hr : run (liftE e) d = (.ok a, d')) :
    e = .ok a ∧ d' = d := by
  cases e with
  | ok v =>
    have : run (Prog.pure v) d = (.ok a, d') := hr
    simp only [run] at this; cases this; exact ⟨rfl, rfl⟩
  | error x =>
    have : run (Prog.fail x) d = (.ok a, d') := hr
    simp only [run] at this; cases this

theorem fmtFatRoot_trace (o : FormatOpts) (b : FBpb) (ft : FatType) (d d' : Dev) (u : Unit)
    (hr : run (fmtFatRoot o b ft) d = (.ok u, d')) :
    d'.pos = 0 ∧ ∃ Lz Lf Lr Lt, FatRootPart o b ft d d' Lz Lf Lr Lt := by
  unfold fmtFatRoot at hr
  rcases run_bind_cases hr with ⟨v1, d1, h1, h2⟩ | ⟨e, _, he⟩
  · rcases run_bind_cases h2 with ⟨u2, d2, h3, h4⟩ | ⟨e, _, he⟩
    · rcases run_bind_cases h4 with ⟨tc, d3, h5, h6⟩ | ⟨e, _, he⟩
      · rcases run_bind_cases h6 with ⟨s, d4, h7, h8⟩ | ⟨e, _, he⟩
        · rcases run_bind_cases h8 with ⟨v5, d5, h9, h10⟩ | ⟨e, _, he⟩
          · rcases run_bind_cases h10 with ⟨u6, d6, h11, h12⟩ | ⟨e, _, he⟩
            · obtain ⟨hl1, hp1⟩ := run_seekStart_ok _ _ h1
              have t2 := writeZeros_dev_tiled _ _ h3
              obtain ⟨Lz, hLz, hsz⟩ := t2.of_start hl1
              rw [hp1] at hLz
              obtain ⟨htc, hd3⟩ := run_liftE_ok _ _ h5
              rw [hd3] at h7
              obtain ⟨Lf, hLf⟩ := run_seg _ _ h7
              obtain ⟨hl5, hp5⟩ := run_seekStart_ok _ _ h9
              have t6 := writeZeros_dev_tiled _ _ h11
              obtain ⟨Lr, hLr, hsr⟩ := t6.of_start hl5
              rw [hp5] at hLr
              have hsize2 : d2.img.size = d.img.size :=
                (run_img_size _ _ _ _ h3).trans (run_img_size _ _ _ _ h1)
              have himg2 : ImgRel d d2 := imgRel_ok.trans _ _ _
                ((steps_of_ops imgRel_ok stepOp_imgRel _).out _ _ _ h1)
                ((steps_of_ops imgRel_ok stepOp_imgRel _).out _ _ _ h3)
              have hsize6 : d6.img.size = d.img.size :=
                (run_img_size _ _ _ _ h11).trans ((run_img_size _ _ _ _ h9).trans ((run_img_size _ _ _ _ h7).trans hsize2))
              obtain ⟨hpos, htail⟩ := fmtFat32_trace o b ft tc _ d6 d' u h12
              rcases htail with ⟨h32, La, Lc, Li, Ll, hp⟩ | ⟨h32, Ll, hsl, hll⟩
              · refine ⟨hpos, Lz, Lf, Lr, Ll ++ (Li ++ (Lc ++ La)), ?_, hLz,
                  ⟨tc, s, d2, d4, d6, htc, hsz, himg2, hsize2, h7, hLf, hsr, hsize6, Or.inl ⟨h32, La, Lc, Li, Ll, rfl, hp⟩⟩, hLr⟩
                exact ((hsz.trans hLf).trans hsr).trans hp.seg
              · refine ⟨hpos, Lz, Lf, Lr, Ll, ?_, hLz,
                  ⟨tc, s, d2, d4, d6, htc, hsz, himg2, hsize2, h7, hLf, hsr, hsize6, Or.inr ⟨h32, hsl, hll⟩⟩, hLr⟩
                exact ((hsz.trans hLf).trans hsr).trans hsl
            · cases he
          · cases he
        · cases he
      · cases he
    · cases he
  · cases he

theorem bootChunks_sum (f : Bool) : (bootChunks f).sum = 512 := by cases f <;> decide

/-- boot sector image followed by the padding up to the end of its sector, written at `p` -/
def bootTile (boot : FBoot) (p : Nat) : List Nat :=
  boot.serialize.take 512 ++ List.replicate (padLen (p + (boot.serialize.take 512).length) boot.bpb.bps) 0

/-- the whole log of a successful `format_volume` -/
structure FormatLog (o : FormatOpts) (boot : FBoot) (ft : FatType) (d d' : Dev)
    (Lb Lk Lz Lf Lr Lt : List LogItem) : Prop where
  seg : Seg d d' (Lt ++ (Lr ++ (Lf ++ (Lz ++ (Lk ++ Lb)))))
  pos : d'.pos = 0
  bootT : TileAt 0 (bootTile boot 0) Lb
  backup : (boot.bpb.isFat32 = true ∧ TileAt (boot.bpb.backupBoot * boot.bpb.bps)
      (bootTile boot (boot.bpb.backupBoot * boot.bpb.bps)) Lk) ∨ (boot.bpb.isFat32 = false ∧ Lk = [])
  rest : ∃ dK, Seg d dK (Lk ++ Lb) ∧ ImgRel d dK ∧ dK.img.size = d.img.size ∧ FatRootPart o boot.bpb ft dK d' Lz Lf Lr Lt

theorem fmtBoot_trace (o : FormatOpts) (boot : FBoot) (ft : FatType) (d d' : Dev) (u : Unit) (hpos : d.pos = 0)
    (hr : run (fmtBoot o boot ft) d = (.ok u, d')) :
    ∃ Lb Lk Lz Lf Lr Lt, FormatLog o boot ft d d' Lb Lk Lz Lf Lr Lt := by
  unfold fmtBoot writeBootSector at hr
  rcases run_bind_cases hr with ⟨u1, d1, h1, h2⟩ | ⟨e, _, he⟩
  · rcases run_bind_cases h1 with ⟨u0, d0, h0, h0'⟩ | ⟨e, _, he⟩
    · have h0'' : run (Prog.pure ()) d0 = (.ok u1, d1) := h0'
      simp only [run] at h0''; cases h0''
      rcases run_bind_cases h2 with ⟨u2, d2, h3, h4⟩ | ⟨e, _, he⟩
      · -- first copy: no seek, the position is 0
        have t0 := writeChunks_dev_tiled _ _ _ _ h0
        rw [flatten_chunksOf, bootChunks_sum] at t0
        obtain ⟨d3, hl3, hp3, t3⟩ := writeZerosUntilEndOfSector_tiled _ _ h3
        have hpos1 : d1.pos = 0 + (boot.serialize.take 512).length := by rw [t0.pos, hpos]
        rw [hpos1] at t3
        have t3' : Tiled d1 d2 (List.replicate (padLen (0 + (boot.serialize.take 512).length) boot.bpb.bps) 0) := by
          obtain ⟨items, a, b, c⟩ := t3
          exact ⟨items, by rw [a, hl3], by rw [← hp3]; exact b, by rw [c, hp3]; rfl⟩
        obtain ⟨Lb, hLb, hsb⟩ := (t0.append t3').tileAt
        rw [hpos] at hLb
        have hsize2 : d2.img.size = d.img.size := (run_img_size _ _ _ _ h3).trans (run_img_size _ _ _ _ h0)
        have stepI : ∀ {α} (p : Prog α) (a : Dev) r b, run p a = (r, b) → ImgRel a b :=
          fun p a r b h => (steps_of_ops imgRel_ok stepOp_imgRel p).out a r b h
        have himg2 : ImgRel d d2 := imgRel_ok.trans _ _ _ (stepI _ _ _ _ h0) (stepI _ _ _ _ h3)
        split at h4
        · rename_i h32
          rcases run_bind_cases h4 with ⟨v5, d5, h5, h6⟩ | ⟨e, _, he⟩
          · rcases run_bind_cases h6 with ⟨u6, d6, h7, h8⟩ | ⟨e, _, he⟩
            · rcases run_bind_cases h7 with ⟨u7, d7, h9, h9'⟩ | ⟨e, _, he⟩
              · have h9'' : run (Prog.pure ()) d7 = (.ok u6, d6) := h9'
                simp only [run] at h9''; cases h9''
                rcases run_bind_cases h8 with ⟨u8, d8, h10, h11⟩ | ⟨e, _, he⟩
                · obtain ⟨Lk, hLk, hsk, _⟩ := seek_chunks_pad h5 h9 h10
                  rw [bootChunks_sum] at hLk
                  have hsize8 : d8.img.size = d.img.size :=
                    (run_img_size _ _ _ _ h10).trans ((run_img_size _ _ _ _ h9).trans ((run_img_size _ _ _ _ h5).trans hsize2))
                  obtain ⟨hp, Lz, Lf, Lr, Lt, hfr⟩ := fmtFatRoot_trace o boot.bpb ft d8 d' u h11
                  have himg8 : ImgRel d d8 := imgRel_ok.trans _ _ _ himg2 (imgRel_ok.trans _ _ _ (stepI _ _ _ _ h5)
                    (imgRel_ok.trans _ _ _ (stepI _ _ _ _ h9) (stepI _ _ _ _ h10)))
                  refine ⟨Lb, Lk, Lz, Lf, Lr, Lt, ?_, hp, hLb, Or.inl ⟨h32, hLk⟩, d8, hsb.trans hsk, himg8, hsize8, hfr⟩
                  have := (hsb.trans hsk).trans hfr.seg
                  simpa [List.append_assoc] using this
                · cases he
              · cases he
            · cases he
          · cases he
        · rename_i h32
          obtain ⟨hp, Lz, Lf, Lr, Lt, hfr⟩ := fmtFatRoot_trace o boot.bpb ft d2 d' u h4
          refine ⟨Lb, [], Lz, Lf, Lr, Lt, ?_, hp, hLb, Or.inr ⟨by simpa using h32, rfl⟩, d2, by simpa using hsb, himg2, hsize2, hfr⟩
          have := hsb.trans hfr.seg
          simpa [List.append_assoc] using this
      · cases he
    · cases he
  · cases he

/-- the sector count `format_volume` computes on device `d` -/
def fmtTotal (o : FormatOpts) (d : Dev) : Nat :=
  match o.totalSectors with
  | some t => t
  | none => d.img.size / o.bps

/-- **the write log of a successful `format_volume`** -/
theorem formatVolume_trace (o : FormatOpts) (d d' : Dev) (hr : run (formatVolume o) d = (.ok (), d')) :
    ∃ boot ft, formatChecked o (fmtTotal o d) = .ok (boot, ft) ∧
      ∃ Lb Lk Lz Lf Lr Lt d0, d0.log = d.log ∧ d0.img.size = d.img.size ∧ ImgRel d d0 ∧
        FormatLog o boot ft d0 d' Lb Lk Lz Lf Lr Lt := by
  rw [formatVolume_eq] at hr
  unfold fmtProg at hr
  rcases run_bind_cases hr with ⟨pos, d1, h1, h2⟩ | ⟨e, _, he⟩
  · obtain ⟨hl1, hp1, hv1⟩ := run_seekCur0_ok d h1
    split at h2
    · simp only [run] at h2; cases h2
    · rename_i hpos
      have hpos0 : d.pos = 0 := by rw [← hv1]; simpa using hpos
      rcases run_bind_cases h2 with ⟨total, d2, h3, h4⟩ | ⟨e, _, he⟩
      · have hd2 : d2.log = d.log ∧ d2.pos = 0 ∧ d2.img.size = d.img.size ∧ total = fmtTotal o d := by
          unfold fmtTotalProg at h3
          unfold fmtTotal
          split at h3
          · rename_i t ht
            simp only [run] at h3; cases h3
            exact ⟨hl1, by rw [hp1]; exact hpos0, run_img_size _ _ _ _ h1, by rw [ht]⟩
          · rename_i ht
            rcases run_bind_cases h3 with ⟨bytes, d3, h5, h6⟩ | ⟨e, _, he⟩
            · rcases run_bind_cases h6 with ⟨v4, d4, h7, h8⟩ | ⟨e, _, he⟩
              · obtain ⟨hl3, hb⟩ := run_seekEnd0_ok _ h5
                obtain ⟨hl4, hp4⟩ := run_seekStart_ok _ _ h7
                split at h8
                · simp only [run] at h8; cases h8
                · simp only [run] at h8; cases h8
                  refine ⟨by rw [hl4, hl3, hl1], hp4, ?_, ?_⟩
                  · exact (run_img_size _ _ _ _ h7).trans ((run_img_size _ _ _ _ h5).trans (run_img_size _ _ _ _ h1))
                  · rw [hb, run_img_size _ _ _ _ h1, ht]
              · cases he
            · cases he
        obtain ⟨hl2, hp2, hs2, htot⟩ := hd2
        subst htot
        rcases run_bind_cases h4 with ⟨⟨boot, ft⟩, d3, h5, h6⟩ | ⟨e, _, he⟩
        · obtain ⟨hfc, hd3⟩ := run_liftE_ok _ _ h5
          subst hd3
          obtain ⟨Lb, Lk, Lz, Lf, Lr, Lt, hlog⟩ := fmtBoot_trace o boot ft d3 d' () hp2 h6
          have himg : ImgRel d d3 := imgRel_ok.trans _ _ _
            ((steps_of_ops imgRel_ok stepOp_imgRel _).out _ _ _ h1)
            ((steps_of_ops imgRel_ok stepOp_imgRel _).out _ _ _ h3)
          exact ⟨boot, ft, hfc, Lb, Lk, Lz, Lf, Lr, Lt, d3, hl2, hs2, himg, hlog⟩
        · cases he
      · cases he
  · cases he

end FatVerif
