import FatVerif.Proofs.FatImgZero4
import FatVerif.Props.C10slice
import FatVerif.Proofs.FormatImage2
import FatVerif.Proofs.FormatImage12
/-! The write records of a successful `FileSystem::alloc_cluster(prev, zero)`: a sequence of mirrored FAT writes (the
    first one preceded by the status record when the volume was not yet marked dirty), then — `zero = true` — the records
    tiling the new cluster with zeros. Backward inversion of the run; no fault hypothesis. -/
namespace FatVerif.FileSim
open FatVerif FatVerif.Fat

theorem fatSliceOf_offset0 (fs : FsState) : (fatSliceOf fs).offset = 0 := by unfold fatSliceOf; split <;> rfl

theorem getFs_inv {d : Dev} {fs : FsState} {d0 : Dev} (h : run Prog.getFs d = (.ok fs, d0)) : fs = d.fs ∧ d0 = d := by
  simp only [Prog.getFs, run, stepOp] at h
  cases h; exact ⟨rfl, rfl⟩

/-- along a sequence of mirrored writes the write records only grow -/
theorem mirroredSeq_extends {s0 : DiskSlice} {d d' : Dev} (h : MirroredSeq s0 d d') :
    ∃ l, d'.writesOf = l ++ d.writesOf := by
  induction h with
  | refl d => exact ⟨[], rfl⟩
  | quiet hq _ ih => obtain ⟨l, hl⟩ := ih; exact ⟨l, by rw [hl, hq.1]⟩
  | @write a b c hw _ ih =>
    obtain ⟨l, hl⟩ := ih
    obtain ⟨rel, data, k, _, _, _, _, hlog⟩ := hw
    exact ⟨l ++ (mirrorLog (s0.beginOff + rel) s0.size data k 1 ++
      (.write (s0.beginOff + rel) data :: statusExtra s0.viaFs a.fs)), by rw [hl, hlog]; simp⟩

theorem fsAfter_of_dirty (via : Bool) {fs : FsState} (h : fs.curDirty = true) : fsAfter via fs = fs := by
  unfold fsAfter; rw [if_neg (by rw [h]; simp)]

theorem statusExtra_of_dirty (via : Bool) {fs : FsState} (h : fs.curDirty = true) : statusExtra via fs = [] := by
  unfold statusExtra; rw [if_neg (by rw [h]; simp)]

/-- on a volume already marked dirty a sequence of mirrored writes leaves the mounted state alone, puts out no status
    record, and every record it appends starts inside the copies of the slice -/
theorem mirroredSeq_of_dirty {s0 : DiskSlice} {d d' : Dev} (h : MirroredSeq s0 d d') (hc : d.fs.curDirty = true) :
    d'.fs = d.fs ∧ ∃ l, d'.writesOf = l ++ d.writesOf ∧ ∀ off b, LogItem.write off b ∈ l → s0.beginOff ≤ off := by
  induction h with
  | refl d => exact ⟨rfl, [], rfl, fun _ _ h => by cases h⟩
  | quiet hq _ ih =>
    obtain ⟨h1, l, h2, h3⟩ := ih (by rw [hq.2]; exact hc)
    exact ⟨by rw [h1, hq.2], l, by rw [h2, hq.1], h3⟩
  | @write a b c hw _ ih =>
    obtain ⟨rel, data, k, _, _, _, hfs, hlog⟩ := hw
    rw [fsAfter_of_dirty _ hc] at hfs
    rw [statusExtra_of_dirty _ hc] at hlog
    obtain ⟨h1, l, h2, h3⟩ := ih (by rw [hfs]; exact hc)
    refine ⟨by rw [h1, hfs], l ++ (mirrorLog (s0.beginOff + rel) s0.size data k 1 ++ [.write (s0.beginOff + rel) data]),
      by rw [h2, hlog]; simp, ?_⟩
    intro off bs hm
    rcases List.mem_append.mp hm with hm | hm
    · exact h3 off bs hm
    · rcases List.mem_append.mp hm with hm | hm
      · obtain ⟨j, _, hj⟩ := (mem_mirrorLog k 1 _).mp hm
        cases hj
        omega
      · simp only [List.mem_singleton] at hm
        cases hm
        omega

/-- along a sequence of mirrored writes through `FsIoAdapter` that takes a volume from "not marked dirty" to "marked
    dirty", the FIRST new write record is the status record; every later one starts inside the copies of the slice -/
theorem mirroredSeq_status_first {s0 : DiskSlice} {d d' : Dev} (h : MirroredSeq s0 d d') (hv : s0.viaFs = true)
    (hc : d.fs.curDirty = false) (hd : d'.fs.curDirty = true) :
    ∃ l, d'.writesOf = l ++ statusWrite d.fs true :: d.writesOf ∧
      ∀ off b, LogItem.write off b ∈ l → s0.beginOff ≤ off := by
  induction h with
  | refl d => rw [hc] at hd; cases hd
  | quiet hq _ ih =>
    obtain ⟨l, hl, hr⟩ := ih (by rw [hq.2]; exact hc) hd
    exact ⟨l, by rw [hl, hq.1, hq.2], hr⟩
  | @write a b c hw hrest _ =>
    obtain ⟨rel, data, k, _, _, _, hfs, hlog⟩ := hw
    have hbd : b.fs.curDirty = true := by rw [hfs, hv]; exact fsAfter_dirty _
    obtain ⟨_, l, hl, hr⟩ := mirroredSeq_of_dirty hrest hbd
    have hse : statusExtra s0.viaFs a.fs = [statusWrite a.fs true] := by
      unfold statusExtra; rw [if_pos ⟨hv, hc⟩]
    refine ⟨l ++ (mirrorLog (s0.beginOff + rel) s0.size data k 1 ++ [.write (s0.beginOff + rel) data]),
      by rw [hl, hlog, hse]; simp, ?_⟩
    intro off bs hm
    rcases List.mem_append.mp hm with hm | hm
    · exact hr off bs hm
    · rcases List.mem_append.mp hm with hm | hm
      · obtain ⟨j, _, hj⟩ := (mem_mirrorLog k 1 _).mp hm
        cases hj
        omega
      · simp only [List.mem_singleton] at hm
        cases hm
        omega

/-- **the write records of a successful `alloc_cluster(prev, zero)`**: up to an intermediate device `d1` a sequence of
    mirrored FAT writes (`MirroredSeq`: each one `data` at the same relative offset of every FAT copy, copy 0 first; the
    first one preceded by the status record if the volume was not marked dirty); after `d1` — only with `zero = true` —
    records tiling `[clusterOff c, clusterOff c + cluster_size)` with zeros (`Pieces`), nothing else. -/
theorem allocClusterFs_log (prev : Option Nat) (zero : Bool) (d : Dev)
    (hmir : 0 < (fatSliceOf d.fs).mirrors)
    (hdev : (fatSliceOf d.fs).beginOff + (fatSliceOf d.fs).mirrors * (fatSliceOf d.fs).size ≤ d.img.size)
    {c : Nat} {d' : Dev} (hr : run (allocClusterFs prev zero) d = (.ok c, d')) :
    ∃ d1, MirroredSeq (fatSliceOf d.fs) d d1 ∧ d'.fs.curDirty = d1.fs.curDirty ∧
      (zero = false → d'.log = d1.log) ∧
      (zero = true → ∃ items, d'.log = items.reverse ++ d1.log ∧
        Pieces (clusterOff d.fs c) (List.replicate d.fs.clusterSize 0) items) := by
  unfold allocClusterFs at hr
  rcases run_bind_cases hr with ⟨fs, d0, h0, h1⟩ | ⟨e, _, he⟩
  rotate_left
  · cases he
  obtain ⟨rfl, rfl⟩ := getFs_inv h0
  rcases run_bind_cases h1 with ⟨⟨c0, sl⟩, d1, h2, h3⟩ | ⟨e, _, he⟩
  rotate_left
  · cases he
  have hms := (((fat_ops_mirrored hmir hdev d0.fs.fatType
    (SliceInv.self (s := fatSliceOf d0.fs) (by rw [fatSliceOf_offset0]; exact Nat.zero_le _))).1
      prev d0.fs.fsInfo.next d0.fs.totalClusters).out d0 _ d1 rfl h2).1
  dsimp only at h3
  have tail : ∀ d2 : Dev, run (do
      let fs ← Prog.getFs
      match fs.fsInfo.free with
        | some 0 => Prog.fail Err.panic
        | _ => do
          Prog.setFs { fs with fsInfo := ({ fs.fsInfo with
            next := some (if c0 + 1 < fs.totalClusters + 2 then c0 + 1 else 2), dirty := true }).mapFree (· - 1) }
          (pure c0 : Prog Nat)) d2 = (.ok c, d') → d'.log = d2.log ∧ d'.fs.curDirty = d2.fs.curDirty ∧ c = c0 := by
    intro d2 h
    rcases run_bind_cases h with ⟨fs2, d3, h6, h7⟩ | ⟨e, _, he⟩
    rotate_left
    · cases he
    obtain ⟨rfl, rfl⟩ := getFs_inv h6
    dsimp only at h7
    split at h7
    · simp only [run] at h7; cases h7
    · rcases run_bind_cases h7 with ⟨u, d4, h8, h9⟩ | ⟨e, _, he⟩
      · simp only [Prog.setFs, run, stepOp] at h8
        cases h8
        have h9' : run (Prog.pure c0) _ = (.ok c, d') := h9
        simp only [run] at h9'; cases h9'
        exact ⟨rfl, rfl, rfl⟩
      · cases he
  cases zero with
  | false =>
    rw [if_neg (show ¬ (false = true) by decide)] at h3
    obtain ⟨t1, t2, _⟩ := tail d1 h3
    exact ⟨d1, hms, t2, fun _ => t1, fun h => (by cases h)⟩
  | true =>
    rw [if_pos rfl] at h3
    rcases run_bind_cases h3 with ⟨off, da, ha, h4⟩ | ⟨e, _, he⟩
    rotate_left
    · cases he
    have hoff : off = clusterOff d0.fs c0 ∧ da = d1 := by
      unfold offsetFromClusterP at ha
      split at ha
      · simp only [run] at ha; cases ha
      · split at ha
        · simp only [run] at ha; cases ha
        · split at ha
          · simp only [run] at ha; cases ha
          · have ha' : run (Prog.pure _) d1 = (.ok off, da) := ha
            simp only [run] at ha'; cases ha'; exact ⟨rfl, rfl⟩
    obtain ⟨rfl, rfl⟩ := hoff
    rcases run_bind_cases h4 with ⟨v, db, hb, h5⟩ | ⟨e, _, he⟩
    rotate_left
    · cases he
    have sb := run_seekStart_spec _ _ hb
    rcases run_bind_cases h5 with ⟨u, dc, hc, h6⟩ | ⟨e, _, he⟩
    rotate_left
    · cases he
    obtain ⟨items, hl, hp, _⟩ := writeZeros_dev_tiled _ db hc
    have hfsc := (writeZerosLoop_dev_within _ _ db _ dc hc).1
    obtain ⟨t1, t2, rfl⟩ := tail dc h6
    refine ⟨da, hms, (by rw [t2, hfsc, sb.1]), (fun h => by cases h), fun _ => ⟨items, by rw [t1, hl, sb.2.1], ?_⟩⟩
    rw [sb.2.2 v rfl] at hp
    exact hp

/-- **the status byte after `alloc_cluster`.** If the volume was not marked dirty, the status byte of the image after a
    successful `alloc_cluster(prev, zero)` is the dirty encoding `statusByte fs true`: the status record is the first
    record of the run and no later record (FAT copies, data cluster) covers it. -/
theorem allocClusterFs_status_byte (prev : Option Nat) (zero : Bool) (d : Dev) (hwf : d.img.WF)
    (hg : Geo d.fs d.img.size) (hcl : d.fs.curDirty = false)
    {c : Nat} {d' : Dev} (hr : run (allocClusterFs prev zero) d = (.ok c, d'))
    (hd : d'.fs.curDirty = true) :
    d'.img.getByte (statusOff d.fs) = statusByte d.fs true := by
  have hmul : (fatSliceOf d.fs).size ≤ (fatSliceOf d.fs).mirrors * (fatSliceOf d.fs).size :=
    Nat.le_mul_of_pos_left _ hg.mirrors_pos
  have hdev : (fatSliceOf d.fs).beginOff + (fatSliceOf d.fs).mirrors * (fatSliceOf d.fs).size ≤ d.img.size := by
    have h1 := hg.fat_data
    have h2 := hg.data_dev
    have h3 : d.fs.firstDataSector * d.fs.bps ≤ clusterOff d.fs (d.fs.totalClusters + 2) := by
      unfold clusterOff; exact Nat.mul_le_mul_right _ (Nat.le_add_right _ _)
    omega
  obtain ⟨d1, hms, hcd, hz0, hz1⟩ := allocClusterFs_log prev zero d hg.mirrors_pos hdev hr
  obtain ⟨l, hl, hlr⟩ := mirroredSeq_status_first hms (fatSliceOf_viaFs _) hcl (by rw [← hcd]; exact hd)
  have hso : statusOff d.fs < 0x42 := by unfold statusOff; split <;> decide
  have hst := hg.status_lt
  -- the records after `d1`
  have hZ : ∃ Z, Seg d1 d' Z ∧ ∀ off b, LogItem.write off b ∈ Z → 0x42 ≤ off := by
    cases zero with
    | false => exact ⟨[], Seg.of_log_eq (hz0 rfl), fun _ _ h => by cases h⟩
    | true =>
      obtain ⟨items, hlog, hp⟩ := hz1 rfl
      refine ⟨items.reverse, ?_, ?_⟩
      · unfold Seg Dev.writesOf
        rw [hlog, List.filter_append]
        congr 1
        apply List.filter_eq_self.mpr
        intro it hit
        exact hp.all_write it (List.mem_reverse.mp hit)
      · intro off b hm
        have := (hp.within off b (List.mem_reverse.mp hm)).1
        have h1 := hg.fat_data
        have h3 : d.fs.firstDataSector * d.fs.bps ≤ clusterOff d.fs c := by
          unfold clusterOff; exact Nat.mul_le_mul_right _ (Nat.le_add_right _ _)
        omega
  obtain ⟨Z, hZs, hZr⟩ := hZ
  have hseg : Seg d d' ((Z ++ l) ++ [statusWrite d.fs true]) := by
    unfold Seg at *
    rw [hZs, hl]; simp
  obtain ⟨_, hb⟩ := img_after_seg hr hwf hseg
  rw [hb, replay_skip]
  · show applyRec _ (LogItem.write (statusOff d.fs) [statusByte d.fs true]) _ % 256 = _
    unfold applyRec
    simp only [List.length_singleton]
    rw [if_pos ⟨Nat.le_refl _, by omega⟩]
    simp only [Nat.sub_self, List.getD_cons_zero]
    unfold statusByte
    exact Nat.mod_mod _ _
  · intro off b hm
    rcases List.mem_append.mp hm with hm | hm
    · have := hZr off b hm; omega
    · have := hlr off b hm; omega

end FatVerif.FileSim
