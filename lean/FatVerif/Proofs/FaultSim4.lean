import FatVerif.Proofs.FaultSim3
/-! Faults and forward evaluation, part 4: the fixed root directory satisfies `FaultOK`; `create_file` and
    `rename_internal` through writable directories propagate a storage error. -/
namespace FatVerif.DirSim
open FatVerif.FileSim DirEntryData DirAlias

/-- sequencing `FaultOutcome` after a prefix whose outcome is known on this device only -/
theorem faultOutcome_bind_at {α β} {p : Prog β} {k : β → Prog α} {d : Dev}
    (hp : ∀ r1 d1, run p d = (r1, d1) → FaultOutcome (resErr r1) d1)
    {r d'} (hr : run (p >>= k) d = (r, d'))
    (hk : ∀ b d1, run p d = (.ok b, d1) → d1.fault = none → ∀ r d', run (k b) d1 = (r, d') → FaultOutcome (resErr r) d') :
    FaultOutcome (resErr r) d' := by
  have hr' : run (Prog.bind p k) d = (r, d') := hr
  simp only [run] at hr'
  rcases hq : run p d with ⟨rp, d1⟩
  rw [hq] at hr'
  cases rp with
  | error e => simp only at hr'; cases hr'; exact hp _ _ hq
  | ok b =>
    simp only at hr'
    rcases hp _ _ hq with h1 | ⟨h1, f0, h2, h3⟩
    · exact hk b d1 hq h1 _ _ hr'
    · have hs := (run_facts (k b) d1 hr').spent h1
      right
      refine ⟨hs.1, f0, by rw [hs.2, h2], fun hf => ?_⟩
      have := h3 hf
      simp [resErr] at this

/-! ### the fixed root -/

section root
variable {fs0 : FsState} {s : DiskSlice} {N : Nat}

/-- a slot write hit by the fault leaves the fixed root writable: size, well-formedness and geometry survive every run -/
theorem root_faultKeeps (P : DirStream → Prop) : FaultKeeps (RootInv fs0 s N) P := by
  intro d1 d2 st e r _ _ hf hinv hw hf2 _
  have hfa : d2.failAt = none := by
    rcases run_any _ d1 hf hw with h | ⟨h, _⟩
    · exact absurd h hf2
    · exact h
  exact ⟨hfa, by rw [run_img_size _ _ _ _ hw]; exact hinv.inside, run_wf _ _ _ _ hw hinv.wf,
    (show FsGeomEq fs0 d1.fs from hinv.geom).trans (Geo.fsGeomEq (writeSlot_geo st e) (d := d1) hw), hinv.fuel⟩

theorem root_seekG (hN : s.size = 32 * N) : SeekG (RootInv fs0 s N) (fun o => .root (sliceAt s o)) N :=
  fun d h o t ho ht => (root_wops (fs0 := fs0) hN).seekStartF d h d (SameVol.refl d) o t ho ht

end root

theorem faultOK_ofRoot (s : DiskSlice) (N : Nat) (hN : s.size = 32 * N) (hv : s.viaFs = true) (hm : s.mirrors = 1)
    (hB : 0x42 ≤ s.beginOff) (d : Dev) (hfa : d.failAt = none) (hdev : s.beginOff + s.size ≤ d.img.size)
    (hwf : d.img.WF) (hfuel : N < dirFuel d.fs) : FaultOK (WView.ofRoot s N hN hv hm hB d hfa hdev hwf hfuel) :=
  ⟨root_faultKeeps _, root_seekG hN⟩

theorem FaultOK.step {d0 : Dev} {st : DirStream} {V : WView d0 st} (h : FaultOK V) {d1 : Dev} (hi : V.Inv d1) :
    FaultOK (V.step hi) :=
  ⟨h.keeps, h.seekG⟩

namespace WView
variable {d : Dev} {st : DirStream}

/-- **`create_file(name)` through a writable directory propagates a storage error** (single-component path): the
    fault may hit any device call of the operation. `hfit`: if the name is free, its entry fits into the allocated
    slots. -/
theorem createFile_fo (V : WView d.disarm st) (hd : d.fault = none) (hOK : FaultOK V) (env : Env) (path name : String)
    (hsp : Names.splitPath path = (name, none)) (ha : d.fs.lfnAlloc = true)
    (hfit : ∀ a, DirAlias.checkForExistenceL env.upper (V.slots d.img) name (some false) 70000 = .ok (.alias a) →
      DirSlots.findFree (V.slots d.img) (Lfn.numParts (Names.encodeUtf16 name.toList).length + 1) +
        (Lfn.numParts (Names.encodeUtf16 name.toList).length + 1) ≤ V.N) (fuel : Nat)
    {r d'} (hr : run (FatVerif.createFile env (fuel + 1) st path) d = (r, d')) : FaultOutcome (resErr r) d' := by
  unfold FatVerif.createFile at hr
  refine faultOutcome_bind' (ioSafe_propagates IoSafe.progGetFs) hd hr (fun fs d0 h0 _ r1 d1' hr1 => ?_)
  have hd0 : d0 = d := by
    have := run_getFs d
    rw [this] at h0
    exact (congrArg Prod.snd h0).symm
  rw [hd0] at hr1
  clear hr
  rw [hsp] at hr1
  simp only at hr1
  by_cases hdot : (name = "." || name = "..") = true
  · rw [if_pos hdot] at hr1
    exact ioSafe_propagates (IoSafe.fail _) d hd _ _ hr1
  · have hdot' : (name = "." || name = "..") = false := by simpa using hdot
    rw [if_neg hdot] at hr1
    refine faultOutcome_bind' (ioSafe_propagates (checkForExistence_ioSafe _ _ _ _)) hd hr1 (fun rr d1 h1 hf1 r2 d2' hr2 => ?_)
    have hdis := run_disarm _ d h1 hd hf1
    have hce := (V.ops.dsrc d.disarm V.here).checkForExistence_sim (V.ops.fuel d.disarm V.here) ha env name (some false)
      d.disarm (SameVol.refl _)
    rw [congrArg (fun s => run (checkForExistence env s name (some false)) d.disarm) V.start] at hdis
    cases hc : DirAlias.checkForExistenceL env.upper (srcSlots d.disarm.img V.src V.N) name (some false) 70000 with
    | error e =>
      rw [hc] at hce
      obtain ⟨_, h2, _⟩ := hce
      rw [hdis] at h2; cases h2
    | ok x =>
      rw [hc] at hce
      obtain ⟨d1g, h2, hs2⟩ := hce
      rw [hdis] at h2
      cases h2
      have hinv1 : V.Inv d1.disarm := V.io.vol _ _ V.here hs2 (by have := run_clock _ _ _ _ h1; exact this)
      cases x with
      | entry le =>
        simp only [liftEOA] at hr2
        exact ioSafe_propagates (DirEntry.toFile_ioSafe _ _) d1 hf1 _ _ hr2
      | alias a =>
        simp only [liftEOA] at hr2
        obtain ⟨hcan, hl11, _⟩ := C16dir.dir_alias_canon env.upper _ name (some false) 70000 a hc
        rw [run_bind_ok (run_createSfnEntry a 0 none d1)] at hr2
        have hrawwf := sfnAt_wf d1.fs d1.clock a 0 none hl11 (canon_lt hcan) (by omega)
        refine faultOutcome_bind_at (fun r3 d3 h => ?_) hr2 (fun e d3 _ hf3 r4 d4 hr4 => ?_)
        · refine (V.step hinv1).writeEntry_fo hf1 (hOK.step hinv1) name _ hdot' hrawwf ?_ h
          have : (V.step hinv1).slots d1.img = V.slots d.img := by
            show srcSlots d1.img V.src V.N = srcSlots d.img V.src V.N
            have := hs2.img
            simp only [Dev.disarm_img] at this
            rw [this]
          rw [this]
          exact hfit a hc
        · exact ioSafe_propagates (DirEntry.toFile_ioSafe _ _) d3 hf3 _ _ hr4

/-- **`rename_internal` propagates a storage error** when the source directory is readable (`V1`) and the destination
    writable (`V2`, possibly the same directory): `hclimb` — a directory to be moved comes with the climb from the
    destination to the root; `hfit` — if the destination name is free, the new entry fits -/
theorem renameInternal_fo {st1 st2 : DirStream} (V1 : DirView d.disarm st1) (V2 : WView d.disarm st2)
    (hd : d.fault = none) (hOK : FaultOK V2) (env : Env) (srcName dstName : String) (ha : d.fs.lfnAlloc = true)
    (hclimb : ∀ e, V1.lookup env srcName none = .ok e → e.isDir = true →
      ∃ n, Climbs d.disarm env (e.firstCluster d.fs) st2 0 n ∧ n < d.fs.totalClusters + 3)
    (hfit : ∀ a, DirAlias.checkForExistenceL env.upper (V2.slots d.img) dstName none 70000 = .ok (.alias a) →
      DirSlots.findFree (V2.slots d.img) (Lfn.numParts (Names.encodeUtf16 dstName.toList).length + 1) +
        (Lfn.numParts (Names.encodeUtf16 dstName.toList).length + 1) ≤ V2.N)
    {r d'} (hr : run (renameInternal env st1 srcName st2 dstName) d = (r, d')) : FaultOutcome (resErr r) d' := by
  unfold renameInternal at hr
  by_cases hdots : (srcName = "." || srcName = ".." || dstName = "." || dstName = "..") = true
  · rw [if_pos hdots] at hr
    exact ioSafe_propagates (IoSafe.fail _) d hd _ _ hr
  rw [if_neg hdots] at hr
  have hdotd : (dstName = "." || dstName = "..") = false := by
    have : (srcName = "." || srcName = ".." || dstName = "." || dstName = "..") = false := by simpa using hdots
    simp only [Bool.or_eq_false_iff] at this ⊢
    exact ⟨this.1.2, this.2⟩
  refine faultOutcome_bind' (ioSafe_propagates IoSafe.progGetFs) hd hr (fun fs d0 h0 _ r1 d1' hr1 => ?_)
  have hd0 : d0 = d ∧ fs = d.fs := by
    have := run_getFs d
    rw [this] at h0
    exact ⟨(congrArg Prod.snd h0).symm, by injection (congrArg Prod.fst h0) with h; exact h.symm⟩
  rw [hd0.1, hd0.2] at hr1
  clear hr
  -- find_entry in the source
  refine faultOutcome_bind' (ioSafe_propagates (findEntry_ioSafe _ _ _ _)) hd hr1 (fun e d1 h1 hf1 r2 d2' hr2 => ?_)
  have hdis1 := run_disarm _ d h1 hd hf1
  have hfe := V1.findEntry_sim env srcName none d.disarm (SameVol.refl _)
  cases hlk : V1.lookup env srcName none with
  | error err =>
    rw [hlk] at hfe
    obtain ⟨_, h2, _⟩ := hfe
    rw [hdis1] at h2; cases h2
  | ok e' =>
    rw [hlk] at hfe
    obtain ⟨d1g, h2, hs1⟩ := hfe
    rw [hdis1] at h2
    cases h2
    have hc1 : d1.clock = d.clock := run_clock _ _ _ _ h1
    -- validate
    refine faultOutcome_bind' (ioSafe_propagates (liftE_ioSafe _)) hf1 hr2 (fun _ d1b h1b hf1b r3 d3' hr3 => ?_)
    have hd1b : d1b = d1 := by
      cases hv : Names.validateLongName dstName with
      | ok u => rw [hv] at h1b; exact (congrArg Prod.snd h1b).symm
      | error err => rw [hv] at h1b; cases h1b
    rw [hd1b] at hr3
    clear hr2
    -- the rest after the ancestor walk
    have key : ∀ d2, d2.fault = none → SameVol d.disarm d2.disarm → d2.clock = d.clock → ∀ r d',
        run (do
          let r ← checkForExistence env st2 dstName none
          match r with
          | .entry dstE => if id e'.entryPos = dstE.entryPos then pure () else .fail .alreadyExists
          | .short sn => do
            let newEntry ← FatVerif.writeEntry st2 dstName (e'.data.renamed sn)
            deleteEntry st1 (id e')
            if newEntry.isDir then do
              let parentCluster := if st2.isRootDir then none else st2.firstCluster
              let moved ← newEntry.toDir d.fs
              let dotdot ← thenDrop moved (findEntry env moved ".." (some true))
              let ed := dotdot.editor.setFirstCluster parentCluster d.fs.fatType
              if ed.dirty then do
                let _ ← Prog.seekStart ed.pos
                let _ ← writeChunks devStrm () (chunksOf ed.data.serialize FileH.entryChunkSizes)
                pure ()
              else pure ()
            else pure ()) d2 = (r, d') → FaultOutcome (resErr r) d' := by
      intro d2 hf2 hs2 hc2 r d' hr
      have hinv2 : V2.Inv d2.disarm := V2.io.vol _ _ V2.here hs2 hc2
      refine faultOutcome_bind' (ioSafe_propagates (checkForExistence_ioSafe _ _ _ _)) hf2 hr (fun rr d3 h3 hf3 r4 d4' hr4 => ?_)
      have hdis3 := run_disarm _ d2 h3 hf2 hf3
      have hce := (V2.ops.dsrc d.disarm V2.here).checkForExistence_sim (V2.ops.fuel d.disarm V2.here) ha env dstName none
        d2.disarm hs2
      rw [congrArg (fun s => run (checkForExistence env s dstName none) d2.disarm) V2.start] at hdis3
      cases hc : DirAlias.checkForExistenceL env.upper (srcSlots d.disarm.img V2.src V2.N) dstName none 70000 with
      | error err =>
        rw [hc] at hce
        obtain ⟨_, h4, _⟩ := hce
        rw [hdis3] at h4; cases h4
      | ok x =>
        rw [hc] at hce
        obtain ⟨d3g, h4, hs3⟩ := hce
        rw [hdis3] at h4
        cases h4
        have hs03 : SameVol d.disarm d3.disarm := hs2.trans hs3
        have hinv3 : V2.Inv d3.disarm := V2.io.vol _ _ V2.here hs03 (by
          have := run_clock _ _ _ _ h3
          show d3.clock = d.clock
          rw [this]; exact hc2)
        cases x with
        | entry le =>
          simp only [liftEOA] at hr4
          refine ioSafe_propagates ?_ d3 hf3 _ _ hr4
          iosafe
        | alias a =>
          simp only [liftEOA] at hr4
          obtain ⟨hcan, hl11, _⟩ := C16dir.dir_alias_canon env.upper _ dstName none 70000 a hc
          obtain ⟨le, hle, hE, _, _⟩ := V1.lookup_ok env srcName none hlk
          have hsfn : le.sfn.length = 32 ∧ ∀ b ∈ le.sfn, b < 256 := by
            have hm := readLoop_sfn_mem d.disarm.fs.lfnAlloc true _ _ _ _ le hle
            simp only [srcSlots, List.mem_map] at hm
            obtain ⟨j, _, hj⟩ := hm
            rw [← hj]
            exact ⟨Img.read_length _ _ _, Img.read_lt _ _ _⟩
          have hdwf : e'.data.WF := by rw [hE]; exact deserializeFile_wf le.sfn hsfn.1 hsfn.2
          have hrawwf : (e'.data.renamed a).WF := hdwf.renamed a hl11 (canon_lt hcan)
          refine faultOutcome_bind_at (fun r5 d5 h => ?_) hr4 (fun ne d5 _ hf5 r6 d6 hr6 => ?_)
          · refine (V2.step hinv3).writeEntry_fo hf3 (hOK.step hinv3) dstName _ hdotd hrawwf ?_ h
            have : (V2.step hinv3).slots d3.img = V2.slots d.img := by
              show srcSlots d3.img V2.src V2.N = srcSlots d.img V2.src V2.N
              have := hs03.img
              simp only [Dev.disarm_img] at this
              rw [this]
            rw [this]
            exact hfit a hc
          · refine ioSafe_propagates ?_ d5 hf5 _ _ hr6
            iosafe [deleteEntry_ioSafe, DirEntry.toDir_ioSafe, thenDrop_ioSafe, findEntry_ioSafe, writeChunks_ioSafe,
              devStrm_safe]
    -- the ancestor walk (directories only)
    by_cases hisd : e'.isDir = true
    · simp only [id, hisd, if_true] at hr3
      refine faultOutcome_bind' (ioSafe_propagates (ancestorWalkTop_ioSafe _ _ _)) hf1 hr3 (fun _ d2 h2w hf2 r4 d4' hr4 => ?_)
      obtain ⟨n, hcl, hn⟩ := hclimb e' hlk hisd
      obtain ⟨d2g, h2g, hs2g⟩ := ancestorWalkTop_sim hcl hn d1.disarm hs1
      rw [run_disarm _ d1 h2w hf1 hf2] at h2g
      cases h2g
      exact key d2 hf2 (hs1.trans hs2g) ((run_clock _ _ _ _ h2w).trans hc1) _ _ hr4
    · have hisd' : e'.isDir = false := by simpa using hisd
      simp only [id, hisd', Bool.false_eq_true, if_false] at hr3
      exact key d1 hf1 hs1 hc1 _ _ hr3

end WView

end FatVerif.DirSim
