import FatVerif.Proofs.DirWriteSim9
/-! Directory WRITES, part 10 (generic): `deleteEntry` and `write_entry` on a write family with its stream operations
    (`WOps`): the slots of the image afterwards are `DirSlots.deleteRange` / `DirSlots.writeEntry` of those before. -/
namespace FatVerif.DirSim
open FatVerif.FileSim DirEntryData

/-- bytes behind the status byte, outside the slots of the directory and outside `Extra` are kept -/
def FrameOutE (N : Nat) (src : Nat → Nat) (Extra : Nat → Prop) (d d' : Dev) : Prop :=
  ∀ q, 0x42 ≤ q → (∀ i, i < N → ¬ (src (32 * i) ≤ q ∧ q < src (32 * i) + 32)) → ¬ Extra q →
    d'.img.getByte q = d.img.getByte q

theorem FrameOutE.trans {N : Nat} {src : Nat → Nat} {Extra : Nat → Prop} {a b c : Dev} (h1 : FrameOutE N src Extra a b)
    (h2 : FrameOutE N src Extra b c) : FrameOutE N src Extra a c :=
  fun q hq hn he => (h2 q hq hn he).trans (h1 q hq hn he)

theorem FrameOutG.toE {N : Nat} {src : Nat → Nat} {Extra : Nat → Prop} {a b : Dev} (h : FrameOutG N src a b) :
    FrameOutE N src Extra a b := fun q hq hn _ => h q hq hn

theorem FrameOutE.toG {N : Nat} {src : Nat → Nat} {a b : Dev} (h : FrameOutE N src (fun _ => False) a b) :
    FrameOutG N src a b := fun q hq hn => h q hq hn (fun h => h)

theorem srcSlots_congr {N : Nat} {src : Nat → Nat} {img img' : Img}
    (h : ∀ i, i < N → ∀ x, x < 32 → img'.getByte (src (32 * i) + x) = img.getByte (src (32 * i) + x)) :
    srcSlots img' src N = srcSlots img src N := by
  unfold srcSlots
  apply List.map_congr_left
  intro i hi
  unfold Img.read
  apply List.map_congr_left
  intro x hx
  exact h i (List.mem_range.mp hi) x (List.mem_range.mp hx)

/-- the remaining stream operations of a directory written through `F` / `G`; `Extra` = the bytes the destructor of a
    clone may write besides (the directory's own entry in its parent; nothing for the roots) -/
structure WOps (Inv : Dev → Prop) (F G : Nat → DirStream) (N : Nat) (src room : Nat → Nat) (Extra : Nat → Prop)
    (DropPost : Img → Img → Prop) : Prop where
  dsrc : ∀ d, Inv d → DirSrc d F N src room
  fuel : ∀ d, Inv d → N < dirFuel d.fs
  seekStartF : ∀ d, Inv d → ∀ d0, SameVol d d0 → ∀ o t, o ≤ 32 * N → t ≤ 32 * N →
    ∃ d1, run ((F o).seek (.start t)) d0 = (.ok (t, F t), d1) ∧ SameVol d0 d1
  seekCurF : ∀ d, Inv d → ∀ o, o ≤ 32 * N → ∃ d1, run ((F o).seek (.cur 0)) d = (.ok (o, F o), d1) ∧ SameVol d d1
  seekCurG : ∀ d, Inv d → ∀ o, o ≤ 32 * N → ∃ d1, run ((G o).seek (.cur 0)) d = (.ok (o, G o), d1) ∧ SameVol d d1
  absPosG : ∀ d, Inv d → ∀ fs', FsGeomEq fs' d.fs → ∀ o, o % 32 = 0 → 0 < o → o ≤ 32 * N →
    ∃ d1, run ((G o).absPos fs') d = (.ok (some (src (o - 32) + 32)), d1) ∧ SameVol d d1
  dropG : ∀ d, Inv d → ∀ o, o ≤ 32 * N → ∃ d1, run (G o).dropBody d = (.ok (), d1) ∧ VolStep d d1 ∧ Inv d1 ∧
    (d.fs.curDirty = true → d1.fs.curDirty = true) ∧
    (∀ q, 0x42 ≤ q → ¬ Extra q → d1.img.getByte q = d.img.getByte q) ∧ DropPost d.img d1.img
  extra_out : ∀ i, i < N → ∀ x, x < 32 → ¬ Extra (src (32 * i) + x)

/-- scope exit when body and destructor both succeed -/
theorem run_finallyDrop_ok {α} {p : Prog α} {c : Option α → Prog Unit} {d d1 d2 : Dev} {a : α}
    (h : run p d = (.ok a, d1)) (hc : run (c (some a)) { d1 with dropDepth := d1.dropDepth + 1 } = (.ok (), d2)) :
    run (Prog.finallyDrop p c) d = (.ok a, { d2 with dropDepth := d2.dropDepth - 1 }) := by
  simp only [run, h, hc]

theorem sameVol_depth (d : Dev) (n : Nat) : SameVol d { d with dropDepth := n } := ⟨rfl, rfl, rfl, rfl⟩

section generic
variable {Inv : Dev → Prop} {F G : Nat → DirStream} {N : Nat} {src room : Nat → Nat} {Extra : Nat → Prop}
  {DropPost : Img → Img → Prop}

/-- the image before the destructor of the clone ran: the frame holds of it exactly, and the destructor did `DropPost` -/
def MidImg (N : Nat) (src : Nat → Nat) (DropPost : Img → Img → Prop) (d d' : Dev) : Prop :=
  ∃ im : Img, (∀ q, 0x42 ≤ q → (∀ i, i < N → ¬ (src (32 * i) ≤ q ∧ q < src (32 * i) + 32)) → im.getByte q = d.img.getByte q) ∧
    DropPost im d'.img

/-- **`deleteEntry`, generic**: for an entry occupying the slots `[b, b + k)`, `k > 0` -/
theorem WFam.deleteEntry (IO : InvOK Inv) (hg : SlotGeo N src) (W : WFam Inv F G N src room)
    (WG : WFam Inv G G N src room) (O : WOps Inv F G N src room Extra DropPost) (e : DirEntry) (b k : Nat) (hk : 0 < k)
    (hb : e.rangeBegin = 32 * b) (he : e.rangeEnd = 32 * (b + k)) (hle : b + k ≤ N) (d : Dev) (hinv : Inv d) :
    ∃ d', run (FatVerif.deleteEntry (F 0) e) d = (.ok (), d') ∧
      VolStep d d' ∧ d'.fs.curDirty = true ∧ Inv d' ∧
      srcSlots d'.img src N = DirSlots.deleteRange (srcSlots d.img src N) b (b + k) ∧ FrameOutE N src Extra d d' ∧
      MidImg N src DropPost d d' := by
  obtain ⟨d0, h0, hs0⟩ := O.seekStartF d hinv d (SameVol.refl d) 0 (32 * b) (Nat.zero_le _) (by omega)
  have hinv0 := IO.vol d d0 hinv hs0 (run_clock _ _ _ _ h0)
  obtain ⟨d1, h1, hs1, hd1, hinv1, hsl1, hfr1⟩ := W.deleteSlots IO hg WG k b hk d0 hinv0 hle
  -- the destructor of the clone
  have hinv1' : Inv { d1 with dropDepth := d1.dropDepth + 1 } := IO.vol _ _ hinv1 (sameVol_depth d1 _) rfl
  obtain ⟨d2, h2, hs2, hinv2, hk2, hb2, hdp2⟩ := O.dropG _ hinv1' (32 * (b + k)) (by omega)
  have hs12 : VolStep d1 { d2 with dropDepth := d2.dropDepth - 1 } :=
    ((VolStep.of_sameVol (sameVol_depth d1 _)).trans hs2).trans (VolStep.of_sameVol (sameVol_depth d2 _))
  have hkk : (e.rangeEnd - e.rangeBegin) / 32 = k := by rw [hb, he]; omega
  have hslots2 : srcSlots d2.img src N = srcSlots d1.img src N :=
    srcSlots_congr (fun i hi x hx => hb2 _ (by have := hg.behind i hi; omega) (O.extra_out i hi x hx))
  refine ⟨{ d2 with dropDepth := d2.dropDepth - 1 }, ?_,
    ((VolStep.of_sameVol hs0).trans hs1).trans hs12, hk2 hd1,
    IO.vol _ _ hinv2 (sameVol_depth d2 _) rfl, ?_, ?_,
    ⟨d1.img, fun q hq hn => by rw [hfr1 q hq hn, hs0.img], hdp2⟩⟩
  · unfold FatVerif.deleteEntry withStream
    have hbody : run (do
        let (_, st) ← (F 0).seek (.start e.rangeBegin)
        let st ← FatVerif.deleteSlots ((e.rangeEnd - e.rangeBegin) / 32) st
        pure ((), st)) d = (.ok ((), G (32 * (b + k))), d1) := by
      rw [hkk, hb, run_bind_ok h0]
      simp only
      rw [run_bind_ok h1]
      rfl
    rw [run_bind_ok (run_finallyDrop_ok hbody h2)]
    rfl
  · show srcSlots d2.img src N = _
    rw [hslots2, hsl1, hs0.img, delK_eq_deleteRange _ _ _ (by rw [srcSlots_length]; exact hle)]
  · intro q hq hn he
    show d2.img.getByte q = _
    rw [hb2 q hq he, hfr1 q hq hn, hs0.img]


/-- **`write_entry`, generic**, for an ordinary name whose slots fit into the allocated space of the directory -/
theorem WFam.writeEntry (IO : InvOK Inv) (hg : SlotGeo N src) (W : WFam Inv F G N src room)
    (WG : WFam Inv G G N src room) (O : WOps Inv F G N src room Extra DropPost) (name : String) (raw : DirFileEntryData)
    (hval : Names.validateLongName name = .ok ()) (hdot : (name = "." || name = "..") = false) (hraw : raw.WF)
    (d : Dev) (hinv : Inv d)
    (hfit : DirSlots.findFree (srcSlots d.img src N) (Lfn.numParts (Names.encodeUtf16 name.toList).length + 1) +
      (Lfn.numParts (Names.encodeUtf16 name.toList).length + 1) ≤ N) :
    ∃ d', run (FatVerif.writeEntry (F 0) name raw) d =
        (.ok { data := raw, lfn := Names.encodeUtf16 name.toList,
               entryPos := src (32 * (DirSlots.findFree (srcSlots d.img src N)
                  (Lfn.numParts (Names.encodeUtf16 name.toList).length + 1) +
                  (Lfn.numParts (Names.encodeUtf16 name.toList).length + 1)) - 32) + 32 - 32,
               rangeBegin := 32 * DirSlots.findFree (srcSlots d.img src N)
                  (Lfn.numParts (Names.encodeUtf16 name.toList).length + 1),
               rangeEnd := 32 * (DirSlots.findFree (srcSlots d.img src N)
                  (Lfn.numParts (Names.encodeUtf16 name.toList).length + 1) +
                  (Lfn.numParts (Names.encodeUtf16 name.toList).length + 1)) }, d') ∧
      VolStep d d' ∧ d'.fs.curDirty = true ∧ Inv d' ∧
      srcSlots d'.img src N = DirSlots.writeEntry (srcSlots d.img src N) (Names.encodeUtf16 name.toList) raw.serialize ∧
      FrameOutE N src Extra d d' ∧ MidImg N src DropPost d d' := by
  generalize hunits : Names.encodeUtf16 name.toList = units at hfit ⊢
  generalize hnum : Lfn.numParts units.length + 1 = num at hfit ⊢
  generalize hp : DirSlots.findFree (srcSlots d.img src N) num = p at hfit ⊢
  have hchk := lfnChecksum_lt raw.name
  have hslen : (lfnGenerate units (lfnChecksum raw.name)).length + 1 = num := by rw [lfnGenerate_length, hnum]
  have hseek : ∀ d1, SameVol d d1 → ∀ o t, o ≤ 32 * N → t ≤ 32 * N → Reads ((F o).seek (.start t)) d1 (t, F t) :=
    fun d1 hv o t ho ht => O.seekStartF d hinv d1 hv o t ho ht
  -- 1. find_free_entries
  obtain ⟨d1, h1, hs1⟩ := (O.dsrc d hinv).findFreeEntries_sim hseek (O.fuel d hinv) num d (SameVol.refl d)
  rw [hp] at h1
  have hinv1 := IO.vol d d1 hinv hs1 (run_clock _ _ _ _ h1)
  -- 2. position
  obtain ⟨d2, h2, hs2⟩ := O.seekCurF d1 hinv1 (32 * p) (by omega)
  have hinv2 := IO.vol d1 d2 hinv1 hs2 (run_clock _ _ _ _ h2)
  -- 3. the records
  have hes : ∀ e ∈ (lfnGenerate units (lfnChecksum raw.name)).map deserialize ++ [DirEntryData.file raw],
      e.serialize.length = 32 ∧ ∀ b ∈ e.serialize, b < 256 := by
    intro e he
    rcases List.mem_append.mp he with he | he
    · obtain ⟨sl, hsl, rfl⟩ := List.mem_map.mp he
      obtain ⟨h32, hlt, hrt⟩ := lfnGenerate_slot units _ hchk sl hsl
      rw [hrt]; exact ⟨h32, hlt⟩
    · simp only [List.mem_singleton] at he
      subst he
      exact ⟨DirFileEntryData.serialize_length raw hraw.name_len, DirFileEntryData.serialize_lt raw hraw⟩
  have heslen : ((lfnGenerate units (lfnChecksum raw.name)).map deserialize ++ [DirEntryData.file raw]).length = num := by
    rw [List.length_append, List.length_map, List.length_singleton]; exact hslen
  obtain ⟨d3, h3, hs3, hd3, hinv3, hsl3, hfr3⟩ := W.writeSlotsKeep IO hg WG _ (by simp) p d2 hinv2 hes
    (by rw [heslen]; exact hfit)
  rw [heslen] at h3
  have hmap : ((lfnGenerate units (lfnChecksum raw.name)).map deserialize ++ [DirEntryData.file raw]).map
      DirEntryData.serialize = DirSlots.entrySlots units raw.serialize := by
    have hm1 : (lfnGenerate units (lfnChecksum raw.name)).map (DirEntryData.serialize ∘ deserialize) =
        lfnGenerate units (lfnChecksum raw.name) :=
      (List.map_congr_left (f := DirEntryData.serialize ∘ deserialize) (g := id)
        (fun sl hsl => (lfnGenerate_slot units _ hchk sl hsl).2.2)).trans (List.map_id _)
    unfold DirSlots.entrySlots
    rw [List.map_append, List.map_map, sfnName_serialize raw hraw.name_len, hm1]
    rfl
  -- 4. the end position, 5. the destructor
  have hv12 := hs1.trans hs2
  have hstep13 : VolStep d d3 := (VolStep.of_sameVol hv12).trans hs3
  obtain ⟨d4, h4, hs4⟩ := O.seekCurG d3 hinv3 (32 * (p + num)) (by omega)
  have hinv4 := IO.vol d3 d4 hinv3 hs4 (run_clock _ _ _ _ h4)
  have hgeo4 : FsGeomEq d.fs d4.fs := by rw [hs4.fs]; exact hstep13.geom
  obtain ⟨d5, h5, hs5⟩ := O.absPosG d4 hinv4 d.fs hgeo4 (32 * (p + num)) (by omega) (by omega) (by omega)
  have hinv5 := IO.vol d4 d5 hinv4 hs5 (run_clock _ _ _ _ h5)
  have hinv5' : Inv { d5 with dropDepth := d5.dropDepth + 1 } := IO.vol _ _ hinv5 (sameVol_depth d5 _) rfl
  obtain ⟨d6, h6, hs6, hinv6, hk6, hb6, hdp6⟩ := O.dropG _ hinv5' (32 * (p + num)) (by omega)
  have hv35 : SameVol d3 d5 := hs4.trans hs5
  have hs36 : VolStep d3 { d6 with dropDepth := d6.dropDepth - 1 } :=
    (((VolStep.of_sameVol hv35).trans (VolStep.of_sameVol (sameVol_depth d5 _))).trans hs6).trans
      (VolStep.of_sameVol (sameVol_depth d6 _))
  have hslots6 : srcSlots d6.img src N = srcSlots d3.img src N := by
    rw [← hv35.img]
    exact srcSlots_congr (fun i hi x hx => hb6 _ (by have := hg.behind i hi; omega) (O.extra_out i hi x hx))
  refine ⟨{ d6 with dropDepth := d6.dropDepth - 1 }, ?_, hstep13.trans hs36,
    hk6 (by show d5.fs.curDirty = true; rw [hv35.fs]; exact hd3),
    IO.vol _ _ hinv6 (sameVol_depth d6 _) rfl, ?_, ?_,
    ⟨d5.img, fun q hq hn => by rw [hv35.img, hfr3 q hq hn, hv12.img], hdp6⟩⟩
  · unfold FatVerif.writeEntry
    rw [hval]
    simp only [hunits, hdot, Bool.false_eq_true, if_false]
    rw [run_bind_ok (run_getFs d)]
    simp only [hslen]
    rw [run_bind_ok h1, run_bind_finallyDrop_noop h2 (fun _ => rfl)]
    simp only
    rw [run_bind_ok h3]
    simp only [thenDrop]
    refine run_finallyDrop_ok ?_ h6
    rw [run_bind_ok h4]
    simp only
    rw [run_bind_ok h5]
    rfl
  · show srcSlots d6.img src N = _
    rw [hslots6, hsl3, hv12.img, hmap, putK_eq_writeAt _ _ _ (by
      rw [srcSlots_length]; unfold DirSlots.entrySlots
      rw [List.length_append, List.length_singleton, sfnName_serialize raw hraw.name_len, hslen]; exact hfit)]
    unfold DirSlots.writeEntry
    rw [hnum, hp]
  · intro q hq hn he
    show d6.img.getByte q = _
    rw [hb6 q hq he]
    show d5.img.getByte q = _
    rw [hv35.img, hfr3 q hq hn, hv12.img]

end generic

end FatVerif.DirSim
