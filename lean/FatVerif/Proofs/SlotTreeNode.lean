import FatVerif.Proofs.SlotTreeWalk
/-!
# Slot trees: the node-level updates (`addEntry`, `delEntry`) — well-formedness and abstraction;
the case analysis of `check_for_existence`
-/
namespace FatVerif
namespace SlotTree
open Lfn DirSlots DirAlias

/-! ## `check_for_existence`: the four outcomes -/

theorem check_cases (up : Char → List Char) (slots : List (List Nat)) (name : String) (isDir : Option Bool)
    (fuel : Nat) :
    checkForExistenceL up slots name isDir fuel = .error .hang ∨
    (∃ e, findEntry up slots name.toList = some e ∧ kindResult isDir (some e) = .ok e ∧
      checkForExistenceL up slots name isDir fuel = .ok (.entry e)) ∨
    (∃ e, findEntry up slots name.toList = some e ∧ kindResult isDir (some e) = .error .invalidInput ∧
      checkForExistenceL up slots name isDir fuel = .error .invalidInput) ∨
    (findEntry up slots name.toList = none ∧ ∃ a, checkForExistenceL up slots name isDir fuel = .ok (.alias a)) := by
  cases fuel with
  | zero =>
    left
    obtain ⟨g, hg, hc⟩ := check_notfound up slots name isDir 0
    rw [hc]; rfl
  | succ f =>
    cases hf : findEntry up slots name.toList with
    | some e0 =>
      have hc := check_found up slots name isDir f e0 hf
      cases hk : kindResult isDir (some e0) with
      | ok e1 =>
        have he : e1 = e0 := by
          unfold kindResult at hk
          cases isDir with
          | none => simp at hk; exact hk.symm
          | some d => by_cases hd : Lfn.isDir e0.sfn = d <;> simp [hd] at hk; exact hk.symm
        subst he
        rw [hk] at hc
        exact Or.inr (Or.inl ⟨e1, rfl, hk, hc⟩)
      | error x =>
        have hx : x = .invalidInput := by
          unfold kindResult at hk
          cases isDir with
          | none => simp at hk
          | some d => by_cases hd : Lfn.isDir e0.sfn = d <;> simp [hd] at hk; exact hk.symm
        subst hx
        rw [hk] at hc
        exact Or.inr (Or.inr (Or.inl ⟨e0, rfl, hk, hc⟩))
    | none =>
      obtain ⟨g, _, hc⟩ := check_notfound up slots name isDir (f + 1)
      rcases loop_none_cases up (listing slots) name.toList isDir hf (f + 1) g with ⟨a, ha⟩ | hh
      · exact Or.inr (Or.inr (Or.inr ⟨rfl, a, by rw [hc, ha]⟩))
      · exact Or.inl (by rw [hc, hh])

theorem kind_ok_iff (d : Bool) (e : LfnEntry) : kindResult (some d) (some e) = .ok e ↔ Lfn.isDir e.sfn = d := by
  unfold kindResult
  by_cases h : Lfn.isDir e.sfn = d <;> simp [h]

theorem kind_err_iff (d : Bool) (e : LfnEntry) :
    kindResult (some d) (some e) = .error .invalidInput ↔ Lfn.isDir e.sfn ≠ d := by
  unfold kindResult
  by_cases h : Lfn.isDir e.sfn = d <;> simp [h]

/-! ## the empty directory -/

theorem listing_nil : listing [] = [] := by
  unfold listing readDirEntries
  rfl

theorem dirWf_nil (up : Char → List Char) : DirWf up [] := by
  refine ⟨⟨[], [], by simp [flatten], by simp, by simp⟩, ?_, ?_⟩
  · rw [listing_nil]; simp
  · rw [listing_nil]; simp

theorem treeWf_fresh (up : Char → List Char) (b : Bool) : TreeWf up (freshNode b) := by
  unfold freshNode TreeWf
  cases b
  · simp [all_file]
  · simp only [if_true]
    rw [all_dir]
    exact ⟨⟨dirWf_nil up, by rw [listing_nil]; simp, by simp⟩, by simp⟩

theorem fresh_isDir (b : Bool) : (freshNode b).isDir = b := by
  cases b <;> rfl

theorem abs_fresh (b : Bool) :
    abs (freshNode b) = if b then Spec.TNode.emptyDir else Spec.TNode.file ByteArray.empty := by
  cases b
  · simp [freshNode, abs, bytesOf]; rfl
  · simp [freshNode, abs, absCh, Spec.TNode.emptyDir]

/-! ## `addEntry` -/

/-- the listed entry `write_entry` makes -/
def newEntry (slots : List (List Nat)) (units sfn : List Nat) : LfnEntry :=
  ⟨sfn, units, findFree slots (numParts units.length + 1),
    findFree slots (numParts units.length + 1) + (numParts units.length + 1)⟩

/-- in a directory of well-formed shape the child hangs on the entry `write_entry` makes -/
theorem addKey_eq {slots : List (List Nat)} (hs : Shape slots) (units sfn : List Nat)
    (h1 : 1 ≤ units.length) (h255 : units.length ≤ 255) (hu : ∀ x ∈ units, x < 65536)
    (hnz : ∀ x ∈ units, x ≠ 0) (hsfn : slotClass sfn = .file) :
    addKey slots units sfn = newEntry slots units sfn := by
  obtain ⟨L1, L2, _, e2, e3, _, _⟩ := writeEntry_insert true slots units sfn hs h1 h255 hu hnz hsfn
  have l2 : listing (writeEntry slots units sfn) = L1 ++ newEntry slots units sfn :: L2 := e2
  unfold addKey
  rw [l2, List.find?_append]
  have hn : L1.find? (fun e =>
      e.endIdx == findFree slots (numParts units.length + 1) + (numParts units.length + 1)) = none := by
    rw [List.find?_eq_none]
    intro e he
    have := e3 e he
    simp only [beq_iff_eq]
    omega
  rw [hn]
  simp [newEntry]

theorem addEntry_dir {slots : List (List Nat)} (hs : Shape slots) (units sfn : List Nat) (child : Node)
    (ch : List (LfnEntry × Node))
    (h1 : 1 ≤ units.length) (h255 : units.length ≤ 255) (hu : ∀ x ∈ units, x < 65536)
    (hnz : ∀ x ∈ units, x ≠ 0) (hsfn : slotClass sfn = .file) :
    addEntry units sfn child (.dir slots ch) =
      .dir (writeEntry slots units sfn) (ch ++ [(newEntry slots units sfn, child)]) := by
  simp only [addEntry]
  rw [addKey_eq hs units sfn h1 h255 hu hnz hsfn]

theorem addEntry_dirOk {up : Char → List Char} {slots : List (List Nat)} {ch : List (LfnEntry × Node)}
    (hd : DirOk up slots ch) (units sfn : List Nat) (child : Node)
    (hwf' : DirWf up (writeEntry slots units sfn))
    (h1 : 1 ≤ units.length) (h255 : units.length ≤ 255) (hu : ∀ x ∈ units, x < 65536)
    (hnz : ∀ x ∈ units, x ≠ 0) (hsfn : slotClass sfn = .file) (hkind : Lfn.isDir sfn = child.isDir) :
    DirOk up (writeEntry slots units sfn) (ch ++ [(newEntry slots units sfn, child)]) ∧
    (∀ e ∈ listing slots, e ∈ listing (writeEntry slots units sfn)) ∧
    newEntry slots units sfn ∈ listing (writeEntry slots units sfn) ∧
    newEntry slots units sfn ∉ listing slots := by
  obtain ⟨L1, L2, e1, e2, _, _, _⟩ := writeEntry_insert true slots units sfn hd.wf.shape h1 h255 hu hnz hsfn
  have l1 : listing slots = L1 ++ L2 := e1
  have l2 : listing (writeEntry slots units sfn) = L1 ++ newEntry slots units sfn :: L2 := e2
  refine ⟨⟨hwf', ?_, ?_⟩, ?_, ?_, ?_⟩
  · rw [List.map_append, l2]
    simp only [List.map_cons, List.map_nil]
    have p1 : (ch.map (·.1) ++ [newEntry slots units sfn]).Perm (newEntry slots units sfn :: ch.map (·.1)) :=
      List.perm_append_singleton _ _
    have p2 : (newEntry slots units sfn :: ch.map (·.1)).Perm (newEntry slots units sfn :: (L1 ++ L2)) :=
      List.Perm.cons _ (l1 ▸ hd.perm)
    exact (p1.trans p2).trans List.perm_middle.symm
  · intro x hx
    rcases List.mem_append.1 hx with hx | hx
    · exact hd.kind x hx
    · simp only [List.mem_singleton] at hx
      rw [hx]; exact hkind
  · intro e he
    rw [l1] at he; rw [l2]
    rcases List.mem_append.1 he with h | h
    · simp [h]
    · simp [h]
  · rw [l2]; simp
  · have hn := listing_nodup _ hwf'.shape
    rw [l2] at hn
    rw [l1]
    intro hm
    have := (List.nodup_append.1 hn)
    obtain ⟨_, n2, n3⟩ := this
    rcases List.mem_append.1 hm with h | h
    · exact n3 _ h _ (by simp) rfl
    · exact (List.nodup_cons.1 n2).1 h

theorem abs_addEntry {slots : List (List Nat)} (hs : Shape slots) (units sfn : List Nat) (child : Node)
    (ch : List (LfnEntry × Node)) (name : String)
    (h1 : 1 ≤ units.length) (h255 : units.length ≤ 255) (hu : ∀ x ∈ units, x < 65536)
    (hnz : ∀ x ∈ units, x ≠ 0) (hsfn : slotClass sfn = .file)
    (hn : entryName (newEntry slots units sfn) = name) :
    abs (addEntry units sfn child (.dir slots ch)) = Spec.insertChild name (abs child) (abs (.dir slots ch)) := by
  rw [addEntry_dir hs units sfn child ch h1 h255 hu hnz hsfn, abs_dir, abs_dir, Spec.insertChild, List.map_append]
  simp only [List.map_cons, List.map_nil]
  rw [hn]

/-! ## `delEntry` -/

theorem delEntry_dir (e : LfnEntry) (slots : List (List Nat)) (ch : List (LfnEntry × Node)) :
    delEntry e (.dir slots ch) = .dir (deleteRange slots e.beginIdx e.endIdx) (ch.filter fun x => !(x.1 == e)) := rfl

theorem delEntry_dirOk {up : Char → List Char} {slots : List (List Nat)} {ch : List (LfnEntry × Node)}
    (hd : DirOk up slots ch) (e : LfnEntry) (he : e ∈ listing slots) :
    DirOk up (deleteRange slots e.beginIdx e.endIdx) (ch.filter fun x => !(x.1 == e)) := by
  obtain ⟨L1, L2, e1, e2, _⟩ := deleteRange_remove true slots hd.wf.shape e he
  have l1 : listing slots = L1 ++ e :: L2 := e1
  have l2 : listing (deleteRange slots e.beginIdx e.endIdx) = L1 ++ L2 := e2
  refine ⟨deleteRange_wf up slots hd.wf e he, ?_, fun x hx => hd.kind x (List.mem_filter.1 hx).1⟩
  have hn := listing_nodup slots hd.wf.shape
  rw [l1] at hn
  obtain ⟨n1, n2, n3⟩ := List.nodup_append.1 hn
  have hf : (L1 ++ e :: L2).filter (fun y => !(y == e)) = L1 ++ L2 := by
    rw [List.filter_append, List.filter_cons]
    simp only [beq_self_eq_true, Bool.not_true, Bool.false_eq_true, if_false]
    rw [List.filter_eq_self.2, List.filter_eq_self.2]
    · intro a ha
      have : a ≠ e := fun h => (List.nodup_cons.1 n2).1 (h ▸ ha)
      simpa using this
    · intro a ha
      have : a ≠ e := fun h => n3 a ha e (by simp) h
      simpa using this
  have hm : (ch.filter fun x => !(x.1 == e)).map (·.1) = (ch.map (·.1)).filter (fun y => !(y == e)) := by
    rw [List.filter_map]; rfl
  rw [hm, l2, ← hf]
  exact (l1 ▸ hd.perm).filter _

theorem abs_delEntry (u : Char → List Char) {slots : List (List Nat)} {ch : List (LfnEntry × Node)}
    (hd : DirOk (upOf u) slots ch) (e : LfnEntry) (he : e ∈ listing slots) :
    abs (delEntry e (.dir slots ch)) = Spec.eraseChild (cfgOf u) (entryName e) (abs (.dir slots ch)) := by
  rw [delEntry_dir, abs_dir, abs_dir, Spec.eraseChild, List.filter_map]
  apply congrArg Spec.TNode.dir
  apply congrArg
  apply List.filter_congr
  intro x hx
  simp only [Function.comp]
  rw [same_eq]
  by_cases hk : x.1 = e
  · rw [hk]; simp [sameName_refl]
  · have hb : (x.1 == e) = false := by simpa using hk
    rw [hb]
    cases hs : sameName (upOf u) (entryName x.1) (entryName e) with
    | false => rfl
    | true =>
      rw [sameName_iff, entryName_toList, entryName_toList] at hs
      exact absurd (hd.name_hits_self he (hd.mem_listing hx) (matches_of_nameHit _ _ _ hs)) hk

end SlotTree
end FatVerif
