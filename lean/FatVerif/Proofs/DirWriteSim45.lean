import FatVerif.Proofs.DirWriteSim44
/-! Directory WRITES, part 45: `create_file(name)` in a full SUB-DIRECTORY, which grows by one cluster. -/
namespace FatVerif.DirSim
open FatVerif.FileSim FatVerif.Fat DirEntryData DirAlias

theorem createFile_sub_grow (d : Dev) (c0 : Nat) (ed0 : DirEntryEditor) (chain : List Nat)
    (C : ChainDir d (FileH.new (some c0) (some ed0)) c0 chain) (hwf : d.img.WF)
    (hdirattr : ed0.data.isDir = true) (hname : ed0.data.name.length = 11)
    (hepos : (fatSliceOf d.fs).beginOff + (fatSliceOf d.fs).mirrors * (fatSliceOf d.fs).size ≤ ed0.pos)
    (hein : ed0.pos + 32 ≤ d.img.size)
    (hfuel : chain.length * (d.fs.clusterSize / 32) < dirFuel d.fs) (hinfo : InfoOk d.fs d.img)
    (ha : d.fs.lfnAlloc = true) (env : Env) (path name : String) (hsp : Names.splitPath path = (name, none))
    (hdot : (name = "." || name = "..") = false) (hval : Names.validateLongName name = .ok ()) (a : List Nat)
    (hchk : DirAlias.checkForExistenceL env.upper
      (srcSlots d.img (chainSrc d.fs chain) (chain.length * (d.fs.clusterSize / 32))) name (some false) 70000 = .ok (.alias a))
    (c last : Nat) (hlast : chain.getLast? = some last) (hlv : tabView d.fs d.img last ≠ .free)
    (hfind : allocFindV (tabView d.fs d.img) d.fs.fsInfo.next d.fs.totalClusters = some c)
    (hu32 : (chain.length + 1) * d.fs.clusterSize < 4294967296)
    (hfuel' : (chain.length + 1) * (d.fs.clusterSize / 32) < dirFuel d.fs)
    (heout : ∀ x, 2 ≤ x → x < d.fs.totalClusters + 2 →
      ed0.pos + 32 ≤ clusterOff d.fs x ∨ clusterOff d.fs x + d.fs.clusterSize ≤ ed0.pos)
    (hgrow : chain.length * (d.fs.clusterSize / 32) <
      DirSlots.findFree (srcSlots d.img (chainSrc d.fs chain) (chain.length * (d.fs.clusterSize / 32)))
        (Lfn.numParts (Names.encodeUtf16 name.toList).length + 1) + (Lfn.numParts (Names.encodeUtf16 name.toList).length + 1))
    (hfit : DirSlots.findFree (srcSlots d.img (chainSrc d.fs chain) (chain.length * (d.fs.clusterSize / 32)))
        (Lfn.numParts (Names.encodeUtf16 name.toList).length + 1) + (Lfn.numParts (Names.encodeUtf16 name.toList).length + 1) ≤
      chain.length * (d.fs.clusterSize / 32) + d.fs.clusterSize / 32) (fuel : Nat) :
    ∃ (d' : Dev) (e : DirEntry),
      run (FatVerif.createFile env (fuel + 1) (.file (FileH.new (some c0) (some ed0))) path) d =
        (.ok (FileH.new (e.firstCluster d.fs) (some e.editor)), d') ∧
      e.data = sfnAt d.fs d.clock a 0 none ∧ e.lfn = Names.encodeUtf16 name.toList ∧
      VolStep d d' ∧ d'.fs.curDirty = true ∧ SubInv d.fs ed0 c0 (chain ++ [c]) d.clock d' ∧
      srcSlots d'.img (chainSrc d.fs (chain ++ [c])) (chain.length * (d.fs.clusterSize / 32) + d.fs.clusterSize / 32) =
        DirSlots.writeEntry (srcSlots d.img (chainSrc d.fs chain) (chain.length * (d.fs.clusterSize / 32)))
          (Names.encodeUtf16 name.toList) (sfnAt d.fs d.clock a 0 none).serialize ++
        List.replicate (chain.length * (d.fs.clusterSize / 32) + d.fs.clusterSize / 32 -
          (DirSlots.findFree (srcSlots d.img (chainSrc d.fs chain) (chain.length * (d.fs.clusterSize / 32)))
            (Lfn.numParts (Names.encodeUtf16 name.toList).length + 1) +
            (Lfn.numParts (Names.encodeUtf16 name.toList).length + 1))) DirSlots.zeroSlot ∧
      tabView d'.fs d'.img = allocLinkV (tabView d.fs d.img) (some last) c := by
  have hgeo := C.geo
  obtain ⟨hcan, hl11, _⟩ := C16dir.dir_alias_canon env.upper _ name (some false) 70000 a hchk
  obtain ⟨hc2, hct, _⟩ := allocFindV_some _ _ _ _ hinfo.hint hfind
  have hce := C.dirSrc.checkForExistence_sim hfuel ha env name (some false) d (SameVol.refl d)
  rw [hchk] at hce
  obtain ⟨d1, h1, hs1⟩ := hce
  have hc1 : d1.clock = d.clock := run_clock _ _ _ _ h1
  have hinv0 : SubInv d.fs ed0 c0 chain d.clock d := ⟨C, hwf, FsGeomEq.refl _, hfuel, rfl, hname, hepos, hein⟩
  have hinv1 := subInv_ok.vol d d1 hinv0 hs1 hc1
  have hrawwf := sfnAt_wf d.fs d.clock a 0 none hl11 (canon_lt hcan) (by omega)
  have hrawlfn : attrsIsLfn (sfnAt d.fs d.clock a 0 none).attrs = false := by rw [sfnAt_attrs]; decide
  have heo : ∀ (ch : List Nat), (∀ x ∈ ch, 2 ≤ x ∧ x < d.fs.totalClusters + 2) →
      ∀ i, i < ch.length * (d.fs.clusterSize / 32) →
      chainSrc d.fs ch (32 * i) + 32 ≤ ed0.pos ∨ ed0.pos + 32 ≤ chainSrc d.fs ch (32 * i) := by
    intro ch hch i hi
    obtain ⟨x, hx, h1, h2⟩ := slot_in_cluster' d.fs hgeo.cs_pos C.cs32 ch i hi
    have := heout x (hch x hx).1 (hch x hx).2
    omega
  obtain ⟨d', e, hr, he, hs, hd, hinv', hsl, _, htv⟩ := sub_writeEntry_grow_tv (fs0 := d.fs) (ed0 := ed0) (c0 := c0)
    (chain := chain) (t0 := d.clock) hdirattr c last name (sfnAt d.fs d.clock a 0 none) hval hdot hrawwf hrawlfn d1 hinv1
    (by rw [hs1.fs, hs1.img]; exact hinfo) hlast (by rw [hs1.fs, hs1.img]; exact hlv)
    (by rw [hs1.fs, hs1.img]; exact hfind) hu32 hfuel' (heo chain C.inTab)
    (heo (chain ++ [c]) (fun x hx => by
      rcases List.mem_append.mp hx with h | h
      · exact C.inTab x h
      · simp only [List.mem_singleton] at h; subst h; exact ⟨hc2, hct⟩))
    (by rw [hs1.img]; exact hgrow) (by rw [hs1.img]; exact hfit)
  rw [hs1.img] at hsl he
  rw [hs1.fs, hs1.img] at htv
  have hdata : e.data = sfnAt d.fs d.clock a 0 none := by
    rw [he]
    have := writeEntry_result (chainSrc d.fs (chain ++ [c])) _ hrawwf hrawlfn (Names.encodeUtf16 name.toList) 0 1 (by omega)
    simp only [toDirEntryS] at this ⊢
    injection this with h1
    exact h1.symm
  refine ⟨d', e, ?_, hdata, by rw [he]; rfl, (VolStep.of_sameVol hs1).trans hs, hd, hinv', hsl, htv⟩
  unfold FatVerif.createFile
  rw [run_bind_ok (run_getFs d), hsp]
  simp only [hdot, Bool.false_eq_true, if_false]
  have h1' : run (checkForExistence env (.file (FileH.new (some c0) (some ed0))) name (some false)) d =
      (.ok (liftEOA (chainSrc d.fs chain) (.alias a)), d1) := h1
  rw [run_bind_ok h1']
  simp only [liftEOA]
  have hr' : run (FatVerif.writeEntry (.file (FileH.new (some c0) (some ed0))) name (sfnAt d.fs d.clock a 0 none)) d1 =
      (.ok e, d') := hr
  rw [run_bind_ok (run_createSfnEntry a 0 none d1), hs1.fs, hc1, run_bind_ok hr']
  unfold DirEntry.toFile
  have : e.isDir = false := by
    unfold DirEntry.isDir; rw [hdata]; exact sfnAt_isDir_false d.fs d.clock a none
  rw [this]
  rfl

end FatVerif.DirSim
