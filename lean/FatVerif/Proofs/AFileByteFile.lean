import FatVerif.Spec.ByteFile
/-! Facts about the specification `ByteFile` alone. -/
namespace FatVerif.Cursor
namespace ByteFile

theorem read_fst_length (b : ByteFile) (k : Nat) : (b.read k).1.length = min k b.remaining := by
  simp [read, remaining]

/-- the oracle accepts the documented short read -/
theorem checkRead_ok (cs n : Nat) (b : ByteFile) :
    checkRead cs n (b.read (b.shortRead cs n)).1 b = .ok (b.read (b.shortRead cs n)).2 := by
  have hk : b.shortRead cs n ≤ n ∧ b.shortRead cs n ≤ b.remaining := by
    unfold shortRead; omega
  have hlen : (b.read (b.shortRead cs n)).1.length = b.shortRead cs n := by
    rw [read_fst_length]; omega
  unfold checkRead
  rw [hlen]
  have h1 : ¬ b.shortRead cs n > min n b.remaining := by omega
  simp only [h1, if_false, ne_eq, not_true]

theorem checkReadExact_ok (n : Nat) (b : ByteFile) (h : n ≤ b.remaining) :
    checkReadExact n (b.read n).1 b = .ok (b.read n).2 := by
  have hlen : (b.read n).1.length = n := by rw [read_fst_length]; omega
  unfold checkReadExact
  rw [hlen]
  have h1 : ¬ (b.remaining < n ∨ n ≠ n) := by omega
  rw [if_neg h1]
  simp

/-- writing nothing changes nothing -/
theorem write_nil (b : ByteFile) : (b.write []).2 = b := by
  simp [write]

/-- two consecutive writes are one write of the concatenation -/
theorem write_write (b : ByteFile) (x y : List Nat) (h : b.pos ≤ b.content.length) :
    ((b.write x).2.write y).2 = (b.write (x ++ y)).2 := by
  simp only [write]
  have hA : (List.take b.pos b.content ++ x).length = b.pos + x.length := by simp; omega
  have e1 : (List.take b.pos b.content ++ x ++ List.drop (b.pos + x.length) b.content).take (b.pos + x.length)
      = List.take b.pos b.content ++ x := List.take_left' hA
  have e2 : (List.take b.pos b.content ++ x ++ List.drop (b.pos + x.length) b.content).drop
      (b.pos + x.length + y.length) = List.drop (b.pos + (x ++ y).length) b.content := by
    rw [← hA, List.drop_length_add_append, List.drop_drop, hA]
    congr 1; simp; omega
  rw [e1, e2]
  simp [Nat.add_assoc]

theorem write_content_length (b : ByteFile) (x : List Nat) (h : b.pos ≤ b.content.length) :
    (b.write x).2.content.length = max b.content.length (b.pos + x.length) := by
  simp [write]; omega

end ByteFile
end FatVerif.Cursor
