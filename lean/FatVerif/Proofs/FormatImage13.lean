import FatVerif.Proofs.FormatImage12
/-! C06 image part, 13: the bytes of a FAT12 table while `format_fat` fills it (image level). -/
namespace FatVerif
open Format

/-- byte `x` of a FAT12 copy whose entries 0 and 1 are the media/EOC markers and whose entries `[startC, c)` are
    end-of-chain (0xFFF), all other entries free: nibble `j` (entry `e` owns nibbles `3e, 3e+1, 3e+2`) is `F` iff
    `3*startC ≤ j < 3*c` -/
def T12 (media startC c x : Nat) : Nat :=
  if x = 0 then media % 256
  else if x < 3 then 255
  else (if 3 * startC ≤ 2 * x ∧ 2 * x < 3 * c then 15 else 0) +
    16 * (if 3 * startC ≤ 2 * x + 1 ∧ 2 * x + 1 < 3 * c then 15 else 0)

/-- all copies of the FAT slice hold `T12 media startC c` -/
def Fat12Img (s0 : DiskSlice) (d : Dev) (media startC c : Nat) : Prop :=
  d.img.WF ∧ ∀ i, i < s0.mirrors → ∀ x, x < s0.size →
    d.img.getByte (s0.beginOff + i * s0.size + x) = T12 media startC c x

theorem packed12_even (k : Nat) : packed12 (2 * k) 0 4095 = 4095 := by
  unfold packed12
  rw [if_pos (by omega)]
  decide

theorem packed12_odd (k n0 : Nat) (h : n0 = 0 ∨ n0 = 15) : packed12 (2 * k + 1) n0 4095 = 65520 + n0 := by
  unfold packed12
  rw [if_neg (by omega)]
  rcases h with rfl | rfl <;> decide

theorem T12_step_other (media startC c x : Nat) (hsc : startC ≤ c) (h2 : 2 ≤ startC)
    (hx : ¬ (c + c / 2 ≤ x ∧ x < c + c / 2 + 2)) : T12 media startC (c + 1) x = T12 media startC c x := by
  unfold T12
  repeat' split
  all_goals omega

/-- the two bytes `Fat12::set(c, EOC)` writes over a table in state `T12 … c` are those of state `T12 … (c+1)` -/
theorem T12_set_bytes (media startC c : Nat) (hsc : startC ≤ c) (h2 : 2 ≤ startC) :
    bytesLe16 (packed12 c (le16 (T12 media startC c (c + c / 2)) (T12 media startC c (c + c / 2 + 1))) 4095) =
      [T12 media startC (c + 1) (c + c / 2), T12 media startC (c + 1) (c + c / 2 + 1)] := by
  rcases Nat.mod_two_eq_zero_or_one c with hp | hp
  · obtain ⟨k, rfl⟩ : ∃ k, c = 2 * k := ⟨c / 2, by omega⟩
    have e0 : T12 media startC (2 * k) (2 * k + 2 * k / 2) = 0 := by
      unfold T12; repeat' split
      all_goals omega
    have e1 : T12 media startC (2 * k) (2 * k + 2 * k / 2 + 1) = 0 := by
      unfold T12; repeat' split
      all_goals omega
    have n0 : T12 media startC (2 * k + 1) (2 * k + 2 * k / 2) = 255 := by
      unfold T12; repeat' split
      all_goals omega
    have n1 : T12 media startC (2 * k + 1) (2 * k + 2 * k / 2 + 1) = 15 := by
      unfold T12; repeat' split
      all_goals omega
    rw [e0, e1, n0, n1]
    have : le16 0 0 = 0 := rfl
    rw [this, packed12_even]; rfl
  · obtain ⟨k, rfl⟩ : ∃ k, c = 2 * k + 1 := ⟨c / 2, by omega⟩
    have hn : ∃ n0, (n0 = 0 ∨ n0 = 15) ∧ T12 media startC (2 * k + 1) (2 * k + 1 + (2 * k + 1) / 2) = n0 ∧
        T12 media startC (2 * k + 1 + 1) (2 * k + 1 + (2 * k + 1) / 2) = 240 + n0 := by
      by_cases hlt : startC < 2 * k + 1
      · refine ⟨15, Or.inr rfl, ?_, ?_⟩ <;> (unfold T12; repeat' split) <;> omega
      · refine ⟨0, Or.inl rfl, ?_, ?_⟩ <;> (unfold T12; repeat' split) <;> omega
    obtain ⟨n0, hn0, e0, n0'⟩ := hn
    have e1 : T12 media startC (2 * k + 1) (2 * k + 1 + (2 * k + 1) / 2 + 1) = 0 := by
      unfold T12; repeat' split
      all_goals omega
    have n1 : T12 media startC (2 * k + 1 + 1) (2 * k + 1 + (2 * k + 1) / 2 + 1) = 255 := by
      unfold T12; repeat' split
      all_goals omega
    rw [e0, e1, n0', n1]
    have : le16 n0 0 = n0 := by unfold le16; omega
    rw [this, packed12_odd k n0 hn0]
    rcases hn0 with rfl | rfl <;> rfl

theorem getD_lt_allB {l : List Nat} (h : AllB l) (k : Nat) : l.getD k 0 < 256 := by
  rw [List.getD_eq_getElem?_getD]
  by_cases hk : k < l.length
  · rw [List.getElem?_eq_getElem hk]; exact h _ (List.getElem_mem hk)
  · rw [List.getElem?_eq_none (by omega)]; simp

section fat12
variable {s0 : DiskSlice} (hv : s0.viaFs = false) (hmir : 0 < s0.mirrors)
include hv hmir

omit hv in
/-- image of every copy after one mirrored write whose records are known -/
theorem img_after_mw {α} {p : Prog α} {d d' : Dev} {r : Except Err α} (hr : run p d = (r, d')) (hwf : d.img.WF)
    {rel : Nat} {data : List Nat} (hs : Seg d d' (mwItems s0 rel data)) (hfit : rel + data.length ≤ s0.size)
    (hb : AllB data) :
    d'.img.WF ∧ ∀ i, i < s0.mirrors → ∀ x, x < s0.size →
      d'.img.getByte (s0.beginOff + i * s0.size + x) =
        if rel ≤ x ∧ x < rel + data.length then data.getD (x - rel) 0
        else d.img.getByte (s0.beginOff + i * s0.size + x) := by
  obtain ⟨h1, h2⟩ := img_after_seg hr hwf hs
  refine ⟨h1, fun i hi x hx => ?_⟩
  rw [h2]
  have := replay_mwItems s0 hmir rel data hfit d.img.getByte [] i x hi hx
  rw [List.append_nil] at this
  rw [this]
  split
  · exact Nat.mod_eq_of_lt (getD_lt_allB hb _)
  · simp only [replay]; exact Nat.mod_eq_of_lt (Img.getByte_lt _ _)

/-- one step of the end-of-chain fill -/
theorem set12_step {s : DiskSlice} (hs : SliceInv s0 s) (media startC c : Nat) (hsc : startC ≤ c) (h2 : 2 ≤ startC)
    (d : Dev) (hdev : s0.beginOff + s0.mirrors * s0.size ≤ d.img.size) (hI : Fat12Img s0 d media startC c)
    {s' : DiskSlice} {d' : Dev} (hr : run (Table.set DiskSlice.strm .fat12 s c .eoc) d = (.ok s', d')) :
    c + c / 2 + 2 ≤ s0.size ∧ SliceInv s0 s' ∧ Fat12Img s0 d' media startC (c + 1) := by
  obtain ⟨hfit, hs', hseg⟩ := set12_exact hv hmir hs c .eoc d hdev hr
  refine ⟨hfit, hs', ?_⟩
  obtain ⟨hwf, hbytes⟩ := hI
  -- what was read: copy 0
  have b0 := hbytes 0 hmir (c + c / 2) (by omega)
  have b1 := hbytes 0 hmir (c + c / 2 + 1) (by omega)
  rw [Nat.zero_mul, Nat.add_zero] at b0 b1
  have hraw : Table.rawOfValue .fat12 .eoc = 4095 := rfl
  rw [show s0.beginOff + (c + c / 2) + 1 = s0.beginOff + (c + c / 2 + 1) by omega, b0, b1, hraw,
    T12_set_bytes media startC c hsc h2] at hseg
  have hall : AllB [T12 media startC (c + 1) (c + c / 2), T12 media startC (c + 1) (c + c / 2 + 1)] := by
    rw [← T12_set_bytes media startC c hsc h2]; exact allB_le16 _
  obtain ⟨hwf', him⟩ := img_after_mw hmir hr hwf hseg (by simpa using hfit) hall
  refine ⟨hwf', fun i hi x hx => ?_⟩
  rw [him i hi x hx]
  simp only [List.length_cons, List.length_nil]
  by_cases hin : c + c / 2 ≤ x ∧ x < c + c / 2 + (0 + 1 + 1)
  · rw [if_pos hin]
    have : x = c + c / 2 ∨ x = c + c / 2 + 1 := by omega
    rcases this with rfl | rfl
    · rw [Nat.sub_self]; rfl
    · rw [show c + c / 2 + 1 - (c + c / 2) = 1 by omega]; rfl
  · rw [if_neg hin, hbytes i hi x hx, T12_step_other media startC c x hsc h2 (by omega)]

theorem setRange12_img (media startC : Nat) (h2 : 2 ≤ startC) : ∀ (k : Nat) (s : DiskSlice) (c : Nat) (d : Dev)
    (s' : DiskSlice) (d' : Dev), SliceInv s0 s → startC ≤ c → s0.beginOff + s0.mirrors * s0.size ≤ d.img.size →
    Fat12Img s0 d media startC c →
    run (Table.setRange DiskSlice.strm .fat12 .eoc k s c) d = (.ok s', d') →
    Fat12Img s0 d' media startC (c + k) ∧ (0 < k → (c + k - 1) + (c + k - 1) / 2 + 2 ≤ s0.size) := by
  intro k
  induction k with
  | zero =>
    intro s c d s' d' _ _ _ hI hr
    unfold Table.setRange at hr
    have hr' : run (Prog.pure s) d = (.ok s', d') := hr
    simp only [run] at hr'; cases hr'
    exact ⟨hI, fun h => by omega⟩
  | succ k ih =>
    intro s c d s' d' hs hsc hdev hI hr
    unfold Table.setRange at hr
    rcases run_bind_cases hr with ⟨s1, d1, h1, h2'⟩ | ⟨e, _, he⟩
    · obtain ⟨hfit, hs1, hI1⟩ := set12_step hv hmir hs media startC c hsc h2 d hdev hI h1
      have hd1 : d1.img.size = d.img.size := run_img_size _ _ _ _ h1
      obtain ⟨hI2, hk⟩ := ih s1 (c + 1) d1 s' d' hs1 (by omega) (by rw [hd1]; exact hdev) hI1 h2'
      refine ⟨by rw [show c + (k + 1) = c + 1 + k by omega]; exact hI2, fun _ => ?_⟩
      by_cases hk0 : 0 < k
      · have := hk hk0
        rw [show c + (k + 1) - 1 = c + 1 + k - 1 by omega]; exact this
      · have : k = 0 := by omega
        subst this
        simpa using hfit
    · cases he

omit hv hmir in
theorem T12_base (media startC x : Nat) (hx : 3 ≤ x) : T12 media startC startC x = 0 := by
  unfold T12; repeat' split
  all_goals omega

/-- `format_fat` on FAT12 over copies that are all zero: afterwards every copy holds `T12 media (total+2) endC` -/
theorem formatFat12_img (media bytesPerFat total : Nat) (d : Dev) (s' : DiskSlice) (d' : Dev)
    (hdev : s0.beginOff + s0.mirrors * s0.size ≤ d.img.size) (hwf : d.img.WF)
    (hz : ∀ i, i < s0.mirrors → ∀ x, x < s0.size → d.img.getByte (s0.beginOff + i * s0.size + x) = 0)
    (hend : ¬ (bytesPerFat * 8 / 12) % 4294967296 > 0x0FFFFFF0)
    (hr : run (Table.formatFat DiskSlice.strm .fat12 { s0 with offset := 0 } media bytesPerFat total) d = (.ok s', d')) :
    Fat12Img s0 d' media (total + 2) (total + 2 + ((bytesPerFat * 8 / 12) % 4294967296 - (total + 2))) ∧
    3 ≤ s0.size ∧
    (0 < (bytesPerFat * 8 / 12) % 4294967296 - (total + 2) →
      (total + 2 + ((bytesPerFat * 8 / 12) % 4294967296 - (total + 2)) - 1) +
        (total + 2 + ((bytesPerFat * 8 / 12) % 4294967296 - (total + 2)) - 1) / 2 + 2 ≤ s0.size) := by
  have hs : SliceInv s0 { s0 with offset := 0 } := ⟨rfl, rfl, rfl, rfl, Nat.zero_le _⟩
  unfold Table.formatFat at hr
  rcases run_bind_cases hr with ⟨s2, d2, h1, h2⟩ | ⟨e, _, he⟩
  · dsimp only at h1
    rcases run_bind_cases h1 with ⟨s1, d1, h3, h4⟩ | ⟨e, _, he⟩
    · have h3' : run (writeAll DiskSlice.strm { s0 with offset := 0 } [media % 256]) d = (.ok s1, d1) := h3
      obtain ⟨hfit1, hs1eq, hs1, hseg1⟩ := slice_writeAll_exact hs hv hmir [media % 256] (by simp) d hdev h3'
      have hd1 : d1.img.size = d.img.size := run_img_size _ _ _ _ h3
      have h4' : run (writeAll DiskSlice.strm s1 (bytesLe16 0xFFFF)) d1 = (.ok s2, d2) := h4
      obtain ⟨hfit2, _, hs2, hseg2⟩ := slice_writeAll_exact hs1 hv hmir (bytesLe16 0xFFFF) (by simp [bytesLe16]) d1
        (by rw [hd1]; exact hdev) h4'
      have hoff1 : s1.offset = 1 := by rw [hs1eq]; rfl
      rw [hoff1] at hseg2 hfit2
      have hlen2 : (bytesLe16 0xFFFF).length = 2 := rfl
      rw [hlen2] at hfit2
      have hd2 : d2.img.size = d.img.size := (run_img_size _ _ _ _ h4).trans hd1
      -- images after the two header writes
      obtain ⟨hwf1, him1⟩ := img_after_mw hmir h3' hwf hseg1 (by simpa using hfit1)
        (by intro b hb; simp only [List.mem_singleton] at hb; subst hb; exact Nat.mod_lt _ (by omega))
      obtain ⟨hwf2, him2⟩ := img_after_mw hmir h4' hwf1 hseg2 (by rw [hlen2]; exact hfit2) (allB_le16 _)
      have hI2 : Fat12Img s0 d2 media (total + 2) (total + 2) := by
        refine ⟨hwf2, fun i hi x hx => ?_⟩
        rw [him2 i hi x hx, hlen2]
        by_cases h12 : 1 ≤ x ∧ x < 1 + 2
        · rw [if_pos h12]
          have : x = 1 ∨ x = 2 := by omega
          rcases this with rfl | rfl <;> (unfold T12; rfl)
        · rw [if_neg h12, him1 i hi x hx]
          simp only [List.length_cons, List.length_nil]
          by_cases h0 : 0 ≤ x ∧ x < 0 + (0 + 1)
          · rw [if_pos h0]
            have : x = 0 := by omega
            subst this; unfold T12; rfl
          · rw [if_neg h0, hz i hi x hx, T12_base media (total + 2) x (by omega)]
      dsimp only at h2
      rw [show FatType.fat12.bits = 12 from rfl] at h2
      rcases run_bind_cases h2 with ⟨s3, d3, h5, h6⟩ | ⟨e, _, he⟩
      · obtain ⟨hI3, hk⟩ := setRange12_img hv hmir media (total + 2) (by omega) _ s2 (total + 2) d2 s3 d3 hs2
          (Nat.le_refl _) (by rw [hd2]; exact hdev) hI2 h5
        rw [if_neg hend] at h6
        have h6' : run (Prog.pure s3) d3 = (.ok s', d') := h6
        simp only [run] at h6'; cases h6'
        exact ⟨hI3, by omega, hk⟩
      · cases he
    · cases he
  · cases he

end fat12

end FatVerif
