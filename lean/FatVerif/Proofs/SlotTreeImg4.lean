import FatVerif.Proofs.SlotTreeImg3
/-!
# Slot trees on a device image, part 4: the path walk of a MUTATING call

`mut_walk`: for a program family `Wk fuel st path` that walks like `create_file` / `create_dir` / `remove`
(`find_entry(name, Some(true))?.to_dir()` per directory component, the rest inside `thenDrop sub`), given what the
LAST component does in the directory it reaches (`Fin`, for the directories satisfying `Good`), the whole call fails
with the error of the slot tree's walk, or does what the last component does — the destructors of the intermediate
directory handles run on the device AFTER the write (`hdropP`).
-/
namespace FatVerif
namespace SlotTreeImg
open Lfn DirSlots DirAlias SlotTree DirSim FatVerif.FileSim FatVerif.Fat

/-- outcome of a mutating program: fails with `e` keeping the volume, or succeeds reaching a device with `P` -/
def MOut {α} (P : α → Dev → Prop) (prog : Prog α) (d1 : Dev) : Option Err → Prop
  | some e => FailsV prog d1 e
  | none => ∃ v d', run prog d1 = (.ok v, d') ∧ P v d'

theorem sameVol_clock_run {α} {p : Prog α} {d d' : Dev} {v : α} (h : run p d = (.ok v, d')) : d'.clock = d.clock :=
  run_clock p d _ d' h

section walk
variable {d : Dev} {up : Char → List Char} {t : Node} {cl : List String → Option Nat}

/-- a directory component in front of a mutating rest -/
theorem mwalk_step {α} {st : DirStream} (V : DirView d st) (env : Env) (name : String) (de : DirEntry)
    (hl : V.lookup env name (some true) = .ok de) (hdir : de.isDir = true) (rest : DirStream → Prog α)
    (P : α → Dev → Prop) (hP : ∀ v d1 d2, P v d1 → SameVol d1 d2 → P v d2)
    (hdrop : ∀ v d', P v d' → Reads (DirEntry.dirStream d.fs de).dropBody d' ())
    (hdropR : ∀ d4, SameVol d d4 → Reads (DirEntry.dirStream d.fs de).dropBody d4 ())
    (o : Option Err) (hne : ∀ e, o = some e → e ≠ .hang)
    (hrest : ∀ d4, SameVol d d4 → d4.clock = d.clock → MOut P (rest (DirEntry.dirStream d.fs de)) d4 o) :
    ∀ d1, SameVol d d1 → d1.clock = d.clock →
      MOut P (Prog.bind Prog.getFs fun fs =>
        Prog.bind (findEntry env st name (some true)) fun e =>
          Prog.bind (e.toDir fs) fun sub => thenDrop sub (rest sub)) d1 o := by
  intro d1 hv hc
  obtain ⟨d2, hr2, hs2⟩ := Reads.getFs d1
  have h1 := V.findEntry_sim env name (some true) d2 (hv.trans hs2)
  rw [hl] at h1
  obtain ⟨d3, hr3', hs3⟩ := h1
  have hr3 : run (findEntry env st name (some true)) d2 = (.ok de, d3) := hr3'
  obtain ⟨d4, hr4, hs4⟩ := toDir_sim d.fs de hdir d3
  have hv4 := ((hv.trans hs2).trans hs3).trans hs4
  have hc4 : d4.clock = d.clock := by
    rw [run_clock _ _ _ _ hr4, run_clock _ _ _ _ hr3, run_clock _ _ _ _ hr2, hc]
  have hprog : ∀ (r : Except Err α) (dz : Dev),
      run (thenDrop (DirEntry.dirStream d.fs de) (rest (DirEntry.dirStream d.fs de))) d4 = (r, dz) →
      run (Prog.bind Prog.getFs fun fs =>
        Prog.bind (findEntry env st name (some true)) fun e =>
          Prog.bind (e.toDir fs) fun sub => thenDrop sub (rest sub)) d1 = (r, dz) := by
    intro r dz hz
    rw [run_bind_ok' hr2, run_bind_ok' hr3, hv.fs, run_bind_ok' hr4]
    exact hz
  have hm := hrest d4 hv4 hc4
  cases o with
  | some e =>
    obtain ⟨d7, hr7, hs7⟩ := FailsV.thenDrop (st := DirEntry.dirStream d.fs de) hm (hne e rfl)
      (fun d5 hs5 => hdropR d5 (hv4.trans hs5))
    exact ⟨d7, hprog _ _ hr7, ((hs2.trans hs3).trans hs4).trans hs7⟩
  | none =>
    obtain ⟨v, d5, hr5, hp5⟩ := hm
    have hp5' : P v { d5 with dropDepth := d5.dropDepth + 1 } := hP v _ _ hp5 (sameVol_depth d5 _)
    obtain ⟨d6, hr6, hs6⟩ := hdrop v _ hp5'
    refine ⟨v, { d6 with dropDepth := d6.dropDepth - 1 }, hprog _ _ ?_, ?_⟩
    · unfold FatVerif.thenDrop
      exact run_finallyDrop_ok hr5 hr6
    · exact hP v _ _ (hP v _ _ hp5' hs6) (sameVol_depth d6 _)

theorem walkDirsS_cons (up : Char → List Char) (t : Node) (cur : List String) (c : String) (ds : List String) :
    walkDirsS up t cur (c :: ds) =
      match stepCompS up t cur c with
      | .error e => .error e
      | .ok (p, .dir _ _) => walkDirsS up t p ds
      | .ok (_, .file _) => .error .invalidInput := by
  simp only [walkDirsS]
  cases stepCompS up t cur c with
  | error e => rfl
  | ok pn =>
    obtain ⟨p, n⟩ := pn
    cases n <;> rfl

/-- the slot tree's verdict on a mutating call: the error of the walk, or what the last component does -/
def mverdict (up : Char → List Char) (t : Node) (verdict : List String → String → Option Err) (cur : List String)
    (parts : List String × String) : Option Err :=
  match walkDirsS up t cur parts.1 with
  | .error e => some e
  | .ok p => verdict p parts.2

/-- **the walk of a mutating call** -/
theorem mut_walk {α} (I : ImgTree d up t cl) (hwf : TreeWf up t) (hup : DotSafe up) (env : Env)
    (henv : env.upper = up) (Wk : Nat → DirStream → String → Prog α)
    (hunf : ∀ f st chars a r, Names.splitPathL chars = (a, some r) →
      Wk (f + 1) st (String.ofList chars) =
        Prog.bind Prog.getFs fun fs =>
          Prog.bind (findEntry env st (String.ofList a) (some true)) fun e =>
            Prog.bind (e.toDir fs) fun sub => thenDrop sub (Wk f sub (String.ofList r)))
    (P : α → Dev → Prop) (hP : ∀ v d1 d2, P v d1 → SameVol d1 d2 → P v d2)
    (hdropP : ∀ v d' p sub, P v d' → Den d up t cl p sub → Reads sub.dropBody d' ())
    (Good : List String → Prop) (verdict : List String → String → Option Err) (L : String)
    (Fin : ∀ cur st, Good cur → Den d up t cl cur st → ∀ f chars a, Names.splitPathL chars = (a, none) →
      String.ofList a = L → ∀ d4, SameVol d d4 → d4.clock = d.clock →
        MOut P (Wk (f + 1) st (String.ofList chars)) d4 (verdict cur (String.ofList a))) :
    ∀ (n : Nat) (chars : List Char), chars.length ≤ n → ∀ fuelD, n < fuelD →
    ∀ (cur : List String) (st : DirStream), Den d up t cl cur st →
    (∀ p, walkDirsS up t cur (splitAll n chars).1 = .ok p → Good p) →
    (∀ e, mverdict up t verdict cur (splitAll n chars) = some e → e ≠ .hang) → (splitAll n chars).2 = L →
    ∀ d1, SameVol d d1 → d1.clock = d.clock →
      MOut P (Wk fuelD st (String.ofList chars)) d1 (mverdict up t verdict cur (splitAll n chars)) := by
  have hlast : ∀ (m : Nat) (chars a : List Char), Names.splitPathL chars = (a, none) → ∀ f,
      ∀ (cur : List String) (st : DirStream), Den d up t cl cur st →
      (∀ p, walkDirsS up t cur (splitAll m chars).1 = .ok p → Good p) → (splitAll m chars).2 = L →
      ∀ d1, SameVol d d1 → d1.clock = d.clock →
        MOut P (Wk (f + 1) st (String.ofList chars)) d1 (mverdict up t verdict cur (splitAll m chars)) := by
    intro m chars a hsp f cur st hden hgood hL d1 hv hc
    obtain ⟨⟨s, c, hg⟩, hs⟩ := hden
    rw [splitAll_last m chars a hsp] at hgood hL ⊢
    unfold mverdict
    simp only [walkDirsS_nil hg] at hgood ⊢
    exact Fin cur st (hgood cur rfl) ⟨⟨s, c, hg⟩, hs⟩ f chars a hsp hL d1 hv hc
  intro n
  induction n with
  | zero =>
    intro chars hlen fuelD hf cur st hden hgood hnh hL d1 hv hc
    have hc0 : chars = [] := List.eq_nil_of_length_eq_zero (by omega)
    subst hc0
    obtain ⟨f, rfl⟩ : ∃ f, fuelD = f + 1 := ⟨fuelD - 1, by omega⟩
    exact hlast 0 [] [] splitPathL_nil f cur st hden hgood hL d1 hv hc
  | succ m ih =>
    intro chars hlen fuelD hf cur st hden hgood hnh hL d1 hv hc
    obtain ⟨f, rfl⟩ : ∃ f, fuelD = f + 1 := ⟨fuelD - 1, by omega⟩
    cases hsp : Names.splitPathL chars with
    | mk a ro =>
    cases ro with
    | none => exact hlast (m + 1) chars a hsp f cur st hden hgood hL d1 hv hc
    | some r =>
      have hrl := splitPathL_rest_length chars a r hsp
      rw [splitAll_step m chars a r hsp] at hgood hnh hL ⊢
      rw [hunf f st chars a r hsp]
      unfold mverdict at *
      simp only [walkDirsS_cons] at hgood hnh ⊢
      obtain ⟨V, hrel⟩ := step_img I hwf hup env henv cur st hden (String.ofList a) true
      cases hr : stepCompS up t cur (String.ofList a) with
      | error e =>
        rw [hr] at hrel
        obtain ⟨_, hl⟩ := hrel
        simp only
        rw [stepCompS_err hr]
        exact walk_fail V env _ true _ hl _ d1 hv
      | ok pn =>
        obtain ⟨p, nd⟩ := pn
        rw [hr] at hrel hgood hnh
        unfold StepRel at hrel
        simp only at hrel hgood hnh ⊢
        cases nd with
        | file fc =>
          simp only [Node.isDir, Bool.false_eq_true, if_false] at hrel
          exact walk_fail V env _ true _ hrel _ d1 hv
        | dir s' c' =>
          simp only [Node.isDir, if_true] at hrel
          obtain ⟨de, hl, hdir, hgp, hsf⟩ := hrel
          have hden' : Den d up t cl p (DirEntry.dirStream d.fs de) := ⟨⟨s', c', hgp⟩, hsf trivial⟩
          obtain ⟨V'⟩ := den_view I hden'
          simp only at hgood hnh ⊢
          refine mwalk_step V env (String.ofList a) de hl hdir (fun sub => Wk f sub (String.ofList r)) P hP
            (fun v d' hp => hdropP v d' p _ hp hden') (fun d4 hv4 => V'.drop_sim d4 hv4) _ ?_ ?_ d1 hv hc
          · exact hnh
          · intro d4 hv4 hc4
            exact ih r (by omega) f (by omega) p _ hden' hgood hnh hL d4 hv4 hc4

end walk

end SlotTreeImg
end FatVerif
