import FatVerif.Proofs.LfnBuilder
/-! The `Vec` builder on runs of long-name slots: continuing slots fill the buffer downwards (`tail_run`),
    any mismatch kills the run (`tail_mismatch`). -/
namespace FatVerif
namespace Lfn
open LongNameBuilder

/-- `T` = the slots carrying ordinals `j, j-1, …, 1` (on-disk order), none flagged `0x40`, all with checksum `c` -/
def TailOk (c : Nat) : List (List Nat) → Nat → Prop
  | [], j => j = 0
  | s :: T, j => 1 ≤ j ∧ order s % 32 = j ∧ ¬ (order s / 64 % 2 = 1) ∧ chk s = c ∧ TailOk c T (j - 1)

/-- name units held by such a tail, in name order (ordinal 1 first) -/
def tailUnits : List (List Nat) → List Nat
  | [] => []
  | s :: T => tailUnits T ++ units s

theorem tailUnits_length (c : Nat) : ∀ T j, TailOk c T j → (tailUnits T).length = 13 * j := by
  intro T
  induction T with
  | nil => intro j h; simp [TailOk] at h; simp [tailUnits, h]
  | cons s T ih =>
    intro j h
    obtain ⟨h1, _, _, _, h5⟩ := h
    simp [tailUnits, ih _ h5]; omega

/-- cleared `Vec` builder -/
def DeadV (b : LongNameBuilder) : Prop := b.index = 0 ∧ b.buf = ⟨[], 0⟩

theorem DeadV_new : DeadV (new true) := by simp [DeadV, new, LfnBuf.new]
theorem DeadV_clear (b : LongNameBuilder) : DeadV (clear true b) := by simp [DeadV, clear, LfnBuf.clear, LfnBuf.new]

theorem DeadV_WF (b : LongNameBuilder) (h : DeadV b) : WF true b := by
  obtain ⟨h1, h2⟩ := h
  simp [WF, h1, h2]

/-- after `process`: either cleared, or `index`/`chksum` are the slot's -/
theorem process_result (b : LongNameBuilder) (s : List Nat) :
    DeadV (process true b s) ∨
    ((process true b s).index = order s % 32 ∧ (process true b s).chksum = chk s ∧ 1 ≤ order s % 32) := by
  by_cases h1 : order s % 32 = 0 ∨ order s % 32 > 20
  · left; rw [process_invalid _ _ _ h1]; exact DeadV_clear b
  · by_cases h2 : order s / 64 % 2 = 1
    · right; rw [process_last _ _ _ h1 h2]; simp; omega
    · by_cases h3 : b.index = 0 ∨ order s % 32 ≠ b.index - 1 ∨ chk s ≠ b.chksum
      · left; rw [process_mismatch _ _ _ h1 h2 h3]; exact DeadV_clear b
      · right; rw [process_cont _ _ _ h1 h2 h3]; simp; omega

theorem DeadV_process (b : LongNameBuilder) (s : List Nat) (h : DeadV b) (hs : ¬ (order s / 64 % 2 = 1)) :
    DeadV (process true b s) := by
  by_cases h1 : order s % 32 = 0 ∨ order s % 32 > 20
  · rw [process_invalid _ _ _ h1]; exact DeadV_clear b
  · rw [process_mismatch _ _ _ h1 hs (Or.inl h.1)]; exact DeadV_clear b

theorem DeadV_foldl (c : Nat) : ∀ T j b, TailOk c T j → DeadV b → DeadV (T.foldl (process true) b) := by
  intro T
  induction T with
  | nil => intro _ _ _ h; exact h
  | cons s T ih =>
    intro j b ht hb
    obtain ⟨_, _, h3, _, h5⟩ := ht
    exact ih _ _ h5 (DeadV_process b s hb h3)

theorem finish_DeadV (b : LongNameBuilder) (n : List Nat) (h : DeadV b) : finish true b n = [] := by
  obtain ⟨h1, h2⟩ := h
  simp [finish, validateChksum, intoBuf, h1, h2, LfnBuf.asUnits]

/-- a builder that does not expect ordinal `j` with checksum `c` next yields no name after such a tail -/
theorem tail_mismatch (c : Nat) (n : List Nat) (hn : lfnChecksum n = c) :
    ∀ T j b, TailOk c T j → WF true b → (b.index ≠ j + 1 ∨ b.chksum ≠ c) →
      finish true (T.foldl (process true) b) n = [] := by
  intro T j b ht hw hm
  cases T with
  | nil =>
    simp [TailOk] at ht
    subst ht
    obtain ⟨h1, h2, h3, h4, h5⟩ := hw
    simp only [List.foldl_nil]
    by_cases hi0 : b.index = 0
    · have hl := h4 hi0
      simp at h5
      have : b.buf.units = [] := List.eq_nil_of_length_eq_zero (by omega)
      simp [finish, validateChksum, intoBuf, hi0, LfnBuf.asUnits, this]
    · by_cases hc : lfnChecksum n = b.chksum
      · have hi1 : b.index ≠ 1 := by
          rcases hm with h | h
          · simpa using h
          · exact absurd (hn ▸ hc.symm) h
        simp [finish, validateChksum, intoBuf, hi0, hc, hi1, clear, LfnBuf.clear, LfnBuf.new, LfnBuf.asUnits]
      · simp [finish, validateChksum, intoBuf, hi0, hc, clear, LfnBuf.clear, LfnBuf.new, LfnBuf.asUnits]
  | cons s T =>
    obtain ⟨h1, h2, h3, h4, h5⟩ := ht
    simp only [List.foldl_cons]
    have hd : DeadV (process true b s) := by
      by_cases a1 : order s % 32 = 0 ∨ order s % 32 > 20
      · rw [process_invalid _ _ _ a1]; exact DeadV_clear b
      · have : b.index = 0 ∨ order s % 32 ≠ b.index - 1 ∨ chk s ≠ b.chksum := by
          by_cases hi0 : b.index = 0
          · exact Or.inl hi0
          · rcases hm with h | h
            · right; left; omega
            · right; right; rw [h4]; exact fun e => h e.symm
        rw [process_mismatch _ _ _ a1 h3 this]; exact DeadV_clear b
    exact finish_DeadV _ n (DeadV_foldl c T _ _ h5 hd)

/-- a builder expecting ordinal `j` with checksum `c` is completed by such a tail: ordinal 1 reached, the buffer is the
    tail's units followed by what was already there from `13·j` on -/
theorem tail_run (c : Nat) : ∀ T j (b : LongNameBuilder), TailOk c T j → b.index = j + 1 → b.chksum = c →
    b.buf.units.length = b.buf.len → 13 * (j + 1) ≤ b.buf.len → j + 1 ≤ 20 →
    (T.foldl (process true) b).index = 1 ∧ (T.foldl (process true) b).chksum = c ∧
    (T.foldl (process true) b).buf.len = b.buf.len ∧
    (T.foldl (process true) b).buf.units = tailUnits T ++ b.buf.units.drop (13 * j) := by
  intro T
  induction T with
  | nil =>
    intro j b ht hi hc _ _ _
    simp [TailOk] at ht
    subst ht
    simp [tailUnits, hi, hc]
  | cons s T ih =>
    intro j b ht hi hc hl hlen h20
    obtain ⟨h1, h2, h3, h4, h5⟩ := ht
    simp only [List.foldl_cons]
    -- one continuing step
    obtain ⟨b', hstep, e1, e2, e3, e4⟩ : ∃ b', process true b s = b' ∧ b'.index = j ∧ b'.chksum = c ∧
        b'.buf.len = b.buf.len ∧ b'.buf.units = setSlice b.buf.units (13 * (j - 1)) (units s) := by
      have a1 : ¬ (order s % 32 = 0 ∨ order s % 32 > 20) := by omega
      have a3 : ¬ (b.index = 0 ∨ order s % 32 ≠ b.index - 1 ∨ chk s ≠ b.chksum) := by
        rw [h4, hc]; omega
      refine ⟨_, rfl, ?_⟩
      rw [process_cont _ _ _ a1 h3 a3]
      simp [h2, hi, hc]
    rw [hstep]
    have hpos : 13 * (j - 1) + 13 ≤ b.buf.units.length := by omega
    have := ih (j - 1) b' h5 (by omega) e2
      (by rw [e4, e3, setSlice_length _ _ _ (units_length s) hpos, hl]) (by omega) (by omega)
    rw [e3, e4] at this
    obtain ⟨r1, r2, r3, r4⟩ := this
    refine ⟨r1, r2, r3, ?_⟩
    rw [r4]
    simp only [tailUnits, List.append_assoc]
    congr 1
    rw [setSlice_drop _ _ _ (by omega)]
    congr 2
    omega

end Lfn
end FatVerif
