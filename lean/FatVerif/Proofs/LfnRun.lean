import FatVerif.Proofs.LfnBuilder
/-! The builder (either buffer variant) on runs of long-name slots: continuing slots fill the live part of the buffer
    downwards (`tail_run`), any mismatch kills the run (`tail_mismatch`). -/
namespace FatVerif
namespace Lfn
open LongNameBuilder

/-- `T` = the slots carrying ordinals `j, j-1, …, 1` (on-disk order), none flagged `0x40`, all with checksum `c` -/
def TailOk (c : Nat) : List (List Nat) → Nat → Prop
  | [], j => j = 0
  | s :: T, j => 1 ≤ j ∧ order s % 32 = j ∧ ¬ (order s / 64 % 2 = 1) ∧ chk s = c ∧ TailOk c T (j - 1)

/-- name units held by such a tail, in name order (ordinal 1 first) -/
def tailUnits : List (List Nat) → List Nat
  | [] => []
  | s :: T => tailUnits T ++ units s

theorem tailUnits_length (c : Nat) : ∀ T j, TailOk c T j → (tailUnits T).length = 13 * j := by
  intro T
  induction T with
  | nil => intro j h; simp [TailOk] at h; simp [tailUnits, h]
  | cons s T ih =>
    intro j h
    obtain ⟨h1, _, _, _, h5⟩ := h
    simp [tailUnits, ih _ h5]; omega

/-- cleared builder -/
def Dead (alloc : Bool) (b : LongNameBuilder) : Prop := b.index = 0 ∧ b.buf = LfnBuf.new alloc

theorem Dead_new (alloc : Bool) : Dead alloc (new alloc) := ⟨rfl, rfl⟩
theorem Dead_clear (alloc : Bool) (b : LongNameBuilder) : Dead alloc (clear alloc b) := ⟨rfl, rfl⟩

theorem Dead_WF (alloc : Bool) (b : LongNameBuilder) (h : Dead alloc b) : WF alloc b := by
  obtain ⟨h1, h2⟩ := h
  have := WF_new alloc
  simpa [WF, new, h1, h2] using this

/-- after `process`: either cleared, or `index`/`chksum` are the slot's -/
theorem process_result (alloc : Bool) (b : LongNameBuilder) (s : List Nat) :
    Dead alloc (process alloc b s) ∨
    ((process alloc b s).index = order s % 32 ∧ (process alloc b s).chksum = chk s ∧ 1 ≤ order s % 32) := by
  by_cases h1 : order s % 32 = 0 ∨ order s % 32 > 20
  · left; rw [process_invalid _ _ _ h1]; exact Dead_clear alloc b
  · by_cases h2 : order s / 64 % 2 = 1
    · right; rw [process_last _ _ _ h1 h2]; simp; omega
    · by_cases h3 : b.index = 0 ∨ order s % 32 ≠ b.index - 1 ∨ chk s ≠ b.chksum
      · left; rw [process_mismatch _ _ _ h1 h2 h3]; exact Dead_clear alloc b
      · right; rw [process_cont _ _ _ h1 h2 h3]; simp; omega

theorem Dead_process (alloc : Bool) (b : LongNameBuilder) (s : List Nat) (h : Dead alloc b)
    (hs : ¬ (order s / 64 % 2 = 1)) : Dead alloc (process alloc b s) := by
  by_cases h1 : order s % 32 = 0 ∨ order s % 32 > 20
  · rw [process_invalid _ _ _ h1]; exact Dead_clear alloc b
  · rw [process_mismatch _ _ _ h1 hs (Or.inl h.1)]; exact Dead_clear alloc b

theorem Dead_foldl (alloc : Bool) (c : Nat) : ∀ T j b, TailOk c T j → Dead alloc b →
    Dead alloc (T.foldl (process alloc) b) := by
  intro T
  induction T with
  | nil => intro _ _ _ h; exact h
  | cons s T ih =>
    intro j b ht hb
    obtain ⟨_, _, h3, _, h5⟩ := ht
    exact ih _ _ h5 (Dead_process alloc b s hb h3)

theorem WF_foldl (alloc : Bool) : ∀ (T : List (List Nat)) b, WF alloc b → WF alloc (T.foldl (process alloc) b) := by
  intro T
  induction T with
  | nil => intro _ h; exact h
  | cons s T ih => intro b h; exact ih _ (WF_process alloc b s h)

theorem finish_Dead (alloc : Bool) (b : LongNameBuilder) (n : List Nat) (h : Dead alloc b) :
    finish alloc b n = [] := by
  obtain ⟨h1, h2⟩ := h
  simp [finish, validateChksum, intoBuf, h1, h2, new_asUnits]

theorem finish_clear (alloc : Bool) (b : LongNameBuilder) (n : List Nat) : finish alloc (clear alloc b) n = [] :=
  finish_Dead alloc _ n (Dead_clear alloc b)

/-- a builder that does not expect ordinal `j` with checksum `c` next yields no name after such a tail -/
theorem tail_mismatch (alloc : Bool) (c : Nat) (n : List Nat) (hn : lfnChecksum n = c) :
    ∀ T j b, TailOk c T j → WF alloc b → (b.index ≠ j + 1 ∨ b.chksum ≠ c) →
      finish alloc (T.foldl (process alloc) b) n = [] := by
  intro T j b ht hw hm
  cases T with
  | nil =>
    simp [TailOk] at ht
    subst ht
    obtain ⟨h1, h2, h3, h4, h5⟩ := hw
    simp only [List.foldl_nil]
    by_cases hi0 : b.index = 0
    · have hl := h4 hi0
      simp [finish, validateChksum, intoBuf, hi0, LfnBuf.asUnits, hl]
    · by_cases hc : lfnChecksum n = b.chksum
      · have hi1 : b.index ≠ 1 := by
          rcases hm with h | h
          · simpa using h
          · exact absurd (hn ▸ hc.symm) h
        simp [finish, validateChksum, intoBuf, hi0, hc, hi1, clear, LfnBuf.clear, new_asUnits]
      · simp [finish, validateChksum, intoBuf, hi0, hc, clear, LfnBuf.clear, new_asUnits]
  | cons s T =>
    obtain ⟨h1, h2, h3, h4, h5⟩ := ht
    simp only [List.foldl_cons]
    have hd : Dead alloc (process alloc b s) := by
      by_cases a1 : order s % 32 = 0 ∨ order s % 32 > 20
      · rw [process_invalid _ _ _ a1]; exact Dead_clear alloc b
      · have : b.index = 0 ∨ order s % 32 ≠ b.index - 1 ∨ chk s ≠ b.chksum := by
          by_cases hi0 : b.index = 0
          · exact Or.inl hi0
          · rcases hm with h | h
            · right; left; omega
            · right; right; rw [h4]; exact fun e => h e.symm
        rw [process_mismatch _ _ _ a1 h3 this]; exact Dead_clear alloc b
    exact finish_Dead alloc _ n (Dead_foldl alloc c T _ _ h5 hd)

/-- a builder expecting ordinal `j` with checksum `c` is completed by such a tail: ordinal 1 reached, the live units are
    the tail's units followed by what was already there from `13·j` on -/
theorem tail_run (alloc : Bool) (c : Nat) : ∀ T j (b : LongNameBuilder), TailOk c T j → WF alloc b →
    b.index = j + 1 → b.chksum = c →
    (T.foldl (process alloc) b).index = 1 ∧ (T.foldl (process alloc) b).chksum = c ∧
    (T.foldl (process alloc) b).buf.len = b.buf.len ∧
    (T.foldl (process alloc) b).buf.asUnits = tailUnits T ++ b.buf.asUnits.drop (13 * j) := by
  intro T
  induction T with
  | nil =>
    intro j b ht _ hi hc
    simp [TailOk] at ht
    subst ht
    simp [tailUnits, hi, hc]
  | cons s T ih =>
    intro j b ht hw hi hc
    obtain ⟨h1, h2, h3, h4, h5⟩ := ht
    simp only [List.foldl_cons]
    have hw' := WF_process alloc b s hw
    have hll := WF_len_le alloc b hw
    have hidx := hw.2.2.1
    -- one continuing step
    obtain ⟨b', hstep, e1, e2, e3, e4⟩ : ∃ b', process alloc b s = b' ∧ b'.index = j ∧ b'.chksum = c ∧
        b'.buf.len = b.buf.len ∧ b'.buf.units = setSlice b.buf.units (13 * (j - 1)) (units s) := by
      have a1 : ¬ (order s % 32 = 0 ∨ order s % 32 > 20) := by have := hw.1; omega
      have a3 : ¬ (b.index = 0 ∨ order s % 32 ≠ b.index - 1 ∨ chk s ≠ b.chksum) := by
        rw [h4, hc]; omega
      refine ⟨_, rfl, ?_⟩
      rw [process_cont _ _ _ a1 h3 a3]
      simp [h2, hi, hc]
    rw [hstep] at hw' ⊢
    have hlive : b'.buf.asUnits = setSlice b.buf.asUnits (13 * (j - 1)) (units s) := by
      unfold LfnBuf.asUnits
      rw [e3, e4, setSlice_take _ _ _ _ (units_length s) (by omega) hll]
    have := ih (j - 1) b' h5 hw' (by omega) e2
    obtain ⟨r1, r2, r3, r4⟩ := this
    refine ⟨r1, r2, by rw [r3, e3], ?_⟩
    rw [r4, hlive]
    simp only [tailUnits, List.append_assoc]
    congr 1
    rw [setSlice_drop _ _ _ (by rw [asUnits_length _ hll]; omega)]
    congr 2
    omega

end Lfn
end FatVerif
