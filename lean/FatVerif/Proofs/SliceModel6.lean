import FatVerif.Proofs.SliceModel5
import FatVerif.Proofs.FatChains
/-! WHERE the model writes, part 6 (C11): the cluster a `File::write` goes to lies in `[2, total_clusters + 2)` — for a
    freshly allocated cluster unconditionally, for a cluster read from the FAT under the `FatWf` invariant of the FAT in
    the image. Bridge: what a successful `get_next_cluster` returns is the decoded FAT entry of the image
    (`imgFatView`). -/
namespace FatVerif

/-! ### successful reads return the bytes of the image -/

theorem run_progRead_ok (n : Nat) (d : Dev) {bs : List Nat} {d1 : Dev} (hr : run (Prog.read n) d = (.ok bs, d1)) :
    bs = d.img.read d.pos (min n (d.img.size - d.pos)) ∧ d1.img = d.img ∧ d1.fs = d.fs := by
  have hc : (d.count .r).img = d.img ∧ (d.count .r).pos = d.pos ∧ (d.count .r).fs = d.fs := by unfold Dev.count; simp
  simp only [Prog.read, run, stepOp, devCall, devCallCore] at hr
  split at hr
  · cases hr
  · cases hr
    refine ⟨?_, ?_, ?_⟩
    · simp only [hc.1, hc.2.1]
    · exact hc.1
    · exact hc.2.2

theorem run_seekStart_img (n : Nat) (d : Dev) {r d1} (hr : run (Prog.seekStart n) d = (r, d1)) : d1.img = d.img := by
  have hc : (d.count .s).img = d.img := by unfold Dev.count; simp
  simp only [Prog.seekStart, run, stepOp, devCall, devCallCore] at hr
  split at hr
  · cases hr; exact hc
  · cases hr; exact hc

/-- a successful `DiskSlice::read` of a slice lying inside the device: the bytes of the image at the slice position -/
theorem slice_read_ok (s : DiskSlice) (n : Nat) (d : Dev) (hle : s.offset ≤ s.size)
    (hdev : s.beginOff + s.size ≤ d.img.size) {bs : List Nat} {s' : DiskSlice} {d' : Dev}
    (hr : run (s.read n) d = (.ok (bs, s'), d')) :
    bs = d.img.read (s.beginOff + s.offset) (min n (s.size - s.offset)) ∧
    s' = { s with offset := s.offset + min n (s.size - s.offset) } ∧ d'.img = d.img ∧ d'.fs = d.fs := by
  unfold DiskSlice.read at hr
  rcases run_bind_cases hr with ⟨v1, d1, h1, h2⟩ | ⟨e, _, he⟩
  · have hs := run_inner_seek s _ d h1
    have hpos := hs.2.2 _ rfl
    have himg1 : d1.img = d.img := by
      have h1' : run (Prog.bind (Prog.seekStart (s.beginOff + s.offset)) (fun m => Prog.pure (m, ()))) d = (.ok v1, d1) := by
        unfold DiskSlice.inner at h1
        split at h1 <;> exact h1
      rcases run_bind_cases h1' with ⟨m, d2, h3, h4⟩ | ⟨e, _, he⟩
      · simp only [run] at h4; cases h4; exact run_seekStart_img _ d h3
      · cases he
    rcases run_bind_cases h2 with ⟨⟨got, u⟩, d2, h3, h4⟩ | ⟨e, _, he⟩
    · have h3' : run (Prog.bind (Prog.read (min n (s.size - s.offset))) (fun bs => Prog.pure (bs, ()))) d1 = (.ok (got, u), d2) := by
        unfold DiskSlice.inner at h3
        split at h3 <;> exact h3
      rcases run_bind_cases h3' with ⟨b, d3, h5, h6⟩ | ⟨e, _, he⟩
      · simp only [run] at h6; cases h6
        obtain ⟨hb, hi, hf⟩ := run_progRead_ok _ d1 h5
        have h4' : run (Prog.pure (got, ({ s with offset := s.offset + got.length } : DiskSlice))) d2 = (.ok (bs, s'), d') := h4
        simp only [run] at h4'; cases h4'
        have hmin : min (min n (s.size - s.offset)) (d1.img.size - d1.pos) = min n (s.size - s.offset) := by
          rw [himg1, hpos]; omega
        rw [hmin, hpos, himg1] at hb
        refine ⟨hb, ?_, hi.trans himg1, hf.trans hs.1⟩
        rw [hb, Img.read_length]
      · cases he
    · cases he
  · cases he

/-- a successful `read_exact` on a slice inside the device is ONE slice read of the whole length -/
theorem slice_readExact_ok (s : DiskSlice) (n : Nat) (d : Dev) (hle : s.offset ≤ s.size)
    (hdev : s.beginOff + s.size ≤ d.img.size) {bs : List Nat} {s' : DiskSlice} {d' : Dev}
    (hr : run (readExact DiskSlice.strm s n) d = (.ok (bs, s'), d')) :
    s.offset + n ≤ s.size ∧ bs = d.img.read (s.beginOff + s.offset) n ∧
    s' = { s with offset := s.offset + n } ∧ d'.img = d.img ∧ d'.fs = d.fs := by
  unfold readExact at hr
  unfold readExactLoop at hr
  split at hr
  · rename_i h0
    have hr' : run (Prog.pure (([] : List Nat), s)) d = (.ok (bs, s'), d') := hr
    simp only [run] at hr'; cases hr'
    subst h0
    exact ⟨by omega, rfl, rfl, rfl, rfl⟩
  · rename_i hn
    rcases run_bind_cases hr with ⟨⟨got, s1⟩, d1, h1, h2⟩ | ⟨e, _, he⟩
    · have h1' : run (s.read n) d = (.ok (got, s1), d1) := h1
      obtain ⟨hg, hs1, hi1, hf1⟩ := slice_read_ok s n d hle hdev h1'
      have hlen : got.length = min n (s.size - s.offset) := by rw [hg, Img.read_length]
      dsimp only at h2
      split at h2
      · simp only [run] at h2; cases h2
      · rename_i hgl
        by_cases hfull : got.length = n
        · rw [hfull, Nat.sub_self] at h2
          obtain ⟨k, hk⟩ : ∃ k, n = k + 1 := ⟨n - 1, by omega⟩
          rw [hk] at h2
          unfold readExactLoop at h2
          simp only [if_true] at h2
          have h2' : run (Prog.pure (([] : List Nat) ++ got, s1)) d1 = (.ok (bs, s'), d') := h2
          simp only [run] at h2'; cases h2'
          have hmn : min n (s.size - s.offset) = n := by omega
          refine ⟨by omega, by rw [List.nil_append, hg, hmn], by rw [hs1, hmn], hi1, hf1⟩
        · exfalso
          have hshort : got.length = s.size - s.offset := by omega
          obtain ⟨k, hk⟩ : ∃ k, n = k + 1 := ⟨n - 1, by omega⟩
          rw [hk] at h2
          unfold readExactLoop at h2
          rw [if_neg (by omega)] at h2
          rcases run_bind_cases h2 with ⟨⟨got2, s2⟩, d2, h3, h4⟩ | ⟨e, _, he⟩
          · have h3' : run (s1.read (k + 1 - got.length)) d1 = (.ok (got2, s2), d2) := h3
            have hs1le : s1.offset ≤ s1.size := by rw [hs1]; show s.offset + _ ≤ s.size; omega
            obtain ⟨hg2, _, _, _⟩ := slice_read_ok s1 _ d1 hs1le (by rw [hs1, hi1]; exact hdev) h3'
            have hl2 : got2.length = 0 := by
              rw [hg2, Img.read_length, hs1]
              show min _ (s.size - (s.offset + min n (s.size - s.offset))) = 0
              omega
            dsimp only at h4
            rw [if_pos hl2] at h4
            simp only [run] at h4; cases h4
          · cases he
    · cases he

/-! ### the decoded FAT of the image -/

theorem Img.read_getD' (i : Img) (off len k : Nat) (h : k < len) : (i.read off len).getD k 0 = i.getByte (off + k) := by
  simp [Img.read, List.getD, h]

/-- the raw FAT entry of cluster `c` in the image, for a FAT starting at byte `B` (what `FatTrait::get_raw` reads) -/
def imgFatRaw (ft : FatType) (B : Nat) (img : Img) (c : Nat) : Nat :=
  match ft with
  | .fat12 => if c % 2 = 0 then img.le16 (B + (c + c / 2)) % 4096 else img.le16 (B + (c + c / 2)) / 16
  | .fat16 => img.le16 (B + c * 2)
  | .fat32 => img.le32 (B + c * 4)

/-- the decoded FAT (first copy of the FAT slice) of the image of a mounted volume -/
def imgFatView (fs : FsState) (img : Img) : Nat → FatValue :=
  fun c => Table.classify fs.fatType c (imgFatRaw fs.fatType (fatSliceOf fs).beginOff img c)

theorem run_slice_seek_start (s : DiskSlice) (n : Nat) (d : Dev) {t : Nat} {s1 : DiskSlice} {d' : Dev}
    (hr : run (s.seek (.start n)) d = (.ok (t, s1), d')) : d' = d ∧ t = n ∧ s1 = { s with offset := n } ∧ n ≤ s.size := by
  unfold DiskSlice.seek at hr
  dsimp only at hr
  split at hr
  · simp only [run] at hr; cases hr
  · have hr' : run (Prog.pure (n, ({ s with offset := n } : DiskSlice))) d = (.ok (t, s1), d') := hr
    simp only [run] at hr'; cases hr'
    exact ⟨rfl, rfl, rfl, by omega⟩

theorem slice_readU16_ok (s : DiskSlice) (d : Dev) (hle : s.offset ≤ s.size) (hdev : s.beginOff + s.size ≤ d.img.size)
    {v : Nat} {s' : DiskSlice} {d' : Dev} (hr : run (readU16 DiskSlice.strm s) d = (.ok (v, s'), d')) :
    v = d.img.le16 (s.beginOff + s.offset) ∧ d'.img = d.img ∧ d'.fs = d.fs := by
  unfold readU16 at hr
  rcases run_bind_cases hr with ⟨⟨bs, s1⟩, d1, h1, h2⟩ | ⟨e, _, he⟩
  · obtain ⟨_, hb, _, hi, hf⟩ := slice_readExact_ok s 2 d hle hdev h1
    have h2' : run (Prog.pure (le16 (bs.getD 0 0) (bs.getD 1 0), s1)) d1 = (.ok (v, s'), d') := h2
    simp only [run] at h2'; cases h2'
    refine ⟨?_, hi, hf⟩
    rw [hb, Img.read_getD' _ _ _ _ (by omega), Img.read_getD' _ _ _ _ (by omega)]
    simp [Img.le16, le16]
  · cases he

theorem slice_readU32_ok (s : DiskSlice) (d : Dev) (hle : s.offset ≤ s.size) (hdev : s.beginOff + s.size ≤ d.img.size)
    {v : Nat} {s' : DiskSlice} {d' : Dev} (hr : run (readU32 DiskSlice.strm s) d = (.ok (v, s'), d')) :
    v = d.img.le32 (s.beginOff + s.offset) ∧ d'.img = d.img ∧ d'.fs = d.fs := by
  unfold readU32 at hr
  rcases run_bind_cases hr with ⟨⟨bs, s1⟩, d1, h1, h2⟩ | ⟨e, _, he⟩
  · obtain ⟨_, hb, _, hi, hf⟩ := slice_readExact_ok s 4 d hle hdev h1
    have h2' : run (Prog.pure (le32 (bs.getD 0 0) (bs.getD 1 0) (bs.getD 2 0) (bs.getD 3 0), s1)) d1 = (.ok (v, s'), d') := h2
    simp only [run] at h2'; cases h2'
    refine ⟨?_, hi, hf⟩
    rw [hb, Img.read_getD' _ _ _ _ (by omega), Img.read_getD' _ _ _ _ (by omega), Img.read_getD' _ _ _ _ (by omega),
      Img.read_getD' _ _ _ _ (by omega)]
    simp [Img.le32, le32]
  · cases he

/-- what a successful `get_raw` on a FAT slice inside the device returns: the raw entry of the image -/
theorem slice_getRaw_ok (ft : FatType) (s : DiskSlice) (c : Nat) (d : Dev) (hdev : s.beginOff + s.size ≤ d.img.size)
    {v : Nat} {s' : DiskSlice} {d' : Dev} (hr : run (Table.getRaw DiskSlice.strm ft s c) d = (.ok (v, s'), d')) :
    v = imgFatRaw ft s.beginOff d.img c ∧ d'.img = d.img ∧ d'.fs = d.fs := by
  cases ft with
  | fat16 =>
    unfold Table.getRaw at hr
    dsimp only at hr
    rcases run_bind_cases hr with ⟨⟨t, s1⟩, d1, h1, h2⟩ | ⟨e, _, he⟩
    · obtain ⟨hd1, _, hs1, hle⟩ := run_slice_seek_start s _ d h1
      subst hd1
      dsimp only at h2
      have := slice_readU16_ok s1 d1 (by rw [hs1]; exact hle) (by rw [hs1]; exact hdev) h2
      rw [hs1] at this
      exact this
    · cases he
  | fat32 =>
    unfold Table.getRaw at hr
    dsimp only at hr
    rcases run_bind_cases hr with ⟨⟨t, s1⟩, d1, h1, h2⟩ | ⟨e, _, he⟩
    · obtain ⟨hd1, _, hs1, hle⟩ := run_slice_seek_start s _ d h1
      subst hd1
      dsimp only at h2
      have := slice_readU32_ok s1 d1 (by rw [hs1]; exact hle) (by rw [hs1]; exact hdev) h2
      rw [hs1] at this
      exact this
    · cases he
  | fat12 =>
    unfold Table.getRaw at hr
    dsimp only at hr
    rcases run_bind_cases hr with ⟨⟨t, s1⟩, d1, h1, h2⟩ | ⟨e, _, he⟩
    · obtain ⟨hd1, _, hs1, hle⟩ := run_slice_seek_start s _ d h1
      subst hd1
      dsimp only at h2
      rcases run_bind_cases h2 with ⟨⟨packed, s2⟩, d2, h3, h4⟩ | ⟨e, _, he⟩
      · have h5 := slice_readU16_ok s1 d1 (by rw [hs1]; exact hle) (by rw [hs1]; exact hdev) h3
        rw [hs1] at h5
        have h4' : run (Prog.pure ((if c % 2 = 0 then packed % 4096 else packed / 16), s2)) d2 = (.ok (v, s'), d') := h4
        simp only [run] at h4'; cases h4'
        refine ⟨?_, h5.2.1, h5.2.2⟩
        simp only [imgFatRaw, h5.1]
      · cases he
    · cases he

/-- a successful `get_next_cluster` returns the link of the decoded FAT entry of the image -/
theorem nextCluster_ok (c : Nat) (d : Dev)
    (hdev : (fatSliceOf d.fs).beginOff + (fatSliceOf d.fs).size ≤ d.img.size) {n : Nat} {d' : Dev}
    (hr : run (nextCluster c) d = (.ok (some n), d')) :
    imgFatView d.fs d.img c = .data n ∧ d'.img = d.img ∧ d'.fs = d.fs := by
  unfold nextCluster at hr
  rcases run_bind_cases hr with ⟨fs, d0, h0, hr⟩ | ⟨e, _, he⟩
  rotate_left
  · cases he
  simp only [Prog.getFs, run, stepOp] at h0
  cases h0
  dsimp only at hr
  rcases run_bind_cases hr with ⟨⟨r, it'⟩, d1, h1, h2⟩ | ⟨e, _, he⟩
  rotate_left
  · cases he
  unfold Table.CIter.next at h1
  simp only [Bool.false_eq_true, if_false] at h1
  rcases run_bind_cases h1 with ⟨⟨v, fat⟩, d2, h3, h4⟩ | ⟨e, _, he⟩
  rotate_left
  · cases he
  unfold Table.get at h3
  rcases run_bind_cases h3 with ⟨⟨raw, s2⟩, d3, h5, h6⟩ | ⟨e, _, he⟩
  rotate_left
  · cases he
  obtain ⟨hraw, hi, hf⟩ := slice_getRaw_ok _ _ c d hdev h5
  have h6' : run (Prog.pure (Table.classify d.fs.fatType c raw, s2)) d3 = (.ok (v, fat), d2) := h6
  simp only [run] at h6'; cases h6'
  dsimp only at h4
  have h4' : run (Prog.pure _) d2 = ((.ok (r, it') : Except Err _), d1) := h4
  simp only [run] at h4'
  cases h4'
  dsimp only at h2
  have hview : imgFatView d.fs d.img c = Table.classify d.fs.fatType c raw := by
    simp only [imgFatView, hraw]
  rw [hview]
  cases hcl : Table.classify d.fs.fatType c raw with
  | data m =>
    rw [hcl] at h2
    simp only [Option.map] at h2
    cases h2
    exact ⟨rfl, hi, hf⟩
  | free => rw [hcl] at h2; simp only [Option.map] at h2; cases h2
  | bad => rw [hcl] at h2; simp only [Option.map] at h2; cases h2
  | eoc => rw [hcl] at h2; simp only [Option.map] at h2; cases h2

/-! ### a freshly allocated cluster lies below `total + 2` -/

namespace Table
section generic
variable {σ : Type} {fs0 : FsState} {sz : Nat} {C : Nat → List Nat → Prop} {S : Strm σ} {Inv : σ → Prop}
  (hS : StrmGS fs0 sz C S Inv)
include hS

theorem findFree12Loop_lt : ∀ fuel s c endC packed, Inv s → c < endC →
    GS fs0 sz C (findFree12Loop S fuel s c endC packed) (fun r => r.1 < endC ∧ Inv r.2) := by
  intro fuel
  induction fuel with
  | zero => intros; unfold findFree12Loop; exact GS.fail _
  | succ k ih =>
    intro s c endC packed hs hc
    unfold findFree12Loop
    dsimp only
    repeat (first
      | exact GS.fail _
      | exact GS.pure ⟨hc, hs⟩
      | (refine GS.bind (readU16_gs hS s hs) ?_
         rintro ⟨p, s1⟩ hs1
         exact ih _ _ _ _ hs1 (by omega))
      | (refine GS.bind (readU8_gs hS s hs) ?_
         rintro ⟨b, s1⟩ hs1
         exact ih _ _ _ _ hs1 (by omega))
      | split)

theorem findFreeLoop_lt (ft) : ∀ fuel s c endC, Inv s →
    GS fs0 sz C (findFreeLoop S ft fuel s c endC) (fun r => r.1 < endC ∧ Inv r.2) := by
  intro fuel
  induction fuel with
  | zero => intros; unfold findFreeLoop; exact GS.fail _
  | succ k ih =>
    intro s c endC hs
    unfold findFreeLoop
    split
    · rename_i hc
      refine GS.bind (Q := fun r => Inv r.2) ?_ ?_
      · gs [readU16_gs hS, readU32_gs hS]
      · rintro ⟨v, s1⟩ hs1
        dsimp only
        split
        · exact GS.pure ⟨hc, hs1⟩
        · exact ih _ _ _ hs1
    · exact GS.fail _

theorem findFree_lt (ft s start endC) (hs : Inv s) :
    GS fs0 sz C (findFree S ft s start endC) (fun r => r.1 < endC ∧ Inv r.2) := by
  unfold findFree
  split
  · split
    · exact GS.fail _
    · rename_i hlt
      refine GS.bind (hS.seek s _ hs) ?_
      rintro ⟨_, s1⟩ hs1
      refine GS.bind (readU16_gs hS s1 hs1) ?_
      rintro ⟨packed, s2⟩ hs2
      exact findFree12Loop_lt hS _ _ _ _ _ hs2 (by omega)
  · refine GS.bind (hS.seek s _ hs) ?_
    rintro ⟨_, s1⟩ hs1
    exact findFreeLoop_lt hS _ _ _ _ _ hs1
  · refine GS.bind (hS.seek s _ hs) ?_
    rintro ⟨_, s1⟩ hs1
    exact findFreeLoop_lt hS _ _ _ _ _ hs1

/-- `alloc_cluster` returns a cluster number below `total + 2` -/
theorem allocCluster_lt (ft s prev hint total) (hs : Inv s) :
    GS fs0 sz C (allocCluster S ft s prev hint total) (fun r => r.1 < total + 2) := by
  unfold allocCluster
  dsimp only
  refine GS.bind (Q := fun r => r.1 < total + 2 ∧ Inv r.2) ?_ ?_
  · refine GS.tryCatch (findFree_lt hS _ _ _ _ hs) (fun e => ?_)
    repeat (first
      | exact GS.fail _
      | (refine (findFree_lt hS _ _ _ _ hs).weaken ?_
         rintro ⟨c, s1⟩ ⟨h1, h2⟩
         exact ⟨by dsimp only at h1 ⊢; omega, h2⟩)
      | split)
  · rintro ⟨newC, s1⟩ ⟨hlt, hs1⟩
    dsimp only
    refine GS.bind (set_gs hS _ _ _ _ hs1) (fun s2 hs2 => ?_)
    refine GS.bind (Q := Inv) ?_ (fun s3 _ => GS.pure hlt)
    split
    · exact set_gs hS _ _ _ _ hs2
    · exact GS.pure hs2

end generic
end Table

/-- `FileSystem::alloc_cluster` returns a cluster number below `total_clusters + 2` -/
theorem allocClusterFs_lt {fs0 : FsState} {sz : Nat} (hfit : DevFits fs0 sz) (prev : Option Nat) (zero : Bool) :
    GS fs0 sz (WClass fs0) (allocClusterFs prev zero) (fun c => c < fs0.totalClusters + 2) := by
  unfold allocClusterFs
  refine GS.bind GS.getFs (fun fs hfs => ?_)
  refine GS.bind (Table.allocCluster_lt (fatStrm_gs hfit) _ _ _ _ _ (fatSlice_inv hfs)) ?_
  rintro ⟨c, sl⟩ hc
  dsimp only at hc ⊢
  rw [← hfs.proj FsState.totalClusters] at hc
  have hrest : GS fs0 sz (WClass fs0) (do
      let fs ← Prog.getFs
      match fs.fsInfo.free with
      | some 0 => Prog.fail Err.panic
      | _ =>
        let nextFree := if c + 1 < fs.totalClusters + 2 then c + 1 else 2
        Prog.setFs { fs with fsInfo := ({ fs.fsInfo with next := some nextFree, dirty := true }).mapFree (· - 1) }
        pure c) (fun r => r < fs0.totalClusters + 2) := by
    refine GS.bind GS.getFs (fun fs2 hfs2 => ?_)
    split
    · exact GS.fail _
    · exact GS.bind (GS.setFs hfs2) (fun _ _ => GS.pure hc)
  split
  · refine GS.bind (GS.of_ro (fun fs' => offsetFromClusterP_ro fs' fs c)) ?_
    rintro off ⟨hc2, rfl⟩
    refine GS.seek_unit (PU.writeZeros _ _) ?_ (fun _ => hrest)
    intro o b h1 h2
    exact .cluster ⟨c, hc2, by rw [← clusterOff_geom hfs]; exact h1,
      by rw [← clusterOff_geom hfs, ← clusterSize_geom hfs]; exact h2⟩
  · exact hrest

end FatVerif
